//! C07 — nearest-neighbour indices: linear scan, k-d tree, ball tree of `linfa-nn`.
//!
//! Every request carries the whole point set (hex floats), so the Lean driver rebuilds the same
//! batch.  For the ball tree the request also carries the splits the real tree took (read through
//! the `verif_hooks_c07::dump` hook): `order_stat::kth_by` is a parameter of the model, and the
//! driver checks each split against the specification of `partition`.
//!
//! Canonical answers (ties may be broken arbitrarily by the property):
//!   knn   -> `ok n=<count> d=<reduced distances in returned order> strict=<sorted positions nearer than the last>`
//!   range -> `ok pos=<sorted positions>`
//!   tree  -> `ok split=ok <pre-order node dump>`
//! The oracle recomputes the property from first principles (own distance code, brute force).
//!
//! Calling forms (`lay=` / `qlay=` / `form=` in the request; the model sees the logical values only):
//!   batch  `c` owned C-order `Array2`, `f` owned Fortran-order `Array2`, `strided` an `ArrayView2` with
//!          stride 2 on both axes cut out of a larger array, `t` the transposed view of a `(d, n)` array,
//!          `rev` a view with NEGATIVE strides on both axes (`slice(s![..;-1, ..;-1])` of the mirrored array:
//!          contiguous in memory order, reversed in logical order);
//!   query  `c` contiguous `Array1` view, `strided` a column of a `(d, 2)` matrix, `rev` a stride -1 view;
//!   build  `leaf` = `from_batch_with_leaf_size`, `default` = `from_batch` (leaf size 2^4);
//!   `pre=<j>`  the compared query is the (j+1)-th query on ONE index: j warm-up queries (other points, other
//!          k / radius) are issued on the same index first (an index that carries state between queries shows).
//! `default` op: the leaf size the provided method `NearestNeighbour::from_batch` passes on (read through a
//! probe implementation of the trait), against the model's `defaultLeaf`.
use crate::util::*;
use linfa_nn::distance::{Distance, L1Dist, L2Dist, LInfDist, LpDist};
use linfa_nn::{BallTreeIndex, BuildError, CommonNearestNeighbour, NearestNeighbour, NnError};
use ndarray::{s, Array1, Array2, ArrayBase, ArrayView1, Data, Ix2, ShapeBuilder};

trait Sc: linfa::Float {
    const TY: &'static str;
    fn hx(self) -> String;
    fn wide(self) -> f64;
    fn from64(x: f64) -> Self;
    fn same_bits(self, o: Self) -> bool;
}
impl Sc for f64 {
    const TY: &'static str = "f64";
    fn hx(self) -> String {
        hex64(self)
    }
    fn wide(self) -> f64 {
        self
    }
    fn from64(x: f64) -> Self {
        x
    }
    fn same_bits(self, o: Self) -> bool {
        self.to_bits() == o.to_bits()
    }
}
impl Sc for f32 {
    const TY: &'static str = "f32";
    fn hx(self) -> String {
        hex32(self)
    }
    fn wide(self) -> f64 {
        self as f64
    }
    fn from64(x: f64) -> Self {
        x as f32
    }
    fn same_bits(self, o: Self) -> bool {
        self.to_bits() == o.to_bits()
    }
}

#[derive(Clone, Copy, Debug, PartialEq)]
enum Met {
    L1,
    L2,
    Linf,
    Lp(f64),
}
impl Met {
    fn name(&self) -> &'static str {
        match self {
            Met::L1 => "l1",
            Met::L2 => "l2",
            Met::Linf => "linf",
            Met::Lp(_) => "lp",
        }
    }
    fn p(&self) -> f64 {
        match self {
            Met::Lp(p) => *p,
            _ => 2.0,
        }
    }
    fn approx(&self) -> bool {
        matches!(self, Met::Lp(_))
    }
}

macro_rules! with_metric {
    ($met:expr, $F:ty, $d:ident => $body:expr) => {
        match $met {
            Met::L1 => {
                let $d = L1Dist;
                $body
            }
            Met::L2 => {
                let $d = L2Dist;
                $body
            }
            Met::Linf => {
                let $d = LInfDist;
                $body
            }
            Met::Lp(p) => {
                let $d = LpDist(<$F as Sc>::from64(p));
                $body
            }
        }
    };
}

#[derive(Clone, Copy, Debug, PartialEq)]
enum Kind {
    Linear,
    Kd,
    Ball,
}
impl Kind {
    fn name(&self) -> &'static str {
        match self {
            Kind::Linear => "linear",
            Kind::Kd => "kd",
            Kind::Ball => "ball",
        }
    }
    fn builder(&self) -> CommonNearestNeighbour {
        match self {
            Kind::Linear => CommonNearestNeighbour::LinearSearch,
            Kind::Kd => CommonNearestNeighbour::KdTree,
            Kind::Ball => CommonNearestNeighbour::BallTree,
        }
    }
}
const KINDS: [Kind; 3] = [Kind::Linear, Kind::Kd, Kind::Ball];

/// memory layout of the query point
#[derive(Clone, Copy, Debug, PartialEq)]
enum QLay {
    C,
    Strided,
    Rev,
}
impl QLay {
    fn name(&self) -> &'static str {
        match self {
            QLay::C => "c",
            QLay::Strided => "strided",
            QLay::Rev => "rev",
        }
    }
}

/// memory layout / calling form of the batch
#[derive(Clone, Copy, Debug, PartialEq)]
enum Lay {
    C,
    F,
    Strided,
    T,
    Rev,
}
impl Lay {
    fn name(&self) -> &'static str {
        match self {
            Lay::C => "c",
            Lay::F => "f",
            Lay::Strided => "strided",
            Lay::T => "t",
            Lay::Rev => "rev",
        }
    }
}

/// value that no generated coordinate takes: fills the gaps of the strided forms
const SENTINEL: f64 = 7.0e3 + 0.125;

/// run `f` on the batch in the requested physical form (same logical values)
macro_rules! with_batch {
    ($pts:expr, $lay:expr, $F:ty, $b:ident => $body:expr) => {{
        let pts: &Array2<$F> = $pts;
        let (n, d) = pts.dim();
        match $lay {
            Lay::C => {
                let $b = pts;
                $body
            }
            Lay::F => {
                let mut store: Array2<$F> = Array2::zeros((n, d).f());
                store.assign(pts);
                let $b = &store;
                $body
            }
            Lay::Strided => {
                let mut store: Array2<$F> = Array2::from_elem((2 * n + 1, 2 * d + 1), <$F as Sc>::from64(SENTINEL));
                store.slice_mut(s![1..2 * n + 1;2, 1..2 * d + 1;2]).assign(pts);
                let view = store.slice(s![1..2 * n + 1;2, 1..2 * d + 1;2]);
                let $b = &view;
                $body
            }
            Lay::T => {
                let mut store: Array2<$F> = Array2::zeros((d, n));
                store.assign(&pts.t());
                let view = store.t();
                let $b = &view;
                $body
            }
            Lay::Rev => {
                // the mirrored array seen through negative strides: same logical values, rows and
                // coordinates run backwards in memory (contiguous in memory order, not in logical order)
                let store: Array2<$F> = Array2::from_shape_fn((n, d), |(i, j)| pts[(n - 1 - i, d - 1 - j)]);
                let view = store.slice(s![..;-1, ..;-1]);
                let $b = &view;
                $body
            }
        }
    }};
}

/// first-principles distance (not the reduced one) on widened coordinates
fn own_dist(met: Met, a: &[f64], b: &[f64]) -> f64 {
    match met {
        Met::L1 => a.iter().zip(b).map(|(x, y)| (x - y).abs()).sum(),
        Met::L2 => {
            // scaled by a power of two (exact) so that neither the squares nor their sum overflow /
            // underflow; bit-identical to the unscaled formula whenever that one stays in range
            let m = a.iter().zip(b).map(|(x, y)| (x - y).abs()).fold(0.0, f64::max);
            if m == 0.0 || !m.is_finite() {
                m
            } else {
                let sc = 2f64.powi(m.log2().floor() as i32);
                sc * a.iter().zip(b).map(|(x, y)| ((x - y) / sc) * ((x - y) / sc)).sum::<f64>().sqrt()
            }
        }
        Met::Linf => a.iter().zip(b).map(|(x, y)| (x - y).abs()).fold(0.0, f64::max),
        Met::Lp(p) => {
            // the plain formula (the one the implementation uses) wherever the sum of powers is a finite
            // normal number; scaled by the largest difference otherwise (edge stream only)
            let sum = a.iter().zip(b).map(|(x, y)| (x - y).abs().powf(p)).sum::<f64>();
            let m = a.iter().zip(b).map(|(x, y)| (x - y).abs()).fold(0.0, f64::max);
            if (sum.is_finite() && sum > 1e-280) || m == 0.0 || !m.is_finite() {
                sum.powf(1.0 / p)
            } else {
                m * a.iter().zip(b).map(|(x, y)| ((x - y).abs() / m).powf(p)).sum::<f64>().powf(1.0 / p)
            }
        }
    }
}

fn wide_row<F: Sc>(r: ArrayView1<F>) -> Vec<f64> {
    r.iter().map(|x| x.wide()).collect()
}

struct Setup<F: Sc> {
    pts: Array2<F>,
    met: Met,
    leaf: usize,
    /// relative tolerance of the oracle (0 on lattice inputs of an exactly computed metric)
    tol: f64,
    tag: &'static str,
    lay: Lay,
    /// `from_batch` (default leaf size) instead of `from_batch_with_leaf_size`
    default_form: bool,
    /// number of warm-up queries issued on the same index before the compared one
    pre: usize,
}

impl<F: Sc> Setup<F> {
    fn n(&self) -> usize {
        self.pts.nrows()
    }
    fn ncols(&self) -> usize {
        self.pts.ncols()
    }
    fn head(&self) -> String {
        let rows: Vec<Vec<F>> = self.pts.rows().into_iter().map(|r| r.to_vec()).collect();
        format!("ty={} metric={} p={} ncols={} leaf={} lay={} form={} pre={} pts={}", F::TY, self.met.name(), F::from64(self.met.p()).hx(), self.ncols(), self.leaf, self.lay.name(), if self.default_form { "default" } else { "leaf" }, self.pre, list2(rows.iter().map(|r| r.iter().copied()), |x: F| x.hx()))
    }
    fn buildable(&self) -> bool {
        self.leaf >= 1 && self.ncols() >= 1
    }
    fn show_d(&self, x: F) -> String {
        if self.met.approx() {
            format!("~{}", hex64(x.wide()))
        } else {
            x.hx()
        }
    }
    /// splits of the real ball tree: `centerpos;left;right|…` + the pre-order dump
    fn script_and_dump(&self) -> Option<(String, String, Vec<(Vec<f64>, f64, Vec<usize>)>)> {
        if !self.buildable() {
            return None;
        }
        // a build that fails here although `buildable()` is reported by the ball query cases
        // (`no_error_on_valid`) and by the coverage floor on `op:tree`
        let nodes = with_batch!(&self.pts, self.lay, F, b => with_metric!(self.met, F, d => {
            let ix = BallTreeIndex::new(b, self.leaf, d).ok()?;
            linfa_nn::verif_hooks_c07::dump(&ix)
        }));
        // recursive descent over the pre-order list
        fn go<F: Sc>(nodes: &[linfa_nn::verif_hooks_c07::NodeDump<F>], at: &mut usize, pts: &Array2<F>, script: &mut Vec<String>, balls: &mut Vec<(Vec<f64>, f64, Vec<usize>)>) -> Vec<usize> {
            let me = *at;
            *at += 1;
            let nd = &nodes[me];
            if nd.leaf {
                balls.push((nd.center.iter().map(|x| x.wide()).collect(), nd.radius.wide(), nd.members.clone()));
                return nd.members.clone();
            }
            let slot = script.len();
            script.push(String::new());
            let bslot = balls.len();
            balls.push((nd.center.iter().map(|x| x.wide()).collect(), nd.radius.wide(), vec![]));
            let l = go(nodes, at, pts, script, balls);
            let r = go(nodes, at, pts, script, balls);
            let mut all = l.clone();
            all.extend(r.iter().copied());
            let cpos = all.iter().copied().find(|i| pts.row(*i).iter().zip(nd.center.iter()).all(|(a, b)| a.same_bits(*b))).unwrap_or(usize::MAX);
            script[slot] = format!("{};{};{}", if cpos == usize::MAX { "x".to_string() } else { cpos.to_string() }, list(l.iter(), |x| x.to_string()), list(r.iter(), |x| x.to_string()));
            balls[bslot].2 = all.clone();
            all
        }
        let mut script = vec![];
        let mut balls = vec![];
        let mut at = 0;
        go(&nodes, &mut at, &self.pts, &mut script, &mut balls);
        let f = |x: F| self.show_d(x);
        let dump = nodes
            .iter()
            .map(|nd| format!("{}/{}/{}/{}", if nd.leaf { "L" } else { "B" }, list(nd.center.iter().copied(), f), f(nd.radius), if nd.leaf { list(nd.members.iter(), |x| x.to_string()) } else { "-".to_string() }))
            .collect::<Vec<_>>()
            .join("|");
        Some((script.join("|"), dump, balls))
    }
}

/// smallest relative gap between different values (same formula as the driver's `marginOf`)
fn margin_of(mut v: Vec<f64>) -> f64 {
    v.sort_by(|a, b| a.partial_cmp(b).unwrap());
    let mut m = 1.0f64;
    for w in v.windows(2) {
        if w[0] < w[1] {
            let den = if w[1].abs() < 1e-300 { 1e-300 } else { w[1].abs() };
            let g = (w[1] - w[0]) / den;
            if g < m {
                m = g;
            }
        }
    }
    m
}

#[derive(Clone, Copy)]
enum Q<F> {
    Knn(usize),
    Range(F),
}

type Answer = Result<Vec<(Vec<u64>, Vec<f64>, usize)>, String>; // (bits as u64, widened coords, pos)

/// run the real index on one physical form of the batch
fn run_on<F: Sc, DT: Data<Elem = F>>(batch: &ArrayBase<DT, Ix2>, s: &Setup<F>, kind: Kind, q: &[F], ql: QLay, what: Q<F>) -> (Answer, Vec<F>, Vec<F>, F) {
    // returns answer, reduced distances of the returned points, reduced distances of all rows, toR(r)
    let qa = Array1::from(q.to_vec());
    let qm: Array2<F> = Array2::from_shape_fn((q.len(), 2), |(i, j)| if j == 1 { q[i] } else { F::from64(SENTINEL) });
    let qrev: Array1<F> = Array1::from(q.iter().rev().copied().collect::<Vec<F>>());
    let qv: ArrayView1<F> = match ql {
        QLay::C => qa.view(),
        QLay::Strided => qm.column(1),
        QLay::Rev => qrev.slice(s![..;-1]),
    };
    with_metric!(s.met, F, d => {
        let all_rd: Vec<F> = if q.len() == s.ncols() && s.ncols() > 0 { s.pts.rows().into_iter().map(|r| d.rdistance(qa.view(), r)).collect() } else { vec![] };
        let rr = match what { Q::Range(r) => d.dist_to_rdist(r), _ => F::zero() };
        let built = if s.default_form { kind.builder().from_batch(batch, d.clone()) } else { kind.builder().from_batch_with_leaf_size(batch, s.leaf, d.clone()) };
        let ix = match built {
            Ok(ix) => ix,
            Err(BuildError::EmptyLeaf) => return (Err("err EmptyLeaf".into()), vec![], all_rd, rr),
            Err(BuildError::ZeroDimension) => return (Err("err ZeroDimension".into()), vec![], all_rd, rr),
        };
        // warm-up queries on the SAME index (other points, other and the same k / radius): an index that
        // carried state from one query to the next (a cache keyed on k, a lazily built structure) would
        // answer the compared query differently from a fresh index
        for j in 0..s.pre {
            let wp: Array1<F> = if s.n() > 0 { s.pts.row(j % s.n()).to_owned() } else { qa.clone() };
            let _ = ix.k_nearest(wp.view(), j + 1);
            let _ = ix.within_range(wp.view(), F::one());
            match what {
                Q::Knn(k) => drop(ix.k_nearest(wp.view(), k)),
                Q::Range(r) => drop(ix.within_range(wp.view(), r)),
            }
        }
        let res = match what {
            Q::Knn(k) => ix.k_nearest(qv, k),
            Q::Range(r) => ix.within_range(qv, r),
        };
        match res {
            Err(NnError::WrongDimension) => (Err("err WrongDimension".into()), vec![], all_rd, rr),
            Ok(v) => {
                let rds: Vec<F> = v.iter().map(|(p, _)| d.rdistance(qa.view(), p.reborrow())).collect();
                let out = v.iter().map(|(p, i)| (p.iter().map(|x| x.wide().to_bits()).collect(), wide_row(p.reborrow()), *i)).collect();
                (Ok(out), rds, all_rd, rr)
            }
        }
    })
}

/// run the real index; returns `Err("err …")` for reported errors
fn run_real<F: Sc>(s: &Setup<F>, kind: Kind, q: &[F], ql: QLay, what: Q<F>) -> (Answer, Vec<F>, Vec<F>, F) {
    with_batch!(&s.pts, s.lay, F, b => run_on(b, s, kind, q, ql, what))
}

fn query_case<F: Sc>(em: &mut Em, s: &Setup<F>, kind: Kind, q: &[F], ql: QLay, what: Q<F>, script: &Option<String>) {
    let n = s.n();
    let qlay = ql;
    let ql = qlay.name();
    let mut op = match what {
        Q::Knn(k) => format!("knn {} kind={} qlay={} q={} k={}", s.head(), kind.name(), ql, list(q.iter().copied(), |x: F| x.hx()), k),
        Q::Range(r) => format!("range {} kind={} qlay={} q={} r={}", s.head(), kind.name(), ql, list(q.iter().copied(), |x: F| x.hx()), r.hx()),
    };
    if kind == Kind::Ball {
        if let Some(sc) = script {
            op.push_str(&format!(" script={}", sc));
        }
    }
    let well_formed = s.buildable() && q.len() == s.ncols();
    let opn = if matches!(what, Q::Knn(_)) { "knn" } else { "range" };
    let lay_key = format!("{}:{}", s.lay.name(), ql);
    // the defects present (several may coincide); the statement asks for *an* error, so any of the
    // kinds that names a defect actually present is accepted (one defect: exactly its kind)
    let mut applicable: Vec<&'static str> = vec![];
    if s.leaf == 0 && !s.default_form {
        applicable.push("err EmptyLeaf");
    }
    if s.ncols() == 0 {
        applicable.push("err ZeroDimension");
    }
    if q.len() != s.ncols() {
        applicable.push("err WrongDimension");
    }
    let class = if !well_formed {
        format!("malformed:{}:{}", kind.name(), applicable.iter().map(|e| match *e { "err EmptyLeaf" => "leaf=0", "err ZeroDimension" => "ncols=0", _ => "qdim" }).collect::<Vec<_>>().join("+"))
    } else {
        match what {
            Q::Knn(0) if n > 0 => format!("knn:{}:k=0", kind.name()),
            _ => format!("{}:{}:{}:{}", opn, kind.name(), s.met.name(), s.tag),
        }
    };
    em.count(&format!("kind:{}", kind.name()));
    em.count(&format!("metric:{}", s.met.name()));
    em.count(&format!("ty:{}", F::TY));
    em.count(&format!("gen:{}", s.tag));
    if !well_formed {
        em.count("malformed");
    }
    let cls = class.clone();
    let before = em.outs.len();
    em.case_valid(op, &class, move |ctx| {
        let (ans, rds, all_rd, rr) = run_real(s, kind, q, qlay, what);
        let out = match ans {
            Err(e) => {
                ctx.require(!well_formed, "no_error_on_valid", &cls, || format!("well-formed build/query answered {}", e));
                if !well_formed {
                    ctx.require(applicable.contains(&e.as_str()), "errors", &cls, || format!("malformed input reported as `{}`, the defects present are {:?}", e, applicable));
                    if applicable.len() > 1 {
                        // which of several coinciding defects is named is not promised by the statement
                        // (each kind has its own order of guards): not compared with the model
                        return "err multiple".to_string();
                    }
                }
                return e;
            }
            Ok(o) => o,
        };
        ctx.require(well_formed, "errors", &cls, || format!("malformed build/query was answered with {} points instead of an error", out.len()));
        if !well_formed {
            return format!("ok answered n={}", out.len());
        }
        // ---- oracle, from first principles
        let qw: Vec<f64> = q.iter().map(|x| x.wide()).collect();
        let rows: Vec<Vec<f64>> = s.pts.rows().into_iter().map(wide_row).collect();
        let own_all: Vec<f64> = rows.iter().map(|r| own_dist(s.met, &qw, r)).collect();
        let mut seen = vec![false; n];
        for (bits, _, pos) in &out {
            if *pos >= n {
                ctx.fail("coords_position", &cls, format!("returned position {} out of range (n={})", pos, n));
                continue;
            }
            let want: Vec<u64> = rows[*pos].iter().map(|x| x.to_bits()).collect();
            ctx.require(&want == bits, "coords_position", &cls, || format!("returned coordinates differ from batch row {}", pos));
            ctx.require(!seen[*pos], "distinct", &cls, || format!("row {} returned twice", pos));
            seen[*pos] = true;
        }
        let own_out: Vec<f64> = out.iter().filter(|(_, _, p)| *p < n).map(|(_, _, p)| own_all[*p]).collect();
        let close = |a: f64, b: f64| (a - b).abs() <= s.tol * a.abs().max(b.abs());
        // open finding C07-balltree-ulp-pruning: the ball tree may miss a point within a rounding of the
        // radius / of the k-th distance.  Those cases are reported (and counted against the ceiling) by the
        // `#agree` case of the same query under the listed class `…:ball:ulp`; here the two clauses that
        // would name the same loss a second time leave the same band free FOR THE BALL TREE ONLY.
        let band = if F::TY == "f32" { 1e-6 } else { 4e-15 };
        let miss_tol = if kind == Kind::Ball { s.tol.max(band) } else { s.tol };
        let close_miss = |a: f64, b: f64| (a - b).abs() <= miss_tol * a.abs().max(b.abs());
        match what {
            Q::Knn(k) => {
                ctx.require(out.len() == k.min(n), "count", &cls, || format!("{} points returned, min(k,n) = {} (k={}, n={})", out.len(), k.min(n), k, n));
                ctx.require(own_out.windows(2).all(|w| w[0] <= w[1] || close(w[0], w[1])), "ascending", &cls, || format!("distances not ascending: {:?}", own_out));
                let mut want = own_all.clone();
                want.sort_by(|a, b| a.partial_cmp(b).unwrap());
                want.truncate(k.min(n));
                let mut got = own_out.clone();
                got.sort_by(|a, b| a.partial_cmp(b).unwrap());
                ctx.require(got.len() == want.len() && got.iter().zip(&want).all(|(a, b)| a == b || close_miss(*a, *b)), "true_k_nearest", &cls, || format!("returned distances {:?}, true k nearest {:?}", got, want));
                if out.is_empty() {
                    ctx.mark_trivial();
                }
                let strict: Vec<usize> = match rds.last() {
                    None => vec![],
                    Some(last) => (0..n).filter(|i| all_rd[*i] < *last).collect(),
                };
                let margin = if s.met.approx() { format!(" margin=~{}", hex64(margin_of(all_rd.iter().map(|x| x.wide()).collect()))) } else { String::new() };
                format!("ok n={} d={} strict={}{}", out.len(), list(rds.iter().copied(), |x| s.show_d(x)), list(strict, |x| x.to_string()), margin)
            }
            Q::Range(r) => {
                let rw = r.wide();
                for i in 0..n {
                    let d = own_all[i];
                    if d < rw && !close_miss(d, rw) {
                        ctx.require(seen[i], "inside_included", &cls, || format!("row {} at distance {} < radius {} missing", i, d, rw));
                    }
                    if d > rw && !close(d, rw) {
                        ctx.require(!seen[i], "outside_excluded", &cls, || format!("row {} at distance {} > radius {} returned", i, d, rw));
                    }
                }
                let mut pos: Vec<usize> = out.iter().map(|(_, _, p)| *p).collect();
                pos.sort();
                let margin = if s.met.approx() {
                    let mut v: Vec<f64> = all_rd.iter().map(|x| x.wide()).collect();
                    v.push(rr.wide());
                    format!(" margin=~{}", hex64(margin_of(v)))
                } else {
                    String::new()
                };
                format!("ok pos={}{}", list(pos, |x| x.to_string()), margin)
            }
        }
    });
    // Lp requests whose decision margin is below the comparison's `min_margin` are not compared with the
    // model: counted here (same number the comparison reads off the response), bounded by `ceilings`
    if well_formed && s.met.approx() && em.outs.len() > before {
        em.count("lp:requests");
        if let Some(m) = em.outs[before].split(" margin=~").nth(1) {
            if let Ok(bits) = u64::from_str_radix(m.trim(), 16) {
                if f64::from_bits(bits) < 1e-7 {
                    em.count("lp:margin<1e-7");
                } else {
                    em.count("lp:compared");
                }
            }
        }
    }
    // success-like outcomes, for the coverage floors (conf "floors")
    if well_formed && em.outs.len() > before && em.outs[before].starts_with("ok") {
        em.count(&format!("ok:{}:{}", opn, kind.name()));
        em.count(&format!("ok:lay:{}:{}", lay_key, kind.name()));
        em.count(&format!("ok:ty:{}:{}", F::TY, s.met.name()));
        if s.default_form {
            em.count(&format!("ok:form:default:{}", kind.name()));
        }
        if n > 512 {
            em.count(&format!("ok:big:{}", kind.name()));
        }
        if s.pre > 0 {
            em.count(&format!("ok:pre:{}", kind.name()));
        }
        if matches!(what, Q::Knn(k) if k > n + 2) {
            em.count(&format!("ok:khuge:{}", kind.name()));
        }
    }
}

/// the three kinds answer the same query interchangeably (oracle only)
fn agree_case<F: Sc>(em: &mut Em, s: &Setup<F>, q: &[F], ql: QLay, what: Q<F>) {
    if !(s.buildable() && q.len() == s.ncols()) {
        return;
    }
    let qlay = ql;
    let ql = qlay.name();
    let op = match what {
        Q::Knn(k) => format!("#agree knn {} qlay={} q={} k={}", s.head(), ql, list(q.iter().copied(), |x: F| x.hx()), k),
        Q::Range(r) => format!("#agree range {} qlay={} q={} r={}", s.head(), ql, list(q.iter().copied(), |x: F| x.hx()), r.hx()),
    };
    em.case(op, move |ctx| {
        // per kind: canonical string, sorted positions, widened reduced distances of the answer
        let mut canon: Vec<(Kind, String, Vec<usize>, Vec<f64>)> = vec![];
        let mut border = false;
        for kind in KINDS {
            let r = std::panic::catch_unwind(std::panic::AssertUnwindSafe(|| run_real(s, kind, q, qlay, what)));
            let c = match r {
                Err(_) => ("panic".to_string(), vec![], vec![]),
                Ok((Err(e), ..)) => (e, vec![], vec![]),
                Ok((Ok(out), rds, all_rd, rr)) => {
                    let mut pos: Vec<usize> = out.iter().map(|(_, _, p)| *p).collect();
                    pos.sort();
                    let w: Vec<f64> = rds.iter().map(|x| x.wide()).collect();
                    match what {
                        Q::Knn(_) => (format!("n={} d={}", out.len(), list(rds.iter().copied(), |x: F| x.hx())), pos, w),
                        Q::Range(_) => {
                            border = all_rd.iter().any(|d| *d == rr);
                            (format!("pos={}", list(pos.iter(), |x| x.to_string())), pos, w)
                        }
                    }
                }
            };
            canon.push((kind, c.0, c.1, c.2));
        }
        // Open finding C07-balltree-ulp-pruning: the pruning bound of the ball tree is computed in
        // floating point and can exceed the true reduced distance by a rounding, so the ball tree
        // may MISS points within a few ulps of the radius.  Only that shape is classed `ulp`: the
        // kind is the ball tree, it answered (no error, no panic), its answer is a subset of the
        // linear one (never an extra point), and every missing row lies within 4e-15 (f64) / 1e-6
        // (f32) relative of the radius (k nearest: same count, distances equal to that precision; the
        // bound `distance(q, c) - radius` cancels, so its error is a few ulps of the larger operand,
        // not of the difference).  Anything else is `interior` / `k>0`.
        let band = if F::TY == "f32" { 1e-6 } else { 4e-15 };
        let qw: Vec<f64> = q.iter().map(|x| x.wide()).collect();
        let rows: Vec<Vec<f64>> = s.pts.rows().into_iter().map(wide_row).collect();
        let (_, base, base_pos, base_d) = canon[0].clone();
        for (kind, c, pos, dd) in &canon[1..] {
            if *c == base {
                continue;
            }
            let answered = c.starts_with("pos=") || c.starts_with("n=");
            let (clause, class) = match what {
                Q::Knn(k) => {
                    let near = dd.len() == base_d.len() && dd.iter().zip(&base_d).all(|(a, b)| (a - b).abs() <= band * a.abs().max(b.abs()));
                    ("indices_agree", format!("knn:{}:{}", kind.name(), if k == 0 { "k=0" } else if near && answered && *kind == Kind::Ball { "ulp" } else { "k>0" }))
                }
                Q::Range(r) => {
                    let rw = r.wide();
                    let missing: Vec<usize> = (0..rows.len()).filter(|i| !pos.contains(i) && base_pos.contains(i)).collect();
                    let extra = (0..rows.len()).any(|i| pos.contains(&i) && !base_pos.contains(&i));
                    let near = !missing.is_empty() && !extra && missing.iter().all(|i| (own_dist(s.met, &qw, &rows[*i]) - rw).abs() <= band * rw.abs());
                    if border {
                        ("indices_agree_on_border", format!("range:{}:border", kind.name()))
                    } else if near && answered && *kind == Kind::Ball {
                        ("indices_agree", format!("range:{}:ulp", kind.name()))
                    } else {
                        ("indices_agree", format!("range:{}:interior", kind.name()))
                    }
                }
            };
            ctx.fail(clause, &class, format!("linear scan answers `{}`, {} answers `{}`", base, kind.name(), c));
        }
        String::new()
    });
    em.count("agree");
}

fn tree_case<F: Sc>(em: &mut Em, s: &Setup<F>) -> Option<String> {
    let (script, dump, balls) = s.script_and_dump()?;
    let op = format!("tree {} script={}", s.head(), script);
    let cls = format!("tree:{}:{}", s.met.name(), s.tag);
    let sc = script.clone();
    em.case_valid(op, &cls.clone(), move |ctx| {
        let rows: Vec<Vec<f64>> = s.pts.rows().into_iter().map(wide_row).collect();
        // state invariant: every point of a subtree lies within `radius` of `center`
        for (c, rad, members) in &balls {
            for i in members {
                let d = own_dist(s.met, &rows[*i], c);
                ctx.require(d <= *rad * (1.0 + s.tol.max(if F::TY == "f32" { 1e-5 } else { 1e-12 })) + (if F::TY == "f32" { 1e-6 } else { 1e-13 }) * c.iter().fold(1.0, |m: f64, x| m.max(x.abs())), "ball_inv", &cls, || format!("row {} at distance {} from centre {:?}, radius {}", i, d, c, rad));
            }
        }
        if let Some((_, _, root)) = balls.first() {
            let mut m = root.clone();
            m.sort();
            ctx.require(m == (0..s.n()).collect::<Vec<_>>(), "tree_partition", &cls, || format!("tree stores rows {:?} of {}", m, s.n()));
        }
        format!("ok split=ok {}", dump)
    });
    Some(sc)
}

// ------------------------------------------------------------------ generators

/// magnitude classes: `finite` streams stay inside the range where squares / p-th powers neither
/// overflow nor underflow; `edge` streams put the SQUARE of a coordinate difference at the very end of
/// the carrier's range (still finite and normal, so every clause of the statement applies)
fn pow2(e: i32) -> f64 {
    2f64.powi(e)
}

fn gen_cloud(rng: &mut Rng, thorough: bool, is32: bool) -> (Vec<Vec<f64>>, usize, bool, &'static str) {
    // returns rows, ncols, lattice?, tag
    let big = if thorough { rng.chance(1, 6) } else { rng.chance(1, 14) };
    let d = match rng.below(10) {
        0..=2 => 1,
        3..=5 => 2,
        6..=7 => 3,
        8 => 1 + rng.below(6),
        _ => 1 + rng.below(16),
    };
    let n = match rng.below(12) {
        0 => 0,
        1 => 1,
        2 => 2,
        3..=8 => 3 + rng.below(if big { 60 } else { 14 }),
        _ => 10 + rng.below(if big { if thorough { 240 } else { 150 } } else { 22 }),
    };
    let style = rng.below(12);
    let mut rows = vec![];
    let (lattice, tag): (bool, &'static str) = match style {
        0 => {
            // all equal
            let p: Vec<f64> = (0..d).map(|_| rng.range(-2, 2) as f64).collect();
            for _ in 0..n {
                rows.push(p.clone());
            }
            (true, "allequal")
        }
        1 | 2 => {
            // heavy duplicates: draw from a pool of 1..3 points
            let pool: Vec<Vec<f64>> = (0..1 + rng.below(3)).map(|_| (0..d).map(|_| rng.range(-3, 3) as f64).collect()).collect();
            for _ in 0..n {
                rows.push(rng.pick(&pool).clone());
            }
            (true, "duplicates")
        }
        3 | 4 | 5 => {
            // small integer lattice: many equidistant ties
            let w = 1 + rng.below(4) as i64;
            for _ in 0..n {
                rows.push((0..d).map(|_| rng.range(-w, w) as f64).collect());
            }
            (true, "lattice")
        }
        6 => {
            // half-integer lattice
            for _ in 0..n {
                rows.push((0..d).map(|_| rng.range(-8, 8) as f64 / 2.0).collect());
            }
            (true, "halflattice")
        }
        7 => {
            // pythagorean rings around the origin (points exactly on a radius for L2)
            let ring: [(i64, i64); 12] = [(3, 4), (4, 3), (-3, 4), (5, 0), (0, 5), (0, -5), (-4, -3), (6, 8), (8, 6), (5, 12), (0, 0), (1, 1)];
            for _ in 0..n {
                let (a, b) = *rng.pick(&ring);
                let mut p = vec![0.0; d];
                p[0] = a as f64;
                if d > 1 {
                    p[1] = b as f64;
                }
                rows.push(p);
            }
            (true, "rings")
        }
        8 => {
            // clustered real-valued cloud
            let centers: Vec<Vec<f64>> = (0..1 + rng.below(3)).map(|_| (0..d).map(|_| (rng.unit() - 0.5) * 20.0).collect()).collect();
            for _ in 0..n {
                let c = rng.pick(&centers).clone();
                rows.push(c.iter().map(|x| x + (rng.unit() - 0.5) * 0.5).collect());
            }
            (false, "clustered")
        }
        9 => {
            // huge: an integer lattice scaled by a power of two so that squared differences sit just
            // below the overflow threshold of the carrier (f32: 2^127, f64: 2^1023); sums of up to 16
            // such squares of lattice width 3 stay finite: (6 * 2^e)^2 * 16 = 2^(2e + 9.2)
            let e = if is32 { 55 + rng.below(4) as i32 } else { 500 + rng.below(6) as i32 };
            for _ in 0..n {
                rows.push((0..d).map(|_| rng.range(-3, 3) as f64 * pow2(e)).collect());
            }
            (true, "huge")
        }
        10 => {
            // tiny: the same lattice scaled down so that squared differences are just above the
            // smallest NORMAL number (f32: 2^-126, f64: 2^-1022)
            let e = if is32 { -62 + rng.below(3) as i32 } else { -510 + rng.below(4) as i32 };
            for _ in 0..n {
                rows.push((0..d).map(|_| rng.range(-3, 3) as f64 * pow2(e)).collect());
            }
            (true, "tiny")
        }
        _ => {
            // uniform cloud on a random scale
            let scale = 10f64.powi(rng.range(-3, 3) as i32);
            let off = if rng.coin() { 0.0 } else { scale * 100.0 };
            for _ in 0..n {
                rows.push((0..d).map(|_| off + (rng.unit() - 0.5) * scale).collect());
            }
            (false, "uniform")
        }
    };
    (rows, d, lattice, tag)
}

fn gen_metric(rng: &mut Rng, lattice: bool, tag: &str) -> Met {
    match rng.below(8) {
        0 | 1 => Met::L1,
        2 | 3 | 4 => Met::L2,
        5 => Met::Linf,
        _ if tag == "huge" || tag == "tiny" => Met::L2, // p-th powers leave the range; L2 is the edge case aimed at
        _ => match rng.below(3) {
            0 => Met::Lp(*rng.pick(&[1.0, 2.0, 3.0, 4.0])),
            1 if !lattice => Met::Lp(*rng.pick(&[1.5, 2.5, 3.25])),
            // any exponent >= 1 on the grid of eighths up to 6 (below 1 the triangle inequality fails:
            // not a metric, outside the statement)
            _ => Met::Lp(1.0 + rng.below(41) as f64 / 8.0),
        },
    }
}

/// malformed: bit 0 leaf size 0, bit 1 zero columns, bit 2 wrong query dimension (may coincide)
fn scenario<F: Sc>(em: &mut Em, rng: &mut Rng, rows: &[Vec<f64>], d: usize, lattice: bool, tag: &'static str, met: Met, malformed: u8, big: bool) {
    let n = rows.len();
    let ncols = if malformed & 2 != 0 { 0 } else { d };
    let pts: Array2<F> = Array2::from_shape_fn((n, ncols), |(i, j)| F::from64(rows[i][j]));
    let mut default_form = false;
    let leaf = if malformed & 1 != 0 {
        0
    } else if big {
        // the large clouds: leaf sizes of practical use (the default form among them)
        match rng.below(4) {
            0 => {
                default_form = true;
                16
            }
            1 => 24,
            2 => 40,
            _ => 64,
        }
    } else {
        match rng.below(7) {
            0 => 1,
            1 => 2,
            2 => 1 + rng.below(4),
            3 => 1 + rng.below(n + 2),
            4 => 16,
            5 => {
                default_form = true;
                16
            }
            _ => 1 + rng.below(3),
        }
    };
    let lay = match rng.below(22) {
        0..=8 => Lay::C,
        9..=11 => Lay::F,
        12..=15 => Lay::Strided,
        16..=18 => Lay::T,
        _ => Lay::Rev,
    };
    // one query in four is not the first one on its index
    let pre = if rng.chance(1, 4) { 1 + rng.below(3) } else { 0 };
    // L1 / Linf on lattice points are computed exactly (tolerance 0).  L2 and the generic clouds go
    // through rounding sums / sqrt: the oracle (f64 on the widened coordinates) leaves free only what
    // the carrier's own rounding of the reduced distance can move: (d + 4) ulps of the carrier.  Lp
    // goes through libm pow: 1e-9 / 1e-5.
    let exact = lattice && matches!(met, Met::L1 | Met::Linf);
    let eps = if F::TY == "f32" { 1.2e-7 } else { 2.3e-16 };
    let tol = if exact {
        0.0
    } else if met.approx() {
        if F::TY == "f32" { 1e-5 } else { 1e-9 }
    } else {
        (ncols as f64 + 4.0) * eps
    };
    let s = Setup { pts, met, leaf, tol, tag, lay, default_form, pre };
    if pre > 0 {
        em.count("pre>0");
    }
    if big {
        em.count("big");
    }
    em.count(&format!("lay:{}", lay.name()));
    if n > 36 {
        em.count("n>36");
    }
    let script = tree_case(em, &s);
    let nq = if big { 1 } else if em.thorough() { 3 } else { 2 };
    // scale of the cloud (query points of the huge / tiny streams live on the same scale)
    let unit: f64 = match tag {
        "huge" | "tiny" => rows.iter().flatten().map(|x| x.abs()).filter(|x| *x > 0.0).fold(f64::INFINITY, f64::min).min(1e300).max(1e-300),
        _ => 1.0,
    };
    let unit = if unit == 1e300 { 1.0 } else { unit };
    for _ in 0..nq {
        // query point: a stored point, a lattice point, or a point between
        let mut q: Vec<F> = match rng.below(4) {
            0 if n > 0 && ncols > 0 => s.pts.row(rng.below(n)).to_vec(),
            1 => (0..d).map(|_| F::from64(rng.range(-4, 4) as f64 * unit)).collect(),
            2 => (0..d).map(|_| F::from64(rng.range(-8, 8) as f64 / 2.0 * unit)).collect(),
            _ => {
                if lattice {
                    (0..d).map(|_| F::from64(rng.range(-6, 6) as f64 / 4.0 * unit)).collect()
                } else if n > 0 && ncols > 0 {
                    let base = s.pts.row(rng.below(n)).to_vec();
                    base.iter().map(|x| F::from64(x.wide() + (rng.unit() - 0.5) * 0.1)).collect()
                } else {
                    (0..d).map(|_| F::from64(rng.unit())).collect()
                }
            }
        };
        if tag == "rings" && rng.coin() {
            q = vec![F::zero(); d];
        }
        if malformed & 4 != 0 {
            match rng.below(3) {
                0 => q.clear(),
                1 => {
                    q.pop();
                }
                _ => q.push(F::one()),
            }
        }
        if malformed & 2 != 0 && malformed & 4 == 0 && rng.coin() {
            q.clear();
        }
        let qstrided = match rng.below(6) {
            0 | 1 => QLay::Strided,
            2 => QLay::Rev,
            _ => QLay::C,
        };
        // k values: 0, 1, around n, beyond n
        let mut ks = vec![rng.below(n + 3)];
        match rng.below(5) {
            0 => ks.push(0),
            1 => ks.push(n),
            2 => ks.push(n + 1 + rng.below(2)),
            3 => ks.push(1),
            _ => ks.push(rng.below(n + 1)),
        }
        if em.thorough() {
            ks.push(rng.below(n + 3));
        }
        // "all neighbours": k far beyond n (a result or heap pre-sized by k would overflow / exhaust memory)
        if rng.chance(1, 3) {
            ks.push(*rng.pick(&[usize::MAX, usize::MAX / 2 + 1, 1usize << 62, n + 1000]));
            em.count("k:huge");
        }
        // radii: 0, on / one ulp around inter-point distances, beyond the diameter, +inf
        let well = s.buildable() && q.len() == s.ncols();
        let dists: Vec<f64> = if well && n > 0 {
            let qw: Vec<f64> = q.iter().map(|x| x.wide()).collect();
            s.pts.rows().into_iter().map(|r| own_dist(met, &qw, &wide_row(r))).collect()
        } else {
            vec![1.0]
        };
        let mut rs: Vec<F> = vec![];
        // large clouds: four radii, the first two exactly on a distance (a border defect behind a size
        // threshold needs a point ON the radius)
        for ri in 0..(if big { 4 } else if em.thorough() { 3 } else { 2 }) {
            let base = *rng.pick(&dists);
            let r = match if big && ri < 2 { 1 } else { rng.below(9) } {
                0 => 0.0,
                1 | 2 | 3 => base,
                4 => {
                    let x = F::from64(base);
                    // one ulp above / below in the carrier
                    let y = if rng.coin() { x + x.abs() * F::epsilon() } else { x - x.abs() * F::epsilon() };
                    y.wide().max(0.0)
                }
                5 => dists.iter().cloned().fold(0.0, f64::max) * 2.0 + unit,
                6 => base * (0.5 + rng.unit()),
                7 => f64::INFINITY, // OPTICS' default tolerance: every stored point is inside
                _ => (rng.range(0, 12) as f64) / 2.0 * unit,
            };
            // the huge stream: keep the radius where its square is finite in the carrier
            let r = if tag == "huge" && r.is_finite() { r.min(unit * 24.0) } else { r };
            rs.push(F::from64(r));
        }
        for kind in KINDS {
            for k in &ks {
                query_case(em, &s, kind, &q, qstrided, Q::Knn(*k), &script);
            }
            for r in &rs {
                if r.wide().is_infinite() {
                    em.count("radius:inf");
                }
                query_case(em, &s, kind, &q, qstrided, Q::Range(*r), &script);
            }
        }
        for k in &ks {
            agree_case(em, &s, &q, qstrided, Q::Knn(*k));
        }
        for r in &rs {
            agree_case(em, &s, &q, qstrided, Q::Range(*r));
        }
    }
}

/// Open findings C07-l2-squared-distance-range and C07-lp-power-range (oracle only).  `L2Dist`
/// compares SQUARED distances (`rdistance`, `dist_to_rdist = d^2`); for finite coordinates whose
/// differences are beyond 2^64 (f32) / 2^512 (f64) the squares are +inf, below 2^-75 / 2^-537 they are
/// 0, although every distance and the radius are representable.  Then all reduced distances tie,
/// `rdist < r^2` is `inf < inf` or `0 < 0`, and every kind misses points strictly inside the radius /
/// returns arbitrary "nearest" points; the ball tree returns no point at all for k nearest (`inf < inf`
/// against `max_radius = inf`).  The same happens on ORDINARY data when only the radius is tiny
/// (`radius_underflow`: 0 < r < 2^-537 / 2^-75, `r^2 = 0`, a stored query point at distance 0 is missed),
/// and in `LpDist` when the p-th POWER of a coordinate difference leaves the range (f32, p = 6:
/// differences beyond 2^21 or below 2^-25).  The stream consists of such inputs only; a failure of
/// count / ascending / true-k-nearest / inside-included on it is reported under the one clause
/// `reduced_distance_in_range`.  NOT masked (the unchanged code never does it): a panic, an error, a
/// position out of range, coordinates that are not the batch row, a row returned twice, and - where
/// the out-of-range value is +inf or the radius is 0 (`overflow`, `radius_underflow`) - a point strictly
/// outside the radius.
fn edge_case<F: Sc>(em: &mut Em, s: &Setup<F>, kind: Kind, q: &[F], what: Q<F>) {
    let op = match what {
        Q::Knn(k) => format!("#edge knn {} kind={} q={} k={}", s.head(), kind.name(), list(q.iter().copied(), |x: F| x.hx()), k),
        Q::Range(r) => format!("#edge range {} kind={} q={} r={}", s.head(), kind.name(), list(q.iter().copied(), |x: F| x.hx()), r.hx()),
    };
    em.count(&format!("edge:{}:{}", s.met.name(), s.tag));
    em.case(op, move |ctx| {
        let cls = format!("{}:{}:{}", s.met.name(), s.tag, kind.name());
        let n = s.n();
        let r = std::panic::catch_unwind(std::panic::AssertUnwindSafe(|| run_real(s, kind, q, QLay::C, what)));
        let out = match r {
            Ok((Ok(out), ..)) => out,
            Ok((Err(e), ..)) => {
                ctx.fail("no_error_on_valid", &cls, format!("well-formed build/query answered {}", e));
                return String::new();
            }
            Err(_) => {
                ctx.fail("no_panic", &cls, "panic on finite coordinates".to_string());
                return String::new();
            }
        };
        let qw: Vec<f64> = q.iter().map(|x| x.wide()).collect();
        let rows: Vec<Vec<f64>> = s.pts.rows().into_iter().map(wide_row).collect();
        let own_all: Vec<f64> = rows.iter().map(|r| own_dist(s.met, &qw, r)).collect();
        let pos: Vec<usize> = out.iter().map(|(_, _, p)| *p).collect();
        if pos.iter().any(|p| *p >= n) {
            ctx.fail("coords_position", &cls, format!("position out of range in {:?}", pos));
            return String::new();
        }
        let mut seen = vec![false; n];
        for (bits, _, p) in &out {
            let want: Vec<u64> = rows[*p].iter().map(|x| x.to_bits()).collect();
            ctx.require(&want == bits, "coords_position", &cls, || format!("returned coordinates differ from batch row {}", p));
            ctx.require(!seen[*p], "distinct", &cls, || format!("row {} returned twice", p));
            seen[*p] = true;
        }
        let close = |a: f64, b: f64| (a - b).abs() <= s.tol * a.abs().max(b.abs());
        let strict_outside = s.tag != "underflow";
        let mut bad: Vec<String> = vec![];
        match what {
            Q::Knn(k) => {
                if out.len() != k.min(n) {
                    bad.push(format!("{} points returned, min(k,n) = {}", out.len(), k.min(n)));
                }
                let mut want = own_all.clone();
                want.sort_by(|a, b| a.partial_cmp(b).unwrap());
                want.truncate(k.min(n));
                let got: Vec<f64> = pos.iter().map(|p| own_all[*p]).collect();
                if !got.windows(2).all(|w| w[0] <= w[1] || close(w[0], w[1])) {
                    bad.push(format!("distances not ascending: {:?}", got));
                }
                let mut gs = got.clone();
                gs.sort_by(|a, b| a.partial_cmp(b).unwrap());
                if gs.len() == want.len() && !gs.iter().zip(&want).all(|(a, b)| a == b || close(*a, *b)) {
                    bad.push(format!("returned distances {:?}, true k nearest {:?}", gs, want));
                }
            }
            Q::Range(r) => {
                let rw = r.wide();
                for i in 0..n {
                    let d = own_all[i];
                    if d < rw && !close(d, rw) && !pos.contains(&i) {
                        bad.push(format!("row {} at distance {:e} < radius {:e} missing", i, d, rw));
                    }
                    if d > rw && !close(d, rw) && pos.contains(&i) {
                        if strict_outside {
                            ctx.fail("outside_excluded", &cls, format!("row {} at distance {:e} > radius {:e} returned", i, d, rw));
                        } else {
                            bad.push(format!("row {} at distance {:e} > radius {:e} returned", i, d, rw));
                        }
                    }
                }
            }
        }
        if !bad.is_empty() {
            ctx.fail("reduced_distance_in_range", &cls, bad.join("; "));
        }
        String::new()
    });
}

/// inputs of `edge_case`: a small integer lattice scaled by 2^e with e beyond the range in which the
/// square (L2) / the p-th power (Lp) of a coordinate difference is a finite normal number - from the
/// first exponent at which SOME squares leave the range (the `huge` / `tiny` streams of the compared
/// part end just below it) - and ordinary lattices with a radius whose square underflows
fn edge_stream(em: &mut Em, rng: &mut Rng) {
    fn go<F: Sc>(em: &mut Em, rng: &mut Rng, met: Met, e: i32, tag: &'static str) {
        let d = 1 + rng.below(3);
        let n = 2 + rng.below(7);
        let sc = pow2(e);
        let pts: Array2<F> = Array2::from_shape_fn((n, d), |_| F::from64(rng.range(-3, 3) as f64 * sc));
        let s = Setup { pts, met, leaf: 1 + rng.below(3), tol: 1e-6, tag, lay: Lay::C, default_form: false, pre: 0 };
        let q: Vec<F> = (0..d).map(|_| F::from64(rng.range(-4, 4) as f64 * sc)).collect();
        let k = 1 + rng.below(n);
        let r = F::from64((0.5 + rng.below(6) as f64) * sc);
        for kind in KINDS {
            edge_case(em, &s, kind, &q, Q::Knn(k));
            edge_case(em, &s, kind, &q, Q::Range(r));
        }
    }
    /// ordinary data, the query is a stored point, 0 < r with r^2 = 0 in the carrier
    fn tiny_radius<F: Sc>(em: &mut Em, rng: &mut Rng, e: i32) {
        let d = 1 + rng.below(3);
        let n = 2 + rng.below(7);
        let pts: Array2<F> = Array2::from_shape_fn((n, d), |_| F::from64(rng.range(-3, 3) as f64));
        let s = Setup { pts, met: Met::L2, leaf: 1 + rng.below(3), tol: 1e-6, tag: "radius_underflow", lay: Lay::C, default_form: false, pre: 0 };
        let q: Vec<F> = s.pts.row(rng.below(n)).to_vec();
        let r = F::from64(pow2(e));
        for kind in KINDS {
            edge_case(em, &s, kind, &q, Q::Range(r));
        }
    }
    // the witness of the finding: 1-d points 1,2,3 (x 2^64, f32), query 0, radius 1.5 x 2^64
    {
        let sc = pow2(64);
        let pts: Array2<f32> = Array2::from_shape_vec((3, 1), vec![sc as f32, (2.0 * sc) as f32, (3.0 * sc) as f32]).unwrap();
        let s = Setup { pts, met: Met::L2, leaf: 2, tol: 1e-6, tag: "overflow", lay: Lay::C, default_form: false, pre: 0 };
        for kind in KINDS {
            edge_case(em, &s, kind, &[0.0f32], Q::Range((1.5 * sc) as f32));
            edge_case(em, &s, kind, &[0.0f32], Q::Knn(1));
        }
    }
    // witness of the tiny-radius form: points (0,0),(1,0), query (0,0), r = 2^-600: row 0 (distance 0 < r) is missed
    {
        let pts: Array2<f64> = Array2::from_shape_vec((2, 2), vec![0.0, 0.0, 1.0, 0.0]).unwrap();
        let s = Setup { pts, met: Met::L2, leaf: 1, tol: 1e-6, tag: "radius_underflow", lay: Lay::C, default_form: false, pre: 0 };
        for kind in KINDS {
            edge_case(em, &s, kind, &[0.0f64, 0.0], Q::Range(pow2(-600)));
        }
    }
    // witness of the Lp form: f32, p = 6, 1-d points 1,2,3 (x 2^22), query 0, k = 1 / radius 1.5 x 2^22
    {
        let sc = pow2(22);
        let pts: Array2<f32> = Array2::from_shape_vec((3, 1), vec![sc as f32, (2.0 * sc) as f32, (3.0 * sc) as f32]).unwrap();
        let s = Setup { pts, met: Met::Lp(6.0), leaf: 2, tol: 1e-5, tag: "overflow", lay: Lay::C, default_form: false, pre: 0 };
        for kind in KINDS {
            edge_case(em, &s, kind, &[0.0f32], Q::Range((1.5 * sc) as f32));
            edge_case(em, &s, kind, &[0.0f32], Q::Knn(1));
        }
    }
    // the ten kinds of scenario in turn (every kind is reached on every seed: the coverage floors on
    // `edge:*` cannot fail by chance)
    let rounds = if em.thorough() { 60 } else { 20 };
    for round in 0..rounds {
        let which = round % 10;
        let j = rng.below(1 << 20);
        match which {
            // L2: from the first exponent at which the square of the largest difference (7 x 2^e) overflows
            0 => go::<f32>(em, rng, Met::L2, 59 + (j % 13) as i32, "overflow"),
            1 => go::<f64>(em, rng, Met::L2, 506 + (j % 14) as i32, "overflow"),
            2 => go::<f32>(em, rng, Met::L2, -63 - (j % 21) as i32, "underflow"),
            3 => go::<f64>(em, rng, Met::L2, -511 - (j % 37) as i32, "underflow"),
            4 => tiny_radius::<f32>(em, rng, -76 - (j % 60) as i32),
            5 => tiny_radius::<f64>(em, rng, -538 - (j % 500) as i32),
            // Lp, p = 6 (and 4.5): the p-th power of a difference overflows / underflows
            6 => go::<f32>(em, rng, Met::Lp(6.0), 22 + (j % 9) as i32, "overflow"),
            7 => go::<f64>(em, rng, Met::Lp(if j % 2 == 0 { 6.0 } else { 4.5 }), 230 + (j % 20) as i32, "overflow"),
            8 => go::<f32>(em, rng, Met::Lp(6.0), -26 - (j % 6) as i32, "underflow"),
            _ => go::<f64>(em, rng, Met::Lp(6.0), -181 - (j % 8) as i32, "underflow"),
        }
    }
}

/// fixed witnesses of the repaired defects (run first on every run)
fn corpus(em: &mut Em) {
    // ball tree, k = 0 on a non-empty index
    let pts: Array2<f64> = Array2::from_shape_vec((3, 2), vec![0.0, 0.0, 1.0, 0.0, 0.0, 2.0]).unwrap();
    let s = Setup { pts, met: Met::L2, leaf: 2, tol: 0.0, tag: "corpus", lay: Lay::C, default_form: false, pre: 0 };
    let script = tree_case(em, &s);
    for kind in KINDS {
        query_case(em, &s, kind, &[0.0, 0.0], QLay::C, Q::Knn(0), &script);
    }
    agree_case(em, &s, &[0.0, 0.0], QLay::C, Q::Knn(0));
    // (3,4) at radius 5 from the origin
    let pts: Array2<f64> = Array2::from_shape_vec((3, 2), vec![3.0, 4.0, 1.0, 1.0, 6.0, 8.0]).unwrap();
    for met in [Met::L2, Met::L1, Met::Linf] {
        let s = Setup { pts: pts.clone(), met, leaf: 1, tol: 0.0, tag: "corpus", lay: Lay::C, default_form: false, pre: 0 };
        let script = tree_case(em, &s);
        let r = match met {
            Met::L2 => 5.0,
            Met::L1 => 7.0,
            _ => 4.0,
        };
        for kind in KINDS {
            query_case(em, &s, kind, &[0.0, 0.0], QLay::C, Q::Range(r), &script);
        }
        agree_case(em, &s, &[0.0, 0.0], QLay::C, Q::Range(r));
    }
    // non-contiguous batch rows / query (Fortran order, strided and transposed views): the k-d tree
    // used to panic on `to_slice().expect("views should be contiguous")`
    let pts: Array2<f64> = Array2::from_shape_vec((4, 2), vec![0.0, 0.0, 3.0, 4.0, 1.0, 1.0, -2.0, 0.5]).unwrap();
    for (lay, qstrided) in [(Lay::F, QLay::C), (Lay::Strided, QLay::C), (Lay::T, QLay::Strided), (Lay::C, QLay::Strided), (Lay::Rev, QLay::C), (Lay::C, QLay::Rev)] {
        let s = Setup { pts: pts.clone(), met: Met::L2, leaf: 1, tol: 1e-12, tag: "corpus", lay, default_form: false, pre: 0 };
        let script = tree_case(em, &s);
        for kind in KINDS {
            query_case(em, &s, kind, &[0.5, 0.25], qstrided, Q::Knn(2), &script);
            query_case(em, &s, kind, &[0.5, 0.25], qstrided, Q::Range(2.0), &script);
        }
        agree_case(em, &s, &[0.5, 0.25], qstrided, Q::Knn(2));
        agree_case(em, &s, &[0.5, 0.25], qstrided, Q::Range(2.0));
    }
}

/// large clouds (n above any plausible size threshold of a chunked / parallel / fast path: 520..1100,
/// thorough up to 2100), integer lattices with mass ties and uniform clouds, dimension 1..3, practical
/// leaf sizes, one query each (k around n/2, n, beyond; radii on a distance and random)
fn big_stream(em: &mut Em, rng: &mut Rng) {
    let clouds = if em.thorough() { 10 } else { 3 };
    for i in 0..clouds {
        let n = 520 + rng.below(if em.thorough() { 1580 } else { 580 });
        let d = 1 + rng.below(3);
        let lattice = i % 3 != 2;
        let rows: Vec<Vec<f64>> = if lattice {
            let w = 2 + rng.below(5) as i64;
            (0..n).map(|_| (0..d).map(|_| rng.range(-w, w) as f64).collect()).collect()
        } else {
            (0..n).map(|_| (0..d).map(|_| (rng.unit() - 0.5) * 8.0).collect()).collect()
        };
        let met = *rng.pick(&[Met::L2, Met::L1, Met::Linf, Met::L2]);
        let tag = if lattice { "lattice" } else { "uniform" };
        if i % 2 == 1 {
            scenario::<f32>(em, rng, &rows, d, lattice, tag, met, 0, true);
        } else {
            scenario::<f64>(em, rng, &rows, d, lattice, tag, met, 0, true);
        }
    }
}

/// `NearestNeighbour::from_batch` is a provided method of the trait: `from_batch_with_leaf_size(batch,
/// 2usize.pow(4), dist_fn)`.  A probe implementation of the trait records the leaf size the provided
/// method hands on; the model answers with `defaultLeaf`.
fn default_probe(em: &mut Em) {
    use std::sync::atomic::{AtomicUsize, Ordering};
    static SEEN: AtomicUsize = AtomicUsize::new(usize::MAX);
    #[derive(Debug)]
    struct Probe;
    impl NearestNeighbour for Probe {
        fn from_batch_with_leaf_size<'a, F: linfa::Float, DT: Data<Elem = F>, D: 'a + Distance<F>>(&self, batch: &'a ArrayBase<DT, Ix2>, leaf_size: usize, dist_fn: D) -> Result<Box<dyn 'a + Send + Sync + linfa_nn::NearestNeighbourIndex<F>>, BuildError> {
            SEEN.store(leaf_size, Ordering::SeqCst);
            CommonNearestNeighbour::LinearSearch.from_batch_with_leaf_size(batch, leaf_size, dist_fn)
        }
    }
    em.case_valid("default".to_string(), "default_leaf", |ctx| {
        let pts: Array2<f64> = Array2::zeros((3, 2));
        let built = Probe.from_batch(&pts, L2Dist);
        ctx.require(built.is_ok(), "no_error_on_valid", "default_leaf", || "from_batch on a 3x2 batch is an error".to_string());
        format!("ok leaf={}", SEEN.load(Ordering::SeqCst))
    });
}

/// OUTSIDE the statement's quantifier (recorded, never a failure of the ball tree): `LpDist(p)` with
/// `p < 1` is accepted by `LpDist::new` but is not a distance (`lp_half_not_triangle`: the triangle
/// inequality fails), so the pruning of the ball tree is unsound for it and BallTree / LinearSearch
/// may differ.  The linear scan needs no triangle inequality: its clauses are still required; a panic
/// or an error of any kind is still a failure.  Disagreements of the trees are counted as
/// `unpromised:lp<1:<kind>_differs`.
fn unpromised_stream(em: &mut Em, rng: &mut Rng) {
    let rounds = if em.thorough() { 60 } else { 12 };
    for _ in 0..rounds {
        let d = 2 + rng.below(2);
        let n = 4 + rng.below(12);
        let pts: Array2<f64> = Array2::from_shape_fn((n, d), |_| rng.range(-3, 3) as f64);
        let p = *rng.pick(&[0.5, 0.25, 0.75]);
        let s = Setup { pts, met: Met::Lp(p), leaf: 1 + rng.below(3), tol: 1e-9, tag: "plt1", lay: Lay::C, default_form: false, pre: 0 };
        let q: Vec<f64> = (0..d).map(|_| rng.range(-4, 4) as f64 / 2.0).collect();
        let k = 1 + rng.below(n);
        let op = format!("#unpromised knn {} q={} k={}", s.head(), list(q.iter().copied(), |x: f64| x.hx()), k);
        let mut differs: Vec<&'static str> = vec![];
        em.case(op, |ctx| {
            let cls = "unpromised:lp<1".to_string();
            let qw = q.clone();
            let rows: Vec<Vec<f64>> = s.pts.rows().into_iter().map(wide_row).collect();
            let own_all: Vec<f64> = rows.iter().map(|r| own_dist(s.met, &qw, r)).collect();
            let mut want = own_all.clone();
            want.sort_by(|a, b| a.partial_cmp(b).unwrap());
            want.truncate(k.min(n));
            for kind in KINDS {
                let r = std::panic::catch_unwind(std::panic::AssertUnwindSafe(|| run_real(&s, kind, &q, QLay::C, Q::Knn(k))));
                match r {
                    Err(_) => ctx.fail("no_panic", &cls, format!("{} panicked", kind.name())),
                    Ok((Err(e), ..)) => ctx.fail("no_error_on_valid", &cls, format!("{} answered {}", kind.name(), e)),
                    Ok((Ok(out), ..)) => {
                        let mut got: Vec<f64> = out.iter().filter(|(_, _, p)| *p < n).map(|(_, _, p)| own_all[*p]).collect();
                        got.sort_by(|a, b| a.partial_cmp(b).unwrap());
                        let same = got.len() == want.len() && got.iter().zip(&want).all(|(a, b)| (a - b).abs() <= 1e-9 * a.abs().max(b.abs()));
                        if kind == Kind::Linear {
                            // the scan relies on no property of the distance
                            ctx.require(same, "true_k_nearest", &cls, || format!("linear scan: {:?}, true {:?}", got, want));
                        } else if !same {
                            differs.push(kind.name());
                        }
                    }
                }
            }
            String::new()
        });
        em.count("unpromised:lp<1");
        for kn in differs {
            em.count(&format!("unpromised:lp<1:{}_differs", kn));
        }
    }
}

/// ceilings on what the two masks may swallow (the counterpart of the coverage floors): the number of
/// `#agree` cases classed `ulp` (open finding C07-balltree-ulp-pruning) relative to the number of
/// agreement cases, and the number of Lp requests whose decision margin is below the comparison's
/// `min_margin` (skipped by the comparison) relative to the Lp requests.  Unchanged tree, seeds 1..12:
/// at most 0.5 % of the agreement cases resp. 8 % of the Lp requests (exact lattice ties that libm `pow` splits by an ulp).
fn ceilings(em: &mut Em) {
    if em.only.is_some() {
        return;
    }
    let agree = *em.dist.get("agree").unwrap_or(&0);
    let masked = em.oracle.iter().filter(|f| f.clause == "indices_agree" && f.class.ends_with(":ulp")).count() as u64;
    let lp_all = *em.dist.get("lp:requests").unwrap_or(&0);
    let lp_skip = *em.dist.get("lp:margin<1e-7").unwrap_or(&0);
    let lim_mask = 6 + agree / 100;
    let lim_skip = 6 + lp_all / 8;
    em.count_n("ceiling:ulp_masked", masked);
    em.case(format!("#ceiling ulp_masked={} of_agree={} limit={} lp_skipped={} of_lp={} limit={}", masked, agree, lim_mask, lp_skip, lp_all, lim_skip), |ctx| {
        ctx.require(masked <= lim_mask, "mask_ceiling", "ulp", || format!("{} of {} agreement cases are masked as rounding-level ball-tree differences (ceiling {})", masked, agree, lim_mask));
        ctx.require(lp_skip <= lim_skip, "mask_ceiling", "lp_margin", || format!("{} of {} Lp requests have a decision margin below 1e-7 and are not compared (ceiling {})", lp_skip, lp_all, lim_skip));
        ctx.mark_trivial();
        String::new()
    });
}

pub fn run(em: &mut Em, rng: &mut Rng) {
    corpus(em);
    default_probe(em);
    let clouds = if em.thorough() { 1400 } else { 170 };
    for _ in 0..clouds {
        let is32 = rng.chance(1, 4);
        let (rows, d, lattice, tag) = gen_cloud(rng, em.thorough(), is32);
        let met = gen_metric(rng, lattice, tag);
        // one defect most of the time, two or three coinciding defects in a quarter of the malformed stream
        let malformed = if rng.chance(1, 7) {
            if rng.chance(1, 4) { *rng.pick(&[3u8, 5, 6, 7]) } else { 1 << rng.below(3) }
        } else {
            0
        };
        if is32 {
            scenario::<f32>(em, rng, &rows, d, lattice, tag, met, malformed, false);
        } else {
            scenario::<f64>(em, rng, &rows, d, lattice, tag, met, malformed, false);
        }
    }
    big_stream(em, rng);
    edge_stream(em, rng);
    unpromised_stream(em, rng);
    ceilings(em);
}
