//! C12 — extension ops (second file of the C12 harness; included from c12.rs).
use super::*;

pub fn run(_em: &mut Em, _rng: &mut Rng) {}
