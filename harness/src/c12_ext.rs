//! C12 — extension ops (second file of the C12 harness; included from c12.rs).
//!
//! * `linkf`, `deflink`: forward link functions / the default link selection (model: `Glm.linkFn`,
//!   `Glm.linkFnDeriv`, `Glm.defaultLink`)
//! * `#f32…`: the f32 instantiation of every piece (scalar functions, softmax / log_sum_exp, both
//!   losses and gradients, prediction at extreme scores, Tweedie deviance and the three fits), judged
//!   against the f64 textbook formulas with f32 tolerances (oracle only)
//! * `#fit2` / `#fitm` / `#glmfit` on ill-conditioned problems that need more than the default budget of
//!   100 iterations: the configured budget must be honoured
use super::*;
use linfa::ParamGuard;

type M32 = Vec<Vec<f32>>;
fn a32(m: &M, nc: usize) -> Array2<f32> {
    Array2::from_shape_fn((m.len(), nc), |(i, j)| m[i][j] as f32)
}
fn v32(v: &[f64]) -> Array1<f32> {
    Array1::from(v.iter().map(|x| *x as f32).collect::<Vec<f32>>())
}
/// the f32-rounded copy of a matrix, as f64 (what the f32 code actually sees)
fn r32m(m: &M) -> M {
    m.iter().map(|r| r.iter().map(|v| *v as f32 as f64).collect()).collect()
}
fn r32(v: &[f64]) -> Vec<f64> {
    v.iter().map(|v| *v as f32 as f64).collect()
}
fn up(v: &[f32]) -> Vec<f64> {
    v.iter().map(|x| *x as f64).collect()
}
fn up2(a: &Array2<f32>) -> M {
    a.rows().into_iter().map(|r| r.iter().map(|x| *x as f64).collect()).collect()
}

// ------------------------------------------------------------------ forward links, default link

fn op_linkf(em: &mut Em, rng: &mut Rng) {
    let l = rng.below(3);
    let n = 1 + rng.below(5);
    let v: Vec<f64> = (0..n)
        .map(|_| match l {
            0 => lat(rng, 4),
            1 => {
                if rng.chance(1, 4) {
                    *rng.pick(&[1e-7, 1e-8, 9.9e-8, 1.1e-7, 1e-300, 1e300, 1.0])
                } else {
                    (1 + rng.below(400)) as f64 / 8.0
                }
            }
            _ => {
                if rng.chance(1, 5) {
                    *rng.pick(&[1e-12, 0.5, 1.0 - 1e-12, 1e-300])
                } else {
                    (1 + rng.below(63)) as f64 / 64.0
                }
            }
        })
        .collect();
    em.count(&format!("linkf:l={}", l));
    let op = format!("linkf l={} v={}", l, hx(&v));
    em.case_valid(op, "linkf", move |ctx| {
        let a = Array1::from(v.clone());
        let lk = link_of(l).link(&a).to_vec();
        let der = link_of(l).link_derivative(&a).to_vec();
        let back = link_of(l).inverse(&Array1::from(lk.clone())).to_vec();
        for i in 0..v.len() {
            let mu = v[i];
            let class = format!("glm:link={}", l);
            // g is the inverse of h on the link's domain
            ctx.require(close(back[i], mu, 1e-9, 1e-300), "link_is_inverse_of_inverse", &class, || format!("inverse(link({})) = inverse({}) = {}", mu, lk[i], back[i]));
            // textbook values
            let (g, dg) = match l {
                0 => (mu, 1.0),
                1 => (mu.ln(), if mu < 1e-7 { 1e7 } else { 1.0 / mu }),
                _ => (mu.ln() - (-mu).ln_1p(), 1.0 / (mu * (1.0 - mu))),
            };
            ctx.require(close(lk[i], g, 1e-9, 1e-12), "link_is_textbook_link", &class, || format!("link({}) = {}, textbook {}", mu, lk[i], g));
            ctx.require(close(der[i], dg, 1e-9, 0.0), "link_derivative_is_derivative_of_link", &class, || format!("link_derivative({}) = {}, textbook {}", mu, der[i], dg));
        }
        format!("ok link={} der={}", tfs(&lk), tfs(&der))
    });
}

fn op_deflink(em: &mut Em, power: f64, chosen: Option<usize>) {
    // `chosen`: the link set with `.link(..)` before `check()`; `None`: left to the default selection
    let op = format!("deflink power={} chosen={}", hex64(power), chosen.map_or("none".to_string(), |c| c.to_string()));
    em.count(if chosen.is_some() { "deflink:chosen" } else { "deflink:default" });
    em.case(op, move |ctx| {
        let mut params = TweedieRegressor::<f64>::params().power(power);
        if let Some(c) = chosen {
            params = params.link(link_of(c));
        }
        match params.check() {
            Err(_) => "err InvalidTweediePower".into(),
            Ok(p) => {
                let l = p.link();
                // documented: a chosen link is used as it is; otherwise identity for the Normal distribution (power 0), log for power >= 1
                let want = match chosen {
                    Some(c) => link_of(c),
                    None => if power <= 0.0 { Link::Identity } else { Link::Log },
                };
                ctx.require(l == want, "default_link_is_documented_choice", &format!("glm:power={:e}", power), || format!("link() for power {:e} with {:?} chosen is {:?}, documented {:?}", power, chosen, l, want));
                format!(
                    "ok {}",
                    match l {
                        Link::Identity => 0,
                        Link::Log => 1,
                        Link::Logit => 2,
                    }
                )
            }
        }
    });
}

// ------------------------------------------------------------------ f32 instantiation (oracle only)

const E32: f64 = f32::EPSILON as f64;

fn op_f32_scalar(em: &mut Em, rng: &mut Rng) {
    let n = 1 + rng.below(6);
    let v: Vec<f64> = (0..n).map(|_| if rng.coin() { lat(rng, 8) } else { *rng.pick(&[-1000.0, -104.0, -88.8, -87.0, -17.0, 17.0, 87.0, 88.8, 104.0, 1000.0, 3e38, -3e38]) }).collect();
    let op = format!("#f32sfn v={}", hx(&v));
    em.case_valid(op, "f32:sfn", move |ctx| {
        for x in &v {
            let xf = *x as f32;
            let p = lh::logistic_hook_g(xf) as f64;
            let lp = lh::log_logistic_hook_g(xf) as f64;
            ctx.require(p.is_finite() && (0.0..=1.0).contains(&p), "proba_in_unit_interval", "f32:logistic", || format!("logistic::<f32>({}) = {}", xf, p));
            ctx.require(close(p, sigmoid(xf as f64), 8.0 * E32, f32::MIN_POSITIVE as f64), "logistic_is_textbook", "f32:logistic", || format!("logistic::<f32>({}) = {}, f64 value {}", xf, p, sigmoid(xf as f64)));
            ctx.require(close(lp, -softplus(-(xf as f64)), 8.0 * E32, 4.0 * E32), "log_logistic_is_log_of_logistic", "f32:log_logistic", || format!("log_logistic::<f32>({}) = {}, f64 value {}", xf, lp, -softplus(-(xf as f64))));
        }
        "ok".into()
    });
}

fn op_f32_softmax(em: &mut Em, rng: &mut Rng) {
    let k = 1 + rng.below(6);
    let sc = *rng.pick(&[1i64, 8, 100, 1000]);
    let off = *rng.pick(&[0.0, -90.0, -104.0, -200.0, 90.0, 200.0, -1e4, 1e4]);
    let rows = 1 + rng.below(3);
    let m: M = (0..rows).map(|_| (0..k).map(|_| rng.range(-8 * sc, 8 * sc) as f64 / 8.0 + off).collect()).collect();
    let op = format!("#f32softmax m={}", hx2(&m));
    em.case_valid(op, "f32:softmax", move |ctx| {
        let m = r32m(&m);
        let lse = lh::log_sum_exp_rows_hook_g(&a32(&m, k)).to_vec();
        for (row, l) in m.iter().zip(&lse) {
            let out = up(&lh::softmax_hook_g(&v32(row)).to_vec());
            let want = softmax_row(row);
            ctx.require(out.iter().all(|p| p.is_finite() && *p >= 0.0 && *p <= 1.0), "proba_in_unit_interval", "f32:softmax", || format!("softmax::<f32>({:?}) = {:?}", row, out));
            ctx.require((out.iter().sum::<f64>() - 1.0).abs() <= 8.0 * E32, "rows_sum_to_one", "f32:softmax", || format!("softmax::<f32>({:?}) sums to {}", row, out.iter().sum::<f64>()));
            ctx.require(out.iter().zip(&want).all(|(a, b)| close(*a, *b, 64.0 * E32, 1e-37)), "proba_is_softmax_of_scores", "f32:softmax", || format!("softmax::<f32>({:?}) = {:?}, f64 value {:?}", row, out, want));
            let mx = row.iter().cloned().fold(f64::NEG_INFINITY, f64::max);
            let wl = mx + row.iter().map(|v| (v - mx).exp()).sum::<f64>().ln();
            ctx.require(close(*l as f64, wl, 8.0 * E32, 8.0 * E32), "log_sum_exp_is_log_of_sum_of_exp", "f32:lse", || format!("log_sum_exp::<f32> of {:?} = {}, f64 value {}", row, l, wl));
        }
        "ok".into()
    });
}

fn op_f32_lossgrad(em: &mut Em, rng: &mut Rng) {
    let n = 1 + rng.below(7);
    let nf = 1 + rng.below(4);
    let x = gen_mat(rng, n, nf, true, 1.0);
    let y: Vec<f64> = (0..n).map(|_| if rng.coin() { 1.0 } else { -1.0 }).collect();
    let alpha = *rng.pick(&[0.0, 0.5, 1.0, 2.0]);
    let icpt = rng.chance(2, 3);
    let w: Vec<f64> = (0..nf + icpt as usize).map(|_| lat(rng, 1)).collect();
    let k = 2 + rng.below(4);
    let cls: Vec<usize> = (0..n).map(|_| rng.below(k)).collect();
    let wm: M = (0..nf + icpt as usize).map(|_| (0..k).map(|_| lat(rng, 1) * if rng.chance(1, 6) { 16.0 } else { 1.0 }).collect()).collect();
    let op = format!("#f32lossgrad nf={} x={} y={} alpha={} w={} k={} cls={} wm={}", nf, hx2(&x), hx(&y), alpha, hx(&w), k, list(cls.iter(), |c| c.to_string()), hx2(&wm));
    em.case_valid(op, "f32:lossgrad", move |ctx| {
        let xa = a32(&x, nf);
        let tol = 64.0 * E32;
        // binary
        let l = lh::logistic_loss_hook_g(&xa, &v32(&y), alpha as f32, &v32(&w)) as f64;
        let g = up(&lh::logistic_grad_hook_g(&xa, &v32(&y), alpha as f32, &v32(&w)).to_vec());
        let (ww, b) = if icpt { (&w[..nf], w[nf]) } else { (&w[..], 0.0) };
        let wl = doc_loss2(&x, &y, alpha, ww, b);
        ctx.require(close(l, wl, tol, tol), "loss_is_documented_objective", "f32:binary", || format!("logistic_loss::<f32> = {}, documented objective = {}", l, wl));
        let (mut want, gb) = doc_grad2(&x, &y, alpha, ww, b);
        if icpt {
            want.push(gb);
        }
        let sc = 1.0 + norm2(&want);
        ctx.require(g.len() == want.len() && g.iter().zip(&want).all(|(a, b)| (a - b).abs() <= tol * sc), "grad_is_derivative_of_documented_objective", "f32:binary", || format!("logistic_grad::<f32> = {:?}, textbook gradient = {:?}", g, want));
        // multinomial
        let yoh: M = cls.iter().map(|c| (0..k).map(|j| if j == *c { 1.0 } else { 0.0 }).collect()).collect();
        let lm = lh::multi_logistic_loss_hook_g(&xa, &a32(&yoh, k), alpha as f32, &a32(&wm, k)) as f64;
        let gm = up2(&lh::multi_logistic_grad_hook_g(&xa, &a32(&yoh, k), alpha as f32, &a32(&wm, k)));
        let bm = if icpt { wm[nf].clone() } else { vec![0.0; k] };
        let wlm = doc_loss_m(&x, &cls, alpha, &wm[..nf].to_vec(), &bm);
        ctx.require(close(lm, wlm, tol, tol), "loss_is_documented_objective", "f32:multi", || format!("multi_logistic_loss::<f32> = {}, documented objective = {}", lm, wlm));
        let (mut wantm, gbm) = doc_grad_m(&x, &cls, alpha, &wm[..nf].to_vec(), &bm);
        if icpt {
            wantm.push(gbm);
        }
        let scm = 1.0 + norm2(&wantm.iter().flatten().cloned().collect::<Vec<_>>());
        let ok = gm.len() == wantm.len() && gm.iter().zip(&wantm).all(|(r, s)| r.len() == s.len() && r.iter().zip(s).all(|(a, b)| (a - b).abs() <= tol * scm));
        ctx.require(ok, "grad_is_derivative_of_documented_objective", "f32:multi", || format!("multi_logistic_grad::<f32> = {:?}, textbook gradient = {:?}", gm, wantm));
        "ok".into()
    });
}

fn op_f32_predict(em: &mut Em, rng: &mut Rng) {
    let n = 1 + rng.below(5);
    let nf = 1 + rng.below(3);
    let k = 2 + rng.below(5);
    let xs = *rng.pick(&[1.0, 8.0, 1000.0]);
    let x: M = gen_mat(rng, n, nf, true, 1.0).iter().map(|r| r.iter().map(|v| v * xs).collect()).collect();
    let big = *rng.pick(&[0i64, 1, 8, 64]);
    let w: M = (0..nf).map(|_| (0..k).map(|_| rng.range(-big, big) as f64).collect()).collect();
    // exp::<f32> underflows below -103.97 and overflows above 88.72
    let off = *rng.pick(&[0.0, -90.0, -104.0, -150.0, 89.0, 150.0, -1000.0, 1000.0, -1e5]);
    let b: Vec<f64> = (0..k).map(|_| rng.range(-8, 8) as f64 / 2.0 + off).collect();
    let thr = *rng.pick(&[0.5, 0.25, 0.75, 0.0, 1.0]);
    let op = format!("#f32predict k={} x={} w={} b={} thr={}", k, hx2(&x), hx2(&w), hx(&b), thr);
    em.case_valid(op, "f32:predict", move |ctx| {
        let xa = a32(&x, nf);
        // multinomial (scores are small integers / eighths: exact in f32 up to 2^24/8)
        let m = lh::fitted_multi_hook_g(v32(&b), a32(&w, k), (0..k).collect::<Vec<usize>>());
        let p = up2(&m.predict_probabilities(&xa));
        let cls = m.predict(&xa).to_vec();
        for i in 0..n {
            let h: Vec<f64> = (0..k).map(|c| x[i].iter().enumerate().map(|(j, a)| a * w[j][c]).sum::<f64>() + b[c]).collect();
            ctx.require(p[i].iter().all(|q| q.is_finite() && *q >= 0.0 && *q <= 1.0), "proba_in_unit_interval", "f32:multi", || format!("row {} with class scores {:?}: probabilities {:?}", i, h, p[i]));
            ctx.require((p[i].iter().sum::<f64>() - 1.0).abs() <= 8.0 * E32, "rows_sum_to_one", "f32:multi", || format!("row {} with class scores {:?}: {:?} sums to {}", i, h, p[i], p[i].iter().sum::<f64>()));
            let pm = p[i].iter().cloned().fold(f64::NEG_INFINITY, f64::max);
            ctx.require(cls[i] < k && p[i][cls[i]] == pm, "class_is_argmax_of_probabilities", "f32:multi", || format!("row {}: class {} with probabilities {:?}", i, cls[i], p[i]));
        }
        // binary with the first class column
        let w1: Vec<f64> = w.iter().map(|r| r[0]).collect();
        let m2 = lh::fitted_binary_hook_g(b[0] as f32, v32(&w1), 1usize, 0usize).set_threshold(thr as f32);
        let p2 = up(&m2.predict_probabilities(&xa).to_vec());
        let c2 = m2.predict(&xa).to_vec();
        ctx.require(p2.iter().all(|q| q.is_finite() && *q >= 0.0 && *q <= 1.0), "proba_in_unit_interval", "f32:binary", || format!("probabilities {:?}", p2));
        for i in 0..n {
            let want = if p2[i] >= thr { 1 } else { 0 };
            ctx.require(c2[i] == want, "class_is_what_threshold_implies", "f32:binary", || format!("row {}: p={} thr={} class={}", i, p2[i], thr, c2[i]));
        }
        "ok".into()
    });
}

fn op_f32_dev(em: &mut Em, rng: &mut Rng) {
    // powers incl. values that are 1 resp. 2 after rounding to f32 and their f32 neighbours
    let power = *rng.pick(&[0.0, 1.0, 1.5, 1.25, 2.0, 3.0, 1.0 + 1.2e-7, 2.0 + 2.4e-7, 2.0 - 1.2e-7]);
    let n = 1 + rng.below(6);
    let (y, mu) = gen_y_mu(rng, power, n, true);
    let op = format!("#f32dev power={} y={} yp={}", hex64(power), hx(&y), hx(&mu));
    em.case_valid(op, "f32:dev", move |ctx| {
        let pf = power as f32;
        let class = format!("f32:glm:power={}", power_name(power));
        let d = gh::deviance_hook_g(pf, v32(&y).view(), v32(&mu).view()).unwrap() as f64;
        let want: f64 = y.iter().zip(&mu).map(|(a, b)| doc_unit_dev(pf as f64, *a, *b)).sum();
        let mag: f64 = 1.0 + y.iter().zip(&mu).map(|(a, b)| a.abs() + b.abs() + a * a + 1.0 / b.abs().max(0.1)).sum::<f64>();
        // near power 1 / 2 the generic arm has the removable singularity 1/((1-p)(2-p)): allow cancellation
        let amp = if (pf as f64 - 1.0).abs() < 1e-3 && pf != 1.0 || (pf as f64 - 2.0).abs() < 1e-3 && pf != 2.0 { f64::INFINITY } else { 1.0 };
        ctx.require(amp.is_infinite() || close(d, want, 256.0 * E32, 256.0 * E32 * mag), "deviance_is_textbook_deviance", &class, || format!("deviance::<f32>(power {}) = {}, f64 value {}", pf, d, want));
        ctx.require(d.is_finite() || amp.is_infinite(), "deviance_finite", &class, || format!("deviance::<f32>(power {}) = {}", pf, d));
        let dd = up(&gh::deviance_derivative_hook_g(pf, v32(&y).view(), v32(&mu).view()).unwrap().to_vec());
        for i in 0..y.len() {
            let w = -2.0 * (y[i] - mu[i]) / mu[i].powf(pf as f64);
            ctx.require(close(dd[i], w, 64.0 * E32, 64.0 * E32), "deviance_derivative_is_derivative_of_textbook_deviance", &class, || format!("y={} mu={}: derivative::<f32> {} vs {}", y[i], mu[i], dd[i], w));
        }
        let inr = gh::in_range_hook_g(pf, v32(&y).view()).unwrap();
        ctx.require(inr, "in_range_iff_support", &class, || format!("in_range::<f32>({:?}) = false for power {}", y, pf));
        "ok".into()
    });
}

/// f32 stationarity: the solver works with f32 costs, so it stagnates once a step changes the cost by less than
/// f32 epsilon: same floor formula with eps = f32::EPSILON
fn floor32(x: &M, icpt: bool, alpha: f64, curv: f64, cost: f64) -> f64 {
    let s: f64 = x.iter().map(|r| r.iter().map(|v| v * v).sum::<f64>() + if icpt { 1.0 } else { 0.0 }).sum();
    4.0 * (E32 * cost.abs().max(1.0) * (curv * s + alpha)).sqrt()
}

fn op_f32_fit2(em: &mut Em, rng: &mut Rng, i: usize) {
    let alpha = *rng.pick(&[0.01, 0.1, 1.0, 1.0, 10.0]);
    let (x, y) = gen_class_data(rng, 2, false, 1.0, false);
    let nf = x[0].len();
    let icpt = i % 3 != 2;
    let ty = i % 2;
    let op = format!("#f32fit2 ty={} alpha={} icpt={} x={} y={}", ty, alpha, icpt as u8, hx2(&x), list(y.iter(), |c| c.to_string()));
    let class = format!("f32:fit2:icpt={}", icpt as u8);
    let mut fitted = false;
    let fr = &mut fitted;
    em.case_valid(op, &class.clone(), move |ctx| {
        let x = r32m(&x);
        let xa = a32(&x, nf);
        let tol = 1e-3f32;
        let params = LogisticRegression::<f32>::default().alpha(alpha as f32).with_intercept(icpt).gradient_tolerance(tol).max_iterations(10_000);
        let probe = a32(&probe_rows(&x), nf);
        let res: Result<(Vec<f32>, f32, usize, usize, Vec<f32>, Vec<usize>), String> = if ty == 0 {
            params.fit(&Dataset::new(xa, Array1::from(y.clone()))).map(|m| (m.params().to_vec(), m.intercept(), m.labels().pos.class, m.labels().neg.class, m.predict_probabilities(&probe).to_vec(), m.predict(&probe).to_vec())).map_err(|e| err_line(&e))
        } else {
            let yb: Vec<bool> = y.iter().map(|c| *c == 1).collect();
            params.fit(&Dataset::new(xa, Array1::from(yb))).map(|m| (m.params().to_vec(), m.intercept(), m.labels().pos.class as usize, m.labels().neg.class as usize, m.predict_probabilities(&probe).to_vec(), m.predict(&probe).iter().map(|b| *b as usize).collect())).map_err(|e| err_line(&e))
        };
        let (w, b, pos, neg, pe, ce) = match res {
            Ok(r) => r,
            Err(e) => {
                ctx.fail("fit_succeeds", &class, format!("fit::<f32> returned {}", e));
                return "err".into();
            }
        };
        *fr = true;
        ctx.require((pos == 0 && neg == 1) || (pos == 1 && neg == 0), "class_set", &class, || format!("labels pos={} neg={}", pos, neg));
        let t: Vec<f64> = y.iter().map(|c| if *c == pos { 1.0 } else { -1.0 }).collect();
        let (w, b) = (up(&w), b as f64);
        let (mut g, gb) = doc_grad2(&x, &t, alpha as f32 as f64, &w, b);
        if icpt {
            g.push(gb);
        } else {
            ctx.require(b == 0.0, "no_intercept_means_zero", &class, || format!("intercept {}", b));
        }
        let gn = norm2(&g);
        let floor = floor32(&x, icpt, alpha, 0.25, doc_loss2(&x, &t, alpha, &w, b));
        ctx.require(gn <= tol as f64 * 1.01 + floor, "stationary", &class, || format!("|gradient of the documented objective| = {:e} > gradient_tolerance {:e} (+ f32 solver noise floor {:e}) at w={:?} b={}", gn, tol, floor, w, b));
        ctx.require(pe.iter().all(|q| q.is_finite() && *q >= 0.0 && *q <= 1.0), "proba_in_unit_interval", &class, || format!("probabilities {:?}", pe));
        for (q, c) in pe.iter().zip(&ce) {
            ctx.require(*c == if *q >= 0.5 { pos } else { neg }, "class_is_what_threshold_implies", &class, || format!("p={} class={} (pos={})", q, c, pos));
        }
        "ok".into()
    });
    if fitted {
        em.count("f32:fit2:fitted");
    }
}

fn op_f32_fitm(em: &mut Em, rng: &mut Rng, i: usize) {
    let k = 2 + rng.below(4);
    let alpha = *rng.pick(&[0.01, 0.1, 1.0, 1.0, 10.0]);
    let (x, y) = gen_class_data(rng, k, false, 1.0, false);
    let nf = x[0].len();
    let icpt = i % 3 != 2;
    // every 4th fit starts from an intercept row with a large common offset (never removed by the optimiser)
    let off = if icpt && i % 4 == 3 { *rng.pick(&[-120.0, 120.0, -300.0]) } else { 0.0 };
    let op = format!("#f32fitm k={} alpha={} icpt={} off={} x={} y={}", k, alpha, icpt as u8, off, hx2(&x), list(y.iter(), |c| c.to_string()));
    let class = format!("f32:fitm:icpt={}", icpt as u8);
    let mut fitted = false;
    let fr = &mut fitted;
    em.case_valid(op, &class.clone(), move |ctx| {
        let x = r32m(&x);
        let tol = 1e-3f32;
        let mut params = MultiLogisticRegression::<f32>::default().alpha(alpha as f32).with_intercept(icpt).gradient_tolerance(tol).max_iterations(10_000);
        if off != 0.0 {
            params = params.initial_params(Array2::from_shape_fn((nf + 1, k), |(r, _)| if r == nf { off as f32 } else { 0.0 }));
        }
        let probe_m = probe_rows(&x);
        let m = match params.fit(&Dataset::new(a32(&x, nf), Array1::from(y.clone()))) {
            Ok(m) => m,
            Err(e) => {
                ctx.fail("fit_succeeds", &class, format!("fit::<f32> returned {}", err_line(&e)));
                return "err".into();
            }
        };
        *fr = true;
        ctx.require(m.classes().to_vec() == (0..k).collect::<Vec<_>>(), "class_set", &class, || format!("classes() = {:?}", m.classes()));
        let (w, b) = (up2(m.params()), up(&m.intercept().to_vec()));
        let (gw, gb) = doc_grad_m(&x, &y, alpha as f32 as f64, &w, &b);
        let mut g: Vec<f64> = gw.iter().flatten().cloned().collect();
        if icpt {
            g.extend(gb);
        }
        let gn = norm2(&g);
        let floor = floor32(&x, icpt, alpha, 0.5, doc_loss_m(&x, &y, alpha, &w, &b));
        ctx.require(gn <= tol as f64 * 1.01 + floor, "stationary", &class, || format!("|gradient of the documented objective| = {:e} > gradient_tolerance {:e} (+ f32 solver noise floor {:e})", gn, tol, floor));
        let p = up2(&m.predict_probabilities(&a32(&probe_m, nf)));
        let c = m.predict(&a32(&probe_m, nf)).to_vec();
        for (row, c) in p.iter().zip(&c) {
            ctx.require(row.iter().all(|q| q.is_finite() && *q >= 0.0 && *q <= 1.0), "proba_in_unit_interval", &class, || format!("probabilities {:?} (intercept {:?})", row, b));
            ctx.require((row.iter().sum::<f64>() - 1.0).abs() <= 8.0 * E32, "rows_sum_to_one", &class, || format!("probabilities {:?} sum to {}", row, row.iter().sum::<f64>()));
            let pm = row.iter().cloned().fold(f64::NEG_INFINITY, f64::max);
            ctx.require(*c < k && row[*c] == pm, "class_is_argmax_of_probabilities", &class, || format!("class {} with probabilities {:?}", c, row));
        }
        "ok".into()
    });
    if fitted {
        em.count("f32:fitm:fitted");
    }
}

fn op_f32_glmfit(em: &mut Em, rng: &mut Rng, i: usize) {
    let powers = [0.0, 1.0, 1.5, 2.0, 3.0];
    let power = powers[i % 5];
    // log and logit links (identity with power >= 1 needs the watchdog; covered in f64)
    let l = if power == 0.0 && i % 2 == 0 { 0 } else { 1 + (i / 5) % 2 };
    let icpt = i % 3 != 2;
    let n = 8 + rng.below(12);
    let nf = 1 + rng.below(2);
    let alpha = *rng.pick(&[0.1, 1.0]);
    let (x, y) = gen_glm_data(rng, power, l, n, nf, false);
    let bad = power > 0.0 && i % 7 == 6;
    let op = format!("#f32glmfit power={} l={} icpt={} alpha={} bad={} x={} y={}", power, l, icpt as u8, alpha, bad as u8, hx2(&x), hx(&y));
    let class = format!("f32:glmfit:power={},link={}", power_name(power), l);
    let mut fitted = false;
    let fr = &mut fitted;
    let hangs = if bad {
        false
    } else {
        match watchdog(em, "f32", true) {
            Some(h) => h,
            None => {
                em.case(format!("#f32glmfit_skipped {}", &op[11..]), |ctx| {
                    ctx.mark_trivial();
                    "skipped".into()
                });
                return;
            }
        }
    };
    em.case_valid(op, &class.clone(), move |ctx| {
        if hangs {
            ctx.fail("terminates", &class, "fit::<f32> did not return within 30 s (watchdog child process killed)".to_string());
            return "timeout".into();
        }
        let (x, mut y) = (r32m(&x), r32(&y));
        if bad {
            y[0] = -0.5;
        }
        let tol = 1e-3f32;
        let res = TweedieRegressor::<f32>::params().power(power as f32).link(link_of(l)).alpha(alpha as f32).fit_intercept(icpt).tol(tol).max_iter(10_000).fit(&Dataset::new(a32(&x, nf), v32(&y)));
        if bad {
            ctx.require(res.is_err(), "rejects_out_of_support_targets", &class, || format!("fit::<f32> on targets {:?} returned Ok", y));
            return "ok".into();
        }
        let m = match res {
            Ok(m) => m,
            Err(e) => {
                ctx.fail("fit_succeeds", &class, format!("fit::<f32> returned {}", err_line(&e)));
                return "err".into();
            }
        };
        *fr = true;
        let (coef, b) = (up(&m.coef.to_vec()), m.intercept as f64);
        let (mut g, gb) = doc_glm_grad(power, link_of(l), alpha as f32 as f64, &x, &y, &coef, b);
        if icpt {
            g.push(gb);
        }
        let gn = norm2(&g);
        let ymax = y.iter().cloned().fold(0.0, |a: f64, b: f64| a.max(b.abs()));
        let floor = floor32(&x, icpt, alpha, 2.0 * (1.0 + ymax) * 20.0, doc_glm_obj(power, link_of(l), alpha, &x, &y, &coef, b));
        ctx.require(gn <= tol as f64 * 1.01 + floor, "stationary", &class, || format!("|gradient of 1/2(deviance + alpha |w|^2)| = {:e} > tol {:e} (+ f32 solver noise floor {:e}) at coef={:?} intercept={}", gn, tol, floor, coef, b));
        for v in m.predict(&a32(&x, nf)).iter() {
            let ok = match l {
                0 => v.is_finite(),
                1 => *v >= 0.0,
                _ => *v >= 0.0 && *v <= 1.0,
            };
            ctx.require(ok, "predictions_in_link_range", &class, || format!("prediction {}", v));
        }
        "ok".into()
    });
    if fitted {
        em.count("f32:glmfit:fitted");
    }
}

// ------------------------------------------------------------------ problems that need a large iteration budget

/// badly conditioned binary problem: feature columns of scale 1, R and 1/R, weak penalty
fn gen_hard2(rng: &mut Rng) -> (M, Vec<usize>) {
    let n = 24 + rng.below(12);
    let r = 1000.0f64;
    let scales = [1.0, r, 1.0 / r, r.sqrt()];
    let nf = 3 + rng.below(2);
    let beta: Vec<f64> = (0..nf).map(|j| (rng.unit() * 2.0 - 1.0) / scales[j]).collect();
    let mut x: M = vec![];
    let mut y = vec![];
    for i in 0..n {
        let row: Vec<f64> = (0..nf).map(|j| (rng.unit() * 2.0 - 1.0) * scales[j] + 3.0 * scales[j]).collect();
        let z: f64 = row.iter().zip(&beta).map(|(a, b)| a * b).sum();
        let c = if i < 2 { i } else if rng.unit() < sigmoid(2.0 * z) { 1 } else { 0 };
        x.push(row);
        y.push(c);
    }
    (x, y)
}

fn op_budget(em: &mut Em, rng: &mut Rng) {
    let (x, y) = gen_hard2(rng);
    let nf = x[0].len();
    let alpha = *rng.pick(&[1e-3, 1e-6]);
    let tol = 1e-8;
    // does this problem need more than the default budget?  (the default-budget fit is only a probe: nothing is
    // required of it).  "Needs more" = after 100 iterations the gradient is still twice above what the oracle accepts.
    // (the probe is skipped inside watchdog children: they only run their own case)
    let (needs_more, g100) = if std::env::var("C12_CHILD").is_ok() {
        (false, 0.0)
    } else {
        let ds = Dataset::new(arr2(&x, nf), Array1::from(y.clone()));
        match LogisticRegression::default().alpha(alpha).gradient_tolerance(tol).max_iterations(100).fit(&ds) {
            Ok(m) => {
                let pos = m.labels().pos.class;
                let t: Vec<f64> = y.iter().map(|c| if *c == pos { 1.0 } else { -1.0 }).collect();
                let w = m.params().to_vec();
                let (mut g, gb) = doc_grad2(&x, &t, alpha, &w, m.intercept());
                g.push(gb);
                let floor = stagnation_floor(&x, true, alpha, 0.25, doc_loss2(&x, &t, alpha, &w, m.intercept()));
                (norm2(&g) > 2.0 * (tol + floor), norm2(&g))
            }
            Err(_) => (false, 0.0),
        }
    };
    if std::env::var("C12_TRACE").is_ok() {
        eprintln!("budget probe: |g| after 100 iterations = {:e}, needs_more = {}", g100, needs_more);
    }
    if needs_more {
        em.count("fit2:budget:needs_more_than_100_iterations");
    }
    run_fit2(em, Fit2Case { x, y, alpha, icpt: true, ty: 0, tol, init: None, thr: None, lay: 4, tlay: 0, max_iter: Some(100_000), class: format!("fit2:budget:needs_more={}", needs_more as u8) });
}


// ------------------------------------------------------------------ round 3 streams

/// Multinomial fits on un-normalised features (|x| ~ 10 .. 100), the regime of the two open findings
/// (`stationary` at scale 100, `fit_succeeds … err=linesearch_descent_direction` at scale 10 / 100).  A dedicated stream so
/// that the SHARE of masked outcomes is measured on enough cases: the counters `fitm:unscaled:fitted` and
/// `fitm:unscaled:fitted_and_stationary` (complements of what the masks hide) carry coverage floors, and
/// `mask_ceiling` below bounds the masked share directly.
fn op_fitm_unscaled(em: &mut Em, rng: &mut Rng, i: usize) {
    let k = 2 + rng.below(5);
    let alpha = *rng.pick(&[0.01, 0.1, 1.0, 1.0, 10.0]);
    let scale = if i % 2 == 0 { 10.0 } else { 100.0 };
    let (x, y) = gen_class_data(rng, k, false, scale, false);
    let icpt = i % 3 != 2;
    let tol = *rng.pick(&[1e-4, 1e-4, 1e-6, 1e-2]);
    let class = format!("fitm:alpha=pos,icpt={},scale={}", icpt as u8, scale);
    run_fitm(em, class, x, y, k, alpha, icpt, i % 2, tol, None, 4, Some(10_000));
}

/// Ceiling on what the open findings of the un-normalised regime may swallow: of the multinomial fits at scale 10 / 100 of
/// this run at least `MIN_FITTED` per cent must return a model and at least `MIN_STATIONARY` per cent a stationary one
/// (unchanged tree, seeds 1..5 quick and seed 1 thorough: see notes).  Reported as an oracle failure of its own clause.
const MIN_FITTED_PCT: u64 = 85;
const MIN_STATIONARY_PCT: u64 = 75;
fn mask_ceiling(em: &mut Em) {
    let g = |em: &Em, k: &str| *em.dist.get(k).unwrap_or(&0);
    let (n, f, st) = (g(em, "fitm:unscaled"), g(em, "fitm:unscaled:fitted"), g(em, "fitm:unscaled:fitted_and_stationary"));
    em.case(format!("#fitm_mask_ceiling unscaled={} fitted={} stationary={}", n, f, st), move |ctx| {
        if n < 20 {
            // `--only` replay of another case: nothing was run
            ctx.mark_trivial();
            return "ok".into();
        }
        ctx.require(100 * f >= MIN_FITTED_PCT * n, "masked_share_within_baseline", "fitm:unscaled:fit_succeeds", || format!("only {} of {} multinomial fits on un-normalised features (|x| ~ 10..100) returned a model; the open finding C12-multinomial-unscaled-features-linesearch-error covers an occasional failure (baseline: at least {} %)", f, n, MIN_FITTED_PCT));
        ctx.require(100 * st >= MIN_STATIONARY_PCT * n, "masked_share_within_baseline", "fitm:unscaled:stationary", || format!("only {} of {} multinomial fits on un-normalised features returned a stationary point; the open finding C12-multinomial-unscaled-features-not-stationary covers part of the scale-100 fits (baseline: at least {} %)", st, n, MIN_STATIONARY_PCT));
        "ok".into()
    });
}

/// GLM problems that need more than the default budget of 100 iterations: Normal distribution with the identity link
/// (a ridge problem: the deviance is defined everywhere, so the solver cannot leave its domain) on badly scaled columns.
fn op_glm_budget(em: &mut Em, rng: &mut Rng, i: usize) {
    // variants: 0 / 1 Normal distribution with the LOGIT link (deviance (y - expit(eta))^2: defined and bounded everywhere) on
    // columns of scale 1, R, 1/R, sqrt(R) with R = 1000 / 200; 2 Normal with the identity link (a ridge problem) on 8..10
    // columns of geometrically growing scale
    let variant = i % 3;
    let n = 24 + rng.below(12);
    let (l, scales): (usize, Vec<f64>) = match variant {
        0 => (2, vec![1.0, 1000.0, 1e-3, 31.6][..3 + rng.below(2)].to_vec()),
        1 => (2, vec![1.0, 200.0, 1.0 / 200.0, 14.0][..3 + rng.below(2)].to_vec()),
        _ => (0, (0..8 + rng.below(3)).map(|j| 3.0f64.powi(j as i32 - 4)).collect()),
    };
    let nf = scales.len();
    let beta: Vec<f64> = (0..nf).map(|j| (rng.unit() * 2.0 - 1.0) / scales[j]).collect();
    let x: M = (0..n).map(|_| (0..nf).map(|j| (rng.unit() * 2.0 - 1.0 + 0.5) * scales[j]).collect()).collect();
    let y: Vec<f64> = x
        .iter()
        .map(|r| {
            let eta = r.iter().zip(&beta).map(|(a, b)| a * b).sum::<f64>();
            if l == 2 { (sigmoid(eta) * (0.8 + 0.4 * rng.unit())).min(0.95).max(0.05) } else { eta + (rng.unit() - 0.5) * 0.3 }
        })
        .collect();
    let alpha = *rng.pick(&[1e-4, 1e-6]);
    let icpt = (i / 3) % 3 != 2;
    let tol = 1e-8;
    let (needs_more, g100) = if std::env::var("C12_CHILD").is_ok() || !em.only.map_or(true, |o| o == em.idx) {
        (false, 0.0)
    } else {
        let ds = Dataset::new(arr2(&x, nf), Array1::from(y.clone()));
        match TweedieRegressor::params().power(0.0).link(link_of(l)).alpha(alpha).fit_intercept(icpt).tol(tol).max_iter(100).fit(&ds) {
            Ok(m) => {
                let coef = m.coef.to_vec();
                let (mut g, gb) = doc_glm_grad(0.0, link_of(l), alpha, &x, &y, &coef, m.intercept);
                if icpt {
                    g.push(gb);
                }
                let ymax = y.iter().cloned().fold(0.0, |a: f64, b: f64| a.max(b.abs()));
                let floor = stagnation_floor(&x, icpt, alpha, 2.0 * (1.0 + ymax) * 20.0, doc_glm_obj(0.0, link_of(l), alpha, &x, &y, &coef, m.intercept));
                (norm2(&g) > 2.0 * (tol + floor), norm2(&g))
            }
            Err(_) => (false, 0.0),
        }
    };
    if std::env::var("C12_TRACE").is_ok() {
        eprintln!("glm budget probe (variant {}): |g| after 100 iterations = {:e}, needs_more = {}", variant, g100, needs_more);
    }
    if needs_more {
        em.count("glmfit:budget:needs_more_than_100_iterations");
        em.count(&format!("glmfit:budget:needs_more_than_100_iterations:variant={}", variant));
    }
    run_glmfit(em, GlmCase { power: 0.0, l, auto_link: l == 0 && i % 2 == 0, icpt, alpha, tol, bad: false, lay: 4, max_iter: Some(100_000), x, y });
}

/// more fits on the logit arms (the cycle of `op_glmfit` reaches each (power, logit, intercept) arm once or twice)
fn op_glm_logit(em: &mut Em, rng: &mut Rng, i: usize) {
    let powers = [0.0, 1.0, 1.5, 1.25, 2.0, 3.0];
    let power = powers[i % 6];
    let icpt = (i / 6) % 2 == 0;
    let n = 8 + rng.below(16);
    let nf = 1 + rng.below(3);
    let alpha = *rng.pick(&[0.0, 0.01, 0.1, 1.0]);
    let tol = *rng.pick(&[1e-4, 1e-6]);
    let (x, y) = gen_glm_data(rng, power, 2, n, nf, false);
    em.count("glmfit:logit_stream");
    run_glmfit(em, GlmCase { power, l: 2, auto_link: false, icpt, alpha, tol, bad: false, lay: rng.below(5) + 5 * rng.below(3), max_iter: Some(10_000), x, y });
}

/// Targets inside the support of the distribution whose MEAN lies outside the domain of the link function: `fit` starts from
/// `intercept = link(mean(y))`, which is NaN / -inf there (log link: mean(y) <= 0, Normal targets; logit link: mean(y) >= 1).
/// Oracle only, under the watchdog: what does `fit` do?
fn op_glm_start(em: &mut Em, rng: &mut Rng, i: usize) {
    let kind = i % 3;
    // 0: Normal + log link, mean(y) < 0 but some targets positive (a finite minimiser of the deviance exists)
    // 1: Poisson + logit link, counts with mean >= 1;  2: Normal + logit link, mean(y) >= 1
    let (power, l) = match kind {
        0 => (0.0, 1),
        1 => (1.0, 2),
        _ => (0.0, 2),
    };
    let n = 8 + rng.below(10);
    let nf = 1 + rng.below(2);
    let x: M = (0..n).map(|_| (0..nf).map(|_| rng.unit() * 2.0 - 1.0).collect()).collect();
    let y: Vec<f64> = (0..n)
        .map(|j| match kind {
            0 => if j % 3 == 0 { 0.5 + rng.unit() } else { -2.0 - rng.unit() },
            1 => (rng.below(4) + if j == 0 { 2 } else { 0 }) as f64 + 1.0,
            _ => 1.0 + rng.unit(),
        })
        .collect();
    let alpha = 0.1;
    let class = format!("glmstart:power={},link={}", power_name(power), l);
    em.count(&class);
    let op = format!("#glmstart power={} l={} alpha={} x={} y={}", power, l, alpha, hx2(&x), hx(&y));
    trace(&op);
    // kind 0: a finite minimiser exists (some targets positive) -> inside the statement's quantifier; kinds 1 / 2: every mean
    // the logit link can produce lies below every target, the objective has no stationary point -> nothing is promised
    let promised = kind == 0;
    let hangs = match watchdog(em, &format!("start{}", kind), false) {
        Some(h) => h,
        None => {
            em.case(format!("#glmstart_skipped {}", &op[10..]), |ctx| {
                ctx.mark_trivial();
                "skipped".into()
            });
            return;
        }
    };
    em.case(op, move |ctx| {
        if hangs {
            if promised {
                ctx.fail("terminates", &class, format!("fit did not return within 5 s: mean(y) = {} is outside the domain of the link, the start intercept link(mean(y)) is not finite", y.iter().sum::<f64>() / y.len() as f64));
            }
            return "timeout".into();
        }
        if !promised {
            ctx.mark_trivial();
        }
        let res = TweedieRegressor::params().power(power).link(link_of(l)).alpha(alpha).tol(1e-6).max_iter(10_000).fit(&Dataset::new(arr2(&x, nf), Array1::from(y.clone())));
        match res {
            Err(e) => {
                // an error is an honest answer
                let _ = e;
                "err".into()
            }
            Ok(m) => {
                let coef = m.coef.to_vec();
                let b = m.intercept;
                let finite = coef.iter().all(|v| v.is_finite()) && b.is_finite();
                ctx.require(finite || !promised, "returned_parameters_finite", &class, || format!("fit returned Ok with coef {:?} intercept {} (mean(y) = {} is outside the domain of the link: start intercept = link(mean(y)) is not finite)", coef, b, y.iter().sum::<f64>() / y.len() as f64));
                if finite && promised {
                    let (mut g, gb) = doc_glm_grad(power, link_of(l), alpha, &x, &y, &coef, b);
                    g.push(gb);
                    let ymax = y.iter().cloned().fold(0.0, |a: f64, b: f64| a.max(b.abs()));
                    let floor = stagnation_floor(&x, true, alpha, 2.0 * (1.0 + ymax) * 20.0, doc_glm_obj(power, link_of(l), alpha, &x, &y, &coef, b));
                    ctx.require(norm2(&g) <= 1e-6 * 1.0001 + floor, "stationary", &class, || format!("|gradient| = {:e} at coef {:?} intercept {}", norm2(&g), coef, b));
                }
                "ok".into()
            }
        }
    });
}

pub fn run(em: &mut Em, rng: &mut Rng) {
    let f = if em.thorough() { 10 } else { 1 };
    for _ in 0..60 * f {
        op_linkf(em, rng);
    }
    for p in [0.0, -1.0, -0.0, 1.0, 1.5, 2.0, 3.0, 0.5, 1e-300, -1e-300, 0.999_999_9, 1.000_000_1] {
        op_deflink(em, p, None);
        for c in 0..3 {
            op_deflink(em, p, Some(c));
        }
    }
    for i in 0..40 * f {
        op_f32_scalar(em, rng);
        op_f32_softmax(em, rng);
        op_f32_lossgrad(em, rng);
        op_f32_predict(em, rng);
        op_f32_dev(em, rng);
        let _ = i;
    }
    for i in 0..30 * f {
        op_f32_fit2(em, rng, i);
        op_f32_fitm(em, rng, i);
        op_f32_glmfit(em, rng, i);
    }
    for _ in 0..24 * f {
        op_budget(em, rng);
    }
    for i in 0..60 * f {
        op_fitm_unscaled(em, rng, i);
    }
    mask_ceiling(em);
    for i in 0..18 * f {
        op_glm_budget(em, rng, i);
    }
    for i in 0..24 * f {
        op_glm_logit(em, rng, i);
    }
    for i in 0..9 * f {
        op_glm_start(em, rng, i);
    }
}
