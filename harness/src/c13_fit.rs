//! C13 — public-API fits of linfa-svm (oracle only); see c13.rs.
//!
//! Every case fits one model through one of the calling forms the crate implements (owned arrays,
//! views of Fortran-ordered / strided arrays, `CountedTargets`, `Array2<()>` one-class targets), with
//! one of the parameter setters (explicit, default `None`, deprecated `c_eps` / `nu_eps`), and then
//! evaluates it through **every** prediction entry point (single row by view and by value, batch over
//! C-/F-ordered and strided records, over a dataset, `predict_inplace`) on the training rows and on
//! unseen points.  Clauses: `box`, `equality`, `kkt_margin`, `kkt_residual`, `decision_value`
//! (from the published coefficients), `predict_forms` (all entry points agree bit-for-bit with
//! `weighted_sum - rho`), `label_sign`, `platt_function`, `platt_monotone`, `platt_range`, `nsupport`,
//! `display`, `hyperparams`, `terminates`, `no_panic`.
use crate::util::*;
use linfa::composing::platt_scaling::{platt_newton_method, platt_predict};
use linfa::dataset::{CountedTargets, DatasetBase, Pr};
use linfa::traits::{Fit, Predict, PredictInplace};
use linfa::ParamGuard;
use linfa_svm::verif_hooks_c13::Solved;
use linfa_svm::verif_hooks_c13g::{platt_coeffs, solved};
use linfa_svm::Svm;
use ndarray::{s, Array1, Array2, ShapeBuilder};

#[derive(Clone, Copy, Debug, PartialEq)]
enum Kern {
    Linear,
    Gauss(f64),
    Poly(f64, f64),
}
impl Kern {
    fn eval(&self, a: &[f64], b: &[f64]) -> f64 {
        let dot: f64 = a.iter().zip(b.iter()).map(|(x, y)| x * y).sum();
        match *self {
            Kern::Linear => dot,
            Kern::Gauss(e) => {
                let d: f64 = a.iter().zip(b.iter()).map(|(x, y)| (x - y) * (x - y)).sum();
                (-d / e).exp()
            }
            Kern::Poly(c, d) => (dot + c).powf(d),
        }
    }
    fn name(&self) -> &'static str {
        match self {
            Kern::Linear => "linear",
            Kern::Gauss(_) => "gaussian",
            Kern::Poly(_, _) => "polynomial",
        }
    }
}

#[derive(Clone, Copy, Debug, PartialEq)]
enum Mode {
    C(f64, f64),
    Nu(f64),
    OneClass(f64),
    /// (C, loss epsilon) as the fit must behave
    EpsSvr(f64, f64),
    /// (nu, C) as the fit must behave
    NuSvr(f64, f64),
}
impl Mode {
    fn name(&self) -> &'static str {
        match self {
            Mode::C(_, _) => "c_svc",
            Mode::Nu(_) => "nu_svc",
            Mode::OneClass(_) => "one_class",
            Mode::EpsSvr(_, _) => "eps_svr",
            Mode::NuSvr(_, _) => "nu_svr",
        }
    }
}

struct FitCase {
    x: Vec<Vec<f64>>,
    /// unseen points
    q: Vec<Vec<f64>>,
    yb: Vec<bool>,
    yr: Vec<f64>,
    kern: Kern,
    mode: Mode,
    eps: f64,
    shrinking: bool,
    f32_: bool,
    platt: bool,
    /// calling form of `fit`: 0 owned, 1 views of a Fortran-ordered record array, 2 strided views of
    /// records and targets, 3 `CountedTargets`, 4 `Array2<()>` (one-class only)
    form: u8,
    /// regression setter: 0 explicit `Some(..)`, 1 default `None`, 2 deprecated `c_eps` / `nu_eps`
    setter: u8,
    /// nu-SVC with nu > 2 min(n+, n-) / n: the dual has no feasible point, `fit` must refuse
    infeasible: bool,
}

struct Fitted {
    alpha: Vec<f64>,
    rho: f64,
    nsupport: usize,
    display: String,
    sol: Solved,
    /// `weighted_sum(row) - rho` on the training rows followed by the unseen points
    dec: Vec<f64>,
    labels: Option<Vec<bool>>,
    probs: Option<Vec<f32>>,
    platt: Option<(f64, f64)>,
    /// Platt coefficients recomputed with linfa's public `platt_newton_method` from the decision values of the
    /// training rows, the training labels and the model's own Platt parameters
    platt_want: Option<Result<(f64, f64), String>>,
    /// entry points whose result differs from the single-row reference
    forms: Vec<String>,
    /// accessor values of the checked parameter set that differ from the documented meaning of the setter
    params: Vec<String>,
}

fn forms_diff(name: &str, got: &[u64], want: &[u64]) -> Option<String> {
    if got == want {
        return None;
    }
    let i = (0..got.len().min(want.len())).find(|i| got[*i] != want[*i]).unwrap_or(0);
    Some(format!("{}: differs from predict(row view) at point {} of {} ({} results)", name, i, want.len(), got.len()))
}

fn kernel_of<F: linfa::Float, T>(p: linfa_svm::SvmParams<F, T>, k: Kern) -> linfa_svm::SvmParams<F, T> {
    match k {
        Kern::Linear => p.linear_kernel(),
        Kern::Gauss(e) => p.gaussian_kernel(F::cast(e)),
        Kern::Poly(c, d) => p.polynomial_kernel(F::cast(c), F::cast(d)),
    }
}

/// all prediction entry points of model `$m` on the C-ordered points `$pts`, compared bit-for-bit
/// (through `$key`) with the single-row form on a row view; returns the single-row results
macro_rules! predict_forms {
    ($t:ty, $out:ty, $m:expr, $pts:expr, $key:expr, $forms:expr) => {{
        let pts: &Array2<$t> = $pts;
        let key = $key;
        let n = pts.nrows();
        let single: Vec<$out> = pts.outer_iter().map(|r| $m.predict(r)).collect();
        let want: Vec<u64> = single.iter().map(|o| key(o)).collect();
        macro_rules! cmp {
            ($name:expr, $got:expr) => {
                let got: Vec<u64> = $got;
                if let Some(e) = forms_diff($name, &got, &want) {
                    $forms.push(e);
                }
            };
        }
        cmp!("predict(owned row)", pts.outer_iter().map(|r| key(&$m.predict(r.to_owned()))).collect());
        let b: Array1<$out> = $m.predict(pts);
        cmp!("predict(&Array2)", b.iter().map(|o| key(o)).collect());
        let v = pts.view();
        let b: Array1<$out> = $m.predict(&v);
        cmp!("predict(&ArrayView2)", b.iter().map(|o| key(o)).collect());
        let mut pf: Array2<$t> = Array2::zeros((n, pts.ncols()).f());
        pf.assign(pts);
        let b: Array1<$out> = $m.predict(&pf);
        cmp!("predict(&Array2 in Fortran order)", b.iter().map(|o| key(o)).collect());
        let mut wide: Array2<$t> = Array2::zeros((2 * n, 2 * pts.ncols()));
        wide.slice_mut(s![..;2, ..;2]).assign(pts);
        let sv = wide.slice(s![..;2, ..;2]);
        let b: Array1<$out> = $m.predict(&sv);
        cmp!("predict(&strided view)", b.iter().map(|o| key(o)).collect());
        cmp!("predict(strided row)", sv.outer_iter().map(|r| key(&$m.predict(r))).collect());
        let ds = DatasetBase::from(pts.clone());
        let b: Array1<$out> = $m.predict(&ds);
        cmp!("predict(&dataset)", b.iter().map(|o| key(o)).collect());
        let mut tg: Array1<$out> = $m.default_target(pts);
        if tg.len() != n {
            $forms.push(format!("default_target: {} entries for {} points", tg.len(), n));
        } else {
            $m.predict_inplace(pts, &mut tg);
            cmp!("predict_inplace", tg.iter().map(|o| key(o)).collect());
        }
        single
    }};
}

macro_rules! impl_run_fit {
    ($name:ident, $t:ty) => {
        fn $name(fc: &FitCase) -> Result<Fitted, String> {
            type F = $t;
            let n = fc.x.len();
            let d = fc.x[0].len();
            let c = |v: f64| -> F { v as F };
            let to64 = |v: F| -> f64 { v as f64 };
            let rec: Array2<F> = Array2::from_shape_fn((n, d), |(i, j)| c(fc.x[i][j]));
            let mut all: Array2<F> = Array2::zeros((n + fc.q.len(), d));
            all.slice_mut(s![..n, ..]).assign(&rec);
            for (i, q) in fc.q.iter().enumerate() {
                for j in 0..d {
                    all[(n + i, j)] = c(q[j]);
                }
            }
            // record / target storage for the view forms
            let mut rec_f: Array2<F> = Array2::zeros((n, d).f());
            rec_f.assign(&rec);
            let mut rec_w: Array2<F> = Array2::from_elem((2 * n, d + 1), c(7.0));
            rec_w.slice_mut(s![..;2, ..d]).assign(&rec);
            let mut forms: Vec<String> = vec![];
            let mut params: Vec<String> = vec![];
            let mut expect = |what: &str, ok: bool, got: String| {
                if !ok {
                    params.push(format!("{}: {}", what, got));
                }
            };
            match fc.mode {
                Mode::C(_, _) | Mode::Nu(_) => {
                    let yb = Array1::from(fc.yb.clone());
                    let mut yb_w: Array1<bool> = Array1::from_elem(2 * n, false);
                    yb_w.slice_mut(s![..;2]).assign(&yb);
                    macro_rules! class_params {
                        ($l:ty) => {{
                            let p = Svm::<F, $l>::params().eps(c(fc.eps)).shrinking(fc.shrinking);
                            let p = kernel_of(p, fc.kern);
                            let p = match fc.mode {
                                Mode::C(a, b) => p.pos_neg_weights(c(a), c(b)),
                                Mode::Nu(v) => p.nu_weight(c(v)),
                                _ => unreachable!(),
                            };
                            if let Ok(v) = p.check_ref() {
                                match fc.mode {
                                    Mode::C(a, b) => expect("pos_neg_weights(a, b)", v.c() == Some((c(a), c(b))) && v.nu().is_none(), format!("c() = {:?}, nu() = {:?}", v.c(), v.nu())),
                                    Mode::Nu(nu) => expect("nu_weight(nu)", v.c().is_none() && v.nu().map(|x| x.0) == Some(c(nu)), format!("c() = {:?}, nu() = {:?}", v.c(), v.nu())),
                                    _ => {}
                                }
                                expect("eps / shrinking", v.solver_params().eps == c(fc.eps) && v.solver_params().shrinking == fc.shrinking, format!("{:?}", v.solver_params()));
                            }
                            p
                        }};
                    }
                    macro_rules! class_fit {
                        ($p:expr) => {
                            match fc.form {
                                0 => $p.fit(&DatasetBase::new(rec.clone(), yb.clone())),
                                1 => $p.fit(&DatasetBase::new(rec_f.view(), yb.view())),
                                2 => $p.fit(&DatasetBase::new(rec_w.slice(s![..;2, ..d]), yb_w.slice(s![..;2]))),
                                _ => $p.fit(&DatasetBase::new(rec.clone(), CountedTargets::new(yb.clone()))),
                            }
                        };
                    }
                    if fc.platt {
                        let p = class_params!(Pr);
                        let m: Svm<F, Pr> = class_fit!(p).map_err(|e| format!("{:?}", e))?;
                        let dec: Vec<f64> = all.outer_iter().map(|r| to64(m.weighted_sum(&r) - m.rho)).collect();
                        // what "calibrated" means: (A, B) is the Platt fit of the training decision values to the labels
                        let dtrain: Array1<F> = rec.outer_iter().map(|r| m.weighted_sum(&r) - m.rho).collect();
                        let platt_want: Result<(f64, f64), String> = match p.check_ref() {
                            Ok(v) => match v.platt_params().check_ref() {
                                Ok(pp) => platt_newton_method(dtrain.view(), yb.view(), pp).map(|(a, b)| (to64(a), to64(b))).map_err(|e| format!("{:?}", e)),
                                Err(e) => Err(format!("{:?}", e)),
                            },
                            Err(e) => Err(format!("{:?}", e)),
                        };
                        let probs: Vec<Pr> = predict_forms!(F, Pr, m, &all, |o: &Pr| (**o).to_bits() as u64, forms);
                        Ok(Fitted { alpha: m.alpha.iter().map(|v| to64(*v)).collect(), rho: to64(m.rho), nsupport: m.nsupport(), display: format!("{}", m), sol: solved(&m), dec, labels: None, probs: Some(probs.iter().map(|p| **p).collect()), platt: platt_coeffs(&m), platt_want: Some(platt_want), forms, params })
                    } else {
                        let p = class_params!(bool);
                        let m: Svm<F, bool> = class_fit!(p).map_err(|e| format!("{:?}", e))?;
                        let dec: Vec<f64> = all.outer_iter().map(|r| to64(m.weighted_sum(&r) - m.rho)).collect();
                        let labels: Vec<bool> = predict_forms!(F, bool, m, &all, |o: &bool| *o as u64, forms);
                        Ok(Fitted { alpha: m.alpha.iter().map(|v| to64(*v)).collect(), rho: to64(m.rho), nsupport: m.nsupport(), display: format!("{}", m), sol: solved(&m), dec, labels: Some(labels), probs: None, platt: None, platt_want: None, forms, params })
                    }
                }
                Mode::OneClass(nu) => {
                    let p = Svm::<F, Pr>::params().eps(c(fc.eps)).shrinking(fc.shrinking).nu_weight(c(nu));
                    let p = kernel_of(p, fc.kern);
                    let un: Array1<()> = Array1::from(vec![(); n]);
                    let un_w: Array1<()> = Array1::from(vec![(); 2 * n]);
                    let m: Svm<F, bool> = match fc.form {
                        0 => p.fit(&DatasetBase::new(rec.clone(), un.clone())),
                        1 => p.fit(&DatasetBase::new(rec_f.view(), un.view())),
                        2 => p.fit(&DatasetBase::new(rec_w.slice(s![..;2, ..d]), un_w.slice(s![..;2]))),
                        3 => p.fit(&DatasetBase::new(rec.clone(), CountedTargets::new(un.clone()))),
                        _ => p.fit(&DatasetBase::new(rec.clone(), Array2::from_elem((n, 1), ()))),
                    }
                    .map_err(|e| format!("{:?}", e))?;
                    let dec: Vec<f64> = all.outer_iter().map(|r| to64(m.weighted_sum(&r) - m.rho)).collect();
                    let labels: Vec<bool> = predict_forms!(F, bool, m, &all, |o: &bool| *o as u64, forms);
                    Ok(Fitted { alpha: m.alpha.iter().map(|v| to64(*v)).collect(), rho: to64(m.rho), nsupport: m.nsupport(), display: format!("{}", m), sol: solved(&m), dec, labels: Some(labels), probs: None, platt: None, platt_want: None, forms, params })
                }
                Mode::EpsSvr(_, _) | Mode::NuSvr(_, _) => {
                    let yr: Array1<F> = Array1::from(fc.yr.iter().map(|v| c(*v)).collect::<Vec<F>>());
                    let mut yr_w: Array1<F> = Array1::zeros(2 * n);
                    yr_w.slice_mut(s![..;2]).assign(&yr);
                    let p = Svm::<F, F>::params().shrinking(fc.shrinking);
                    let p = kernel_of(p, fc.kern);
                    #[allow(deprecated)]
                    let p = match (fc.mode, fc.setter) {
                        (Mode::EpsSvr(cc, e), 0) => p.eps(c(fc.eps)).c_svr(c(cc), Some(c(e))),
                        (Mode::EpsSvr(cc, _), 1) => p.eps(c(fc.eps)).c_svr(c(cc), None),
                        (Mode::EpsSvr(cc, _), _) => p.c_eps(c(cc), c(fc.eps)),
                        (Mode::NuSvr(nu, cc), 0) => p.eps(c(fc.eps)).nu_svr(c(nu), Some(c(cc))),
                        (Mode::NuSvr(nu, _), 1) => p.eps(c(fc.eps)).nu_svr(c(nu), None),
                        (Mode::NuSvr(nu, _), _) => p.nu_eps(c(nu), c(fc.eps)),
                        _ => unreachable!(),
                    };
                    if let Ok(v) = p.check_ref() {
                        // documented meaning: c_svr(c, loss_eps = 0.1), nu_svr(nu, c = 1), c_eps / nu_eps set
                        // the solver's stopping eps and leave loss eps = 0.1 / C = 1
                        match fc.mode {
                            Mode::EpsSvr(cc, e) => expect("regression C / loss epsilon", v.c() == Some((c(cc), c(e))) && v.nu().is_none(), format!("setter {} gives c() = {:?}, nu() = {:?}, expected ({}, {})", fc.setter, v.c(), v.nu(), cc, e)),
                            Mode::NuSvr(nu, cc) => expect("regression nu / C", v.nu() == Some((c(nu), c(cc))) && v.c().is_none(), format!("setter {} gives nu() = {:?}, c() = {:?}, expected ({}, {})", fc.setter, v.nu(), v.c(), nu, cc)),
                            _ => {}
                        }
                        expect("eps / shrinking", v.solver_params().eps == c(fc.eps) && v.solver_params().shrinking == fc.shrinking, format!("{:?}", v.solver_params()));
                    }
                    let m: Svm<F, F> = match fc.form {
                        0 => p.fit(&DatasetBase::new(rec.clone(), yr.clone())),
                        1 => p.fit(&DatasetBase::new(rec_f.view(), yr.view())),
                        _ => p.fit(&DatasetBase::new(rec_w.slice(s![..;2, ..d]), yr_w.slice(s![..;2]))),
                    }
                    .map_err(|e| format!("{:?}", e))?;
                    let dec: Vec<f64> = all.outer_iter().map(|r| to64(m.weighted_sum(&r) - m.rho)).collect();
                    let pred: Vec<F> = predict_forms!(F, F, m, &all, |o: &F| (*o as f64).to_bits(), forms);
                    // the regression value of a sample is the decision value
                    if let Some(i) = (0..dec.len()).find(|i| to64(pred[*i]).to_bits() != dec[*i].to_bits()) {
                        forms.push(format!("predict(row) = {} but weighted_sum(row) - rho = {} at point {}", pred[i], dec[i], i));
                    }
                    Ok(Fitted { alpha: m.alpha.iter().map(|v| to64(*v)).collect(), rho: to64(m.rho), nsupport: m.nsupport(), display: format!("{}", m), sol: solved(&m), dec, labels: None, probs: None, platt: None, platt_want: None, forms, params })
                }
            }
        }
    };
}

impl_run_fit!(run_fit_f32, f32);
impl_run_fit!(run_fit_f64, f64);

fn gen_points(rng: &mut Rng, n: usize, shape: usize, d: usize) -> (Vec<Vec<f64>>, Vec<bool>, &'static str) {
    // quarter-integer coordinates (exact in f32 and f64); the classes differ along coordinate 0
    let q = |rng: &mut Rng, lo: i64, hi: i64| rng.range(lo, hi) as f64 / 4.0;
    let mut x = vec![];
    let mut y = vec![];
    let name = ["separable", "overlapping", "imbalanced", "duplicated"][shape % 4];
    for i in 0..n {
        let pos = match shape % 4 {
            2 => i % 7 == 0,
            _ => i % 2 == 0,
        };
        let (cx, spread) = match shape % 4 {
            0 => (if pos { 10 } else { -10 }, 6),
            1 => (if pos { 3 } else { -3 }, 10),
            2 => (if pos { 6 } else { -4 }, 8),
            _ => (if pos { 4 } else { -4 }, 3),
        };
        let mut r = vec![q(rng, cx - spread, cx + spread)];
        for _ in 1..d {
            r.push(q(rng, -spread, spread));
        }
        x.push(r);
        y.push(pos);
    }
    (x, y, name)
}

fn op_fit(em: &mut Em, rng: &mut Rng, n: usize) {
    let shape = rng.below(4);
    let d = *rng.pick(&[1usize, 2, 2, 2, 3, 6]);
    let (x, yb, shape_name) = gen_points(rng, n, shape, d);
    // unseen points: same lattice, wider range
    let q: Vec<Vec<f64>> = (0..6).map(|_| (0..d).map(|_| rng.range(-72, 72) as f64 / 4.0).collect()).collect();
    let f32_ = rng.chance(1, 4);
    let kern = match rng.below(5) {
        0 | 1 => Kern::Linear,
        2 | 3 => Kern::Gauss(*rng.pick(&[0.5, 2.0, 4.0, 32.0, 100.0])),
        _ => Kern::Poly(*rng.pick(&[0.0, 0.5, 1.0, 2.0]), *rng.pick(&[1.0, 2.0, 2.0, 3.0])),
    };
    // one-class fits with a degree-1 polynomial kernel and a non-zero constant: the only public configuration in
    // which `weighted_sum` of a kernel wrongly treated as linear is off (by c * sum alpha = c nu n)
    let force_poly1 = rng.chance(1, 12);
    let kern = if force_poly1 { Kern::Poly(*rng.pick(&[0.5, 1.0, 2.0]), 1.0) } else { kern };
    // regression target: smooth function of the coordinates + lattice noise
    let yr: Vec<f64> = x.iter().map(|r| 0.5 * r[0] - 0.25 * r[d - 1] + rng.range(-2, 2) as f64 / 8.0).collect();
    // badly scaled combinations (cubic kernels, thousands of points) with a huge C run into the
    // 10^7-iteration cap; they are kept at moderate C so that a check stays within minutes
    let heavy = n >= 800 || matches!(kern, Kern::Poly(_, _)) || d > 3;
    let cmax = if f32_ || heavy { 4.0f64 } else { 1000.0 };
    let logc = |rng: &mut Rng| -> f64 {
        let lo = 0.01f64.ln();
        let hi = cmax.ln();
        (lo + rng.unit() * (hi - lo)).exp()
    };
    let setter = *rng.pick(&[0u8, 0, 0, 1, 2]);
    let mut infeasible = false;
    let mode = match if force_poly1 { 4 } else { *rng.pick(&[0usize, 1, 2, 3, 3, 4, 5, 6, 7]) } {
        0 | 1 | 2 => {
            let a = logc(rng);
            let b = if rng.chance(2, 3) { logc(rng) } else { a };
            Mode::C(a, b)
        }
        3 => {
            // nu-SVC is feasible iff nu <= 2 min(n+, n-) / n (libsvm rejects the rest up front)
            let npos = yb.iter().filter(|v| **v).count();
            let lim = 2.0 * (npos.min(n - npos) as f64) / n as f64;
            if lim < 0.9 && rng.chance(1, 2) {
                // inside the statement's quantifier (nu in (0,1], imbalanced data) but without a feasible point:
                // sum_i y_i alpha_i = 0 and e'alpha = nu n cannot both hold with 0 <= alpha_i <= 1
                infeasible = true;
                Mode::Nu(lim + (1.0 - lim) * *rng.pick(&[0.25, 0.5, 1.0]))
            } else {
                Mode::Nu(*rng.pick(&[0.05, 0.2, 0.5, 0.8]) * lim)
            }
        }
        4 => Mode::OneClass(*rng.pick(&[0.05, 0.3, 0.7, 1.0])),
        5 | 6 => {
            let cc = logc(rng).min(100.0);
            let e = *rng.pick(&[0.01, 0.1, 0.5]);
            // `None` and the deprecated setter mean loss epsilon 0.1
            Mode::EpsSvr(cc, if setter == 0 { e } else { 0.1 })
        }
        _ => {
            let nu = *rng.pick(&[0.1, 0.5, 0.9]);
            let cc = logc(rng).min(100.0);
            // `None` and the deprecated setter mean C = 1
            Mode::NuSvr(nu, if setter == 0 { cc } else { 1.0 })
        }
    };
    let eps = if f32_ { 1e-2 } else if heavy { 1e-3 } else { *rng.pick(&[1e-3, 1e-5]) };
    let shrinking = rng.coin();
    let platt = rng.chance(1, 3);
    let form = match mode {
        Mode::C(_, _) | Mode::Nu(_) => *rng.pick(&[0u8, 0, 1, 2, 3]),
        Mode::OneClass(_) => *rng.pick(&[0u8, 1, 2, 3, 4]),
        _ => *rng.pick(&[0u8, 0, 1, 2]),
    };
    let fc = FitCase { x, q, yb, yr, kern, mode, eps, shrinking, f32_, platt, form, setter, infeasible };
    let class = format!("fit:{}:shrink={}", mode.name(), shrinking as u8);
    let unequal = matches!(mode, Mode::C(a, b) if a != b);
    let class = if unequal { format!("{}:weights=unequal", class) } else { class };
    let class = if infeasible { format!("{}:nu=infeasible", class) } else { class };
    em.count(&format!("fit:{}{}", mode.name(), if infeasible { ":infeasible" } else { "" }));
    em.count(&format!("fit:kernel={}", kern.name()));
    em.count(&format!("fit:shrink={}", shrinking as u8));
    em.count(&format!("fit:shape={}", shape_name));
    em.count(&format!("fit:form={}", form));
    em.count(&format!("fit:d={}", d));
    if matches!(mode, Mode::EpsSvr(_, _) | Mode::NuSvr(_, _)) {
        em.count(&format!("fit:setter={}", setter));
    }
    em.count(if f32_ { "fit:f32" } else { "fit:f64" });
    if platt && matches!(mode, Mode::C(_, _) | Mode::Nu(_)) && !infeasible {
        em.count("fit:platt_asked");
    }
    let op = format!(
        "#fit n={} d={} shape={} kernel={:?} mode={:?} infeasible={} eps={} shrink={} f32={} platt={} form={} setter={} x={} q={}",
        n,
        d,
        shape_name,
        kern,
        mode,
        infeasible as u8,
        eps,
        shrinking as u8,
        f32_ as u8,
        platt as u8,
        form,
        setter,
        list2(fc.x.iter().map(|r| r.iter()), |v| format!("{}", v)),
        list2(fc.q.iter().map(|r| r.iter()), |v| format!("{}", v))
    )
    .replace(", ", ":");
    let t0 = std::time::Instant::now();
    let opd = op.chars().take(160).collect::<String>();
    let mut outcome = "panic";
    em.case_valid(op, &class, |ctx| {
        if std::env::var("C13_DEBUG").is_ok() {
            std::panic::set_hook(Box::new(|i| eprintln!("PANIC {}", i)));
        }
        let ft = if fc.f32_ { run_fit_f32(&fc) } else { run_fit_f64(&fc) };
        if fc.infeasible {
            // no coefficient vector satisfies both equality constraints: the only outcome consistent with the
            // statement is a refusal (libsvm: "specified nu is infeasible")
            match &ft {
                Err(e) if e.starts_with("InvalidNu") => {
                    ctx.mark_trivial();
                    outcome = "infeasible_refused";
                    return "-".to_string();
                }
                Err(_) => {}
                Ok(ft) => {
                    let s: f64 = ft.alpha.iter().sum();
                    let sa: f64 = ft.alpha.iter().map(|v| v.abs()).sum();
                    let fe = if fc.f32_ { f32::EPSILON as f64 } else { f64::EPSILON };
                    let nn = fc.x.len() as f64;
                    let r = ft.sol.r.unwrap_or(f64::NAN);
                    let want = match fc.mode {
                        Mode::Nu(nu) => (if fc.f32_ { (nu as f32) as f64 } else { nu }) * nn,
                        _ => f64::NAN,
                    };
                    // published alpha = alpha_raw / r: y'alpha = 0 and e'alpha_raw = nu n
                    let ok = s.abs() <= 64.0 * fe * (1.0 + sa) * nn.sqrt() && r.is_finite() && r > 0.0 && (sa * r - want).abs() <= 64.0 * fe * (1.0 + want) * nn.sqrt() + 1e-3 * fe.sqrt() * want;
                    ctx.require(ok, "equality", &class, || format!("a model was published for an infeasible nu ({:?}, {} of {} samples positive): sum of y_i alpha_i = {}, sum |alpha| * r = {} * {} but nu n = {} (rho = {}, {} support vectors)", fc.mode, fc.yb.iter().filter(|v| **v).count(), fc.x.len(), s, sa, r, want, ft.rho, ft.nsupport));
                }
            }
        }
        let ft = match ft {
            Ok(ft) => ft,
            Err(e) => {
                // only the Platt calibration (linfa::composing) can refuse here: its Newton line search
                // reports non-convergence as an error value; the SVM solution itself is not reached
                ctx.mark_trivial();
                outcome = "platt_refused";
                ctx.require(fc.platt && (e == "Platt(LineSearchNotConverged)" || e == "Platt(MaxIterReached)"), "fit_error", &class, || format!("fit returned {}", e));
                return "-".to_string();
            }
        };
        if std::env::var("C13_DEBUG").is_ok() {
            eprintln!("mode {:?} kern {:?} n {} shrink {} display {} rho {} nsupport {}\nalpha {:?}\ny {:?}", fc.mode, fc.kern, fc.x.len(), fc.shrinking, ft.display, ft.rho, ft.nsupport, ft.alpha, fc.yb.iter().map(|v| *v as u8).collect::<Vec<_>>());
        }
        outcome = oracle_fit(ctx, &fc, &ft, &class);
        "-".to_string()
    });
    em.count(&format!("fit_outcome:{}:{}", outcome, mode.name()));
    if outcome == "judged" {
        em.count(&format!("fit_judged:{}", if f32_ { "f32" } else { "f64" }));
        em.count(&format!("fit_judged:form={}", form));
        em.count(&format!("fit_judged:shrink={}", shrinking as u8));
        if platt && matches!(mode, Mode::C(_, _) | Mode::Nu(_)) {
            em.count("fit_judged:platt");
        }
    }
    if std::env::var("C13_TIME").is_ok() && t0.elapsed().as_secs_f64() > 1.0 {
        eprintln!("{:.1}s {}", t0.elapsed().as_secs_f64(), opd);
    }
}

/// returns the outcome class of the case: `judged`, `cap` (iteration cap), `degenerate` (nu-SVC
/// with a margin below the solver tolerance)
fn oracle_fit(ctx: &mut Ctx, fc: &FitCase, ft: &Fitted, class: &str) -> &'static str {
    let n = fc.x.len();
    let fe = if fc.f32_ { f32::EPSILON as f64 } else { f64::EPSILON };
    // ---- clauses that do not depend on convergence
    for f in &ft.forms {
        ctx.fail("predict_forms", class, f.clone());
    }
    for p in &ft.params {
        ctx.fail("hyperparams", class, p.clone());
    }
    // Display reports the exit reason, the iteration count and nsupport of the model
    let want = if ft.sol.reached_threshold {
        format!("Exited after {} iterations with obj = ", ft.sol.iterations)
    } else {
        format!("Reached maximal iterations {} with obj = ", ft.sol.iterations)
    };
    ctx.require(ft.display.starts_with(&want) && ft.display.ends_with(&format!(" and {} support vectors", ft.nsupport)), "display", class, || format!("Display prints {:?} for a model with reached_threshold = {}, {} iterations, {} support vectors", ft.display, ft.sol.reached_threshold, ft.sol.iterations, ft.nsupport));
    ctx.require(ft.alpha.len() == n, "alpha_len", class, || format!("{} coefficients for {} samples", ft.alpha.len(), n));
    if ft.alpha.len() != n {
        return "judged";
    }
    let a = &ft.alpha;
    let amax = a.iter().fold(0.0f64, |m, v| m.max(v.abs()));
    // kernel values between all points (training rows, then unseen points)
    let mut pts: Vec<Vec<f64>> = fc.x.clone();
    pts.extend(fc.q.iter().cloned());
    let np = pts.len();
    let kmat: Vec<Vec<f64>> = (0..n).map(|j| (0..np).map(|i| fc.kern.eval(&pts[j], &pts[i])).collect()).collect();
    let kmax_train = (0..n).map(|j| (0..n).map(|i| kmat[j][i].abs()).fold(0.0f64, f64::max)).fold(0.0f64, f64::max);
    if let Mode::Nu(_) = fc.mode {
        // nu-SVC publishes alpha / r; when the optimal margin r is (numerically) zero the scaled
        // problem has no finite solution (libsvm divides by r as well) — degenerate, not judged
        if !(amax * kmax_train <= 1e6) || !(amax * fc.eps <= 0.05) || !ft.rho.is_finite() {
            // the margin clauses cannot be judged (the solver tolerance, divided by r, exceeds the margin); what does
            // not depend on the tolerance still holds whenever r is a positive number: signs, the bound 1/r, both
            // equality constraints
            if let Some(r) = ft.sol.r {
                if r.is_finite() && r > 0.0 && a.iter().all(|v| v.is_finite()) {
                    let c = 1.0 / r;
                    let sa: f64 = a.iter().map(|v| v.abs()).sum();
                    let s: f64 = a.iter().sum();
                    for i in 0..n {
                        let al = if fc.yb[i] { a[i] } else { -a[i] };
                        ctx.require(al >= 0.0 && al <= c * (1.0 + 4.0 * fe), "box", class, || format!("(margin below the tolerance) sample {}: coefficient {} outside [0, 1/r = {}]", i, al, c));
                    }
                    ctx.require(s.abs() <= 64.0 * fe * (1.0 + sa) * (n as f64).sqrt(), "equality", class, || format!("(margin below the tolerance) sum of y_i alpha_i = {} (sum |alpha| = {})", s, sa));
                    if let Mode::Nu(nu) = fc.mode {
                        let want = (if fc.f32_ { (nu as f32) as f64 } else { nu }) * n as f64;
                        ctx.require((sa * r - want).abs() <= 64.0 * fe * (1.0 + want) * (n as f64).sqrt() + 1e-3 * fe.sqrt() * want, "equality", class, || format!("(margin below the tolerance) sum |alpha| * r = {} but nu n = {}", sa * r, want));
                    }
                    return "degenerate";
                }
            }
            ctx.mark_trivial();
            return "degenerate";
        }
    }
    // number of support vectors = number of (numerically) non-zero coefficients = rows stored
    let nz = a.iter().filter(|v| v.abs() > 100.0 * fe).count();
    ctx.require(nz == ft.nsupport, "nsupport", class, || format!("nsupport {} but {} non-zero coefficients", ft.nsupport, nz));
    if let Some(sv) = &ft.sol.support {
        ctx.require(sv.len() == nz, "nsupport", class, || format!("{} support vectors stored but {} non-zero coefficients", sv.len(), nz));
    }
    // labels are the sign of the decision value (any sample, seen or not)
    if let Some(lab) = &ft.labels {
        for i in 0..ft.dec.len() {
            if ft.dec[i] != 0.0 && !ft.dec[i].is_nan() {
                ctx.require(lab[i] == (ft.dec[i] > 0.0), "label_sign", class, || format!("point {} decision {} label {}", i, ft.dec[i], lab[i]));
            }
        }
    }
    if let Some(pr) = &ft.probs {
        ctx.require(ft.platt.is_some(), "platt_function", class, || "a calibrated model without Platt coefficients".to_string());
        if let Some((pa, pb)) = ft.platt {
            // the probability is the Platt sigmoid of the decision value, evaluated in the precision of the model
            for i in 0..ft.dec.len() {
                let want = if fc.f32_ { *platt_predict(ft.dec[i] as f32, pa as f32, pb as f32) } else { *platt_predict(ft.dec[i], pa, pb) };
                ctx.require(want.to_bits() == pr[i].to_bits(), "platt_function", class, || format!("point {}: probability {} but the Platt sigmoid of its decision value {} is {}", i, pr[i], ft.dec[i], want));
            }
        }
        // calibrated: (A, B) is the Platt fit (linfa's public platt_newton_method, the model's own Platt parameters)
        // of the decision values weighted_sum - rho of the training rows to the training labels
        match (&ft.platt_want, ft.platt) {
            (Some(Ok((wa, wb))), Some((pa, pb))) => {
                ctx.require(wa.to_bits() == pa.to_bits() && wb.to_bits() == pb.to_bits(), "platt_calibration", class, || format!("stored Platt coefficients ({}, {}) are not the Platt fit ({}, {}) of the training decision values to the labels", pa, pb, wa, wb));
            }
            (Some(Err(e)), Some(_)) => ctx.fail("platt_calibration", class, format!("a calibrated model although the Platt fit of its decision values fails with {}", e)),
            _ => {}
        }
        let mut idx: Vec<usize> = (0..ft.dec.len()).filter(|i| !ft.dec[*i].is_nan()).collect();
        idx.sort_by(|u, v| ft.dec[*u].partial_cmp(&ft.dec[*v]).unwrap());
        // the f32 evaluation of the sigmoid (two branches, exp, division) is monotone up to its rounding
        let inc = idx.windows(2).all(|w| pr[w[0]] <= pr[w[1]] + 1e-6);
        let dec = idx.windows(2).all(|w| pr[w[0]] + 1e-6 >= pr[w[1]]);
        ctx.require(inc || dec, "platt_monotone", class, || "calibrated probabilities are not a monotone function of the decision value".to_string());
        ctx.require(pr.iter().all(|p| *p >= 0.0 && *p <= 1.0), "platt_range", class, || "probability outside [0,1]".to_string());
    }
    if !ft.sol.reached_threshold {
        // the iteration cap was hit: the statement's "up to the solver tolerance" does not apply
        ctx.mark_trivial();
        return "cap";
    }
    let f: Vec<f64> = (0..np).map(|i| (0..n).map(|j| a[j] * kmat[j][i]).sum::<f64>() - ft.rho).collect();
    // rounding of one decision value computed in the precision of the model: sum of |terms|
    let mass = |i: usize| -> f64 { (0..n).map(|j| (a[j] * kmat[j][i]).abs()).sum::<f64>() + ft.rho.abs() };
    let sumabs: f64 = a.iter().map(|v| v.abs()).sum();
    if !ft.rho.is_finite() {
        // all variables at the upper bound (one-class with nu = 1): rho is unbounded above
        let same = (0..np).all(|i| ft.dec[i] == f[i] || (ft.dec[i].is_nan() && f[i].is_nan()));
        ctx.require(same, "decision_value", class, || "decision values differ for an infinite rho".to_string());
        ctx.require(a.iter().all(|v| *v >= 1.0), "kkt_margin", class, || format!("rho = {} although not every coefficient is at its bound", ft.rho));
        return "judged";
    }
    // decision value from the published coefficients, at training rows and unseen points
    let dnoise = |i: usize| -> f64 { 8.0 * fe * (1.0 + mass(i)) * ((n as f64).sqrt() + 4.0) };
    // the same sum over the coefficients weighted_sum keeps (|alpha| > 100 eps of the float type)
    let thr = 100.0 * fe;
    let f_kept = |i: usize| -> f64 { (0..n).filter(|j| a[*j].abs() > thr).map(|j| a[j] * kmat[j][i]).sum::<f64>() - ft.rho };
    let class_f = format!("{}:f32={}", class, fc.f32_ as u8);
    for i in 0..np {
        if (f[i] - ft.dec[i]).abs() <= dnoise(i) {
            continue;
        }
        if (f_kept(i) - ft.dec[i]).abs() <= dnoise(i) {
            // the value is the sum over the coefficients above the absolute threshold 100 eps only: published
            // non-zero coefficients below it are ignored although their contribution is not rounding noise
            let dropped = (0..n).filter(|j| a[*j] != 0.0 && a[*j].abs() <= thr).count();
            ctx.fail("decision_value_small_coefficients", &class_f, format!("point {}: weighted_sum - rho = {} is the sum over the {} coefficients above 100 eps = {:e}; with the {} published non-zero coefficients below it sum_j alpha_j K(x_j,x) - rho = {} (tolerance {:e})", i, ft.dec[i], ft.nsupport, thr, dropped, f[i], dnoise(i)));
        } else {
            ctx.fail("decision_value", class, format!("point {}{}: weighted_sum - rho = {} but sum_j alpha_j K(x_j,x) - rho = {} (tolerance {})", i, if i >= n { " (unseen)" } else { "" }, ft.dec[i], f[i], dnoise(i)));
        }
    }
    // ---- KKT: the solver's own gradient differs from the exact one by the rounding it accumulated:
    // every iteration moves two coefficients and adds their kernel columns to the gradient
    let gmass = (0..n).map(mass).fold(0.0f64, f64::max);
    let acc = 4.0 * fe * (1.0 + gmass) * (16.0 + (ft.sol.iterations as f64).sqrt());
    let tol = fc.eps + acc;
    let delta = |c: f64| 1e3 * fe * (1.0 + c);
    let cast = |v: f64| if fc.f32_ { (v as f32) as f64 } else { v };
    let mut worst = 0.0f64; // largest violation of a KKT inequality before any tolerance
    match fc.mode {
        Mode::C(cp, cn) => {
            let mut s = 0.0;
            for i in 0..n {
                let c = cast(if fc.yb[i] { cp } else { cn });
                let ys = if fc.yb[i] { 1.0 } else { -1.0 };
                let al = ys * a[i];
                s += a[i];
                ctx.require(al >= 0.0 && al <= c, super::box_clause(al, 0.0, c, cast(cp.max(cn)), fe), class, || format!("sample {} (y {}): coefficient {:e} outside [0,{:e}]", i, ys, al, c));
                let yf = ys * f[i];
                if al < c - delta(c) {
                    worst = worst.max(1.0 - yf);
                    ctx.require(yf >= 1.0 - tol, "kkt_margin", class, || format!("sample {} with alpha {} < C {} lies inside the margin: y f = {} (tolerance {})", i, al, c, yf, tol));
                }
                if al > delta(c) {
                    worst = worst.max(yf - 1.0);
                    ctx.require(yf <= 1.0 + tol, "kkt_margin", class, || format!("sample {} with alpha {} > 0 lies outside the margin: y f = {} (tolerance {})", i, al, yf, tol));
                }
            }
            ctx.require(s.abs() <= 64.0 * fe * (1.0 + sumabs) * (n as f64).sqrt(), "equality", class, || format!("sum of y_i alpha_i = {}", s));
        }
        Mode::Nu(nu) => {
            // published alpha = alpha_raw / r with 0 <= alpha_raw <= 1 and sum(alpha_raw) = nu n
            // (nu n / 2 per class): the bound is 1 / r, and the solver tolerance scales by 1 / r too
            let nu_ = cast(nu);
            let r = ft.sol.r.unwrap_or(f64::NAN);
            ctx.require(r.is_finite() && r > 0.0, "box", class, || format!("nu-classification published r = {:?}", ft.sol.r));
            let c = 1.0 / r;
            let mut s = 0.0;
            for i in 0..n {
                let ys = if fc.yb[i] { 1.0 } else { -1.0 };
                let al = ys * a[i];
                s += a[i];
                ctx.require(al >= 0.0 && al <= c * (1.0 + 4.0 * fe), "box", class, || format!("sample {} (y {}): coefficient {} outside [0, 1/r = {}]", i, ys, al, c));
                let yf = ys * f[i];
                if al < c - delta(c) {
                    worst = worst.max((1.0 - yf) / (1.0 + c));
                    ctx.require(yf >= 1.0 - tol * (1.0 + c), "kkt_margin", class, || format!("sample {} with alpha {} < bound {} lies inside the margin: y f = {}", i, al, c, yf));
                }
                if al > delta(c) {
                    worst = worst.max((yf - 1.0) / (1.0 + c));
                    ctx.require(yf <= 1.0 + tol * (1.0 + c), "kkt_margin", class, || format!("sample {} with alpha {} > 0 lies outside the margin: y f = {}", i, al, yf));
                }
            }
            ctx.require(s.abs() <= 64.0 * fe * (1.0 + sumabs) * (n as f64).sqrt(), "equality", class, || format!("sum of y_i alpha_i = {}", s));
            // second equality constraint: e' alpha_raw = nu n
            let want = nu_ * n as f64;
            ctx.require((sumabs * r - want).abs() <= 64.0 * fe * (1.0 + want) * (n as f64).sqrt() + 1e-3 * fe.sqrt() * want, "equality", class, || format!("sum |alpha| * r = {} but nu n = {}", sumabs * r, want));
        }
        Mode::OneClass(nu) => {
            let mut s = 0.0;
            for i in 0..n {
                s += a[i];
                ctx.require(a[i] >= 0.0 && a[i] <= 1.0, super::box_clause(a[i], 0.0, 1.0, 1.0, fe), class, || format!("sample {}: coefficient {:e} outside [0,1]", i, a[i]));
                if a[i] < 1.0 - delta(1.0) {
                    worst = worst.max(-f[i]);
                    ctx.require(f[i] >= -tol, "kkt_margin", class, || format!("sample {} with alpha {} < 1 has decision {} < 0", i, a[i], f[i]));
                }
                if a[i] > delta(1.0) {
                    worst = worst.max(f[i]);
                    ctx.require(f[i] <= tol, "kkt_margin", class, || format!("sample {} with alpha {} > 0 has decision {} > 0", i, a[i], f[i]));
                }
            }
            let nu_ = cast(nu);
            ctx.require((s - nu_ * n as f64).abs() <= 64.0 * fe * (1.0 + s.abs()) * n as f64, "equality", class, || format!("sum alpha = {} but nu*n = {}", s, nu_ * n as f64));
        }
        Mode::EpsSvr(c, e) => {
            let c = cast(c);
            let e = cast(e);
            let mut s = 0.0;
            for i in 0..n {
                s += a[i];
                ctx.require(a[i].abs() <= c, super::box_clause(a[i], -c, c, c, fe), class, || format!("sample {}: coefficient {:e} outside [-{:e},{:e}]", i, a[i], c, c));
                let res = cast(fc.yr[i]) - f[i];
                let ytol = tol + 16.0 * fe * fc.yr[i].abs();
                // alpha_i - alpha*_i < C  => (alpha_i not at upper or alpha*_i > 0) : res <= eps
                if a[i] < c - delta(c) {
                    worst = worst.max(res - e);
                    ctx.require(res <= e + ytol, "kkt_residual", class, || format!("sample {} coefficient {} < C {}: residual {} > eps {} (tolerance {})", i, a[i], c, res, e, ytol));
                }
                if a[i] > -c + delta(c) {
                    worst = worst.max(-e - res);
                    ctx.require(res >= -e - ytol, "kkt_residual", class, || format!("sample {} coefficient {} > -C: residual {} < -eps {} (tolerance {})", i, a[i], res, e, ytol));
                }
                if a[i] > delta(c) {
                    worst = worst.max(e - res);
                    ctx.require(res >= e - ytol, "kkt_residual", class, || format!("sample {} coefficient {} > 0: residual {} < eps {} (tolerance {})", i, a[i], res, e, ytol));
                }
                if a[i] < -delta(c) {
                    worst = worst.max(res + e);
                    ctx.require(res <= -e + ytol, "kkt_residual", class, || format!("sample {} coefficient {} < 0: residual {} > -eps {} (tolerance {})", i, a[i], res, e, ytol));
                }
            }
            ctx.require(s.abs() <= 64.0 * fe * (1.0 + sumabs) * (n as f64).sqrt(), "equality", class, || format!("sum of coefficients = {}", s));
        }
        Mode::NuSvr(nu, c) => {
            let c = cast(c);
            let mut s = 0.0;
            for i in 0..n {
                s += a[i];
                ctx.require(a[i].abs() <= c, super::box_clause(a[i], -c, c, c, fe), class, || format!("sample {}: coefficient {:e} outside [-{:e},{:e}]", i, a[i], c, c));
            }
            ctx.require(s.abs() <= 64.0 * fe * (1.0 + sumabs) * (n as f64).sqrt(), "equality", class, || format!("sum of coefficients = {}", s));
            // second constraint of the nu-SVR dual: e'(alpha + alpha*) <= C nu n, and sum|alpha_i - alpha*_i| <= e'(alpha + alpha*)
            let nu_ = cast(nu);
            // tube width is a free variable of nu-SVR: all free vectors must share one |residual| = eps >= 0,
            // zero coefficients lie within it, bounded ones on or outside it
            let mut lo = 0.0f64; // eps >= lo
            let mut hi = f64::INFINITY; // eps <= hi
            for i in 0..n {
                let res = cast(fc.yr[i]) - f[i];
                if a[i] > delta(c) {
                    // res >= eps (== if free)
                    hi = hi.min(res);
                    if a[i] < c - delta(c) {
                        lo = lo.max(res);
                    }
                } else if a[i] < -delta(c) {
                    hi = hi.min(-res);
                    if a[i] > -c + delta(c) {
                        lo = lo.max(-res);
                    }
                } else {
                    lo = lo.max(res.abs());
                }
            }
            worst = worst.max((lo - hi) / 2.0);
            ctx.require(lo <= hi + 2.0 * tol, "kkt_residual", class, || format!("no tube width fits: needs eps >= {} and eps <= {} (tolerance {})", lo, hi, 2.0 * tol));
            // the listed defect (the solver runs without the nu constraint) has a signature: the result is the eps-SVR
            // solution for eps = 0, i.e. the tube width the residuals demand is zero.  A violated sum constraint with a
            // positive tube width is something else (e.g. a wrong constant in a repair) and is reported on its own.
            if !(sumabs <= c * nu_ * n as f64 * (1.0 + 1e-6) + 64.0 * fe * (1.0 + sumabs)) {
                let zero_tube = lo <= 2.0 * tol + 16.0 * fe * fc.yr.iter().fold(0.0f64, |m, v| m.max(v.abs()));
                let clause = if zero_tube { "nu_constraint" } else { "nu_constraint_positive_tube" };
                ctx.fail(clause, class, format!("sum |coefficient| = {} exceeds C nu n = {} (C {} nu {} n {}): nu does not constrain the solution (tube width demanded by the residuals: {})", sumabs, c * nu_ * n as f64, c, nu_, n, lo));
            }
        }
    }
    if std::env::var("C13_CALIB").is_ok() {
        // calibration of the KKT tolerance: violation beyond the solver's eps in units of fe * (1 + gmass)
        eprintln!("CALIB {} f32={} n={} it={} eps={} worst={:e} excess_units={:.3} acc_units={:.3}", fc.mode.name(), fc.f32_ as u8, n, ft.sol.iterations, fc.eps, worst, (worst - fc.eps).max(0.0) / (fe * (1.0 + gmass)), acc / (fe * (1.0 + gmass)));
    }
    "judged"
}

/// the guards the theorems' hypotheses rest on (`eps >= 0`, `C > 0`, `nu in (0, 1]`): `SvmParams::check_ref`
/// must refuse exactly the parameter sets outside them (enumerated, f64 and f32)
fn op_guards(em: &mut Em) {
    fn verdict<T>(r: std::result::Result<T, linfa_svm::SvmError>) -> String {
        match r {
            Ok(_) => "ok".to_string(),
            Err(e) => {
                let d = format!("{:?}", e);
                d.split('(').next().unwrap_or("").to_string()
            }
        }
    }
    macro_rules! guards {
        ($t:ty, $tn:expr) => {{
            let vals: [f64; 9] = [-1.0, -0.0, 0.0, 1e-3, 0.5, 1.0, 1.5, f64::INFINITY, f64::NAN];
            for &v in &vals {
                let x = v as $t;
                let finite_pos = v > 0.0 && v.is_finite();
                // (setter, value, what check_ref must answer)
                let eps_want = if v.is_nan() || v.is_infinite() || v.is_sign_negative() { "InvalidEps" } else { "ok" };
                let c_want = if v <= 0.0 { "InvalidC" } else { "ok" };
                let nu_want = if v <= 0.0 || v > 1.0 { "InvalidNu" } else { "ok" };
                let cases: Vec<(&str, String, &str)> = vec![
                    ("eps", verdict(Svm::<$t, bool>::params().eps(x).check_ref().map(|_| ())), eps_want),
                    ("pos_neg_weights(v,1)", verdict(Svm::<$t, bool>::params().pos_neg_weights(x, 1.0).check_ref().map(|_| ())), c_want),
                    ("pos_neg_weights(1,v)", verdict(Svm::<$t, bool>::params().pos_neg_weights(1.0, x).check_ref().map(|_| ())), c_want),
                    ("nu_weight", verdict(Svm::<$t, bool>::params().nu_weight(x).check_ref().map(|_| ())), nu_want),
                    ("c_svr(v,None)", verdict(Svm::<$t, $t>::params().c_svr(x, None).check_ref().map(|_| ())), c_want),
                    ("nu_svr(v,None)", verdict(Svm::<$t, $t>::params().nu_svr(x, None).check_ref().map(|_| ())), nu_want),
                    ("nu_svr(0.5,Some(v))", verdict(Svm::<$t, $t>::params().nu_svr(0.5, Some(x)).check_ref().map(|_| ())), c_want),
                ];
                let _ = finite_pos;
                for (what, got, want) in cases {
                    em.count(&format!("guard:{}", want));
                    let class = format!("guard:{}:{}", what, $tn);
                    em.case(format!("#guard f={} setter={} value={}", $tn, what, v), |ctx| {
                        ctx.require(got == want, "param_guard", &class, || format!("{} with value {} ({}): check_ref answers {} but the guard the theorems assume demands {}", what, v, $tn, got, want));
                        "-".to_string()
                    });
                }
            }
        }};
    }
    guards!(f64, "f64");
    guards!(f32, "f32");
}

pub(super) fn run(em: &mut Em, rng: &mut Rng) {
    let thorough = em.thorough();
    op_guards(em);
    let nfit = if thorough { 800 } else { 250 };
    for t in 0..nfit {
        let n = if thorough {
            if t % 50 == 0 {
                1000 + rng.below(1001)
            } else {
                10 + rng.below(300)
            }
        } else if t % 30 == 0 {
            400 + rng.below(300)
        } else {
            10 + rng.below(120)
        };
        op_fit(em, rng, n);
    }
    // ---- ceilings on the outcomes that are counted but not judged (a sink may not swallow the fits):
    // allowed = b + 4 sqrt(b) + 2 with b = baseline fraction (seeds 1-5, unchanged tree) of the fits that can end there
    let sum = |em: &Em, pre: &str| -> u64 { em.dist.iter().filter(|(k, _)| k.starts_with(pre)).map(|(_, v)| *v).sum() };
    let all = sum(em, "fit_outcome:");
    let nu_svc: u64 = em.dist.iter().filter(|(k, _)| k.starts_with("fit_outcome:") && k.ends_with(":nu_svc") && !k.contains("infeasible")).map(|(_, v)| *v).sum();
    let platt_fits = sum(em, "fit:platt_asked");
    for (outcome, of, base) in [("cap", all, CEIL_CAP), ("degenerate", nu_svc, CEIL_DEGENERATE), ("platt_refused", platt_fits, CEIL_PLATT_REFUSED)] {
        let cnt = sum(em, &format!("fit_outcome:{}:", outcome));
        let b = base * of as f64;
        let allowed = (b + 4.0 * b.sqrt() + 2.0).floor() as u64;
        em.count_n(&format!("ceiling:{}:count", outcome), cnt);
        em.count_n(&format!("ceiling:{}:allowed", outcome), allowed);
        em.case(format!("#ceiling outcome={} count={} of={} allowed={}", outcome, cnt, of, allowed), |ctx| {
            ctx.require(cnt <= allowed, "mask_ceiling", &format!("fit:{}", outcome), || format!("{} of {} fits ended as '{}' (counted, not judged); the unchanged tree gives a fraction of {} and at most {} are tolerated", cnt, of, outcome, base, allowed));
            "-".to_string()
        });
    }
}

/// baseline fractions of the unjudged outcomes on the unchanged tree (seeds 1-5, both tiers; see notes/C13.md)
const CEIL_CAP: f64 = 0.0;
const CEIL_DEGENERATE: f64 = 0.30;
const CEIL_PLATT_REFUSED: f64 = 0.05;
