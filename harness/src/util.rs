//! Shared pieces of the correspondence harness: PRNG, case emitter, encoders.
use std::collections::{BTreeMap, HashSet};
use std::fmt::Write as _;
use std::panic::{catch_unwind, AssertUnwindSafe};

/// SplitMix64 — every random choice of a run derives from one state seeded by VERIF_SEED.
#[derive(Clone)]
pub struct Rng(pub u64);
impl Rng {
    pub fn new(seed: u64) -> Self {
        Rng(seed ^ 0x9E37_79B9_7F4A_7C15)
    }
    pub fn next(&mut self) -> u64 {
        self.0 = self.0.wrapping_add(0x9E37_79B9_7F4A_7C15);
        let mut z = self.0;
        z = (z ^ (z >> 30)).wrapping_mul(0xBF58_476D_1CE4_E5B9);
        z = (z ^ (z >> 27)).wrapping_mul(0x94D0_49BB_1331_11EB);
        z ^ (z >> 31)
    }
    /// uniform in 0..n (n > 0)
    pub fn below(&mut self, n: usize) -> usize {
        (self.next() % (n as u64)) as usize
    }
    /// uniform in lo..=hi
    pub fn range(&mut self, lo: i64, hi: i64) -> i64 {
        lo + (self.next() % ((hi - lo + 1) as u64)) as i64
    }
    pub fn coin(&mut self) -> bool {
        self.next() & 1 == 1
    }
    pub fn chance(&mut self, num: u64, den: u64) -> bool {
        self.next() % den < num
    }
    /// uniform in [0,1)
    pub fn unit(&mut self) -> f64 {
        (self.next() >> 11) as f64 / (1u64 << 53) as f64
    }
    pub fn pick<'a, T>(&mut self, xs: &'a [T]) -> &'a T {
        &xs[self.below(xs.len())]
    }
    pub fn shuffle<T>(&mut self, xs: &mut [T]) {
        for i in (1..xs.len()).rev() {
            let j = self.below(i + 1);
            xs.swap(i, j);
        }
    }
    pub fn fork(&mut self) -> Rng {
        Rng(self.next())
    }
}

#[derive(Clone, Debug)]
pub struct OracleFail {
    pub case: usize,
    pub clause: String,
    pub class: String,
    pub detail: String,
}

/// Per-case context handed to the closure that runs the implementation.
pub struct Ctx {
    pub fails: Vec<(String, String, String)>,
    pub trivial: bool,
}
impl Ctx {
    /// the property's predicate, evaluated on the implementation's output, failed
    pub fn fail(&mut self, clause: &str, class: &str, detail: String) {
        self.fails.push((clause.to_string(), class.to_string(), detail));
    }
    /// require `cond`, else record an oracle failure
    pub fn require(&mut self, cond: bool, clause: &str, class: &str, detail: impl FnOnce() -> String) {
        if !cond {
            self.fail(clause, class, detail());
        }
    }
    pub fn mark_trivial(&mut self) {
        self.trivial = true;
    }
}

pub struct Em {
    pub prop: &'static str,
    pub tier: String,
    pub ops: Vec<String>,
    pub outs: Vec<String>,
    pub oracle: Vec<OracleFail>,
    pub dist: BTreeMap<String, u64>,
    pub only: Option<usize>,
    pub idx: usize,
    distinct: HashSet<String>,
    pub nontrivial: u64,
    pub panics: u64,
}

impl Em {
    pub fn new(prop: &'static str, tier: &str, only: Option<usize>) -> Self {
        Em {
            prop,
            tier: tier.to_string(),
            ops: vec![],
            outs: vec![],
            oracle: vec![],
            dist: BTreeMap::new(),
            only,
            idx: 0,
            distinct: HashSet::new(),
            nontrivial: 0,
            panics: 0,
        }
    }
    pub fn thorough(&self) -> bool {
        self.tier == "thorough"
    }
    pub fn count(&mut self, key: &str) {
        *self.dist.entry(key.to_string()).or_insert(0) += 1;
    }
    pub fn count_n(&mut self, key: &str, n: u64) {
        *self.dist.entry(key.to_string()).or_insert(0) += n;
    }
    /// One correspondence case. `op` is the request line *without* the property prefix
    /// (`fold n=7 k=3 …`); the closure runs the real implementation and returns the canonical
    /// response line.  Lines whose op starts with `#` are oracle-only (no model counterpart).
    /// The closure must not draw from the generator PRNG (so `--only` replays exactly).
    pub fn case(&mut self, op: String, f: impl FnOnce(&mut Ctx) -> String) {
        self.case_x(op, None, f)
    }
    /// like `case`, for inputs on which the property promises a result: a panic of the
    /// implementation is itself an oracle failure (`clause` "no_panic", the given class).
    pub fn case_valid(&mut self, op: String, class: &str, f: impl FnOnce(&mut Ctx) -> String) {
        self.case_x(op, Some(class.to_string()), f)
    }
    fn case_x(&mut self, op: String, must_succeed: Option<String>, f: impl FnOnce(&mut Ctx) -> String) {
        let idx = self.idx;
        self.idx += 1;
        if let Some(o) = self.only {
            if o != idx {
                return;
            }
        }
        let line = if op.starts_with('#') { format!("# {} {}", self.prop, &op[1..]) } else { format!("{} {}", self.prop, op) };
        let mut ctx = Ctx { fails: vec![], trivial: false };
        let res = catch_unwind(AssertUnwindSafe(|| f(&mut ctx)));
        let out = match res {
            Ok(s) => s,
            Err(_) => {
                self.panics += 1;
                if let Some(class) = &must_succeed {
                    ctx.fails.push(("no_panic".to_string(), class.clone(), format!("the implementation panicked on an input the property covers: {}", line)));
                }
                "panic".to_string()
            }
        };
        let opname = op.split(' ').next().unwrap_or("").trim_start_matches('#').to_string();
        self.count(&format!("op:{}", opname));
        if out == "panic" {
            self.count(&format!("panic:{}", opname));
        } else if out.starts_with("err") {
            self.count(&format!("err:{}", opname));
        }
        if self.distinct.insert(line.clone()) && !ctx.trivial {
            self.nontrivial += 1;
        }
        for (clause, class, detail) in ctx.fails {
            self.oracle.push(OracleFail { case: idx, clause, class, detail });
        }
        self.ops.push(line);
        self.outs.push(if op.starts_with('#') { "-".to_string() } else { out });
    }

    pub fn write(&self, dir: &str, seed: u64) -> std::io::Result<()> {
        std::fs::create_dir_all(dir)?;
        std::fs::write(format!("{}/ops.txt", dir), self.ops.join("\n") + "\n")?;
        std::fs::write(format!("{}/impl.out", dir), self.outs.join("\n") + "\n")?;
        let mut o = String::new();
        for f in &self.oracle {
            let v = serde_json::json!({"case": f.case, "clause": f.clause, "class": f.class, "detail": f.detail});
            writeln!(o, "{}", v).unwrap();
        }
        std::fs::write(format!("{}/oracle.jsonl", dir), o)?;
        let d = serde_json::json!({
            "property": self.prop, "tier": self.tier, "seed": seed,
            "cases": self.ops.len(), "generated": self.idx, "distinct_nontrivial": self.nontrivial,
            "panics": self.panics, "distribution": self.dist,
        });
        std::fs::write(format!("{}/dist.json", dir), serde_json::to_string_pretty(&d).unwrap())?;
        Ok(())
    }
}

pub fn hex64(x: f64) -> String {
    format!("{:016x}", x.to_bits())
}
/// canonical NaN so payload differences never show up
pub fn hex64c(x: f64) -> String {
    if x.is_nan() { "nan".into() } else { hex64(x) }
}
pub fn hex32(x: f32) -> String {
    format!("{:08x}", x.to_bits())
}
pub fn list<T>(xs: impl IntoIterator<Item = T>, f: impl Fn(T) -> String) -> String {
    xs.into_iter().map(f).collect::<Vec<_>>().join(",")
}
/// inner empty lists are written `-` so `[[]]` and `[]` stay distinct
pub fn list2<T, I: IntoIterator<Item = T>>(xs: impl IntoIterator<Item = I>, f: impl Fn(T) -> String + Copy) -> String {
    xs.into_iter()
        .map(|r| {
            let s = list(r, f);
            if s.is_empty() { "-".to_string() } else { s }
        })
        .collect::<Vec<_>>()
        .join(";")
}
pub fn list3<T, I: IntoIterator<Item = T>, J: IntoIterator<Item = I>>(xs: impl IntoIterator<Item = J>, f: impl Fn(T) -> String + Copy) -> String {
    xs.into_iter()
        .map(|r| {
            let s = list2(r, f);
            if s.is_empty() { "_".to_string() } else { s }
        })
        .collect::<Vec<_>>()
        .join("|")
}
pub fn hexstr(s: &str) -> String {
    s.bytes().map(|b| format!("{:02x}", b)).collect()
}
