//! C17 — count / tf-idf vectorisers against a naive recount of the tokenised corpus.
//!
//! The tokeniser (NFKD, lower-casing, regex / function) stays on the Rust side: every document is
//! tokenised with linfa's own `transform_string` (hook) and the configured regex / function, and the
//! token lists travel to the model (`x` + hex of the UTF-8 bytes per token).  The real `fit` /
//! `transform` calls tokenise on their own, so a change in their tokenisation path shows up as a
//! disagreement.  The vocabulary comes out of a hash map: both sides are canonicalised by sorting
//! the words and permuting the columns accordingly.
use crate::util::*;
use linfa::ParamGuard;
use linfa_preprocessing::tf_idf_vectorization::{FittedTfIdfVectorizer, TfIdfMethod, TfIdfVectorizer};
use linfa_preprocessing::verif_hooks_c17 as hk;
use linfa_preprocessing::{CountVectorizer, CountVectorizerParams, CountVectorizerValidParams, Tokenizer};
use ndarray::{Array1, Array2};
use std::collections::{BTreeMap, BTreeSet};

const POOL: &[&str] = &[
    "one", "Two", "two", "TWO", "three", "four", "caf\u{e9}", "cafe\u{301}", "CAF\u{c9}", "\u{fb01}sh", "fish", "x", "a-b", "b;c", "it's", "\u{212b}ng", "\u{e5}ng", "na\u{ef}ve", "\u{130}st", "42", "two2",
];
const OOV: &[&str] = &["zebra", "Quux", "\u{fb03}x", "seven", "q"];
const SEPS: &[&str] = &[" ", " ", " ", ", ", ";", "  ", ". ", "\n", " - ", "!"];
const NOSPACE_RE: &str = r"\b[^ ][^ ]+\b";

fn split_blank(s: &str) -> Vec<&str> {
    s.split(' ').collect()
}

#[derive(Clone)]
struct Cfg {
    lower: bool,
    norm: bool,
    tok: u8, // 0 default regex, 1 no-blank regex, 2 function split(' ')
    nmin: usize,
    nmax: usize,
    lo: f32,
    hi: f32,
    stop: Option<Vec<String>>,
    cap: Option<usize>,
}

impl Cfg {
    fn count_params(&self) -> CountVectorizerParams {
        let mut p = CountVectorizer::params()
            .convert_to_lowercase(self.lower)
            .normalize(self.norm)
            .n_gram_range(self.nmin, self.nmax)
            .document_frequency(self.lo, self.hi)
            .max_features(self.cap);
        p = match self.tok {
            1 => p.tokenizer(Tokenizer::Regex(NOSPACE_RE.to_string())),
            2 => p.tokenizer(Tokenizer::Function(split_blank)),
            _ => p,
        };
        if let Some(s) = &self.stop {
            p = p.stopwords(s);
        }
        p
    }
    /// `TfIdfVectorizer` has no public setter for the idf method; a value with another method is
    /// obtained through its public serde implementation, the settings are applied afterwards.
    fn tfidf_params(&self, method: &str) -> TfIdfVectorizer {
        let mut v = serde_json::to_value(TfIdfVectorizer::default()).expect("serialise TfIdfVectorizer");
        v["method"] = serde_json::Value::String(
            match method {
                "smooth" => "Smooth",
                "nonsmooth" => "NonSmooth",
                _ => "Textbook",
            }
            .to_string(),
        );
        let mut p: TfIdfVectorizer = serde_json::from_value(v).expect("deserialise TfIdfVectorizer");
        p = p
            .convert_to_lowercase(self.lower)
            .normalize(self.norm)
            .n_gram_range(self.nmin, self.nmax)
            .document_frequency(self.lo, self.hi)
            .max_features(self.cap);
        p = match self.tok {
            1 => p.tokenizer(Tokenizer::Regex(NOSPACE_RE.to_string())),
            2 => p.tokenizer(Tokenizer::Function(split_blank)),
            _ => p,
        };
        if let Some(s) = &self.stop {
            p = p.stopwords(s);
        }
        p
    }
    /// tokenisation-only settings (always valid), used to tokenise for the model and the oracle
    fn tokenizer_params(&self) -> CountVectorizerValidParams {
        let mut p = CountVectorizer::params().convert_to_lowercase(self.lower).normalize(self.norm);
        p = match self.tok {
            1 => p.tokenizer(Tokenizer::Regex(NOSPACE_RE.to_string())),
            2 => p.tokenizer(Tokenizer::Function(split_blank)),
            _ => p,
        };
        p.check().expect("tokeniser settings are valid")
    }
    fn covered(&self) -> bool {
        self.nmin >= 1 && self.nmin <= self.nmax && self.nmax <= 3 && self.lo >= 0.0 && self.lo <= self.hi && self.hi <= 1.0
    }
    fn settings(&self) -> String {
        format!(
            "nmin={} nmax={} lo={} hi={} stop={} cap={}",
            self.nmin,
            self.nmax,
            hex32(self.lo),
            hex32(self.hi),
            match &self.stop {
                None => "none".to_string(),
                Some(s) => format!("S:{}", list(s.iter(), |w| xw(w))),
            },
            match self.cap {
                None => "none".to_string(),
                Some(c) => c.to_string(),
            }
        )
    }
    fn class(&self) -> String {
        format!(
            "ngram={},{}:tok={}:stop={}:cap={}",
            self.nmin,
            self.nmax,
            self.tok,
            if self.stop.is_some() { "some" } else { "none" },
            if self.cap.is_some() { "some" } else { "none" }
        )
    }
}

fn xw(w: &str) -> String {
    format!("x{}", hexstr(w))
}

fn tokens(v: &CountVectorizerValidParams, doc: &str) -> Vec<String> {
    let s = hk::transformed(v, doc);
    if let Some(f) = v.tokenizer_function() {
        f(&s).into_iter().map(|t| t.to_string()).collect()
    } else {
        v.split_regex().find_iter(&s).map(|m| m.as_str().to_string()).collect()
    }
}

fn show_docs(d: &[Vec<String>]) -> String {
    list2(d.iter().map(|x| x.iter()), |w| xw(w))
}

/// the windows of `nmin..=nmax` consecutive tokens, joined by one blank — from first principles
fn naive_grams(toks: &[String], nmin: usize, nmax: usize) -> Vec<String> {
    let mut out = vec![];
    for i in 0..toks.len() {
        for l in nmin..=nmax {
            if l >= 1 && i + l <= toks.len() {
                out.push(toks[i..i + l].join(" "));
            }
        }
    }
    out
}

fn gen_doc(rng: &mut Rng, alpha: &[&str], maxw: usize, oov: bool) -> String {
    let k = rng.below(maxw + 1);
    let mut s = String::new();
    if rng.chance(1, 8) {
        s.push_str(*rng.pick(SEPS));
    }
    for i in 0..k {
        if i > 0 {
            s.push_str(*rng.pick(SEPS));
        }
        if oov && rng.chance(1, 3) {
            s.push_str(*rng.pick(OOV));
        } else {
            s.push_str(*rng.pick(alpha));
        }
    }
    if rng.chance(1, 8) {
        s.push_str(*rng.pick(SEPS));
    }
    s
}

fn gen_bound(rng: &mut Rng, n: usize) -> f32 {
    const GRID: &[f32] = &[0.0, 0.05, 0.1, 0.2, 0.25, 0.3, 1.0 / 3.0, 0.4, 0.5, 0.6, 2.0 / 3.0, 0.7, 0.75, 0.8, 0.9, 1.0];
    match rng.below(10) {
        0..=3 => *rng.pick(GRID),
        4..=6 if n > 0 => rng.below(n + 1) as f32 / n as f32,
        7 if n > 0 => (rng.below(2 * n + 1) as f32 + 0.5) / (2 * n) as f32,
        8 => (rng.below(1001) as f32) / 1000.0,
        _ => *rng.pick(&[0.0f32, 1.0, 1.0, 0.5]),
    }
}

fn gen_cfg(rng: &mut Rng, n_docs: usize) -> Cfg {
    let ranges = [(1, 1), (1, 2), (2, 2), (1, 3), (2, 3), (3, 3)];
    let (nmin, nmax) = if rng.chance(2, 5) { (1, 1) } else { *rng.pick(&ranges) };
    let (lo, hi) = match rng.below(8) {
        0 | 1 => (0.0, 1.0),
        2 => (gen_bound(rng, n_docs), 1.0),
        3 => (0.0, gen_bound(rng, n_docs)),
        _ => {
            let a = gen_bound(rng, n_docs);
            let b = gen_bound(rng, n_docs);
            if a <= b { (a, b) } else { (b, a) }
        }
    };
    Cfg {
        lower: !rng.chance(1, 3),
        norm: !rng.chance(1, 3),
        tok: *rng.pick(&[0u8, 0, 0, 1, 2]),
        nmin,
        nmax,
        lo,
        hi,
        stop: None,
        cap: None,
    }
}

/// comparison of a relative bound with an absolute count: `bound * n` against `df`.
/// `f32 * small integer` is exact in f64.  A difference that is not zero but below f32 resolution
/// is a float tie (the user wrote 0.1 meaning 1/10): undecided, never alarmed on.
#[derive(PartialEq, Clone, Copy)]
enum Cmp {
    Less,
    Equal,
    Greater,
    Tie,
}
fn cmp_bound(bound: f32, n: usize, df: usize) -> Cmp {
    let p = bound as f64 * n as f64;
    let d = df as f64;
    if p == d {
        Cmp::Equal
    } else if (p - d).abs() <= 4e-6 * d.max(1.0) {
        Cmp::Tie
    } else if p < d {
        Cmp::Less
    } else {
        Cmp::Greater
    }
}
fn is_frac(bound: f32, n: usize) -> bool {
    let p = bound as f64 * n as f64;
    (p - p.round()).abs() > 4e-6 * p.abs().max(1.0)
}

enum Adm {
    In,
    Out(String),
    Undecided,
}

/// does the documented meaning of the settings admit an entry with document frequency `df`?
/// "minimum and maximum (relative) document frequencies that each vocabulary entry must satisfy",
/// "list of entries to be excluded from the generated vocabulary".
fn admitted(cfg: &Cfg, n: usize, word: &str, df: usize) -> Adm {
    if let Some(s) = &cfg.stop {
        if s.iter().any(|w| w == word) {
            return Adm::Out("stopword".into());
        }
    }
    let lo = cmp_bound(cfg.lo, n, df);
    let hi = cmp_bound(cfg.hi, n, df);
    if lo == Cmp::Greater {
        return Adm::Out(format!("below_min_df:lo*n={}", if is_frac(cfg.lo, n) { "fractional" } else { "integral" }));
    }
    if hi == Cmp::Less {
        return Adm::Out(format!("above_max_df:hi*n={}", if is_frac(cfg.hi, n) { "fractional" } else { "integral" }));
    }
    if lo == Cmp::Tie || hi == Cmp::Tie {
        return Adm::Undecided;
    }
    Adm::In
}

/// oracle for the fitted vocabulary (clauses vocab_*, cap_is_top)
fn oracle_vocab(ctx: &mut Ctx, em_counts: &mut Vec<String>, cfg: &Cfg, fit_toks: &[Vec<String>], vocab: &[String]) {
    let n = fit_toks.len();
    let mut df: BTreeMap<String, usize> = BTreeMap::new();
    for d in fit_toks {
        let set: BTreeSet<String> = naive_grams(d, cfg.nmin, cfg.nmax).into_iter().collect();
        for g in set {
            *df.entry(g).or_insert(0) += 1;
        }
    }
    let vset: BTreeSet<&String> = vocab.iter().collect();
    ctx.require(vset.len() == vocab.len(), "vocab_distinct", &cfg.class(), || format!("vocabulary() lists an entry twice: {:?}", vocab));
    for w in vocab {
        ctx.require(df.contains_key(w), "vocab_from_corpus", &cfg.class(), || format!("vocabulary entry {:?} is no n-gram of the training corpus", w));
    }
    let mut adm: Vec<(usize, &String)> = vec![];
    let mut undecided = 0;
    let mut verdicts: Vec<(&String, usize, Adm)> = vec![];
    for (w, d) in &df {
        let a = admitted(cfg, n, w, *d);
        match &a {
            Adm::In => adm.push((*d, w)),
            Adm::Undecided => undecided += 1,
            _ => {}
        }
        verdicts.push((w, *d, a));
    }
    if undecided > 0 {
        em_counts.push("df_float_tie_entries".into());
    }
    match cfg.cap {
        None => {
            for (w, d, a) in &verdicts {
                match a {
                    Adm::In => ctx.require(vset.contains(w), "vocab_complete", &cfg.class(), || {
                        format!("entry {:?} (df {} of {} documents) is admitted by the settings (lo={} hi={} stop={:?}) but missing from the vocabulary", w, d, n, cfg.lo, cfg.hi, cfg.stop)
                    }),
                    Adm::Out(reason) => ctx.require(!vset.contains(w), "vocab_admits_only", reason, || {
                        format!("entry {:?} (df {} of {} documents) is in the vocabulary although the settings exclude it: {} (lo={} hi={} stop={:?})", w, d, n, reason, cfg.lo, cfg.hi, cfg.stop)
                    }),
                    Adm::Undecided => {}
                }
            }
        }
        Some(cap) => {
            if undecided > 0 {
                em_counts.push("cap_check_skipped_df_float_tie".into());
                return;
            }
            // most frequent first; equal frequencies: the code's documented-by-behaviour tie-break
            // is not part of the statement, so only the frequency multiset is demanded, plus
            // "kept ≥ dropped" by frequency.
            adm.sort_by(|a, b| b.0.cmp(&a.0).then(b.1.cmp(a.1)));
            let want = cap.min(adm.len());
            let bad_out: Vec<&String> = vocab.iter().filter(|w| !adm.iter().any(|(_, a)| a == w)).collect();
            let below_min = verdicts.iter().filter(|(w, _, a)| vset.contains(w) && matches!(a, Adm::Out(_))).map(|(_, _, a)| if let Adm::Out(r) = a { r.clone() } else { String::new() }).next();
            if let Some(reason) = below_min {
                ctx.fail("vocab_admits_only", &reason, format!("under cap {}: entries {:?} are in the vocabulary although the settings exclude them (lo={} hi={} n={} stop={:?})", cap, bad_out, cfg.lo, cfg.hi, n, cfg.stop));
                return;
            }
            ctx.require(vocab.len() == want, "cap_size", &cfg.class(), || format!("cap {}: {} admitted entries, vocabulary has {} (want {})", cap, adm.len(), vocab.len(), want));
            let kept_min = vocab.iter().filter_map(|w| df.get(w)).min().copied();
            let dropped_max = adm.iter().filter(|(_, w)| !vset.contains(w)).map(|(d, _)| *d).max();
            if let (Some(k), Some(d)) = (kept_min, dropped_max) {
                ctx.require(k >= d, "cap_is_top", &cfg.class(), || format!("cap {}: a kept entry has document frequency {} but a dropped admitted entry has {}", cap, k, d));
            }
        }
    }
}

/// oracle for a count matrix: cell (d, j) = occurrences of vocabulary()[j] among the n-grams of d
fn oracle_counts(ctx: &mut Ctx, cfg: &Cfg, what: &str, tr_toks: &[Vec<String>], vocab: &[String], nentries: usize, dense: &Array2<usize>) -> Vec<Vec<usize>> {
    let class = format!("{}:{}", what, cfg.class());
    ctx.require(nentries == vocab.len(), "nentries", &class, || format!("nentries() = {} but vocabulary() has {} entries", nentries, vocab.len()));
    ctx.require(dense.dim() == (tr_toks.len(), vocab.len()), "shape", &class, || format!("matrix is {:?} for {} documents and {} entries", dense.dim(), tr_toks.len(), vocab.len()));
    let mut naive = vec![];
    for (d, toks) in tr_toks.iter().enumerate() {
        let grams = naive_grams(toks, cfg.nmin, cfg.nmax);
        let row: Vec<usize> = vocab.iter().map(|w| grams.iter().filter(|g| *g == w).count()).collect();
        if dense.dim() == (tr_toks.len(), vocab.len()) {
            for (j, c) in row.iter().enumerate() {
                if dense[(d, j)] != *c {
                    ctx.fail("count_entry", &class, format!("document {} {:?}: column {} is vocabulary()[{}] = {:?}, which occurs {} times, matrix says {}", d, toks, j, j, vocab[j], c, dense[(d, j)]));
                    break;
                }
            }
            let in_vocab = grams.iter().filter(|g| vocab.contains(g)).count();
            let total: usize = dense.row(d).sum();
            ctx.require(total == in_vocab, "oov_contributes_zero", &class, || format!("document {}: row sums to {}, {} of its {} n-grams are vocabulary entries", d, total, in_vocab, grams.len()));
        }
        naive.push(row);
    }
    naive
}

fn idf_doc(method: &str, n: usize, df: usize) -> f64 {
    let (n, df) = (n as f64, df as f64);
    match method {
        "smooth" => ((1.0 + n) / (1.0 + df)).ln() + 1.0,
        "nonsmooth" => (n / df).ln() + 1.0,
        _ => (n / (1.0 + df)).ln(),
    }
}

fn oracle_tfidf(ctx: &mut Ctx, cfg: &Cfg, method: &str, what: &str, tr_toks: &[Vec<String>], vocab: &[String], nentries: usize, dense: &Array2<f64>) {
    let class = format!("{}:method={}:{}", what, method, cfg.class());
    ctx.require(nentries == vocab.len(), "nentries", &class, || format!("nentries() = {} but vocabulary() has {} entries", nentries, vocab.len()));
    if dense.dim() != (tr_toks.len(), vocab.len()) {
        ctx.fail("shape", &class, format!("matrix is {:?} for {} documents and {} entries", dense.dim(), tr_toks.len(), vocab.len()));
        return;
    }
    let n = tr_toks.len();
    let counts: Vec<Vec<usize>> = tr_toks
        .iter()
        .map(|toks| {
            let grams = naive_grams(toks, cfg.nmin, cfg.nmax);
            vocab.iter().map(|w| grams.iter().filter(|g| *g == w).count()).collect()
        })
        .collect();
    for j in 0..vocab.len() {
        let df = counts.iter().filter(|r| r[j] > 0).count();
        for d in 0..n {
            let c = counts[d][j];
            let got = dense[(d, j)];
            let ok = if c == 0 {
                got == 0.0
            } else {
                let want = c as f64 * idf_doc(method, n, df);
                (got - want).abs() <= 1e-12 * (1.0 + want.abs())
            };
            if !ok {
                ctx.fail("tfidf_entry", &class, format!("document {} entry {:?}: count {}, n {}, df {}: got {}, want count*idf = {}", d, vocab[j], c, n, df, got, if c == 0 { 0.0 } else { c as f64 * idf_doc(method, n, df) }));
                return;
            }
        }
    }
}

/// sort the vocabulary, return (sorted words, permutation: sorted position -> original column)
fn canon(vocab: &[String]) -> (Vec<String>, Vec<usize>) {
    let mut idx: Vec<usize> = (0..vocab.len()).collect();
    idx.sort_by(|a, b| vocab[*a].cmp(&vocab[*b]).then(a.cmp(b)));
    (idx.iter().map(|i| vocab[*i].clone()).collect(), idx)
}
fn show_vocab(v: &[String]) -> String {
    if v.is_empty() { "-".to_string() } else { list(v.iter(), |w| xw(w)) }
}
fn resp_counts(nentries: usize, vocab: &[String], dense: &Array2<usize>) -> String {
    let (sv, perm) = canon(vocab);
    let rows: Vec<Vec<usize>> = (0..dense.nrows()).map(|d| perm.iter().map(|j| dense[(d, *j)]).collect()).collect();
    format!("ok n={} vocab={} counts={}", nentries, show_vocab(&sv), list2(rows.iter().map(|r| r.iter()), |c| c.to_string()))
}
fn resp_tfidf(nentries: usize, vocab: &[String], dense: &Array2<f64>) -> String {
    let (sv, perm) = canon(vocab);
    let rows: Vec<Vec<f64>> = (0..dense.nrows()).map(|d| perm.iter().map(|j| dense[(d, *j)]).collect()).collect();
    format!("ok n={} vocab={} tfidf={}", nentries, show_vocab(&sv), list2(rows.iter().map(|r| r.iter()), |c| format!("~{}", hex64c(*c))))
}

fn err_kind(e: &linfa_preprocessing::PreprocessingError) -> String {
    let s = format!("{:?}", e);
    s.split(|c: char| !c.is_alphanumeric()).next().unwrap_or("").to_string()
}

struct Corpus {
    fit: Vec<String>,
    tr: Vec<String>,
}

fn gen_corpus(rng: &mut Rng, max_docs: usize, maxw: usize) -> Corpus {
    let mut alpha: Vec<&str> = POOL.to_vec();
    rng.shuffle(&mut alpha);
    let k = 2 + rng.below(5);
    let alpha = &alpha[..k];
    let n = if rng.chance(1, 25) { 0 } else { 1 + rng.below(max_docs) };
    let fit: Vec<String> = (0..n).map(|_| gen_doc(rng, alpha, maxw, false)).collect();
    let unseen: Vec<String> = (0..rng.below(4)).map(|_| gen_doc(rng, alpha, maxw, true)).collect();
    let tr = match rng.below(4) {
        0 => fit.clone(),
        1 => unseen,
        _ => {
            let mut t = fit.clone();
            t.extend(unseen);
            t
        }
    };
    Corpus { fit, tr }
}

/// stop words / cap chosen with knowledge of the corpus, so that they bite
fn add_stop_cap(rng: &mut Rng, cfg: &mut Cfg, fit_toks: &[Vec<String>]) {
    let mut grams: BTreeSet<String> = BTreeSet::new();
    let mut unis: BTreeSet<String> = BTreeSet::new();
    for d in fit_toks {
        grams.extend(naive_grams(d, cfg.nmin.max(1), cfg.nmax.max(cfg.nmin.max(1))));
        unis.extend(d.iter().cloned());
    }
    let grams: Vec<String> = grams.into_iter().collect();
    let unis: Vec<String> = unis.into_iter().collect();
    if rng.chance(1, 2) {
        let mut s = vec![];
        for _ in 0..rng.below(4) {
            match rng.below(6) {
                0..=2 if !grams.is_empty() => s.push(rng.pick(&grams).clone()),
                3 if !unis.is_empty() => s.push(rng.pick(&unis).clone()),
                4 if !unis.is_empty() => s.push(rng.pick(&unis).to_uppercase()),
                _ => s.push(rng.pick(OOV).to_string()),
            }
        }
        cfg.stop = Some(s);
    }
    if rng.chance(2, 5) {
        cfg.cap = Some(rng.below(grams.len() + 2));
    }
}

fn op_count(em: &mut Em, cfg: &Cfg, corpus: &Corpus) {
    let tp = cfg.tokenizer_params();
    let fit_toks: Vec<Vec<String>> = corpus.fit.iter().map(|d| tokens(&tp, d)).collect();
    let tr_toks: Vec<Vec<String>> = corpus.tr.iter().map(|d| tokens(&tp, d)).collect();
    let op = format!("count fit={} tr={} {}", show_docs(&fit_toks), show_docs(&tr_toks), cfg.settings());
    let mut extra: Vec<String> = vec![];
    let covered = cfg.covered();
    let class = format!("count:{}", cfg.class());
    let body = |ctx: &mut Ctx| {
        let fit = Array1::from(corpus.fit.clone());
        let tr = Array1::from(corpus.tr.clone());
        match cfg.count_params().fit(&fit) {
            Err(e) => {
                if covered {
                    ctx.fail("fit_succeeds", &class, format!("fit returned {:?} on valid settings", e));
                }
                format!("err {}", err_kind(&e))
            }
            Ok(cv) => {
                let vocab = cv.vocabulary().clone();
                let dense: Array2<usize> = cv.transform(&tr).expect("transform").to_dense();
                if covered {
                    oracle_vocab(ctx, &mut extra, cfg, &fit_toks, &vocab);
                    oracle_counts(ctx, cfg, "count", &tr_toks, &vocab, cv.nentries(), &dense);
                }
                resp_counts(cv.nentries(), &vocab, &dense)
            }
        }
    };
    if covered {
        em.case_valid(op, &class, body)
    } else {
        em.case(op, body)
    }
    for k in extra {
        em.count(&k);
    }
}

fn op_tfidf(em: &mut Em, cfg: &Cfg, method: &str, corpus: &Corpus) {
    let tp = cfg.tokenizer_params();
    let fit_toks: Vec<Vec<String>> = corpus.fit.iter().map(|d| tokens(&tp, d)).collect();
    let tr_toks: Vec<Vec<String>> = corpus.tr.iter().map(|d| tokens(&tp, d)).collect();
    let op = format!("tfidf fit={} tr={} {} method={}", show_docs(&fit_toks), show_docs(&tr_toks), cfg.settings(), method);
    let mut extra: Vec<String> = vec![];
    let covered = cfg.covered();
    let class = format!("tfidf:method={}:{}", method, cfg.class());
    let body = |ctx: &mut Ctx| {
        let fit = Array1::from(corpus.fit.clone());
        let tr = Array1::from(corpus.tr.clone());
        match cfg.tfidf_params(method).fit(&fit) {
            Err(e) => {
                if covered {
                    ctx.fail("fit_succeeds", &class, format!("fit returned {:?} on valid settings", e));
                }
                format!("err {}", err_kind(&e))
            }
            Ok(tv) => {
                let tv: FittedTfIdfVectorizer = tv;
                let want_m = match method {
                    "smooth" => TfIdfMethod::Smooth,
                    "nonsmooth" => TfIdfMethod::NonSmooth,
                    _ => TfIdfMethod::Textbook,
                };
                ctx.require(*tv.method() == want_m, "method_kept", &class, || format!("fitted method {:?}", tv.method()));
                let vocab = tv.vocabulary().clone();
                let dense: Array2<f64> = tv.transform(&tr).expect("transform").to_dense();
                if covered {
                    oracle_vocab(ctx, &mut extra, cfg, &fit_toks, &vocab);
                    oracle_tfidf(ctx, cfg, method, "tfidf", &tr_toks, &vocab, tv.nentries(), &dense);
                }
                resp_tfidf(tv.nentries(), &vocab, &dense)
            }
        }
    };
    if covered {
        em.case_valid(op, &class, body)
    } else {
        em.case(op, body)
    }
    for k in extra {
        em.count(&k);
    }
}

fn op_fixed(em: &mut Em, cfg: &Cfg, method: Option<&str>, words: &[String], tr_docs: &[String]) {
    let tp = cfg.tokenizer_params();
    let tr_toks: Vec<Vec<String>> = tr_docs.iter().map(|d| tokens(&tp, d)).collect();
    let name = if method.is_some() { "fixed_tfidf" } else { "fixed" };
    let mut op = format!("{} vocab={} tr={} nmin={} nmax={} lo={} hi={}", name, list(words.iter(), |w| xw(w)), show_docs(&tr_toks), cfg.nmin, cfg.nmax, hex32(cfg.lo), hex32(cfg.hi));
    if let Some(m) = method {
        op.push_str(&format!(" method={}", m));
    }
    let covered = cfg.covered();
    let class = format!("{}:{}", name, cfg.class());
    let body = |ctx: &mut Ctx| {
        let tr = Array1::from(tr_docs.to_vec());
        let wset: BTreeSet<&String> = words.iter().collect();
        match method {
            None => match cfg.count_params().fit_vocabulary(words) {
                Err(e) => {
                    if covered {
                        ctx.fail("fit_succeeds", &class, format!("fit_vocabulary returned {:?} on valid settings", e));
                    }
                    format!("err {}", err_kind(&e))
                }
                Ok(cv) => {
                    let vocab = cv.vocabulary().clone();
                    let dense: Array2<usize> = cv.transform(&tr).expect("transform").to_dense();
                    if covered {
                        let vset: BTreeSet<&String> = vocab.iter().collect();
                        ctx.require(vset == wset && vocab.len() == wset.len(), "fixed_vocab_is_given_set", &class, || format!("given {:?}, vocabulary() {:?}", words, vocab));
                        oracle_counts(ctx, cfg, "fixed", &tr_toks, &vocab, cv.nentries(), &dense);
                    }
                    resp_counts(cv.nentries(), &vocab, &dense)
                }
            },
            Some(m) => match cfg.tfidf_params(m).fit_vocabulary(words) {
                Err(e) => {
                    if covered {
                        ctx.fail("fit_succeeds", &class, format!("fit_vocabulary returned {:?} on valid settings", e));
                    }
                    format!("err {}", err_kind(&e))
                }
                Ok(tv) => {
                    let vocab = tv.vocabulary().clone();
                    let dense: Array2<f64> = tv.transform(&tr).expect("transform").to_dense();
                    if covered {
                        let vset: BTreeSet<&String> = vocab.iter().collect();
                        ctx.require(vset == wset && vocab.len() == wset.len(), "fixed_vocab_is_given_set", &class, || format!("given {:?}, vocabulary() {:?}", words, vocab));
                        oracle_tfidf(ctx, cfg, m, "fixed", &tr_toks, &vocab, tv.nentries(), &dense);
                    }
                    resp_tfidf(tv.nentries(), &vocab, &dense)
                }
            },
        }
    };
    if covered {
        em.case_valid(op, &class, body)
    } else {
        em.case(op, body)
    }
}

fn op_ngrams(em: &mut Em, words: &[String], nmin: usize, nmax: usize) {
    let op = format!("ngrams words={} nmin={} nmax={}", list(words.iter(), |w| xw(w)), nmin, nmax);
    let class = format!("ngrams:{},{}", nmin, nmax);
    em.case_valid(op, &class, |ctx| {
        let got = hk::ngram_list(words.iter().map(|s| s.as_str()).collect(), (nmin, nmax));
        let mut flat: Vec<String> = got.iter().flatten().cloned().collect();
        let mut want = naive_grams(words, nmin, nmax);
        flat.sort();
        want.sort();
        ctx.require(flat == want, "ngrams_are_windows", &class, || format!("words {:?}: NGramList yields {:?}, the windows are {:?}", words, got, want));
        format!("ok {}", list2(got.iter().map(|r| r.iter()), |w| xw(w)))
    });
}

fn idf_method_name(i: usize) -> &'static str {
    ["smooth", "nonsmooth", "textbook"][i % 3]
}

pub fn run(em: &mut Em, rng: &mut Rng) {
    let deep = em.thorough();
    // ---- fixed witnesses / boundary cases first
    {
        // truncation of the minimum document frequency: 3 documents, min_df = 0.5
        let corpus = Corpus { fit: vec!["one two".into(), "two three".into(), "two four".into()], tr: vec!["one two two".into()] };
        let cfg = Cfg { lower: true, norm: true, tok: 0, nmin: 1, nmax: 1, lo: 0.5, hi: 1.0, stop: None, cap: None };
        op_count(em, &cfg, &corpus);
        // stop words are whole entries: the bigram survives its parts
        let cfg = Cfg { lower: true, norm: true, tok: 0, nmin: 1, nmax: 2, lo: 0.0, hi: 1.0, stop: Some(vec!["two".into(), "two three".into()]), cap: None };
        op_count(em, &cfg, &corpus);
        // cap with a frequency tie at the cut
        let cfg = Cfg { lower: true, norm: true, tok: 0, nmin: 1, nmax: 1, lo: 0.0, hi: 1.0, stop: None, cap: Some(2) };
        op_count(em, &cfg, &corpus);
        // ligature, combining accent, case
        let corpus = Corpus { fit: vec!["\u{fb01}sh FISH caf\u{e9} cafe\u{301}".into(), "CAF\u{c9} \u{130}st".into(), "".into()], tr: vec!["fish cafe\u{301} x".into(), "".into()] };
        for (l, nm) in [(true, true), (true, false), (false, true), (false, false)] {
            for tok in 0..3u8 {
                let cfg = Cfg { lower: l, norm: nm, tok, nmin: 1, nmax: 2, lo: 0.0, hi: 1.0, stop: None, cap: None };
                op_count(em, &cfg, &corpus);
                for m in 0..3 {
                    op_tfidf(em, &cfg, idf_method_name(m), &corpus);
                }
            }
        }
    }
    // ---- NGramList directly: all ranges 1<=min<=max<=4 on short word lists
    let pool: Vec<String> = ["a", "b", "c", "a b", ""].iter().map(|s| s.to_string()).collect();
    for len in 0..=(if deep { 7 } else { 5 }) {
        for nmin in 1..=4 {
            for nmax in nmin..=4 {
                for _ in 0..(if deep { 6 } else { 2 }) {
                    let words: Vec<String> = (0..len).map(|_| rng.pick(&pool).clone()).collect();
                    op_ngrams(em, &words, nmin, nmax);
                }
            }
        }
    }
    // ---- generated corpora × settings
    let rounds = if deep { 60000 } else { 4500 };
    for r in 0..rounds {
        let (max_docs, maxw) = if deep && r % 4 == 0 { (12, 10) } else { (7, 7) };
        let corpus = gen_corpus(rng, max_docs, maxw);
        let mut cfg = gen_cfg(rng, corpus.fit.len());
        let tp = cfg.tokenizer_params();
        let fit_toks: Vec<Vec<String>> = corpus.fit.iter().map(|d| tokens(&tp, d)).collect();
        add_stop_cap(rng, &mut cfg, &fit_toks);
        em.count(&format!("ngram:{},{}", cfg.nmin, cfg.nmax));
        em.count(&format!("docs:{}", corpus.fit.len().min(8)));
        if cfg.stop.is_some() {
            em.count("stop:some");
        }
        if cfg.cap.is_some() {
            em.count("cap:some");
        }
        if cfg.lo > 0.0 || cfg.hi < 1.0 {
            em.count("df_window:proper");
        }
        match r % 3 {
            0 | 1 => op_count(em, &cfg, &corpus),
            _ => {
                let m = idf_method_name(rng.below(3));
                em.count(&format!("method:{}", m));
                op_tfidf(em, &cfg, m, &corpus)
            }
        }
        // fixed vocabulary on the same documents
        if r % 5 == 0 {
            let mut words: Vec<String> = vec![];
            let all: Vec<String> = fit_toks.iter().flat_map(|d| naive_grams(d, cfg.nmin, cfg.nmax)).collect();
            for _ in 0..rng.below(6) {
                if !all.is_empty() && rng.chance(3, 4) {
                    words.push(rng.pick(&all).clone());
                } else {
                    words.push(rng.pick(OOV).to_string());
                }
            }
            let m = if r % 10 == 0 { Some(idf_method_name(rng.below(3))) } else { None };
            op_fixed(em, &cfg, m, &words, &corpus.tr);
        }
    }
    // ---- malformed settings (error branches of the parameter check; outside the property)
    for _ in 0..(if deep { 400 } else { 60 }) {
        let corpus = gen_corpus(rng, 4, 4);
        let mut cfg = gen_cfg(rng, corpus.fit.len());
        match rng.below(7) {
            0 => cfg.nmin = 0,
            1 => {
                cfg.nmin = 0;
                cfg.nmax = 0
            }
            2 => {
                cfg.nmin = 3;
                cfg.nmax = 2
            }
            3 => cfg.lo = -0.25,
            4 => {
                cfg.lo = 0.75;
                cfg.hi = 0.25
            }
            5 => cfg.hi = f32::NAN,
            _ => {
                cfg.lo = 0.5;
                cfg.hi = 1.5
            }
        }
        em.count("malformed");
        op_count(em, &cfg, &corpus);
    }
}
