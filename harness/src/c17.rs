//! C17 — count / tf-idf vectorisers against a naive recount of the tokenised corpus.
//!
//! Tokenisation is judged from first principles: every document is tokenised by a *reference* written
//! here (`ref_transform`: NFKD / lower-casing of the closed alphabet by hand-written tables;
//! `ref_tokens`: the documented default "words of two or more word characters", the no-blank regex by a
//! direct leftmost-greedy simulation, the split function).  The reference token lists travel to the
//! model (`x` + hex of the UTF-8 bytes per token) and feed the oracle; linfa's own `transform_string`
//! (hook) + compiled regex are compared with them (`settings_honoured`), and the real `fit` /
//! `transform` calls tokenise on their own, so a change anywhere in linfa's tokenisation path — the
//! setters, `transform_string`, the default regex — shows up as oracle failure and disagreement.
//! The vocabulary comes out of a hash map: both sides are canonicalised by sorting the words and
//! permuting the columns accordingly.  Every case names the calling form of `fit` and of `transform`
//! (owned array, view, strided / reversed view, `&str` and `Display` elements, checked parameters,
//! serde round trip of the fitted vectoriser, `fit_files` / `transform_files`).
use crate::util::*;
use linfa::ParamGuard;
use linfa_preprocessing::tf_idf_vectorization::{FittedTfIdfVectorizer, TfIdfMethod, TfIdfVectorizer};
use linfa_preprocessing::verif_hooks_c04 as hk04;
use linfa_preprocessing::verif_hooks_c17 as hk;
use linfa_preprocessing::{CountVectorizer, CountVectorizerParams, CountVectorizerValidParams, Tokenizer};
use ndarray::{s, Array1, Array2};
use sprs::CsMat;
use std::collections::{BTreeMap, BTreeSet};
use std::path::PathBuf;
use std::sync::OnceLock;

const POOL: &[&str] = &[
    "one", "Two", "two", "TWO", "three", "four", "caf\u{e9}", "cafe\u{301}", "CAF\u{c9}", "\u{fb01}sh", "fish", "x", "a-b", "b;c", "it's", "\u{212b}ng", "\u{e5}ng", "na\u{ef}ve", "\u{130}st", "42", "two2", "caf\u{2122}", "\u{2116}7", "\u{1d2c}b",
];
const OOV: &[&str] = &["zebra", "Quux", "\u{fb03}x", "seven", "q"];
const SEPS: &[&str] = &[" ", " ", " ", ", ", ";", "  ", ". ", "\n", " - ", "!", "\u{fffd}", " \u{fffd} "];
const NOSPACE_RE: &str = r"\b[^ ][^ ]+\b";
/// a case-sensitive user regex: lower-casing after tokenisation, or a regex compiled with other flags
/// (case-insensitive), gives other tokens
const LOWER_RE: &str = r"[a-z]+";
const DEFAULT_RE: &str = r"\b\w\w+\b";
/// the tokeniser of the parameter object a `reuse` fit starts from (compiled into its regex cache by a
/// first fit, then replaced by the configured one)
const DECOY_RE: &str = r"[A-Za-z]";

fn split_blank(s: &str) -> Vec<&str> {
    s.split(' ').collect()
}

#[derive(Clone)]
struct Cfg {
    lower: bool,
    norm: bool,
    tok: u8, // 0 default regex, 1 no-blank regex, 2 function split(' ')
    nmin: usize,
    nmax: usize,
    lo: f32,
    hi: f32,
    stop: Option<Vec<String>>,
    cap: Option<usize>,
}

impl Cfg {
    fn count_params(&self) -> CountVectorizerParams {
        let mut p = CountVectorizer::params()
            .convert_to_lowercase(self.lower)
            .normalize(self.norm)
            .n_gram_range(self.nmin, self.nmax)
            .document_frequency(self.lo, self.hi)
            .max_features(self.cap);
        p = match self.tok {
            1 => p.tokenizer(Tokenizer::Regex(NOSPACE_RE.to_string())),
            2 => p.tokenizer(Tokenizer::Function(split_blank)),
            3 => p.tokenizer(Tokenizer::Regex(LOWER_RE.to_string())),
            _ => p,
        };
        if let Some(s) = &self.stop {
            p = p.stopwords(s);
        }
        p
    }
    /// a parameter object with a history: built with another tokeniser, fitted once (which compiles
    /// that tokeniser's regex into the object's cache), cloned, then configured like `count_params`
    /// (every setter, the tokeniser explicitly) — the settings of the last configuration must win
    fn count_params_reused(&self) -> CountVectorizerParams {
        let p0 = CountVectorizer::params().tokenizer(Tokenizer::Regex(DECOY_RE.to_string())).n_gram_range(1, 2).document_frequency(0.0, 0.5).max_features(Some(3));
        let decoy = Array1::from(vec!["two two zebra".to_string(), "one Two".to_string()]);
        let first = p0.fit(&decoy).expect("the first fit of a reused parameter object");
        assert!(first.nentries() <= 3);
        let mut p = p0
            .clone()
            .convert_to_lowercase(self.lower)
            .normalize(self.norm)
            .n_gram_range(self.nmin, self.nmax)
            .document_frequency(self.lo, self.hi)
            .max_features(self.cap);
        p = match self.tok {
            1 => p.tokenizer(Tokenizer::Regex(NOSPACE_RE.to_string())),
            2 => p.tokenizer(Tokenizer::Function(split_blank)),
            3 => p.tokenizer(Tokenizer::Regex(LOWER_RE.to_string())),
            _ => p.tokenizer(Tokenizer::Regex(DEFAULT_RE.to_string())),
        };
        if let Some(s) = &self.stop {
            p = p.stopwords(s);
        }
        p
    }
    fn tfidf_params_reused(&self, method: &str) -> TfIdfVectorizer {
        let p0 = self.tfidf_params(method).tokenizer(Tokenizer::Regex(DECOY_RE.to_string()));
        let decoy = Array1::from(vec!["two two zebra".to_string(), "one Two".to_string()]);
        // the decoy fit may be refused by the configured settings; it only has to run check_ref
        let _ = p0.fit(&decoy);
        match self.tok {
            1 => p0.clone().tokenizer(Tokenizer::Regex(NOSPACE_RE.to_string())),
            2 => p0.clone().tokenizer(Tokenizer::Function(split_blank)),
            3 => p0.clone().tokenizer(Tokenizer::Regex(LOWER_RE.to_string())),
            _ => p0.clone().tokenizer(Tokenizer::Regex(DEFAULT_RE.to_string())),
        }
    }
    /// `TfIdfVectorizer` has no public setter for the idf method; a value with another method is
    /// obtained through its public serde implementation, the settings are applied afterwards.
    fn tfidf_params(&self, method: &str) -> TfIdfVectorizer {
        let mut v = serde_json::to_value(TfIdfVectorizer::default()).expect("serialise TfIdfVectorizer");
        v["method"] = serde_json::Value::String(
            match method {
                "smooth" => "Smooth",
                "nonsmooth" => "NonSmooth",
                _ => "Textbook",
            }
            .to_string(),
        );
        let mut p: TfIdfVectorizer = serde_json::from_value(v).expect("deserialise TfIdfVectorizer");
        p = p
            .convert_to_lowercase(self.lower)
            .normalize(self.norm)
            .n_gram_range(self.nmin, self.nmax)
            .document_frequency(self.lo, self.hi)
            .max_features(self.cap);
        p = match self.tok {
            1 => p.tokenizer(Tokenizer::Regex(NOSPACE_RE.to_string())),
            2 => p.tokenizer(Tokenizer::Function(split_blank)),
            3 => p.tokenizer(Tokenizer::Regex(LOWER_RE.to_string())),
            _ => p,
        };
        if let Some(s) = &self.stop {
            p = p.stopwords(s);
        }
        p
    }
    /// tokenisation-only settings (always valid), used to tokenise for the model and the oracle
    fn tokenizer_params(&self) -> CountVectorizerValidParams {
        let mut p = CountVectorizer::params().convert_to_lowercase(self.lower).normalize(self.norm);
        p = match self.tok {
            1 => p.tokenizer(Tokenizer::Regex(NOSPACE_RE.to_string())),
            2 => p.tokenizer(Tokenizer::Function(split_blank)),
            3 => p.tokenizer(Tokenizer::Regex(LOWER_RE.to_string())),
            _ => p,
        };
        p.check().expect("tokeniser settings are valid")
    }
    fn covered(&self) -> bool {
        self.nmin >= 1 && self.nmin <= self.nmax && self.lo >= 0.0 && self.lo <= self.hi && self.hi <= 1.0
    }
    fn settings(&self) -> String {
        format!(
            "nmin={} nmax={} lo={} hi={} stop={} stopn={} cap={}",
            self.nmin,
            self.nmax,
            hex32(self.lo),
            hex32(self.hi),
            match &self.stop {
                None => "none".to_string(),
                Some(s) => format!("S:{}", list(s.iter(), |w| xw(w))),
            },
            match &self.stop {
                None => "none".to_string(),
                Some(_) => format!("S:{}", list(self.stop_normalised().iter(), |w| xw(w))),
            },
            match self.cap {
                None => "none".to_string(),
                Some(c) => c.to_string(),
            }
        )
    }
    /// the stop list as it would read if it were normalised like the documents (the statement does
    /// not say whether it is; linfa compares the raw strings)
    fn stop_normalised(&self) -> Vec<String> {
        self.stop.as_ref().map_or(vec![], |s| s.iter().map(|w| ref_transform(self.lower, self.norm, w)).collect())
    }
    fn class(&self) -> String {
        format!(
            "ngram={},{}:tok={}:stop={}:cap={}",
            self.nmin,
            self.nmax,
            self.tok,
            if self.stop.is_some() { "some" } else { "none" },
            if self.cap.is_some() { "some" } else { "none" }
        )
    }
}

fn xw(w: &str) -> String {
    format!("x{}", hexstr(w))
}

/// linfa's own tokenisation of `doc` (its `transform_string` through the hook + its compiled regex
/// or the configured function)
fn linfa_tokens(v: &CountVectorizerValidParams, doc: &str) -> Vec<String> {
    let s = hk::transformed(v, doc);
    if let Some(f) = v.tokenizer_function() {
        f(&s).into_iter().map(|t| t.to_string()).collect()
    } else {
        v.split_regex().find_iter(&s).map(|m| m.as_str().to_string()).collect()
    }
}

// ---- reference tokenisation, from first principles over the closed alphabet of the generators

/// NFKD of one character of the alphabet (Unicode decomposition mappings, written out by hand)
fn ref_nfkd_char(c: char, out: &mut String) {
    match c {
        '\u{e9}' => out.push_str("e\u{301}"),
        '\u{c9}' => out.push_str("E\u{301}"),
        '\u{fb01}' => out.push_str("fi"),
        '\u{fb03}' => out.push_str("ffi"),
        '\u{212b}' | '\u{c5}' => out.push_str("A\u{30a}"),
        '\u{e5}' => out.push_str("a\u{30a}"),
        '\u{ef}' => out.push_str("i\u{308}"),
        '\u{130}' => out.push_str("I\u{307}"),
        // compatibility mappings to UPPER-case letters: NFKD and lower-casing do not commute here
        '\u{2122}' => out.push_str("TM"),
        '\u{2116}' => out.push_str("No"),
        '\u{1d2c}' => out.push('A'),
        '\u{fffd}' => out.push(c),
        c if c.is_ascii() || ('\u{300}'..='\u{36f}').contains(&c) => out.push(c),
        c => panic!("C17 reference NFKD: character {:?} is outside the alphabet", c),
    }
}
/// lower-casing of one character of the alphabet (Unicode `Lowercase_Mapping`)
fn ref_lower_char(c: char, out: &mut String) {
    match c {
        '\u{c9}' => out.push('\u{e9}'),
        '\u{212b}' | '\u{c5}' => out.push('\u{e5}'),
        '\u{130}' => out.push_str("i\u{307}"),
        '\u{e9}' | '\u{fb01}' | '\u{fb03}' | '\u{e5}' | '\u{ef}' => out.push(c),
        // no lower-case mapping (symbols; the modifier letter is already "lowercase")
        '\u{2122}' | '\u{2116}' | '\u{1d2c}' | '\u{fffd}' => out.push(c),
        c if c.is_ascii() => out.push(c.to_ascii_lowercase()),
        c if ('\u{300}'..='\u{36f}').contains(&c) => out.push(c),
        c => panic!("C17 reference lower-casing: character {:?} is outside the alphabet", c),
    }
}
fn ref_nfkd(s: &str) -> String {
    let mut o = String::new();
    s.chars().for_each(|c| ref_nfkd_char(c, &mut o));
    o
}
fn ref_lower(s: &str) -> String {
    let mut o = String::new();
    s.chars().for_each(|c| ref_lower_char(c, &mut o));
    o
}
/// the documented meaning of the two switches: "all characters normalised according to NFKD" iff
/// `normalize`, "converted to lowercase" iff `convert_to_lowercase`, independently of each other
fn ref_transform(lower: bool, norm: bool, doc: &str) -> String {
    let s = if norm { ref_nfkd(doc) } else { doc.to_string() };
    if lower { ref_lower(&s) } else { s }
}
/// word character of the alphabet (letters, digits, underscore, combining marks)
fn is_word(c: char) -> bool {
    c.is_alphanumeric() || c == '_' || ('\u{300}'..='\u{36f}').contains(&c)
}
/// documented default tokeniser `\b\w\w+\b`: "selects words, using whitespaces and punctuation
/// symbols as separators" — the maximal runs of word characters of length two or more
fn ref_tok_default(s: &str) -> Vec<String> {
    let mut out = vec![];
    let mut cur = String::new();
    for c in s.chars().chain(std::iter::once(' ')) {
        if is_word(c) {
            cur.push(c);
        } else {
            if cur.chars().count() >= 2 {
                out.push(cur.clone());
            }
            cur.clear();
        }
    }
    out
}
/// the user regex `\b[^ ][^ ]+\b` by direct simulation: leftmost start at a word boundary, the
/// longest run of two or more non-blank characters that ends at a word boundary, non-overlapping
fn ref_tok_noblank(s: &str) -> Vec<String> {
    let ch: Vec<char> = s.chars().collect();
    let n = ch.len();
    let boundary = |i: usize| -> bool {
        let a = i > 0 && is_word(ch[i - 1]);
        let b = i < n && is_word(ch[i]);
        a != b
    };
    let mut out = vec![];
    let mut pos = 0;
    'search: while pos < n {
        for st in pos..n {
            if ch[st] == ' ' || !boundary(st) {
                continue;
            }
            let mut e = st;
            while e < n && ch[e] != ' ' {
                e += 1;
            }
            while e >= st + 2 {
                if boundary(e) {
                    out.push(ch[st..e].iter().collect());
                    pos = e;
                    continue 'search;
                }
                e -= 1;
            }
        }
        break;
    }
    out
}
/// the user regex `[a-z]+`: maximal runs of ASCII lower-case letters
fn ref_tok_lower(s: &str) -> Vec<String> {
    let mut out = vec![];
    let mut cur = String::new();
    for c in s.chars().chain(std::iter::once(' ')) {
        if c.is_ascii_lowercase() {
            cur.push(c);
        } else if !cur.is_empty() {
            out.push(std::mem::take(&mut cur));
        }
    }
    out
}
fn ref_tokens(cfg: &Cfg, doc: &str) -> Vec<String> {
    let s = ref_transform(cfg.lower, cfg.norm, doc);
    match cfg.tok {
        0 => ref_tok_default(&s),
        1 => ref_tok_noblank(&s),
        3 => ref_tok_lower(&s),
        _ => s.split(' ').map(|t| t.to_string()).collect(),
    }
}
/// the tokens the regex `[A-Za-z]` of the decoy configuration would give (every ASCII letter on its
/// own) — what a parameter object that kept a stale compiled regex would tokenise to
fn ref_tokens_decoy(cfg: &Cfg, doc: &str) -> Vec<String> {
    ref_transform(cfg.lower, cfg.norm, doc).chars().filter(|c| c.is_ascii_alphabetic()).map(|c| c.to_string()).collect()
}
fn tok_class(cfg: &Cfg) -> String {
    format!("lower={}:norm={}:tok={}", cfg.lower, cfg.norm, cfg.tok)
}
/// clause "tokenisation settings are honoured": linfa's tokenisation of every document equals the
/// reference; the getters report the configured switches
fn oracle_settings(ctx: &mut Ctx, cfg: &Cfg, docs: &[String], toks: &[Vec<String>]) {
    let tp = cfg.tokenizer_params();
    let class = tok_class(cfg);
    ctx.require(tp.normalize() == cfg.norm && tp.convert_to_lowercase() == cfg.lower, "settings_kept", &class, || {
        format!("configured normalize={} lowercase={}, parameters report normalize={} lowercase={}", cfg.norm, cfg.lower, tp.normalize(), tp.convert_to_lowercase())
    });
    for (d, want) in docs.iter().zip(toks) {
        let got = linfa_tokens(&tp, d);
        if &got != want {
            ctx.fail("settings_honoured", &class, format!("document {:?}: linfa tokenises to {:?}, the settings (lowercase={}, normalize={}, tokenizer {}) mean {:?}", d, got, cfg.lower, cfg.norm, cfg.tok, want));
            return;
        }
    }
}

// ---- calling forms

#[derive(Clone)]
struct Doc(String);
impl std::fmt::Display for Doc {
    fn fmt(&self, f: &mut std::fmt::Formatter<'_>) -> std::fmt::Result {
        f.write_str(&self.0)
    }
}

const FIT_FORMS: &[&str] = &["owned", "view", "strided", "reversed", "revstrided", "strref", "display", "checked", "reuse", "files", "files16", "filesrep", "filesign"];
const TFIDF_FIT_FORMS: &[&str] = &["owned", "view", "strided", "reversed", "revstrided", "strref", "display", "reuse", "files", "files16", "filesrep", "filesign"];
const TR_FORMS: &[&str] = &["owned", "view", "strided", "reversed", "revstrided", "strref", "display", "serde", "twice", "files", "files16", "filesrep", "filesign"];
const VOC_FORMS: &[&str] = &["owned", "strref", "display", "checked"];

/// evaluate `$body` with `$x` bound to a reference to the documents as a one-dimensional array in the
/// named in-memory layout / element type
macro_rules! on_form {
    ($form:expr, $docs:expr, $x:ident => $body:expr) => {{
        let docs: &[String] = $docs;
        match $form {
            "view" => {
                let a = Array1::from(docs.to_vec());
                let v = a.view();
                let $x = &v;
                $body
            }
            "strided" => {
                let mut w = Vec::new();
                for d in docs {
                    w.push(d.clone());
                    w.push(format!("{} zebra junkword {}", d, d));
                }
                let a = Array1::from(w);
                let v = a.slice(s![..;2]);
                let $x = &v;
                $body
            }
            "reversed" => {
                let mut w = docs.to_vec();
                w.reverse();
                let a = Array1::from(w);
                let v = a.slice(s![..;-1]);
                let $x = &v;
                $body
            }
            "revstrided" => {
                // negative stride of two: the documents are the odd positions read backwards
                let mut w = Vec::new();
                for d in docs.iter().rev() {
                    w.push(format!("junkword {} zebra", d));
                    w.push(d.clone());
                }
                let a = Array1::from(w);
                let v = a.slice(s![..;-2]);
                let v = if docs.is_empty() { a.slice(s![0..0]) } else { v };
                let $x = &v;
                $body
            }
            "strref" => {
                let w: Vec<&str> = docs.iter().map(|s| s.as_str()).collect();
                let a = Array1::from(w);
                let $x = &a;
                $body
            }
            "display" => {
                let a = Array1::from(docs.iter().map(|s| Doc(s.clone())).collect::<Vec<_>>());
                let $x = &a;
                $body
            }
            _ => {
                let a = Array1::from(docs.to_vec());
                let $x = &a;
                $body
            }
        }
    }};
}

static FILE_DIR: OnceLock<PathBuf> = OnceLock::new();
fn file_dir() -> &'static PathBuf {
    FILE_DIR.get_or_init(|| {
        let base = std::env::args().nth(4).map(PathBuf::from).unwrap_or_else(std::env::temp_dir);
        let d = base.join(format!("c17_files_{}", std::process::id()));
        std::fs::create_dir_all(&d).expect("create the directory of the document files");
        d
    })
}
/// the bytes of a document file for the named files form:
/// `files` UTF-8; `files16` UTF-16LE; `fileslatin1` ISO-8859-1 (documents of Latin-1 characters only);
/// `filesrep` UTF-8 in which every U+FFFD of the document is the single invalid byte 0xFF (read back
/// with the Replace trap); `filesign` UTF-8 with an invalid byte 0xFF put in front of every blank and
/// at the end (read back with the Ignore trap)
fn file_bytes(form: &str, d: &str) -> Vec<u8> {
    match form {
        "files16" => d.encode_utf16().flat_map(|u| u.to_le_bytes()).collect(),
        "fileslatin1" => d.chars().map(|c| u8::try_from(c as u32).expect("a Latin-1 document")).collect(),
        "filesrep" => {
            let mut out = vec![];
            let mut buf = [0u8; 4];
            for c in d.chars() {
                if c == '\u{fffd}' {
                    out.push(0xff);
                } else {
                    out.extend_from_slice(c.encode_utf8(&mut buf).as_bytes());
                }
            }
            out
        }
        "filesign" => {
            let mut out = vec![];
            for b in d.bytes() {
                if b == b' ' {
                    out.push(0xff);
                }
                out.push(b);
            }
            out.push(0xff);
            out
        }
        _ => d.as_bytes().to_vec(),
    }
}
/// evaluate `$body` with the `encoding` / `trap` arguments of the named files form (the harness does
/// not depend on the `encoding` crate: the values come from the hooks)
macro_rules! with_codec {
    ($form:expr, $enc:ident, $trap:ident => $body:expr) => {
        match $form {
            "files16" => {
                let ($enc, $trap) = (hk::utf16le(), hk04::strict());
                $body
            }
            "fileslatin1" => {
                let ($enc, $trap) = (hk::latin1(), hk04::strict());
                $body
            }
            "filesrep" => {
                let ($enc, $trap) = (hk04::utf8(), hk::replace());
                $body
            }
            "filesign" => {
                let ($enc, $trap) = (hk04::utf8(), hk::ignore());
                $body
            }
            _ => {
                let ($enc, $trap) = (hk04::utf8(), hk04::strict());
                $body
            }
        }
    };
}
fn write_files(tag: &str, form: &str, docs: &[String]) -> Vec<PathBuf> {
    docs.iter()
        .enumerate()
        .map(|(k, d)| {
            let p = file_dir().join(format!("{}{}.txt", tag, k));
            std::fs::write(&p, file_bytes(form, d)).expect("write a document file");
            p
        })
        .collect()
}
fn decoy_docs() -> Array1<String> {
    Array1::from(vec!["two two zebra four".to_string(), "one".to_string(), "two caf\u{e9}".to_string()])
}

type PResult<T> = Result<T, linfa_preprocessing::PreprocessingError>;

fn fit_count(cfg: &Cfg, form: &str, docs: &[String]) -> PResult<CountVectorizer> {
    match form {
        f if f.starts_with("files") => with_codec!(f, enc, trap => cfg.count_params().fit_files(&write_files("fit", f, docs), enc, trap)),
        "reuse" => {
            let p = cfg.count_params_reused();
            let a = Array1::from(docs.to_vec());
            // the same object fits twice: another corpus first
            let _ = p.fit(&decoy_docs());
            p.fit(&a)
        }
        "checked" => {
            let v = cfg.count_params().check()?;
            let a = Array1::from(docs.to_vec());
            v.fit(&a)
        }
        _ => on_form!(form, docs, x => cfg.count_params().fit(x)),
    }
}
fn fit_tfidf(cfg: &Cfg, method: &str, form: &str, docs: &[String]) -> PResult<FittedTfIdfVectorizer> {
    match form {
        f if f.starts_with("files") => with_codec!(f, enc, trap => cfg.tfidf_params(method).fit_files(&write_files("fit", f, docs), enc, trap)),
        "reuse" => {
            let p = cfg.tfidf_params_reused(method);
            let a = Array1::from(docs.to_vec());
            let _ = p.fit(&decoy_docs());
            p.fit(&a)
        }
        _ => on_form!(form, docs, x => cfg.tfidf_params(method).fit(x)),
    }
}
fn transform_count(cfg: &Cfg, cv: &CountVectorizer, form: &str, docs: &[String]) -> PResult<CsMat<usize>> {
    match form {
        f if f.starts_with("files") => with_codec!(f, enc, trap => cv.transform_files(&write_files("tr", f, docs), enc, trap)),
        "twice" => {
            // the same fitted object transforms another corpus first
            let first = cv.transform(&decoy_docs())?;
            assert_eq!(first.rows(), 3);
            let a = Array1::from(docs.to_vec());
            cv.transform(&a)
        }
        "serde" => {
            let js = serde_json::to_string(cv).expect("serialise CountVectorizer");
            let mut back: CountVectorizer = serde_json::from_str(&js).expect("deserialise CountVectorizer");
            if cfg.tok == 2 {
                back.force_tokenizer_function_redefinition(split_blank);
            }
            let a = Array1::from(docs.to_vec());
            back.transform(&a)
        }
        _ => on_form!(form, docs, x => cv.transform(x)),
    }
}
fn transform_tfidf(cfg: &Cfg, tv: &FittedTfIdfVectorizer, form: &str, docs: &[String]) -> PResult<CsMat<f64>> {
    match form {
        f if f.starts_with("files") => with_codec!(f, enc, trap => tv.transform_files(&write_files("tr", f, docs), enc, trap)),
        "twice" => {
            let first = tv.transform(&decoy_docs())?;
            assert_eq!(first.rows(), 3);
            let a = Array1::from(docs.to_vec());
            tv.transform(&a)
        }
        "serde" => {
            let js = serde_json::to_string(tv).expect("serialise FittedTfIdfVectorizer");
            let mut back: FittedTfIdfVectorizer = serde_json::from_str(&js).expect("deserialise FittedTfIdfVectorizer");
            if cfg.tok == 2 {
                back.force_tokenizer_redefinition(split_blank);
            }
            let a = Array1::from(docs.to_vec());
            back.transform(&a)
        }
        _ => on_form!(form, docs, x => tv.transform(x)),
    }
}

fn show_docs(d: &[Vec<String>]) -> String {
    list2(d.iter().map(|x| x.iter()), |w| xw(w))
}

/// the windows of `nmin..=nmax` consecutive tokens, joined by one blank — from first principles
fn naive_grams(toks: &[String], nmin: usize, nmax: usize) -> Vec<String> {
    let mut out = vec![];
    for i in 0..toks.len() {
        for l in nmin..=nmax {
            if l >= 1 && i + l <= toks.len() {
                out.push(toks[i..i + l].join(" "));
            }
        }
    }
    out
}

fn gen_doc(rng: &mut Rng, alpha: &[&str], maxw: usize, oov: bool) -> String {
    let k = rng.below(maxw + 1);
    let mut s = String::new();
    if rng.chance(1, 8) {
        s.push_str(*rng.pick(SEPS));
    }
    for i in 0..k {
        if i > 0 {
            s.push_str(*rng.pick(SEPS));
        }
        if oov && rng.chance(1, 3) {
            s.push_str(*rng.pick(OOV));
        } else {
            s.push_str(*rng.pick(alpha));
        }
    }
    if rng.chance(1, 8) {
        s.push_str(*rng.pick(SEPS));
    }
    s
}

fn gen_bound(rng: &mut Rng, n: usize) -> f32 {
    const GRID: &[f32] = &[0.0, 0.05, 0.1, 0.2, 0.25, 0.3, 1.0 / 3.0, 0.4, 0.5, 0.6, 2.0 / 3.0, 0.7, 0.75, 0.8, 0.9, 1.0];
    match rng.below(11) {
        // dyadic bounds: `bound * n` is exact, so a document frequency exactly on the bound is a
        // decided case (inclusive window) whenever 16 | k * n
        10 => rng.below(17) as f32 / 16.0,
        0..=3 => *rng.pick(GRID),
        4..=6 if n > 0 => rng.below(n + 1) as f32 / n as f32,
        7 if n > 0 => (rng.below(2 * n + 1) as f32 + 0.5) / (2 * n) as f32,
        8 => (rng.below(1001) as f32) / 1000.0,
        _ => *rng.pick(&[0.0f32, 1.0, 1.0, 0.5]),
    }
}

fn gen_cfg(rng: &mut Rng, n_docs: usize) -> Cfg {
    let ranges = [(1, 1), (1, 2), (2, 2), (1, 3), (2, 3), (3, 3)];
    let tok = *rng.pick(&[0u8, 0, 0, 1, 2, 3]);
    let (nmin, nmax) = if rng.chance(2, 5) { (1, 1) } else { *rng.pick(&ranges) };
    let (lo, hi) = match rng.below(8) {
        0 | 1 => (0.0, 1.0),
        2 => (gen_bound(rng, n_docs), 1.0),
        3 => (0.0, gen_bound(rng, n_docs)),
        _ => {
            let a = gen_bound(rng, n_docs);
            let b = gen_bound(rng, n_docs);
            if a <= b { (a, b) } else { (b, a) }
        }
    };
    Cfg {
        lower: !rng.chance(1, 3),
        norm: !rng.chance(1, 3),
        tok,
        nmin,
        nmax,
        lo,
        hi,
        stop: None,
        cap: None,
    }
}

/// comparison of a relative bound with an absolute count: `bound * n` against `df`.
/// `f32 * small integer` is exact in f64.  A difference that is not zero but below f32 resolution
/// is a float tie (the user wrote 0.1 meaning 1/10): undecided, never alarmed on.
#[derive(PartialEq, Clone, Copy)]
enum Cmp {
    Less,
    Equal,
    Greater,
    Tie,
}
fn cmp_bound(bound: f32, n: usize, df: usize) -> Cmp {
    let p = bound as f64 * n as f64;
    let d = df as f64;
    if p == d {
        Cmp::Equal
    } else if (p - d).abs() <= 4e-6 * d.max(1.0) {
        Cmp::Tie
    } else if p < d {
        Cmp::Less
    } else {
        Cmp::Greater
    }
}
fn is_frac(bound: f32, n: usize) -> bool {
    let p = bound as f64 * n as f64;
    (p - p.round()).abs() > 4e-6 * p.abs().max(1.0)
}

enum Adm {
    In,
    Out(String),
    Undecided,
}

/// does the documented meaning of the settings admit an entry with document frequency `df`?
/// "minimum and maximum (relative) document frequencies that each vocabulary entry must satisfy",
/// "list of entries to be excluded from the generated vocabulary".
fn admitted(cfg: &Cfg, n: usize, word: &str, df: usize) -> Adm {
    if let Some(s) = &cfg.stop {
        if s.iter().any(|w| w == word) {
            return Adm::Out("stopword".into());
        }
    }
    let stop_ambiguous = cfg.stop_normalised().iter().any(|w| w == word);
    let lo = cmp_bound(cfg.lo, n, df);
    let hi = cmp_bound(cfg.hi, n, df);
    if lo == Cmp::Greater {
        return Adm::Out(format!("below_min_df:lo*n={}", if is_frac(cfg.lo, n) { "fractional" } else { "integral" }));
    }
    if hi == Cmp::Less {
        return Adm::Out(format!("above_max_df:hi*n={}", if is_frac(cfg.hi, n) { "fractional" } else { "integral" }));
    }
    // a stop word that only matches the entry after being normalised like the documents: the
    // statement does not say whether the stop list is normalised
    if lo == Cmp::Tie || hi == Cmp::Tie || stop_ambiguous {
        return Adm::Undecided;
    }
    Adm::In
}

/// document frequency (number of training documents containing the entry) and term frequency
/// (number of occurrences in the training corpus) of every corpus entry, from the reference tokens
fn corpus_stats(cfg: &Cfg, fit_toks: &[Vec<String>]) -> (BTreeMap<String, usize>, BTreeMap<String, usize>) {
    let mut df: BTreeMap<String, usize> = BTreeMap::new();
    let mut tf: BTreeMap<String, usize> = BTreeMap::new();
    for d in fit_toks {
        let grams = naive_grams(d, cfg.nmin, cfg.nmax);
        for g in &grams {
            *tf.entry(g.clone()).or_insert(0) += 1;
        }
        let set: BTreeSet<String> = grams.into_iter().collect();
        for g in set {
            *df.entry(g).or_insert(0) += 1;
        }
    }
    (df, tf)
}

/// oracle for the fitted vocabulary (clauses vocab_*, cap_is_top)
fn oracle_vocab(ctx: &mut Ctx, em_counts: &mut Vec<String>, cfg: &Cfg, fit_toks: &[Vec<String>], vocab: &[String]) {
    let n = fit_toks.len();
    let (df, tf) = corpus_stats(cfg, fit_toks);
    let vset: BTreeSet<&String> = vocab.iter().collect();
    ctx.require(vset.len() == vocab.len(), "vocab_distinct", &cfg.class(), || format!("vocabulary() lists an entry twice: {:?}", vocab));
    for w in vocab {
        ctx.require(df.contains_key(w), "vocab_from_corpus", &cfg.class(), || format!("vocabulary entry {:?} is no n-gram of the training corpus", w));
    }
    let mut adm: Vec<(usize, &String)> = vec![];
    let mut undecided = 0;
    let mut verdicts: Vec<(&String, usize, Adm)> = vec![];
    for (w, d) in &df {
        let a = admitted(cfg, n, w, *d);
        match &a {
            Adm::In => adm.push((*d, w)),
            Adm::Undecided => undecided += 1,
            _ => {}
        }
        verdicts.push((w, *d, a));
    }
    if undecided > 0 {
        em_counts.push("df_float_tie_entries".into());
    }
    match cfg.cap {
        None => {
            for (w, d, a) in &verdicts {
                match a {
                    Adm::In => ctx.require(vset.contains(w), "vocab_complete", &cfg.class(), || {
                        format!("entry {:?} (df {} of {} documents) is admitted by the settings (lo={} hi={} stop={:?}) but missing from the vocabulary", w, d, n, cfg.lo, cfg.hi, cfg.stop)
                    }),
                    Adm::Out(reason) => ctx.require(!vset.contains(w), "vocab_admits_only", reason, || {
                        format!("entry {:?} (df {} of {} documents) is in the vocabulary although the settings exclude it: {} (lo={} hi={} stop={:?})", w, d, n, reason, cfg.lo, cfg.hi, cfg.stop)
                    }),
                    Adm::Undecided => {}
                }
            }
        }
        Some(cap) => {
            if undecided > 0 {
                em_counts.push("cap_check_with_df_float_tie".into());
            }
            // a listed entry the settings exclude
            let excluded = verdicts.iter().filter(|(w, _, a)| vset.contains(w) && matches!(a, Adm::Out(_))).map(|(w, _, a)| (*w, if let Adm::Out(r) = a { r.clone() } else { String::new() })).next();
            if let Some((w, reason)) = excluded {
                ctx.fail("vocab_admits_only", &reason, format!("under cap {}: entry {:?} is in the vocabulary although the settings exclude it (lo={} hi={} n={} stop={:?})", cap, w, cfg.lo, cfg.hi, n, cfg.stop));
                return;
            }
            // size: min(cap, |admitted|); entries whose admission is a float tie may count or not
            // (the implementation decides a whole frequency level at once)
            let lo_sz = cap.min(adm.len());
            let hi_sz = cap.min(adm.len() + undecided);
            ctx.require(lo_sz <= vocab.len() && vocab.len() <= hi_sz, "cap_size", &cfg.class(), || format!("cap {}: {} admitted entries (+{} undecided), vocabulary has {} (want {}..={})", cap, adm.len(), undecided, vocab.len(), lo_sz, hi_sz));
            // most frequent: every kept entry is at least as frequent as every dropped admitted one
            // (equal frequencies: the statement does not fix the choice)
            // "most frequent" is read as document frequency (what the code ranks by) or as term
            // frequency (what the doc comment of `max_features` says): one of the two must hold for
            // the whole vocabulary
            let top_by = |fr: &BTreeMap<String, usize>| -> (bool, usize, usize) {
                let kept_min = vocab.iter().filter_map(|w| fr.get(w)).min().copied();
                let dropped_max = adm.iter().filter(|(_, w)| !vset.contains(w)).filter_map(|(_, w)| fr.get(*w)).max().copied();
                match (kept_min, dropped_max) {
                    (Some(k), Some(d)) => (k >= d, k, d),
                    _ => (true, 0, 0),
                }
            };
            let (ok_df, k, d) = top_by(&df);
            let (ok_tf, kt, dt) = top_by(&tf);
            if ok_tf && !ok_df {
                em_counts.push("cap_top_by_term_frequency_only".into());
            }
            ctx.require(ok_df || ok_tf, "cap_is_top", &cfg.class(), || format!("cap {}: a kept entry has document frequency {} but a dropped admitted entry has {} (term frequencies: kept {} dropped {})", cap, k, d, kt, dt));
        }
    }
}

/// The entries of the training corpus about which the statement promises nothing (`Some(set)`: they
/// are left out of the compared response, on both sides), or `None` when the whole vocabulary is open.
/// (Same computation as the driver's `unpromised`.)
///  * an entry whose document frequency is within f32 noise of (but not equal to) a relative bound
///    times `n` ("is 1/3 admitted by min_df = fl32(1/3)?" has no answer);
///  * an entry that is no stop word but equals a stop word normalised like the documents;
///  * under a feature cap (which interacts with the whole set: any entry of the first two kinds leaves
///    everything open): an admitted entry that is neither surely kept nor surely dropped — surely kept
///    = fewer than `cap` other admitted entries are at least as frequent, surely dropped = at least
///    `cap` admitted entries are strictly more frequent, each under BOTH readings of "frequent"
///    (document frequency, term frequency).  Entries of equal frequency at the cut are therefore open
///    (the statement does not say which of equals), everything above and below the cut is compared.
fn unpromised(cfg: &Cfg, fit_toks: &[Vec<String>]) -> Option<BTreeSet<String>> {
    let n = fit_toks.len();
    let (df, tf) = corpus_stats(cfg, fit_toks);
    let stopn = cfg.stop_normalised();
    let is_stop = |w: &String| cfg.stop.as_ref().map_or(false, |s| s.iter().any(|x| x == w));
    let u0: BTreeSet<String> = df
        .iter()
        .filter(|(w, d)| cmp_bound(cfg.lo, n, **d) == Cmp::Tie || cmp_bound(cfg.hi, n, **d) == Cmp::Tie || (!is_stop(w) && stopn.iter().any(|x| x == *w)))
        .map(|(w, _)| w.clone())
        .collect();
    let cap = match cfg.cap {
        None => return Some(u0),
        Some(c) => c,
    };
    if !u0.is_empty() {
        return None;
    }
    // exact arithmetic: an f32 times a count below 2^29 is exact in f64
    let adm: Vec<&String> = df.iter().filter(|(w, d)| !is_stop(w) && cfg.lo as f64 * n as f64 <= **d as f64 && **d as f64 <= cfg.hi as f64 * n as f64).map(|(w, _)| w).collect();
    let sure = |fr: &BTreeMap<String, usize>, w: &String| -> (bool, bool) {
        let x = fr[w];
        let ge = adm.iter().filter(|a| fr[**a] >= x).count() - 1;
        let gt = adm.iter().filter(|a| fr[**a] > x).count();
        (ge < cap, gt >= cap)
    };
    let mut u = BTreeSet::new();
    for w in &adm {
        let (k1, d1) = sure(&df, w);
        let (k2, d2) = sure(&tf, w);
        if !(k1 && k2) && !(d1 && d2) {
            u.insert((*w).clone());
        }
    }
    Some(u)
}
fn show_margin(decided: bool) -> &'static str {
    if decided { "margin=~3ff0000000000000" } else { "margin=~0000000000000000" }
}

/// the documented sparse structure of the count matrix: "if a vocabulary entry was not encountered
/// in a document, then the relative cell in the sparse matrix will be set to None" — stored cells are
/// exactly the non-zero counts, column indices increasing within a row.  The tf-idf matrix has the
/// same stored cells (its values are `count * idf`, which may be 0 for the textbook method).
fn oracle_sparse<N: Copy + PartialEq + std::fmt::Debug>(ctx: &mut Ctx, class: &str, cs: &CsMat<N>, naive: &[Vec<usize>], zero_is_error: Option<N>) {
    if !cs.is_csr() || cs.rows() != naive.len() {
        ctx.fail("sparse_structure", class, format!("matrix is not a CSR matrix of {} rows (csr={}, rows={})", naive.len(), cs.is_csr(), cs.rows()));
        return;
    }
    for (d, row) in cs.outer_iterator().enumerate() {
        let idx: Vec<usize> = row.indices().to_vec();
        let want: Vec<usize> = naive[d].iter().enumerate().filter(|(_, c)| **c > 0).map(|(j, _)| j).collect();
        if idx != want {
            ctx.fail("sparse_structure", class, format!("document {}: stored columns {:?}, the columns with a non-zero count are {:?}", d, idx, want));
            return;
        }
        for (j, c) in row.iter() {
            if Some(*c) == zero_is_error || cs.get(d, j) != Some(c) {
                ctx.fail("sparse_structure", class, format!("document {}: stored cell {} holds {:?} / get() reads {:?}", d, j, c, cs.get(d, j)));
                return;
            }
        }
        for j in 0..cs.cols() {
            if !want.contains(&j) && cs.get(d, j).is_some() {
                ctx.fail("sparse_structure", class, format!("document {}: get({}) reads {:?} for an entry that does not occur", d, j, cs.get(d, j)));
                return;
            }
        }
    }
}

/// oracle for a count matrix: cell (d, j) = occurrences of vocabulary()[j] among the n-grams of d
fn oracle_counts(ctx: &mut Ctx, cfg: &Cfg, what: &str, tr_toks: &[Vec<String>], vocab: &[String], nentries: usize, dense: &Array2<usize>) -> Vec<Vec<usize>> {
    let class = format!("{}:{}", what, cfg.class());
    ctx.require(nentries == vocab.len(), "nentries", &class, || format!("nentries() = {} but vocabulary() has {} entries", nentries, vocab.len()));
    ctx.require(dense.dim() == (tr_toks.len(), vocab.len()), "shape", &class, || format!("matrix is {:?} for {} documents and {} entries", dense.dim(), tr_toks.len(), vocab.len()));
    let mut naive = vec![];
    for (d, toks) in tr_toks.iter().enumerate() {
        let grams = naive_grams(toks, cfg.nmin, cfg.nmax);
        let row: Vec<usize> = vocab.iter().map(|w| grams.iter().filter(|g| *g == w).count()).collect();
        if dense.dim() == (tr_toks.len(), vocab.len()) {
            for (j, c) in row.iter().enumerate() {
                if dense[(d, j)] != *c {
                    ctx.fail("count_entry", &class, format!("document {} {:?}: column {} is vocabulary()[{}] = {:?}, which occurs {} times, matrix says {}", d, toks, j, j, vocab[j], c, dense[(d, j)]));
                    break;
                }
            }
            let in_vocab = grams.iter().filter(|g| vocab.contains(g)).count();
            let total: usize = dense.row(d).sum();
            ctx.require(total == in_vocab, "oov_contributes_zero", &class, || format!("document {}: row sums to {}, {} of its {} n-grams are vocabulary entries", d, total, in_vocab, grams.len()));
        }
        naive.push(row);
    }
    naive
}

fn idf_doc(method: &str, n: usize, df: usize) -> f64 {
    let (n, df) = (n as f64, df as f64);
    match method {
        "smooth" => ((1.0 + n) / (1.0 + df)).ln() + 1.0,
        "nonsmooth" => (n / df).ln() + 1.0,
        _ => (n / (1.0 + df)).ln(),
    }
}

fn oracle_tfidf(ctx: &mut Ctx, cfg: &Cfg, method: &str, what: &str, tr_toks: &[Vec<String>], vocab: &[String], nentries: usize, dense: &Array2<f64>) -> Option<Vec<Vec<usize>>> {
    let class = format!("{}:method={}:{}", what, method, cfg.class());
    ctx.require(nentries == vocab.len(), "nentries", &class, || format!("nentries() = {} but vocabulary() has {} entries", nentries, vocab.len()));
    if dense.dim() != (tr_toks.len(), vocab.len()) {
        ctx.fail("shape", &class, format!("matrix is {:?} for {} documents and {} entries", dense.dim(), tr_toks.len(), vocab.len()));
        return None;
    }
    let n = tr_toks.len();
    let counts: Vec<Vec<usize>> = tr_toks
        .iter()
        .map(|toks| {
            let grams = naive_grams(toks, cfg.nmin, cfg.nmax);
            vocab.iter().map(|w| grams.iter().filter(|g| *g == w).count()).collect()
        })
        .collect();
    for j in 0..vocab.len() {
        let df = counts.iter().filter(|r| r[j] > 0).count();
        for d in 0..n {
            let c = counts[d][j];
            let got = dense[(d, j)];
            let ok = if c == 0 {
                got == 0.0
            } else {
                let want = c as f64 * idf_doc(method, n, df);
                (got - want).abs() <= 1e-12 * (1.0 + want.abs())
            };
            if !ok {
                ctx.fail("tfidf_entry", &class, format!("document {} entry {:?}: count {}, n {}, df {}: got {}, want count*idf = {}", d, vocab[j], c, n, df, got, if c == 0 { 0.0 } else { c as f64 * idf_doc(method, n, df) }));
                return Some(counts);
            }
        }
    }
    Some(counts)
}

/// sort the vocabulary, return (sorted words, permutation: sorted position -> original column)
fn canon(vocab: &[String]) -> (Vec<String>, Vec<usize>) {
    let mut idx: Vec<usize> = (0..vocab.len()).collect();
    idx.sort_by(|a, b| vocab[*a].cmp(&vocab[*b]).then(a.cmp(b)));
    (idx.iter().map(|i| vocab[*i].clone()).collect(), idx)
}
fn show_vocab(v: &[String]) -> String {
    if v.is_empty() { "-".to_string() } else { list(v.iter(), |w| xw(w)) }
}
/// canonical positions (sorted by word) of the compared columns: the entries outside `mask`
fn shown_columns(vocab: &[String], mask: Option<&BTreeSet<String>>) -> (Vec<String>, Vec<usize>) {
    let (sv, perm) = canon(vocab);
    let keep: Vec<usize> = (0..sv.len()).filter(|k| mask.map_or(true, |m| !m.contains(&sv[*k]))).collect();
    (keep.iter().map(|k| sv[*k].clone()).collect(), keep.iter().map(|k| perm[*k]).collect())
}
/// total size of the vocabulary: promised only under a cap (`min(cap, |admitted|)`) or when nothing is masked
fn show_size(n: usize, mask: Option<&BTreeSet<String>>, cap: bool) -> String {
    if cap || mask.map_or(false, |m| m.is_empty()) { n.to_string() } else { "-".to_string() }
}
/// the stored cells of every row as `position:value` (position among the compared columns), by position
fn stored_cells<N: Copy>(cs: &CsMat<N>, cols: &[usize], show: impl Fn(N) -> String) -> String {
    let rows: Vec<Vec<String>> = cs
        .outer_iterator()
        .map(|row| {
            let mut cells: Vec<(usize, String)> = row.iter().filter_map(|(j, c)| cols.iter().position(|x| *x == j).map(|k| (k, show(*c)))).collect();
            cells.sort();
            cells.into_iter().map(|(k, c)| format!("{}/{}", k, c)).collect()
        })
        .collect();
    list2(rows.iter().map(|r| r.iter()), |c| c.clone())
}
fn resp_counts(nentries: usize, vocab: &[String], cs: &CsMat<usize>, dense: &Array2<usize>, mask: Option<&BTreeSet<String>>, cap: bool) -> String {
    let (sv, cols) = shown_columns(vocab, mask);
    let ok_dim = dense.ncols() == vocab.len() && cs.cols() == vocab.len() && cs.rows() == dense.nrows();
    if !ok_dim {
        return format!("ok shape-mismatch {:?} {}", dense.dim(), vocab.len());
    }
    let rows: Vec<Vec<usize>> = (0..dense.nrows()).map(|d| cols.iter().map(|j| dense[(d, *j)]).collect()).collect();
    let gets: Vec<Vec<String>> = (0..dense.nrows()).map(|d| cols.iter().map(|j| cs.get(d, *j).map_or("N".to_string(), |c| c.to_string())).collect()).collect();
    format!(
        "ok n={} size={} vocab={} counts={} sp={} get={} {}",
        sv.len(),
        show_size(nentries, mask, cap),
        show_vocab(&sv),
        list2(rows.iter().map(|r| r.iter()), |c| c.to_string()),
        stored_cells(cs, &cols, |c| c.to_string()),
        list2(gets.iter().map(|r| r.iter()), |c| c.clone()),
        show_margin(mask.is_some())
    )
}
fn resp_tfidf(nentries: usize, vocab: &[String], cs: &CsMat<f64>, dense: &Array2<f64>, mask: Option<&BTreeSet<String>>, cap: bool) -> String {
    let (sv, cols) = shown_columns(vocab, mask);
    let ok_dim = dense.ncols() == vocab.len() && cs.cols() == vocab.len() && cs.rows() == dense.nrows();
    if !ok_dim {
        return format!("ok shape-mismatch {:?} {}", dense.dim(), vocab.len());
    }
    let rows: Vec<Vec<f64>> = (0..dense.nrows()).map(|d| cols.iter().map(|j| dense[(d, *j)]).collect()).collect();
    format!(
        "ok n={} size={} vocab={} tfidf={} sp={} {}",
        sv.len(),
        show_size(nentries, mask, cap),
        show_vocab(&sv),
        list2(rows.iter().map(|r| r.iter()), |c| format!("~{}", hex64c(*c))),
        stored_cells(cs, &cols, |c| format!("~{}", hex64c(c))),
        show_margin(mask.is_some())
    )
}

fn err_kind(e: &linfa_preprocessing::PreprocessingError) -> String {
    let s = format!("{:?}", e);
    s.split(|c: char| !c.is_alphanumeric()).next().unwrap_or("").to_string()
}

struct Corpus {
    fit: Vec<String>,
    tr: Vec<String>,
}

fn gen_corpus(rng: &mut Rng, max_docs: usize, maxw: usize) -> Corpus {
    let mut alpha: Vec<&str> = POOL.to_vec();
    rng.shuffle(&mut alpha);
    let k = 2 + rng.below(5);
    let alpha = &alpha[..k];
    let n = if rng.chance(1, 25) { 0 } else { 1 + rng.below(max_docs) };
    let fit: Vec<String> = (0..n).map(|_| gen_doc(rng, alpha, maxw, false)).collect();
    let unseen: Vec<String> = (0..rng.below(4)).map(|_| gen_doc(rng, alpha, maxw, true)).collect();
    let tr = match rng.below(4) {
        0 => fit.clone(),
        1 => unseen,
        _ => {
            let mut t = fit.clone();
            t.extend(unseen);
            t
        }
    };
    Corpus { fit, tr }
}

/// many documents over a synthetic alphabet with a skewed word distribution: document frequencies
/// spread over the whole range, many entries share a frequency (ties at any cap)
fn gen_large(rng: &mut Rng, n: usize) -> Corpus {
    let w = 4 + rng.below(40);
    let mut words: Vec<String> = (0..w).map(|i| format!("w{:02}", i)).collect();
    words.push("Two".into());
    words.push("caf\u{e9}".into());
    let pick = |rng: &mut Rng| -> String {
        let u = rng.unit();
        words[((u * u) * words.len() as f64) as usize % words.len()].clone()
    };
    let mut doc = |rng: &mut Rng| -> String {
        let k = rng.below(6);
        (0..k).map(|_| pick(rng)).collect::<Vec<_>>().join(" ")
    };
    let fit: Vec<String> = (0..n).map(|_| doc(rng)).collect();
    let many = if rng.chance(1, 4) { 11 + rng.below(30) } else { rng.below(4) };
    let mut tr: Vec<String> = (0..many).map(|_| rng.pick(&fit).clone()).collect();
    for _ in 0..rng.below(4) {
        tr.push(format!("{} zebra {}", doc(rng), doc(rng)));
    }
    Corpus { fit, tr }
}

/// stop words / cap chosen with knowledge of the corpus, so that they bite
fn add_stop_cap(rng: &mut Rng, cfg: &mut Cfg, fit_toks: &[Vec<String>]) {
    let mut grams: BTreeSet<String> = BTreeSet::new();
    let mut unis: BTreeSet<String> = BTreeSet::new();
    for d in fit_toks {
        grams.extend(naive_grams(d, cfg.nmin.max(1), cfg.nmax.max(cfg.nmin.max(1))));
        unis.extend(d.iter().cloned());
    }
    let grams: Vec<String> = grams.into_iter().collect();
    let unis: Vec<String> = unis.into_iter().collect();
    if rng.chance(1, 2) {
        let mut s = vec![];
        for _ in 0..rng.below(4) {
            match rng.below(6) {
                0..=2 if !grams.is_empty() => s.push(rng.pick(&grams).clone()),
                3 if !unis.is_empty() => s.push(rng.pick(&unis).clone()),
                // ASCII letters upper-cased (stays inside the alphabet of the reference tables)
                4 if !unis.is_empty() => s.push(rng.pick(&unis).to_ascii_uppercase()),
                _ => s.push(rng.pick(OOV).to_string()),
            }
        }
        cfg.stop = Some(s);
    }
    if rng.chance(2, 5) {
        cfg.cap = Some(if grams.len() > 12 && rng.coin() { rng.below(12) } else { rng.below(grams.len() + 2) });
    }
}

fn has_big_gram(vocab: &[String]) -> bool {
    vocab.iter().any(|w| w.matches(' ').count() >= 3)
}

/// settings with a NaN bound pass `check_ref` (every comparison with NaN is false) but are outside the
/// property's guard `0 <= lo <= hi <= 1`: whether they are refused or fitted is not promised, so the
/// request is oracle-only (`#`: the model is not asked)
fn unpromised_prefix(cfg: &Cfg) -> &'static str {
    if cfg.lo.is_nan() || cfg.hi.is_nan() { "#" } else { "" }
}
/// for the `reuse` form: the tokens the documents would have under the tokeniser the parameter object
/// was first built with (the model's parameter object decides which table the fit reads)
fn alt_tokens(cfg: &Cfg, corpus: &Corpus, ffit: &str) -> String {
    if ffit != "reuse" {
        return String::new();
    }
    let f: Vec<Vec<String>> = corpus.fit.iter().map(|d| ref_tokens_decoy(cfg, d)).collect();
    let t: Vec<Vec<String>> = corpus.tr.iter().map(|d| ref_tokens_decoy(cfg, d)).collect();
    format!(" tokfn={} fitalt={} tralt={}", (cfg.tok == 2) as u8, show_docs(&f), show_docs(&t))
}

fn op_count(em: &mut Em, cfg: &Cfg, corpus: &Corpus, ffit: &str, ftr: &str) {
    let fit_toks: Vec<Vec<String>> = corpus.fit.iter().map(|d| ref_tokens(cfg, d)).collect();
    let tr_toks: Vec<Vec<String>> = corpus.tr.iter().map(|d| ref_tokens(cfg, d)).collect();
    let op = format!("{}count fit={} tr={} {} ffit={} ftr={}{}", unpromised_prefix(cfg), show_docs(&fit_toks), show_docs(&tr_toks), cfg.settings(), ffit, ftr, alt_tokens(cfg, corpus, ffit));
    let mut extra: Vec<String> = vec![];
    let covered = cfg.covered();
    let class = format!("count:{}", cfg.class());
    let body = |ctx: &mut Ctx| {
        oracle_settings(ctx, cfg, &corpus.fit, &fit_toks);
        oracle_settings(ctx, cfg, &corpus.tr, &tr_toks);
        match fit_count(cfg, ffit, &corpus.fit) {
            Err(e) => {
                if covered {
                    ctx.fail("fit_succeeds", &class, format!("fit ({}) returned {:?} on valid settings", ffit, e));
                }
                extra.push(format!("errkind:{}", err_kind(&e)));
                "err".to_string()
            }
            Ok(cv) => {
                let vocab = cv.vocabulary().clone();
                let cs = transform_count(cfg, &cv, ftr, &corpus.tr).expect("transform");
                let dense: Array2<usize> = cs.to_dense();
                if covered {
                    oracle_vocab(ctx, &mut extra, cfg, &fit_toks, &vocab);
                    let naive = oracle_counts(ctx, cfg, "count", &tr_toks, &vocab, cv.nentries(), &dense);
                    oracle_sparse(ctx, &format!("count:ftr={}", ftr), &cs, &naive, Some(0usize));
                    if dense.iter().any(|c| *c > 12) {
                        extra.push("transformed:count:cell_above_12".into());
                    }
                    if corpus.tr.len() > 10 {
                        extra.push("transformed:count:more_than_10_docs".into());
                    }
                    extra.push(format!("fitted:count:ffit={}", ffit));
                    extra.push(format!("transformed:count:ftr={}", ftr));
                    if !vocab.is_empty() {
                        extra.push("fitted:count:nonempty_vocab".into());
                    }
                    if has_big_gram(&vocab) {
                        extra.push("fitted:ngram_of_4_or_more".into());
                    }
                    if corpus.fit.len() >= 30 {
                        extra.push("fitted:large_corpus".into());
                    }
                }
                let mask = unpromised(cfg, &fit_toks);
                if mask.as_ref().map_or(false, |m| !m.is_empty()) {
                    extra.push("unpromised_entries_masked".into());
                }
                resp_counts(cv.nentries(), &vocab, &cs, &dense, mask.as_ref(), cfg.cap.is_some())
            }
        }
    };
    if covered {
        em.case_valid(op, &class, body)
    } else {
        em.case(op, body)
    }
    for k in extra {
        em.count(&k);
    }
}

fn op_tfidf(em: &mut Em, cfg: &Cfg, method: &str, corpus: &Corpus, ffit: &str, ftr: &str) {
    let fit_toks: Vec<Vec<String>> = corpus.fit.iter().map(|d| ref_tokens(cfg, d)).collect();
    let tr_toks: Vec<Vec<String>> = corpus.tr.iter().map(|d| ref_tokens(cfg, d)).collect();
    let op = format!("{}tfidf fit={} tr={} {} method={} ffit={} ftr={}{}", unpromised_prefix(cfg), show_docs(&fit_toks), show_docs(&tr_toks), cfg.settings(), method, ffit, ftr, alt_tokens(cfg, corpus, ffit));
    let mut extra: Vec<String> = vec![];
    let covered = cfg.covered();
    let class = format!("tfidf:method={}:{}", method, cfg.class());
    let body = |ctx: &mut Ctx| {
        oracle_settings(ctx, cfg, &corpus.fit, &fit_toks);
        oracle_settings(ctx, cfg, &corpus.tr, &tr_toks);
        match fit_tfidf(cfg, method, ffit, &corpus.fit) {
            Err(e) => {
                if covered {
                    ctx.fail("fit_succeeds", &class, format!("fit ({}) returned {:?} on valid settings", ffit, e));
                }
                extra.push(format!("errkind:{}", err_kind(&e)));
                "err".to_string()
            }
            Ok(tv) => {
                let want_m = match method {
                    "smooth" => TfIdfMethod::Smooth,
                    "nonsmooth" => TfIdfMethod::NonSmooth,
                    _ => TfIdfMethod::Textbook,
                };
                ctx.require(*tv.method() == want_m, "method_kept", &class, || format!("fitted method {:?}", tv.method()));
                let vocab = tv.vocabulary().clone();
                let cs = transform_tfidf(cfg, &tv, ftr, &corpus.tr).expect("transform");
                let dense: Array2<f64> = cs.to_dense();
                if covered {
                    oracle_vocab(ctx, &mut extra, cfg, &fit_toks, &vocab);
                    if let Some(naive) = oracle_tfidf(ctx, cfg, method, "tfidf", &tr_toks, &vocab, tv.nentries(), &dense) {
                        oracle_sparse(ctx, &format!("tfidf:ftr={}", ftr), &cs, &naive, None);
                    }
                    extra.push(format!("fitted:tfidf:ffit={}", ffit));
                    extra.push(format!("transformed:tfidf:ftr={}", ftr));
                    extra.push(format!("transformed:tfidf:method={}", method));
                    if dense.iter().any(|x| *x != 0.0) {
                        extra.push("transformed:tfidf:nonzero_cell".into());
                    }
                }
                let mask = unpromised(cfg, &fit_toks);
                resp_tfidf(tv.nentries(), &vocab, &cs, &dense, mask.as_ref(), cfg.cap.is_some())
            }
        }
    };
    if covered {
        em.case_valid(op, &class, body)
    } else {
        em.case(op, body)
    }
    for k in extra {
        em.count(&k);
    }
}

/// `fit_vocabulary` through the element types `T: ToString` and the checked parameter set
fn fit_vocab_count(cfg: &Cfg, form: &str, words: &[String]) -> PResult<CountVectorizer> {
    match form {
        "strref" => cfg.count_params().fit_vocabulary(&words.iter().map(|s| s.as_str()).collect::<Vec<&str>>()),
        "display" => cfg.count_params().fit_vocabulary(&words.iter().map(|s| Doc(s.clone())).collect::<Vec<Doc>>()),
        "checked" => cfg.count_params().check()?.fit_vocabulary(words),
        _ => cfg.count_params().fit_vocabulary(words),
    }
}
fn fit_vocab_tfidf(cfg: &Cfg, m: &str, form: &str, words: &[String]) -> PResult<FittedTfIdfVectorizer> {
    match form {
        "strref" => cfg.tfidf_params(m).fit_vocabulary(&words.iter().map(|s| s.as_str()).collect::<Vec<&str>>()),
        "display" => cfg.tfidf_params(m).fit_vocabulary(&words.iter().map(|s| Doc(s.clone())).collect::<Vec<Doc>>()),
        _ => cfg.tfidf_params(m).fit_vocabulary(words),
    }
}

fn op_fixed(em: &mut Em, cfg: &Cfg, method: Option<&str>, words: &[String], tr_docs: &[String], fvoc: &str, ftr: &str) {
    let tr_toks: Vec<Vec<String>> = tr_docs.iter().map(|d| ref_tokens(cfg, d)).collect();
    let name = if method.is_some() { "fixed_tfidf" } else { "fixed" };
    let mut op = format!("{}{} vocab={} tr={} nmin={} nmax={} lo={} hi={} fvoc={} ftr={}", unpromised_prefix(cfg), name, list(words.iter(), |w| xw(w)), show_docs(&tr_toks), cfg.nmin, cfg.nmax, hex32(cfg.lo), hex32(cfg.hi), fvoc, ftr);
    if let Some(m) = method {
        op.push_str(&format!(" method={}", m));
    }
    let covered = cfg.covered();
    let class = format!("{}:{}", name, cfg.class());
    let mut extra: Vec<String> = vec![];
    let body = |ctx: &mut Ctx| {
        oracle_settings(ctx, cfg, tr_docs, &tr_toks);
        let wset: BTreeSet<&String> = words.iter().collect();
        match method {
            None => match fit_vocab_count(cfg, fvoc, words) {
                Err(e) => {
                    if covered {
                        ctx.fail("fit_succeeds", &class, format!("fit_vocabulary returned {:?} on valid settings", e));
                    }
                    "err".to_string()
                }
                Ok(cv) => {
                    let vocab = cv.vocabulary().clone();
                    let cs = transform_count(cfg, &cv, ftr, tr_docs).expect("transform");
                    let dense: Array2<usize> = cs.to_dense();
                    if covered {
                        let vset: BTreeSet<&String> = vocab.iter().collect();
                        ctx.require(vset == wset && vocab.len() == wset.len(), "fixed_vocab_is_given_set", &class, || format!("given {:?}, vocabulary() {:?}", words, vocab));
                        let naive = oracle_counts(ctx, cfg, "fixed", &tr_toks, &vocab, cv.nentries(), &dense);
                        oracle_sparse(ctx, &format!("fixed:ftr={}", ftr), &cs, &naive, Some(0usize));
                        extra.push(format!("transformed:fixed:ftr={}", ftr));
                        extra.push(format!("fitted:fixed:fvoc={}", fvoc));
                    }
                    resp_counts(cv.nentries(), &vocab, &cs, &dense, Some(&BTreeSet::new()), false)
                }
            },
            Some(m) => match fit_vocab_tfidf(cfg, m, fvoc, words) {
                Err(e) => {
                    if covered {
                        ctx.fail("fit_succeeds", &class, format!("fit_vocabulary returned {:?} on valid settings", e));
                    }
                    "err".to_string()
                }
                Ok(tv) => {
                    let vocab = tv.vocabulary().clone();
                    let cs = transform_tfidf(cfg, &tv, ftr, tr_docs).expect("transform");
                    let dense: Array2<f64> = cs.to_dense();
                    if covered {
                        let vset: BTreeSet<&String> = vocab.iter().collect();
                        ctx.require(vset == wset && vocab.len() == wset.len(), "fixed_vocab_is_given_set", &class, || format!("given {:?}, vocabulary() {:?}", words, vocab));
                        if let Some(naive) = oracle_tfidf(ctx, cfg, m, "fixed", &tr_toks, &vocab, tv.nentries(), &dense) {
                            oracle_sparse(ctx, &format!("fixed_tfidf:ftr={}", ftr), &cs, &naive, None);
                        }
                        extra.push(format!("transformed:fixed_tfidf:ftr={}", ftr));
                        extra.push(format!("fitted:fixed_tfidf:fvoc={}", fvoc));
                    }
                    resp_tfidf(tv.nentries(), &vocab, &cs, &dense, Some(&BTreeSet::new()), false)
                }
            },
        }
    };
    if covered {
        em.case_valid(op, &class, body)
    } else {
        em.case(op, body)
    }
    for k in extra {
        em.count(&k);
    }
}

fn op_ngrams(em: &mut Em, words: &[String], nmin: usize, nmax: usize) {
    let op = format!("ngrams words={} nmin={} nmax={}", list(words.iter(), |w| xw(w)), nmin, nmax);
    let class = format!("ngrams:{},{}", nmin, nmax);
    em.case_valid(op, &class, |ctx| {
        let got = hk::ngram_list(words.iter().map(|s| s.as_str()).collect(), (nmin, nmax));
        let mut flat: Vec<String> = got.iter().flatten().cloned().collect();
        let mut want = naive_grams(words, nmin, nmax);
        flat.sort();
        want.sort();
        ctx.require(flat == want, "ngrams_are_windows", &class, || format!("words {:?}: NGramList yields {:?}, the windows are {:?}", words, got, want));
        format!("ok {}", list2(got.iter().map(|r| r.iter()), |w| xw(w)))
    });
}

/// `transform_string` on one document against the reference tables (and the model's `transformString`)
fn op_tstring(em: &mut Em, lower: bool, norm: bool, raw: &str) {
    let nf = ref_nfkd(raw);
    let op = format!("tstring lower={} norm={} raw={} nfkd={} low={} lownfkd={}", lower as u8, norm as u8, xw(raw), xw(&nf), xw(&ref_lower(raw)), xw(&ref_lower(&nf)));
    let class = format!("tstring:lower={}:norm={}", lower, norm);
    let cfg = Cfg { lower, norm, tok: 0, nmin: 1, nmax: 1, lo: 0.0, hi: 1.0, stop: None, cap: None };
    em.case_valid(op, &class, |ctx| {
        let got = hk::transformed(&cfg.tokenizer_params(), raw);
        let want = ref_transform(lower, norm, raw);
        ctx.require(got == want, "settings_honoured", &class, || format!("transform_string({:?}) = {:?}, lowercase={} normalize={} mean {:?}", raw, got, lower, norm, want));
        format!("ok {}", xw(&got))
    });
    em.count("tstring");
}

fn idf_method_name(i: usize) -> &'static str {
    ["smooth", "nonsmooth", "textbook"][i % 3]
}

fn pick_forms(rng: &mut Rng, fit_forms: &[&'static str]) -> (&'static str, &'static str) {
    if rng.coin() {
        ("owned", "owned")
    } else {
        (*rng.pick(fit_forms), *rng.pick(TR_FORMS))
    }
}

pub fn run(em: &mut Em, rng: &mut Rng) {
    let deep = em.thorough();
    // ---- fixed witnesses / boundary cases first
    {
        // truncation of the minimum document frequency: 3 documents, min_df = 0.5
        let corpus = Corpus { fit: vec!["one two".into(), "two three".into(), "two four".into()], tr: vec!["one two two".into()] };
        let cfg = Cfg { lower: true, norm: true, tok: 0, nmin: 1, nmax: 1, lo: 0.5, hi: 1.0, stop: None, cap: None };
        op_count(em, &cfg, &corpus, "owned", "owned");
        // stop words are whole entries: the bigram survives its parts
        let cfg = Cfg { lower: true, norm: true, tok: 0, nmin: 1, nmax: 2, lo: 0.0, hi: 1.0, stop: Some(vec!["two".into(), "two three".into()]), cap: None };
        op_count(em, &cfg, &corpus, "owned", "owned");
        // cap with a frequency tie at the cut
        let cfg = Cfg { lower: true, norm: true, tok: 0, nmin: 1, nmax: 1, lo: 0.0, hi: 1.0, stop: None, cap: Some(2) };
        op_count(em, &cfg, &corpus, "owned", "owned");
        // a proper document-frequency window through every calling form (files included: the
        // window is computed from the number of files)
        let cfg = Cfg { lower: true, norm: true, tok: 0, nmin: 1, nmax: 2, lo: 0.5, hi: 0.75, stop: None, cap: None };
        let corpus4 = Corpus { fit: vec!["one two".into(), "two three".into(), "two four one".into(), "four".into()], tr: vec!["one two two".into(), "".into(), "four one".into()] };
        for f in FIT_FORMS {
            for t in TR_FORMS {
                op_count(em, &cfg, &corpus4, f, t);
            }
        }
        for f in TFIDF_FIT_FORMS {
            for t in TR_FORMS {
                op_tfidf(em, &cfg, "smooth", &corpus4, f, t);
            }
        }
        // a Latin-1 corpus through ISO-8859-1 files
        let corpus_l1 = Corpus { fit: vec!["caf\u{e9} CAF\u{c9} na\u{ef}ve".into(), "caf\u{e9} two".into(), "\u{e5}ng two two".into()], tr: vec!["na\u{ef}ve caf\u{e9} zebra".into(), "".into()] };
        for tok in 0..4u8 {
            let cfg = Cfg { lower: true, norm: tok % 2 == 0, tok, nmin: 1, nmax: 2, lo: 0.0, hi: 1.0, stop: None, cap: None };
            op_count(em, &cfg, &corpus_l1, "fileslatin1", "fileslatin1");
            op_tfidf(em, &cfg, "smooth", &corpus_l1, "fileslatin1", "fileslatin1");
        }
        // the same parameter object configured and fitted twice / the same fitted object transforming twice
        for tok in 0..4u8 {
            let cfg = Cfg { lower: true, norm: true, tok, nmin: 1, nmax: 2, lo: 0.0, hi: 1.0, stop: None, cap: None };
            op_count(em, &cfg, &corpus4, "reuse", "twice");
            for m in 0..3 {
                op_tfidf(em, &cfg, idf_method_name(m), &corpus4, "reuse", "twice");
            }
        }
        // NFKD before lower-casing: compatibility characters that decompose to upper-case letters
        let corpus_tm = Corpus { fit: vec!["caf\u{2122} caftm CAFTM".into(), "\u{2116}7 no7 \u{1d2c}b ab Ab".into()], tr: vec!["caftm \u{2122} no7 ab".into()] };
        for (l, nm) in [(true, true), (true, false), (false, true), (false, false)] {
            for tok in 0..4u8 {
                let cfg = Cfg { lower: l, norm: nm, tok, nmin: 1, nmax: 1, lo: 0.0, hi: 1.0, stop: None, cap: None };
                op_count(em, &cfg, &corpus_tm, "owned", "owned");
            }
        }
        // ligature, combining accent, case
        let corpus = Corpus { fit: vec!["\u{fb01}sh FISH caf\u{e9} cafe\u{301}".into(), "CAF\u{c9} \u{130}st".into(), "".into()], tr: vec!["fish cafe\u{301} x".into(), "".into()] };
        for (l, nm) in [(true, true), (true, false), (false, true), (false, false)] {
            for tok in 0..4u8 {
                let cfg = Cfg { lower: l, norm: nm, tok, nmin: 1, nmax: 2, lo: 0.0, hi: 1.0, stop: None, cap: None };
                op_count(em, &cfg, &corpus, "owned", "owned");
                for m in 0..3 {
                    op_tfidf(em, &cfg, idf_method_name(m), &corpus, "owned", "owned");
                }
            }
        }
    }
    // ---- transform_string on every word of the alphabet and on whole documents, the four settings
    {
        let mut raws: Vec<String> = POOL.iter().chain(OOV.iter()).map(|s| s.to_string()).collect();
        raws.push("".into());
        raws.push("CAF\u{c9}; \u{fb01}sh \u{212b}ng, \u{130}st - na\u{ef}ve!Two".into());
        for _ in 0..(if deep { 60 } else { 12 }) {
            raws.push(gen_doc(rng, POOL, 6, true));
        }
        for raw in &raws {
            for (l, nm) in [(true, true), (true, false), (false, true), (false, false)] {
                op_tstring(em, l, nm, raw);
            }
        }
    }
    // ---- NGramList directly: all ranges 1<=min<=max<=6 on short word lists
    let pool: Vec<String> = ["a", "b", "c", "a b", ""].iter().map(|s| s.to_string()).collect();
    for len in 0..=(if deep { 10 } else { 8 }) {
        for nmin in 1..=7 {
            for nmax in nmin..=7 {
                for _ in 0..(if deep { 6 } else { 2 }) {
                    let words: Vec<String> = (0..len).map(|_| rng.pick(&pool).clone()).collect();
                    op_ngrams(em, &words, nmin, nmax);
                }
            }
        }
    }
    // ---- generated corpora × settings × calling forms
    let rounds = if deep { 60000 } else { 4500 };
    for r in 0..rounds {
        let long_docs = r % 8 == 0;
        let (max_docs, maxw) = if r % 16 == 5 {
            // 8..29 training documents (short ones)
            (29, 4)
        } else if deep && r % 4 == 0 {
            (12, if long_docs { 14 } else { 10 })
        } else {
            (7, if long_docs { 12 } else { 7 })
        };
        let mut corpus = gen_corpus(rng, max_docs, maxw);
        if r % 32 == 7 {
            // a cell count above 12: one word many times in one document (training and transformed)
            let w = *rng.pick(&["two", "Two", "caf\u{e9}", "fish"]);
            let k = 13 + rng.below(if deep { 300 } else { 40 });
            let d = vec![w; k].join(" ");
            corpus.fit.push(d.clone());
            corpus.tr.push(d);
        }
        let mut cfg = gen_cfg(rng, corpus.fit.len());
        if long_docs || rng.chance(1, 10) {
            let big = [(1, 4), (2, 4), (3, 4), (4, 4), (1, 5), (2, 5), (3, 5), (5, 5), (4, 5), (1, 6), (2, 6), (6, 6), (1, 7), (7, 7), (5, 8), (2, 9)];
            let (a, b) = *rng.pick(&big);
            cfg.nmin = a;
            cfg.nmax = b;
        }
        let fit_toks: Vec<Vec<String>> = corpus.fit.iter().map(|d| ref_tokens(&cfg, d)).collect();
        add_stop_cap(rng, &mut cfg, &fit_toks);
        em.count(&format!("ngram:{},{}", cfg.nmin, cfg.nmax));
        em.count(&format!("docs:{}", corpus.fit.len().min(8)));
        if cfg.stop.is_some() {
            em.count("stop:some");
        }
        if cfg.cap.is_some() {
            em.count("cap:some");
        }
        if cfg.lo > 0.0 || cfg.hi < 1.0 {
            em.count("df_window:proper");
        }
        match r % 3 {
            0 | 1 => {
                let (f, t) = pick_forms(rng, FIT_FORMS);
                op_count(em, &cfg, &corpus, f, t)
            }
            _ => {
                let m = idf_method_name(rng.below(3));
                em.count(&format!("method:{}", m));
                let (f, t) = pick_forms(rng, TFIDF_FIT_FORMS);
                op_tfidf(em, &cfg, m, &corpus, f, t)
            }
        }
        // fixed vocabulary on the same documents
        if r % 5 == 0 {
            let mut words: Vec<String> = vec![];
            let all: Vec<String> = fit_toks.iter().flat_map(|d| naive_grams(d, cfg.nmin, cfg.nmax)).collect();
            for _ in 0..rng.below(6) {
                if !all.is_empty() && rng.chance(3, 4) {
                    words.push(rng.pick(&all).clone());
                } else {
                    words.push(rng.pick(OOV).to_string());
                }
            }
            let m = if r % 10 == 0 { Some(idf_method_name(rng.below(3))) } else { None };
            let t = if rng.coin() { "owned" } else { *rng.pick(TR_FORMS) };
            let fv = if m.is_some() { *rng.pick(&["owned", "strref", "display"]) } else { *rng.pick(VOC_FORMS) };
            op_fixed(em, &cfg, m, &words, &corpus.tr, fv, t);
        }
    }
    // ---- many documents: the f32 product `bound * n` for n in the tens and hundreds, large
    //      vocabularies, caps through large groups of equal document frequency
    for r in 0..(if deep { 400 } else { 60 }) {
        let n = match r % 6 {
            0 => 30 + rng.below(40),
            1 | 2 => 70 + rng.below(130),
            3 => *rng.pick(&[100usize, 128, 200, 250, 256, 300]),
            4 => 200 + rng.below(if deep { 800 } else { 200 }),
            _ => 255 + rng.below(4),
        };
        let corpus = gen_large(rng, n);
        let mut cfg = gen_cfg(rng, n);
        let (a, b) = *rng.pick(&[(1, 1), (1, 1), (1, 2), (2, 2), (1, 3)]);
        cfg.nmin = a;
        cfg.nmax = b;
        let fit_toks: Vec<Vec<String>> = corpus.fit.iter().map(|d| ref_tokens(&cfg, d)).collect();
        add_stop_cap(rng, &mut cfg, &fit_toks);
        em.count("large");
        if cfg.lo > 0.0 || cfg.hi < 1.0 {
            em.count("large:df_window:proper");
        }
        if r % 4 == 3 {
            let m = idf_method_name(rng.below(3));
            let (f, t) = pick_forms(rng, TFIDF_FIT_FORMS);
            op_tfidf(em, &cfg, m, &corpus, f, t);
        } else {
            let (f, t) = pick_forms(rng, FIT_FORMS);
            op_count(em, &cfg, &corpus, f, t);
        }
    }
    // ---- malformed settings (error branches of the parameter check; outside the property: only
    //      "the fit is refused" is compared, the kinds are counted)
    for _ in 0..(if deep { 400 } else { 60 }) {
        let corpus = gen_corpus(rng, 4, 4);
        let mut cfg = gen_cfg(rng, corpus.fit.len());
        match rng.below(7) {
            0 => cfg.nmin = 0,
            1 => {
                cfg.nmin = 0;
                cfg.nmax = 0
            }
            2 => {
                cfg.nmin = 3;
                cfg.nmax = 2
            }
            3 => cfg.lo = -0.25,
            4 => {
                cfg.lo = 0.75;
                cfg.hi = 0.25
            }
            5 => cfg.hi = f32::NAN,
            _ => {
                cfg.lo = 0.5;
                cfg.hi = 1.5
            }
        }
        em.count("malformed");
        let (f, t) = pick_forms(rng, FIT_FORMS);
        // a NaN bound cannot travel through JSON: no serde round trip outside the guard
        let t = if t == "serde" { "view" } else { t };
        op_count(em, &cfg, &corpus, f, t);
    }
    if let Some(d) = FILE_DIR.get() {
        let _ = std::fs::remove_dir_all(d);
    }
}
