import LinfaSpec.Proofs.Determinism

namespace LinfaSpec.Determinism
open List

theorem eq_of_map_eq {α β} (g : α → β) {l : List α} (hnd : (l.map g).Nodup) {a b : α}
    (ha : a ∈ l) (hb : b ∈ l) (h : g a = g b) : a = b := by
  induction l with
  | nil => simp at ha
  | cons c cs ih =>
    rw [List.map_cons, List.nodup_cons] at hnd
    rcases List.mem_cons.mp ha with ha | ha <;> rcases List.mem_cons.mp hb with hb | hb
    · rw [ha, hb]
    · exfalso; apply hnd.1; rw [← ha, h]; exact List.mem_map_of_mem hb
    · exfalso; apply hnd.1; rw [← hb, ← h]; exact List.mem_map_of_mem ha
    · exact ih hnd.2 ha hb

/-! ### hierarchical clustering -/

/-- two clusters share no member -/
def Disj (a b : Nat × List Nat) : Prop := ∀ x, x ∈ a.2 → x ∈ b.2 → False

theorem Disj.symm {a b} (h : Disj a b) : Disj b a := fun x hb ha => h x ha hb

/-- invariant of the merge loop: clusters are non-empty and pairwise disjoint -/
def ClInv (cl : List (Nat × List Nat)) : Prop :=
  (∀ c ∈ cl, c.2 ≠ []) ∧ cl.Pairwise Disj

theorem removeKey_perm {id : Nat} {cl : List (Nat × List Nat)} {v rest}
    (h : removeKey id cl = some (v, rest)) : cl ~ (id, v) :: rest := by
  induction cl generalizing v rest with
  | nil => simp [removeKey] at h
  | cons e es ih =>
    unfold removeKey at h
    by_cases he : e.1 = id
    · rw [if_pos he] at h
      cases h
      rw [← he]
    · rw [if_neg he] at h
      cases hr : removeKey id es with
      | none => rw [hr] at h; simp at h
      | some p =>
        obtain ⟨v', rest'⟩ := p
        rw [hr] at h
        cases h
        exact (List.Perm.cons e (ih hr)).trans (List.Perm.swap _ _ _)

theorem ClInv.perm {a b : List (Nat × List Nat)} (p : a ~ b) (h : ClInv a) : ClInv b :=
  ⟨fun c hc => h.1 c (p.symm.subset hc), (p.pairwise_iff (fun hab => Disj.symm hab)).mp h.2⟩

theorem ClInv.merge {c1 c2 ct : Nat} {a b : List Nat} {rest : List (Nat × List Nat)}
    (h : ClInv ((c1, a) :: (c2, b) :: rest)) : ClInv (rest ++ [(ct, a ++ b)]) := by
  obtain ⟨hne, hpw⟩ := h
  rw [List.pairwise_cons, List.pairwise_cons] at hpw
  obtain ⟨ha, hb, hrest⟩ := hpw
  constructor
  · intro c hc
    rcases List.mem_append.mp hc with hc | hc
    · exact hne c (by simp [hc])
    · simp only [List.mem_singleton] at hc
      rw [hc]
      have : a ≠ [] := hne (c1, a) (by simp)
      simp [this]
  · rw [List.pairwise_append]
    refine ⟨hrest, by simp, ?_⟩
    intro x hx y hy
    simp only [List.mem_singleton] at hy
    rw [hy]
    intro z hzx hz
    rcases List.mem_append.mp hz with hz | hz
    · exact ha x (by simp [hx]) z hz hzx
    · exact hb x hx z hz hzx

theorem mergeLoop_inv {α} [LE α] [DecidableLE α] (stop : Stop α) (steps : List (Nat × Nat × α))
    (cl : List (Nat × List Nat)) (ct : Nat) (out) (hinv : ClInv cl)
    (h : mergeLoop stop steps cl ct = some out) : ClInv out := by
  induction steps generalizing cl ct with
  | nil => simp [mergeLoop] at h; rw [← h]; exact hinv
  | cons s ss ih =>
    obtain ⟨c1, c2, d⟩ := s
    unfold mergeLoop at h
    by_cases hs : shouldStop stop cl.length d = true
    · rw [if_pos hs] at h; cases h; exact hinv
    rw [if_neg hs] at h
    · cases h1 : removeKey c1 cl with
      | none => rw [h1] at h; simp at h
      | some p1 =>
        obtain ⟨a, cl1⟩ := p1
        rw [h1] at h
        simp only at h
        cases h2 : removeKey c2 cl1 with
        | none => rw [h2] at h; simp at h
        | some p2 =>
          obtain ⟨b, cl2⟩ := p2
          rw [h2] at h
          simp only at h
          have hp : cl ~ (c1, a) :: (c2, b) :: cl2 :=
            (removeKey_perm h1).trans (List.Perm.cons _ (removeKey_perm h2))
          exact ih _ _ (ClInv.merge (hinv.perm hp)) h

theorem singletons_inv (n : Nat) : ClInv ((List.range n).map fun i => (i, [i])) := by
  constructor
  · intro c hc
    simp only [List.mem_map, List.mem_range] at hc
    obtain ⟨i, _, rfl⟩ := hc
    simp
  · rw [List.pairwise_map]
    have : (List.range n).Pairwise (· ≠ ·) := List.nodup_range
    refine this.imp ?_
    intro i j hij x hx hy
    simp only [List.mem_singleton] at hx hy
    exact hij (hx.symm.trans hy)

theorem minKey_mem {ids : List Nat} (h : ids ≠ []) : ∃ m, m ∈ ids ∧ minKey ids = m + 1 := by
  unfold minKey
  cases hm : ids.min? with
  | none => simp [List.min?_eq_none_iff] at hm; exact absurd hm h
  | some m => exact ⟨m, List.min?_mem hm, rfl⟩

theorem ClInv.minKey_nodup {cl : List (Nat × List Nat)} (h : ClInv cl) :
    (cl.map fun c => minKey c.2).Nodup := by
  rw [List.Nodup, List.pairwise_map]
  refine List.Pairwise.imp_of_mem ?_ h.2
  intro a b ha hb hd heq
  obtain ⟨m, hm, hk⟩ := minKey_mem (h.1 a ha)
  obtain ⟨m', hm', hk'⟩ := minKey_mem (h.1 b hb)
  have : m = m' := by omega
  subst this
  exact hd m hm hm'

theorem hierLabels_perm {n : Nat} {c₁ c₂ : List (Nat × List Nat)} (p : c₁ ~ c₂)
    (hnd : (c₁.map fun c => minKey c.2).Nodup) : hierLabels n c₁ = hierLabels n c₂ := by
  unfold hierLabels
  have : c₁.mergeSort (fun a b => decide (minKey a.2 ≤ minKey b.2)) =
      c₂.mergeSort (fun a b => decide (minKey a.2 ≤ minKey b.2)) := by
    apply List.Perm.eq_of_pairwise (le := fun a b => decide (minKey a.2 ≤ minKey b.2))
    · intro a b ha hb hab hba
      have ha' : a ∈ c₁ := (List.mergeSort_perm c₁ _).subset ha
      have hb' : b ∈ c₁ := p.symm.subset ((List.mergeSort_perm c₂ _).subset hb)
      simp only [decide_eq_true_eq] at hab hba
      exact eq_of_map_eq (fun c => minKey c.2) hnd ha' hb' (by omega)
    · apply List.pairwise_mergeSort
      · intro a b c hab hbc; simp only [decide_eq_true_eq] at *; omega
      · intro a b; simp only [Bool.or_eq_true, decide_eq_true_eq]; omega
    · apply List.pairwise_mergeSort
      · intro a b c hab hbc; simp only [decide_eq_true_eq] at *; omega
      · intro a b; simp only [Bool.or_eq_true, decide_eq_true_eq]; omega
    · exact (List.mergeSort_perm c₁ _).trans (p.trans (List.mergeSort_perm c₂ _).symm)
  simp only [this]

end LinfaSpec.Determinism
