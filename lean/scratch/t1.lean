import LinfaSpec.Proofs.Determinism
import Mathlib.Data.Prod.Lex
import Mathlib.Order.MinMax

namespace LinfaSpec.Determinism
open List

section Modal
variable {κ ν : Type} [LinearOrder κ] [LinearOrder ν]

/-- the key the fold maximises: frequency first, then the *reversed* label order -/
def modalRank (e : κ × ν) : Lex (ν × κᵒᵈ) := toLex (e.2, OrderDual.toDual e.1)

theorem modalRank_injective : Function.Injective (modalRank (κ := κ) (ν := ν)) := by
  intro a b h
  have h' := toLex.injective h
  simp only [Prod.mk.injEq] at h'
  exact Prod.ext (OrderDual.toDual.injective h'.2) h'.1

theorem modal_keep_iff (b e : κ × ν) :
    (e.2 < b.2 ∨ (¬ b.2 < e.2 ∧ b.1 < e.1)) ↔ modalRank e < modalRank b := by
  unfold modalRank
  rw [Prod.Lex.toLex_lt_toLex]
  simp only [OrderDual.toDual_lt_toDual]
  constructor
  · rintro (h | ⟨h1, h2⟩)
    · exact Or.inl h
    · rcases lt_or_eq_of_le (not_lt.mp h1) with h | h
      · exact Or.inl h
      · exact Or.inr ⟨h, h2⟩
  · rintro (h | ⟨h1, h2⟩)
    · exact Or.inl h
    · exact Or.inr ⟨by rw [h1]; exact lt_irrefl _, h2⟩

theorem modalStep_some (b e : κ × ν) :
    modalStep (some b) e = some (if modalRank e < modalRank b then b else e) := by
  unfold modalStep
  simp only
  by_cases h : modalRank e < modalRank b
  · rw [if_pos ((modal_keep_iff b e).mpr h), if_pos h]
  · rw [if_neg (fun h' => h ((modal_keep_iff b e).mp h')), if_neg h]

theorem modalRank_pick (b e : κ × ν) :
    modalRank (if modalRank e < modalRank b then b else e) = max (modalRank b) (modalRank e) := by
  by_cases h : modalRank e < modalRank b
  · rw [if_pos h, max_eq_left h.le]
  · rw [if_neg h, max_eq_right (not_lt.mp h)]

end Modal
end LinfaSpec.Determinism
