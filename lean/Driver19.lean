import LinfaSpec.Drv.C19
import LinfaSpec.Drv.Loop

def main : IO Unit := LinfaSpec.Drv.run fun
  | "C19" :: rest => LinfaSpec.Drv.C19.handle rest
  | _ => "bad-op"
