import LinfaSpec.Drv.All
