import LinfaSpec.Drv.All
import LinfaSpec.Drv.Loop

/-- `drv`: every property whose model is hand-written.  Properties whose model is regenerated
from /repo's sources by a translator (C04, C19) have their own executables (`drv04`, `drv19`),
so that a source change which breaks a regenerated file can only break that property's driver. -/
def main : IO Unit := LinfaSpec.Drv.run LinfaSpec.Drv.dispatch
