import LinfaSpec.Drv.All

open LinfaSpec

partial def loop (h : IO.FS.Stream) (out : IO.FS.Stream) : IO Unit := do
  let line ← h.getLine
  if line.isEmpty then return ()
  let toks := (line.trimAscii.toString.splitOn " ").filter (· ≠ "")
  out.putStrLn (Drv.dispatch toks)
  loop h out

def main : IO Unit := do
  let i ← IO.getStdin
  let o ← IO.getStdout
  loop i o
  o.flush
