def hello := "world"
