import LinfaSpec.Model.Pca

namespace LinfaSpec.Props.C18
end LinfaSpec.Props.C18
