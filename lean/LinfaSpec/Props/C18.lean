import LinfaSpec.Proofs.Pca
import LinfaSpec.Proofs.PcaKyFan
import Mathlib.Tactic.FinCases
import Mathlib.Tactic.NormNum

/-!
# C18 — PCA returns the leading orthonormal principal axes with their true variances

Theorems about `LinfaSpec.Pca` (the model of `linfa_reduction::Pca`: guards, sigma floor, whitening
scale, `explained_variance(_ratio)`, `predict`, `inverse_transform`).  The truncated SVD itself is an
external solver (LOBPCG / dense Rayleigh-Ritz in `linfa-linalg`): it appears as the *certificate*
hypotheses `V Vᵀ = 1` (orthonormal rows) and `(XcᵀXc) Vᵀ = Vᵀ diag(σ²)` (right-singular vectors of the
centred data), which the oracle of the check evaluates on every fit against a dense Jacobi
eigen-decomposition.  Certificate ⇒ property is proved here for all matrices, all sizes, all `k`,
whitening on and off.  Not proved: that the certificate's eigenvalues are the *largest* ones
(oracle only), and nothing about IEEE rounding.
-/
namespace LinfaSpec.Props.C18
open LinfaSpec.Pca LinfaSpec.PcaMatrix LinfaSpec.PcaKyFan Matrix

/-- only for the `example`s below (`sqrt` is not used by them) -/
@[reducible] private def ratTransc : Transc Rat := ⟨fun x => x, fun x => x, fun x => x⟩
attribute [local instance] ratTransc

/-! ## guards: an empty dataset or an embedding size outside `1..p` is an error -/

/-- `fit` rejects exactly the inputs the statement names, before the solver is called, with the
error kinds in the order of the code -/
theorem fit_error_of_bad_input {α ε : Type} [Add α] [Sub α] [Mul α] [Div α] [LT α] [DecidableLT α]
    [OfNat α 0] [OfNat α 1] [NatCast α] [Transc α] (fl : α)
    (svd : List (List α) → Nat → Except ε (List α × List (List α))) (k p : Nat) (w : Bool)
    (lay : Layout) (X : List (List α)) :
    (X.length = 0 → fit fl svd k w lay p X = .error .notEnoughSamples) ∧
    (X.length ≠ 0 → (k = 0 ∨ p < k) → fit fl svd k w lay p X = .error (.embeddingTooSmall k)) := by
  constructor
  · intro h; simp [fit, Pca.guard, h]
  · intro h hk
    have : p < k ∨ k = 0 := hk.symm
    simp [fit, Pca.guard, h, this]

/-- conversely a fitted model exists only for `n ≥ 1` and `1 ≤ k ≤ p`, and then it is the SVD
output with floored singular values, the optional whitening scale, the column mean and `n` -/
theorem fit_ok_iff {α ε : Type} [Add α] [Sub α] [Mul α] [Div α] [LT α] [DecidableLT α]
    [OfNat α 0] [OfNat α 1] [NatCast α] [Transc α] (fl : α)
    (svd : List (List α) → Nat → Except ε (List α × List (List α))) (k p : Nat) (w : Bool)
    (lay : Layout) (X : List (List α)) (m : Model α) :
    fit fl svd k w lay p X = .ok m ↔
      (0 < X.length ∧ 1 ≤ k ∧ k ≤ p) ∧
      ∃ σ0 vt, svd (center X (colMeanL lay p X)) k = .ok (σ0, vt) ∧
        m = { embedding := if w then whiten X.length vt (floorSigma fl σ0) else vt,
              sigma := floorSigma fl σ0, mean := colMeanL lay p X, nSamples := X.length } := by
  unfold fit Pca.guard
  by_cases h0 : X.length = 0
  · simp [h0]
  · by_cases hk : p < k ∨ k = 0
    · simp only [h0, hk, if_false, if_true]
      constructor
      · intro h; cases h
      · rintro ⟨⟨_, h1, h2⟩, _⟩; omega
    · simp only [h0, hk, if_false]
      have hv : 0 < X.length ∧ 1 ≤ k ∧ k ≤ p := by omega
      cases hs : svd (center X (colMeanL lay p X)) k with
      | error e => simp
      | ok r =>
        obtain ⟨σ0, vt⟩ := r
        simp only [hv, true_and, Except.ok.injEq]
        constructor
        · intro h; exact ⟨σ0, vt, rfl, h.symm⟩
        · rintro ⟨a, b, hab, rfl⟩; cases hab; rfl

example : fit (α := Rat) (ε := String) 0 (fun _ _ => .ok ([2, 1], [[1, 0], [0, 1]])) 3 false .c 2
    [[1, 0], [-1, 0]] = Except.error (.embeddingTooSmall 3) := by simp [fit, Pca.guard]
example : fit (α := Rat) (ε := String) 0 (fun _ _ => .ok ([2, 1], [[1, 0], [0, 1]])) 1 false .f 2
    [] = Except.error .notEnoughSamples := by simp [fit, Pca.guard]

/-- the stored mean is the column mean whatever the memory layout of the records (the layouts
differ only in the order of the additions): entry `j` is `(Σ_i X_i[j]) / n` -/
theorem fit_mean_is_column_mean {α : Type} [Field α] (lay : Layout) (X : List (List α)) (n p : Nat)
    (hX : Shape X n p) :
    (colMeanL lay p X).length = p ∧
    ∀ j : Fin p, (colMeanL lay p X).getD j 0 = (∑ i : Fin n, (X.getD i []).getD j 0) / (n : α) := by
  rw [colMeanL_eq_colMean lay X n p hX]
  exact colMean_spec X n p hX

example : colMeanL (α := Rat) .f 2 [[1, 0], [3, 2]] = [2, 1] := by
  norm_num [colMeanL, ndSum, unrolled8, column, List.range, List.range.loop]

/-! ## the decomposition step `leading_svd`: dense below `5k`, leading pairs kept -/

/-- `leading_svd` asks the dense solver for all `min(n, p)` pairs exactly when `min(n, p) < 5k` and
keeps the leading `min(k, ·)` singular values and rows — at most `k`, the same number of each, in
the solver's (non-increasing) order; otherwise it is the LOBPCG call for `k` pairs, unchanged. -/
theorem leadingSvd_spec {α ε : Type} [LE α]
    (dense iter : List (List α) → Nat → Except ε (List α × List (List α))) (p : Nat)
    (x : List (List α)) (k : Nat) :
    (min x.length p < 5 * k → ∀ σ vt, dense x (min x.length p) = .ok (σ, vt) →
      leadingSvd dense iter p x k = .ok (σ.take (min k σ.length), vt.take (min k σ.length)) ∧
      (σ.take (min k σ.length)).length ≤ k ∧
      (vt.length = σ.length → (vt.take (min k σ.length)).length = (σ.take (min k σ.length)).length) ∧
      (σ.Pairwise (· ≥ ·) → (σ.take (min k σ.length)).Pairwise (· ≥ ·))) ∧
    (min x.length p < 5 * k → ∀ e, dense x (min x.length p) = .error e →
      leadingSvd dense iter p x k = .error e) ∧
    (¬ min x.length p < 5 * k → leadingSvd dense iter p x k = iter x k) := by
  refine ⟨?_, ?_, ?_⟩
  · intro h σ vt hd
    refine ⟨by simp [leadingSvd, h, hd], by simp, ?_, ?_⟩
    · intro hl; simp [hl]
    · intro hp; exact hp.sublist (List.take_sublist _ _)
  · intro h e hd; simp [leadingSvd, h, hd]
  · intro h; simp [leadingSvd, h]

example : leadingSvd (α := Rat) (ε := String) (fun _ _ => .ok ([3, 2, 1], [[1, 0, 0], [0, 1, 0], [0, 0, 1]]))
    (fun _ _ => .error "lobpcg") 3 [[1, 0, 0], [0, 1, 0], [0, 0, 1], [1, 1, 1]] 2
    = .ok ([3, 2], [[1, 0, 0], [0, 1, 0]]) := by
  simp [leadingSvd]

/-! ## singular values: floor and order -/

/-- after the floor every singular value is at least the floor (so `> 0`: the whitening scale and
the ratios never divide by zero) and the non-increasing order of the solver's output is kept -/
theorem floorSigma_spec {α : Type} [Field α] [LinearOrder α] [IsStrictOrderedRing α] (fl : α)
    (σ : List α) :
    (∀ s ∈ floorSigma fl σ, fl ≤ s) ∧
    (σ.Pairwise (· ≥ ·) → (floorSigma fl σ).Pairwise (· ≥ ·)) := by
  constructor
  · intro s hs
    simp only [floorSigma, List.mem_map] at hs
    obtain ⟨x, _, rfl⟩ := hs
    split <;> [exact le_refl _; exact not_lt.mp ‹_›]
  · intro h
    unfold floorSigma
    rw [List.pairwise_map]
    refine h.imp ?_
    intro a b hab
    show (if b < fl then fl else b) ≤ (if a < fl then fl else a)
    split <;> split <;> first | exact le_refl _ | (exact not_lt.mp ‹_›) | skip
    · exact absurd (lt_of_le_of_lt hab ‹a < fl›) ‹¬ b < fl›
    · exact hab

example : floorSigma (1/100 : Rat) [3, 1, 0] = [3, 1, 1/100] := by
  norm_num [floorSigma]

/-! ## `fit` through `leading_svd`: component count, floor, order -/

/-- **what `fit` returns through `leading_svd` in the dense regime** (`min(n,p) < 5k`): at most `k`
components, as many rows as singular values, every singular value at least the floor, and — when the
solver lists its values largest first — non-increasing singular values. -/
theorem fit_dense_components {α ε : Type} [Field α] [LinearOrder α] [IsStrictOrderedRing α]
    [Transc α] (fl : α) (dense iter : List (List α) → Nat → Except ε (List α × List (List α)))
    (k p : Nat) (w : Bool) (lay : Layout) (X : List (List α)) (m : Model α)
    (hreg : min X.length p < 5 * k)
    (hfit : fit fl (leadingSvd dense iter p) k w lay p X = .ok m) :
    ∃ σ vt, dense (center X (colMeanL lay p X)) (min X.length p) = .ok (σ, vt) ∧
      m.sigma.length ≤ k ∧
      (vt.length = σ.length → m.embedding.length = m.sigma.length) ∧
      (∀ s ∈ m.sigma, fl ≤ s) ∧
      (σ.Pairwise (· ≥ ·) → m.sigma.Pairwise (· ≥ ·)) := by
  unfold fit at hfit
  split at hfit
  · cases hfit
  · have hlen : (center X (colMeanL lay p X)).length = X.length := by simp [center]
    simp only [] at hfit
    cases hd : dense (center X (colMeanL lay p X)) (min X.length p) with
    | error e =>
      have := (leadingSvd_spec dense iter p (center X (colMeanL lay p X)) k).2.1
        (by rw [hlen]; exact hreg) e (by rw [hlen]; exact hd)
      rw [this] at hfit
      cases hfit
    | ok r =>
      obtain ⟨σ, vt⟩ := r
      obtain ⟨h1, h2, h3, h4⟩ := (leadingSvd_spec dense iter p (center X (colMeanL lay p X)) k).1
        (by rw [hlen]; exact hreg) σ vt (by rw [hlen]; exact hd)
      rw [h1] at hfit
      simp only [Except.ok.injEq] at hfit
      subst hfit
      refine ⟨σ, vt, rfl, ?_, ?_, ?_, ?_⟩
      · simp [floorSigma]
      · intro hl
        have := h3 hl
        simp only [List.length_take] at this
        cases w <;> simp [floorSigma, whiten, this]
      · exact (floorSigma_spec fl _).1
      · intro hp; exact (floorSigma_spec fl _).2 (h4 hp)

example : (fit (α := Rat) (ε := String) 0
      (leadingSvd (fun _ _ => .ok ([3, 2], [[1, 0], [0, 1]])) (fun _ _ => .error "lobpcg") 2)
      1 false .c 2 [[1, 0], [-1, 0], [0, 1]]).toOption.map (·.sigma) = some [3] := by
  simp [fit, Pca.guard, leadingSvd, floorSigma, Except.toOption]

/-! ## explained variance and its ratio -/

/-- ratios are proportional to the explained variances (same factor `1 / Σ ev` for all) -/
theorem ratio_proportional {α : Type} [Field α] (m : Model α) (i j : Nat) :
    (explainedVarianceRatio m).getD i 0 * (explainedVariance m).getD j 0
      = (explainedVarianceRatio m).getD j 0 * (explainedVariance m).getD i 0 := by
  have key : ∀ (l : List α) (s : α) (i : Nat), (l.map (· / s)).getD i 0 = l.getD i 0 / s := by
    intro l s i
    by_cases h : i < l.length
    · rw [getD_lt _ _ _ (by simpa using h), getD_lt _ _ _ h, List.getElem_map]
    · have h1 : l.length ≤ i := not_lt.mp h
      simp [List.getD_eq_getElem?_getD, List.getElem?_eq_none h1]
  unfold explainedVarianceRatio
  simp only [key]
  ring

/-- with at least two samples and positive singular values (the floor guarantees that) every
explained variance is positive, their sum is positive (so the ratios are well defined: "finite"),
every ratio is non-negative, and the ratios sum to one -/
theorem ratio_nonneg_sum_one {α : Type} [Field α] [LinearOrder α] [IsStrictOrderedRing α]
    (m : Model α) (hn : 2 ≤ m.nSamples) (hne : m.sigma ≠ []) (hpos : ∀ s ∈ m.sigma, 0 < s) :
    (∀ v ∈ explainedVariance m, 0 < v) ∧ 0 < (explainedVariance m).sum ∧
    (∀ r ∈ explainedVarianceRatio m, 0 ≤ r) ∧ (explainedVarianceRatio m).sum = 1 := by
  have hd : (0 : α) < (m.nSamples : α) - 1 := by
    have : (2 : α) ≤ (m.nSamples : α) := by exact_mod_cast hn
    linarith
  have hev : ∀ v ∈ explainedVariance m, 0 < v := by
    intro v hv
    simp only [explainedVariance, List.mem_map] at hv
    obtain ⟨s, hs, rfl⟩ := hv
    have := hpos s hs
    positivity
  have hsum : 0 < (explainedVariance m).sum := by
    have hne' : explainedVariance m ≠ [] := by simpa [explainedVariance] using hne
    cases hl : explainedVariance m with
    | nil => exact absurd hl hne'
    | cons a l =>
      rw [List.sum_cons]
      have ha : 0 < a := hev a (by simp [hl])
      have hl' : 0 ≤ l.sum := List.sum_nonneg fun x hx => le_of_lt (hev x (by simp [hl, hx]))
      linarith
  refine ⟨hev, hsum, ?_, ?_⟩
  · intro r hr
    simp only [explainedVarianceRatio, List.mem_map, sumS_eq_sum] at hr
    obtain ⟨v, hv, rfl⟩ := hr
    exact le_of_lt (div_pos (hev v hv) hsum)
  · unfold explainedVarianceRatio
    simp only [sumS_eq_sum]
    have : ∀ (l : List α) (s : α), (l.map (· / s)).sum = l.sum / s := by
      intro l s
      induction l with
      | nil => simp
      | cons a l ih => simp [List.sum_cons, ih, add_div]
    rw [this, div_self (ne_of_gt hsum)]

example : explainedVarianceRatio (⟨[[1, 0], [0, 1]], [2, 1], [0, 0], 5⟩ : Model Rat) = [4/5, 1/5] := by
  norm_num [explainedVarianceRatio, explainedVariance, sumS]

/-! ## transform followed by inverse transform -/

theorem transform_shape {α : Type} [Field α] (m : Model α) (X : List (List α)) (n k : Nat)
    (hX : X.length = n) (hW : m.embedding.length = k) : Shape (transform m X) n k := by
  refine ⟨by simp [transform, hX], ?_⟩
  intro z hz
  simp only [transform, List.mem_map] at hz
  obtain ⟨x, _, rfl⟩ := hz
  simp [hW]

/-- **`inverse_transform ∘ predict` is the orthogonal projection onto the component subspace about
the mean**, `x ↦ mean + (x - mean) VᵀV`, whenever the embedding rows are orthonormal directions `V`
times non-zero factors `d` — `d = 1` without whitening, `d i = sqrt(n-1)/sigma_i` with whitening
(`whitened_embedding` below).  `VᵀV` is idempotent and symmetric (`projection_idempotent_symmetric`). -/
theorem inverse_transform_is_projection {α : Type} [Field α] (m : Model α) (X : List (List α))
    (n k p : Nat) (hX : Shape X n p) (hW : Shape m.embedding k p) (hμ : m.mean.length = p)
    (V : Matrix (Fin k) (Fin p) α) (d : Fin k → α) (hV : V * Vᵀ = 1) (hd : ∀ i, d i ≠ 0)
    (hemb : toM m.embedding k p = diagonal d * V) :
    toM (inverseTransform m (transform m X)) n p
      = (toM X n p - rowConst n (toV m.mean p)) * (Vᵀ * V) + rowConst n (toV m.mean p) := by
  rw [inverseTransform_toM m _ n k p (transform_shape m X n k hX.1 hW.1) hW hμ,
    transform_toM m X n k p hX hW hμ, hemb]
  exact inverse_transform_eq V d hV hd _ _

theorem projection_idempotent_symmetric {α : Type} [Field α] {k p : Nat}
    (V : Matrix (Fin k) (Fin p) α) (hV : V * Vᵀ = 1) :
    (Vᵀ * V) * (Vᵀ * V) = Vᵀ * V ∧ (Vᵀ * V)ᵀ = Vᵀ * V :=
  ⟨proj_idem V hV, proj_symm V⟩

/-- … and it is the identity when all components are kept (`k = p`) -/
theorem inverse_transform_identity_full {α : Type} [Field α] (m : Model α) (X : List (List α))
    (n p : Nat) (hX : Shape X n p) (hW : Shape m.embedding p p) (hμ : m.mean.length = p)
    (V : Matrix (Fin p) (Fin p) α) (d : Fin p → α) (hV : V * Vᵀ = 1) (hd : ∀ i, d i ≠ 0)
    (hemb : toM m.embedding p p = diagonal d * V) :
    toM (inverseTransform m (transform m X)) n p = toM X n p := by
  rw [inverse_transform_is_projection m X n p p hX hW hμ V d hV hd hemb,
    full_proj_eq_one V hV, Matrix.mul_one, sub_add_cancel]

/-- the embedding `fit` stores with whitening on is `diag(sqrt(n-1)/sigma_i) · V` -/
theorem whitened_embedding {α : Type} [Field α] [Transc α] (nS : Nat) (V : List (List α))
    (σ : List α) (k p : Nat) (hV : Shape V k p) (hσ : σ.length = k) :
    Shape (whiten nS V σ) k p ∧
    toM (whiten nS V σ) k p
      = diagonal (fun i : Fin k => Transc.sqrt ((nS : α) - 1) / σ.getD i 0) * toM V k p :=
  whiten_spec nS V σ k p hV hσ

example : toM (α := Rat) [[1, 0], [0, 1]] 2 2 * (toM (α := Rat) [[1, 0], [0, 1]] 2 2)ᵀ = 1 := by
  ext i j; fin_cases i <;> fin_cases j <;> simp [toM, Matrix.mul_apply, Fin.sum_univ_two]

/-! ## projected training data: uncorrelated, variances = explained variances; whitening -/

/-- **eigen-certificate ⇒ uncorrelated coordinates with the reported variances.**  `Xc` = centred
training data, `V` = un-whitened components with `V Vᵀ = 1`, and the solver's certificate
`(XcᵀXc) Vᵀ = Vᵀ diag(σ_i²)`.  Then the scatter of the projected data `Z = predict(X)` divided by
`n - 1` is the diagonal matrix of `explained_variance()`: off-diagonal covariances are zero and the
`i`-th sample variance is `σ_i²/(n-1)`. -/
theorem projected_cov_is_explained_variance {α : Type} [Field α] (m : Model α) (X : List (List α))
    (n k p : Nat) (hX : Shape X n p) (hW : Shape m.embedding k p) (hμ : m.mean.length = p)
    (hσ : m.sigma.length = k) (hV : toM m.embedding k p * (toM m.embedding k p)ᵀ = 1)
    (hc : ((toM X n p - rowConst n (toV m.mean p))ᵀ * (toM X n p - rowConst n (toV m.mean p)))
            * (toM m.embedding k p)ᵀ
          = (toM m.embedding k p)ᵀ * diagonal fun i : Fin k => m.sigma.getD i 0 * m.sigma.getD i 0) :
    (((m.nSamples : α) - 1)⁻¹) • ((toM (transform m X) n k)ᵀ * toM (transform m X) n k)
      = diagonal fun i : Fin k => (explainedVariance m).getD i 0 := by
  rw [transform_toM m X n k p hX hW hμ]
  unfold transformM
  rw [projected_scatter_diag _ _ _ hV hc]
  ext i j
  by_cases hij : i = j
  · subst hij
    have hi : (i : Nat) < m.sigma.length := by omega
    have e : (explainedVariance m).getD i 0
        = m.sigma[(i : Nat)] * m.sigma[(i : Nat)] / ((m.nSamples : α) - 1) := by
      unfold explainedVariance
      rw [getD_lt _ _ _ (by simpa using hi), List.getElem_map]
    simp only [Matrix.smul_apply, Matrix.diagonal_apply_eq, smul_eq_mul]
    rw [e, getD_lt _ _ _ hi, div_eq_mul_inv, mul_comm]
  · simp [Matrix.diagonal_apply_ne _ hij]

/-- **with whitening the projected training data has identity covariance.**  Embedding =
`diag(c/σ_i) · V` (what `whiten` builds, `whitened_embedding`), `c² = n - 1` (`c = sqrt(n-1)`),
`σ_i ≠ 0` (the floor), same certificate for `V`: scatter of the projection / (n-1) = 1. -/
theorem whitened_cov_identity {α : Type} [Field α] (m : Model α) (X : List (List α))
    (n k p : Nat) (hX : Shape X n p) (hW : Shape m.embedding k p) (hμ : m.mean.length = p)
    (V : Matrix (Fin k) (Fin p) α) (s : Fin k → α) (c : α) (hc2 : c * c = (m.nSamples : α) - 1)
    (hn : (m.nSamples : α) - 1 ≠ 0) (hs : ∀ i, s i ≠ 0)
    (hemb : toM m.embedding k p = diagonal (fun i => c / s i) * V) (hV : V * Vᵀ = 1)
    (hc : ((toM X n p - rowConst n (toV m.mean p))ᵀ * (toM X n p - rowConst n (toV m.mean p))) * Vᵀ
          = Vᵀ * diagonal fun i : Fin k => s i * s i) :
    (((m.nSamples : α) - 1)⁻¹) • ((toM (transform m X) n k)ᵀ * toM (transform m X) n k) = 1 := by
  rw [transform_toM m X n k p hX hW hμ, hemb]
  unfold transformM
  rw [whitened_scatter_diag V _ _ _ hV hc]
  ext i j
  by_cases hij : i = j
  · subst hij
    have := hs i
    simp only [Matrix.smul_apply, Matrix.diagonal_apply_eq, smul_eq_mul, Matrix.one_apply_eq]
    rw [← hc2] at hn ⊢
    have hc0 : c ≠ 0 := fun h => hn (by rw [h, mul_zero])
    field_simp
  · simp [Matrix.diagonal_apply_ne _ hij, Matrix.one_apply_ne hij]

/-- non-vacuity of the certificate hypotheses: four centred points on the axes, `V = I`,
`σ² = (2, 2)` -/
example : let X : Matrix (Fin 4) (Fin 2) Rat := toM [[1, 0], [-1, 0], [0, 1], [0, -1]] 4 2
    (Xᵀ * X) * (1 : Matrix (Fin 2) (Fin 2) Rat)ᵀ = (1 : Matrix (Fin 2) (Fin 2) Rat)ᵀ * diagonal fun _ => 2 := by
  intro X
  ext i j
  fin_cases i <;> fin_cases j <;>
    simp [X, toM, Matrix.mul_apply, Fin.sum_univ_four, Matrix.diagonal, Matrix.one_apply] <;> norm_num

/-! ## the projected training data is centred; optimality (Ky Fan); leading rows; calling forms -/

/-- **the projected training data is centred** (so the scatter `ZᵀZ` used above is `(n-1)` times its
sample covariance): the mean `fit` stores is the column mean in every layout, hence every coordinate
of `predict(X)` sums to zero over the training rows. -/
theorem projected_training_data_centred {α : Type} [Field α] (m : Model α) (lay : Layout)
    (X : List (List α)) (n k p : Nat) (hX : Shape X n p) (hW : Shape m.embedding k p)
    (hmean : m.mean = colMeanL lay p X) (hn : (n : α) ≠ 0) (j : Fin k) :
    ∑ i : Fin n, toM (transform m X) n k i j = 0 := by
  rw [colMeanL_eq_colMean lay X n p hX] at hmean
  exact transform_colsum_zero m X n k p hX hW hmean hn j

example : transform (⟨[[1, 0]], [2], colMeanL .c 2 [[1, 0], [3, 2]], 2⟩ : Model Rat) [[1, 0], [3, 2]]
    = [[-1], [1]] := by
  norm_num [transform, colMeanL, colMean, vadd, vsub, dotS, sumS, List.zipWith, List.replicate,
    List.foldl]

/-- **no `k`-dimensional orthogonal projection retains more variance.**  `S = XcᵀXc` is the scatter of
the centred training data with a full eigen-decomposition `S = Uᵀ diag(lam) U` (`U` orthogonal, `lam`
non-increasing); the fitted components `W` (un-whitened) carry the certificate `W Wᵀ = 1`,
`S Wᵀ = Wᵀ diag(σ²)` and their `σ_i²` are the `k` LEADING eigenvalues.  Then for every `Q` with `k`
orthonormal rows the scatter retained by projecting on `Q` is at most the scatter of
`predict(X)`: `tr((Xc Qᵀ)ᵀ(Xc Qᵀ)) ≤ tr(ZᵀZ)` (divide by `n-1` for variances). -/
theorem no_projection_retains_more {α : Type} [Field α] [LinearOrder α] [IsStrictOrderedRing α]
    (m : Model α) (X : List (List α)) (n k p : Nat) (hX : Shape X n p)
    (hW : Shape m.embedding k p) (hμ : m.mean.length = p) (hk : k ≤ p)
    (U : Matrix (Fin p) (Fin p) α) (lam : Fin p → α) (hU : U * Uᵀ = 1)
    (hS : (toM X n p - rowConst n (toV m.mean p))ᵀ * (toM X n p - rowConst n (toV m.mean p))
          = Uᵀ * diagonal lam * U)
    (hmono : ∀ i j : Fin p, i ≤ j → lam j ≤ lam i)
    (hlead : ∀ i : Fin k, m.sigma.getD i 0 * m.sigma.getD i 0 = lam (Fin.castLE hk i))
    (hV : toM m.embedding k p * (toM m.embedding k p)ᵀ = 1)
    (hc : ((toM X n p - rowConst n (toV m.mean p))ᵀ * (toM X n p - rowConst n (toV m.mean p)))
            * (toM m.embedding k p)ᵀ
          = (toM m.embedding k p)ᵀ * diagonal fun i : Fin k => m.sigma.getD i 0 * m.sigma.getD i 0)
    (Q : Matrix (Fin k) (Fin p) α) (hQ : Q * Qᵀ = 1) :
    trace (((toM X n p - rowConst n (toV m.mean p)) * Qᵀ)ᵀ
            * ((toM X n p - rowConst n (toV m.mean p)) * Qᵀ))
      ≤ trace ((toM (transform m X) n k)ᵀ * toM (transform m X) n k) := by
  rw [transform_toM m X n k p hX hW hμ]
  unfold transformM
  rw [projected_scatter_diag _ _ _ hV hc, Matrix.trace_diagonal]
  have e : ((toM X n p - rowConst n (toV m.mean p)) * Qᵀ)ᵀ
        * ((toM X n p - rowConst n (toV m.mean p)) * Qᵀ)
      = Q * ((toM X n p - rowConst n (toV m.mean p))ᵀ
          * (toM X n p - rowConst n (toV m.mean p))) * Qᵀ := by
    rw [Matrix.transpose_mul, Matrix.transpose_transpose]
    simp only [Matrix.mul_assoc]
  rw [e]
  calc trace (Q * _ * Qᵀ) ≤ ∑ i : Fin k, lam (Fin.castLE hk i) :=
        ky_fan _ U lam hU hS hmono hk Q hQ
    _ = ∑ i : Fin k, m.sigma.getD i 0 * m.sigma.getD i 0 :=
        Finset.sum_congr rfl fun i _ => (hlead i).symm

/-- **… also when the solver returned fewer than the `k` requested pairs** (its cut-off drops the
pairs whose variance is below 2.2e-10 of the largest): `r ≤ k` components carrying the `r` leading
eigenvalues.  Every projection on `k` orthonormal directions `Q` — `k` the REQUESTED embedding size,
not the number of returned rows — retains at most what `predict(X)` retains plus the eigenvalues
`lam_r … lam_{k-1}` of the dropped directions (zero when the dropped pairs have zero variance, e.g.
exactly rank-deficient records). -/
theorem no_projection_retains_more_dropped {α : Type} [Field α] [LinearOrder α]
    [IsStrictOrderedRing α] (m : Model α) (X : List (List α)) (n r k p : Nat) (hX : Shape X n p)
    (hW : Shape m.embedding r p) (hμ : m.mean.length = p) (hr : r ≤ k) (hk : k ≤ p)
    (U : Matrix (Fin p) (Fin p) α) (lam : Fin p → α) (hU : U * Uᵀ = 1)
    (hS : (toM X n p - rowConst n (toV m.mean p))ᵀ * (toM X n p - rowConst n (toV m.mean p))
          = Uᵀ * diagonal lam * U)
    (hmono : ∀ i j : Fin p, i ≤ j → lam j ≤ lam i)
    (hlead : ∀ i : Fin r, m.sigma.getD i 0 * m.sigma.getD i 0 = lam (Fin.castLE (hr.trans hk) i))
    (hV : toM m.embedding r p * (toM m.embedding r p)ᵀ = 1)
    (hc : ((toM X n p - rowConst n (toV m.mean p))ᵀ * (toM X n p - rowConst n (toV m.mean p)))
            * (toM m.embedding r p)ᵀ
          = (toM m.embedding r p)ᵀ * diagonal fun i : Fin r => m.sigma.getD i 0 * m.sigma.getD i 0)
    (Q : Matrix (Fin k) (Fin p) α) (hQ : Q * Qᵀ = 1) :
    trace (((toM X n p - rowConst n (toV m.mean p)) * Qᵀ)ᵀ
            * ((toM X n p - rowConst n (toV m.mean p)) * Qᵀ))
      ≤ trace ((toM (transform m X) n r)ᵀ * toM (transform m X) n r)
        + ∑ i : Fin k, (if (i : ℕ) < r then 0 else lam (Fin.castLE hk i)) := by
  rw [transform_toM m X n r p hX hW hμ]
  unfold transformM
  rw [projected_scatter_diag _ _ _ hV hc, Matrix.trace_diagonal]
  have e : ((toM X n p - rowConst n (toV m.mean p)) * Qᵀ)ᵀ
        * ((toM X n p - rowConst n (toV m.mean p)) * Qᵀ)
      = Q * ((toM X n p - rowConst n (toV m.mean p))ᵀ
          * (toM X n p - rowConst n (toV m.mean p))) * Qᵀ := by
    rw [Matrix.transpose_mul, Matrix.transpose_transpose]
    simp only [Matrix.mul_assoc]
  rw [e]
  have hsplit : ∑ i : Fin k, lam (Fin.castLE hk i)
      = ∑ i : Fin r, lam (Fin.castLE (hr.trans hk) i)
        + ∑ i : Fin k, (if (i : ℕ) < r then 0 else lam (Fin.castLE hk i)) := by
    have h1 : ∑ i : Fin r, lam (Fin.castLE (hr.trans hk) i)
        = ∑ i : Fin k, (if (i : ℕ) < r then lam (Fin.castLE hk i) else 0) :=
      (sum_ite_lt_eq (fun i : Fin k => lam (Fin.castLE hk i)) hr).symm
    rw [h1, ← Finset.sum_add_distrib]
    apply Finset.sum_congr rfl
    intro i _
    split <;> simp
  calc trace (Q * _ * Qᵀ) ≤ ∑ i : Fin k, lam (Fin.castLE hk i) :=
        ky_fan _ U lam hU hS hmono hk Q hQ
    _ = _ := by
        rw [hsplit]
        congr 1
        exact Finset.sum_congr rfl fun i _ => (hlead i).symm

/-- non-vacuity: `S = diag(2, 1)` with `U = 1`, the leading axis `W = (1 0)` against `Q = (0 1)` -/
example : (1 : Matrix (Fin 2) (Fin 2) Rat) * (1 : Matrix (Fin 2) (Fin 2) Rat)ᵀ = 1 ∧
    (!![1, 0] : Matrix (Fin 1) (Fin 2) Rat) * (!![1, 0] : Matrix (Fin 1) (Fin 2) Rat)ᵀ = 1 ∧
    (!![0, 1] : Matrix (Fin 1) (Fin 2) Rat) * (!![0, 1] : Matrix (Fin 1) (Fin 2) Rat)ᵀ = 1 := by
  refine ⟨by simp, ?_, ?_⟩ <;>
    (ext i j; fin_cases i; fin_cases j; simp [Matrix.mul_apply, Fin.sum_univ_two])

/-- non-vacuity of the dropped-pairs form: `S = diag(2, 0)` (rank one), `r = 1` returned row
`W = (1 0)` for `k = 2` requested pairs -/
example : (!![1, 0] : Matrix (Fin 1) (Fin 2) Rat) * (!![1, 0] : Matrix (Fin 1) (Fin 2) Rat)ᵀ = 1 ∧
    (!![2, 0; 0, 0] : Matrix (Fin 2) (Fin 2) Rat) * (!![1, 0] : Matrix (Fin 1) (Fin 2) Rat)ᵀ
      = (!![1, 0] : Matrix (Fin 1) (Fin 2) Rat)ᵀ * diagonal (fun _ : Fin 1 => (2 : Rat)) := by
  constructor <;>
    (ext i j; fin_cases i <;> fin_cases j <;> simp [Matrix.mul_apply, Fin.sum_univ_two])

/-- **the leading rows of a certificate are a certificate** (what the dense branch of `leading_svd`
keeps): if `V` (`r` orthonormal rows) satisfies `C Vᵀ = Vᵀ diag(s)` then so do its first `k` rows
with the first `k` values. -/
theorem leading_rows_certificate {α : Type} [Field α] {r k p : Nat} (h : k ≤ r)
    (C : Matrix (Fin p) (Fin p) α) (V : Matrix (Fin r) (Fin p) α) (s : Fin r → α)
    (hV : V * Vᵀ = 1) (hc : C * Vᵀ = Vᵀ * diagonal s) :
    (V.submatrix (Fin.castLE h) id) * (V.submatrix (Fin.castLE h) id)ᵀ = 1 ∧
    C * (V.submatrix (Fin.castLE h) id)ᵀ
      = (V.submatrix (Fin.castLE h) id)ᵀ * diagonal fun i : Fin k => s (Fin.castLE h i) := by
  constructor
  · ext i j
    have := congrFun (congrFun hV (Fin.castLE h i)) (Fin.castLE h j)
    simp only [Matrix.mul_apply, Matrix.transpose_apply, Matrix.submatrix_apply, id] at this ⊢
    rw [this, Matrix.one_apply, Matrix.one_apply]
    simp [Fin.ext_iff]
  · ext a i
    have := congrFun (congrFun hc a) (Fin.castLE h i)
    rw [Matrix.mul_diagonal] at this
    rw [Matrix.mul_diagonal]
    simpa [Matrix.mul_apply] using this

/-- the rows the dense branch keeps, as a matrix: the list `vt.take k` is the sub-matrix of the
first `k` rows of `vt` -/
theorem take_rows_toM {α : Type} [Field α] (vt : List (List α)) (r k p : Nat) (h : k ≤ r) :
    toM (vt.take k) k p = (toM vt r p).submatrix (Fin.castLE h) id := by
  ext i j
  simp only [toM, Matrix.of_apply, Matrix.submatrix_apply, id, Fin.val_castLE]
  congr 1
  simp [List.getD_eq_getElem?_getD, i.2]

example : toM (α := Rat) ([[1, 0], [0, 1]].take 1) 1 2
    = (toM (α := Rat) [[1, 0], [0, 1]] 2 2).submatrix (Fin.castLE (by decide : 1 ≤ 2)) id :=
  take_rows_toM _ 2 1 2 (by decide)

/-! ## end to end: `fit` + the solver's certificate on the matrix `fit` hands to it ⇒ the clauses

The theorems above take a fitted `Model` and the certificate as separate hypotheses; the two below
chain them through `fit` itself (`fit_ok_iff`, `fit_mean_is_column_mean`, `center_toM`,
`whitened_embedding`): the certificate is stated about `toM (center X (colMeanL lay p X))` — the very
argument `fit` passes to the solver parameter — and about the pair `(σ0, vt)` that call returned;
`n` is the number of records (`m.nSamples = n` is derived, not assumed).  Assumptions that remain:
the certificate (external solver; evaluated per fit by the oracle), "the floor does not act"
(`fl ≤ s` for the solver's values — where it acts the reported variance is the floor's, not the
data's: finding C18-sigma-floor-misreports-variance), and for whitening `sqrt(n-1)² = n-1`
(`Transc.sqrt` carries no laws). -/

/-- the floor leaves values at or above it unchanged -/
theorem floorSigma_id {α : Type} [Field α] [LinearOrder α] [IsStrictOrderedRing α] (fl : α)
    (σ : List α) (h : ∀ s ∈ σ, fl ≤ s) : floorSigma fl σ = σ := by
  unfold floorSigma
  conv_rhs => rw [← List.map_id σ]
  apply List.map_congr_left
  intro x hx
  simp [not_lt.mpr (h x hx)]

example : floorSigma (1/100 : Rat) [3, 1] = [3, 1] := floorSigma_id _ _ (by
  intro s hs; simp at hs; rcases hs with rfl | rfl <;> norm_num)

/-- **`fit` without whitening, end to end**: if `fit` succeeds, the solver was called on the centred
records `center X (colMeanL lay p X)` and returned some `(σ0, vt)`; whenever that pair is a
certificate for that matrix (`vt` has `r` orthonormal rows, `(XcᵀXc) vtᵀ = vtᵀ diag(σ0²)`) and no
value is below the floor, the projected training records `predict(X)` have sample covariance
`diag(explained_variance())` with the divisor `n − 1` of the `n` records. -/
theorem fit_projected_cov {α ε : Type} [Field α] [LinearOrder α] [IsStrictOrderedRing α] [Transc α]
    (fl : α) (svd : List (List α) → Nat → Except ε (List α × List (List α))) (k p n : Nat)
    (lay : Layout) (X : List (List α)) (m : Model α) (hX : Shape X n p)
    (hfit : fit fl svd k false lay p X = .ok m) :
    ∃ σ0 vt, svd (center X (colMeanL lay p X)) k = .ok (σ0, vt) ∧ m.nSamples = n ∧
      ∀ r, Shape vt r p → σ0.length = r → (∀ s ∈ σ0, fl ≤ s) →
        toM vt r p * (toM vt r p)ᵀ = 1 →
        ((toM (center X (colMeanL lay p X)) n p)ᵀ * toM (center X (colMeanL lay p X)) n p)
            * (toM vt r p)ᵀ
          = (toM vt r p)ᵀ * diagonal (fun i : Fin r => σ0.getD i 0 * σ0.getD i 0) →
        (m.sigma = σ0 ∧ m.embedding = vt) ∧
        (((n : α) - 1)⁻¹) • ((toM (transform m X) n r)ᵀ * toM (transform m X) n r)
          = diagonal fun i : Fin r => (explainedVariance m).getD i 0 := by
  have hn := hX.1
  subst hn
  obtain ⟨_, σ0, vt, hs, hm⟩ := (fit_ok_iff fl svd k p false lay X m).1 hfit
  refine ⟨σ0, vt, hs, by rw [hm], ?_⟩
  intro r hvt hσ hfl hV hc
  have hμ : (colMeanL lay p X).length = p := (fit_mean_is_column_mean lay X _ p hX).1
  have hid := floorSigma_id fl σ0 hfl
  have hm' : m = ⟨vt, σ0, colMeanL lay p X, X.length⟩ := by rw [hm, hid]; simp
  subst hm'
  rw [(center_toM X _ _ p hX hμ).2] at hc
  exact ⟨⟨rfl, rfl⟩, projected_cov_is_explained_variance
    ⟨vt, σ0, colMeanL lay p X, X.length⟩ X _ r p hX hvt hμ hσ hV hc⟩

/-- **`fit` with whitening, end to end**: same chain; the stored embedding is
`diag(sqrt(n−1)/σ_i)·vt` (`whitened_embedding`), so with `sqrt(n−1)² = n−1`, a positive floor and no
value below it the projected training records have identity sample covariance. -/
theorem fit_whitened_cov {α ε : Type} [Field α] [LinearOrder α] [IsStrictOrderedRing α] [Transc α]
    (fl : α) (svd : List (List α) → Nat → Except ε (List α × List (List α))) (k p n : Nat)
    (lay : Layout) (X : List (List α)) (m : Model α) (hX : Shape X n p) (hfl0 : 0 < fl)
    (hsqrt : Transc.sqrt ((n : α) - 1) * Transc.sqrt ((n : α) - 1) = (n : α) - 1)
    (hn1 : (n : α) - 1 ≠ 0)
    (hfit : fit fl svd k true lay p X = .ok m) :
    ∃ σ0 vt, svd (center X (colMeanL lay p X)) k = .ok (σ0, vt) ∧ m.nSamples = n ∧
      ∀ r, Shape vt r p → σ0.length = r → (∀ s ∈ σ0, fl ≤ s) →
        toM vt r p * (toM vt r p)ᵀ = 1 →
        ((toM (center X (colMeanL lay p X)) n p)ᵀ * toM (center X (colMeanL lay p X)) n p)
            * (toM vt r p)ᵀ
          = (toM vt r p)ᵀ * diagonal (fun i : Fin r => σ0.getD i 0 * σ0.getD i 0) →
        (((n : α) - 1)⁻¹) • ((toM (transform m X) n r)ᵀ * toM (transform m X) n r) = 1 := by
  have hn := hX.1
  subst hn
  obtain ⟨_, σ0, vt, hs, hm⟩ := (fit_ok_iff fl svd k p true lay X m).1 hfit
  refine ⟨σ0, vt, hs, by rw [hm], ?_⟩
  intro r hvt hσ hfl hV hc
  have hμ : (colMeanL lay p X).length = p := (fit_mean_is_column_mean lay X _ p hX).1
  have hid := floorSigma_id fl σ0 hfl
  have hm' : m = ⟨whiten X.length vt σ0, σ0, colMeanL lay p X, X.length⟩ := by
    rw [hm, hid]; simp
  subst hm'
  rw [(center_toM X _ _ p hX hμ).2] at hc
  obtain ⟨hWs, hemb⟩ := whitened_embedding X.length vt σ0 r p hvt hσ
  have hs0 : ∀ i : Fin r, σ0.getD i 0 ≠ 0 := by
    intro i
    have hi : (i : Nat) < σ0.length := by omega
    rw [getD_lt _ _ _ hi]
    exact ne_of_gt (lt_of_lt_of_le hfl0 (hfl _ (List.getElem_mem hi)))
  exact whitened_cov_identity ⟨whiten X.length vt σ0, σ0, colMeanL lay p X, X.length⟩ X _ r p hX
    hWs hμ (toM vt r p) (fun i => σ0.getD i 0) (Transc.sqrt ((X.length : α) - 1)) hsqrt hn1 hs0
    hemb hV hc

/-- non-vacuity of both: four centred records with scatter `diag(4, 4)`; the solver answers
`σ0 = (2, 2)`, `vt = 1`; `fit` succeeds, the floor `1/100` does not act, the matrix handed to the
solver is the records themselves (mean zero) and the pair is a certificate for it -/
example : fit (α := Rat) (ε := String) (1/100) (fun _ _ => .ok ([2, 2], [[1, 0], [0, 1]])) 2 false .c 2
    [[1, 1], [-1, -1], [1, -1], [-1, 1]]
    = .ok ⟨[[1, 0], [0, 1]], [2, 2], [0, 0], 4⟩ := by
  norm_num [fit, Pca.guard, floorSigma, colMeanL, colMean, vadd, List.zipWith, List.replicate,
    List.foldl]

example : center (α := Rat) [[1, 1], [-1, -1], [1, -1], [-1, 1]]
      (colMeanL .c 2 [[1, 1], [-1, -1], [1, -1], [-1, 1]])
    = [[1, 1], [-1, -1], [1, -1], [-1, 1]] := by
  norm_num [center, vsub, colMeanL, colMean, vadd, List.zipWith, List.replicate, List.foldl]

example : let X : Matrix (Fin 4) (Fin 2) Rat := toM [[1, 1], [-1, -1], [1, -1], [-1, 1]] 4 2
    (Xᵀ * X) * (toM (α := Rat) [[1, 0], [0, 1]] 2 2)ᵀ
      = (toM (α := Rat) [[1, 0], [0, 1]] 2 2)ᵀ
        * diagonal fun i : Fin 2 => ([2, 2] : List Rat).getD i 0 * ([2, 2] : List Rat).getD i 0 := by
  intro X
  ext i j
  fin_cases i <;> fin_cases j <;>
    simp [X, toM, Matrix.mul_apply, Fin.sum_univ_four, Fin.sum_univ_two, Matrix.diagonal] <;> norm_num

/-- the whitening assumption `sqrt(n-1)² = n-1` is satisfiable in the carrier of the examples
(`n = 2`; over `ℝ` it holds for every `n ≥ 1`) -/
example : Transc.sqrt (((2 : Nat) : Rat) - 1) * Transc.sqrt (((2 : Nat) : Rat) - 1)
    = ((2 : Nat) : Rat) - 1 := by
  norm_num [Transc.sqrt]

/-- **calling forms**: `Transformer::transform(dataset)` projects the records and moves targets and
weights unchanged; `Predict::predict(dataset)` keeps the records and returns the same projection as
targets — both are `predict` (`transform`) of the records, so every theorem above applies to them. -/
theorem calling_forms_are_transform {α τ ω : Type} [Field α] (m : Model α) (ds : Dataset α τ ω)
    (noW : ω) :
    (transformDataset m ds).records = transform m ds.records ∧
    (transformDataset m ds).targets = ds.targets ∧ (transformDataset m ds).weights = ds.weights ∧
    (predictDataset m ds noW).targets = transform m ds.records ∧
    (predictDataset m ds noW).records = ds.records :=
  ⟨rfl, rfl, rfl, rfl, rfl⟩

example : (transformDataset (⟨[[1, 0]], [2], [0, 0], 2⟩ : Model Rat)
    (⟨[[3, 4]], [7], [2]⟩ : Dataset Rat (List Nat) (List Nat))).targets = [7] := rfl

end LinfaSpec.Props.C18
