import LinfaSpec.Model.Kernel
import LinfaSpec.Model.Hier

/-!
# C06 — Kernel matrices hold the kernel function; hierarchical clustering partitions
-/
namespace LinfaSpec.Props.C06
open LinfaSpec LinfaSpec.Kernel LinfaSpec.Hier

section
variable {α : Type} [Add α] [Sub α] [Mul α] [Div α] [Neg α] [OfNat α 0] [Transc α] [KPow α]

/-- entry `(i, j)` of the dense kernel matrix is the kernel function of rows `i` and `j` -/
theorem dense_entry (m : Method α) (X : List (List α)) (i j : Nat) (hi : i < X.length) (hj : j < X.length) :
    ((dense m X)[i]?.bind (·[j]?)) = some (kernelFn m X[i] X[j]) := by
  simp [dense, hi, hj]

end
end LinfaSpec.Props.C06
