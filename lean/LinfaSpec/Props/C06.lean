import LinfaSpec.Model.Kernel
import LinfaSpec.Model.Hier
import LinfaSpec.Proofs.Kernel
import LinfaSpec.Proofs.KernelReal
import LinfaSpec.Proofs.Sparse
import LinfaSpec.Proofs.Hier
import LinfaSpec.Proofs.SparseSum
import LinfaSpec.Proofs.SparseDot
import LinfaSpec.Proofs.HierSingle
import LinfaSpec.Proofs.HierKernel
import LinfaSpec.Proofs.KernelKnn

/-!
# C06 — Kernel matrices hold the kernel function; hierarchical clustering partitions

Theorems about `LinfaSpec.Kernel` (model of `linfa-kernel`) and `LinfaSpec.Hier` (model of the merge
replay of `linfa-hierarchical`).  Numeric statements are over an arbitrary field / ordered field
(resp. `ℝ` where `exp` is needed) and speak about the very definitions the driver runs on `Float`.
`Transc.exp`, `KPow.powf` are uninterpreted unless said otherwise, so symmetry holds whatever libm does.
-/
namespace LinfaSpec.Props.C06
open LinfaSpec LinfaSpec.Kernel LinfaSpec.Hier

/-! ## Kernel matrices -/

section
variable {α : Type} [Field α] [Transc α] [KPow α]

omit [Transc α] [KPow α] in
/-- ndarray's eightfold-unrolled `sum` (the order the real code adds in) is the sum -/
theorem ndSum_is_sum (xs : List α) : ndSum xs = xs.sum := ndSum_eq_sum xs

example : ndSum ([1, 2, 3, 4, 5, 6, 7, 8, 9, 10, 11] : List ℚ) = 66 := by decide +kernel

/-- **entry `(i, j)` of the dense kernel matrix is the kernel function of rows `i` and `j`**,
for every record matrix and every kernel method -/
theorem dense_entry (m : Method α) (X : List (List α)) (i j : Nat) (hi : i < X.length) (hj : j < X.length) :
    ((dense m X)[i]?.bind (·[j]?)) = some (kernelFn m X[i] X[j]) := by
  simp [dense, hi, hj]

/-- the kernel function is symmetric for every method (Gaussian with any bandwidth, linear,
polynomial with any constant and degree), whatever `exp` and `powf` are -/
theorem kernelFn_symm (m : Method α) (a b : List α) : kernelFn m a b = kernelFn m b a := by
  cases m with
  | gaussian eps => simp only [kernelFn, sqDist_comm a b]
  | linear => simp only [kernelFn, ndDot_comm a b]
  | poly c d => simp only [kernelFn, ndDot_comm a b]

/-- **the dense kernel matrix is symmetric** -/
theorem dense_symm (m : Method α) (X : List (List α)) (i j : Nat) (hi : i < X.length) (hj : j < X.length) :
    ((dense m X)[i]?.bind (·[j]?)) = ((dense m X)[j]?.bind (·[i]?)) := by
  rw [dense_entry m X i j hi hj, dense_entry m X j i hj hi, kernelFn_symm]

/-- the Gaussian kernel of a row with itself is `exp 0`, for every bandwidth -/
theorem gaussian_self (eps : α) (a : List α) : kernelFn (.gaussian eps) a a = Transc.exp 0 := by
  simp [kernelFn, sqDist_self]

end

/-- **unit diagonal of the Gaussian kernel matrix** (over `ℝ`, `exp` = `Real.exp`) -/
theorem gaussian_diag_one (eps : ℝ) (X : List (List ℝ)) (i : Nat) (hi : i < X.length) :
    ((dense (.gaussian eps) X)[i]?.bind (·[i]?)) = some 1 := by
  rw [dense_entry _ X i i hi hi, gaussian_self, real_exp_zero]

example : kernelFn (.gaussian (2 : ℝ)) [1, 5] [1, 5] = 1 := by
  rw [gaussian_self, real_exp_zero]

section
variable {α : Type} [Field α] [LinearOrder α] [IsStrictOrderedRing α] [Transc α] [KPow α]

/-- **the linear kernel matrix is positive semidefinite**: for records with `p` features and every
vector `v`, `vᵀ K v = Σ_c (Σ_i v_i x_ic)² ≥ 0` -/
theorem linear_psd (X : List (List α)) (p : Nat) (hX : ∀ r ∈ X, r.length = p)
    (v : List α) (hv : v.length = X.length) :
    0 ≤ quadForm v (dense Method.linear X) := by
  rw [quadForm_linear X p hX v hv]
  exact Finset.sum_nonneg fun c _ => sq_nonneg _

end

noncomputable example : (0 : ℝ) ≤ quadForm [1, -1] (dense Method.linear [[1, 2], [3, 4]]) :=
  linear_psd [[1, 2], [3, 4]] 2 (by simp) [1, -1] rfl

/-! ### Gaussian kernel: the part of positive semidefiniteness that is proved (`…_partial`)

Full statement (NOT proved, kept visible): `∀ eps > 0, X, v, 0 ≤ quadForm v (dense (.gaussian eps) X)`.
Proved below, over `ℝ` with `exp = Real.exp`, for every bandwidth `eps > 0` and all rows: every entry
lies in `(0, 1]`, hence (with the unit diagonal and symmetry) every principal 2×2 minor is
non-negative and the quadratic form is non-negative on every vector supported on two samples — the
necessary conditions a wrong sign, a missing negation or `eps` used as a multiplier would break. -/

theorem real_sqDist_nonneg (a b : List ℝ) : 0 ≤ sqDist a b := by
  rw [sqDist, sumS_eq_sum]
  apply List.sum_nonneg
  intro x hx
  rcases List.mem_iff_getElem.mp hx with ⟨i, hi, rfl⟩
  simp only [List.getElem_zipWith]
  exact mul_self_nonneg _

/-- every Gaussian kernel value is in `(0, 1]` when the bandwidth is positive -/
theorem gaussian_entry_unit_interval (eps : ℝ) (heps : 0 < eps) (a b : List ℝ) :
    0 < kernelFn (.gaussian eps) a b ∧ kernelFn (.gaussian eps) a b ≤ 1 := by
  show 0 < Real.exp (-(sqDist a b) / eps) ∧ Real.exp (-(sqDist a b) / eps) ≤ 1
  refine ⟨Real.exp_pos _, ?_⟩
  rw [Real.exp_le_one_iff]
  exact div_nonpos_of_nonpos_of_nonneg (neg_nonpos.mpr (real_sqDist_nonneg a b)) heps.le

/-- **every principal 2×2 minor of the Gaussian kernel matrix is non-negative**:
`K_ii K_jj - K_ij K_ji ≥ 0` -/
theorem gaussian_minor2_nonneg_partial (eps : ℝ) (heps : 0 < eps) (a b : List ℝ) :
    0 ≤ kernelFn (.gaussian eps) a a * kernelFn (.gaussian eps) b b
        - kernelFn (.gaussian eps) a b * kernelFn (.gaussian eps) b a := by
  rw [gaussian_self, gaussian_self, real_exp_zero, kernelFn_symm (.gaussian eps) b a]
  obtain ⟨h0, h1⟩ := gaussian_entry_unit_interval eps heps a b
  nlinarith

/-- **the Gaussian quadratic form is non-negative on vectors supported on two samples**:
`s² K_aa + 2 s t K_ab + t² K_bb ≥ 0` -/
theorem gaussian_psd_two_point_partial (eps : ℝ) (heps : 0 < eps) (a b : List ℝ) (s t : ℝ) :
    0 ≤ s * s * kernelFn (.gaussian eps) a a + 2 * (s * t) * kernelFn (.gaussian eps) a b
        + t * t * kernelFn (.gaussian eps) b b := by
  rw [gaussian_self, gaussian_self, real_exp_zero]
  obtain ⟨h0, h1⟩ := gaussian_entry_unit_interval eps heps a b
  set k := kernelFn (.gaussian eps) a b
  nlinarith [sq_nonneg (s + t), sq_nonneg (s - t), sq_nonneg (s + k * t), mul_nonneg h0.le (sq_nonneg t),
    mul_nonneg (sub_nonneg.mpr h1) (sq_nonneg t), mul_nonneg (mul_nonneg h0.le (sub_nonneg.mpr h1)) (sq_nonneg t)]

/-- non-vacuity: a concrete pair strictly inside the interval (distinct rows, `eps = 2`) -/
example : kernelFn (.gaussian (2 : ℝ)) [1, 5] [2, 5] < 1 := by
  show Real.exp (-(sqDist [1, 5] [2, 5]) / 2) < 1
  rw [Real.exp_lt_one_iff]
  norm_num [sqDist, sumS]

/-
`gaussian_psd` — NOT proved (needs the Schur product theorem or Bochner's theorem):
  ∀ eps > 0, X with rows of equal length, v : 0 ≤ quadForm v (dense (.gaussian eps) X)   over ℝ.
Covered by the oracle only (least Jacobi eigenvalue of the real code's matrix ≥ -1e-9·trace).
-/


/-! ## Sparse kernel matrices -/

section
variable {α : Type} [Field α] [Transc α] [KPow α]

/-- the guard of `adjacency_matrix`: a sparse kernel exists exactly for `0 < k < n` -/
theorem sparse_guard (m : Method α) (X : List (List α)) (k : Nat) (nb : List (List Nat)) :
    (sparseFromFn m X k nb).isSome ↔ (0 < k ∧ k < X.length) := by
  unfold sparseFromFn
  simp only []
  split
  · rename_i hk; simpa using ⟨hk.2, hk.1⟩
  · rename_i hk; simpa using fun (h0 : 0 < k) (h1 : k < X.length) => hk ⟨h1, h0⟩

/-- **stored pairs and stored values**: the sparse kernel holds at `(i, j)` exactly when `i = j` or one
of the two points is among the neighbours the index returned for the other (`Stored`, the symmetric
closure of the k-nearest-neighbour relation plus the diagonal), and the value held is the kernel
function of rows `i` and `j` — whatever neighbour index produced `nb` -/
theorem sparse_get (m : Method α) (X : List (List α)) (k : Nat) (nb : List (List Nat)) (S : Csr α)
    (h : sparseFromFn m X k nb = some S) (i j : Nat) :
    sGet S i j = if Stored X.length nb i j then some (kernelFn m (X.getD i []) (X.getD j [])) else none := by
  unfold sGet
  by_cases hi : i < X.length
  · rw [sparse_row m X k nb S h i hi, find?_map_pair]
    by_cases hs : Stored X.length nb i j
    · rw [if_pos hs, if_pos ((mem_support X.length nb i j hi).mpr hs)]
      rfl
    · have : ¬ j ∈ (support X.length (adjPattern X.length nb)).getD i [] :=
        fun hm => hs ((mem_support X.length nb i j hi).mp hm)
      rw [if_neg hs, if_neg this]
      rfl
  · have hl := sparse_length m X k nb S h
    have : S.getD i [] = [] := by simp [List.getD_eq_getElem?_getD, hl, Nat.le_of_not_lt hi]
    have hs : ¬ Stored X.length nb i j := fun hs => hi hs.1
    rw [this, if_neg hs]
    rfl

/-- the diagonal is always stored -/
theorem sparse_diag_stored (n : Nat) (nb : List (List Nat)) (i : Nat) (hi : i < n) : Stored n nb i i :=
  ⟨hi, hi, Or.inl rfl⟩

/-- **the sparse kernel matrix is symmetric** (pattern and values) -/
theorem sparse_symm (m : Method α) (X : List (List α)) (k : Nat) (nb : List (List Nat)) (S : Csr α)
    (h : sparseFromFn m X k nb = some S) (i j : Nat) : sGet S i j = sGet S j i := by
  rw [sparse_get m X k nb S h i j, sparse_get m X k nb S h j i, kernelFn_symm m (X.getD i []) (X.getD j [])]
  by_cases hs : Stored X.length nb i j
  · simp [hs, (stored_symm X.length nb i j).mp hs]
  · have : ¬ Stored X.length nb j i := fun h' => hs ((stored_symm X.length nb i j).mpr h')
    simp [hs, this]

/-- carriers for the concrete examples over `ℚ` (no transcendental function is evaluated in them) -/
local instance ratTransc : Transc ℚ := ⟨id, id, id⟩
local instance ratKPow : KPow ℚ := ⟨fun x _ => x⟩

example : sparseFromFn (.linear : Method ℚ) [[0], [1], [3]] 1 [[0, 1], [1, 0], [2, 1]] =
    some [[(0, 0), (1, 0)], [(0, 0), (1, 1), (2, 3)], [(1, 3), (2, 9)]] := by decide +kernel

/-! ### views of the sparse kernel against the matrix it stands for (`sToDense`) -/

/-- `size` -/
theorem views_size (n : Nat) (S : Csr α) : dSize (sToDense n S) = n := by
  simp [dSize, sToDense]

/-- `column(i)` of the sparse kernel is column `i` of the matrix (the `-0.0` fill is the number 0) -/
theorem views_column (n : Nat) (S : Csr α) (i : Nat) (hi : i < n) :
    some (sColumn n S i) = dColumn (sToDense n S) i := by
  unfold dColumn
  rw [if_pos (by simpa [sToDense] using hi)]
  congr 1
  unfold sColumn sToDense
  rw [List.map_map]
  apply List.map_congr_left
  intro r _
  simp [List.getD_eq_getElem?_getD, hi]

/-- `diagonal()` -/
theorem views_diagonal (n : Nat) (S : Csr α) : sDiag n S = dDiag (sToDense n S) := by
  unfold sDiag dDiag sToDense
  apply List.ext_getElem?
  intro i
  by_cases hi : i < n
  · simp [List.getElem?_mapIdx, List.getD_eq_getElem?_getD, hi]
  · simp [List.getElem?_mapIdx, hi]

/-- `to_upper_triangle()` goes through `to_dense()` -/
theorem views_upper (n : Nat) (S : Csr α) : sUpper n S = dUpper (sToDense n S) := rfl

/-- **`sum`**: the sparse kernel adds up *columns* (in CSR order), the dense one rows (`ndSum`); on the
matrix a sparse kernel stands for the two agree because that matrix is symmetric -/
theorem views_sum (m : Method α) (X : List (List α)) (k : Nat) (nb : List (List Nat)) (S : Csr α)
    (h : sparseFromFn m X k nb = some S) : sSum X.length S = dSum (sToDense X.length S) := by
  apply List.ext_getElem?
  intro c
  by_cases hc : c < X.length
  · have h1 := sparse_sSum_getD m X k nb S h c hc
    have hl : c < (sSum X.length S).length := by rw [sSum_length]; exact hc
    rw [List.getD_eq_getElem?_getD, List.getElem?_eq_getElem hl, Option.getD_some] at h1
    rw [List.getElem?_eq_getElem hl, h1]
    unfold dSum sToDense
    simp only [List.getElem?_map, List.getElem?_range hc, Option.map_some, ndSum_eq_sum]
    congr 2
    apply List.map_congr_left
    intro j _
    rw [sparse_symm m X k nb S h j c]
  · have h1 : (sSum X.length S).length = X.length := sSum_length _ _
    have h2 : (dSum (sToDense X.length S)).length = X.length := by simp [dSum, sToDense]
    rw [List.getElem?_eq_none (by omega), List.getElem?_eq_none (by omega)]

/-- entry `(i, j)` of the matrix a sparse kernel stands for: the kernel function on stored pairs, 0 elsewhere -/
theorem sToDense_entry (m : Method α) (X : List (List α)) (k : Nat) (nb : List (List Nat)) (S : Csr α)
    (h : sparseFromFn m X k nb = some S) (i j : Nat) (hi : i < X.length) (hj : j < X.length) :
    ((sToDense X.length S)[i]?.bind (·[j]?)) =
      some (if Stored X.length nb i j then kernelFn m (X.getD i []) (X.getD j []) else 0) := by
  unfold sToDense
  simp only [List.getElem?_map, List.getElem?_range hi, List.getElem?_range hj, Option.map_some,
    Option.bind_some, sparse_get m X k nb S h i j]
  split <;> simp

end



section
variable {α : Type} [Field α] [Transc α] [KPow α]

/-- **`dot`**: the matrix product reported by a sparse kernel (accumulated over the stored entries, row by
row) is the product of the matrix the kernel stands for with the right-hand side (`n × q`) -/
theorem views_dot (m : Method α) (X : List (List α)) (k : Nat) (nb : List (List Nat)) (S : Csr α)
    (h : sparseFromFn m X k nb = some S) (q : Nat) (R : List (List α)) (hR : R.length = X.length)
    (hq : ∀ r ∈ R, r.length = q) : sDot S q R = dDot (sToDense X.length S) q R :=
  sparse_dot_eq m X k nb S h q R hR hq

end

example : sDot ([[(0, 0), (1, 0)], [(0, 0), (1, 1), (2, 3)], [(1, 3), (2, 9)]] : Csr ℚ) 2 [[1, 2], [0, 1], [-1, 1]] =
    dDot (sToDense 3 [[(0, 0), (1, 0)], [(0, 0), (1, 1), (2, 3)], [(1, 3), (2, 9)]]) 2 [[1, 2], [0, 1], [-1, 1]] := by
  decide +kernel

/-! ## `Kernel::new` and the accessors of `KernelBase` (all calling forms) -/

section
variable {α : Type} [Field α] [Transc α] [KPow α]

/-- `Kernel::new` succeeds exactly when the kernel is dense or `0 < k < n` -/
theorem kernel_new_guard (kind : Kind) (m : Method α) (X : List (List α)) (nb : List (List Nat)) :
    (kernelNew kind m X nb).isSome ↔
      match kind with
      | .dense => True
      | .sparse k => 0 < k ∧ k < X.length := by
  cases kind with
  | dense => simp [kernelNew]
  | sparse k => simp only [kernelNew, Option.isSome_map]; exact sparse_guard m X k nb

/-- **the matrix a kernel stands for holds the kernel function**: entry `(i, j)` of a dense kernel is the
kernel function of rows `i`, `j`; of a sparse kernel it is that value on the stored pairs (`Stored`: the
diagonal and the symmetric closure of the returned neighbour relation) and 0 elsewhere -/
theorem kernel_new_entry (kind : Kind) (m : Method α) (X : List (List α)) (nb : List (List Nat)) (I : Inner α)
    (h : kernelNew kind m X nb = some I) (i j : Nat) (hi : i < X.length) (hj : j < X.length) :
    ((kMatrix I)[i]?.bind (·[j]?)) = some
      (match kind with
       | .dense => kernelFn m (X.getD i []) (X.getD j [])
       | .sparse _ => if Stored X.length nb i j then kernelFn m (X.getD i []) (X.getD j []) else 0) := by
  cases kind with
  | dense =>
    simp only [kernelNew, Option.some.injEq] at h
    subst h
    simp only [kMatrix]
    rw [dense_entry m X i j hi hj]
    simp [List.getD_eq_getElem?_getD, hi, hj]
  | sparse k =>
    simp only [kernelNew, Option.map_eq_some_iff] at h
    obtain ⟨S, hS, rfl⟩ := h
    simp only [kMatrix]
    exact sToDense_entry m X k nb S hS i j hi hj

/-- **size, row sums, diagonal, upper triangle and columns reported by a kernel are those of the matrix it
stands for**, dense or sparse, through whichever wrapper it was built -/
theorem kernel_new_views (kind : Kind) (m : Method α) (X : List (List α)) (nb : List (List Nat)) (I : Inner α)
    (h : kernelNew kind m X nb = some I) :
    kSize I = X.length ∧ kSum I = dSum (kMatrix I) ∧ kDiag I = dDiag (kMatrix I) ∧
    kUpper I = dUpper (kMatrix I) ∧ ∀ i, i < X.length → kColumn I i = dColumn (kMatrix I) i := by
  cases kind with
  | dense =>
    simp only [kernelNew, Option.some.injEq] at h
    subst h
    exact ⟨by simp [kSize, dSize, dense], rfl, rfl, rfl, fun _ _ => rfl⟩
  | sparse k =>
    simp only [kernelNew, Option.map_eq_some_iff] at h
    obtain ⟨S, hS, rfl⟩ := h
    exact ⟨rfl, views_sum m X k nb S hS, views_diagonal _ S, views_upper _ S,
      fun i hi => views_column _ S i hi⟩

end

/-- carriers for the concrete example over `ℚ` -/
local instance ratTransc' : Transc ℚ := ⟨id, id, id⟩
local instance ratKPow' : KPow ℚ := ⟨fun x _ => x⟩

example : (kernelNew (.sparse 1) (.linear : Method ℚ) [[0], [1], [3]] [[0, 1], [1, 0], [2, 1]]).map kMatrix =
    some [[0, 0, 0], [0, 1, 3], [0, 3, 9]] := by decide +kernel


/-! ## Hierarchical clustering (replay of the `kodama` dendrogram)

`DendroOK steps live ct` is the dendrogram contract (each step merges two different live cluster
ids; the merged cluster gets the next id), validated by the harness on every dendrogram it reads.
`members cl` are the samples held by the clusters, `assign n cl` the label vector the code returns
(cluster `j` in enumeration order gets label `j`). -/

section
variable {α : Type} [LE α] [DecidableLE α]

/-- under the dendrogram contract the replay never meets a missing cluster id (no `unwrap` panic),
for every criterion -/
theorem replay_defined (crit : Crit α) (n : Nat) (steps : List (Step α))
    (h : DendroOK steps (List.range n) n) : (replay crit n steps).isSome := by
  apply replayGo_defined
  have : keys (initClusters n) = List.range n := by
    simp [keys, initClusters, List.map_map, Function.comp_def]
  rw [this]; exact h

/-- **the clusters returned partition the samples**: every sample `0..n-1` lies in exactly one
cluster, for every criterion, linkage method (dendrogram) and threshold -/
theorem replay_partition (crit : Crit α) (n : Nat) (steps : List (Step α)) (cl : Clusters)
    (h : replay crit n steps = some cl) : (members cl).Perm (List.range n) := by
  have := replayGo_members crit steps (initClusters n) n cl h
  rwa [members_init] at this

/-- **the label vector is that partition**: it has one label per sample, every sample belongs to
some cluster, and a sample of cluster `j` is labelled `j` — so two samples carry the same label
exactly when they were merged -/
theorem labels_partition (crit : Crit α) (n : Nat) (steps : List (Step α)) (cl : Clusters)
    (h : replay crit n steps = some cl) :
    (assign n cl).length = n ∧
    (∀ p, p < n → ∃ j, ∃ hj : j < cl.length, p ∈ cl[j].2) ∧
    (∀ j (hj : j < cl.length) p, p ∈ cl[j].2 → (assign n cl)[p]? = some j) := by
  have hp := replay_partition crit n steps cl h
  have hnd : (members cl).Nodup := hp.nodup_iff.mpr List.nodup_range
  refine ⟨by rw [assign_eq, assignFrom_length]; simp, ?_, ?_⟩
  · intro p hpn
    have : p ∈ members cl := hp.mem_iff.mpr (List.mem_range.mpr hpn)
    simp only [members, List.mem_flatten, List.mem_map] at this
    obtain ⟨l, ⟨e, he, rfl⟩, hpl⟩ := this
    obtain ⟨j, hj, rfl⟩ := List.mem_iff_getElem.mp he
    exact ⟨j, hj, hpl⟩
  · intro j hj p hpj
    have hmem : p ∈ members cl := by
      simp only [members, List.mem_flatten, List.mem_map]
      exact ⟨cl[j].2, ⟨cl[j], List.getElem_mem hj, rfl⟩, hpj⟩
    have hpn : p < n := List.mem_range.mp (hp.mem_iff.mp hmem)
    have := assignFrom_mem 0 cl (List.replicate n 0) hnd j hj p hpj (by simpa using hpn)
    rw [assign_eq, this]; simp

/-- **cluster count**: with `NumClusters(c)`, `c ≥ 1`, on a full dendrogram (`n - 1` steps) the
replay ends with exactly `min c n` clusters (the test `clusters.len() <= c` is made before each merge) -/
theorem replay_count (c n : Nat) (steps : List (Step α)) (cl : Clusters)
    (h : replay (Crit.num c : Crit α) n steps = some cl) (hs : steps.length = n - 1) (hc : 1 ≤ c) :
    cl.length = min c n := by
  have := replayGo_num_length c steps (initClusters n) n cl h
  have hl : (initClusters n).length = n := by simp [initClusters]
  rw [this, hl, hs]
  simp only [Nat.min_def]
  split_ifs <;> omega

end

example : replay (Crit.num 2 : Crit Nat) 4 [⟨0, 1, 1, 2⟩, ⟨2, 3, 2, 2⟩, ⟨4, 5, 5, 4⟩] =
    some [(5, [2, 3]), (4, [0, 1])] := by decide
example : DendroOK ([⟨0, 1, 1, 2⟩, ⟨2, 3, 2, 2⟩, ⟨4, 5, 5, 4⟩] : List (Step Nat)) (List.range 4) 4 := by
  repeat (first | exact DendroOK.nil _ _ | refine DendroOK.cons _ _ _ _ (by decide) (by decide) ?_)
example : assign 4 [(5, [2, 3]), (4, [0, 1])] = [1, 1, 0, 0] := by decide

section
variable {α : Type} [LinearOrder α]

/-- **distance threshold**: the replay performs exactly the merges of the longest prefix of the
dendrogram whose dissimilarities are below the threshold (`dissimilarity >= dis` stops, so a merge
*at* the threshold is not performed) -/
theorem replay_threshold (d : α) (n : Nat) (steps : List (Step α)) :
    replay (Crit.dist d) n steps =
      mergeAll (steps.takeWhile fun s => decide (s.dis < d)) (initClusters n) n :=
  replayGo_dist_prefix d steps (initClusters n) n

/-- **… which is every merge below the threshold** when the dendrogram's dissimilarities are
non-decreasing (single, complete, average, weighted, Ward linkage; checked by the harness on every
dendrogram of these methods).  For centroid/median linkage dissimilarities can decrease; there the
replay still stops at the first merge at or above the threshold (`replay_threshold`). -/
theorem replay_threshold_all (d : α) (n : Nat) (steps : List (Step α))
    (hm : steps.Pairwise fun a b => a.dis ≤ b.dis) :
    replay (Crit.dist d) n steps =
      mergeAll (steps.filter fun s => decide (s.dis < d)) (initClusters n) n := by
  rw [replay_threshold, takeWhile_eq_filter_of_sorted d steps hm]

end

example : replay (Crit.dist 2 : Crit Nat) 4 [⟨0, 1, 1, 2⟩, ⟨2, 3, 2, 2⟩, ⟨4, 5, 5, 4⟩] =
    some [(4, [0, 1]), (2, [2]), (3, [3])] := by decide

/-! ## parameter guard and the unchecked-parameter `transform` -/

section
variable {α : Type} [LinearOrder α] [Zero α]

/-- the float predicates of the guard read over an ordered field (no NaN, no infinity; "negative" = `< 0`) -/
def realPreds : FloatPreds α := ⟨fun x => decide (x < 0), fun _ => false, fun _ => false⟩

/-- **the guard accepts exactly the criteria of the property's quantifier**: a cluster count of at least one,
a non-negative threshold -/
theorem guard_accepts (crit : Crit α) :
    checkCrit realPreds crit = true ↔
      match crit with
      | .num c => 1 ≤ c
      | .dist d => 0 ≤ d := by
  cases crit with
  | num c => cases c <;> simp [checkCrit]
  | dist d => simp [checkCrit, realPreds, not_lt]

end

section
variable {α : Type} [LE α] [DecidableLE α]

/-- a rejected criterion is `InvalidStoppingCondition` whatever the kernel -/
theorem transform_invalid (fp : FloatPreds α) (crit : Crit α) (n : Nat) (steps : List (Step α))
    (h : checkCrit fp crit = false) : transform fp crit n steps = .invalid := by
  simp [transform, h]

/-- **an accepted criterion on a well-formed dendrogram yields a partition** (no error, no panic), for both
calling forms (kernel, dataset of a kernel) -/
theorem transform_ok (fp : FloatPreds α) (crit : Crit α) (n : Nat) (steps : List (Step α))
    (hg : checkCrit fp crit = true) (hd : DendroOK steps (List.range n) n) :
    ∃ cl, transform fp crit n steps = .ok cl ∧ (members cl).Perm (List.range n) := by
  have hsome := replay_defined crit n steps hd
  obtain ⟨cl, hcl⟩ := Option.isSome_iff_exists.mp hsome
  exact ⟨cl, by simp [transform, hg, hcl], replay_partition crit n steps cl hcl⟩

end

example : ∃ cl, transform (realPreds : FloatPreds ℚ) (Crit.num 2) 4
    [⟨0, 1, 1, 2⟩, ⟨2, 3, 2, 2⟩, ⟨4, 5, 5, 4⟩] = .ok cl := ⟨_, rfl⟩

example : checkCrit (realPreds : FloatPreds ℚ) (.dist 0) = true ∧ checkCrit (realPreds : FloatPreds ℚ) (.dist (-1)) = false ∧
    checkCrit (realPreds : FloatPreds ℚ) (.num 0) = false := by
  refine ⟨?_, ?_, ?_⟩ <;> simp [checkCrit, realPreds]

/-! ## the labels used -/

section
variable {α : Type} [LE α] [DecidableLE α]

/-- **the labels used are exactly `0 … (number of clusters) - 1`**: every label in the vector is below the
number of clusters and every such label is carried by some sample (clusters are never empty) -/
theorem labels_range (crit : Crit α) (n : Nat) (steps : List (Step α)) (cl : Clusters)
    (h : replay crit n steps = some cl) :
    (∀ p, p < n → ∃ j, j < cl.length ∧ (assign n cl)[p]? = some j) ∧
    (∀ j, j < cl.length → ∃ p, p < n ∧ (assign n cl)[p]? = some j) := by
  obtain ⟨_, hcov, hlab⟩ := labels_partition crit n steps cl h
  have hp := replay_partition crit n steps cl h
  have hne : ∀ e ∈ cl, e.2 ≠ [] := by
    apply replayGo_nonempty crit steps (initClusters n) n cl _ h
    intro e he
    simp only [initClusters, List.mem_map] at he
    obtain ⟨x, _, rfl⟩ := he
    simp
  constructor
  · intro p hpn
    obtain ⟨j, hj, hm⟩ := hcov p hpn
    exact ⟨j, hj, hlab j hj p hm⟩
  · intro j hj
    obtain ⟨p, hpm⟩ := List.exists_mem_of_ne_nil _ (hne cl[j] (List.getElem_mem hj))
    have hmem : p ∈ members cl := by
      simp only [members, List.mem_flatten, List.mem_map]
      exact ⟨cl[j].2, ⟨cl[j], List.getElem_mem hj, rfl⟩, hpm⟩
    exact ⟨p, List.mem_range.mp (hp.mem_iff.mp hmem), hlab j hj p hpm⟩

/-- **exactly `min(requested, n)` clusters in the label vector**: with `NumClusters(c)`, `c ≥ 1`, on a
complete dendrogram the labels used are exactly `0 … min c n - 1` -/
theorem labels_count (c n : Nat) (steps : List (Step α)) (cl : Clusters)
    (h : replay (Crit.num c : Crit α) n steps = some cl) (hs : steps.length = n - 1) (hc : 1 ≤ c) :
    (∀ p, p < n → ∃ j, j < min c n ∧ (assign n cl)[p]? = some j) ∧
    (∀ j, j < min c n → ∃ p, p < n ∧ (assign n cl)[p]? = some j) := by
  have := labels_range (Crit.num c : Crit α) n steps cl h
  rwa [replay_count c n steps cl h hs hc] at this

end


/-! ## single linkage -/

section
variable {α : Type} [LinearOrder α]

/-- **single linkage = connected components of the below-threshold graph.**  For a symmetric distance matrix
`D` on `n` samples, a complete single-linkage dendrogram of it (`SLOK`: every step merges two live clusters at
the least distance between their members) with non-decreasing dissimilarities, and every threshold `d`: two
samples carry the same label after `Distance(d)` exactly when they are connected by a chain of pairs at
distance `< d`. -/
theorem single_linkage_components (D : Nat → Nat → α) (hsym : ∀ i j, D i j = D j i) (d : α) (n : Nat)
    (steps : List (Step α)) (hc : SLOK D steps (initClusters n) n)
    (hm : steps.Pairwise fun x y => x.dis ≤ y.dis) (cl : Clusters)
    (h : replay (Crit.dist d) n steps = some cl) (i j : Nat) (hi : i < n) :
    SameCl cl i j ↔ Conn D d n i j := by
  have hpart := replay_partition (Crit.dist d) n steps cl h
  have hnd : (members cl).Nodup := hpart.nodup_iff.mpr List.nodup_range
  have hmem : ∀ p, p ∈ members cl ↔ p < n := fun p => by rw [hpart.mem_iff, List.mem_range]
  have hinit : ∀ e ∈ initClusters n, ∀ i ∈ e.2, ∀ j ∈ e.2, Conn D d n i j := by
    intro e he i hi j hj
    simp only [initClusters, List.mem_map, List.mem_range] at he
    obtain ⟨x, _, rfl⟩ := he
    simp only [List.mem_singleton] at hi hj
    subst hi; subst hj
    exact Conn.refl _
  obtain ⟨hconn, hsep⟩ := replayGo_single D hsym d n steps (initClusters n) n hc hm
    (fun p hp => by rw [members_init] at hp; exact List.mem_range.mp hp) hinit cl h
  constructor
  · rintro ⟨e, he, hie, hje⟩
    exact hconn e he i hie j hje
  · intro hcn
    have key : ∀ a b, Conn D d n a b → ((a < n ↔ b < n) ∧ (a < n → SameCl cl a b)) := by
      intro a b hab
      induction hab with
      | refl a =>
        refine ⟨Iff.rfl, fun ha => ?_⟩
        obtain ⟨e, he, hae⟩ := mem_members.mp ((hmem a).mpr ha)
        exact ⟨e, he, hae, hae⟩
      | edge a b ha hb hlt =>
        refine ⟨⟨fun _ => hb, fun _ => ha⟩, fun _ => ?_⟩
        by_contra hne
        exact absurd (hsep a b ((hmem a).mpr ha) ((hmem b).mpr hb) hne) (not_le.mpr hlt)
      | symm _ ih =>
        refine ⟨ih.1.symm, fun hb => ?_⟩
        obtain ⟨e, he, h1, h2⟩ := ih.2 (ih.1.mpr hb)
        exact ⟨e, he, h2, h1⟩
      | trans _ _ ih1 ih2 =>
        exact ⟨ih1.1.trans ih2.1, fun ha => sameCl_trans hnd (ih1.2 ha) (ih2.2 (ih1.1.mp ha))⟩
    exact (key i j hcn).2 hi

end

/-- three samples on a line at 0, 1, 3: `D i j = |x_i - x_j|` -/
def exD (i j : Nat) : Nat :=
  let x := [0, 1, 3]
  (x.getD i 0 - x.getD j 0) + (x.getD j 0 - x.getD i 0)

example : SLOK exD ([⟨0, 1, 1, 2⟩, ⟨2, 3, 2, 3⟩] : List (Step Nat)) (initClusters 3) 3 := by
  refine SLOK.cons _ _ _ _ [0] [(1, [1]), (2, [2])] [1] [(2, [2])] (by decide) (by decide)
    ⟨0, by simp, 1, by simp, by decide⟩ (by decide) ?_
  refine SLOK.cons _ _ _ _ [2] [(3, [0, 1])] [0, 1] [] (by decide) (by decide)
    ⟨2, by simp, 1, by simp, by decide⟩ (by decide) ?_
  exact SLOK.nil _ _ (by decide)

example : replay (Crit.dist 2 : Crit Nat) 3 [⟨0, 1, 1, 2⟩, ⟨2, 3, 2, 3⟩] = some [(3, [0, 1]), (2, [2])] := by
  decide


/-! ## round 3: the functions the driver answers through

`kernelBuild` (the whole `Kernel::new`, `method` field included), `checkCrit` with *any* float predicates
(so also the bit-level ones the driver runs), `transformKernel` (the `-ln` transform composed with the external
linkage and the replay), and "whichever neighbour index is used". -/

section
variable {α : Type} [Field α] [Transc α] [KPow α]

/-- **`Kernel::new` hands the kernel method through untouched**: the kernel it returns carries exactly the
requested method (bandwidth, constant, degree as given — no clamping or rounding), reports `is_linear` of that
method, and its matrix is the one `kernelNew` builds from that same method -/
theorem kernel_build_method (kind : Kind) (m : Method α) (X : List (List α)) (nb : List (List Nat)) (K : Built α)
    (h : kernelBuild kind m X nb = some K) :
    K.method = m ∧ K.isLinear = m.isLinear ∧ kernelNew kind m X nb = some K.inner := by
  simp only [kernelBuild, Option.map_eq_some_iff] at h
  obtain ⟨I, hI, rfl⟩ := h
  exact ⟨rfl, rfl, hI⟩

/-- `kernelBuild` succeeds exactly when `kernelNew` does (dense, or `0 < k < n`) -/
theorem kernel_build_guard (kind : Kind) (m : Method α) (X : List (List α)) (nb : List (List Nat)) :
    (kernelBuild kind m X nb).isSome ↔
      match kind with
      | .dense => True
      | .sparse k => 0 < k ∧ k < X.length := by
  rw [← kernel_new_guard kind m X nb]
  simp [kernelBuild]

/-- **the sparse kernel depends on the neighbour index only through the sets it returns**: two indices whose
answers have the same members for every row (in whatever order) give the same kernel -/
theorem sparse_index_independent (m : Method α) (X : List (List α)) (k : Nat) (nb nb' : List (List Nat))
    (h : ∀ i j, i < X.length → (j ∈ nb.getD i [] ↔ j ∈ nb'.getD i [])) :
    sparseFromFn m X k nb = sparseFromFn m X k nb' := by
  unfold sparseFromFn
  simp only [support_congr X.length nb nb' h]

/-- **whichever neighbour index is used** (tie-free records): if both indices answer every `k_nearest(row i,
k+1)` with *the* `k+1` nearest points under a distance `d i` without ties across the cut (`Nearest`), the two
sparse kernels are equal -/
theorem sparse_whichever_index {β : Type} [Preorder β] (d : Nat → Nat → β) (m : Method α) (X : List (List α))
    (k : Nat) (nb nb' : List (List Nat))
    (h : ∀ i, i < X.length → Nearest (d i) X.length (k + 1) (nb.getD i []))
    (h' : ∀ i, i < X.length → Nearest (d i) X.length (k + 1) (nb'.getD i [])) :
    sparseFromFn m X k nb = sparseFromFn m X k nb' :=
  sparse_index_independent m X k nb nb' fun i j hi => nearest_unique (d i) X.length (k + 1) _ _ (h i hi) (h' i hi) j

end

example : Nearest (fun j => ([0, 1, 9, 4] : List Nat).getD j 0) 4 2 [1, 0] := by
  refine ⟨by decide, rfl, by decide, ?_⟩
  intro a ha b hb hnb
  have : a = 1 ∨ a = 0 := by simpa using ha
  have hb' : b = 2 ∨ b = 3 := by
    have : b ≠ 1 ∧ b ≠ 0 := by simpa using hnb
    omega
  rcases this with rfl | rfl <;> rcases hb' with rfl | rfl <;> decide

example : sparseFromFn (.linear : Method ℚ) [[0], [1], [3]] 1 [[0, 1], [1, 0], [2, 1]] =
    sparseFromFn (.linear : Method ℚ) [[0], [1], [3]] 1 [[1, 0], [0, 1], [1, 2]] :=
  sparse_index_independent _ _ _ _ _ (by
    intro i j hi
    have : i = 0 ∨ i = 1 ∨ i = 2 := by simp at hi; omega
    rcases this with rfl | rfl | rfl <;> simp [or_comm])

/-- **the guard, for the predicates the driver runs**: with *any* reading of `is_negative` / `is_nan` /
`is_infinite` (the sign-bit reading of `Float` and `Float32` in `Drv/C06.lean` included) the guard accepts
exactly a count of at least one and a threshold for which none of the three predicates fires.
`guard_accepts` is the instance for an ordered field. -/
theorem guard_accepts_preds {α : Type} (fp : FloatPreds α) (crit : Crit α) :
    checkCrit fp crit = true ↔
      match crit with
      | .num c => 1 ≤ c
      | .dist d => fp.isNeg d = false ∧ fp.isNan d = false ∧ fp.isInf d = false := by
  cases crit with
  | num c => cases c <;> simp [checkCrit]
  | dist d => simp [checkCrit, and_assoc]

example : checkCrit (⟨fun x => decide (x < 0), fun _ => false, fun x => decide (x = 1000)⟩ : FloatPreds ℚ) (.dist 5) = true :=
  (guard_accepts_preds _ _).mpr ⟨by decide, rfl, by decide⟩

section
variable {α : Type} [LT α] [DecidableLT α] [LE α] [DecidableLE α] [Neg α] [Transc α]

/-- **`transform` from the kernel**: a rejected criterion is an error before the kernel is looked at -/
theorem transform_kernel_invalid (fp : FloatPreds α) (thr : α) (link : List α → Nat → List (Step α))
    (crit : Crit α) (n : Nat) (ut : List α) (h : checkCrit fp crit = false) :
    transformKernel fp thr link crit n ut = .invalid :=
  transform_invalid fp crit n _ h

/-- **`transform` from the kernel**: for an accepted criterion, whatever the kernel's entries, if the external
linkage answers the `-ln`-transformed upper triangle with a well-formed dendrogram, the result is a partition of
the samples -/
theorem transform_kernel_ok (fp : FloatPreds α) (thr : α) (link : List α → Nat → List (Step α))
    (crit : Crit α) (n : Nat) (ut : List α) (hg : checkCrit fp crit = true)
    (hd : DendroOK (link (distances thr ut) n) (List.range n) n) :
    ∃ cl, transformKernel fp thr link crit n ut = .ok cl ∧ (members cl).Perm (List.range n) :=
  transform_ok fp crit n _ hg hd

/-- the recorded linkage the driver uses answers the model's own question with the recorded dendrogram — so
the driver's `transformKernel … (recorded close q steps)` is `transform … steps` whenever the model's distance
vector is the recorded one -/
theorem transform_kernel_recorded (fp : FloatPreds α) (thr : α) (close : α → α → Bool) (steps : List (Step α))
    (crit : Crit α) (n : Nat) (ut : List α) (hc : ∀ x ∈ distances thr ut, close x x = true) :
    transformKernel fp thr (recorded close (distances thr ut) steps) crit n ut = transform fp crit n steps := by
  unfold transformKernel
  rw [recorded_self close _ steps n hc]

end

example : ∃ cl, transformKernel (realPreds : FloatPreds ℚ) 0 (fun _ _ => [⟨0, 1, 1, 2⟩, ⟨2, 3, 2, 2⟩, ⟨4, 5, 5, 4⟩])
    (Crit.num 2) 4 [] = .ok cl := ⟨_, rfl⟩

/-- **"-ln similarity"**: over `ℝ` the transform is `-ln (max x thr)`; a pair is closer than the threshold `d`
exactly when its (floored) similarity exceeds `exp (-d)`, and a larger similarity is a smaller dissimilarity -/
theorem toDist_spec (thr x y d : ℝ) (hthr : 0 < thr) :
    toDist thr x = -Real.log (max x thr) ∧ (toDist thr x < d ↔ Real.exp (-d) < max x thr) ∧
      (x ≤ y → toDist thr y ≤ toDist thr x) :=
  ⟨real_toDist thr x, real_toDist_lt_iff thr x d hthr, real_toDist_antitone thr x y hthr⟩

example : toDist (1 / 1000000 : ℝ) 1 = 0 := by
  rw [real_toDist, max_eq_left (by norm_num), Real.log_one, neg_zero]

/-- **single linkage on a kernel = components of the similarity graph.**  For a symmetric similarity `K`, the
floor `thr > 0`, and a complete single-linkage dendrogram of the dissimilarities `toDist thr (K i j)` with
non-decreasing steps: after `Distance(d)` two samples carry the same label exactly when they are connected by a
chain of pairs whose floored similarity exceeds `exp (-d)` -/
theorem kernel_single_linkage_components (K : Nat → Nat → ℝ) (hK : ∀ i j, K i j = K j i) (thr : ℝ) (hthr : 0 < thr)
    (d : ℝ) (n : Nat) (steps : List (Step ℝ))
    (hc : SLOK (fun i j => toDist thr (K i j)) steps (initClusters n) n)
    (hm : steps.Pairwise fun x y => x.dis ≤ y.dis) (cl : Clusters)
    (h : replay (Crit.dist d) n steps = some cl) (i j : Nat) (hi : i < n) :
    SameCl cl i j ↔ Conn (fun a b => -(max (K a b) thr)) (-(Real.exp (-d))) n i j := by
  rw [single_linkage_components (fun i j => toDist thr (K i j)) (fun i j => by simp only [hK i j]) d n steps hc hm
    cl h i j hi]
  apply conn_congr
  intro a b
  rw [real_toDist_lt_iff thr (K a b) d hthr, neg_lt_neg_iff]

section
variable {α : Type} [LinearOrder α]

/-- **every merge below the threshold, without exact monotonicity**: it suffices that no merge below `d`
follows a merge at or above `d` (the recomputed dissimilarities of average / weighted / Ward linkage are
non-decreasing only up to rounding; this hypothesis tolerates any noise that does not cross the threshold) -/
theorem replay_threshold_all_closed (d : α) (n : Nat) (steps : List (Step α))
    (hm : ∀ pre s post, steps = pre ++ s :: post → d ≤ s.dis → ∀ t ∈ post, d ≤ t.dis) :
    replay (Crit.dist d) n steps =
      mergeAll (steps.filter fun s => decide (s.dis < d)) (initClusters n) n := by
  rw [replay_threshold, takeWhile_eq_filter_of_closed d steps hm]

end

example : replay (Crit.dist 3 : Crit Nat) 4 [⟨0, 1, 2, 2⟩, ⟨2, 3, 1, 2⟩, ⟨4, 5, 5, 4⟩] =
    mergeAll (([⟨0, 1, 2, 2⟩, ⟨2, 3, 1, 2⟩, ⟨4, 5, 5, 4⟩] : List (Step Nat)).filter fun s => decide (s.dis < 3))
      (initClusters 4) 4 := by decide


end LinfaSpec.Props.C06
