import LinfaSpec.Model.Predict
namespace LinfaSpec.Props.C03
end LinfaSpec.Props.C03
