import LinfaSpec.Proofs.Predict
import Mathlib.Order.Defs.LinearOrder

/-!
# C03 — prediction is a per-sample function through every calling form
-/
namespace LinfaSpec.Props.C03
open LinfaSpec.Predict

/-! ## MultiTargetModel -/

/-- **column j of the wrapper is model j's prediction, row by row**: for members that are
per-sample functions `g_j`, the flat-buffer / `into_shape((m, n))` / `reversed_axes` pipeline never
fails and yields the `n × m` table `out[i][j] = g_j (rows[i])` — for every number of rows
(incl. none) and every number of members (incl. none). -/
theorem multiTarget_spec {R L : Type} (gs : List (R → L)) (rows : List R) :
    multiTargetBatch (gs.map fun g => fun rs => rs.map g) rows =
      some (rows.map fun r => gs.map fun g => g r) := by
  unfold multiTargetBatch
  simp only [List.flatMap_map, List.length_map, flatMap_map_length, ne_eq, not_true_eq_false,
    if_false, Option.some.injEq]
  apply List.ext_getElem?
  intro i
  by_cases hi : i < rows.length
  · simp only [List.getElem?_map, List.getElem?_range hi, Option.map_some,
      List.getElem?_eq_getElem hi]
    congr 1
    have : ∀ j, (gs.flatMap fun g => rows.map g)[j * rows.length + i]? =
        (gs[j]?).map fun g => g rows[i] := by
      intro j
      rw [flat_getElem? gs rows i j hi, List.getElem?_eq_getElem hi]
      cases gs[j]? <;> simp
    simp only [this]
    exact filterMap_range_getElem? gs (fun g => g rows[i])
  · have h1 : rows.length ≤ i := by omega
    simp [h1]

example : multiTargetBatch ([fun (x : Nat) => x + 100, fun x => 2 * x].map fun g => fun rs => rs.map g) [1, 2, 3]
    = some [[101, 2], [102, 4], [103, 6]] := by decide

/-- the `j * n + i` index statement itself -/
theorem multiTarget_entry {R L : Type} (gs : List (R → L)) (rows : List R) (i j : Nat)
    (hi : i < rows.length) (hj : j < gs.length) :
    ∃ out, multiTargetBatch (gs.map fun g => fun rs => rs.map g) rows = some out ∧
      (out[i]?).bind (·[j]?) = some (gs[j] rows[i]) := by
  refine ⟨_, multiTarget_spec gs rows, ?_⟩
  simp [List.getElem?_eq_getElem hi, List.getElem?_eq_getElem hj]

example : ∃ out, multiTargetBatch ([fun (x : Nat) => x + 100, fun x => 2 * x].map fun g => fun rs => rs.map g) [1, 2, 3] = some out ∧
    (out[2]?).bind (·[1]?) = some 6 := multiTarget_entry _ _ 2 1 (by decide) (by decide)


/-! ## MultiClassModel -/

/-- the wrapper's whole-batch loop (first member initialises, every later member overwrites
where its probability is strictly higher, labels written into the default-filled target) equals,
row by row, the per-row running arg-max over the members — any batch, any number of members. -/
theorem multiClass_batch_eq_map {R L P : Type} [LT P] [DecidableLT P]
    (ms : List (L × (R → P))) (rows : List R) (dflt : L) :
    multiClassBatch (ms.map fun m => (m.1, fun rs => rs.map m.2)) rows dflt =
      rows.map fun r => multiClassRow ms r dflt := by
  unfold multiClassBatch
  cases hrows : rows with
  | nil => simp [multiClass_fold_nil]
  | cons r0 rs =>
    rw [← hrows]
    have hne : rows ≠ [] := by simp [hrows]
    cases ms with
    | nil => simp [multiClassRow, List.map_const']
    | cons m ms =>
      simp only [List.map_cons, List.foldl_cons]
      have h0 : multiClassStep ([] : List (L × P)) ((rows.map m.2).map fun p => (m.1, p)) =
          rows.map fun r => (m.1, m.2 r) := by
        simp [multiClassStep]
      rw [h0, multiClass_fold_cons ms rows hne]
      simp [multiClassRow, List.take_of_length_le]

example : multiClassBatch ([(7, fun (x : Nat) => x % 3), (9, fun x => x % 2), (4, fun x => x % 3)].map
    fun m => (m.1, fun rs => rs.map m.2)) [0, 1, 2, 3] 0 = [7, 7, 7, 9] := by decide

/-- **the label returned is that of the first member with the highest probability**: the running
arg-max splits the (label, probability) list as `pre ++ r :: post` with everything before `r`
strictly smaller and nothing anywhere larger. -/
theorem multiClass_argmax {L P : Type} [LinearOrder P] (best : L × P) (ds : List (L × P)) :
    ∃ pre post, best :: ds = pre ++ argmaxPairGo best ds :: post ∧
      (∀ d ∈ pre, d.2 < (argmaxPairGo best ds).2) ∧
      (∀ d ∈ best :: ds, d.2 ≤ (argmaxPairGo best ds).2) := by
  induction ds generalizing best with
  | nil => exact ⟨[], [], rfl, by simp, by simp [argmaxPairGo]⟩
  | cons d rest ih =>
    simp only [argmaxPairGo]
    by_cases h : best.2 < d.2
    · simp only [h, if_true]
      obtain ⟨pre, post, e, hpre, hall⟩ := ih d
      have hd : d.2 ≤ (argmaxPairGo d rest).2 := hall d (by simp)
      refine ⟨best :: pre, post, by rw [e]; rfl, ?_, ?_⟩
      · intro x hx
        rcases List.mem_cons.mp hx with rfl | hx
        · exact lt_of_lt_of_le h hd
        · exact hpre x hx
      · intro x hx
        rcases List.mem_cons.mp hx with rfl | hx
        · exact le_of_lt (lt_of_lt_of_le h hd)
        · exact hall x hx
    · simp only [h, if_false]
      have hle : d.2 ≤ best.2 := not_lt.mp h
      obtain ⟨pre, post, e, hpre, hall⟩ := ih best
      have hb : best.2 ≤ (argmaxPairGo best rest).2 := hall best (by simp)
      cases pre with
      | nil =>
        simp only [List.nil_append, List.cons.injEq] at e
        refine ⟨[], d :: rest, ?_, by simp, ?_⟩
        · rw [← e.1]; rfl
        · intro x hx
          rcases List.mem_cons.mp hx with rfl | hx
          · exact hb
          · rcases List.mem_cons.mp hx with rfl | hx
            · exact le_trans hle hb
            · exact hall x (List.mem_cons_of_mem _ hx)
      | cons p pre' =>
        simp only [List.cons_append, List.cons.injEq] at e
        obtain ⟨e1, e2⟩ := e
        subst e1
        have hbl : best.2 < (argmaxPairGo best rest).2 := hpre best (by simp)
        refine ⟨best :: d :: pre', post, by rw [List.cons_append, List.cons_append, ← e2], ?_, ?_⟩
        · intro x hx
          rcases List.mem_cons.mp hx with rfl | hx
          · exact hbl
          · rcases List.mem_cons.mp hx with rfl | hx
            · exact lt_of_le_of_lt hle hbl
            · exact hpre x (List.mem_cons_of_mem _ hx)
        · intro x hx
          rcases List.mem_cons.mp hx with rfl | hx
          · exact hb
          · rcases List.mem_cons.mp hx with rfl | hx
            · exact le_trans hle hb
            · exact hall x (List.mem_cons_of_mem _ hx)

example : argmaxPairGo (7, 1) [(9, 3), (4, 3), (5, 2)] = (9, 3) := by decide

end LinfaSpec.Props.C03
