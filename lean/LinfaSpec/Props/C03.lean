import LinfaSpec.Proofs.Predict
import LinfaSpec.Proofs.PredictOrder
import LinfaSpec.Proofs.PredictPlatt
import Mathlib.Order.Defs.LinearOrder

/-!
# C03 — prediction is a per-sample function through every calling form
-/
namespace LinfaSpec.Props.C03
open LinfaSpec.Predict

/-! ## MultiTargetModel -/

/-- **column j of the wrapper is model j's prediction, row by row**: for members that are
per-sample functions `g_j`, the flat-buffer / `into_shape((m, n))` / `reversed_axes` pipeline never
fails and yields the `n × m` table `out[i][j] = g_j (rows[i])` — for every number of rows
(incl. none) and every number of members (incl. none). -/
theorem multiTarget_spec {R L : Type} (gs : List (R → L)) (rows : List R) :
    multiTargetBatch (gs.map fun g => fun rs => rs.map g) rows =
      some (rows.map fun r => gs.map fun g => g r) := by
  unfold multiTargetBatch
  simp only [List.flatMap_map, List.length_map, flatMap_map_length, ne_eq, not_true_eq_false,
    if_false, Option.some.injEq]
  apply List.ext_getElem?
  intro i
  by_cases hi : i < rows.length
  · simp only [List.getElem?_map, List.getElem?_range hi, Option.map_some,
      List.getElem?_eq_getElem hi]
    congr 1
    have : ∀ j, (gs.flatMap fun g => rows.map g)[j * rows.length + i]? =
        (gs[j]?).map fun g => g rows[i] := by
      intro j
      rw [flat_getElem? gs rows i j hi, List.getElem?_eq_getElem hi]
      cases gs[j]? <;> simp
    simp only [this]
    exact filterMap_range_getElem? gs (fun g => g rows[i])
  · have h1 : rows.length ≤ i := by omega
    simp [h1]

example : multiTargetBatch ([fun (x : Nat) => x + 100, fun x => 2 * x].map fun g => fun rs => rs.map g) [1, 2, 3]
    = some [[101, 2], [102, 4], [103, 6]] := by decide

/-- the `j * n + i` index statement itself -/
theorem multiTarget_entry {R L : Type} (gs : List (R → L)) (rows : List R) (i j : Nat)
    (hi : i < rows.length) (hj : j < gs.length) :
    ∃ out, multiTargetBatch (gs.map fun g => fun rs => rs.map g) rows = some out ∧
      (out[i]?).bind (·[j]?) = some (gs[j] rows[i]) := by
  refine ⟨_, multiTarget_spec gs rows, ?_⟩
  simp [List.getElem?_eq_getElem hi, List.getElem?_eq_getElem hj]

example : ∃ out, multiTargetBatch ([fun (x : Nat) => x + 100, fun x => 2 * x].map fun g => fun rs => rs.map g) [1, 2, 3] = some out ∧
    (out[2]?).bind (·[1]?) = some 6 := multiTarget_entry _ _ 2 1 (by decide) (by decide)


/-! ## MultiClassModel -/

/-- the wrapper's whole-batch loop (first member initialises, every later member overwrites
where its probability is strictly higher, labels written into the default-filled target) equals,
row by row, the per-row running arg-max over the members — any batch, any number of members. -/
theorem multiClass_batch_eq_map {R L P : Type} [LT P] [DecidableLT P]
    (ms : List (L × (R → P))) (rows : List R) (dflt : L) :
    multiClassBatch (ms.map fun m => (m.1, fun rs => rs.map m.2)) rows dflt =
      rows.map fun r => multiClassRow ms r dflt := by
  unfold multiClassBatch
  cases hrows : rows with
  | nil => simp [multiClass_fold_nil]
  | cons r0 rs =>
    rw [← hrows]
    have hne : rows ≠ [] := by simp [hrows]
    cases ms with
    | nil => simp [multiClassRow, List.map_const']
    | cons m ms =>
      simp only [List.map_cons, List.foldl_cons]
      have h0 : multiClassStep ([] : List (L × P)) ((rows.map m.2).map fun p => (m.1, p)) =
          rows.map fun r => (m.1, m.2 r) := by
        simp [multiClassStep]
      rw [h0, multiClass_fold_cons ms rows hne]
      simp [multiClassRow, List.take_of_length_le]

example : multiClassBatch ([(7, fun (x : Nat) => x % 3), (9, fun x => x % 2), (4, fun x => x % 3)].map
    fun m => (m.1, fun rs => rs.map m.2)) [0, 1, 2, 3] 0 = [7, 7, 7, 9] := by decide

/-- **the label returned is that of the first member with the highest probability**: the running
arg-max splits the (label, probability) list as `pre ++ r :: post` with everything before `r`
strictly smaller and nothing anywhere larger. -/
theorem multiClass_argmax {L P : Type} [LinearOrder P] (best : L × P) (ds : List (L × P)) :
    ∃ pre post, best :: ds = pre ++ argmaxPairGo best ds :: post ∧
      (∀ d ∈ pre, d.2 < (argmaxPairGo best ds).2) ∧
      (∀ d ∈ best :: ds, d.2 ≤ (argmaxPairGo best ds).2) := by
  induction ds generalizing best with
  | nil => exact ⟨[], [], rfl, by simp, by simp [argmaxPairGo]⟩
  | cons d rest ih =>
    simp only [argmaxPairGo]
    by_cases h : best.2 < d.2
    · simp only [h, if_true]
      obtain ⟨pre, post, e, hpre, hall⟩ := ih d
      have hd : d.2 ≤ (argmaxPairGo d rest).2 := hall d (by simp)
      refine ⟨best :: pre, post, by rw [e]; rfl, ?_, ?_⟩
      · intro x hx
        rcases List.mem_cons.mp hx with rfl | hx
        · exact lt_of_lt_of_le h hd
        · exact hpre x hx
      · intro x hx
        rcases List.mem_cons.mp hx with rfl | hx
        · exact le_of_lt (lt_of_lt_of_le h hd)
        · exact hall x hx
    · simp only [h, if_false]
      have hle : d.2 ≤ best.2 := not_lt.mp h
      obtain ⟨pre, post, e, hpre, hall⟩ := ih best
      have hb : best.2 ≤ (argmaxPairGo best rest).2 := hall best (by simp)
      cases pre with
      | nil =>
        simp only [List.nil_append, List.cons.injEq] at e
        refine ⟨[], d :: rest, ?_, by simp, ?_⟩
        · rw [← e.1]; rfl
        · intro x hx
          rcases List.mem_cons.mp hx with rfl | hx
          · exact hb
          · rcases List.mem_cons.mp hx with rfl | hx
            · exact le_trans hle hb
            · exact hall x (List.mem_cons_of_mem _ hx)
      | cons p pre' =>
        simp only [List.cons_append, List.cons.injEq] at e
        obtain ⟨e1, e2⟩ := e
        subst e1
        have hbl : best.2 < (argmaxPairGo best rest).2 := hpre best (by simp)
        refine ⟨best :: d :: pre', post, by rw [List.cons_append, List.cons_append, ← e2], ?_, ?_⟩
        · intro x hx
          rcases List.mem_cons.mp hx with rfl | hx
          · exact hbl
          · rcases List.mem_cons.mp hx with rfl | hx
            · exact lt_of_le_of_lt hle hbl
            · exact hpre x (List.mem_cons_of_mem _ hx)
        · intro x hx
          rcases List.mem_cons.mp hx with rfl | hx
          · exact hb
          · rcases List.mem_cons.mp hx with rfl | hx
            · exact le_trans hle hb
            · exact hall x (List.mem_cons_of_mem _ hx)

example : argmaxPairGo (7, 1) [(9, 3), (4, 3), (5, 2)] = (9, 3) := by decide

/-- what the statement asks of the wrapper, without the tie-break: the pair returned is one of the
members' (label, probability) pairs for that row and no member has a higher probability -/
theorem multiClass_label_has_max_probability {L P : Type} [LinearOrder P] (best : L × P)
    (ds : List (L × P)) :
    argmaxPairGo best ds ∈ best :: ds ∧ ∀ d ∈ best :: ds, d.2 ≤ (argmaxPairGo best ds).2 := by
  obtain ⟨pre, post, e, _, hall⟩ := multiClass_argmax best ds
  exact ⟨by rw [e]; simp, hall⟩

example : (argmaxPairGo (7, 1) [(9, 3), (4, 3), (5, 2)]) ∈ [(7, 1), (9, 3), (4, 3), (5, 2)] :=
  (multiClass_label_has_max_probability (7, 1) [(9, 3), (4, 3), (5, 2)]).1


/-! ## The structural families: `batch = map row`

Each `…Batch` is written as the Rust code processes the whole matrix; each `…Row` is what it
does to one row.  All statements hold for every batch (empty, single, duplicated, any order). -/

section families
set_option linter.unusedSectionVars false
variable {α : Type} [Add α] [Sub α] [Mul α] [Div α] [LT α] [DecidableLT α] [LE α] [DecidableLE α]
  [OfNat α 0]

/-- affine family (`x.dot(w) + b`: OLS, elastic net, GLM linear predictor, logistic, SVM-linear) -/
theorem affine_batch_eq_map (rows : List (List α)) (w : List α) (b : α) :
    affineBatch rows w b = rows.map (affineRow w b) := by
  simp [affineBatch, matVec, affineRow, List.map_map, Function.comp_def]

/-- centred/scaled linear maps (`((x - mean) / std)·C + bias`: PCA, PLS, multi-task elastic net):
the four whole-matrix passes equal the per-row computation -/
theorem linMap_batch_eq_map (mean std : List α) (cols : List (List α)) (bias : List α)
    (rows : List (List α)) :
    linMapBatch mean std cols bias rows = rows.map (linMapRow mean std cols bias) := by
  simp [linMapBatch, addRows, matMul, divRows, subRows, linMapRow, List.map_map, Function.comp_def]

/-- k-means: with at least one centroid no call fails and the membership vector is the per-row
nearest-centroid index -/
theorem kmeans_batch_eq_map (c0 : List α) (cents : List (List α)) (rows : List (List α)) :
    kmeansBatch (c0 :: cents) rows =
      some (rows.map fun r => (closestGo r (c0 :: cents) 0 (0, sqDist c0 r)).1) := by
  unfold kmeansBatch
  exact mapM_some_of_forall _ _ rows (fun r _ => by simp [closestCentroid])

/-- score tables (naive Bayes: class-major likelihood table read sample-major; GMM; multinomial
logistic): for per-sample class scores the arg-max of column `i` of the class-major table is the
arg-max of row `i`'s own score vector; the call fails exactly when there is a row but no class. -/
theorem table_batch_eq_map {R : Type} (ss : List (R → α)) (rows : List R) :
    tableBatch (ss.map fun s => fun rs => rs.map s) rows =
      if ss.isEmpty && !rows.isEmpty then none else some (rows.map (tableRow ss)) := by
  unfold tableBatch
  simp only [List.isEmpty_map, List.map_map, Function.comp_def]
  split
  · rfl
  · congr 1
    apply map_range_eq_map
    intro i hi
    simp only [tableRow]
    rw [column_of_rows ss rows i hi]

/-- threshold family (binary logistic `p >= threshold`, SVM `val >= 0`) -/
theorem thresh_batch_eq_map {R : Type} (d : R → α) (thr : α) (rows : List R) :
    threshBatch (fun rs => rs.map d) thr rows = rows.map fun r => decide (thr ≤ d r) := by
  simp [threshBatch, List.map_map, Function.comp_def]

end families

example : affineBatch ([[1, 2], [3, 4]] : List (List Int)) [10, 1] 5 = [17, 39] := by decide
example : linMapBatch ([1, 1] : List Int) [1, 1] [[1, 0], [1, 1]] [0, 100] [[1, 2], [3, 4]] = [[0, 101], [2, 105]] := by decide
example : kmeansBatch ([[0], [10]] : List (List Int)) [[1], [9], [5]] = some [0, 1, 0] := by decide
example : tableBatch ([fun (x : Int) => x, fun x => 3 - x].map fun s => fun rs => rs.map s) [0, 1, 2, 3]
    = some [1, 1, 0, 0] := by decide
example : threshBatch (fun rs => rs.map fun (x : Int) => 2 * x) 3 [1, 2] = [false, true] := by decide

/-- k-means (oracle clause `nearest_centroid`): whatever `closest_centroid` returns is an index into
the centroid table, the distance of that very centroid, and no centroid is nearer — for every
table and every observation (first minimum; centroid 0 visited twice changes nothing) -/
theorem kmeans_nearest_centroid {α : Type} [LinearOrder α] [Add α] [Sub α] [Mul α] [OfNat α 0]
    (cents : List (List α)) (obs : List α) (i : Nat) (d : α)
    (h : closestCentroid cents obs = some (i, d)) :
    ∃ hi : i < cents.length, d = sqDist cents[i] obs ∧ ∀ c ∈ cents, d ≤ sqDist c obs :=
  closestCentroid_nearest cents obs i d h

example : closestCentroid ([[0], [10], [4]] : List (List Int)) [5] = some (2, 1) := by decide

/-- score tables (naive Bayes, GMM, multinomial logistic): the class returned for a row is in range,
its score is maximal among the row's scores and every earlier class scores strictly less -/
theorem table_row_first_max {R α : Type} [LinearOrder α] (ss : List (R → α)) (r : R) (hne : ss ≠ []) :
    ∃ v, (ss.map fun s => s r)[tableRow ss r]? = some v ∧ (∀ s ∈ ss, s r ≤ v) ∧
      ∀ j y, j < tableRow ss r → (ss.map fun s => s r)[j]? = some y → y < v := by
  obtain ⟨v, h1, h2, h3⟩ := argmaxIdx_first_max (ss.map fun s => s r) (by simpa using hne)
  exact ⟨v, h1, fun s hs => h2 (s r) (List.mem_map_of_mem hs), h3⟩

example : tableRow [fun (x : Int) => x, fun x => 3 - x, fun x => 3 - x] 1 = 1 := by decide

/-- tree descent never fails when every split feature exists in the row -/
def treeFeaturesBelow {α L : Type} : Tree α L → Nat → Prop
  | .leaf _, _ => True
  | .node f _ lo hi, p => f < p ∧ treeFeaturesBelow lo p ∧ treeFeaturesBelow hi p

theorem tree_descend_total {α L : Type} [LE α] [DecidableLE α] (t : Tree α L) (x : List α)
    (h : treeFeaturesBelow t x.length) : ∃ l, treeDescend t x = some l := by
  induction t with
  | leaf l => exact ⟨l, rfl⟩
  | node f thr lo hi ihlo ihhi =>
    obtain ⟨hf, hlo, hhi⟩ := h
    simp only [treeDescend, List.getElem?_eq_getElem hf]
    split
    · exact ihlo hlo
    · exact ihhi hhi

def treeAnyLeaf {α L : Type} : Tree α L → L
  | .leaf l => l
  | .node _ _ lo _ => treeAnyLeaf lo

/-- decision tree: the batch loop is the per-row descent, and it is total on rows of the
fitted width -/
theorem tree_batch_eq_map {α L : Type} [LE α] [DecidableLE α] (t : Tree α L) (rows : List (List α))
    (p : Nat) (ht : treeFeaturesBelow t p) (hrows : ∀ r ∈ rows, r.length = p) :
    ∃ g : List α → L, (∀ r ∈ rows, treeDescend t r = some (g r)) ∧
      treeBatch t rows = some (rows.map g) := by
  refine ⟨fun r => (treeDescend t r).getD (treeAnyLeaf t), ?_, ?_⟩
  · intro r hr
    obtain ⟨l, hl⟩ := tree_descend_total t r (by rw [hrows r hr]; exact ht)
    simp [hl]
  · apply mapM_some_of_forall
    intro r hr
    obtain ⟨l, hl⟩ := tree_descend_total t r (by rw [hrows r hr]; exact ht)
    simp [hl]

example : treeBatch (LinfaSpec.Predict.Tree.node 0 (5 : Int) (.leaf 1) (.node 1 2 (.leaf 2) (.leaf 3))) [[5, 0], [6, 2], [6, 3]]
    = some [1, 2, 3] := by decide

/-! ## What `batch = map row` gives: composition, order and multiplicity of the batch do not matter

Stated about `predictForm` of a per-sample model (`perSample_length / _append / _perm / _row_alone /
_duplicates`, below) — the round-2 versions were facts about `List.map` that mentioned no model
function and have been retired. -/

/-! ## The calling forms and the target buffer -/

/-- the five forms that allocate their own buffer (`&records`, `records`, `&dataset`, `dataset`,
`predict_inplace` into `default_target`) return the same targets — whatever the model does with
its buffer and whatever buffer the caller holds -/
theorem forms_agree {R T : Type} (m : Inplace R T) (f g : Form) (records : List R) (buf buf' : T)
    (hf : f ≠ .inplaceInto) (hg : g ≠ .inplaceInto) :
    (predictForm m f records buf).targets = (predictForm m g records buf').targets := by
  cases f <;> cases g <;> first | rfl | contradiction

/-- a model *overwrites* its buffer: on admissible buffers (`ok` = the shape assert at the head of
`predict_inplace`) the outcome does not depend on what the buffer held -/
def Overwrites {R T : Type} (m : Inplace R T) (ok : List R → T → Prop) : Prop :=
  (∀ rs y, ok rs y → ok rs (m.defaultTarget rs)) ∧
  ∀ rs y y', ok rs y → ok rs y' → m.predictInplace rs y = m.predictInplace rs y'

/-- **in place into a supplied buffer**: for a model that overwrites its buffer, all six calling
forms — including `predict_inplace` into any admissible pre-filled or reused buffer — return the
same targets -/
theorem forms_agree_supplied {R T : Type} (m : Inplace R T) (ok : List R → T → Prop)
    (h : Overwrites m ok) (f g : Form) (records : List R) (buf buf' : T)
    (hb : ok records buf) (hb' : ok records buf') :
    (predictForm m f records buf).targets = (predictForm m g records buf').targets := by
  have e1 := h.2 records buf (m.defaultTarget records) hb (h.1 records buf hb)
  have e2 := h.2 records buf' (m.defaultTarget records) hb' (h.1 records buf hb)
  cases f <;> cases g <;> simp only [predictForm] <;> first | rfl | exact e1 | exact e2.symm | exact e1.trans e2.symm

/-- the dataset-returning forms hand back the input records unchanged -/
theorem dataset_form_returns_records {R T : Type} (m : Inplace R T) (records : List R) (buf : T) :
    (predictForm m .ownedArray records buf).records = some records ∧
    (predictForm m .ownedDataset records buf).records = some records := ⟨rfl, rfl⟩

/-- `*y = e` after the shape assert: the outcome is the assigned value on every admissible buffer
and a panic on every other one (OLS, elastic net, GLM, PLS, PCA, naive Bayes, GMM, multi-target) -/
theorem assign_inplace_spec {T : Type} (ok : Bool) (v : Option T) :
    assignInplace ok v = if ok then v else none := rfl

/-- the zip loop after the length assert: for a per-row function that never panics on the rows of
the batch the outcome is `rows.map g`, whatever the buffer held; a buffer of another length is the
documented panic -/
theorem zip_inplace_spec {R β : Type} (f : R → Option β) (g : R → β) (rows : List R) (y : List β)
    (h : ∀ r ∈ rows, f r = some (g r)) :
    zipInplace f rows y = if y.length = rows.length then some (rows.map g) else none := by
  unfold zipInplace
  by_cases hl : y.length = rows.length
  · simp only [hl, ne_eq, not_true_eq_false, if_false, if_true]
    exact zipWrite_eq_map f g rows y h hl
  · simp [hl]

/-- OLS / elastic net / GLM linear predictor into a supplied buffer -/
theorem affine_inplace_overwrites {α : Type} [Add α] [Mul α] [OfNat α 0]
    (rows : List (List α)) (w : List α) (b : α) (y : List α) (hy : y.length = rows.length) :
    affineInplace rows w b y = some (rows.map (affineRow w b)) := by
  simp [affineInplace, assignInplace, hy, affineBatch, matVec, affineRow, List.map_map, Function.comp_def]

/-- k-means into a supplied membership buffer -/
theorem kmeans_inplace_overwrites {α : Type} [Add α] [Sub α] [Mul α] [LT α] [DecidableLT α] [OfNat α 0]
    (c0 : List α) (cents : List (List α)) (rows : List (List α)) (y : List Nat)
    (hy : y.length = rows.length) :
    kmeansInplace (c0 :: cents) rows y =
      some (rows.map fun r => (closestGo r (c0 :: cents) 0 (0, sqDist c0 r)).1) := by
  unfold kmeansInplace
  rw [zip_inplace_spec _ (fun r => (closestGo r (c0 :: cents) 0 (0, sqDist c0 r)).1) rows y
    (fun r _ => by simp [closestCentroid])]
  simp [hy]

/-- decision tree into a supplied label buffer -/
theorem tree_inplace_overwrites {α L : Type} [LE α] [DecidableLE α] (t : Tree α L)
    (rows : List (List α)) (p : Nat) (ht : treeFeaturesBelow t p) (hrows : ∀ r ∈ rows, r.length = p)
    (y y' : List L) (hy : y.length = rows.length) (hy' : y'.length = rows.length) :
    treeInplace t rows y = treeInplace t rows y' ∧ treeInplace t rows y = treeBatch t rows := by
  obtain ⟨g, hg, hb⟩ := tree_batch_eq_map t rows p ht hrows
  unfold treeInplace
  rw [zip_inplace_spec _ g rows y hg, zip_inplace_spec _ g rows y' hg, hb]
  simp [hy, hy']

/-- `MultiTargetModel` into a supplied `(n, m)` buffer: the buffer content is irrelevant -/
theorem multiTarget_inplace_spec {R L : Type} (gs : List (R → L)) (rows : List R) (y : List (List L))
    (hy : y.length = rows.length) (hc : ∀ r ∈ y, r.length = gs.length) :
    multiTargetInplace (gs.map fun g => fun rs => rs.map g) rows y =
      some (rows.map fun r => gs.map fun g => g r) := by
  unfold multiTargetInplace
  have : (y.length == rows.length && y.all (fun r => r.length == (gs.map fun g => fun (rs : List R) => rs.map g).length)) = true := by
    simp only [List.length_map, Bool.and_eq_true, beq_iff_eq, List.all_eq_true]
    exact ⟨hy, hc⟩
  rw [this]
  exact multiTarget_spec gs rows

/-- `MultiClassModel` into a supplied label buffer, at least one member: every cell is overwritten
with the per-row running arg-max; the buffer content is irrelevant -/
theorem multiClass_inplace_overwrites {R L P : Type} [LT P] [DecidableLT P]
    (m : L × (R → P)) (ms : List (L × (R → P))) (rows : List R) (y : List L) (dflt : L)
    (hy : y.length = rows.length) :
    multiClassInplace ((m :: ms).map fun k => (k.1, fun rs => rs.map k.2)) rows y =
      some (rows.map fun r => multiClassRow (m :: ms) r dflt) := by
  unfold multiClassInplace
  simp only [hy, ne_eq, not_true_eq_false, if_false]
  cases hrows : rows with
  | nil =>
    have : y = [] := by simpa [hrows] using hy
    subst this
    simp [writeZip_nil_right]
  | cons r0 rs =>
    rw [← hrows]
    have hne : rows ≠ [] := by simp [hrows]
    simp only [List.map_cons, List.foldl_cons]
    have h0 : multiClassStep ([] : List (L × P)) ((rows.map m.2).map fun p => (m.1, p)) =
        rows.map fun r => (m.1, m.2 r) := by
      simp [multiClassStep]
    rw [h0, multiClass_fold_cons ms rows hne]
    rw [writeZip_full _ _ (by simp [hy])]
    simp [multiClassRow]

/-- the `Predict` forms of `MultiClassModel` are the in-place form on the `L::default()` fill -/
theorem multiClass_batch_is_inplace {R L P : Type} [LT P] [DecidableLT P]
    (members : List (L × (List R → List P))) (rows : List R) (dflt : L) :
    multiClassInplace members rows (List.replicate rows.length dflt) =
      some (multiClassBatch members rows dflt) := by
  simp [multiClassInplace, multiClassBatch, writeZip_replicate]
  omega

/-- … and with **no member at all** the buffer is handed back untouched (the `Predict` forms then
return the `L::default()` fill): the one case where the in-place form shows the caller's data -/
theorem multiClass_inplace_no_member {R L P : Type} [LT P] [DecidableLT P]
    (rows : List R) (y : List L) (hy : y.length = rows.length) :
    multiClassInplace (P := P) ([] : List (L × (List R → List P))) rows y = some y := by
  simp [multiClassInplace, hy, writeZip]

/-- isotonic regression, non-empty model with as many responses as knots, **any decidable `≤`** (no
order axiom is used, so the statement holds for the `Float` instance the driver runs, NaN queries
included): every cell is written — when `position` finds no knot (only possible for an unordered
query) the query value itself is written, repo fix bf53440 — so the in-place form returns
`vs.map g` whatever the buffer held.  Hypotheses `reg ≠ []`, `|resp| = |reg|` are what `fit`
produces (assumed, not modelled). -/
theorem iso_inplace_overwrites {α : Type} [LE α] [DecidableLE α] [Add α] [Sub α] [Mul α] [Div α]
    (reg resp : List α) (hne : reg ≠ []) (hlen : resp.length = reg.length) :
    ∃ g : α → α, (∀ v, isoCell reg resp v = some (some (g v))) ∧
      ∀ (vs y : List α), y.length = vs.length →
        isoInplace reg resp (vs.map fun v => [v]) y = some (vs.map g) :=
  iso_inplace_overwrites' reg resp hne hlen

/-- … hence the `Predict` forms of isotonic regression are `batch = map row`, one output per row -/
theorem iso_batch_eq_map {α : Type} [LE α] [DecidableLE α] [Add α] [Sub α] [Mul α] [Div α] [OfNat α 0]
    (reg resp : List α) (hne : reg ≠ []) (hlen : resp.length = reg.length) :
    ∃ g : α → α, ∀ vs : List α, isoBatch reg resp (vs.map fun v => [v]) = some (vs.map g) := by
  obtain ⟨g, _, h⟩ := iso_inplace_overwrites reg resp hne hlen
  refine ⟨g, fun vs => ?_⟩
  unfold isoBatch
  exact h vs _ (by simp)

example : isoInplace ([0, 2, 4] : List Int) [0, 2, 10] [[2], [3], [9], [-1]] [77, 77, 77, 77] =
    some [2, 2, 10, 0] := by decide

example : multiClassInplace ([(7, fun (x : Nat) => x % 3), (9, fun x => x % 2)].map
    fun m => (m.1, fun rs => rs.map m.2)) [0, 1, 2, 3] [55, 55, 55, 55] = some [7, 7, 7, 9] := by decide
example : affineInplace ([[1, 2], [3, 4]] : List (List Int)) [10, 1] 5 [99, -99] = some [17, 39] := by decide
example : affineInplace ([[1, 2], [3, 4]] : List (List Int)) [10, 1] 5 [99] = none := by decide
example : kmeansInplace ([[0], [10]] : List (List Int)) [[1], [9], [5]] [7, 7, 7] = some [0, 1, 0] := by decide


/-! ## Every family through every calling form

`Drv/C03.lean` answers every family request with `predictForm <family>Model form rows buf`; the
theorems below are about exactly those terms.  `PerSample m ok g`: on admissible buffers the
model's `predict_inplace` returns `rows.map g`, and `default_target` is admissible. -/

def PerSample {R T : Type} (m : Inplace R (List T)) (ok : List R → List T → Prop) (g : R → T) : Prop :=
  (∀ rs y, ok rs y → ok rs (m.defaultTarget rs)) ∧
  ∀ rs y, ok rs y → m.predictInplace rs y = some (rs.map g)

/-- **all six calling forms** of a per-sample model — `&records`, `records`, `&dataset`, `dataset`,
`predict_inplace` into `default_target` and into any admissible supplied buffer — return
`rows.map g`: one output per row, row `i`'s output a function of row `i` alone -/
theorem perSample_every_form {R T : Type} (m : Inplace R (List T)) (ok : List R → List T → Prop)
    (g : R → T) (h : PerSample m ok g) (f : Form) (rows : List R) (buf : List T) (hb : ok rows buf) :
    (predictForm m f rows buf).targets = some (rows.map g) := by
  have e := h.2 rows buf hb
  have e' := h.2 rows _ (h.1 rows buf hb)
  cases f <;> simp only [predictForm] <;> first | exact e | exact e'

/-- a per-sample model overwrites its buffer (discharges the hypothesis of `forms_agree_supplied`) -/
theorem perSample_overwrites {R T : Type} (m : Inplace R (List T)) (ok : List R → List T → Prop)
    (g : R → T) (h : PerSample m ok g) : Overwrites m ok :=
  ⟨h.1, fun rs y y' hy hy' => (h.2 rs y hy).trans (h.2 rs y' hy').symm⟩

/-- exactly one output per input row, through every form -/
theorem perSample_length {R T : Type} (m : Inplace R (List T)) (ok : List R → List T → Prop)
    (g : R → T) (h : PerSample m ok g) (f : Form) (rows : List R) (buf t : List T) (hb : ok rows buf)
    (ht : (predictForm m f rows buf).targets = some t) : t.length = rows.length := by
  rw [perSample_every_form m ok g h f rows buf hb] at ht
  cases ht; simp

/-- batch composition: predicting `a ++ b` (through any form) is predicting `a` and `b` (through any
forms) and concatenating -/
theorem perSample_append {R T : Type} (m : Inplace R (List T)) (ok : List R → List T → Prop)
    (g : R → T) (h : PerSample m ok g) (f fa fb : Form) (a b : List R) (buf bufa bufb : List T)
    (hab : ok (a ++ b) buf) (ha : ok a bufa) (hb : ok b bufb) :
    ∃ ta tb, (predictForm m fa a bufa).targets = some ta ∧ (predictForm m fb b bufb).targets = some tb ∧
      (predictForm m f (a ++ b) buf).targets = some (ta ++ tb) :=
  ⟨a.map g, b.map g, perSample_every_form m ok g h fa a bufa ha, perSample_every_form m ok g h fb b bufb hb,
    by rw [perSample_every_form m ok g h f (a ++ b) buf hab, List.map_append]⟩

/-- row order: permuting the batch permutes the outputs the same way — every row keeps its output -/
theorem perSample_perm {R T : Type} (m : Inplace R (List T)) (ok : List R → List T → Prop)
    (g : R → T) (h : PerSample m ok g) (f f' : Form) (a b : List R) (bufa bufb : List T)
    (hp : a.Perm b) (ha : ok a bufa) (hb : ok b bufb) :
    ∃ ta tb, (predictForm m f a bufa).targets = some ta ∧ (predictForm m f' b bufb).targets = some tb ∧
      (a.zip ta).Perm (b.zip tb) := by
  refine ⟨a.map g, b.map g, perSample_every_form m ok g h f a bufa ha,
    perSample_every_form m ok g h f' b bufb hb, ?_⟩
  have e : ∀ l : List R, l.zip (l.map g) = l.map fun r => (r, g r) := by
    intro l; induction l with
    | nil => rfl
    | cons x l ih => simp [ih]
  rw [e a, e b]
  exact hp.map _

/-- row `i` of a batch gets what the one-row batch `[rows[i]]` gets, whatever forms are used -/
theorem perSample_row_alone {R T : Type} (m : Inplace R (List T)) (ok : List R → List T → Prop)
    (g : R → T) (h : PerSample m ok g) (f f' : Form) (rows : List R) (buf buf1 : List T) (i : Nat)
    (hi : i < rows.length) (hb : ok rows buf) (h1 : ok [rows[i]] buf1) :
    ∃ t t1, (predictForm m f rows buf).targets = some t ∧
      (predictForm m f' [rows[i]] buf1).targets = some t1 ∧ t[i]? = t1[0]? :=
  ⟨rows.map g, [rows[i]].map g, perSample_every_form m ok g h f rows buf hb,
    perSample_every_form m ok g h f' [rows[i]] buf1 h1, by simp [List.getElem?_eq_getElem hi]⟩

/-- equal rows get equal outputs, wherever they stand and whatever forms are used -/
theorem perSample_duplicates {R T : Type} (m : Inplace R (List T)) (ok : List R → List T → Prop)
    (g : R → T) (h : PerSample m ok g) (f f' : Form) (rows rows' : List R) (buf buf' : List T) (i j : Nat)
    (hi : i < rows.length) (hj : j < rows'.length) (e : rows[i] = rows'[j])
    (hb : ok rows buf) (hb' : ok rows' buf') :
    ∃ t t', (predictForm m f rows buf).targets = some t ∧
      (predictForm m f' rows' buf').targets = some t' ∧ t[i]? = t'[j]? :=
  ⟨rows.map g, rows'.map g, perSample_every_form m ok g h f rows buf hb,
    perSample_every_form m ok g h f' rows' buf' hb',
    by simp [List.getElem?_eq_getElem hi, List.getElem?_eq_getElem hj, e]⟩

section familyModels
set_option linter.unusedSectionVars false
variable {α : Type} [Add α] [Sub α] [Mul α] [Div α] [LT α] [DecidableLT α] [LE α] [DecidableLE α]
  [OfNat α 0]

/-- OLS / elastic net -/
theorem affine_perSample (w : List α) (b : α) :
    PerSample (affineModel w b) (fun rs y => y.length = rs.length) (affineRow w b) :=
  ⟨fun rs _ _ => by simp [affineModel], fun rs y hy => affine_inplace_overwrites rs w b y hy⟩

/-- PCA / PLS (the in-place form had no theorem): buffer of shape `(n, q)` -/
theorem linMap_perSample (mean std : List α) (cols : List (List α)) (bias : List α) :
    PerSample (linMapModel mean std cols bias)
      (fun rs y => y.length = rs.length ∧ ∀ r ∈ y, r.length = cols.length)
      (linMapRow mean std cols bias) := by
  refine ⟨fun rs _ _ => ?_, fun rs y hy => ?_⟩
  · simp only [linMapModel, List.length_replicate, true_and]
    intro r hr
    rw [(List.mem_replicate.mp hr).2, List.length_replicate]
  · have : (y.length == rs.length && y.all (fun r => r.length == cols.length)) = true := by
      simp only [Bool.and_eq_true, beq_iff_eq, List.all_eq_true]
      exact hy
    simp only [linMapModel, linMapInplace, assignInplace, this, if_true]
    rw [linMap_batch_eq_map]

/-- k-means with at least one centroid -/
theorem kmeans_perSample (c0 : List α) (cents : List (List α)) :
    PerSample (kmeansModel (c0 :: cents)) (fun rs y => y.length = rs.length)
      (fun r => (closestGo r (c0 :: cents) 0 (0, sqDist c0 r)).1) :=
  ⟨fun rs _ _ => by simp [kmeansModel], fun rs y hy => kmeans_inplace_overwrites c0 cents rs y hy⟩

/-- the `Predict` forms of the k-means model are `kmeansBatch` (about which `kmeans_batch_eq_map` is) -/
theorem kmeans_forms_are_batch (cents : List (List α)) (f : Form) (rows : List (List α)) (buf : List Nat)
    (hf : f ≠ .inplaceInto) :
    (predictForm (kmeansModel cents) f rows buf).targets = kmeansBatch cents rows := by
  have : kmeansInplace cents rows (List.replicate rows.length 0) = kmeansBatch cents rows := by
    unfold kmeansInplace kmeansBatch
    exact zipInplace_eq_mapM _ rows _ (by simp)
  cases f <;> first | contradiction | exact this

/-- the forms of the affine / linear-map models are `affineBatch` / `linMapBatch` -/
theorem affine_forms_are_batch (w : List α) (b : α) (f : Form) (rows : List (List α)) (buf : List α)
    (hb : buf.length = rows.length) :
    (predictForm (affineModel w b) f rows buf).targets = some (affineBatch rows w b) := by
  rw [perSample_every_form _ _ _ (affine_perSample w b) f rows buf hb, affine_batch_eq_map]

theorem linMap_forms_are_batch (mean std : List α) (cols : List (List α)) (bias : List α) (f : Form)
    (rows : List (List α)) (buf : List (List α))
    (hb : buf.length = rows.length ∧ ∀ r ∈ buf, r.length = cols.length) :
    (predictForm (linMapModel mean std cols bias) f rows buf).targets =
      some (linMapBatch mean std cols bias rows) := by
  rw [perSample_every_form _ _ _ (linMap_perSample mean std cols bias) f rows buf hb, linMap_batch_eq_map]

end familyModels

/-- decision tree whose split features exist in rows of width `p` -/
theorem tree_perSample {α L : Type} [LE α] [DecidableLE α] (t : Tree α L) (dflt : L) (p : Nat)
    (ht : treeFeaturesBelow t p) :
    PerSample (treeModel t dflt) (fun rs y => y.length = rs.length ∧ ∀ r ∈ rs, r.length = p)
      (fun r => (treeDescend t r).getD (treeAnyLeaf t)) := by
  refine ⟨fun rs _ h => ⟨by simp [treeModel], h.2⟩, fun rs y hy => ?_⟩
  simp only [treeModel, treeInplace]
  rw [zip_inplace_spec _ (fun r => (treeDescend t r).getD (treeAnyLeaf t)) rs y ?_]
  · simp [hy.1]
  · intro r hr
    obtain ⟨l, hl⟩ := tree_descend_total t r (by rw [hy.2 r hr]; exact ht)
    simp [hl]

theorem tree_forms_are_batch {α L : Type} [LE α] [DecidableLE α] (t : Tree α L) (dflt : L) (f : Form)
    (rows : List (List α)) (buf : List L) (hf : f ≠ .inplaceInto) :
    (predictForm (treeModel t dflt) f rows buf).targets = treeBatch t rows := by
  have : treeInplace t rows (List.replicate rows.length dflt) = treeBatch t rows := by
    unfold treeInplace treeBatch
    exact zipInplace_eq_mapM _ rows _ (by simp)
  cases f <;> first | contradiction | exact this

/-- isotonic regression through every form, for any decidable `≤` (hence for the `Float` instance the
driver runs): the rows of the `(n, 1)` matrix are the singletons `[v]` -/
theorem iso_every_form {α : Type} [LE α] [DecidableLE α] [Add α] [Sub α] [Mul α] [Div α] [OfNat α 0]
    (reg resp : List α) (hne : reg ≠ []) (hlen : resp.length = reg.length) :
    ∃ g : α → α, ∀ (f : Form) (vs buf : List α), buf.length = vs.length →
      (predictForm (isoModel reg resp) f (vs.map fun v => [v]) buf).targets = some (vs.map g) := by
  obtain ⟨g, _, h⟩ := iso_inplace_overwrites reg resp hne hlen
  refine ⟨g, fun f vs buf hb => ?_⟩
  have e := h vs buf hb
  have e' := h vs (List.replicate vs.length 0) (by simp)
  cases f <;> simp only [predictForm, isoModel, List.length_map] <;> first | exact e | exact e'

/-- `MultiTargetModel` over per-sample members through every form: column `j` = member `j` -/
theorem multiTarget_perSample {R L : Type} (gs : List (R → L)) (dflt : L) :
    PerSample (multiTargetModel (gs.map fun g => fun rs => rs.map g) dflt)
      (fun rs y => y.length = rs.length ∧ ∀ r ∈ y, r.length = gs.length)
      (fun r => gs.map fun g => g r) := by
  refine ⟨fun rs _ _ => ?_, fun rs y hy => multiTarget_inplace_spec gs rs y hy.1 hy.2⟩
  simp only [multiTargetModel, List.length_replicate, List.length_map, true_and]
  intro r hr
  rw [(List.mem_replicate.mp hr).2, List.length_replicate]

/-- … and its forms are `multiTargetBatch` (about which `multiTarget_spec` / `_entry` are), for any
members -/
theorem multiTarget_forms_are_batch {R L : Type} (members : List (List R → List L)) (dflt : L) (f : Form)
    (rows : List R) (buf : List (List L)) (hf : f ≠ .inplaceInto) :
    (predictForm (multiTargetModel members dflt) f rows buf).targets = multiTargetBatch members rows := by
  have : multiTargetInplace members rows
      (List.replicate rows.length (List.replicate members.length dflt)) = multiTargetBatch members rows := by
    have hb : ((List.replicate rows.length (List.replicate members.length dflt)).length == rows.length &&
        (List.replicate rows.length (List.replicate members.length dflt)).all
          (fun r => r.length == members.length)) = true := by
      simp only [List.length_replicate, beq_self_eq_true, Bool.true_and, List.all_eq_true, beq_iff_eq]
      intro r hr
      rw [(List.mem_replicate.mp hr).2, List.length_replicate]
    simp only [multiTargetInplace, assignInplace, hb, if_true]
  cases f <;> first | contradiction | exact this

/-- `MultiClassModel` with at least one per-sample member through every form -/
theorem multiClass_perSample {R L P : Type} [LT P] [DecidableLT P]
    (m : L × (R → P)) (ms : List (L × (R → P))) (dflt : L) :
    PerSample (multiClassModel ((m :: ms).map fun k => (k.1, fun rs => rs.map k.2)) dflt)
      (fun rs y => y.length = rs.length) (fun r => multiClassRow (m :: ms) r dflt) :=
  ⟨fun rs _ _ => by simp [multiClassModel],
    fun rs y hy => multiClass_inplace_overwrites m ms rs y dflt hy⟩

/-- … and its `Predict` forms are `multiClassBatch`, for any members (none included) -/
theorem multiClass_forms_are_batch {R L P : Type} [LT P] [DecidableLT P]
    (members : List (L × (List R → List P))) (dflt : L) (f : Form) (rows : List R) (buf : List L)
    (hf : f ≠ .inplaceInto) :
    (predictForm (multiClassModel members dflt) f rows buf).targets =
      some (multiClassBatch members rows dflt) := by
  have := multiClass_batch_is_inplace members rows dflt
  cases f <;> first | contradiction | exact this

example : (predictForm (affineModel ([10, 1] : List Int) 5) .ownedDataset [[1, 2], [3, 4]] []).targets = some [17, 39] ∧
    (predictForm (affineModel ([10, 1] : List Int) 5) .inplaceInto [[1, 2], [3, 4]] [99, -99]).targets = some [17, 39] ∧
    (predictForm (affineModel ([10, 1] : List Int) 5) .ownedDataset [[1, 2], [3, 4]] []).records = some [[1, 2], [3, 4]] := by
  decide
example : (predictForm (kmeansModel ([[0], [10]] : List (List Int))) .refDataset [[1], [9], [5]] []).targets = some [0, 1, 0] := by
  decide
example : (predictForm (multiClassModel ([(7, fun (x : Nat) => x % 3), (9, fun x => x % 2)].map
    fun m => (m.1, fun rs => rs.map m.2)) 0) .inplaceInto [0, 1, 2, 3] [55, 55, 55, 55]).targets = some [7, 7, 7, 9] := by
  decide
example : PerSample (affineModel ([10, 1] : List Int) 5) (fun rs y => y.length = rs.length) (affineRow [10, 1] 5) :=
  affine_perSample _ _

/-! ## Platt scaling (over `ℝ`, `exp := Real.exp`, the `F → f32` cast read as the identity) -/

/-- the two branches of `platt_predict` compute the same sigmoid `1 / (1 + e^t)` -/
theorem platt_branches_agree (t : ℝ) :
    Real.exp (-t) / (1 + Real.exp (-t)) = 1 / (1 + Real.exp t) ∧
    plattRaw t = 1 / (1 + Real.exp t) := by
  refine ⟨?_, plattRaw_eq t⟩
  rw [Real.exp_neg]
  have h : 0 < Real.exp t := Real.exp_pos t
  field_simp
  ring

/-- the value `platt_predict` returns: `Pr::new` never rejects it -/
theorem platt_value (x a b : ℝ) :
    plattPredict (fun (v : ℝ) => v) x a b = some (1 / (1 + Real.exp (a * x + b))) := by
  have h : 0 < Real.exp (a * x + b) := Real.exp_pos _
  have h0 : (0 : ℝ) ≤ 1 / (1 + Real.exp (a * x + b)) := by positivity
  have h1 : 1 / (1 + Real.exp (a * x + b)) ≤ (1 : ℝ) := by
    rw [div_le_one (by linarith)]; linarith
  unfold plattPredict
  simp only [plattRaw_eq]
  rw [if_pos ⟨h0, h1⟩]

/-- **a Platt-calibrated model returns a probability in [0,1]**, for every decision value and
every fitted `A`, `B` -/
theorem platt_range (x a b : ℝ) :
    ∃ p, plattPredict (fun (v : ℝ) => v) x a b = some p ∧ 0 ≤ p ∧ p ≤ 1 := by
  have h : 0 < Real.exp (a * x + b) := Real.exp_pos _
  refine ⟨_, platt_value x a b, by positivity, ?_⟩
  rw [div_le_one (by linarith)]; linarith

/-- the probability is an antitone sigmoid of `t = A·f + B` … -/
theorem platt_antitone_in_t (t t' : ℝ) (h : t ≤ t') : plattRaw t' ≤ plattRaw t := by
  rw [plattRaw_eq, plattRaw_eq]
  have e : Real.exp t ≤ Real.exp t' := Real.exp_le_exp.mpr h
  have p : 0 < Real.exp t := Real.exp_pos t
  exact one_div_le_one_div_of_le (by linarith) (by linarith)

/-- … hence **monotone in the inner decision value** `f`: non-increasing for `A ≥ 0`,
non-decreasing for `A ≤ 0` (the fitted `A` of a useful calibration is negative). -/
theorem platt_monotone (a b x x' : ℝ) (hx : x ≤ x') :
    (0 ≤ a → plattRaw (a * x' + b) ≤ plattRaw (a * x + b)) ∧
    (a ≤ 0 → plattRaw (a * x + b) ≤ plattRaw (a * x' + b)) := by
  constructor
  · intro ha
    exact platt_antitone_in_t _ _ (by nlinarith)
  · intro ha
    exact platt_antitone_in_t _ _ (by nlinarith)

/-- strictly so when `A ≠ 0` and the decision values differ: a sigmoid, not a step -/
theorem platt_strict (a b x x' : ℝ) (hx : x < x') (ha : a < 0) :
    plattRaw (a * x + b) < plattRaw (a * x' + b) := by
  rw [plattRaw_eq, plattRaw_eq]
  have e : Real.exp (a * x' + b) < Real.exp (a * x + b) := Real.exp_lt_exp.mpr (by nlinarith)
  have p : 0 < Real.exp (a * x' + b) := Real.exp_pos _
  exact one_div_lt_one_div_of_lt (by linarith) (by linarith)

/-- the Platt wrapper over a per-sample inner model is a per-sample function with one output per row -/
theorem platt_batch_eq_map {R : Type} (d : R → ℝ) (a b : ℝ) (rows : List R) :
    plattBatch (fun (v : ℝ) => v) (fun rs => rs.map d) a b rows =
      some (rows.map fun r => 1 / (1 + Real.exp (a * d r + b))) := by
  unfold plattBatch
  rw [List.mapM_map]
  apply mapM_some_of_forall
  intro r _
  rw [Function.comp_apply]
  exact platt_value (d r) a b

/-- the Platt wrapper into a supplied probability buffer: every cell is overwritten -/
theorem platt_inplace_overwrites {R : Type} (d : R → ℝ) (a b : ℝ) (rows : List R) (y : List ℝ)
    (hy : y.length = rows.length) :
    plattInplace (fun (v : ℝ) => v) (fun rs => rs.map d) a b rows y =
      some (rows.map fun r => 1 / (1 + Real.exp (a * d r + b))) := by
  unfold plattInplace
  simp only [hy, ne_eq, not_true_eq_false, if_false]
  rw [zipWrite_eq_map _ (fun x => 1 / (1 + Real.exp (a * x + b))) (rows.map d) y
    (fun x _ => platt_value x a b) (by simp [hy])]
  simp [List.map_map, Function.comp_def]


/-- the Platt wrapper over a per-sample inner model through every calling form (over `ℝ`) -/
theorem platt_perSample {R : Type} (d : R → ℝ) (a b : ℝ) :
    PerSample (plattModel (fun (v : ℝ) => v) (fun rs => rs.map d) a b) (fun rs y => y.length = rs.length)
      (fun r => 1 / (1 + Real.exp (a * d r + b))) :=
  ⟨fun rs _ _ => by simp [plattModel], fun rs y hy => platt_inplace_overwrites d a b rs y hy⟩

/-- the `Predict` forms of the Platt model are `plattBatch` whenever the inner model returns one value
per row (any scalar, in particular the `Float → Float32` instance the driver runs) -/
theorem platt_forms_are_batch {R α β : Type} [Add α] [Mul α]
    [Add β] [Div β] [Neg β] [LE β] [DecidableLE β] [OfNat β 0] [OfNat β 1] [Transc β]
    (cast : α → β) (inner : List R → List α) (a b : α) (f : Form) (rows : List R) (buf : List β)
    (hin : (inner rows).length = rows.length) (hf : f ≠ .inplaceInto) :
    (predictForm (plattModel cast inner a b) f rows buf).targets = plattBatch cast inner a b rows := by
  have : plattInplace cast inner a b rows (List.replicate rows.length 0) = plattBatch cast inner a b rows := by
    unfold plattInplace plattBatch
    simp only [List.length_replicate, ne_eq, not_true_eq_false, if_false]
    exact zipWrite_eq_mapM _ _ _ (by simp [hin])
  cases f <;> first | contradiction | exact this

example : PerSample (plattModel (fun (v : ℝ) => v) (fun (rs : List ℝ) => rs.map fun x => 2 * x) (-1) 0.5)
    (fun rs y => y.length = rs.length) (fun r => 1 / (1 + Real.exp (-1 * (2 * r) + 0.5))) :=
  platt_perSample _ _ _

example : ∃ p, plattPredict (fun (v : ℝ) => v) 2 (-1) 0.5 = some p ∧ 0 ≤ p ∧ p ≤ 1 := platt_range _ _ _
example : plattRaw ((-1 : ℝ) * 1 + 0) < plattRaw ((-1 : ℝ) * 2 + 0) := platt_strict (-1) 0 1 2 (by norm_num) (by norm_num)

end LinfaSpec.Props.C03
