import LinfaSpec.Proofs.Smo
import LinfaSpec.Proofs.SmoKkt
import LinfaSpec.Proofs.SmoPub
import LinfaSpec.Proofs.SmoGrad
import Mathlib.Algebra.Order.Field.Rat

/-!
# C13 — SVM solutions satisfy the dual feasibility conditions; shrinking bookkeeping is sound

Theorems about `LinfaSpec.Smo` (the model of `linfa-svm/src/solver_smo.rs` after the `fix:`
commits), over any linearly ordered field `α` — the same definitions the driver runs on `Float`.

* the two-variable step (`update`): all four clipping cases keep both variables in their box and
  keep `Σ y_k α_k`; hence feasibility is invariant over **every** working-set sequence;
* shrinking bookkeeping: `swap` keeps every per-position array (linear term, label, both copies of
  the bound, kernel index) aligned with `active_set`; the write-back through `active_set` returns
  each variable to its own sample for every permutation (not only involutions).

* working-set selection (`select_working_set`, plain and nu form): whatever pair it returns consists
  of two distinct active positions — the hypothesis of the feasibility invariant — and under
  `nu_constraint` both carry the same label, so every class keeps its own sum (`e'α = ν n`);
  the two multipliers of the nu dual are `r ± rho`;
* publication glue: the regression fold `α_i - α_{i+m}`, support-vector count and `weighted_sum` pairing.

* the whole main loop (`solve_loop_feasible`): selection, step, shrinking with its swaps, gradient
  reconstruction and re-activation keep the point in the box with the initial `Σ y α`, for every fuel.

* the exit test implies the eps-KKT conditions (`exit_test_implies_kkt`, `exit_test_implies_kkt_nu`):
  if `gmax + gmax2 < eps` (nu: `max(gmaxp1 + gmaxp2, gmaxn1 + gmaxn2) < eps`) holds for the state's
  gradient, then with the `rho` (nu: `r ± rho`) of `calculate_rho(_nu)` every active variable satisfies
  the clause set of the oracle clauses `kkt` / `kkt_nu`; and `solve_returns_kkt_or_maxiter`: whatever
  `solveLoop` returns is feasible, and when it ended by `break` (exit reason "threshold") it is eps-KKT.

Not proved (correspondence / oracle only): termination; that the state's gradient is `p + Qα`
(maintained incrementally by `update`, rebuilt by `reconstruct_gradient`; oracle clauses
`gradient_active`, `gradient_fixed`, `gradient_reconstructed` after every scripted step) — the KKT
theorems are about the gradient the solver holds.  IEEE rounding is outside these statements.
-/
namespace LinfaSpec.Props.C13
open LinfaSpec.Smo

variable {α : Type} [Field α] [LinearOrder α] [IsStrictOrderedRing α]

/-- a small concrete state used by the non-vacuity examples: three variables, unequal bounds,
labels `+ - +`, one variable at its upper bound -/
def exSt : St ℚ :=
  { alpha := [0, 1/2, 2], ub := [1, 1, 2], grad := [-1, -1, -1], gbar := [0, 0, 0],
    active := [2, 0, 1], nactive := 3, unshrink := false, p := [-1, -1, -1],
    y := [true, false, true], bounds := [1, 1, 2], kidx := [2, 0, 1] }

def exEnv : Env ℚ :=
  { K := [[2, 1, 0], [1, 2, 1], [0, 1, 2]], y0 := [false, true, true], eps := 1/1000,
    tiny := 1/10000000000, inf := 1000000 }

theorem exSt_box : Box exSt := by
  refine ⟨rfl, ?_⟩
  intro k hk
  have : k = 0 ∨ k = 1 ∨ k = 2 := by
    simp only [exSt, List.length_cons, List.length_nil] at hk; omega
  rcases this with h | h | h <;> subst h <;> norm_num [exSt, gf]

/-- **labels differ, all clipping cases**: a pair on the line `a_i - a_j = diff` (as produced by
moving both variables by the same `delta`, whatever its size) is clipped into the box
`[0,b_i] × [0,b_j]` and stays on the line; the guard is the feasibility of the old pair
(`-b_j ≤ diff ≤ b_i`). -/
theorem clip_opposite_labels (ai aj diff bi bj : α) (hline : ai - aj = diff)
    (h1 : -bj ≤ diff) (h2 : diff ≤ bi) (hbi : 0 ≤ bi) (hbj : 0 ≤ bj) :
    0 ≤ (clipOpp ai aj diff bi bj).1 ∧ (clipOpp ai aj diff bi bj).1 ≤ bi ∧
    0 ≤ (clipOpp ai aj diff bi bj).2 ∧ (clipOpp ai aj diff bi bj).2 ≤ bj ∧
    (clipOpp ai aj diff bi bj).1 - (clipOpp ai aj diff bi bj).2 = diff :=
  clipOpp_spec ai aj diff bi bj hline h1 h2 hbi hbj

/-- the unclipped step overshoots both ends: `(5, 4)` on the line `a_i - a_j = 1`, boxes `[0,2]`, `[0,3]` -/
example : clipOpp (5 : ℚ) 4 1 2 3 = (2, 1) := by norm_num [clipOpp]

/-- **labels agree, all clipping cases**: a pair on the line `a_i + a_j = sum` is clipped into the
box and stays on the line. -/
theorem clip_equal_labels (ai aj sum bi bj : α) (hline : ai + aj = sum)
    (h1 : 0 ≤ sum) (h2 : sum ≤ bi + bj) (hbi : 0 ≤ bi) (hbj : 0 ≤ bj) :
    0 ≤ (clipSame ai aj sum bi bj).1 ∧ (clipSame ai aj sum bi bj).1 ≤ bi ∧
    0 ≤ (clipSame ai aj sum bi bj).2 ∧ (clipSame ai aj sum bi bj).2 ≤ bj ∧
    (clipSame ai aj sum bi bj).1 + (clipSame ai aj sum bi bj).2 = sum :=
  clipSame_spec ai aj sum bi bj hline h1 h2 hbi hbj

example : clipSame (-1 : ℚ) 4 3 2 2 = (1, 2) := by norm_num [clipSame]

/-- **`update` keeps both touched variables (and all others) inside their boxes**, for every
working pair `i ≠ j` in range, every kernel, gradient and step length (including the `1e-10`
guard for a non-positive curvature). -/
theorem update_preserves_box (e : Env α) (s : St α) (i j : Nat) (hij : i ≠ j)
    (hi : i < s.alpha.length) (hj : j < s.alpha.length) (hb : Box s) : Box (update e s i j) :=
  update_box e s i j hij hi hj hb

/-- **`update` keeps the equality constraint** `Σ_k y_k α_k`. -/
theorem update_preserves_equality (e : Env α) (s : St α) (i j : Nat) (hij : i ≠ j)
    (hi : i < s.alpha.length) (hj : j < s.alpha.length) (hb : Box s) :
    ySum (update e s i j) = ySum s :=
  update_ySum e s i j hij hi hj hb

example : Box exSt ∧ (0 : Nat) ≠ 1 ∧ 0 < exSt.alpha.length ∧ 1 < exSt.alpha.length :=
  ⟨exSt_box, by decide, by decide, by decide⟩

/-- a real step on the example: variables 0 (`+`, at 0) and 1 (`-`, at 1/2) both move up by the
same amount until variable 1 hits its bound -/
example : (update exEnv exSt 0 1).alpha = [1/2, 1, 2] := by
  rw [update_alpha]
  norm_num [newPair, stepPair, clipOpp, exSt, exEnv, gf, gb, gn, selfDist, dist, kEntry, List.range_succ]

/-- **feasibility is an invariant of the whole optimisation**: after any sequence of working
pairs (distinct, in range — what `select_working_set` returns) the point is still in the box,
`Σ y α` has its initial value and the bounds are untouched. -/
theorem feasible_invariant (e : Env α) (steps : List (Nat × Nat)) (s : St α)
    (hv : ValidSteps s.alpha.length steps) (hb : Box s) :
    Box (steps.foldl (fun s st => update e s st.1 st.2) s) ∧
    ySum (steps.foldl (fun s st => update e s st.1 st.2) s) = ySum s ∧
    (steps.foldl (fun s st => update e s st.1 st.2) s).bounds = s.bounds :=
  updates_feasible e steps s hv hb

example : ValidSteps exSt.alpha.length [(0, 1), (2, 0), (1, 2)] := by
  intro st hst
  simp only [List.mem_cons, List.mem_nil_iff, or_false] at hst
  rcases hst with h | h | h <;> subst h <;> decide

section bookkeeping
variable {β : Type} [OfNat β 0]

/-- **`swap` keeps the state aligned with `active_set`**: after swapping positions `i`, `j`
every position still holds the linear term, the label, *both copies of the bound* and the kernel
index of the sample `active_set` names.  (False for the code before the fix: `bounds` stayed.) -/
theorem swap_preserves_aligned (p0 b0 : List β) (y0 : List Bool) (s : St β) (i j : Nat)
    (hi : i < s.alpha.length) (hj : j < s.alpha.length) (h : Aligned p0 b0 y0 s) :
    Aligned p0 b0 y0 (swap s i j) :=
  swap_aligned p0 b0 y0 s i j hi hj h

/-- `swap` moves the variables by the same transposition -/
theorem swap_moves_alpha (s : St β) (i j k : Nat) (hi : i < s.alpha.length) (hj : j < s.alpha.length) :
    gf (swap s i j).alpha k = gf s.alpha (swapIdx i j k) :=
  swap_alpha s i j k hi hj

/-- **write-back is correct for every permutation**: the published vector holds, at the sample
`active_set[i]`, the variable at position `i`.  (The code before the fix read
`alpha[active_set[i]]`, right only for involutions.) -/
theorem writeBack_correct (s : St β) (hlen : s.active.length = s.alpha.length)
    (hnd : s.active.Nodup) (hr : ∀ a ∈ s.active, a < s.alpha.length) (i : Nat)
    (hi : i < s.alpha.length) :
    (writeBack s).length = s.alpha.length ∧ gf (writeBack s) (gn s.active i) = gf s.alpha i := by
  have h := writeBackN_spec s hlen hnd hr s.alpha.length (Nat.le_refl _)
  exact ⟨h.1, h.2 i hi⟩

end bookkeeping

/-- **`update` keeps the state aligned** (it rewrites `Alpha::upper_bound` of the two touched
positions from `bounds`, which is aligned). -/
theorem update_preserves_aligned (e : Env α) (p0 b0 : List α) (y0 : List Bool) (s : St α) (i j : Nat)
    (hi : i < s.alpha.length) (hj : j < s.alpha.length) (h : Aligned p0 b0 y0 s) :
    Aligned p0 b0 y0 (update e s i j) :=
  update_aligned e p0 b0 y0 s i j hi hj h

/-- `exSt` is aligned with the sample-order data `p0 = [-1,-1,-1]`, `b0 = [1,2,1]`, `y0 = [-,+,+]` -/
example : Aligned (α := ℚ) [-1, -1, -1] [1, 2, 1] [false, true, true] exSt := by
  refine ⟨⟨rfl, rfl, rfl, rfl, rfl, rfl⟩, ?_⟩
  intro k hk
  have : k = 0 ∨ k = 1 ∨ k = 2 := by
    simp only [exSt, List.length_cons, List.length_nil] at hk; omega
  rcases this with h | h | h <;> subst h <;> norm_num [exSt, gf, gb, gn]


/-- **the working pair `select_working_set` returns is legal** (plain and nu form, whatever the
gradient, the kernel and the tolerance): two *distinct* positions inside the active range — exactly the
hypothesis `ValidSteps` of `feasible_invariant`, so every step the solver's own selection triggers keeps
the point feasible. -/
theorem selected_pair_valid (e : Env α) (s : St α) (i j : Nat)
    (h : selectWorkingSet e s = (i, j, false)) : i ≠ j ∧ i < s.nactive ∧ j < s.nactive :=
  selectWorkingSet_valid e s i j h

/-- the selection on the example state (all three variables active, none optimal): the maximal
violator is position 0, its partner position 1 -/
example : selectWorkingSet exEnv exSt = (0, 1, false) := by
  decide +kernel


/-- **feasibility is an invariant of the whole main loop of `solve`** — working-set selection (plain or
nu form), the two-variable step, `do_shrinking(_nu)` with its swaps, `reconstruct_gradient` and the
re-activation before the final check, for every fuel (iteration bound), kernel, tolerance and
shrinking setting: the state the loop stops in is inside the box, has the initial `Σ y α` and the
size of the problem.  Hypotheses = what `SolverState::new` establishes for a feasible start. -/
theorem solve_loop_feasible (e : Env α) (shrinking : Bool) (fuel : Nat) (s : St α) (iter counter : Nat)
    (hb : Box s) (hy : s.y.length = s.alpha.length) (hn : s.nactive ≤ s.alpha.length) :
    Box (solveLoop e shrinking fuel s iter counter).1 ∧
    ySum (solveLoop e shrinking fuel s iter counter).1 = ySum s ∧
    (solveLoop e shrinking fuel s iter counter).1.alpha.length = s.alpha.length := by
  have h := solveLoop_feas s.alpha.length (ySum s) e shrinking fuel s iter counter ⟨hb, hy, rfl, hn, rfl⟩
  exact ⟨h.1, h.2.2.2.2, h.2.2.1⟩

example : Box exSt ∧ exSt.y.length = exSt.alpha.length ∧ exSt.nactive ≤ exSt.alpha.length :=
  ⟨exSt_box, by decide, by decide⟩

/-- **`do_shrinking` (plain and nu form) keeps the point feasible**: it only permutes positions. -/
theorem shrinking_preserves_feasible (e : Env α) (s : St α)
    (hb : Box s) (hy : s.y.length = s.alpha.length) (hn : s.nactive ≤ s.alpha.length) :
    Box (doShrinking e s) ∧ ySum (doShrinking e s) = ySum s := by
  have h := doShrinking_feas s.alpha.length (ySum s) e s ⟨hb, hy, rfl, hn, rfl⟩
  exact ⟨h.1, h.2.2.2.2⟩


/-! ### the exit test implies the eps-KKT conditions the oracle checks -/

/-- a two-sample problem at its optimum: `x = ±1` (`K = [[1,-1],[-1,1]]`), labels `+ -`, `C = 1`,
`α = (1/2, 1/2)`, gradient `p + Qα = 0` -/
def kEnv : Env ℚ :=
  { K := [[1, -1], [-1, 1]], y0 := [true, false], eps := 1/1000, tiny := 1/10000000000, inf := 1000000 }

def kSt : St ℚ :=
  { alpha := [1/2, 1/2], ub := [1, 1], grad := [0, 0], gbar := [0, 0], active := [0, 1], nactive := 2,
    unshrink := false, p := [-1, -1], y := [true, false], bounds := [1, 1], kidx := [0, 1] }

/-- **the stopping test implies the eps-KKT conditions** (plain form).  For any solver state — any
kernel, any coefficients, any `n`, any bounds, over the active range (all variables after the final
re-activation) — if the code's test `gmax + gmax2 < eps` holds for the gradient the state holds, then
with `rho := calculate_rho()` every active `i` satisfies the clause set of the oracle clause `kkt`:
`-y_i G_i + rho ≤ eps` if `i ∈ I_up` (positive below its bound / negative above zero) and
`-y_i G_i + rho ≥ -eps` if `i ∈ I_low` (so `|y_i G_i - rho| ≤ eps` for a free variable; for
C-classification, `p = -1`, this is `y_i f(x_i) ≥ 1 - eps` resp. `≤ 1 + eps`, the clause `kkt_margin`).
Guards: `eps ≥ 0` and positive bounds (`SvmParams::check`: `InvalidEps`, `InvalidC`); `e.inf` stands
for `F::infinity()`, so it bounds every gradient entry. -/
theorem exit_test_implies_kkt (e : Env α) (s : St α) (heps : 0 ≤ e.eps)
    (hpos : ∀ k, k < s.nactive → 0 < gf s.ub k)
    (hdom : ∀ k, k < s.nactive → -e.inf ≤ gf s.grad k ∧ gf s.grad k ≤ e.inf)
    (hstop : (maxViolatingPair e s).1.1 + (maxViolatingPair e s).2.1 < e.eps) :
    KktEps s (calculateRhoC e s) e.eps :=
  gap_implies_kkt e s heps (fun k hk => upper_not_lower s k (hpos k hk))
    (fun k hk => dom_yG e s k (hdom k hk)) (exit_test_gap e s hstop)

example : 0 ≤ kEnv.eps ∧ (∀ k, k < kSt.nactive → 0 < gf kSt.ub k) ∧
    (∀ k, k < kSt.nactive → -kEnv.inf ≤ gf kSt.grad k ∧ gf kSt.grad k ≤ kEnv.inf) ∧
    (maxViolatingPair kEnv kSt).1.1 + (maxViolatingPair kEnv kSt).2.1 < kEnv.eps := by
  decide +kernel

/-- on the example both variables are free and `rho = 0` -/
example : calculateRhoC kEnv kSt = 0 := by decide +kernel

/-- **the nu stopping test implies the eps-KKT conditions of the nu dual**: if
`max(gmaxp1 + gmaxp2, gmaxn1 + gmaxn2) < eps`, then with `(rho, r) := calculate_rho_nu()` every
active variable of the positive class satisfies `G_i ≥ (r + rho) - eps` below its bound and
`G_i ≤ (r + rho) + eps` above zero, every variable of the negative class the same with `r - rho`
(the clause set of the oracle clause `kkt_nu`). -/
theorem exit_test_implies_kkt_nu (e : Env α) (s : St α) (heps : 0 ≤ e.eps)
    (hpos : ∀ k, k < s.nactive → 0 < gf s.ub k)
    (hdom : ∀ k, k < s.nactive → -e.inf ≤ gf s.grad k ∧ gf s.grad k ≤ e.inf)
    (hstop : maxS ((maxViolatingPairNu e s).1.1 + (maxViolatingPairNu e s).2.2.1.1)
      ((maxViolatingPairNu e s).2.1.1 + (maxViolatingPairNu e s).2.2.2.1) < e.eps) :
    KktNuEps s ((calculateRhoNu e s).2 + (calculateRhoNu e s).1)
      ((calculateRhoNu e s).2 - (calculateRhoNu e s).1) e.eps := by
  obtain ⟨h1, h2⟩ := calculateRhoNu_split e s
  rw [h1, h2]
  have hul := fun k hk => upper_not_lower s k (hpos k hk)
  intro i hi
  cases hy : gb s.y i
  · simpa using nu_gap_class e s false heps hul hdom (exit_test_gap_nu e s hstop false) i hi hy
  · simpa using nu_gap_class e s true heps hul hdom (exit_test_gap_nu e s hstop true) i hi hy

/-- the same example read as a nu problem (`p = 0` would shift `G` by a constant per class; the test
only compares inside a class) -/
example : maxS ((maxViolatingPairNu kEnv kSt).1.1 + (maxViolatingPairNu kEnv kSt).2.2.1.1)
    ((maxViolatingPairNu kEnv kSt).2.1.1 + (maxViolatingPairNu kEnv kSt).2.2.2.1) < kEnv.eps := by
  decide +kernel

/-- **what `solve` returns is feasible, and eps-KKT unless it stopped at the iteration limit**
(plain form, `nu_constraint = false`).  For every start that `SolverState::new` can produce from a
feasible `α` (box, equal lengths, positive bounds), every kernel, shrinking on or off, every fuel:
* the state the main loop returns is in the box, has the initial `Σ y α` and the problem's size
  (also when the fuel — `max_iter` — ran out: `ExitReason::ReachedIterations`);
* if the loop ended by `break` (`ExitReason::ReachedThreshold`) all variables are active and, for the
  gradient the state holds, the oracle's clause set `kkt` holds with `rho := calculate_rho()` —
  whichever of its three reasons made `select_working_set` answer `is_optimal`.
Guards: `eps ≥ 0`, `C > 0` (`SvmParams::check`), `1e-10 > 0`; `e.inf` stands for `F::infinity()`. -/
theorem solve_returns_kkt_or_maxiter (e : Env α) (hnu : e.nu = false) (heps : 0 ≤ e.eps)
    (htiny : 0 < e.tiny) (hinf : 0 ≤ e.inf) (shrinking : Bool) (fuel : Nat) (s : St α)
    (iter counter : Nat) (hb : Box s) (hy : s.y.length = s.alpha.length)
    (hn : s.nactive ≤ s.alpha.length) (hub : s.ub.length = s.alpha.length)
    (hpos : ∀ k, k < s.alpha.length → 0 < gf s.ub k ∧ 0 < gf s.bounds k) :
    (Box (solveLoop e shrinking fuel s iter counter).1 ∧
      ySum (solveLoop e shrinking fuel s iter counter).1 = ySum s ∧
      (solveLoop e shrinking fuel s iter counter).1.alpha.length = s.alpha.length) ∧
    ((solveLoop e shrinking fuel s iter counter).2.2 = true →
      (solveLoop e shrinking fuel s iter counter).1.nactive =
        (solveLoop e shrinking fuel s iter counter).1.alpha.length ∧
      ((∀ k, k < (solveLoop e shrinking fuel s iter counter).1.nactive →
          -e.inf ≤ gf (solveLoop e shrinking fuel s iter counter).1.grad k ∧
          gf (solveLoop e shrinking fuel s iter counter).1.grad k ≤ e.inf) →
        KktEps (solveLoop e shrinking fuel s iter counter).1
          (calculateRho e (solveLoop e shrinking fuel s iter counter).1) e.eps)) := by
  have hF : Feas s.alpha.length (ySum s) s := ⟨hb, hy, rfl, hn, rfl⟩
  have hP : UbPos s.alpha.length s := ⟨hub, hb.1, hn, hpos⟩
  have h1 := solveLoop_feas s.alpha.length (ySum s) e shrinking fuel s iter counter hF
  obtain ⟨h2, h3⟩ := solveLoop_exit s.alpha.length (ySum s) e shrinking fuel s iter counter hF hP
  generalize solveLoop e shrinking fuel s iter counter = r at h1 h2 h3 ⊢
  refine ⟨⟨h1.1, h1.2.2.2.2, h1.2.2.1⟩, ?_⟩
  intro hfin
  obtain ⟨hopt, hall⟩ := h3 hfin
  refine ⟨hall, ?_⟩
  intro hdom
  have hrho : calculateRho e r.1 = calculateRhoC e r.1 := by unfold calculateRho; simp [hnu]
  have hsel : selectWorkingSet e r.1 = selectWorkingSetC e r.1 := by unfold selectWorkingSet; simp [hnu]
  rw [hrho]
  rw [hsel] at hopt
  have hdomY := fun k hk => dom_yG e r.1 k (hdom k hk)
  exact gap_implies_kkt e r.1 heps
    (fun k hk => upper_not_lower r.1 k (h2.2.2.2 k (lt_of_lt_of_le hk h2.2.2.1)).1)
    hdomY (optimal_flag_gap e r.1 heps htiny hinf hdomY hopt)

/-- the example problem solved from `α = 0`: `SolverState::new` gives a state that meets the
hypotheses, and the loop ends by `break` after one step at `α = (1/2, 1/2)` -/
example : Box (init kEnv [0, 0] [-1, -1] [1, 1] [true, false]) ∧
    (solveLoop kEnv false 10 (init kEnv [0, 0] [-1, -1] [1, 1] [true, false]) 0 3).2.2 = true ∧
    (solveLoop kEnv false 10 (init kEnv [0, 0] [-1, -1] [1, 1] [true, false]) 0 3).1.alpha = [1/2, 1/2] := by
  refine ⟨⟨rfl, ?_⟩, ?_, ?_⟩
  · decide +kernel
  · decide +kernel
  · decide +kernel

/-- **nu form** (`nu_constraint = true`): what the main loop returns is feasible, and when it ended by
`break` every active variable satisfies the clause set of the oracle clause `kkt_nu` with
`(rho, r) := calculate_rho_nu()` — whichever reason made `select_working_set_nu` answer `is_optimal`
(an empty second-order scan or `max(gmaxp1 + gmaxp2, gmaxn1 + gmaxn2) < eps`).  `-inf` has to lie
*strictly* below every gradient entry because `max_violating_pair_nu` compares with `>`. -/
theorem solve_returns_kkt_or_maxiter_nu (e : Env α) (hnu : e.nu = true) (heps : 0 ≤ e.eps)
    (htiny : 0 < e.tiny) (hinf : 0 ≤ e.inf) (shrinking : Bool) (fuel : Nat) (s : St α)
    (iter counter : Nat) (hb : Box s) (hy : s.y.length = s.alpha.length)
    (hn : s.nactive ≤ s.alpha.length) (hub : s.ub.length = s.alpha.length)
    (hpos : ∀ k, k < s.alpha.length → 0 < gf s.ub k ∧ 0 < gf s.bounds k) :
    (Box (solveLoop e shrinking fuel s iter counter).1 ∧
      ySum (solveLoop e shrinking fuel s iter counter).1 = ySum s ∧
      (solveLoop e shrinking fuel s iter counter).1.alpha.length = s.alpha.length) ∧
    ((solveLoop e shrinking fuel s iter counter).2.2 = true →
      (solveLoop e shrinking fuel s iter counter).1.nactive =
        (solveLoop e shrinking fuel s iter counter).1.alpha.length ∧
      ((∀ k, k < (solveLoop e shrinking fuel s iter counter).1.nactive →
          -e.inf < gf (solveLoop e shrinking fuel s iter counter).1.grad k ∧
          gf (solveLoop e shrinking fuel s iter counter).1.grad k < e.inf) →
        KktNuEps (solveLoop e shrinking fuel s iter counter).1
          ((calculateRhoNu e (solveLoop e shrinking fuel s iter counter).1).2 +
            (calculateRhoNu e (solveLoop e shrinking fuel s iter counter).1).1)
          ((calculateRhoNu e (solveLoop e shrinking fuel s iter counter).1).2 -
            (calculateRhoNu e (solveLoop e shrinking fuel s iter counter).1).1) e.eps)) := by
  have hF : Feas s.alpha.length (ySum s) s := ⟨hb, hy, rfl, hn, rfl⟩
  have hP : UbPos s.alpha.length s := ⟨hub, hb.1, hn, hpos⟩
  have h1 := solveLoop_feas s.alpha.length (ySum s) e shrinking fuel s iter counter hF
  obtain ⟨h2, h3⟩ := solveLoop_exit s.alpha.length (ySum s) e shrinking fuel s iter counter hF hP
  generalize solveLoop e shrinking fuel s iter counter = r at h1 h2 h3 ⊢
  refine ⟨⟨h1.1, h1.2.2.2.2, h1.2.2.1⟩, ?_⟩
  intro hfin
  obtain ⟨hopt, hall⟩ := h3 hfin
  refine ⟨hall, ?_⟩
  intro hdom
  have hsel : selectWorkingSet e r.1 = selectWorkingSetNu e r.1 := by unfold selectWorkingSet; simp [hnu]
  rw [hsel] at hopt
  obtain ⟨s1, s2⟩ := calculateRhoNu_split e r.1
  rw [s1, s2]
  have hul := fun k hk => upper_not_lower r.1 k (h2.2.2.2 k (lt_of_lt_of_le hk h2.2.2.1)).1
  have hdom' : ∀ k, k < r.1.nactive → -e.inf ≤ gf r.1.grad k ∧ gf r.1.grad k ≤ e.inf :=
    fun k hk => ⟨le_of_lt (hdom k hk).1, le_of_lt (hdom k hk).2⟩
  intro i hi
  cases hyi : gb r.1.y i
  · simpa using nu_gap_class e r.1 false heps hul hdom'
      (optimal_flag_gap_nu e r.1 heps htiny hinf hdom hopt false) i hi hyi
  · simpa using nu_gap_class e r.1 true heps hul hdom'
      (optimal_flag_gap_nu e r.1 heps htiny hinf hdom hopt true) i hi hyi

/-- a nu start on the example (`p = 0`, `α = (1/2, 1/2)` = `ν n / 2` per class): the loop ends by `break` -/
example : (solveLoop { kEnv with nu := true } false 10
    (init { kEnv with nu := true } [1/2, 1/2] [0, 0] [1, 1] [true, false]) 0 3).2.2 = true := by
  decide +kernel

/-- **under `nu_constraint` both selected variables belong to one class** -/
theorem nu_selected_pair_same_class (e : Env α) (s : St α) (i j : Nat)
    (h : selectWorkingSetNu e s = (i, j, false)) :
    i ≠ j ∧ i < s.nactive ∧ j < s.nactive ∧ gb s.y i = gb s.y j :=
  selectWorkingSetNu_valid e s i j h

/-- **a step on a pair of one class keeps the sum of either class** (the second equality constraint
of the nu duals, `e'α = ν n`, split by class), for every kernel, gradient and step length. -/
theorem nu_update_preserves_class_sums (e : Env α) (s : St α) (i j : Nat) (hij : i ≠ j)
    (hi : i < s.alpha.length) (hj : j < s.alpha.length) (hb : Box s)
    (hy : gb s.y i = gb s.y j) (c : Bool) :
    classSum (update e s i j) c = classSum s c :=
  update_classSum e s i j hij hi hj hb hy c

/-- positions 0 and 2 of the example carry the same label -/
example : gb exSt.y 0 = gb exSt.y 2 ∧ (0 : Nat) ≠ 2 ∧ 2 < exSt.alpha.length := by decide

/-- **the two class multipliers of the nu dual are `r + rho` and `r - rho`** for the values
`calculate_rho_nu` returns / stores (what `fit_nu` divides the coefficients by is their mean `r`). -/
theorem rho_nu_split (e : Env α) (s : St α) :
    (calculateRhoNu e s).2 + (calculateRhoNu e s).1 = rhoNuClass e s true ∧
    (calculateRhoNu e s).2 - (calculateRhoNu e s).1 = rhoNuClass e s false :=
  calculateRhoNu_split e s

/-- **the regression fold** publishes `m` coefficients `α_i - α_{i+m}` from the `2 m` variables. -/
theorem regression_fold (alpha : List α) (m : Nat) (hm : m < alpha.length) :
    (foldRegression alpha m).length = m ∧
    ∀ i, i < m → gf (foldRegression alpha m) i = gf alpha i - gf alpha (i + m) :=
  foldRegression_spec alpha m hm

example : foldRegression ([1, 0, 1/2, 0, 2, 0] : List ℚ) 3 = [1, -2, 1/2] := by
  norm_num [foldRegression, gf, List.range_succ]

/-- **the number of support vectors is the number of coefficients above the threshold**, and it
is the number of rows `solve` selected. -/
theorem nsupport_counts_nonzero (thr : α) (alpha : List α) :
    nsupport thr alpha = (supportIdx thr alpha).length := by
  unfold nsupport supportIdx
  rw [← filter_range_map alpha (fun a => decide (thr < absS a)), List.length_map]

/-- **`weighted_sum` pairs every selected support vector with its own coefficient**: zipping the
rows selected by `solve` (kernel values `kf i` for sample `i`) with the coefficients re-filtered by
`weighted_sum` gives `Σ_{i : |α_i| > thr} K(x_i, x) α_i` — provided both filters see the same
coefficient vector `alpha` (true for C-classification, one-class and regression; nu-classification
rescales `alpha` by `1/r` between the two filters, there the index sets must coincide — checked by
the oracle clause `decision_value`). -/
theorem weightedSum_pairs (thr : α) (alpha : List α) (kf : Nat → α) :
    weightedSum thr alpha ((supportIdx thr alpha).map kf) =
      sumS ((supportIdx thr alpha).map fun i => kf i * gf alpha i) := by
  unfold weightedSum
  rw [← filter_range_map alpha (fun a => decide (thr < absS a))]
  unfold supportIdx
  rw [List.zipWith_map, List.zipWith_self]

example : supportIdx (1/100 : ℚ) [1/2, 0, -2, 1/1000] = [0, 2] := by
  norm_num [supportIdx, gf, absS, List.range_succ, List.filter]

/-! ### what `solve` publishes: the loop keeps the bookkeeping sound, so the written-back vector is
feasible sample by sample (round 3: composition of `solve_loop_feasible`, `writeBack_correct` and
alignment, which the second audit found stated only informally) -/

/-- **`active_set` stays a permutation of the samples through the whole main loop** (selection, step,
`do_shrinking(_nu)` with its swaps, `reconstruct_gradient`, re-activation; every fuel, plain and nu
form): the hypotheses `Nodup` / range of `writeBack_correct` hold for whatever state the loop returns. -/
theorem solve_loop_keeps_permutation (e : Env α) (shrinking : Bool) (fuel : Nat) (s : St α)
    (iter counter n : Nat) (h : PermInv n s) :
    PermInv n (solveLoop e shrinking fuel s iter counter).1 :=
  solveLoop_inv (permInv_loop e n) shrinking fuel s iter counter h

/-- **labels and bounds stay aligned with `active_set` through the whole main loop** (for all three
kernel wrappers): position `k` of the returned state holds label and bound of sample `active_set[k]`. -/
theorem solve_loop_keeps_alignment (e : Env α) (b0 : List α) (y0 : List Bool) (shrinking : Bool)
    (fuel : Nat) (s : St α) (iter counter : Nat) (h : AlignedBY b0 y0 s) :
    AlignedBY b0 y0 (solveLoop e shrinking fuel s iter counter).1 :=
  solveLoop_inv (alignedBY_loop e b0 y0) shrinking fuel s iter counter h

/-- `SolverState::new` establishes both (identity `active_set`), the box and the sizes -/
theorem init_establishes (e : Env α) (a0 p0 b0 : List α) (y0 : List Bool)
    (hb : b0.length = a0.length) (hy : y0.length = a0.length)
    (hbox : ∀ k, k < a0.length → 0 ≤ gf a0 k ∧ gf a0 k ≤ gf b0 k) :
    PermInv a0.length (init e a0 p0 b0 y0) ∧ AlignedBY b0 y0 (init e a0 p0 b0 y0) ∧
    Feas a0.length (∑ k ∈ Finset.range a0.length, (if gb y0 k then (1 : α) else -1) * gf a0 k)
      (init e a0 p0 b0 y0) := by
  obtain ⟨c1, c2, c3, c4, c5, _, _⟩ := init_core e a0 p0 b0 y0
  refine ⟨⟨by rw [c4]; simp, by rw [c1], by rw [c5], by rw [c4]; exact List.nodup_range,
      by rw [c4]; intro a ha; exact List.mem_range.mp ha⟩, ⟨⟨by rw [c3, c1]; exact hy, by rw [c2, c1]; exact hb,
      by rw [c4, c1]; simp, by rw [c5, c1]⟩, ?_⟩, ⟨⟨by rw [c2, c1]; exact hb, ?_⟩, by rw [c3, c1]; exact hy,
      by rw [c1], by rw [c5], ?_⟩⟩
  · intro k hk
    rw [c1] at hk
    rw [c3, c2, c4, gn_range _ k hk]
    exact ⟨rfl, rfl⟩
  · intro k hk
    rw [c1] at hk ⊢
    rw [c2]; exact hbox k hk
  · unfold ySum tgt; rw [c1, c3]

example : (∀ k, k < ([0, 1/2] : List ℚ).length → 0 ≤ gf ([0, 1/2] : List ℚ) k ∧ gf ([0, 1/2] : List ℚ) k ≤ gf ([1, 1] : List ℚ) k) := by
  intro k hk
  have : k = 0 ∨ k = 1 := by simp only [List.length_cons, List.length_nil] at hk; omega
  rcases this with h | h <;> subst h <;> norm_num [gf]

/-- **the coefficient vector the solver writes back is feasible sample by sample** — for every
problem (`alpha0` in the box of `b0`, any kernel, linear term, labels, tolerance), every kernel wrapper,
plain or nu selection, shrinking on or off, every fuel (so also at the iteration limit): with
`s` the state the main loop of `solve` stops in, started from `SolverState::new`,
`writeBack s` — the vector `solve` builds through `active_set` — has one entry per variable, entry `a`
lies in `[0, b0[a]]` (the bound **of that sample**, whatever permutation shrinking left behind), and
`Σ_a y_a · out_a` is the value the start had.  No hypothesis beyond the feasibility of the start:
permutation and alignment of the bookkeeping are established by `SolverState::new` and kept by the loop
(`solve_loop_keeps_permutation`, `solve_loop_keeps_alignment`). -/
theorem published_alpha_feasible (e : Env α) (shrinking : Bool) (fuel : Nat) (a0 p0 b0 : List α)
    (y0 : List Bool) (iter counter : Nat)
    (hb : b0.length = a0.length) (hy : y0.length = a0.length)
    (hbox : ∀ k, k < a0.length → 0 ≤ gf a0 k ∧ gf a0 k ≤ gf b0 k) :
    (writeBack (solveLoop e shrinking fuel (init e a0 p0 b0 y0) iter counter).1).length = a0.length ∧
    (∀ a, a < a0.length →
      0 ≤ gf (writeBack (solveLoop e shrinking fuel (init e a0 p0 b0 y0) iter counter).1) a ∧
      gf (writeBack (solveLoop e shrinking fuel (init e a0 p0 b0 y0) iter counter).1) a ≤ gf b0 a) ∧
    ∑ a ∈ Finset.range a0.length, (if gb y0 a then (1 : α) else -1) *
        gf (writeBack (solveLoop e shrinking fuel (init e a0 p0 b0 y0) iter counter).1) a =
      ∑ a ∈ Finset.range a0.length, (if gb y0 a then (1 : α) else -1) * gf a0 a := by
  obtain ⟨hP, hA, hF⟩ := init_establishes e a0 p0 b0 y0 hb hy hbox
  have h1 := solve_loop_keeps_permutation e shrinking fuel _ iter counter _ hP
  have h2 := solve_loop_keeps_alignment e b0 y0 shrinking fuel _ iter counter hA
  have h3 := solveLoop_feas _ _ e shrinking fuel _ iter counter hF
  obtain ⟨r1, r2, r3⟩ := writeBack_feasible b0 y0 _ a0.length h1 h2 h3.1
  exact ⟨r1, r2, by rw [r3]; exact h3.2.2.2.2⟩

/-- the loop of `solve` as `solve` calls it -/
def solveState (e : Env α) (shrinking : Bool) (fuel : Nat) (s0 : St α) : St α :=
  (solveLoop e shrinking fuel s0 0 (min (ntotal s0) 1000 + 1)).1

/-- `Svm.alpha` as `solve` computes it: write-back, then the regression fold -/
theorem solve_alpha_eq (e : Env α) (thr : α) (shrinking : Bool) (fuel : Nat) (X : List (List α)) (d : Nat)
    (s0 : St α) :
    (solve e thr shrinking fuel X d s0).alpha =
      foldRegression (writeBack (solveState e shrinking fuel s0)) X.length := rfl

/-- **classification / one-class: `Svm.alpha` of `solve` is feasible** — as many data rows as variables
(no fold): the published vector itself lies in the per-sample box and keeps `Σ y α` of the start. -/
theorem solve_publishes_feasible (e : Env α) (thr : α) (shrinking : Bool) (fuel : Nat)
    (X : List (List α)) (d : Nat) (a0 p0 b0 : List α) (y0 : List Bool)
    (hX : X.length = a0.length) (hb : b0.length = a0.length) (hy : y0.length = a0.length)
    (hbox : ∀ k, k < a0.length → 0 ≤ gf a0 k ∧ gf a0 k ≤ gf b0 k) :
    (∀ a, a < a0.length →
      0 ≤ gf (solve e thr shrinking fuel X d (init e a0 p0 b0 y0)).alpha a ∧
      gf (solve e thr shrinking fuel X d (init e a0 p0 b0 y0)).alpha a ≤ gf b0 a) ∧
    ∑ a ∈ Finset.range a0.length, (if gb y0 a then (1 : α) else -1) *
        gf (solve e thr shrinking fuel X d (init e a0 p0 b0 y0)).alpha a =
      ∑ a ∈ Finset.range a0.length, (if gb y0 a then (1 : α) else -1) * gf a0 a := by
  obtain ⟨r1, r2, r3⟩ := published_alpha_feasible e shrinking fuel a0 p0 b0 y0 0
    (min (ntotal (init e a0 p0 b0 y0)) 1000 + 1) hb hy hbox
  have hfold : (solve e thr shrinking fuel X d (init e a0 p0 b0 y0)).alpha =
      writeBack (solveLoop e shrinking fuel (init e a0 p0 b0 y0) 0
        (min (ntotal (init e a0 p0 b0 y0)) 1000 + 1)).1 := by
    rw [solve_alpha_eq]
    unfold foldRegression solveState
    rw [r1, hX]
    simp
  rw [hfold]
  exact ⟨r2, r3⟩

/-- **regression: the folded coefficient of sample `i` lies in `[-b0[i+m], b0[i]]`** (`2 m` variables over
`m` data rows, `Svm.alpha[i] = out[i] - out[i+m]`). -/
theorem solve_publishes_feasible_regression (e : Env α) (thr : α) (shrinking : Bool) (fuel : Nat)
    (X : List (List α)) (d : Nat) (a0 p0 b0 : List α) (y0 : List Bool)
    (hX : X.length + X.length = a0.length) (hm : 0 < X.length)
    (hb : b0.length = a0.length) (hy : y0.length = a0.length)
    (hbox : ∀ k, k < a0.length → 0 ≤ gf a0 k ∧ gf a0 k ≤ gf b0 k) :
    (solve e thr shrinking fuel X d (init e a0 p0 b0 y0)).alpha.length = X.length ∧
    ∀ i, i < X.length →
      -gf b0 (i + X.length) ≤ gf (solve e thr shrinking fuel X d (init e a0 p0 b0 y0)).alpha i ∧
      gf (solve e thr shrinking fuel X d (init e a0 p0 b0 y0)).alpha i ≤ gf b0 i := by
  obtain ⟨r1, r2, _⟩ := published_alpha_feasible e shrinking fuel a0 p0 b0 y0 0
    (min (ntotal (init e a0 p0 b0 y0)) 1000 + 1) hb hy hbox
  rw [solve_alpha_eq]
  have hlt : X.length < (writeBack (solveState e shrinking fuel (init e a0 p0 b0 y0))).length := by
    unfold solveState; rw [r1]; omega
  obtain ⟨f1, f2⟩ := foldRegression_spec _ X.length hlt
  refine ⟨f1, ?_⟩
  intro i hi
  rw [f2 i hi]
  unfold solveState
  have hi1 := r2 i (by omega)
  have hi2 := r2 (i + X.length) (by omega)
  constructor <;> linarith [hi1.1, hi1.2, hi2.1, hi2.2]

/-- the example problem `x = ±1` solved from `α = 0`: the published vector is `(1/2, 1/2)` -/
example : (solve kEnv (1/1000000) false 10 [[1], [-1]] 1 (init kEnv [0, 0] [-1, -1] [1, 1] [true, false])).alpha
    = [1/2, 1/2] := by
  decide +kernel

/-- **under `nu_constraint` every class keeps its sum through the whole main loop** (the second equality
constraint `e'α = ν n` of the nu duals, per class; loop level — `nu_update_preserves_class_sums` is the
single step): selection by `select_working_set_nu` (same class), step, shrinking swaps, reconstruction. -/
theorem solve_loop_keeps_class_sums (e : Env α) (hnu : e.nu = true) (shrinking : Bool) (fuel : Nat)
    (s : St α) (iter counter : Nat) (hb : Box s) (hy : s.y.length = s.alpha.length)
    (hn : s.nactive ≤ s.alpha.length) (c : Bool) :
    classSum (solveLoop e shrinking fuel s iter counter).1 c = classSum s c :=
  (solveLoop_inv (classInv_loop e hnu c (classSum s c)) shrinking fuel s iter counter
    ⟨hb, hy, hn, rfl⟩).2.2.2

/-- **the rows `solve` stores are the rows of the coefficients above the threshold, and `nsupport()` counts
them**: stated about `solve` itself (`Solved.support`, `Solved.alpha`), not about an arbitrary list. -/
theorem solve_support_is_nonzero (e : Env α) (thr : α) (shrinking : Bool) (fuel : Nat) (X : List (List α))
    (d : Nat) (s0 : St α) :
    (solve e thr shrinking fuel X d s0).support = supportIdx thr (solve e thr shrinking fuel X d s0).alpha ∧
    nsupport thr (solve e thr shrinking fuel X d s0).alpha = (solve e thr shrinking fuel X d s0).support.length ∧
    ∀ kf : Nat → α, weightedSum thr (solve e thr shrinking fuel X d s0).alpha
        ((solve e thr shrinking fuel X d s0).support.map kf) =
      sumS ((solve e thr shrinking fuel X d s0).support.map fun i =>
        kf i * gf (solve e thr shrinking fuel X d s0).alpha i) := by
  have h1 : (solve e thr shrinking fuel X d s0).support =
      supportIdx thr (solve e thr shrinking fuel X d s0).alpha := rfl
  refine ⟨h1, ?_, ?_⟩
  · rw [h1]; exact nsupport_counts_nonzero thr _
  · intro kf; rw [h1]; exact weightedSum_pairs thr _ kf

/-- **one SMO step keeps the gradient invariant `G_k = p_k + Σ_l Q_kl α_l` on the active positions**
(`Q_kl` = entry `k` of `kernel.distances(l, ·)` as the kernel wrapper of the state serves it — any of the
three wrappers, any kernel matrix, symmetric or not): the incremental update
`G_k += Q_ki Δα_i + Q_kj Δα_j` of `update` is exact, for every pair of distinct active positions and every
step length / clipping case.  Hypotheses = what `SolverState::new` establishes (sizes).

PARTIAL with respect to the statement one wants: *the gradient the main loop holds when it stops is
`p + Qα` of the published point* (so that `solve_returns_kkt_or_maxiter` speaks about the true gradient).
Missing: the same invariant through `swap` / `do_shrinking` (positions beyond `nactive` hold stale
gradients by design), through both branches of `reconstruct_gradient` (needs the companion invariant
`Ḡ_k = Σ_{l at upper bound} C_l Q_kl` that `update` maintains on **all** positions) and through
`SolverState::new`.  Those stay with the oracle clauses `gradient_active`, `gradient_fixed`,
`gradient_reconstructed` (every scripted step) and with the bit-for-bit correspondence. -/
theorem gradient_invariant_partial (e : Env α) (s : St α) (i j : Nat) (hij : i ≠ j)
    (hi : i < s.nactive) (hj : j < s.nactive) (hn : s.nactive ≤ s.alpha.length)
    (hg : s.grad.length = s.alpha.length) (h : GradOK e s) : GradOK e (update e s i j) :=
  update_gradOK e s i j hij hi hj hn hg h

/-- **the gradient invariant survives every run of SMO steps on the active prefix** (any number of
steps, any distinct working pairs below `nactive`, any clipping case): the multi-step lift of
`gradient_invariant_partial`.  Still PARTIAL: no `swap` / `do_shrinking` / `reconstruct_gradient` between the
steps (i.e. the loop with shrinking off, or between two shrinking events). -/
theorem gradient_invariant_steps_partial (e : Env α) (steps : List (Nat × Nat)) (s : St α)
    (hv : ActiveSteps s steps) (hn : s.nactive ≤ s.alpha.length) (hg : s.grad.length = s.alpha.length)
    (h : GradOK e s) : GradOK e (steps.foldl (fun s st => update e s st.1 st.2) s) :=
  updates_gradOK e steps s hv hn hg h

/-- **from the zero start (`SolverState::new` as C-classification and epsilon-regression call it) the
solver holds the true gradient `p + Qα` after any sequence of working pairs** — `SolverState::new`
establishes the invariant (no variable off its lower bound, so the gradient is the linear term) and
every step keeps it.  No hypothesis on the kernel, labels, bounds or step count.  PARTIAL as above
(shrinking off); the nu-variants start off zero and are not covered by the start lemma. -/
theorem gradient_true_from_zero_start_partial (e : Env α) (a0 p0 b0 : List α) (y0 : List Bool)
    (hz : ∀ k, gf a0 k = 0) (hp : p0.length = a0.length) (steps : List (Nat × Nat))
    (hv : ValidSteps a0.length steps) :
    GradOK e (steps.foldl (fun s st => update e s st.1 st.2) (init e a0 p0 b0 y0)) := by
  obtain ⟨c1, c2, _, c4⟩ := init_zero_core e a0 p0 b0 y0 hz
  apply updates_gradOK
  · intro st hst; rw [c4]; exact hv st hst
  · rw [c4, c1]
  · rw [c2, c1]; exact hp
  · exact init_zero_gradOK e a0 p0 b0 y0 hz

/-- non-vacuity: a zero start of two variables with a valid two-step working-pair sequence -/
example : (∀ k, gf ([0, 0] : List ℚ) k = 0) ∧ ValidSteps ([0, 0] : List ℚ).length [(0, 1), (1, 0)] := by
  refine ⟨fun k => ?_, ?_⟩
  · unfold gf
    rcases k with _ | _ | k <;> simp
  · intro st hst
    simp only [List.mem_cons, List.mem_nil_iff, or_false] at hst
    rcases hst with h | h <;> subst h <;> decide

/-- the two-sample optimum holds the exact gradient: `Q = [[1,1],[1,1]]`, `p + Qα = -1 + 1/2 + 1/2 = 0` -/
example : GradOK kEnv kSt := by
  intro k hk
  have : k = 0 ∨ k = 1 := by simp only [kSt] at hk; omega
  rcases this with h | h <;> subst h <;>
    norm_num [kSt, kEnv, Qe, dist, gf, gb, gn, kEntry, Finset.sum_range_succ, List.range_succ]

/-- the example's `active_set` is a 3-cycle (not an involution): variable values `[0, 1/2, 2]` at
positions 0,1,2 belong to samples 2,0,1 -/
example : writeBack exSt = [1/2, 2, 0] := by
  simp [writeBack, ntotal, exSt, gn, gf, List.range_succ]

example : exSt.active.Nodup ∧ (∀ a ∈ exSt.active, a < exSt.alpha.length) := by decide

end LinfaSpec.Props.C13
