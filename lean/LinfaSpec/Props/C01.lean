import LinfaSpec.Model.Fold

namespace LinfaSpec.Props.C01
open LinfaSpec.Fold

theorem placeholder : (chunks 2 [1,2,3] : List (List Nat)) = [[1,2],[3]] := by decide

end LinfaSpec.Props.C01
