import LinfaSpec.Proofs.Fold
import LinfaSpec.Proofs.FoldCv

/-!
# C01 — K-fold splitting partitions the samples and leaves the dataset intact

Theorems about `LinfaSpec.Fold` (the model of `fold`, `iter_fold`, `cross_validate`),
for every dataset (a list over an arbitrary row type), every `2 ≤ k ≤ n`.
The Rust code folds `records` and `targets` with the same chunk size and the same
swaps; the model applies the same polymorphic function to both containers, so a
statement for an arbitrary row type covers records, targets and their pairing.
-/
namespace LinfaSpec.Props.C01
open LinfaSpec.Fold

/-- number of chunks is at least `k` and at least two under the property's guard -/
theorem chunks_enough {α} (k : Nat) (ds : List α) (hk : 2 ≤ k) (hn : k ≤ ds.length) :
    k ≤ (chunks (ds.length / k) ds).length ∧ 0 < ds.length / k := by
  have hfs : 0 < ds.length / k := Nat.div_pos hn (by omega)
  refine ⟨?_, hfs⟩
  rw [chunks_length]
  -- k * fs ≤ n, so ceil(n / fs) ≥ k
  have h1 : k * (ds.length / k) ≤ ds.length := Nat.mul_div_le _ _
  rw [Nat.le_div_iff_mul_le hfs]
  omega

/-- **fold never fails on the inputs the property covers** (`2 ≤ k ≤ n`), it
yields exactly `k` pairs, and pair `i` is
(all rows outside block `i`, in their original order ; block `i`)
where block `i` is rows `[i*fs, (i+1)*fs)`, `fs = n / k`. -/
theorem fold_spec {α} (k : Nat) (ds : List α) (hk : 2 ≤ k) (hn : k ≤ ds.length) :
    foldPairs k ds = some ((List.range k).map fun i =>
      (ds.take (i * (ds.length / k)) ++ ds.drop ((i + 1) * (ds.length / k)),
       (ds.drop (i * (ds.length / k))).take (ds.length / k))) := by
  obtain ⟨hlen, hfs⟩ := chunks_enough k ds hk hn
  have hne : ¬ (ds.length / k = 0) := by omega
  unfold foldPairs
  simp only [show ¬ k = 0 by omega, hne, if_false]
  have hguard : ¬ ((chunks (ds.length / k) ds).length < 2 ∨ (chunks (ds.length / k) ds).length < k) := by
    omega
  simp only [hguard, if_false]
  congr 1
  have := foldGo_spec k (chunks (ds.length / k) ds) hlen k 0 (by omega)
  rw [rot_zero] at this
  rw [this]
  apply List.map_congr_left
  intro i hi
  have hi' : i < k := List.mem_range.mp hi
  simp only [Nat.zero_add]
  rw [List.flatten_append, flatten_take_chunks _ hfs, flatten_drop_chunks _ hfs]
  rw [chunks_length] at hlen
  rw [chunks_getElem? _ _ _ (by omega)]
  rfl

example : foldPairs 3 [0, 1, 2, 3, 4, 5, 6] =
    some [([2, 3, 4, 5, 6], [0, 1]), ([0, 1, 4, 5, 6], [2, 3]), ([0, 1, 2, 3, 6], [4, 5])] := by
  decide

/-- every pair is a split of the original multiset: `training ++ validation` is a
permutation of the dataset (so the two parts are disjoint as multisets and their
union is everything) -/
theorem fold_partition {α} (k : Nat) (ds : List α) (hk : 2 ≤ k) (hn : k ≤ ds.length)
    (ps : List (List α × List α)) (h : foldPairs k ds = some ps) :
    ps.length = k ∧ ∀ p ∈ ps, (p.1 ++ p.2).Perm ds := by
  rw [fold_spec k ds hk hn] at h
  cases h
  refine ⟨by simp, ?_⟩
  intro p hp
  simp only [List.mem_map, List.mem_range] at hp
  obtain ⟨i, _, rfl⟩ := hp
  generalize ds.length / k = fs
  -- take a ++ drop b ++ take fs (drop a)  ~  take a ++ (take fs (drop a) ++ drop (a+fs))
  have e : ds.drop ((i + 1) * fs) = (ds.drop (i * fs)).drop fs := by
    rw [List.drop_drop]; congr 1; rw [Nat.succ_mul]
  simp only [e]
  have h2 : ds = ds.take (i * fs) ++ ((ds.drop (i * fs)).take fs ++ (ds.drop (i * fs)).drop fs) := by
    rw [List.take_append_drop, List.take_append_drop]
  conv => rhs; rw [h2]
  rw [List.append_assoc]
  exact List.Perm.append_left _ List.perm_append_comm

/-- the validation parts are the consecutive blocks: concatenated in fold order they
are exactly the first `k * (n / k)` rows, each once; the tail is training-only -/
theorem fold_validation_blocks {α} (k : Nat) (ds : List α) (hk : 2 ≤ k) (hn : k ≤ ds.length)
    (ps : List (List α × List α)) (h : foldPairs k ds = some ps) :
    (ps.map (·.2)).flatten = ds.take (k * (ds.length / k)) := by
  obtain ⟨hlen, hfs⟩ := chunks_enough k ds hk hn
  rw [fold_spec k ds hk hn] at h
  cases h
  rw [← flatten_take_chunks _ hfs]
  congr 1
  apply List.ext_getElem?
  intro i
  rw [chunks_length] at hlen
  by_cases hi : i < k
  · have hc := chunks_getElem? (ds.length / k) ds i (by omega)
    simp [hi, hc]
  · simp [List.getElem?_take, hi]

/-- **rows stay paired**: pair `i` of the fold of the zipped (record, target) rows
is the zip of pair `i` of the records with pair `i` of the targets as the Rust code
computes them from its two parallel chunk vectors (same chunk size, same swaps) —
no record is ever attached to another row's target. -/
theorem fold_rows_stay_paired {α β} (k : Nat) (rs : List α) (ts : List β)
    (hlen : rs.length = ts.length) (hk : 2 ≤ k) (hn : k ≤ rs.length) :
    ∃ fr ft, foldPairs k rs = some fr ∧ foldPairs k ts = some ft ∧ fr.length = k ∧ ft.length = k ∧
      foldPairs k (rs.zip ts) =
        some ((List.range k).map fun i =>
          (((fr[i]?).getD ([], [])).1.zip ((ft[i]?).getD ([], [])).1,
           ((fr[i]?).getD ([], [])).2.zip ((ft[i]?).getD ([], [])).2)) := by
  have hz : (rs.zip ts).length = rs.length := by simp [hlen]
  refine ⟨_, _, fold_spec k rs hk hn, fold_spec k ts hk (hlen ▸ hn), by simp, by simp, ?_⟩
  rw [fold_spec k (rs.zip ts) hk (hz ▸ hn)]
  congr 1
  apply List.map_congr_left
  intro i hi
  have hi' : i < k := List.mem_range.mp hi
  simp only [hz, ← hlen, List.getElem?_map, List.getElem?_range hi', Option.map_some, Option.getD_some]
  simp only [List.zip, List.take_zipWith, List.drop_zipWith]
  rw [List.zipWith_append (by simp [hlen])]


/-! ## `fold`: the guard is exact, the tail, positions, sizes, counted targets -/

/-- **the property's guard is exactly the set of calls that return**: `fold(k)` yields a
result iff `2 ≤ k ≤ n` (`k = 0` divides by zero, `k = 1` has nothing to concatenate, `k > n`
asks ndarray for chunks of size 0). -/
theorem fold_guard_exact {α} (k : Nat) (ds : List α) :
    (foldPairs k ds).isSome = true ↔ 2 ≤ k ∧ k ≤ ds.length := by
  constructor
  · intro h
    unfold foldPairs at h
    by_cases hk0 : k = 0
    · simp [hk0] at h
    · by_cases hfs : ds.length / k = 0
      · simp [hk0, hfs] at h
      · simp only [hk0, hfs, if_false] at h
        by_cases hg : (chunks (ds.length / k) ds).length < 2 ∨ (chunks (ds.length / k) ds).length < k
        · simp [hg] at h
        · have hkn : k ≤ ds.length := by
            rcases Nat.lt_or_ge ds.length k with hlt | hge
            · exact absurd (Nat.div_eq_of_lt hlt) hfs
            · exact hge
          refine ⟨?_, hkn⟩
          -- k = 1 gives a single chunk
          rcases Nat.lt_or_ge k 2 with hlt | hge
          · exfalso
            have hk1 : k = 1 := by omega
            subst hk1
            apply hg; left
            rw [chunks_length, Nat.div_one]
            have hn : 0 < ds.length := by omega
            have : (ds.length + ds.length - 1) / ds.length = 1 := by
              apply Nat.div_eq_of_lt_le <;> omega
            omega
          · exact hge
  · rintro ⟨hk, hn⟩
    have hfs : 0 < ds.length / k := Nat.div_pos hn (by omega)
    have hlen : k ≤ (chunks (ds.length / k) ds).length := by
      rw [chunks_length, Nat.le_div_iff_mul_le hfs]
      have h1 : k * (ds.length / k) ≤ ds.length := Nat.mul_div_le _ _
      omega
    unfold foldPairs
    have hg : ¬ ((chunks (ds.length / k) ds).length < 2 ∨ (chunks (ds.length / k) ds).length < k) := by omega
    simp [show ¬ k = 0 by omega, show ¬ ds.length / k = 0 by omega, hg]

example : (foldPairs 1 [1, 2, 3]).isSome = false ∧ (foldPairs 4 [1, 2, 3]).isSome = false ∧
    (foldPairs 3 [1, 2, 3]).isSome = true := by decide

/-- **the remaining tail is training-only**: the `n mod k`… more precisely the rows after the
first `k * (n / k)` are a suffix of every training part (and by `fold_validation_blocks` in no
validation part). -/
theorem fold_tail_training_only {α} (k : Nat) (ds : List α) (hk : 2 ≤ k) (hn : k ≤ ds.length)
    (ps : List (List α × List α)) (h : foldPairs k ds = some ps) :
    ∀ p ∈ ps, ds.drop (k * (ds.length / k)) <:+ p.1 := by
  rw [fold_spec k ds hk hn] at h
  cases h
  intro p hp
  simp only [List.mem_map, List.mem_range] at hp
  obtain ⟨i, hi, rfl⟩ := hp
  generalize ds.length / k = fs
  have e : ds.drop (k * fs) = (ds.drop ((i + 1) * fs)).drop ((k - (i + 1)) * fs) := by
    rw [List.drop_drop]; congr 1
    rw [← Nat.add_mul]; congr 1; omega
  simp only [e]
  exact List.IsSuffix.trans (List.drop_suffix _ _) (List.suffix_append _ _)

example : ([6] : List Nat) <:+ [2, 3, 4, 5, 6] := ⟨[2, 3, 4, 5], rfl⟩

/-- **each of the first `k * (n / k)` samples is validated exactly once, and where**: sample `j`
sits at position `j mod fs` of the validation part of fold `j / fs` (`fs = n / k`); with
`fold_valid_lengths` (every validation part has `fs` rows) and `fold_validation_blocks` (their
concatenation is `take (k*fs)`) this is a bijection between validated positions and
`[0, k*fs)`. -/
theorem fold_validated_at {α} (k : Nat) (ds : List α) (hk : 2 ≤ k) (hn : k ≤ ds.length)
    (ps : List (List α × List α)) (h : foldPairs k ds = some ps) (j : Nat)
    (hj : j < k * (ds.length / k)) :
    ((ps[j / (ds.length / k)]?).map fun p => p.2[j % (ds.length / k)]?) = some ds[j]? := by
  rw [fold_spec k ds hk hn] at h
  cases h
  have hfs : 0 < ds.length / k := Nat.div_pos hn (by omega)
  generalize ds.length / k = fs at *
  have hq : j / fs < k := by
    rw [Nat.div_lt_iff_lt_mul hfs]; exact hj
  have hr : j % fs < fs := Nat.mod_lt _ hfs
  simp only [List.getElem?_map, List.getElem?_range hq, Option.map_some]
  congr 1
  rw [List.getElem?_take_of_lt hr, List.getElem?_drop]
  congr 1
  rw [Nat.mul_comm]; exact Nat.div_add_mod j fs

example : (([([2, 3, 4], [0, 1]), ([0, 1, 4], [2, 3])] : List (List Nat × List Nat))[3 / 2]?).map
    (fun p => p.2[3 % 2]?) = some ([0, 1, 2, 3, 4][3]?) := by decide

/-- sizes: every validation part has `n / k` rows, every training part the other `n - n / k` -/
theorem fold_valid_lengths {α} (k : Nat) (ds : List α) (hk : 2 ≤ k) (hn : k ≤ ds.length)
    (ps : List (List α × List α)) (h : foldPairs k ds = some ps) :
    ∀ p ∈ ps, p.2.length = ds.length / k ∧ p.1.length = ds.length - ds.length / k := by
  rw [fold_spec k ds hk hn] at h
  cases h
  intro p hp
  simp only [List.mem_map, List.mem_range] at hp
  obtain ⟨i, hi, rfl⟩ := hp
  have hkn : k * (ds.length / k) ≤ ds.length := Nat.mul_div_le _ _
  generalize ds.length / k = fs at *
  have h1 : (i + 1) * fs ≤ k * fs := Nat.mul_le_mul_right _ (by omega)
  have h2 : (i + 1) * fs = i * fs + fs := by rw [Nat.succ_mul]
  simp only [List.length_take, List.length_drop, List.length_append]
  omega

example : foldPairs 3 [0, 1, 2, 3, 4, 5, 6, 7] = some
    [([2, 3, 4, 5, 6, 7], [0, 1]), ([0, 1, 4, 5, 6, 7], [2, 3]), ([0, 1, 2, 3, 6, 7], [4, 5])] := by decide

/-- **`CountedTargets` datasets**: the label counts carried by each part of a pair are the
counts of that part's own targets (`new_targets` recounts), and the two parts' counts add up to
the dataset's count for every label. -/
theorem fold_counted_recount {γ} [BEq γ] [LawfulBEq γ] (k : Nat) (tgts : List γ) (hk : 2 ≤ k) (hn : k ≤ tgts.length)
    (cps : List ((List γ × (γ → Nat)) × (List γ × (γ → Nat)))) (h : foldCounted k tgts = some cps) :
    cps.length = k ∧ ∀ c ∈ cps, (∀ l, c.1.2 l = c.1.1.count l) ∧ (∀ l, c.2.2 l = c.2.1.count l) ∧
      ∀ l, c.1.2 l + c.2.2 l = tgts.count l := by
  unfold foldCounted at h
  cases hps : foldPairs k tgts with
  | none => simp [hps] at h
  | some ps =>
    simp only [hps, Option.map_some, Option.some.injEq] at h
    subst h
    obtain ⟨hl, hperm⟩ := fold_partition k tgts hk hn ps hps
    refine ⟨by simp [hl], ?_⟩
    intro c hc
    simp only [List.mem_map] at hc
    obtain ⟨p, hp, rfl⟩ := hc
    refine ⟨fun l => rfl, fun l => rfl, fun l => ?_⟩
    have := (hperm p hp).count_eq l
    simp only [labelCount]
    rw [← this, List.count_append]

example : (foldCounted 2 [0, 1, 1, 0, 1]).map (fun cps => cps.map fun c => (c.1.2 1, c.2.2 1)) =
    some [(2, 1), (2, 1)] := by decide

/-! ## `fold` on the dataset: ONE fold size (from the targets) for records and targets -/

/-- **`fold(k)` as the code runs it** — fold size `targets.len_of(Axis(0)) / k` applied to both
containers, the two chunk vectors through the same loop: for every dataset whose records and
targets have the same number of rows and every `2 ≤ k ≤ n` the call returns, and pair `i` is
((records outside block `i`, targets outside block `i`), (records of block `i`, targets of block
`i`)) — the SAME row indices on both sides. -/
theorem foldDataset_spec {α β} (k : Nat) (rs : List α) (ts : List β)
    (hlen : rs.length = ts.length) (hk : 2 ≤ k) (hn : k ≤ rs.length) :
    foldDataset k rs ts = some ((List.range k).map fun i =>
      ((rs.take (i * (rs.length / k)) ++ rs.drop ((i + 1) * (rs.length / k)),
        ts.take (i * (rs.length / k)) ++ ts.drop ((i + 1) * (rs.length / k))),
       ((rs.drop (i * (rs.length / k))).take (rs.length / k),
        (ts.drop (i * (rs.length / k))).take (rs.length / k)))) := by
  have hk0 : k ≠ 0 := by omega
  have e1 : foldWith (ts.length / k) k rs = foldPairs k rs := by
    rw [foldPairs_eq_foldWith k rs hk0, hlen]
  have e2 : foldWith (ts.length / k) k ts = foldPairs k ts := (foldPairs_eq_foldWith k ts hk0).symm
  unfold foldDataset
  simp only [hk0, if_false]
  rw [e1, e2, fold_spec k rs hk hn, fold_spec k ts hk (hlen ▸ hn)]
  simp only [List.zip_map', List.map_map, ← hlen]
  rfl

example : foldDataset 2 [0, 1, 2, 3, 4] ["a", "b", "c", "d", "e"] =
    some [(([2, 3, 4], ["c", "d", "e"]), ([0, 1], ["a", "b"])),
          (([0, 1, 4], ["a", "b", "e"]), ([2, 3], ["c", "d"]))] := by decide

/-- the defect fixed in c67351f is expressible: a fold size taken from the number of target
CELLS (`n * t`) instead of rows leaves a single chunk and the call panics -/
example : foldWith (3 * 2 / 2) 2 [0, 1, 2] = none := by decide

/-- **every record stays attached to its own target** through `fold` as the code runs it: the
two sides of every part have the same number of rows, and zipping them gives exactly the fold
of the zipped (record, target) rows — with `fold_partition` on the zipped rows: each pair is a
split of the multiset of (record, target) pairs. -/
theorem foldDataset_rows_stay_paired {α β} (k : Nat) (rs : List α) (ts : List β)
    (hlen : rs.length = ts.length) (hk : 2 ≤ k) (hn : k ≤ rs.length) :
    ∃ ps, foldDataset k rs ts = some ps ∧ ps.length = k ∧
      (∀ q ∈ ps, q.1.1.length = q.1.2.length ∧ q.2.1.length = q.2.2.length) ∧
      foldPairs k (rs.zip ts) = some (ps.map fun q => (q.1.1.zip q.1.2, q.2.1.zip q.2.2)) := by
  refine ⟨_, foldDataset_spec k rs ts hlen hk hn, by simp, ?_, ?_⟩
  · intro q hq
    simp only [List.mem_map, List.mem_range] at hq
    obtain ⟨i, _, rfl⟩ := hq
    simp [hlen]
  · have hz : (rs.zip ts).length = rs.length := by simp [hlen]
    rw [fold_spec k (rs.zip ts) hk (hz ▸ hn), List.map_map]
    congr 1
    apply List.map_congr_left
    intro i _
    simp only [Function.comp, hz]
    simp only [List.zip, List.take_zipWith, List.drop_zipWith]
    rw [List.zipWith_append (by simp [hlen])]

/-- **each pair of `fold(k)` is a split of the multiset of (record, target) pairs** -/
theorem foldDataset_partition {α β} (k : Nat) (rs : List α) (ts : List β)
    (hlen : rs.length = ts.length) (hk : 2 ≤ k) (hn : k ≤ rs.length)
    (ps : List ((List α × List β) × (List α × List β))) (h : foldDataset k rs ts = some ps) :
    ps.length = k ∧ ∀ q ∈ ps, (q.1.1.zip q.1.2 ++ q.2.1.zip q.2.2).Perm (rs.zip ts) := by
  obtain ⟨ps', h', hl, _, hz⟩ := foldDataset_rows_stay_paired k rs ts hlen hk hn
  rw [h] at h'
  cases h'
  have hzl : (rs.zip ts).length = rs.length := by simp [hlen]
  obtain ⟨_, hp⟩ := fold_partition k (rs.zip ts) hk (by omega) _ hz
  exact ⟨hl, fun q hq => hp _ (List.mem_map.mpr ⟨q, hq, rfl⟩)⟩

example : (([2, 3, 4].zip ["c", "d", "e"]) ++ ([0, 1].zip ["a", "b"])).Perm
    ([0, 1, 2, 3, 4].zip ["a", "b", "c", "d", "e"]) := by decide

/-! ## `iter_fold`: in-place block swapping on the flat buffers -/

/-- **restoration + what the closure sees**, for every `n`, every `0 < k ≤ n`, every
record width `p` and target width `t`: `iter_fold` succeeds, the buffers are
handed back exactly as they were, fold `i`'s training view is the buffer with
blocks `0` and `i` exchanged minus its first block, and validation view `i` is sample
block `i` (`n / k` whole samples) of the (restored) buffers.  Holds for `p = 0` / `t = 0` too. -/
theorem iterFold_spec {α β} (n k p t : Nat) (recs : List α) (tgts : List β)
    (hk : 0 < k) (hn : k ≤ n) (hr : recs.length = n * p) (hg : tgts.length = n * t) :
    iterFold n k p t recs tgts = some
      { trains := (List.range k).map fun i =>
          ((swapBlock recs i (n / k) p).drop (n / k * p), (swapBlock tgts i (n / k) t).drop (n / k * t)),
        valids := (List.range k).map fun i =>
          ((recs.drop (i * (n / k * p))).take (n / k * p), (tgts.drop (i * (n / k * t))).take (n / k * t)),
        finalR := recs, finalT := tgts } := by
  have hkn : k * (n / k) ≤ n := Nat.mul_div_le n k
  have h1 : k * (n / k * p) ≤ recs.length := by
    rw [hr, ← Nat.mul_assoc]; exact Nat.mul_le_mul_right _ hkn
  have h2 : k * (n / k * t) ≤ tgts.length := by
    rw [hg, ← Nat.mul_assoc]; exact Nat.mul_le_mul_right _ hkn
  unfold iterFold
  simp only [show ¬ (k = 0 ∨ n < k) by omega, if_false]
  rw [iterGo_spec (n / k) p t k recs tgts h1 h2 k 0 (by omega)]
  simp only [sampleChunks_zip_take n (n / k) p t k recs tgts (le_div_div n k hk hn)]
  simp

example : (iterFold 5 2 1 1 [0, 1, 2, 3, 4] [10, 11, 12, 13, 14]).map (·.trains) =
    some [([2, 3, 4], [12, 13, 14]), ([0, 1, 4], [10, 11, 14])] := by decide

/-- **restoration**, as a statement about every successful call -/
theorem iterFold_restores {α β} (n k p t : Nat) (recs : List α) (tgts : List β)
    (hk : 0 < k) (hn : k ≤ n) (hr : recs.length = n * p) (hg : tgts.length = n * t)
    (o : IterFoldOut α β) (h : iterFold n k p t recs tgts = some o) :
    o.finalR = recs ∧ o.finalT = tgts := by
  rw [iterFold_spec n k p t recs tgts hk hn hr hg] at h
  cases h; exact ⟨rfl, rfl⟩

/-- **row integrity of the in-place swap**: on a row-major buffer (`rows.flatten`, every
row `p` cells wide) the training view of fold `i` consists of whole rows — it is
`flatten` of a list of original rows — and that list is a permutation of the
complement of block `i`.  The same `(i, n/k)` selects the rows of the records
and of the targets, so rows stay paired. -/
theorem iterFold_train_rows {α} (rows : List (List α)) (p i fs : Nat)
    (hrow : ∀ r ∈ rows, r.length = p) (hlen : (i + 1) * fs ≤ rows.length) :
    (swapBlock rows.flatten i fs p).drop (fs * p) = ((swapBlock rows i fs 1).drop fs).flatten ∧
    ((swapBlock rows i fs 1).drop fs).Perm (rows.take (i * fs) ++ rows.drop ((i + 1) * fs)) := by
  refine ⟨?_, swapBlock_drop_perm rows i fs hlen⟩
  rw [swapBlock_flatten rows p i fs hrow]
  have hsw : ∀ r ∈ swapBlock rows i fs 1, r.length = p := by
    intro r hr
    unfold swapBlock at hr
    by_cases hi : i = 0
    · simp only [hi, if_true] at hr; exact hrow r hr
    · simp only [hi, if_false, List.mem_append] at hr
      rcases hr with ((hr | hr) | hr) | hr
      · exact hrow r (List.mem_of_mem_drop (List.mem_of_mem_take hr))
      · exact hrow r (List.mem_of_mem_take (List.mem_of_mem_drop hr))
      · exact hrow r (List.mem_of_mem_take hr)
      · exact hrow r (List.mem_of_mem_drop hr)
  exact drop_flatten_uniform _ p fs hsw

/-- the swap used by `iter_fold` is an involution (the reason the dataset is restored) -/
theorem swap_block_involutive {α} (buf : List α) (i fs s : Nat)
    (hlen : (i + 1) * (fs * s) ≤ buf.length) :
    swapBlock (swapBlock buf i fs s) i fs s = buf :=
  swapBlock_involutive buf i fs s hlen


/-! ## `iter_fold`: layout guard, validation rows, partition, pairing -/

/-- the documented panic: a dataset that is not contiguous in standard order is refused
(`as_slice_mut().unwrap()`), nothing is swapped -/
theorem iterFoldLayout_nonstd {α β} (stdR stdT : Bool) (n k p t : Nat) (recs : List α) (tgts : List β)
    (h : stdR = false ∨ stdT = false) : iterFoldLayout stdR stdT n k p t recs tgts = none := by
  unfold iterFoldLayout
  by_cases hg : k = 0 ∨ n < k
  · simp [hg]
  · simp [hg, h]

example : iterFoldLayout false true 4 2 1 1 [0, 1, 2, 3] [10, 11, 12, 13] = none := by decide

/-- on standard layout the guarded call is the in-place loop the other theorems are about -/
theorem iterFoldLayout_std {α β} (n k p t : Nat) (recs : List α) (tgts : List β) :
    iterFoldLayout true true n k p t recs tgts = iterFold n k p t recs tgts := by
  unfold iterFoldLayout iterFold
  by_cases hg : k = 0 ∨ n < k
  · simp [hg]
  · simp [hg]

example : (iterFoldLayout true true 4 2 1 1 [0, 1, 2, 3] [10, 11, 12, 13]).map (·.finalR) =
    some [0, 1, 2, 3] := by decide

/-- **validation views are whole rows**: on a row-major buffer whose rows are `p` cells wide,
sample block `i` of `sample_chunks(fs)` is exactly rows `[i*fs, (i+1)*fs)` (flattened) -/
theorem iterFold_valid_rows {α} (rows : List (List α)) (p i fs : Nat)
    (hrow : ∀ r ∈ rows, r.length = p) :
    (rows.flatten.drop (i * (fs * p))).take (fs * p) = ((rows.drop (i * fs)).take fs).flatten := by
  have e1 : i * (fs * p) = (i * fs) * p := by rw [Nat.mul_assoc]
  rw [e1, drop_flatten_uniform rows p _ hrow,
    take_flatten_uniform _ p _ (fun r hr => hrow r (List.mem_of_mem_drop hr))]

example : (([[0, 1], [2, 3], [4, 5], [6, 7], [8, 9]] : List (List Nat)).flatten.drop (1 * (2 * 2))).take (2 * 2) =
    (([[0, 1], [2, 3], [4, 5], [6, 7], [8, 9]].drop (1 * 2)).take 2).flatten := by decide

/-- **fold `i` of `iter_fold` is a split of the dataset**: the rows the closure sees together with
validation block `i` are a permutation of all rows -/
theorem iterFold_partition {α} (rows : List α) (i fs : Nat) (hlen : (i + 1) * fs ≤ rows.length) :
    ((swapBlock rows i fs 1).drop fs ++ (rows.drop (i * fs)).take fs).Perm rows := by
  have h1 := swapBlock_drop_perm rows i fs hlen
  have e : rows.drop ((i + 1) * fs) = (rows.drop (i * fs)).drop fs := by
    rw [List.drop_drop]; congr 1; rw [Nat.succ_mul]
  have h2 : rows = rows.take (i * fs) ++ ((rows.drop (i * fs)).take fs ++ (rows.drop (i * fs)).drop fs) := by
    rw [List.take_append_drop, List.take_append_drop]
  refine (List.Perm.append_right _ h1).trans ?_
  rw [e]
  conv => rhs; rw [h2]
  rw [List.append_assoc]
  exact List.Perm.append_left _ List.perm_append_comm

example : ((swapBlock [0, 1, 2, 3, 4] 1 2 1).drop 2 ++ ([0, 1, 2, 3, 4].drop (1 * 2)).take 2).Perm
    [0, 1, 2, 3, 4] := by decide

/-- **rows stay paired under the in-place swap**: swapping the zipped (record, target) rows is
swapping records and targets separately with the same `(i, fs)` — which is what the Rust code does
on its two buffers -/
theorem iterFold_rows_stay_paired {α β} (rs : List α) (ts : List β) (i fs : Nat)
    (hlen : rs.length = ts.length) :
    swapBlock (rs.zip ts) i fs 1 = (swapBlock rs i fs 1).zip (swapBlock ts i fs 1) := by
  unfold swapBlock
  by_cases hi : i = 0
  · simp [hi]
  · simp only [hi, if_false, List.zip, List.take_zipWith, List.drop_zipWith]
    rw [List.zipWith_append (by simp [hlen]), List.zipWith_append (by simp [hlen]),
      List.zipWith_append (by simp [hlen])]

example : swapBlock ([1, 2, 3, 4, 5].zip [10, 20, 30, 40, 50]) 1 2 1 =
    (swapBlock [1, 2, 3, 4, 5] 1 2 1).zip (swapBlock [10, 20, 30, 40, 50] 1 2 1) := by decide

/-- **`iter_fold` returns iff `0 < k ≤ n` and both arrays pass `as_slice_mut`** — the three
documented panics, exactly -/
theorem iterFoldLayout_guard_exact {α β} (stdR stdT : Bool) (n k p t : Nat) (recs : List α) (tgts : List β) :
    (iterFoldLayout stdR stdT n k p t recs tgts).isSome = true ↔
      (0 < k ∧ k ≤ n ∧ stdR = true ∧ stdT = true) := by
  unfold iterFoldLayout iterFold
  by_cases hg : k = 0 ∨ n < k
  · simp only [hg, if_true]
    constructor
    · intro h; simp at h
    · intro h; omega
  · cases stdR <;> cases stdT <;> simp [hg] <;> omega

example : (iterFoldLayout true true 3 1 1 1 [0, 1, 2] [10, 11, 12]).isSome = true ∧
    (iterFoldLayout true true 3 0 1 1 [0, 1, 2] [10, 11, 12]).isSome = false ∧
    (iterFoldLayout true true 3 4 1 1 [0, 1, 2] [10, 11, 12]).isSome = false := by decide

/-- **`iter_fold` on a dataset of `n` samples, in terms of its ROWS** (composition of
`iterFold_spec`, `iterFold_train_rows`, `iterFold_rows_stay_paired`, `iterFold_valid_rows`): for
every `0 < k ≤ n`, records `p` wide and targets `t` wide, the call returns, the buffers are
handed back unchanged, and for every fold `i < k` the training view the closure sees consists of
whole record rows `ra` and whole target rows `ta`, equally many, whose pairs `(ra[j], ta[j])` are a
permutation of the (record, target) pairs outside block `i`; the validation view is block `i` of
the records with block `i` of the targets. -/
theorem iterFold_rows_spec {α β} (n k p t : Nat) (rr : List (List α)) (tr : List (List β))
    (hk : 0 < k) (hn : k ≤ n) (hrl : rr.length = n) (htl : tr.length = n)
    (hrw : ∀ r ∈ rr, r.length = p) (htw : ∀ r ∈ tr, r.length = t) :
    ∃ o, iterFold n k p t rr.flatten tr.flatten = some o ∧
      o.finalR = rr.flatten ∧ o.finalT = tr.flatten ∧
      ∀ i, i < k → ∃ (ra : List (List α)) (ta : List (List β)),
        o.trains[i]? = some (ra.flatten, ta.flatten) ∧ ra.length = ta.length ∧
        (ra.zip ta).Perm ((rr.zip tr).take (i * (n / k)) ++ (rr.zip tr).drop ((i + 1) * (n / k))) ∧
        o.valids[i]? = some (((rr.drop (i * (n / k))).take (n / k)).flatten,
                             ((tr.drop (i * (n / k))).take (n / k)).flatten) := by
  have hfr : rr.flatten.length = n * p := by rw [flatten_length_uniform rr p hrw, hrl]
  have hft : tr.flatten.length = n * t := by rw [flatten_length_uniform tr t htw, htl]
  refine ⟨_, iterFold_spec n k p t _ _ hk hn hfr hft, rfl, rfl, ?_⟩
  intro i hi
  have hkn : k * (n / k) ≤ n := Nat.mul_div_le n k
  have hle : (i + 1) * (n / k) ≤ n := Nat.le_trans (Nat.mul_le_mul_right _ (by omega)) hkn
  have hler : (i + 1) * (n / k) ≤ rr.length := by rw [hrl]; exact hle
  have hlet : (i + 1) * (n / k) ≤ tr.length := by rw [htl]; exact hle
  refine ⟨(swapBlock rr i (n / k) 1).drop (n / k), (swapBlock tr i (n / k) 1).drop (n / k), ?_, ?_, ?_, ?_⟩
  · simp only [List.getElem?_map, List.getElem?_range hi, Option.map_some]
    rw [(iterFold_train_rows rr p i (n / k) hrw hler).1, (iterFold_train_rows tr t i (n / k) htw hlet).1]
  · rw [(swapBlock_drop_perm rr i (n / k) hler).length_eq, (swapBlock_drop_perm tr i (n / k) hlet).length_eq]
    simp [hrl, htl]
  · have hz : (i + 1) * (n / k) ≤ (rr.zip tr).length := by simp [hrl, htl]; exact hle
    have h := swapBlock_drop_perm (rr.zip tr) i (n / k) hz
    rw [iterFold_rows_stay_paired rr tr i (n / k) (hrl.trans htl.symm)] at h
    simp only [List.zip, List.drop_zipWith] at h ⊢
    exact h
  · simp only [List.getElem?_map, List.getElem?_range hi, Option.map_some]
    rw [iterFold_valid_rows rr p i (n / k) hrw, iterFold_valid_rows tr t i (n / k) htw]

example : (iterFold 5 2 2 1 ([[0, 1], [2, 3], [4, 5], [6, 7], [8, 9]] : List (List Nat)).flatten
    ([[10], [11], [12], [13], [14]] : List (List Nat)).flatten).map (fun o => (o.trains[1]?, o.valids[1]?)) =
    some (some ([0, 1, 2, 3, 8, 9], [10, 11, 14]), some ([4, 5, 6, 7], [12, 13])) := by decide

/-! ## `cross_validate` -/

/-- a failing fit surfaces as that error: the first failing model of the fold, whatever
the evaluations would have said -/
theorem cvFold_fit_error {ε σ} (pre : List (Except ε Unit)) (e : ε) (post : List (Except ε Unit))
    (evals : List (Except ε (List σ))) (hpre : ∀ a ∈ pre, a = .ok ()) :
    cvFold (pre ++ .error e :: post) evals = .error e := by
  unfold cvFold
  rw [mapM_except_error id pre (.error e) post e (fun a ha => ⟨(), hpre a ha⟩) rfl]

/-- with all fits fine, the first failing evaluation surfaces -/
theorem cvFold_eval_error {ε σ} (fits : List (Except ε Unit)) (hf : ∀ a ∈ fits, a = .ok ())
    (pre : List (Except ε (List σ))) (e : ε) (post : List (Except ε (List σ)))
    (hpre : ∀ a ∈ pre, ∃ v, a = .ok v) :
    cvFold fits (pre ++ .error e :: post) = .error e := by
  unfold cvFold
  obtain ⟨bs, hbs, _⟩ := mapM_except_ok id fits (fun a ha => ⟨(), hf a ha⟩)
  rw [hbs]
  exact mapM_except_error id pre (.error e) post e hpre rfl

/-- **the first failing fold (in fold order) decides the result** -/
theorem cv_error_first {ε σ} [Add σ] [Div σ] [OfNat σ 0] [NatCast σ] (k m t : Nat)
    (pre : List (List (Except ε Unit) × List (Except ε (List σ))))
    (f : List (Except ε Unit) × List (Except ε (List σ)))
    (post : List (List (Except ε Unit) × List (Except ε (List σ)))) (e : ε)
    (hpre : ∀ a ∈ pre, ∃ v, cvFold a.1 a.2 = .ok v) (hf : cvFold f.1 f.2 = .error e) :
    crossValidate k m t (pre ++ f :: post) = .error e := by
  unfold crossValidate
  rw [mapM_except_error (fun f => cvFold f.1 f.2) pre f post e hpre hf]

/-- **the reported score is the arithmetic mean over the folds**: if every fold's fits and
evaluations succeed with `m × t` score matrices `fes`, entry `(model i, target j)` of
the result is `(Σ_f fes[f][i][j]) / k`. -/
theorem cv_is_mean {ε σ} [Field σ] (k m t : Nat)
    (folds : List (List (Except ε Unit) × List (Except ε (List σ))))
    (fes : List (List (List σ)))
    (hok : folds.mapM (fun f => cvFold f.1 f.2) = .ok fes)
    (hshape : ∀ fe ∈ fes, Shaped m t fe) :
    ∃ res, crossValidate k m t folds = .ok res ∧ res.length = m ∧
      ∀ i j, i < m → j < t →
        entry res i j = (fes.map (entry · i j)).sum / (k : σ) := by
  unfold crossValidate
  rw [hok]
  obtain ⟨hs, he⟩ := foldl_acc m t _ (zero_shaped (σ := σ) m t) (entry_zero m t) fes hshape _
    (zero_shaped m t)
  refine ⟨_, rfl, by simp [hs.1], ?_⟩
  intro i j hi hj
  have hlen : i < (fes.foldl (fun acc fe => addMat acc
      (addMat (List.replicate m (List.replicate t (0 : σ))) fe))
      (List.replicate m (List.replicate t (0 : σ)))).length := by rw [hs.1]; exact hi
  have := he i j hi hj
  rw [entry_zero, zero_add] at this
  rw [← this]
  have hrow := hs.2 _ (List.getElem_mem hlen)
  simp only [entry, List.getElem?_map, List.getElem?_eq_getElem hlen, Option.map_some,
    Option.getD_some, List.getElem?_eq_getElem (show j < _ by rw [hrow]; exact hj)]

example : crossValidate (ε := String) (σ := Nat) 2 1 1
    [([.ok ()], [.ok [2]]), ([.ok ()], [.ok [4]])] = .ok [[3]] := by decide

/-! ## `cross_validate`: which errors, no models, the calling form on a dataset -/

/-- **an error that comes out is the error of some failing fit or evaluation** (nothing is
invented, nothing is re-wrapped) -/
theorem cv_error_is_scripted {ε σ} [Add σ] [Div σ] [OfNat σ 0] [NatCast σ] (k m t : Nat)
    (folds : List (List (Except ε Unit) × List (Except ε (List σ)))) (e : ε)
    (h : crossValidate k m t folds = .error e) :
    ∃ f ∈ folds, (.error e ∈ f.1 ∨ .error e ∈ f.2) := by
  unfold crossValidate at h
  cases hm : folds.mapM (fun f => cvFold f.1 f.2) with
  | ok fes => simp [hm] at h
  | error e' =>
    rw [hm] at h
    have he : e' = e := by simpa using h
    subst he
    obtain ⟨f, hf, hfe⟩ := mapM_except_error_mem _ _ _ hm
    refine ⟨f, hf, ?_⟩
    unfold cvFold at hfe
    cases hfit : f.1.mapM id with
    | error e2 =>
      rw [hfit] at hfe
      have : e2 = e' := by simpa using hfe
      subst this
      obtain ⟨a, ha, hae⟩ := mapM_except_error_mem _ _ _ hfit
      left; simpa [id] using hae ▸ ha
    | ok _ =>
      rw [hfit] at hfe
      obtain ⟨a, ha, hae⟩ := mapM_except_error_mem _ _ _ hfe
      right; simpa [id] using hae ▸ ha

example : crossValidate (ε := String) (σ := Nat) 2 1 1
    [([.ok ()], [.ok [2]]), ([.ok ()], [.error "eval:3"])] = .error "eval:3" := by decide

/-- with every fit and every evaluation fine, a fold yields its score rows (the hypothesis of
`cv_is_mean` is satisfiable for every table of scores) -/
theorem cvFold_ok {ε σ} (fits : List (Except ε Unit)) (hf : ∀ a ∈ fits, a = .ok ())
    (vs : List (List σ)) : cvFold fits (vs.map .ok) = .ok vs := by
  unfold cvFold
  obtain ⟨bs, hbs, _⟩ := mapM_except_ok id fits (fun a ha => ⟨(), hf a ha⟩)
  rw [hbs]
  exact mapM_id_ok_map vs

example : cvFold (ε := String) [.ok (), .ok ()] ([[1], [2]].map .ok) = .ok [[1], [2]] := by decide

/-- **no candidate model**: an empty `parameters` slice is fine, the result is the empty table -/
theorem cv_no_models {ε σ} [Add σ] [Div σ] [OfNat σ 0] [NatCast σ] (k t : Nat)
    (folds : List (List (Except ε Unit) × List (Except ε (List σ))))
    (h : ∀ f ∈ folds, f = ([], [])) :
    crossValidate k 0 t folds = .ok [] := by
  obtain ⟨fes, hfes, _⟩ := mapM_except_ok (fun f : List (Except ε Unit) × List (Except ε (List σ)) => cvFold f.1 f.2) folds
    (fun f hf => ⟨[], by rw [h f hf]; rfl⟩)
  unfold crossValidate
  rw [hfes]
  simp only [List.replicate_zero]
  have : ∀ (l : List (List (List σ))) , l.foldl (fun acc fe => addMat acc (addMat [] fe)) [] = [] := by
    intro l
    induction l with
    | nil => rfl
    | cons x xs ih => simpa [addMat] using ih
  rw [this]; rfl

example : crossValidate (ε := String) (σ := Nat) 3 0 2 [([], []), ([], []), ([], [])] = .ok [] := by
  decide

/-- **real fit results amount to the scripted tables**: a fold of `cross_validate` on actual
`Fit`/`Predict` results (`cvFoldM`: all fits, then model by model predict + eval) is `cvFold` on
the outcome tables `scriptOf` reads off them — so `cvFold_fit_error`, `cvFold_eval_error`,
`cv_error_first`, `cv_is_mean` speak about the real calling form -/
theorem cvFoldM_script {ε μ σ} (fits : List (Except ε μ)) (score : μ → Except ε (List σ)) :
    cvFoldM fits score = cvFold (scriptOf fits score).1 (scriptOf fits score).2 := by
  unfold cvFoldM cvFold scriptOf
  rcases except_list_cases fits with ⟨ms, rfl⟩ | ⟨pre, e, post, rfl⟩
  · rw [mapM_id_ok_map]
    simp only [List.map_map]
    have h1 : ((fun f : Except ε μ => f.map fun _ => ()) ∘ Except.ok) =
        fun _ => (Except.ok () : Except ε Unit) := rfl
    have h2 : ((fun f : Except ε μ => f.bind score) ∘ Except.ok) = score := rfl
    rw [h1, h2]
    obtain ⟨us, hus, _⟩ := mapM_except_ok id (ms.map fun _ => (Except.ok () : Except ε Unit))
      (fun a ha => by
        simp only [List.mem_map] at ha
        obtain ⟨x, _, rfl⟩ := ha; exact ⟨(), rfl⟩)
    rw [hus]
    exact (mapM_id_map _ _).symm
  · rw [mapM_except_error id (pre.map .ok) (.error e) post e
      (fun a ha => by simp only [List.mem_map] at ha; obtain ⟨x, _, rfl⟩ := ha; exact ⟨x, rfl⟩) rfl]
    simp only [List.map_append, List.map_cons]
    rw [mapM_except_error id _ (Except.map (fun _ => ()) (.error e)) _ e
      (fun a ha => by
        simp only [List.map_map, List.mem_map, Function.comp] at ha
        obtain ⟨x, _, rfl⟩ := ha; exact ⟨(), rfl⟩) rfl]

example : cvFoldM (ε := String) (σ := Nat) [.ok 1, .error "fit:2"] (fun m => .ok [m]) = .error "fit:2" := by
  decide

/-- **`cross_validate` on a dataset, for every `0 < k ≤ n`**: it is `crossValidate` over the folds of
`iter_fold` — model `m` of fold `i` is `parameters[m].fit` on fold `i`'s training view (blocks `0`
and `i` exchanged, first block dropped), its score is `eval(predict(validation block i), targets
of validation block i)` — and the buffers are handed back as they were. -/
theorem cv_on_spec {α β ε μ σ} [Add σ] [Div σ] [OfNat σ 0] [NatCast σ]
    (n k p t : Nat) (recs : List α) (tgts : List β)
    (params : List (List α × List β → Except ε μ))
    (score : μ → List α × List β → Except ε (List σ)) (nt : Nat)
    (hk : 0 < k) (hn : k ≤ n) (hr : recs.length = n * p) (hg : tgts.length = n * t) :
    crossValidateOn true true n k p t recs tgts params score nt = some
      { result := crossValidate k params.length nt
          ((((List.range k).map fun i =>
              ((swapBlock recs i (n / k) p).drop (n / k * p), (swapBlock tgts i (n / k) t).drop (n / k * t))).zip
            ((List.range k).map fun i =>
              ((recs.drop (i * (n / k * p))).take (n / k * p), (tgts.drop (i * (n / k * t))).take (n / k * t)))).map
            fun (tr, va) => scriptOf (params.map fun f => f tr) (fun md => score md va)),
        finalR := recs, finalT := tgts } := by
  unfold crossValidateOn
  rw [iterFoldLayout_std, iterFold_spec n k p t recs tgts hk hn hr hg]

example : (crossValidateOn (ε := String) (σ := Nat) true true 4 2 1 1 [0, 1, 2, 3] [10, 11, 12, 13]
    [fun tr => .ok tr.1.sum] (fun md va => .ok [md + va.2.sum]) 1).map (·.result) =
    some (.ok [[(5 + 21 + (1 + 25)) / 2]]) := by decide

/-- **after cross-validation returns — with scores or with an error — the dataset holds its
original rows in their original order** -/
theorem cv_on_restores {α β ε μ σ} [Add σ] [Div σ] [OfNat σ 0] [NatCast σ]
    (stdR stdT : Bool) (n k p t : Nat) (recs : List α) (tgts : List β)
    (params : List (List α × List β → Except ε μ))
    (score : μ → List α × List β → Except ε (List σ)) (nt : Nat)
    (hr : recs.length = n * p) (hg : tgts.length = n * t)
    (o : CvOut α β ε σ) (h : crossValidateOn stdR stdT n k p t recs tgts params score nt = some o) :
    o.finalR = recs ∧ o.finalT = tgts := by
  unfold crossValidateOn at h
  cases hi : iterFoldLayout stdR stdT n k p t recs tgts with
  | none => simp [hi] at h
  | some io =>
    simp only [hi, Option.some.injEq] at h
    subst h
    -- the layout guard passed, so this is `iterFold` under its own guard
    unfold iterFoldLayout at hi
    by_cases hgd : k = 0 ∨ n < k
    · simp [hgd] at hi
    · by_cases hstd : stdR = false ∨ stdT = false
      · simp [hgd, hstd] at hi
      · simp only [hgd, hstd, if_false] at hi
        exact iterFold_restores n k p t recs tgts (by omega) (by omega) hr hg io hi

example : (crossValidateOn (ε := String) (σ := Nat) true true 4 2 1 1 [0, 1, 2, 3] [10, 11, 12, 13]
    [fun _ => (.error "fit:1" : Except String Nat)] (fun md va => .ok [md + va.2.sum]) 1).map
    (fun o => (o.result, o.finalR, o.finalT)) =
    some (.error "fit:1", [0, 1, 2, 3], [10, 11, 12, 13]) := by decide

/-- the documented panics of `iter_fold` are those of `cross_validate`: it returns (scores or an
error) iff `0 < k ≤ n` and both arrays pass `as_slice_mut` -/
theorem cv_on_guard_exact {α β ε μ σ} [Add σ] [Div σ] [OfNat σ 0] [NatCast σ]
    (stdR stdT : Bool) (n k p t : Nat) (recs : List α) (tgts : List β)
    (params : List (List α × List β → Except ε μ))
    (score : μ → List α × List β → Except ε (List σ)) (nt : Nat) :
    (crossValidateOn stdR stdT n k p t recs tgts params score nt).isSome = true ↔
      (0 < k ∧ k ≤ n ∧ stdR = true ∧ stdT = true) := by
  rw [← iterFoldLayout_guard_exact stdR stdT n k p t recs tgts]
  unfold crossValidateOn
  cases iterFoldLayout stdR stdT n k p t recs tgts <;> simp

example : (crossValidateOn (ε := String) (σ := Nat) true false 4 2 1 1 [0, 1, 2, 3] [10, 11, 12, 13]
    [fun tr => .ok tr.1.sum] (fun md va => .ok [md + va.2.sum]) 1).isSome = false := by decide

/-- **the full clause on the real calling form**: for every `0 < k ≤ n`, every record / target width
`p, t` (zero included), every list of parameter sets and every predict-then-eval function: if model `j` fitted
on fold `i`'s training view is `md i j` and its evaluation on validation block `i` is the row
`sc i j` (`nt` entries), then `cross_validate` returns a `models × nt` table whose entry `(j, c)` is
the arithmetic mean over the `k` folds of `sc i j [c]`, and the dataset is handed back unchanged.
(Composition of `cv_on_spec`, `cvFoldM_script` and `cv_is_mean`.) -/
theorem cv_on_is_mean {α β ε μ σ} [Field σ] (n k p t : Nat) (recs : List α) (tgts : List β)
    (params : List (List α × List β → Except ε μ))
    (score : μ → List α × List β → Except ε (List σ)) (nt : Nat)
    (hk : 0 < k) (hn : k ≤ n)
    (hr : recs.length = n * p) (hg : tgts.length = n * t)
    (md : Nat → Nat → μ) (sc : Nat → Nat → List σ)
    (hfit : ∀ i, i < k → ∀ j (hj : j < params.length),
      params[j] ((swapBlock recs i (n / k) p).drop (n / k * p), (swapBlock tgts i (n / k) t).drop (n / k * t))
        = .ok (md i j))
    (hsc : ∀ i, i < k → ∀ j, j < params.length →
      score (md i j) ((recs.drop (i * (n / k * p))).take (n / k * p), (tgts.drop (i * (n / k * t))).take (n / k * t))
        = .ok (sc i j))
    (hshape : ∀ i, i < k → ∀ j, j < params.length → (sc i j).length = nt) :
    ∃ o res, crossValidateOn true true n k p t recs tgts params score nt = some o ∧
      o.result = .ok res ∧ o.finalR = recs ∧ o.finalT = tgts ∧ res.length = params.length ∧
      ∀ j c, j < params.length → c < nt →
        entry res j c = ((List.range k).map fun i => ((sc i j)[c]?).getD 0).sum / (k : σ) := by
  set m := params.length with hm
  -- the folds, one per index
  let folds := (List.range k).map fun i =>
    scriptOf (params.map fun f => f ((swapBlock recs i (n / k) p).drop (n / k * p), (swapBlock tgts i (n / k) t).drop (n / k * t)))
      (fun mdl => score mdl ((recs.drop (i * (n / k * p))).take (n / k * p), (tgts.drop (i * (n / k * t))).take (n / k * t)))
  have hspec := cv_on_spec n k p t recs tgts params score nt hk hn hr hg
  have hfolds : ((((List.range k).map fun i =>
              ((swapBlock recs i (n / k) p).drop (n / k * p), (swapBlock tgts i (n / k) t).drop (n / k * t))).zip
            ((List.range k).map fun i =>
              ((recs.drop (i * (n / k * p))).take (n / k * p), (tgts.drop (i * (n / k * t))).take (n / k * t)))).map
            fun (tr, va) => scriptOf (params.map fun f => f tr) (fun mdl => score mdl va)) = folds := by
    rw [List.zip_map', List.map_map]
    rfl
  rw [hfolds] at hspec
  -- every fold succeeds with its score rows
  have hfold : ∀ i, i < k →
      cvFold (scriptOf (params.map fun f => f ((swapBlock recs i (n / k) p).drop (n / k * p), (swapBlock tgts i (n / k) t).drop (n / k * t)))
        (fun mdl => score mdl ((recs.drop (i * (n / k * p))).take (n / k * p), (tgts.drop (i * (n / k * t))).take (n / k * t)))).1
        (scriptOf (params.map fun f => f ((swapBlock recs i (n / k) p).drop (n / k * p), (swapBlock tgts i (n / k) t).drop (n / k * t)))
        (fun mdl => score mdl ((recs.drop (i * (n / k * p))).take (n / k * p), (tgts.drop (i * (n / k * t))).take (n / k * t)))).2
      = .ok ((List.range m).map (sc i)) := by
    intro i hi
    rw [← cvFoldM_script]
    unfold cvFoldM
    have hfits : (params.map fun f => f ((swapBlock recs i (n / k) p).drop (n / k * p), (swapBlock tgts i (n / k) t).drop (n / k * t)))
        = (List.range m).map fun j => (Except.ok (md i j) : Except ε μ) := by
      apply List.ext_getElem?
      intro j
      by_cases hj : j < m
      · simp only [List.getElem?_map, List.getElem?_eq_getElem (hm ▸ hj), Option.map_some,
          List.getElem?_range hj]
        rw [hfit i hi j (hm ▸ hj)]
      · simp [hj, List.getElem?_eq_none (by omega : params.length ≤ j)]
    rw [hfits, mapM_id_map, mapM_ok_map _ (md i) _ (fun _ _ => rfl)]
    simp only []
    rw [mapM_map']
    exact mapM_ok_map _ (sc i) _ (fun j hj => hsc i hi j (List.mem_range.mp hj))
  have hall : folds.mapM (fun f => cvFold f.1 f.2) = .ok ((List.range k).map fun i => (List.range m).map (sc i)) := by
    simp only [folds]
    rw [mapM_map']
    exact mapM_ok_map _ _ _ (fun i hi => hfold i (List.mem_range.mp hi))
  obtain ⟨res, hres, hlen, hent⟩ := cv_is_mean (ε := ε) k m nt folds _ hall (by
    intro fe hfe
    simp only [List.mem_map, List.mem_range] at hfe
    obtain ⟨i, hi, rfl⟩ := hfe
    refine ⟨by simp, ?_⟩
    intro r hr'
    simp only [List.mem_map, List.mem_range] at hr'
    obtain ⟨j, hj, rfl⟩ := hr'
    exact hshape i hi j hj)
  refine ⟨_, res, hspec, hres, rfl, rfl, hlen, ?_⟩
  intro j c hj hc
  rw [hent j c hj hc, List.map_map]
  congr 2
  apply List.map_congr_left
  intro i hi
  simp [Function.comp, entry, hj]

example : ∀ i, i < 2 → ∀ j (hj : j < [fun tr : List Nat × List Nat => (Except.ok tr.1.sum : Except String Nat)].length),
    [fun tr : List Nat × List Nat => (Except.ok tr.1.sum : Except String Nat)][j]
      ((swapBlock [0, 1, 2, 3] i (4 / 2) 1).drop (4 / 2 * 1), (swapBlock [10, 11, 12, 13] i (4 / 2) 1).drop (4 / 2 * 1))
      = .ok (if i = 0 then 5 else 1) := by
  intro i hi j hj
  have hj0 : j = 0 := by simpa using hj
  subst hj0
  rcases i with _ | _ | i
  · rfl
  · rfl
  · omega

end LinfaSpec.Props.C01
