import LinfaSpec.Proofs.Fold
import LinfaSpec.Proofs.FoldCv

/-!
# C01 — K-fold splitting partitions the samples and leaves the dataset intact

Theorems about `LinfaSpec.Fold` (the model of `fold`, `iter_fold`, `cross_validate`),
for every dataset (a list over an arbitrary row type), every `2 ≤ k ≤ n`.
The Rust code folds `records` and `targets` with the same chunk size and the same
swaps; the model applies the same polymorphic function to both containers, so a
statement for an arbitrary row type covers records, targets and their pairing.
-/
namespace LinfaSpec.Props.C01
open LinfaSpec.Fold

/-- number of chunks is at least `k` and at least two under the property's guard -/
theorem chunks_enough {α} (k : Nat) (ds : List α) (hk : 2 ≤ k) (hn : k ≤ ds.length) :
    k ≤ (chunks (ds.length / k) ds).length ∧ 0 < ds.length / k := by
  have hfs : 0 < ds.length / k := Nat.div_pos hn (by omega)
  refine ⟨?_, hfs⟩
  rw [chunks_length]
  -- k * fs ≤ n, so ceil(n / fs) ≥ k
  have h1 : k * (ds.length / k) ≤ ds.length := Nat.mul_div_le _ _
  rw [Nat.le_div_iff_mul_le hfs]
  omega

/-- **fold never fails on the inputs the property covers** (`2 ≤ k ≤ n`), it
yields exactly `k` pairs, and pair `i` is
(all rows outside block `i`, in their original order ; block `i`)
where block `i` is rows `[i*fs, (i+1)*fs)`, `fs = n / k`. -/
theorem fold_spec {α} (k : Nat) (ds : List α) (hk : 2 ≤ k) (hn : k ≤ ds.length) :
    foldPairs k ds = some ((List.range k).map fun i =>
      (ds.take (i * (ds.length / k)) ++ ds.drop ((i + 1) * (ds.length / k)),
       (ds.drop (i * (ds.length / k))).take (ds.length / k))) := by
  obtain ⟨hlen, hfs⟩ := chunks_enough k ds hk hn
  have hne : ¬ (ds.length / k = 0) := by omega
  unfold foldPairs
  simp only [show ¬ k = 0 by omega, hne, if_false]
  have hguard : ¬ ((chunks (ds.length / k) ds).length < 2 ∨ (chunks (ds.length / k) ds).length < k) := by
    omega
  simp only [hguard, if_false]
  congr 1
  have := foldGo_spec k (chunks (ds.length / k) ds) hlen k 0 (by omega)
  rw [rot_zero] at this
  rw [this]
  apply List.map_congr_left
  intro i hi
  have hi' : i < k := List.mem_range.mp hi
  simp only [Nat.zero_add]
  rw [List.flatten_append, flatten_take_chunks _ hfs, flatten_drop_chunks _ hfs]
  rw [chunks_length] at hlen
  rw [chunks_getElem? _ _ _ (by omega)]
  rfl

example : foldPairs 3 [0, 1, 2, 3, 4, 5, 6] =
    some [([2, 3, 4, 5, 6], [0, 1]), ([0, 1, 4, 5, 6], [2, 3]), ([0, 1, 2, 3, 6], [4, 5])] := by
  decide

/-- every pair is a split of the original multiset: `training ++ validation` is a
permutation of the dataset (so the two parts are disjoint as multisets and their
union is everything) -/
theorem fold_partition {α} (k : Nat) (ds : List α) (hk : 2 ≤ k) (hn : k ≤ ds.length)
    (ps : List (List α × List α)) (h : foldPairs k ds = some ps) :
    ps.length = k ∧ ∀ p ∈ ps, (p.1 ++ p.2).Perm ds := by
  rw [fold_spec k ds hk hn] at h
  cases h
  refine ⟨by simp, ?_⟩
  intro p hp
  simp only [List.mem_map, List.mem_range] at hp
  obtain ⟨i, _, rfl⟩ := hp
  generalize ds.length / k = fs
  -- take a ++ drop b ++ take fs (drop a)  ~  take a ++ (take fs (drop a) ++ drop (a+fs))
  have e : ds.drop ((i + 1) * fs) = (ds.drop (i * fs)).drop fs := by
    rw [List.drop_drop]; congr 1; rw [Nat.succ_mul]
  simp only [e]
  have h2 : ds = ds.take (i * fs) ++ ((ds.drop (i * fs)).take fs ++ (ds.drop (i * fs)).drop fs) := by
    rw [List.take_append_drop, List.take_append_drop]
  conv => rhs; rw [h2]
  rw [List.append_assoc]
  exact List.Perm.append_left _ List.perm_append_comm

/-- the validation parts are the consecutive blocks: concatenated in fold order they
are exactly the first `k * (n / k)` rows, each once; the tail is training-only -/
theorem fold_validation_blocks {α} (k : Nat) (ds : List α) (hk : 2 ≤ k) (hn : k ≤ ds.length)
    (ps : List (List α × List α)) (h : foldPairs k ds = some ps) :
    (ps.map (·.2)).flatten = ds.take (k * (ds.length / k)) := by
  obtain ⟨hlen, hfs⟩ := chunks_enough k ds hk hn
  rw [fold_spec k ds hk hn] at h
  cases h
  rw [← flatten_take_chunks _ hfs]
  congr 1
  apply List.ext_getElem?
  intro i
  rw [chunks_length] at hlen
  by_cases hi : i < k
  · have hc := chunks_getElem? (ds.length / k) ds i (by omega)
    simp [hi, hc]
  · simp [List.getElem?_take, hi]

/-- **rows stay paired**: pair `i` of the fold of the zipped (record, target) rows
is the zip of pair `i` of the records with pair `i` of the targets as the Rust code
computes them from its two parallel chunk vectors (same chunk size, same swaps) —
no record is ever attached to another row's target. -/
theorem fold_rows_stay_paired {α β} (k : Nat) (rs : List α) (ts : List β)
    (hlen : rs.length = ts.length) (hk : 2 ≤ k) (hn : k ≤ rs.length) :
    ∃ fr ft, foldPairs k rs = some fr ∧ foldPairs k ts = some ft ∧ fr.length = k ∧ ft.length = k ∧
      foldPairs k (rs.zip ts) =
        some ((List.range k).map fun i =>
          (((fr[i]?).getD ([], [])).1.zip ((ft[i]?).getD ([], [])).1,
           ((fr[i]?).getD ([], [])).2.zip ((ft[i]?).getD ([], [])).2)) := by
  have hz : (rs.zip ts).length = rs.length := by simp [hlen]
  refine ⟨_, _, fold_spec k rs hk hn, fold_spec k ts hk (hlen ▸ hn), by simp, by simp, ?_⟩
  rw [fold_spec k (rs.zip ts) hk (hz ▸ hn)]
  congr 1
  apply List.map_congr_left
  intro i hi
  have hi' : i < k := List.mem_range.mp hi
  simp only [hz, ← hlen, List.getElem?_map, List.getElem?_range hi', Option.map_some, Option.getD_some]
  simp only [List.zip, List.take_zipWith, List.drop_zipWith]
  rw [List.zipWith_append (by simp [hlen])]

/-! ## `iter_fold`: in-place block swapping on the flat buffers -/

/-- **restoration + what the closure sees**, for every `n`, every `0 < k ≤ n`, every
record width `p` and target width `t`: `iter_fold` succeeds, the buffers are
handed back exactly as they were, fold `i`'s training view is the buffer with
blocks `0` and `i` exchanged minus its first block, and the validation views are
the first `k` chunks of the (restored) buffers. -/
theorem iterFold_spec {α β} (n k p t : Nat) (recs : List α) (tgts : List β)
    (hk : 0 < k) (hn : k ≤ n) (hr : recs.length = n * p) (hg : tgts.length = n * t) :
    iterFold n k p t recs tgts = some
      { trains := (List.range k).map fun i =>
          ((swapBlock recs i (n / k) p).drop (n / k * p), (swapBlock tgts i (n / k) t).drop (n / k * t)),
        valids := ((chunks (n / k * p) recs).take k).zip ((chunks (n / k * t) tgts).take k),
        finalR := recs, finalT := tgts } := by
  have hkn : k * (n / k) ≤ n := Nat.mul_div_le n k
  have h1 : k * (n / k * p) ≤ recs.length := by
    rw [hr, ← Nat.mul_assoc]; exact Nat.mul_le_mul_right _ hkn
  have h2 : k * (n / k * t) ≤ tgts.length := by
    rw [hg, ← Nat.mul_assoc]; exact Nat.mul_le_mul_right _ hkn
  unfold iterFold
  simp only [show ¬ (k = 0 ∨ n < k) by omega, if_false]
  rw [iterGo_spec (n / k) p t k recs tgts h1 h2 k 0 (by omega)]
  simp

example : (iterFold 5 2 1 1 [0, 1, 2, 3, 4] [10, 11, 12, 13, 14]).map (·.trains) =
    some [([2, 3, 4], [12, 13, 14]), ([0, 1, 4], [10, 11, 14])] := by decide

/-- **restoration**, as a statement about every successful call -/
theorem iterFold_restores {α β} (n k p t : Nat) (recs : List α) (tgts : List β)
    (hk : 0 < k) (hn : k ≤ n) (hr : recs.length = n * p) (hg : tgts.length = n * t)
    (o : IterFoldOut α β) (h : iterFold n k p t recs tgts = some o) :
    o.finalR = recs ∧ o.finalT = tgts := by
  rw [iterFold_spec n k p t recs tgts hk hn hr hg] at h
  cases h; exact ⟨rfl, rfl⟩

/-- **row integrity of the in-place swap**: on a row-major buffer (`rows.flatten`, every
row `p` cells wide) the training view of fold `i` consists of whole rows — it is
`flatten` of a list of original rows — and that list is a permutation of the
complement of block `i`.  The same `(i, n/k)` selects the rows of the records
and of the targets, so rows stay paired. -/
theorem iterFold_train_rows {α} (rows : List (List α)) (p i fs : Nat)
    (hrow : ∀ r ∈ rows, r.length = p) (hlen : (i + 1) * fs ≤ rows.length) :
    (swapBlock rows.flatten i fs p).drop (fs * p) = ((swapBlock rows i fs 1).drop fs).flatten ∧
    ((swapBlock rows i fs 1).drop fs).Perm (rows.take (i * fs) ++ rows.drop ((i + 1) * fs)) := by
  refine ⟨?_, swapBlock_drop_perm rows i fs hlen⟩
  rw [swapBlock_flatten rows p i fs hrow]
  have hsw : ∀ r ∈ swapBlock rows i fs 1, r.length = p := by
    intro r hr
    unfold swapBlock at hr
    by_cases hi : i = 0
    · simp only [hi, if_true] at hr; exact hrow r hr
    · simp only [hi, if_false, List.mem_append] at hr
      rcases hr with ((hr | hr) | hr) | hr
      · exact hrow r (List.mem_of_mem_drop (List.mem_of_mem_take hr))
      · exact hrow r (List.mem_of_mem_take (List.mem_of_mem_drop hr))
      · exact hrow r (List.mem_of_mem_take hr)
      · exact hrow r (List.mem_of_mem_drop hr)
  exact drop_flatten_uniform _ p fs hsw

/-- the swap used by `iter_fold` is an involution (the reason the dataset is restored) -/
theorem swap_block_involutive {α} (buf : List α) (i fs s : Nat)
    (hlen : (i + 1) * (fs * s) ≤ buf.length) :
    swapBlock (swapBlock buf i fs s) i fs s = buf :=
  swapBlock_involutive buf i fs s hlen

/-! ## `cross_validate` -/

/-- a failing fit surfaces as that error: the first failing model of the fold, whatever
the evaluations would have said -/
theorem cvFold_fit_error {ε σ} (pre : List (Except ε Unit)) (e : ε) (post : List (Except ε Unit))
    (evals : List (Except ε (List σ))) (hpre : ∀ a ∈ pre, a = .ok ()) :
    cvFold (pre ++ .error e :: post) evals = .error e := by
  unfold cvFold
  rw [mapM_except_error id pre (.error e) post e (fun a ha => ⟨(), hpre a ha⟩) rfl]

/-- with all fits fine, the first failing evaluation surfaces -/
theorem cvFold_eval_error {ε σ} (fits : List (Except ε Unit)) (hf : ∀ a ∈ fits, a = .ok ())
    (pre : List (Except ε (List σ))) (e : ε) (post : List (Except ε (List σ)))
    (hpre : ∀ a ∈ pre, ∃ v, a = .ok v) :
    cvFold fits (pre ++ .error e :: post) = .error e := by
  unfold cvFold
  obtain ⟨bs, hbs, _⟩ := mapM_except_ok id fits (fun a ha => ⟨(), hf a ha⟩)
  rw [hbs]
  exact mapM_except_error id pre (.error e) post e hpre rfl

/-- **the first failing fold (in fold order) decides the result** -/
theorem cv_error_first {ε σ} [Add σ] [Div σ] [OfNat σ 0] [NatCast σ] (k m t : Nat)
    (pre : List (List (Except ε Unit) × List (Except ε (List σ))))
    (f : List (Except ε Unit) × List (Except ε (List σ)))
    (post : List (List (Except ε Unit) × List (Except ε (List σ)))) (e : ε)
    (hpre : ∀ a ∈ pre, ∃ v, cvFold a.1 a.2 = .ok v) (hf : cvFold f.1 f.2 = .error e) :
    crossValidate k m t (pre ++ f :: post) = .error e := by
  unfold crossValidate
  rw [mapM_except_error (fun f => cvFold f.1 f.2) pre f post e hpre hf]

/-- **the reported score is the arithmetic mean over the folds**: if every fold's fits and
evaluations succeed with `m × t` score matrices `fes`, entry `(model i, target j)` of
the result is `(Σ_f fes[f][i][j]) / k`. -/
theorem cv_is_mean {ε σ} [Field σ] (k m t : Nat)
    (folds : List (List (Except ε Unit) × List (Except ε (List σ))))
    (fes : List (List (List σ)))
    (hok : folds.mapM (fun f => cvFold f.1 f.2) = .ok fes)
    (hshape : ∀ fe ∈ fes, Shaped m t fe) :
    ∃ res, crossValidate k m t folds = .ok res ∧ res.length = m ∧
      ∀ i j, i < m → j < t →
        entry res i j = (fes.map (entry · i j)).sum / (k : σ) := by
  unfold crossValidate
  rw [hok]
  obtain ⟨hs, he⟩ := foldl_acc m t _ (zero_shaped (σ := σ) m t) (entry_zero m t) fes hshape _
    (zero_shaped m t)
  refine ⟨_, rfl, by simp [hs.1], ?_⟩
  intro i j hi hj
  have hlen : i < (fes.foldl (fun acc fe => addMat acc
      (addMat (List.replicate m (List.replicate t (0 : σ))) fe))
      (List.replicate m (List.replicate t (0 : σ)))).length := by rw [hs.1]; exact hi
  have := he i j hi hj
  rw [entry_zero, zero_add] at this
  rw [← this]
  have hrow := hs.2 _ (List.getElem_mem hlen)
  simp only [entry, List.getElem?_map, List.getElem?_eq_getElem hlen, Option.map_some,
    Option.getD_some, List.getElem?_eq_getElem (show j < _ by rw [hrow]; exact hj)]

example : crossValidate (ε := String) (σ := Nat) 2 1 1
    [([.ok ()], [.ok [2]]), ([.ok ()], [.ok [4]])] = .ok [[3]] := by decide

end LinfaSpec.Props.C01
