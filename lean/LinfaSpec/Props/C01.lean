import LinfaSpec.Proofs.Fold

/-!
# C01 — K-fold splitting partitions the samples and leaves the dataset intact

Theorems about `LinfaSpec.Fold` (the model of `fold`, `iter_fold`, `cross_validate`),
for every dataset (a list over an arbitrary row type), every `2 ≤ k ≤ n`.
The Rust code folds `records` and `targets` with the same chunk size and the same
swaps; the model applies the same polymorphic function to both containers, so a
statement for an arbitrary row type covers records, targets and their pairing.
-/
namespace LinfaSpec.Props.C01
open LinfaSpec.Fold

/-- number of chunks is at least `k` and at least two under the property's guard -/
theorem chunks_enough {α} (k : Nat) (ds : List α) (hk : 2 ≤ k) (hn : k ≤ ds.length) :
    k ≤ (chunks (ds.length / k) ds).length ∧ 0 < ds.length / k := by
  have hfs : 0 < ds.length / k := Nat.div_pos hn (by omega)
  refine ⟨?_, hfs⟩
  rw [chunks_length]
  -- k * fs ≤ n, so ceil(n / fs) ≥ k
  have h1 : k * (ds.length / k) ≤ ds.length := Nat.mul_div_le _ _
  rw [Nat.le_div_iff_mul_le hfs]
  omega

/-- **fold never fails on the inputs the property covers** (`2 ≤ k ≤ n`), it
yields exactly `k` pairs, and pair `i` is
(all rows outside block `i`, in their original order ; block `i`)
where block `i` is rows `[i*fs, (i+1)*fs)`, `fs = n / k`. -/
theorem fold_spec {α} (k : Nat) (ds : List α) (hk : 2 ≤ k) (hn : k ≤ ds.length) :
    foldPairs k ds = some ((List.range k).map fun i =>
      (ds.take (i * (ds.length / k)) ++ ds.drop ((i + 1) * (ds.length / k)),
       (ds.drop (i * (ds.length / k))).take (ds.length / k))) := by
  obtain ⟨hlen, hfs⟩ := chunks_enough k ds hk hn
  have hne : ¬ (ds.length / k = 0) := by omega
  unfold foldPairs
  simp only [show ¬ k = 0 by omega, hne, if_false]
  have hguard : ¬ ((chunks (ds.length / k) ds).length < 2 ∨ (chunks (ds.length / k) ds).length < k) := by
    omega
  simp only [hguard, if_false]
  congr 1
  have := foldGo_spec k (chunks (ds.length / k) ds) hlen k 0 (by omega)
  rw [rot_zero] at this
  rw [this]
  apply List.map_congr_left
  intro i hi
  have hi' : i < k := List.mem_range.mp hi
  simp only [Nat.zero_add]
  rw [List.flatten_append, flatten_take_chunks _ hfs, flatten_drop_chunks _ hfs]
  rw [chunks_length] at hlen
  rw [chunks_getElem? _ _ _ (by omega)]
  rfl

example : foldPairs 3 [0, 1, 2, 3, 4, 5, 6] =
    some [([2, 3, 4, 5, 6], [0, 1]), ([0, 1, 4, 5, 6], [2, 3]), ([0, 1, 2, 3, 6], [4, 5])] := by
  decide

/-- every pair is a split of the original multiset: `training ++ validation` is a
permutation of the dataset (so the two parts are disjoint as multisets and their
union is everything) -/
theorem fold_partition {α} (k : Nat) (ds : List α) (hk : 2 ≤ k) (hn : k ≤ ds.length)
    (ps : List (List α × List α)) (h : foldPairs k ds = some ps) :
    ps.length = k ∧ ∀ p ∈ ps, (p.1 ++ p.2).Perm ds := by
  rw [fold_spec k ds hk hn] at h
  cases h
  refine ⟨by simp, ?_⟩
  intro p hp
  simp only [List.mem_map, List.mem_range] at hp
  obtain ⟨i, _, rfl⟩ := hp
  generalize ds.length / k = fs
  -- take a ++ drop b ++ take fs (drop a)  ~  take a ++ (take fs (drop a) ++ drop (a+fs))
  have e : ds.drop ((i + 1) * fs) = (ds.drop (i * fs)).drop fs := by
    rw [List.drop_drop]; congr 1; rw [Nat.succ_mul]
  simp only [e]
  have h2 : ds = ds.take (i * fs) ++ ((ds.drop (i * fs)).take fs ++ (ds.drop (i * fs)).drop fs) := by
    rw [List.take_append_drop, List.take_append_drop]
  conv => rhs; rw [h2]
  rw [List.append_assoc]
  exact List.Perm.append_left _ List.perm_append_comm

/-- the validation parts are the consecutive blocks: concatenated in fold order they
are exactly the first `k * (n / k)` rows, each once; the tail is training-only -/
theorem fold_validation_blocks {α} (k : Nat) (ds : List α) (hk : 2 ≤ k) (hn : k ≤ ds.length)
    (ps : List (List α × List α)) (h : foldPairs k ds = some ps) :
    (ps.map (·.2)).flatten = ds.take (k * (ds.length / k)) := by
  obtain ⟨hlen, hfs⟩ := chunks_enough k ds hk hn
  rw [fold_spec k ds hk hn] at h
  cases h
  rw [← flatten_take_chunks _ hfs]
  congr 1
  apply List.ext_getElem?
  intro i
  rw [chunks_length] at hlen
  by_cases hi : i < k
  · have hc := chunks_getElem? (ds.length / k) ds i (by omega)
    simp [hi, hc]
  · simp [List.getElem?_take, hi]

/-- **rows stay paired**: pair `i` of the fold of the zipped (record, target) rows
is the zip of pair `i` of the records with pair `i` of the targets as the Rust code
computes them from its two parallel chunk vectors (same chunk size, same swaps) —
no record is ever attached to another row's target. -/
theorem fold_rows_stay_paired {α β} (k : Nat) (rs : List α) (ts : List β)
    (hlen : rs.length = ts.length) (hk : 2 ≤ k) (hn : k ≤ rs.length) :
    ∃ fr ft, foldPairs k rs = some fr ∧ foldPairs k ts = some ft ∧ fr.length = k ∧ ft.length = k ∧
      foldPairs k (rs.zip ts) =
        some ((List.range k).map fun i =>
          (((fr[i]?).getD ([], [])).1.zip ((ft[i]?).getD ([], [])).1,
           ((fr[i]?).getD ([], [])).2.zip ((ft[i]?).getD ([], [])).2)) := by
  have hz : (rs.zip ts).length = rs.length := by simp [hlen]
  refine ⟨_, _, fold_spec k rs hk hn, fold_spec k ts hk (hlen ▸ hn), by simp, by simp, ?_⟩
  rw [fold_spec k (rs.zip ts) hk (hz ▸ hn)]
  congr 1
  apply List.map_congr_left
  intro i hi
  have hi' : i < k := List.mem_range.mp hi
  simp only [hz, ← hlen, List.getElem?_map, List.getElem?_range hi', Option.map_some, Option.getD_some]
  simp only [List.zip, List.take_zipWith, List.drop_zipWith]
  rw [List.zipWith_append (by simp [hlen])]

end LinfaSpec.Props.C01
