import LinfaSpec.Proofs.Wire

/-!
# C19 — serialised models deserialise to behaviourally identical values: the wire format is lossless

`LinfaSpec.Wire` models the MessagePack subset that `rmp-serde` emits for linfa's serde types
(`Model/Wire.lean`: `Val`, `encode`, fuelled `decode`, `decodeAll`).  The theorems below are the
"lossless format" half of the property, for **every** well-formed value (`Val.wf`: integers in the
64-bit range, lengths below 2³² — exactly what the format can carry), of any nesting depth and size:
decoding what was encoded gives the value back, bit for bit, wherever it sits in a byte stream.

The other half of the property (what the derive macros put into the format, and what the restored
Rust value does) is not a statement about this model; it is checked on every run by the
correspondence (`wire` op: real `rmp-serde` bytes are decoded, re-encoded and rendered by this very
model) and by the round-trip oracle of the harness.
-/
namespace LinfaSpec.Props.C19
open LinfaSpec.Wire

/-- big-endian integer fields are lossless: `k` bytes carry every `n < 256^k` -/
theorem beNat_beBytes_roundtrip (k n : Nat) (h : n < 256 ^ k) :
    beNat (beBytes k n) = n ∧ (beBytes k n).length = k :=
  ⟨beNat_beBytes k n h, length_beBytes k n⟩

example : beNat (beBytes 4 305419896) = 305419896 ∧ (beBytes 4 305419896).length = 4 :=
  beNat_beBytes_roundtrip 4 305419896 (by decide)

/-- **every f64 bit pattern survives** (NaN payloads, signed zeros, subnormals, infinities), with any
trailing bytes and any positive fuel -/
theorem f64_bits_roundtrip (b : UInt64) (rest : Bytes) (fuel : Nat) :
    decode (fuel + 1) (encode (.f64 b) ++ rest) = some (.f64 b, rest) := by
  simp only [encode]; exact dec_f64 b rest fuel

example : decode 1 (encode (.f64 0x7ff8000000000001) ++ [0xc0]) = some (.f64 0x7ff8000000000001, [0xc0]) :=
  f64_bits_roundtrip _ _ 0

/-- every f32 bit pattern survives -/
theorem f32_bits_roundtrip (b : UInt32) (rest : Bytes) (fuel : Nat) :
    decode (fuel + 1) (encode (.f32 b) ++ rest) = some (.f32 b, rest) := by
  simp only [encode]; exact dec_f32 b rest fuel

example : decode 3 (encode (.f32 0x80000000) ++ []) = some (.f32 0x80000000, []) :=
  f32_bits_roundtrip _ _ 2

/-- **round trip, strengthened form** (Appendix A.6): for every well-formed value `v`, every
continuation `rest` of the byte stream and every fuel at least the nesting depth of `v`, the decoder
reads exactly the bytes of `v`, returns `v` and leaves `rest` untouched. -/
theorem decode_encode (v : Val) (rest : Bytes) (fuel : Nat) (hw : v.wf = true) (hd : v.depth ≤ fuel) :
    decode fuel (encode v ++ rest) = some (v, rest) :=
  dec_enc v rest fuel hw hd

example : decode 2 (encode (.arr [.uint 300, .nint 40, .str [0x61]]) ++ [0xc3]) =
    some (.arr [.uint 300, .nint 40, .str [0x61]], [0xc3]) :=
  decode_encode _ _ 2 (by decide) (by decide)

/-- the same for a sequence of values (struct fields, array elements) -/
theorem decode_encode_list (xs : List Val) (rest : Bytes) (fuel : Nat) (hw : wfList xs = true)
    (hd : depthList xs ≤ fuel) :
    listOf (decode fuel) xs.length (encodeList xs ++ rest) = some (xs, rest) :=
  dec_encList xs rest fuel hw hd

example : listOf (decode 1) 2 (encodeList [.bool true, .nil] ++ []) = some ([.bool true, .nil], []) :=
  decode_encode_list [.bool true, .nil] [] 1 (by decide) (by decide)

/-- and for key/value sequences (maps, structs in the named layout) -/
theorem decode_encode_pairs (kvs : List (Val × Val)) (rest : Bytes) (fuel : Nat) (hw : wfPairs kvs = true)
    (hd : depthPairs kvs ≤ fuel) :
    pairsOf (decode fuel) kvs.length (encodePairs kvs ++ rest) = some (kvs, rest) :=
  dec_encPairs kvs rest fuel hw hd

example : pairsOf (decode 1) 1 (encodePairs [(.str [0x6b], .uint 7)] ++ []) = some ([(.str [0x6b], .uint 7)], []) :=
  decode_encode_pairs [(.str [0x6b], .uint 7)] [] 1 (by decide) (by decide)

/-- the nesting depth of a value never exceeds the number of its bytes, so the fuel `decodeAll`
uses (the message length) is always enough; every encoding is non-empty -/
theorem depth_le_length (v : Val) : v.depth ≤ (encode v).length ∧ 0 < (encode v).length :=
  ⟨depth_le v, encode_length_pos v⟩

example : (Val.arr [.arr [.nil]]).depth ≤ (encode (.arr [.arr [.nil]])).length := (depth_le_length _).1

/-- **the format is lossless**: decoding a complete message written by `encode` returns the value -/
theorem decodeAll_encode (v : Val) (hw : v.wf = true) : decodeAll (encode v) = some v :=
  decodeAll_enc v hw

example : decodeAll (encode (.map [(.str [0x77], .arr [.f64 0x3ff0000000000000, .f32 0x7fc00000, .nint 0])])) =
    some (.map [(.str [0x77], .arr [.f64 0x3ff0000000000000, .f32 0x7fc00000, .nint 0])]) :=
  decodeAll_encode _ (by decide)

/-- `encode` is injective on well-formed values: two values with the same bytes are the same value
(no two learned states share a serialised form) -/
theorem encode_injective (v w : Val) (hv : v.wf = true) (hw : w.wf = true) (h : encode v = encode w) :
    v = w := by
  have h1 := decodeAll_encode v hv
  have h2 := decodeAll_encode w hw
  rw [h] at h1
  exact Option.some.inj (h1.symm.trans h2)

example : encode (.uint 255) ≠ encode (.nint 0) := by decide

/-- `encode` is prefix-free: the bytes of a value determine where the value ends, so consecutive
fields cannot be confused — if two streams start with encodings and agree, the values and the
remainders agree. -/
theorem encode_prefix_free (v w : Val) (r s : Bytes) (hv : v.wf = true) (hw : w.wf = true)
    (h : encode v ++ r = encode w ++ s) : v = w ∧ r = s := by
  have h1 := decode_encode v r (max v.depth w.depth) hv (Nat.le_max_left _ _)
  have h2 := decode_encode w s (max v.depth w.depth) hw (Nat.le_max_right _ _)
  rw [h, h2] at h1
  have := Option.some.inj h1
  exact ⟨(congrArg Prod.fst this).symm, (congrArg Prod.snd this).symm⟩

example : encode (.uint 1) ++ [0x02] ≠ encode (.uint 1) ++ [0x03] := by decide

end LinfaSpec.Props.C19
