import LinfaSpec.Proofs.Wire
import LinfaSpec.Proofs.Serde

/-!
# C19 — serialised models deserialise to behaviourally identical values: the wire format is lossless

`LinfaSpec.Wire` models the MessagePack subset that `rmp-serde` emits for linfa's serde types
(`Model/Wire.lean`: `Val`, `encode`, fuelled `decode`, `decodeAll`).  The theorems below are the
"lossless format" half of the property, for **every** well-formed value (`Val.wf`: integers in the
64-bit range, lengths below 2³² — exactly what the format can carry), of any nesting depth and size:
decoding what was encoded gives the value back, bit for bit, wherever it sits in a byte stream.

The other half of the property (what the derive macros put into the format, and what the restored
Rust value does) is not a statement about this model; it is checked on every run by the
correspondence (`wire` op: real `rmp-serde` bytes are decoded, re-encoded and rendered by this very
model) and by the round-trip oracle of the harness.
-/
namespace LinfaSpec.Props.C19
open LinfaSpec.Wire

/-- big-endian integer fields are lossless: `k` bytes carry every `n < 256^k` -/
theorem beNat_beBytes_roundtrip (k n : Nat) (h : n < 256 ^ k) :
    beNat (beBytes k n) = n ∧ (beBytes k n).length = k :=
  ⟨beNat_beBytes k n h, length_beBytes k n⟩

example : beNat (beBytes 4 305419896) = 305419896 ∧ (beBytes 4 305419896).length = 4 :=
  beNat_beBytes_roundtrip 4 305419896 (by decide)

/-- **every f64 bit pattern survives** (NaN payloads, signed zeros, subnormals, infinities), with any
trailing bytes and any positive fuel -/
theorem f64_bits_roundtrip (b : UInt64) (rest : Bytes) (fuel : Nat) :
    decode (fuel + 1) (encode (.f64 b) ++ rest) = some (.f64 b, rest) := by
  simp only [encode]; exact dec_f64 b rest fuel

example : decode 1 (encode (.f64 0x7ff8000000000001) ++ [0xc0]) = some (.f64 0x7ff8000000000001, [0xc0]) :=
  f64_bits_roundtrip _ _ 0

/-- every f32 bit pattern survives -/
theorem f32_bits_roundtrip (b : UInt32) (rest : Bytes) (fuel : Nat) :
    decode (fuel + 1) (encode (.f32 b) ++ rest) = some (.f32 b, rest) := by
  simp only [encode]; exact dec_f32 b rest fuel

example : decode 3 (encode (.f32 0x80000000) ++ []) = some (.f32 0x80000000, []) :=
  f32_bits_roundtrip _ _ 2

/-- **round trip, strengthened form** (Appendix A.6): for every well-formed value `v`, every
continuation `rest` of the byte stream and every fuel at least the nesting depth of `v`, the decoder
reads exactly the bytes of `v`, returns `v` and leaves `rest` untouched. -/
theorem decode_encode (v : Val) (rest : Bytes) (fuel : Nat) (hw : v.wf = true) (hd : v.depth ≤ fuel) :
    decode fuel (encode v ++ rest) = some (v, rest) :=
  dec_enc v rest fuel hw hd

example : decode 2 (encode (.arr [.uint 300, .nint 40, .str [0x61]]) ++ [0xc3]) =
    some (.arr [.uint 300, .nint 40, .str [0x61]], [0xc3]) :=
  decode_encode _ _ 2 (by decide) (by decide)

/-- the same for a sequence of values (struct fields, array elements) -/
theorem decode_encode_list (xs : List Val) (rest : Bytes) (fuel : Nat) (hw : wfList xs = true)
    (hd : depthList xs ≤ fuel) :
    listOf (decode fuel) xs.length (encodeList xs ++ rest) = some (xs, rest) :=
  dec_encList xs rest fuel hw hd

example : listOf (decode 1) 2 (encodeList [.bool true, .nil] ++ []) = some ([.bool true, .nil], []) :=
  decode_encode_list [.bool true, .nil] [] 1 (by decide) (by decide)

/-- and for key/value sequences (maps, structs in the named layout) -/
theorem decode_encode_pairs (kvs : List (Val × Val)) (rest : Bytes) (fuel : Nat) (hw : wfPairs kvs = true)
    (hd : depthPairs kvs ≤ fuel) :
    pairsOf (decode fuel) kvs.length (encodePairs kvs ++ rest) = some (kvs, rest) :=
  dec_encPairs kvs rest fuel hw hd

example : pairsOf (decode 1) 1 (encodePairs [(.str [0x6b], .uint 7)] ++ []) = some ([(.str [0x6b], .uint 7)], []) :=
  decode_encode_pairs [(.str [0x6b], .uint 7)] [] 1 (by decide) (by decide)

/-- the nesting depth of a value never exceeds the number of its bytes, so the fuel `decodeAll`
uses (the message length) is always enough; every encoding is non-empty -/
theorem depth_le_length (v : Val) : v.depth ≤ (encode v).length ∧ 0 < (encode v).length :=
  ⟨depth_le v, encode_length_pos v⟩

example : (Val.arr [.arr [.nil]]).depth ≤ (encode (.arr [.arr [.nil]])).length := (depth_le_length _).1

/-- **the format is lossless**: decoding a complete message written by `encode` returns the value -/
theorem decodeAll_encode (v : Val) (hw : v.wf = true) : decodeAll (encode v) = some v :=
  decodeAll_enc v hw

example : decodeAll (encode (.map [(.str [0x77], .arr [.f64 0x3ff0000000000000, .f32 0x7fc00000, .nint 0])])) =
    some (.map [(.str [0x77], .arr [.f64 0x3ff0000000000000, .f32 0x7fc00000, .nint 0])]) :=
  decodeAll_encode _ (by decide)

/-- `encode` is injective on well-formed values: two values with the same bytes are the same value
(no two learned states share a serialised form) -/
theorem encode_injective (v w : Val) (hv : v.wf = true) (hw : w.wf = true) (h : encode v = encode w) :
    v = w := by
  have h1 := decodeAll_encode v hv
  have h2 := decodeAll_encode w hw
  rw [h] at h1
  exact Option.some.inj (h1.symm.trans h2)

example : encode (.uint 255) ≠ encode (.nint 0) := by decide

/-- `encode` is prefix-free: the bytes of a value determine where the value ends, so consecutive
fields cannot be confused — if two streams start with encodings and agree, the values and the
remainders agree. -/
theorem encode_prefix_free (v w : Val) (r s : Bytes) (hv : v.wf = true) (hw : w.wf = true)
    (h : encode v ++ r = encode w ++ s) : v = w ∧ r = s := by
  have h1 := decode_encode v r (max v.depth w.depth) hv (Nat.le_max_left _ _)
  have h2 := decode_encode w s (max v.depth w.depth) hw (Nat.le_max_right _ _)
  rw [h, h2] at h1
  have := Option.some.inj h1
  exact ⟨(congrArg Prod.fst this).symm, (congrArg Prod.snd this).symm⟩

example : encode (.uint 1) ++ [0x02] ≠ encode (.uint 1) ++ [0x03] := by decide

/-! ## The derive glue: what a struct / enum of the schema table puts on the wire and gets back

`LinfaSpec.Serde` (`Model/Serde.lean`) models `#[derive(Serialize, Deserialize)]` for a schema entry of the
table generated from the Rust sources: the non-skipped fields travel positionally or by name, skipped
fields come back as their default, enum variants travel by declaration index in index-based formats.
The theorems hold for **every** schema (`List FieldInfo` / `List VariantInfo`) and **every** field
values; `Props/GenC19.lean` instantiates their hypotheses on the table generated today. -/
section Glue
open LinfaSpec.Serde

/-- **positional layout, end to end through the wire**: the bytes of a struct written positionally
decode and deserialise to the original with every skipped field reset to its default -/
theorem struct_compact_roundtrip (dflt : FieldInfo → Val) (fs : List FieldInfo) (vs : List Val)
    (hl : fs.length = vs.length) (hw : (structVal false fs vs).wf = true) :
    (decodeAll (encode (structVal false fs vs))).bind (deStruct dflt fs) = some (restore dflt fs vs) := by
  rw [decodeAll_encode _ hw]
  simp [structVal, deStruct, deFieldsSeq_serFields dflt fs vs hl]

/-- **named layout, end to end through the wire**, for schemas whose live field names are distinct -/
theorem struct_named_roundtrip (dflt : FieldInfo → Val) (fs : List FieldInfo) (vs : List Val)
    (hl : fs.length = vs.length) (hn : nodupStrings (liveKeys fs) = true)
    (hw : (structVal true fs vs).wf = true) :
    (decodeAll (encode (structVal true fs vs))).bind (deStruct dflt fs) = some (restore dflt fs vs) := by
  rw [decodeAll_encode _ hw]
  simp [structVal, deStruct_serNamed dflt fs vs hl hn]

private def exFs : List FieldInfo := [⟨"index", false, ""⟩, ⟨"core_distance", true, "skip"⟩, ⟨"reachability_distance", false, ""⟩]
private def exVs : List Val := [.uint 3, .f64 0x4000000000000000, .nil]

example : (decodeAll (encode (structVal false exFs exVs))).bind (deStruct (fun _ => .nil) exFs) =
    some [.uint 3, .nil, .nil] :=
  struct_compact_roundtrip _ exFs exVs rfl (by decide)

example : (decodeAll (encode (structVal true exFs exVs))).bind (deStruct (fun _ => .nil) exFs) =
    some [.uint 3, .nil, .nil] :=
  struct_named_roundtrip _ exFs exVs rfl (by decide +kernel) (by decide +kernel)

/-- **the round trip is the identity exactly when every skipped field already held its default** — a
`serde(skip)` on a field that carries learned state (OPTICS `core_distance`) is a loss for every value
whose field is not the default, in every format -/
theorem roundtrip_identity_iff (dflt : FieldInfo → Val) (fs : List FieldInfo) (vs : List Val)
    (hl : fs.length = vs.length) : restore dflt fs vs = vs ↔ SkippedAtDefault dflt fs vs :=
  restore_eq_iff dflt fs vs hl

example : restore (fun _ => .nil) exFs exVs ≠ exVs := by
  rw [Ne, roundtrip_identity_iff _ exFs exVs rfl]
  intro h; exact absurd (h.2.1 rfl) (by simp)

/-- a schema without skipped fields restores every value unchanged -/
theorem no_skip_roundtrip_identity (dflt : FieldInfo → Val) (fs : List FieldInfo) (vs : List Val)
    (hl : fs.length = vs.length) (hs : fs.all (fun f => !f.skip) = true) : restore dflt fs vs = vs := by
  rw [roundtrip_identity_iff dflt fs vs hl]
  induction fs generalizing vs with
  | nil => cases vs <;> simp [SkippedAtDefault]
  | cons f fs ih =>
    cases vs with
    | nil => simp at hl
    | cons v vs =>
      simp only [List.all_cons, Bool.and_eq_true, Bool.not_eq_true'] at hs
      exact ⟨fun h => absurd h (by simp [hs.1]), ih vs (by simpa using hl) hs.2⟩

example : restore (fun _ => .nil) [⟨"a", false, ""⟩, ⟨"b", false, ""⟩] [.uint 1, .bool true] = [.uint 1, .bool true] :=
  no_skip_roundtrip_identity _ _ _ rfl (by decide)

/-- **a field left out of a positional message cannot be read back**: if fewer elements arrive than
there are non-skipped fields (`skip_serializing_if` without a matching `default`, bincode / compact
MessagePack), deserialisation fails — the restored parameter set does not exist -/
theorem compact_restore_fails_when_field_omitted (dflt : FieldInfo → Val) (fs : List FieldInfo) (xs : List Val)
    (h : xs.length < (liveFields fs).length) : deStruct dflt fs (.arr xs) = none := by
  simp [deStruct, deFieldsSeq_short dflt fs xs h]

example : deStruct (fun _ => .nil) exFs (.arr [.uint 3]) = none :=
  compact_restore_fails_when_field_omitted _ exFs [.uint 3] (by decide)

/-- the wire value of a struct has the top-level shape the driver checks real bytes against -/
theorem struct_shape (named : Bool) (fs : List FieldInfo) (vs : List Val) (hl : fs.length = vs.length) :
    bodyMatches named fs (structVal named fs vs) = true := by
  cases named
  · simp [structVal, bodyMatches, serFields_length fs vs hl]
  · have := serNamed_keys fs vs hl
    simp only [structVal, bodyMatches, if_true, Bool.true_and]
    rw [this]; simp [liveKeys, keyOf]

example : bodyMatches true exFs (structVal true exFs exVs) = true := struct_shape true exFs exVs rfl

/-- bridging lemma to the check the driver's `wire` op applies (`shapeMatches` on the table entry): for every
table entry of kind `struct` the model's own serialiser output passes it -/
theorem struct_shape_matches (named : Bool) (t : TypeInfo) (vs : List Val) (hk : t.kind = "struct")
    (hl : t.fields.length = vs.length) : shapeMatches named t (structVal named t.fields vs) = true := by
  have h : shapeMatches named t (structVal named t.fields vs) =
      bodyMatches named t.fields (structVal named t.fields vs) := by
    unfold shapeMatches; rw [hk]; rfl
  rw [h]; exact struct_shape named t.fields vs hl

example : shapeMatches false ⟨"x::Sample", "struct", "", exFs, []⟩ (structVal false exFs exVs) = true :=
  struct_shape_matches false _ exVs rfl rfl

/-! ### what derive(Deserialize) does with messages the serialiser did not write

The driver's `destruct` op runs `deStruct` on real `rmp-serde` bytes whose top-level entries the harness
reordered, duplicated, extended or truncated, against the real `rmp_serde::from_slice`. -/

/-- **entry order is irrelevant in the named layout**: two messages with distinct keys and the same set of
entries deserialise to the same fields (or fail alike) -/
theorem named_layout_order_irrelevant (dflt : FieldInfo → Val) (fs : List FieldInfo) (kvs kvs' : List (Val × Val))
    (h : nodupStrings (keysOf kvs) = true) (h' : nodupStrings (keysOf kvs') = true)
    (hm : ∀ p, p ∈ kvs' ↔ p ∈ kvs) :
    deStruct dflt fs (.map kvs') = deStruct dflt fs (.map kvs) :=
  deStruct_map_order_irrelevant dflt fs kvs kvs' h h' hm

example : deStruct (fun _ => .nil) exFs (.map [(strVal "reachability_distance", .nil), (strVal "index", .uint 3)]) =
    deStruct (fun _ => .nil) exFs (.map [(strVal "index", .uint 3), (strVal "reachability_distance", .nil)]) :=
  named_layout_order_irrelevant _ exFs _ _ (by decide +kernel) (by decide +kernel) (by
    intro p; simp only [List.mem_cons, List.not_mem_nil, or_false]; exact or_comm)

/-- hence the named round trip survives **any reordering** of the entries the serialiser wrote -/
theorem struct_named_roundtrip_any_order (dflt : FieldInfo → Val) (fs : List FieldInfo) (vs : List Val)
    (kvs' : List (Val × Val)) (hl : fs.length = vs.length) (hn : nodupStrings (liveKeys fs) = true)
    (h' : nodupStrings (keysOf kvs') = true) (hm : ∀ p, p ∈ kvs' ↔ p ∈ serNamed fs vs) :
    deStruct dflt fs (.map kvs') = some (restore dflt fs vs) := by
  rw [named_layout_order_irrelevant dflt fs (serNamed fs vs) kvs' (by
    have := serNamed_keys fs vs hl; simp only [keysOf]; rw [this]; exact hn) h' hm]
  exact deStruct_serNamed dflt fs vs hl hn

example : deStruct (fun _ => .nil) exFs (.map (serNamed exFs exVs).reverse) = some [.uint 3, .nil, .nil] :=
  struct_named_roundtrip_any_order _ exFs exVs _ rfl (by decide +kernel) (by decide +kernel) (by
    intro p; exact List.mem_reverse)

/-- **an entry under a key that names no live field is ignored** (unknown field, name of a skipped field) -/
theorem unknown_key_ignored (dflt : FieldInfo → Val) (fs : List FieldInfo) (kvs : List (Val × Val))
    (k x : Val) (hk : (liveKeys fs).contains (render k) = false) :
    deStruct dflt fs (.map (kvs ++ [(k, x)])) = deStruct dflt fs (.map kvs) :=
  deStruct_unknown_key_ignored dflt fs kvs k x hk

example : deStruct (fun _ => .nil) exFs (.map (serNamed exFs exVs ++ [(strVal "core_distance", .uint 9)])) =
    deStruct (fun _ => .nil) exFs (.map (serNamed exFs exVs)) :=
  unknown_key_ignored _ exFs _ _ _ (by decide +kernel)

/-- **a live field's key occurring twice is rejected** ("duplicate field") -/
theorem duplicate_key_rejected (dflt : FieldInfo → Val) (fs : List FieldInfo) (kvs : List (Val × Val))
    (k x : Val) (hk : (liveKeys fs).contains (render k) = true) (hd : render k ∈ keysOf kvs) :
    deStruct dflt fs (.map (kvs ++ [(k, x)])) = none :=
  deStruct_duplicate_key_rejected dflt fs kvs k x hk hd

example : deStruct (fun _ => .nil) exFs (.map (serNamed exFs exVs ++ [(strVal "index", .uint 9)])) = none :=
  duplicate_key_rejected _ exFs _ _ _ (by decide +kernel) (by decide +kernel)

/-- **an absent required field makes the struct unreadable** ("missing field") … -/
theorem missing_required_field_fails (dflt : FieldInfo → Val) (fs : List FieldInfo) (kvs : List (Val × Val))
    (f : FieldInfo) (hf : f ∈ fs) (hs : f.skip = false) (ho : isOptional f = false)
    (hl : lookupKey (keyOf f) kvs = none) (hd : nodupStrings (knownKeys fs kvs) = true) :
    deStruct dflt fs (.map kvs) = none := by
  simp only [deStruct, hd, if_true]
  exact deFieldsMap_missing_required dflt kvs f hs ho hl fs hf

example : deStruct (fun _ => .nil) exFs (.map [(strVal "index", .uint 3)]) = none :=
  missing_required_field_fails _ exFs _ ⟨"reachability_distance", false, ""⟩ (by simp [exFs]) rfl (by decide +kernel)
    (by decide +kernel) (by decide +kernel)

/-- … while an absent `Option` field reads as `None` (serde's `missing_field` rule; the translator marks
`Option<…>` fields with the pseudo-flag `option`) -/
theorem missing_optional_field_reads_none (dflt : FieldInfo → Val) (kvs : List (Val × Val)) (f : FieldInfo)
    (hs : f.skip = false) (ho : isOptional f = true) (hl : lookupKey (keyOf f) kvs = none) :
    fieldFromMap dflt kvs f = some .nil :=
  fieldFromMap_missing_optional dflt kvs f hs ho hl

example : (deStruct (fun _ => .nil) [⟨"index", false, ""⟩, ⟨"max_depth", false, "option"⟩]
    (.map [(strVal "index", .uint 3)])).map (fun vs => vs.map render) = some ["u3", "N"] := by decide +kernel

/-- **index-based enum tags round-trip when no skipped variant precedes a live one**: the declaration
index written by derive(Serialize) selects the same variant among the non-skipped ones -/
theorem variant_index_roundtrip (name : String) (ws : List VariantInfo) (k : Nat)
    (hl : skippedLast ws = true) (h : serIndex name ws = some k) : deVariant ws k = some name :=
  deVariant_serIndex name ws k hl h

private def errNow : List VariantInfo :=
  [⟨"Parameters", "newtype", false, []⟩, ⟨"NotEnoughSamples", "unit", false, []⟩, ⟨"MismatchedShapes", "tuple", false, []⟩, ⟨"NdShape", "newtype", true, []⟩]
private def errOld : List VariantInfo :=
  [⟨"Parameters", "newtype", false, []⟩, ⟨"NdShape", "newtype", true, []⟩, ⟨"NotEnoughSamples", "unit", false, []⟩, ⟨"MismatchedShapes", "tuple", false, []⟩]

example : deVariant errNow 2 = some "MismatchedShapes" :=
  variant_index_roundtrip "MismatchedShapes" errNow 2 (by decide) (by decide)

/-- **… and fail otherwise**: a skipped variant declared in front of live ones (distinct names) makes
every later variant read back as a different one (or as no variant) — the defect found in `linfa::Error` -/
theorem variant_index_shifted_by_leading_skip (name : String) (w : VariantInfo) (ws : List VariantInfo) (k : Nat)
    (hs : w.skip = true) (hn : (w.name == name) = false) (hd : nodupStrings (liveNames ws) = true)
    (h : serIndex name ws = some k) :
    (serIndex name (w :: ws)).bind (deVariant (w :: ws)) ≠ some name := by
  have hsh := deVariant_shift name w ws k hs hn h
  rw [hsh.1]
  simp only [Option.bind_some, hsh.2]
  exact deVariant_beyond_ne name ws k (k + 1) hd h (Nat.lt_succ_self k)

/-- **a skipped variant cannot be written at all**: derive(Serialize) refuses it ("the enum variant … cannot be
serialized"), wherever it is declared.  `linfa::Error::NdShape` is such a value of a serde type (open finding
`C19-error-ndshape-unserialisable`; the driver's `varidx` op answers `ser=-` through this function and the harness
replays `Error::NdShape(..)` on bincode, rmp-serde and JSON). -/
theorem skipped_variant_not_serialisable (w : VariantInfo) (pre post : List VariantInfo) (hs : w.skip = true)
    (hn : ∀ u ∈ pre, (u.name == w.name) = false) : serIndex w.name (pre ++ w :: post) = none :=
  serIndex_skipped w post hs pre hn

example : serIndex "NdShape" errNow = none :=
  skipped_variant_not_serialisable ⟨"NdShape", "newtype", true, []⟩ (errNow.take 3) [] rfl (by decide)

example : (serIndex "NotEnoughSamples" errOld).bind (deVariant errOld) = some "MismatchedShapes" := by decide
example : (serIndex "MismatchedShapes" (errOld.drop 1)).bind (deVariant (errOld.drop 1)) ≠ some "MismatchedShapes" :=
  variant_index_shifted_by_leading_skip "MismatchedShapes" _ _ 1 rfl (by decide) (by decide) (by decide)

end Glue

end LinfaSpec.Props.C19
