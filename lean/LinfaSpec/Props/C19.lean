import LinfaSpec.Model.Wire

/-!
# C19 — serialised models deserialise to behaviourally identical values (wire model)
-/
namespace LinfaSpec.Props.C19
open LinfaSpec.Wire

/-- the integer header of a small non-negative integer is the one-byte positive fixint -/
theorem encUInt_fix (n : Nat) (h : n < 128) : encUInt n = [UInt8.ofNat n] := by
  simp [encUInt, h]

end LinfaSpec.Props.C19
