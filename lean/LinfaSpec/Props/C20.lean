import LinfaSpec.Proofs.Determinism
import LinfaSpec.Proofs.DeterminismOrder
import LinfaSpec.Proofs.DeterminismVocab
import Mathlib.Data.List.Lex

/-!
# C20 — same data, parameters and seed give bit-identical results on every run

Theorems about `LinfaSpec.Determinism` (the model of linfa's parallel loops, of the generator
held by a parameter set, and of every fold over a hash map on the path of an estimator).
The schedule of the thread pool and the iteration order of a hash map are universally
quantified: whatever they are, the modelled result is the same function of
(data, parameters, seed).

Not covered by theorems (covered by the repeated runs of the check only): rayon, the allocator
and `std::collections::HashMap` themselves, and the floating-point reductions inside the
estimators (they are sequential in the code; the model has no IEEE semantics).
-/
namespace LinfaSpec.Props.C20
open LinfaSpec.Determinism List

/-! ## 1. Parallel loops -/

/-- **Schedule independence of the disjoint-write loop.**  Whatever order the pool runs the
tasks in — any list of task numbers in which every task `i < n` occurs (at least once; tasks may
even be repeated or numbers out of range be present) — the output array is `[f 0, …, f (n-1)]`. -/
theorem parFor_schedule_independent {β} (f : Nat → β) (sched : List Nat) (init : List β)
    (hall : ∀ i, i < init.length → i ∈ sched) :
    parFor f sched init = (List.range init.length).map f := by
  apply List.ext_getElem?
  intro i
  rw [parFor_getElem?]
  by_cases hi : i < init.length
  · simp [hall i hi, hi]
  · simp [hi]

example : parFor (fun i => 10 * i) [2, 0, 3, 1] [7, 7, 7, 7] = [0, 10, 20, 30] := by decide

/-- the form of the statement's quantifier: every permutation of the tasks `0..n-1` -/
theorem parFor_perm_schedule {β} (f : Nat → β) (sched : List Nat) (init : List β)
    (hp : sched ~ List.range init.length) :
    parFor f sched init = (List.range init.length).map f :=
  parFor_schedule_independent f sched init
    (fun i hi => hp.symm.subset (List.mem_range.mpr hi))

example : [2, 0, 3, 1] ~ List.range ([7, 7, 7, 7] : List Nat).length := by decide

/-- **Interleavings below the task level.**  Split every task into its two events — compute the
value from the immutable inputs into a private slot, then write the slot to the task's own cell —
and let the pool interleave the events of different tasks in any way whatever: as long as every
task `i < n` has a compute event somewhere before a write event (program order inside the task),
the output is again `[f 0, …, f (n-1)]`.  Extra events (re-computations, re-writes, writes of
tasks that never computed) do not matter. -/
theorem parForEvents_interleaving_independent {β} (f : Nat → β) (evs : List Event) (init : List β)
    (hall : ∀ i, i < init.length → ∃ p1 p2 post,
      evs = p1 ++ Event.compute i :: p2 ++ Event.write i :: post) :
    parForEvents f evs init = (List.range init.length).map f := by
  have hlen : (parForEvents f evs init).length = init.length :=
    (evGood_foldl f init.length evs _ (evGood_init f init)).2.1
  apply List.ext_getElem?
  intro i
  by_cases hi : i < init.length
  · obtain ⟨p1, p2, post, rfl⟩ := hall i hi
    unfold parForEvents
    rw [events_cell f init.length _ (evGood_init f init) i hi p1 p2 post]
    simp [hi]
  · rw [List.getElem?_eq_none (by omega), List.getElem?_eq_none (by simp; omega)]

/-- two tasks, events fully interleaved: c1 c0 w1 c1 w0 -/
example : parForEvents (fun i => 10 * i + 1)
    [Event.compute 1, Event.compute 0, Event.write 1, Event.compute 1, Event.write 0] [7, 7] = [1, 11] := by
  decide

section KMeans
variable {α : Type} [Add α] [LT α] [DecidableLT α] [OfNat α 0]
set_option linter.unusedSectionVars false

/-- `update_cluster_memberships`: for every schedule the memberships are, row by row, the index
`closest_centroid` returns — the initial contents of the array do not matter either.  `dist` is the
metric of the parameter set (any function: `sqDist`, `l1Dist`, …). -/
theorem update_memberships_schedule_independent (dist : List α → List α → α) (cents obs : List (List α))
    (sched : List Nat) (init : List Nat) (hall : ∀ i, i < init.length → i ∈ sched) :
    updateMemberships dist cents obs sched init =
      (List.range init.length).map fun i => (closestOf dist cents obs i).1 :=
  parFor_schedule_independent _ sched init hall

/-- `update_min_dists` -/
theorem update_min_dists_schedule_independent (dist : List α → List α → α) (cents obs : List (List α))
    (sched : List Nat) (init : List α) (hall : ∀ i, i < init.length → i ∈ sched) :
    updateMinDists dist cents obs sched init =
      (List.range init.length).map fun i => (closestOf dist cents obs i).2 :=
  parFor_schedule_independent _ sched init hall

/-- `update_memberships_and_dists` (two zipped output arrays) -/
theorem update_both_schedule_independent (dist : List α → List α → α) (cents obs : List (List α))
    (sched : List Nat) (init : List (Nat × α)) (hall : ∀ i, i < init.length → i ∈ sched) :
    updateBoth dist cents obs sched init =
      (List.range init.length).map fun i => closestOf dist cents obs i :=
  parFor_schedule_independent _ sched init hall

/-- `update_memberships_and_dists` below the task level: the function the driver runs for
`parfor mode=events` gives the same array under every interleaving of the compute / write events
in which each task computes before it writes — and that array is the one of the task-level loop
under any complete schedule. -/
theorem update_both_events_interleaving_independent (dist : List α → List α → α)
    (cents obs : List (List α)) (evs : List Event) (sched : List Nat) (init init' : List (Nat × α))
    (hlen : init.length = init'.length)
    (hev : ∀ i, i < init.length → ∃ p1 p2 post,
      evs = p1 ++ Event.compute i :: p2 ++ Event.write i :: post)
    (hall : ∀ i, i < init'.length → i ∈ sched) :
    updateBothEvents dist cents obs evs init = updateBoth dist cents obs sched init' := by
  unfold updateBothEvents
  rw [parForEvents_interleaving_independent _ evs init hev,
    update_both_schedule_independent dist cents obs sched init' hall, hlen]

/-- **The reduction after the join is deterministic**: `dists.sum()` runs sequentially on an
array that no longer depends on the schedule, so two runs under any two schedules (and any
initial garbage of the same length) give the same sum — term by term the same additions. -/
theorem reduction_after_join_deterministic (dist : List α → List α → α) (cents obs : List (List α))
    (s₁ s₂ : List Nat) (init₁ init₂ : List α) (hlen : init₁.length = init₂.length)
    (h₁ : ∀ i, i < init₁.length → i ∈ s₁) (h₂ : ∀ i, i < init₂.length → i ∈ s₂) :
    sumAfterJoin (updateMinDists dist cents obs s₁ init₁) =
      sumAfterJoin (updateMinDists dist cents obs s₂ init₂) := by
  rw [update_min_dists_schedule_independent dist cents obs s₁ init₁ h₁,
    update_min_dists_schedule_independent dist cents obs s₂ init₂ h₂, hlen]

/-- **Inertia and cluster counts of `fit_with` / of a restart of `fit`** (the function the driver
runs for `fitsum`, compared with `KMeans::inertia()` and `cluster_count()` of the real fit): under
any two complete schedules and from any two buffers of equal length the assignment step followed by
the sequential `dists.sum()` gives the same counts and the same sum. -/
theorem fit_with_step_schedule_independent (dist : List α → List α → α) (cents obs : List (List α))
    (s₁ s₂ : List Nat) (init₁ init₂ : List (Nat × α)) (hlen : init₁.length = init₂.length)
    (h₁ : ∀ i, i < init₁.length → i ∈ s₁) (h₂ : ∀ i, i < init₂.length → i ∈ s₂) :
    fitWithStep dist cents obs s₁ init₁ = fitWithStep dist cents obs s₂ init₂ := by
  unfold fitWithStep
  rw [update_both_schedule_independent dist cents obs s₁ init₁ h₁,
    update_both_schedule_independent dist cents obs s₂ init₂ h₂, hlen]

/-- what `fitWithStep` returns, spelled out: the counts of the sequential assignment and the
left-to-right sum of the sequential distances -/
theorem fit_with_step_eq_sequential (dist : List α → List α → α) (cents obs : List (List α))
    (sched : List Nat) (init : List (Nat × α)) (hall : ∀ i, i < init.length → i ∈ sched) :
    fitWithStep dist cents obs sched init =
      (clusterCount cents.length ((List.range init.length).map fun i => (closestOf dist cents obs i).1),
       sumAfterJoin ((List.range init.length).map fun i => (closestOf dist cents obs i).2)) := by
  unfold fitWithStep
  rw [update_both_schedule_independent dist cents obs sched init hall]
  simp [List.map_map, Function.comp_def]

end KMeans

example : updateBoth (α := Int) sqDist [[0, 0], [4, 4], [0, 0]] [[1, 1], [3, 3], [2, 2]] [1, 2, 0]
    [(9, -1), (9, -1), (9, -1)] = [(0, 2), (1, 2), (0, 8)] := by decide

/-- L1 metric, events fully interleaved (c2 c0 w2 c1 w0 w1), and the `fit_with` step under two schedules -/
example : updateBothEvents (α := Int) l1Dist [[0, 0], [4, 4]] [[1, 1], [3, 3], [2, 2]]
      [Event.compute 2, Event.compute 0, Event.write 2, Event.compute 1, Event.write 0, Event.write 1]
      [(9, -1), (9, -1), (9, -1)] = [(0, 2), (1, 2), (0, 4)] ∧
    fitWithStep (α := Int) l1Dist [[0, 0], [4, 4]] [[1, 1], [3, 3], [2, 2]] [2, 0, 1] [(9, -1), (9, -1), (9, -1)]
      = ([2, 1], 8) ∧
    fitWithStep (α := Int) l1Dist [[0, 0], [4, 4]] [[1, 1], [3, 3], [2, 2]] [0, 1, 2, 1] [(7, 5), (7, 5), (7, 5)]
      = ([2, 1], 8) := by decide

/-! ## 2. Generator cloned per fit -/

/-- **A fit is a function of (data, parameters)**: because `fit` works on a clone of the
generator stored in the parameter set, the `k`-th fit with one parameter object returns what a
first fit returns — the history of earlier fits does not matter. -/
theorem rng_clone_pure {ρ δ μ : Type} (run : ρ → δ → μ × ρ) (g : ρ) (ds : List δ) :
    fitSeq (fitCloned run) g ds = ds.map fun d => (run g d).1 := by
  induction ds with
  | nil => rfl
  | cons d ds ih => simp only [fitSeq, fitCloned, List.map_cons]; rw [← ih]

/-- non-vacuity, and the contrast: a generator shared between fits makes the second fit differ -/
example : fitSeq (fitCloned fun (g : Nat) (d : Nat) => (g + d, g + 1)) 42 [5, 5, 5] = [47, 47, 47] ∧
    fitSeq (fitShared fun (g : Nat) (d : Nat) => (g + d, g + 1)) 42 [5, 5, 5] = [47, 48, 49] := by
  decide

/-- **The session the driver plays** (`fitseq`, compared with one real parameter object fitted on
the data sets `seq` one after another): whatever the table of the training procedure — in
particular however much its result depends on the generator state — every fit returns the entry of
generator state 0, i.e. what a first fit with a fresh parameter object returns. -/
theorem fit_session_history_free (tbl : List (List Nat)) (seq : List Nat) :
    fitSession tbl seq = seq.map fun d => (tbl.getD 0 []).getD d 0 := by
  unfold fitSession
  rw [rng_clone_pure]
  rfl

/-- non-vacuity and contrast: a procedure whose result depends on the generator state (rows differ);
sharing the generator would return the row-1 entry for the second fit -/
example : fitSession [[11, 12], [21, 22]] [0, 1, 0] = [11, 12, 11] ∧
    fitSeq (fitShared (tableRun [[11, 12], [21, 22]])) 0 [0, 1] = [11, 22] := by decide

/-! ## 3. Hash-map folds -/

section Modal
variable {κ ν : Type} [LinearOrder κ] [LinearOrder ν]

/-- **Decision-tree modal class**: the result does not depend on the iteration order of the
frequency map — for every permutation of its entries (no `UniqueMax` hypothesis; keys need not
even be distinct). -/
theorem modal_class_perm_invariant {m₁ m₂ : List (κ × ν)} (p : m₁ ~ m₂) :
    findModalClass m₁ = findModalClass m₂ := by
  unfold findModalClass
  rw [foldl_modalStep_perm p]

/-- what it returns: a class of maximal frequency, and among those the smallest label; `none`
(the `unwrap` panic) only for the empty map -/
theorem modal_class_is_max (e : κ × ν) (m : List (κ × ν)) :
    ∃ k f, findModalClass (e :: m) = some k ∧ (k, f) ∈ e :: m ∧
      ∀ x ∈ e :: m, x.2 < f ∨ (x.2 = f ∧ k ≤ x.1) := by
  obtain ⟨r, hr, hmem, hmax⟩ := foldl_modalStep_some e m
  refine ⟨r.1, r.2, ?_, hmem, ?_⟩
  · unfold findModalClass
    rw [List.foldl_cons]
    show Option.map _ (List.foldl modalStep (some e) m) = _
    rw [hr]; rfl
  · intro x hx
    have h := hmax x hx
    unfold modalRank at h
    rw [Prod.Lex.toLex_le_toLex] at h
    rcases h with h | ⟨h1, h2⟩
    · exact Or.inl h
    · exact Or.inr ⟨h1, OrderDual.toDual_le_toDual.mp h2⟩

end Modal

example : findModalClass [((6 : Nat), (1 : Int)), (9, 1)] = some 6 ∧
    findModalClass [((9 : Nat), (1 : Int)), (6, 1)] = some 6 := by decide

/-- the fold as it was before the fix is *not* invariant: the witness of finding
`C20-tree-modal-class-tie` (two classes, equal frequency) -/
theorem modal_class_orig_order_dependent :
    findModalClassOrig [((6 : Nat), (1 : Int)), (9, 1)] ≠ findModalClassOrig [((9 : Nat), (1 : Int)), (6, 1)] := by
  decide

section NaiveBayes
variable {κ ν : Type} [LinearOrder κ] [LT ν] [DecidableLT ν] [OfNat ν 0]

/-- **Naive-Bayes arg-max**: the predicted classes do not depend on the iteration order of the
class table (keys of a map are distinct) — ties of the joint log-likelihood included. -/
theorem nb_argmax_perm_invariant {j₁ j₂ : List (κ × List ν)} (p : j₁ ~ j₂)
    (hnd : (j₁.map Prod.fst).Nodup) (n : Nat) : nbPredict j₁ n = nbPredict j₂ n := by
  unfold nbPredict
  rw [sortByKey_perm p hnd]

end NaiveBayes

/-- non-vacuity: sample 0 is tied between classes 1 and 5 (→ 1), sample 1 between 4 and 5 (→ 4) -/
example : nbPredict [((5 : Nat), [(-1 : Int), 0]), (1, [-1, -2]), (4, [-3, 0])] 2 = some [1, 4] := by
  unfold nbPredict
  rw [sortByKey_eq (s := [(1, [-1, -2]), (4, [-3, 0]), (5, [-1, 0])]) (by decide) (by decide) (by decide)]
  decide

section Labels
variable {κ : Type} [LinearOrder κ]

/-- **Sorted label sets**: whatever order the hash set hands the labels out in, the sorted
vector the callers use is the same. -/
theorem sorted_labels_perm_invariant (cols : List (List κ)) (l : List κ) (p : l ~ labelsOf cols) :
    sortLabels l = sortedLabels cols :=
  sortLabels_perm p

/-- same for `combined_labels` -/
theorem sorted_combined_labels_perm_invariant (a b : List (List κ)) (l : List κ)
    (p : l ~ labelsOf (a ++ b)) : sortLabels l = sortedCombinedLabels a b :=
  sortLabels_perm p

/-- **Members of a confusion matrix** (`classes = combined_labels(truth); classes.sort();` reversed
when there are exactly two): whatever order the hash set hands the combined labels out in, the
`members` are those of the model function the driver runs for `labels … cm=`. -/
theorem cm_members_perm_invariant (pred truth : List κ) (l : List κ)
    (p : l ~ labelsOf ([pred] ++ [truth])) :
    (if (sortLabels l).length = 2 then (sortLabels l).reverse else sortLabels l) = cmMembers pred truth := by
  unfold cmMembers
  rw [sorted_combined_labels_perm_invariant [pred] [truth] l p]

end Labels

example : labelsOf [[(3 : Nat), 1, 3, 2], [7, 1, 1, 1]] = [3, 1, 2, 7] ∧
    sortLabels [(7 : Nat), 2, 1, 3] = [1, 2, 3, 7] :=
  ⟨by decide, sortLabels_eq (by decide) (by decide)⟩

/-! ## 4. Hierarchical cluster ids -/

/-- **Hierarchical clustering**: for every number of points, every stopping criterion and every
list of dendrogram steps, the labels computed from the final cluster map do not depend on the
map's iteration order.  (The hypothesis-free form: the disjointness the proof needs is an
invariant of the merge loop, proved from the singleton start.) -/
theorem hier_labels_perm_invariant {α} [LE α] [DecidableLE α] (n : Nat) (stop : Stop α)
    (steps : List (Nat × Nat × α)) (clusters c' : List (Nat × List Nat))
    (h : mergeLoop stop steps ((List.range n).map fun i => (i, [i])) n = some clusters)
    (p : c' ~ clusters) : hierLabels n c' = hierLabels n clusters := by
  have hinv := mergeLoop_inv stop steps _ n clusters (singletons_inv n) h
  exact hierLabels_perm p ((hinv.perm p.symm).minKey_nodup)

example : mergeLoop (Stop.numClusters (α := Nat) 2) [(0, 2, 1), (1, 3, 2), (4, 5, 3)]
      ((List.range 4).map fun i => (i, [i])) 4 = some [(4, [0, 2]), (5, [1, 3])] ∧
    hierLabels 4 [(5, [1, 3]), (4, [0, 2])] = [0, 1, 0, 1] := by
  refine ⟨by decide, ?_⟩
  unfold hierLabels
  rw [sortClusters_eq (s := [(4, [0, 2]), (5, [1, 3])]) (by decide) (by decide) (by decide)]
  decide

/-- the labelling as it was before the fix is *not* invariant: the witness of finding
`C20-hierarchical-cluster-ids` -/
theorem hier_labels_orig_order_dependent :
    hierLabelsOrig 2 [(0, [0]), (1, [1])] ≠ hierLabelsOrig 2 [(1, [1]), (0, [0])] := by decide

/-! ## 5. Top-k selections over a hash map (text vocabularies under `max_features`) -/

/-- **Top-k by (key, tie-break) is independent of the map's iteration order.**  For any
comparison that is transitive, total and — on the entries present — antisymmetric (i.e. the
tie-break makes it a total order on the entries), sorting the entries of a map and keeping the
first `k` gives the same list whatever order the map's iterator produced them in. -/
theorem topk_perm_invariant {ε : Type} (le : ε → ε → Bool)
    (trans : ∀ a b c, le a b → le b c → le a c) (total : ∀ a b, le a b || le b a)
    {m₁ m₂ : List ε} (p : m₁ ~ m₂)
    (antisymm : ∀ a b, a ∈ m₁ → b ∈ m₁ → le a b → le b a → a = b) (k : Nat) :
    (m₁.mergeSort le).take k = (m₂.mergeSort le).take k := by
  rw [mergeSort_perm_invariant le trans total p antisymm]

example : ([(3 : Nat), 1, 2].mergeSort (fun a b => decide (a ≤ b))).take 2 =
    ([(2 : Nat), 3, 1].mergeSort (fun a b => decide (a ≤ b))).take 2 :=
  topk_perm_invariant _ (by intro a b c; simp; omega) (by intro a b; simp; omega) (by decide)
    (by intro a b _ _; simp; omega) 2

section Vocabulary
variable {κ : Type} [LinearOrder κ]

/-- **`max_features` cut of `CountVectorizer`**: the order `(Reverse(freq), Reverse(word), x)` is a
total order on the entries, so the kept entries do not depend on the iteration order of the
vocabulary map — no hypothesis on the map (keys need not even be distinct). -/
theorem cap_selection_perm_invariant {m₁ m₂ : List (κ × Nat × Nat)} (p : m₁ ~ m₂) (cap : Nat) :
    capVocabulary (some cap) m₁ = capVocabulary (some cap) m₂ :=
  topk_perm_invariant capLe capLe_trans capLe_total p
    (fun a b _ _ hab hba => capKey_injective (le_antisymm ((capLe_iff a b).mp hab) ((capLe_iff b a).mp hba))) cap

/-- **The cut ignores the insertion indexes.**  The insertion index `x` of an entry follows the
iteration order of the per-document `HashSet`; because the word is compared before it (and words
are what is observable), two vocabularies with the same (word, document frequency) pairs — in any
order, with any insertion indexes — keep the same words with the same frequencies. -/
theorem cap_selection_ignores_insertion_index {m₁ m₂ : List (κ × Nat × Nat)}
    (p : m₁.map wordDf ~ m₂.map wordDf) (cap : Nat) :
    (capVocabulary (some cap) m₁).map wordDf = (capVocabulary (some cap) m₂).map wordDf := by
  unfold capVocabulary
  simp only [List.map_take]
  rw [sort_wordDf_perm p]

/-- without a cap the vocabulary is handed on as it is: equal as a multiset (the statement compares
vocabularies as word-to-column maps) -/
theorem uncapped_vocabulary_perm {m₁ m₂ : List (κ × Nat × Nat)} (p : m₁.map wordDf ~ m₂.map wordDf) :
    (capVocabulary none m₁).map wordDf ~ (capVocabulary none m₂).map wordDf := p

/-- **The raw vocabulary does not depend on the iteration order of any per-document hash set.**
For all documents and all iteration orders of every per-document `HashSet` (the two lists of
sets are element-wise permutations of each other), the vocabularies built by
`read_document_into_vocabulary` carry the same (word, document frequency) pairs — they differ
only in the order of the entries and in the insertion indexes. -/
theorem build_vocabulary_hash_independent {s₁ s₂ : List (List κ)} (h : List.Forall₂ (· ~ ·) s₁ s₂) :
    (buildVocabulary s₁).map wordDf ~ (buildVocabulary s₂).map wordDf :=
  buildVocabulary_wordDf_perm h

/-- **`CountVectorizer::fit` with `max_features`**: frequency window, stop words and cut together
return the same (word, document frequency) list whatever order every hash set on the way was
iterated in. -/
theorem fit_vocabulary_hash_independent {s₁ s₂ : List (List κ)} (h : List.Forall₂ (· ~ ·) s₁ s₂)
    (minAbs maxAbs : Nat) (stop : List κ) (cap : Nat) :
    fitVocabulary s₁ minAbs maxAbs stop (some cap) = fitVocabulary s₂ minAbs maxAbs stop (some cap) := by
  unfold fitVocabulary
  apply cap_selection_ignores_insertion_index
  rw [dfFilter_wordDf, dfFilter_wordDf]
  exact (build_vocabulary_hash_independent h).filter _

/-- without a cap: the same word → frequency map (as a multiset; the column order is unspecified) -/
theorem fit_vocabulary_uncapped_hash_independent {s₁ s₂ : List (List κ)}
    (h : List.Forall₂ (· ~ ·) s₁ s₂) (minAbs maxAbs : Nat) (stop : List κ) :
    fitVocabulary s₁ minAbs maxAbs stop none ~ fitVocabulary s₂ minAbs maxAbs stop none := by
  unfold fitVocabulary capVocabulary
  simp only
  rw [dfFilter_wordDf, dfFilter_wordDf]
  exact (build_vocabulary_hash_independent h).filter _

end Vocabulary

/-! ### The instance the driver runs: words are token lists (`List Nat`) under core's `List.lt` -/

/-- **Bridge to the driver.**  The driver instantiates the vocabulary model at `κ = List Nat` with
core Lean's `DecidableEq`, `LT` (`List.lt`, lexicographic) and `DecidableLT` instances — spelled
out here, no `LinearOrder` in sight; the general theorem applies because Mathlib's linear order on
lists is that very relation. -/
theorem fit_vocabulary_hash_independent_driver {s₁ s₂ : List (List (List Nat))}
    (h : List.Forall₂ (· ~ ·) s₁ s₂) (minAbs maxAbs : Nat) (stop : List (List Nat)) (cap : Nat) :
    @fitVocabulary (List Nat) instDecidableEqList List.instLT List.decidableLT s₁ minAbs maxAbs stop (some cap) =
      @fitVocabulary (List Nat) instDecidableEqList List.instLT List.decidableLT s₂ minAbs maxAbs stop (some cap) := by
  have := fit_vocabulary_hash_independent (κ := List Nat) h minAbs maxAbs stop cap
  convert this using 2 <;> rfl

/-- same bridge without a cap -/
theorem fit_vocabulary_uncapped_hash_independent_driver {s₁ s₂ : List (List (List Nat))}
    (h : List.Forall₂ (· ~ ·) s₁ s₂) (minAbs maxAbs : Nat) (stop : List (List Nat)) :
    @fitVocabulary (List Nat) instDecidableEqList List.instLT List.decidableLT s₁ minAbs maxAbs stop none ~
      @fitVocabulary (List Nat) instDecidableEqList List.instLT List.decidableLT s₂ minAbs maxAbs stop none := by
  have := fit_vocabulary_uncapped_hash_independent (κ := List Nat) h minAbs maxAbs stop
  convert this using 2 <;> rfl

example : List.Forall₂ (· ~ ·) [[[(1 : Nat)], [1, 2]], [[2]]] [[[1, 2], [1]], [[2]]] :=
  .cons (by decide) (.cons (by decide) .nil)

/-- non-vacuity: two words first seen in one document, the hash set iterated both ways: the raw
vocabularies differ in their insertion indexes, their (word, frequency) pairs are permutations -/
example : buildVocabulary [[(1 : Nat), 2], [2]] = [(1, 0, 1), (2, 1, 2)] ∧
    buildVocabulary [[(2 : Nat), 1], [2]] = [(2, 0, 2), (1, 1, 1)] ∧
    (buildVocabulary [[(1 : Nat), 2], [2]]).map wordDf ~ (buildVocabulary [[(2 : Nat), 1], [2]]).map wordDf := by
  refine ⟨by decide, by decide, by decide⟩

example : [((1 : Nat), 0, 1), (2, 1, 1)] ~ [((2 : Nat), 1, 1), (1, 0, 1)] := by decide

example : List.Forall₂ (· ~ ·) [[(1 : Nat), 2], [2]] [[2, 1], [2]] :=
  .cons (by decide) (.cons (by decide) .nil)

/-- a cut whose tie-break is the insertion index (the order `(Reverse(freq), x, word)`) is *not*
invariant: one document with two new words, its hash set iterated both ways, `max_features = 1`
(the seeded change `C20-max-features-tie-by-insertion-index`) -/
theorem cap_by_insertion_index_order_dependent :
    (capVocabularyByIndex (some 1) (buildVocabulary [[(1 : Nat), 2]])).map wordDf ≠
      (capVocabularyByIndex (some 1) (buildVocabulary [[(2 : Nat), 1]])).map wordDf := by
  have h1 : buildVocabulary [[(1 : Nat), 2]] = [(1, 0, 1), (2, 1, 1)] := by decide
  have h2 : buildVocabulary [[(2 : Nat), 1]] = [(2, 0, 1), (1, 1, 1)] := by decide
  rw [h1, h2]
  unfold capVocabularyByIndex
  simp only
  rw [List.mergeSort_of_pairwise (by decide), List.mergeSort_of_pairwise (by decide)]
  decide

end LinfaSpec.Props.C20
