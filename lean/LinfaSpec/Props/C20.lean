import LinfaSpec.Proofs.Determinism

/-!
# C20 — same data, parameters and seed give bit-identical results on every run

Theorems about `LinfaSpec.Determinism` (the model of linfa's parallel loops, of the generator
held by a parameter set, and of every fold over a hash map on the path of an estimator).
The schedule of the thread pool and the iteration order of a hash map are universally
quantified: whatever they are, the modelled result is the same function of
(data, parameters, seed).
-/
namespace LinfaSpec.Props.C20
open LinfaSpec.Determinism

/-- **Schedule independence of the disjoint-write loop.**  Whatever order the pool runs the
tasks in — any list of task numbers in which every task `i < n` occurs (at least once; tasks may
even be repeated or numbers out of range be present) — the output array is `[f 0, …, f (n-1)]`. -/
theorem parFor_schedule_independent {β} (f : Nat → β) (sched : List Nat) (init : List β)
    (hall : ∀ i, i < init.length → i ∈ sched) :
    parFor f sched init = (List.range init.length).map f := by
  apply List.ext_getElem?
  intro i
  rw [parFor_getElem?]
  by_cases hi : i < init.length
  · simp [hall i hi, hi]
  · simp [hi]

example : parFor (fun i => 10 * i) [2, 0, 3, 1] [7, 7, 7, 7] = [0, 10, 20, 30] := by decide

end LinfaSpec.Props.C20
