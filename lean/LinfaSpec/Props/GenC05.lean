import LinfaSpec.Gen.Vectors
import LinfaSpec.Model.Metrics
import Mathlib.Algebra.Order.Field.Basic
import Mathlib.Tactic.Linarith

/-!
# C05 — obligations about the regression metrics GENERATED from the Rust source

`LinfaSpec.Gen.Vectors.Reg` / `RegMulti` are regenerated from `src/metrics_regression.rs` on every
check by `tools/vec2lean.py` (the default methods of `SingleTargetRegression` and
`MultiTargetRegression`, read as list programs).  The theorems below state that the generated text
IS the hand-written model the C05 theorems are about (`Metrics.maxError`, `meanAbsError`, … in
`Model/Metrics.lean`), so `Props/C05.lean` speaks about what the source says now; a change of a
formula, of the receiver / argument roles or of the per-column pairing breaks one of them.
-/
set_option linter.unusedSectionVars false
namespace LinfaSpec.Props.GenC05
open LinfaSpec LinfaSpec.Metrics LinfaSpec.Gen.Vectors

section generic
variable {α : Type} [Add α] [Sub α] [Mul α] [Div α] [Neg α] [LT α] [DecidableLT α] [LE α] [DecidableLE α]
  [DecidableEq α] [OfNat α 0] [OfNat α 1] [OfNat α 2] [NatCast α] [OfScientific α] [Transc α]

/-- the translator's reading of `mean()` and of `sort_by(partial_cmp)` is the model's -/
theorem vmean_is_model (l : List α) : vmean l = meanS l := rfl
theorem vsort_is_model (l : List α) : vsort l = sortAsc l := by
  unfold vsort sortAsc
  have h : ∀ (x : α) (l : List α), vinsert x l = insertAsc x l := by
    intro x l; induction l with
    | nil => rfl
    | cons y ys ih => simp [vinsert, insertAsc, ih]
  induction l with
  | nil => rfl
  | cons x xs ih => simp [List.foldr, ih, h]

/-- `mean_absolute_error` in the source is `Metrics.meanAbsError` (self = first argument) -/
theorem mean_absolute_error_is_model (a b : List α) : Reg.mean_absolute_error a b = meanAbsError a b := rfl

theorem mean_squared_error_is_model (a b : List α) : Reg.mean_squared_error a b = meanSqError a b := rfl

theorem mean_squared_log_error_is_model (a b : List α) :
    Reg.mean_squared_log_error a b = meanSqLogError a b := rfl

/-- MAPE divides by the RECEIVER (`self`), as the model says -/
theorem mean_absolute_percentage_error_is_model (a b : List α) :
    Reg.mean_absolute_percentage_error a b = mape a b := rfl

/-- `r2` with the literal `1e-10` of the source as the model's `tiny` -/
theorem r2_is_model (a b : List α) : Reg.r2 a b = r2 (1e-10 : α) a b := by
  unfold Reg.r2 Metrics.r2
  show ((meanS b).bind _) = _
  cases meanS b <;> rfl

/-- `explained_variance` as coded (the open finding C05-explained-variance-mean-error is about this text) -/
theorem explained_variance_is_model (a b : List α) :
    Reg.explained_variance a b = explainedVariance (1e-10 : α) a b := by
  unfold Reg.explained_variance Metrics.explainedVariance
  show ((meanS b).bind _) = _
  cases meanS b with
  | none => rfl
  | some m =>
    show ((meanS (subL a b)).bind _) = _
    cases meanS (subL a b) <;> rfl

/-- multi-target forms apply the single-target metric column by column, receiver column first, and
return the first error -/
theorem multi_is_columnwise (ninf : α) (a b : List (List α)) :
    RegMulti.max_error ninf a b = (List.zip a b).mapM (fun p => Reg.max_error ninf p.1 p.2) ∧
    RegMulti.mean_absolute_error a b = (List.zip a b).mapM (fun p => Reg.mean_absolute_error p.1 p.2) ∧
    RegMulti.mean_squared_error a b = (List.zip a b).mapM (fun p => Reg.mean_squared_error p.1 p.2) ∧
    RegMulti.mean_squared_log_error a b = (List.zip a b).mapM (fun p => Reg.mean_squared_log_error p.1 p.2) ∧
    RegMulti.median_absolute_error a b = (List.zip a b).mapM (fun p => Reg.median_absolute_error p.1 p.2) ∧
    RegMulti.mean_absolute_percentage_error a b = (List.zip a b).mapM (fun p => Reg.mean_absolute_percentage_error p.1 p.2) ∧
    RegMulti.r2 a b = (List.zip a b).mapM (fun p => Reg.r2 p.1 p.2) ∧
    RegMulti.explained_variance a b = (List.zip a b).mapM (fun p => Reg.explained_variance p.1 p.2) := by
  refine ⟨?_, ?_, ?_, ?_, ?_, ?_, ?_, ?_⟩ <;>
    simp [RegMulti.max_error, RegMulti.mean_absolute_error, RegMulti.mean_squared_error,
      RegMulti.mean_squared_log_error, RegMulti.median_absolute_error,
      RegMulti.mean_absolute_percentage_error, RegMulti.r2, RegMulti.explained_variance, List.mapM_map]

end generic

section field
variable {α : Type} [Field α] [LinearOrder α] [IsStrictOrderedRing α] [Transc α]

theorem median_aux (s : List α) :
    (if decide (s.length % 2 = 0) = true then
        (s[s.length / 2 - 1]?).bind fun x1 => (s[s.length / 2]?).bind fun x2 => some ((x1 + x2) / (((2 : Nat)) : α))
      else (s[s.length / 2]?).bind fun x3 => some x3) =
    (if s.length % 2 = 0 then
        match s[s.length / 2 - 1]?, s[s.length / 2]? with
        | some x, some y => some ((x + y) / 2)
        | _, _ => none
      else s[s.length / 2]?) := by
  have h2 : (((2 : Nat)) : α) = 2 := by norm_num
  by_cases h : s.length % 2 = 0
  · simp only [h, decide_true, if_true, h2]
    cases s[s.length / 2 - 1]? <;> cases s[s.length / 2]? <;> rfl
  · simp only [h, decide_false, if_false]
    cases s[s.length / 2]? <;> rfl

/-- `median_absolute_error` (the literal `2.0` is the field's 2) -/
theorem median_absolute_error_is_model (a b : List α) :
    Reg.median_absolute_error a b = medianAbsError a b := by
  have hs : vsort (List.map (fun x => absS x) (List.zipWith (· - ·) a b)) = sortAsc ((subL a b).map absS) :=
    vsort_is_model _
  unfold Reg.median_absolute_error medianAbsError
  simp only [hs]
  exact median_aux _

theorem foldl_maxS_of_le (m : α) (l : List α) :
    ∀ x, m ≤ x → List.foldl maxS m (x :: l) = List.foldl maxS x l := by
  intro x hx
  simp only [List.foldl]
  congr 1
  unfold maxS
  split
  · rfl
  · exact le_antisymm hx (not_lt.mp ‹_›)

/-- `max_error`: `fold(-inf, max)` over the absolute differences.  With any start value below zero
(`F::neg_infinity()` is one) the source returns the model's maximum, and the start value itself on
empty input (where the model says `none`). -/
theorem max_error_is_model (ninf : α) (h : ninf < 0) (a b : List α) :
    Reg.max_error ninf a b = some ((maxError a b).getD ninf) := by
  unfold Reg.max_error maxError subL
  cases hl : List.map (fun x => absS x) (List.zipWith (· - ·) a b) with
  | nil => simp
  | cons x xs =>
    have hx : 0 ≤ x := by
      have : x ∈ List.map (fun x => absS x) (List.zipWith (· - ·) a b) := by rw [hl]; simp
      obtain ⟨y, -, rfl⟩ := List.mem_map.mp this
      unfold absS; split <;> linarith
    have e : (List.map absS (List.zipWith (· - ·) a b)) = x :: xs := hl
    simp only [Option.getD_some]
    show some (List.foldl maxS ninf (x :: xs)) = _
    rw [foldl_maxS_of_le ninf xs x (by linarith)]

end field

/-- the hypotheses are satisfiable and the statements non-trivial on a concrete input -/
example : Reg.max_error (-1 : Rat) [3, 1] [1, 4] = some 3 ∧ Reg.r2 ([1, 2] : List Rat) [1, 3] ≠ none := by
  refine ⟨by decide +kernel, by decide +kernel⟩

end LinfaSpec.Props.GenC05
