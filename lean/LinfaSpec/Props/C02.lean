import LinfaSpec.Proofs.Dataset

/-!
# C02 — dataset operations keep record, target and weight of a sample together

Theorems about `LinfaSpec.Dataset` (the model of `split_with_ratio`, `shuffle`,
`bootstrap*`, `with_labels`, `one_vs_all`, `map_targets`, `view`, `to_owned`,
`into_single_target`, `feature_iter`, `target_iter`, `sample_chunks`), for every
dataset over arbitrary record-cell, label and weight types, every index vector the
RNG may produce, and every finite history of operations.

`AlignedBy ρ γ τ f a b` (Proofs/Dataset.lean) is the property's predicate: row `k` of `b`
carries the record cells, the target cells (relabelled by `f`) and, if `b` has weights,
the weight of *one* sample `ρ k` of `a`; record column `j` of `b` is column `γ j` of `a`
and, if `b` has feature names, is named like it; likewise `τ` for target columns.
The per-operation theorems give the witnesses explicitly, which is the selection law
(`ρ = id` / `n1 + ·` for the split, the RNG's index vector for shuffle and bootstrap,
the kept positions for `with_labels`, the block offset for chunks).
-/
namespace LinfaSpec.Props.C02
open LinfaSpec.Dataset

variable {R T W : Type}

/-- example datasets: `mkDS p t ix1 recs tgts weights fnames tnames` (plain targets) -/
def mkDS (p t : Nat) (ix1 : Bool) (recs tgts : List (List Nat)) (weights : List Nat)
    (fnames tnames : List String) : DS Nat Nat Nat :=
  ⟨p, t, ix1, recs, tgts, weights, fnames, tnames, none⟩

/-! ## composition: histories -/

/-- alignment is reflexive and closed under composition — this is what makes a statement
about single operations a statement about all finite sequences of them -/
theorem aligned_refl (a : DS R T W) : Aligned a a := Aligned.refl a

theorem aligned_trans {a b c : DS R T W} (h₁ : Aligned a b) (h₂ : Aligned b c) : Aligned a c :=
  Aligned.trans h₁ h₂

/-- the two operations that work on the raw row-major buffers need the matrix shape
(which ndarray guarantees): the owned split, and `into_single_target` on `[n, 1]` targets -/
def RawOk (op : Op T) (ds : DS R T W) : Prop :=
  match op with
  | .splitOwned _ _ => Shaped ds
  | .intoSingleTarget => ∀ g ∈ ds.tgts, g.length = 1
  | _ => True

/-- **every dataset any operation returns is aligned with its input** -/
theorem apply_aligned [DecidableEq T] (ofBool : Bool → T) (op : Op T) (ds : DS R T W)
    (hraw : RawOk op ds) (outs : List (DS R T W)) (h : apply ofBool op ds = some outs)
    (k : Nat) (d : DS R T W) (hd : outs[k]? = some d) : Aligned ds d := by
  cases op with
  | splitView n1 =>
    simp only [apply, Option.map_eq_some_iff] at h
    obtain ⟨⟨a, b⟩, hs, e⟩ := h
    obtain ⟨ha, hb⟩ := splitView_alignedBy hs
    subst e
    match k, hd with
    | 0, hd => simp at hd; subst hd; exact ⟨_, _, _, _, ha⟩
    | 1, hd => simp at hd; subst hd; exact ⟨_, _, _, _, hb⟩
    | k + 2, hd => simp at hd
  | splitOwned std n1 =>
    simp only [apply] at h
    split at h
    · simp at h
    · simp only [Option.map_eq_some_iff] at h
      obtain ⟨⟨a, b⟩, hs, e⟩ := h
      obtain ⟨ha, hb⟩ := splitOwned_alignedBy hraw.1 hraw.2.1 hraw.2.2 hs
      subst e
      match k, hd with
      | 0, hd => simp at hd; subst hd; exact ⟨_, _, _, _, ha⟩
      | 1, hd => simp at hd; subst hd; exact ⟨_, _, _, _, hb⟩
      | k + 2, hd => simp at hd
  | shuffle idx =>
    simp only [apply, Option.map_eq_some_iff] at h
    obtain ⟨a, hs, e⟩ := h
    subst e
    match k, hd with
    | 0, hd => simp at hd; subst hd; exact ⟨_, _, _, _, shuffle_alignedBy hs⟩
    | k + 1, hd => simp at hd
  | bootstrap ns nf idx fidx =>
    simp only [apply, Option.map_eq_some_iff] at h
    obtain ⟨a, hs, e⟩ := h
    subst e
    match k, hd with
    | 0, hd => simp at hd; subst hd; exact bootstrap_aligned hs
    | k + 1, hd => simp at hd
  | bootstrapSamples ns idx =>
    simp only [apply, Option.map_eq_some_iff] at h
    obtain ⟨a, hs, e⟩ := h
    subst e
    match k, hd with
    | 0, hd => simp at hd; subst hd; exact ⟨_, _, _, _, bootstrapSamples_alignedBy hs⟩
    | k + 1, hd => simp at hd
  | bootstrapFeatures nf fidx =>
    simp only [apply, Option.map_eq_some_iff] at h
    obtain ⟨a, hs, e⟩ := h
    subst e
    match k, hd with
    | 0, hd => simp at hd; subst hd; exact ⟨_, _, _, _, bootstrapFeatures_alignedBy hs⟩
    | k + 1, hd => simp at hd
  | withLabels labs =>
    simp only [apply, Option.map_eq_some_iff] at h
    obtain ⟨a, hs, e⟩ := h
    subst e
    match k, hd with
    | 0, hd => simp at hd; subst hd; exact ⟨_, _, _, _, withLabels_alignedBy hs⟩
    | k + 1, hd => simp at hd
  | oneVsAll =>
    simp only [apply, Option.some.injEq] at h
    subst h
    simp only [List.getElem?_map, Option.map_eq_some_iff] at hd
    obtain ⟨⟨l, d0⟩, hk, e⟩ := hd
    subst e
    exact ⟨_, _, _, _, oneVsAll_alignedBy ofBool ds l d0 (List.mem_of_getElem? hk) _⟩
  | mapTargets f =>
    simp only [apply, Option.some.injEq] at h
    subst h
    match k, hd with
    | 0, hd => simp at hd; subst hd; exact ⟨_, _, _, _, mapTargets_alignedBy f ds⟩
    | k + 1, hd => simp at hd
  | view =>
    simp only [apply, Option.some.injEq] at h
    subst h
    match k, hd with
    | 0, hd => simp at hd; subst hd; exact ⟨_, _, _, _, view_alignedBy ds⟩
    | k + 1, hd => simp at hd
  | toOwned =>
    simp only [apply, Option.some.injEq] at h
    subst h
    match k, hd with
    | 0, hd => simp at hd; subst hd; exact ⟨_, _, _, _, toOwned_alignedBy ds⟩
    | k + 1, hd => simp at hd
  | intoSingleTarget =>
    simp only [apply, Option.map_eq_some_iff] at h
    obtain ⟨a, hs, e⟩ := h
    subst e
    match k, hd with
    | 0, hd => simp at hd; subst hd; exact ⟨_, _, _, _, intoSingleTarget_alignedBy hraw hs⟩
    | k + 1, hd => simp at hd
  | featureIter => exact ⟨_, _, _, _, featureIter_alignedBy h k d hd⟩
  | targetIter => exact ⟨_, _, _, _, targetIter_alignedBy h k d hd⟩
  | sampleChunks size => exact ⟨_, _, _, _, sampleChunks_alignedBy h k d hd⟩

/-- along a history, every dataset a raw-buffer operation is applied to has the matrix shape -/
def StepsOk [DecidableEq T] (ofBool : Bool → T) : List (Op T × Nat) → DS R T W → Prop
  | [], _ => True
  | (op, k) :: rest, ds =>
    RawOk op ds ∧ ∀ outs d, apply ofBool op ds = some outs → outs[k]? = some d → StepsOk ofBool rest d

/-- **all finite sequences of operations**: whatever dataset a history ends in, each of its rows
still carries the record cells, targets and weight of one sample of the dataset the history
started from, and each of its columns the cells and name of one original column.
(Induction over the history; `StepsOk` only asks that datasets are rectangular where the raw
buffers are cut — true of every ndarray.) -/
theorem aligned_ops [DecidableEq T] (ofBool : Bool → T) (ops : List (Op T × Nat)) :
    ∀ (ds ds' : DS R T W), StepsOk ofBool ops ds → runSeq ofBool ops ds = some ds' → Aligned ds ds' := by
  induction ops with
  | nil => intro ds ds' _ h; simp [runSeq] at h; subst h; exact Aligned.refl _
  | cons s rest ih =>
    obtain ⟨op, k⟩ := s
    intro ds ds' hok h
    simp only [runSeq] at h
    cases ha : apply ofBool op ds with
    | none => simp [ha] at h
    | some outs =>
      cases hk : outs[k]? with
      | none => simp [ha, hk] at h
      | some d =>
        simp [ha, hk] at h
        exact Aligned.trans (apply_aligned ofBool op ds hok.1 outs ha k d hk) (ih d ds' (hok.2 outs d ha hk) h)

/-- **the dataset invariant** (`WF`: matrix shape, one weight per sample or none, one name per
column or none — what the constructors of `DatasetBase` produce) **is preserved by every operation** -/
theorem apply_wf [DecidableEq T] (ofBool : Bool → T) (op : Op T) (ds : DS R T W) (hw : WF ds)
    (outs : List (DS R T W)) (h : apply ofBool op ds = some outs) : ∀ d ∈ outs, WF d := by
  cases op with
  | splitView n1 =>
    simp only [apply, Option.map_eq_some_iff] at h
    obtain ⟨⟨a, b⟩, hs, e⟩ := h
    obtain ⟨ha, hb⟩ := splitView_wf hw hs
    subst e
    intro d hd
    simp at hd
    rcases hd with hd | hd <;> subst hd <;> assumption
  | splitOwned std n1 =>
    simp only [apply] at h
    split at h
    · simp at h
    · simp only [Option.map_eq_some_iff] at h
      obtain ⟨⟨a, b⟩, hs, e⟩ := h
      obtain ⟨ha, hb⟩ := splitOwned_wf hw hs
      subst e
      intro d hd
      simp at hd
      rcases hd with hd | hd <;> subst hd <;> assumption
  | shuffle idx =>
    simp only [apply, Option.map_eq_some_iff] at h
    obtain ⟨a, hs, e⟩ := h
    subst e
    intro d hd; simp at hd; subst hd; exact shuffle_wf hw hs
  | bootstrap ns nf idx fidx =>
    simp only [apply, Option.map_eq_some_iff] at h
    obtain ⟨a, hs, e⟩ := h
    subst e
    intro d hd; simp at hd; subst hd; exact bootstrap_wf hw hs
  | bootstrapSamples ns idx =>
    simp only [apply, Option.map_eq_some_iff] at h
    obtain ⟨a, hs, e⟩ := h
    subst e
    intro d hd; simp at hd; subst hd; exact bootstrapSamples_wf hw hs
  | bootstrapFeatures nf fidx =>
    simp only [apply, Option.map_eq_some_iff] at h
    obtain ⟨a, hs, e⟩ := h
    subst e
    intro d hd; simp at hd; subst hd; exact bootstrapFeatures_wf hw hs
  | withLabels labs =>
    simp only [apply, Option.map_eq_some_iff] at h
    obtain ⟨a, hs, e⟩ := h
    subst e
    intro d hd; simp at hd; subst hd; exact withLabels_wf hw hs
  | oneVsAll =>
    simp only [apply, Option.some.injEq] at h
    subst h
    intro d hd
    simp only [List.mem_map] at hd
    obtain ⟨⟨l, d0⟩, hk, e⟩ := hd
    subst e
    have := mapTargets_wf ofBool (oneVsAll_wf hw l d0 hk)
    exact ⟨this.shaped, this.wts, this.fnm, this.tnm⟩
  | mapTargets f =>
    simp only [apply, Option.some.injEq] at h
    subst h
    intro d hd; simp at hd; subst hd; exact mapTargets_wf f hw
  | view =>
    simp only [apply, Option.some.injEq] at h
    subst h
    intro d hd; simp at hd; subst hd; exact view_wf hw
  | toOwned =>
    simp only [apply, Option.some.injEq] at h
    subst h
    intro d hd; simp at hd; subst hd; exact toOwned_wf hw
  | intoSingleTarget =>
    simp only [apply, Option.map_eq_some_iff] at h
    obtain ⟨a, hs, e⟩ := h
    subst e
    intro d hd; simp at hd; subst hd; exact intoSingleTarget_wf hw hs
  | featureIter => exact featureIter_wf hw h
  | targetIter => exact targetIter_wf hw h
  | sampleChunks size => exact sampleChunks_wf hw h

/-- a well-formed dataset gives the raw-buffer operations what they need -/
theorem rawOk_of_wf [DecidableEq T] (ofBool : Bool → T) (op : Op T) (ds : DS R T W) (hw : WF ds)
    (outs : List (DS R T W)) (h : apply ofBool op ds = some outs) : RawOk op ds := by
  cases op with
  | splitOwned std n1 => exact hw.shaped
  | intoSingleTarget =>
    simp only [apply, Option.map_eq_some_iff] at h
    obtain ⟨a, hs, _⟩ := h
    exact singletons_of_wf hw hs
  | _ => trivial

/-- **all finite sequences of operations, no side condition**: started from any dataset the
constructors can build (`WF`), whatever dataset a history ends in is again such a dataset, and each
of its rows carries the record cells, targets and weight of one sample of the initial dataset, each
of its columns the cells and name of one initial column.  (Induction over the history; the shape
that `aligned_ops` asks for step by step is carried along as an invariant by `apply_wf`.) -/
theorem aligned_history [DecidableEq T] (ofBool : Bool → T) (ops : List (Op T × Nat)) :
    ∀ (ds ds' : DS R T W), WF ds → runSeq ofBool ops ds = some ds' → Aligned ds ds' ∧ WF ds' := by
  induction ops with
  | nil => intro ds ds' hw h; simp [runSeq] at h; subst h; exact ⟨Aligned.refl _, hw⟩
  | cons s rest ih =>
    obtain ⟨op, k⟩ := s
    intro ds ds' hw h
    simp only [runSeq] at h
    cases ha : apply ofBool op ds with
    | none => simp [ha] at h
    | some outs =>
      cases hk : outs[k]? with
      | none => simp [ha, hk] at h
      | some d =>
        simp [ha, hk] at h
        have hwd := apply_wf ofBool op ds hw outs ha d (List.mem_of_getElem? hk)
        obtain ⟨hal, hw'⟩ := ih d ds' hwd h
        exact ⟨Aligned.trans (apply_aligned ofBool op ds (rawOk_of_wf ofBool op ds hw outs ha) outs ha k d hk) hal, hw'⟩

/-- the example dataset of the history below is well-formed -/
example : WF (mkDS 2 1 true [[0, 1], [8, 9], [16, 17], [24, 25]] [[0], [1], [0], [2]] [1000, 1001, 1002, 1003] ["f0", "f1"] ["t0"]) :=
  ⟨⟨by decide, by decide, by decide⟩, Or.inr (by decide), Or.inr (by decide), Or.inr (by decide)⟩

/-- non-vacuity: a history of five operations on a weighted, named 4-sample dataset runs to the end -/
example :
    let ds : DS Nat Nat Nat := mkDS 2 1 true [[0, 1], [8, 9], [16, 17], [24, 25]] [[0], [1], [0], [2]] [1000, 1001, 1002, 1003] ["f0", "f1"] ["t0"]
    (runSeq (fun b => if b then 1 else 0)
      [(.splitView 3, 0), (.withLabels [0, 2], 0), (.shuffle [1, 0], 0), (.featureIter, 1), (.oneVsAll, 0)] ds).map
        (fun d => (d.recs, d.tgts)) = some ([[17], [1]], [[1], [1]]) := by
  decide

/-! ## selection laws -/

/-- **ratio split of a view**: the first `n1` samples and the rest, in order — for records,
targets and (when there is one weight per sample) weights alike; a weight vector of any other length
(`with_weights` checks nothing) is carried by neither part; names are kept -/
theorem split_take_drop [DecidableEq T] (n1 : Nat) (ds a b : DS R T W) (h : splitView n1 ds = some (a, b)) :
    n1 ≤ ds.n ∧
    a.recs = ds.recs.take n1 ∧ b.recs = ds.recs.drop n1 ∧
    a.tgts = ds.tgts.take n1 ∧ b.tgts = ds.tgts.drop n1 ∧
    (ds.weights.length = ds.n → a.weights = ds.weights.take n1 ∧ b.weights = ds.weights.drop n1) ∧
    (ds.weights.length ≠ ds.n → a.weights = [] ∧ b.weights = []) ∧
    a.recs ++ b.recs = ds.recs ∧ a.tgts ++ b.tgts = ds.tgts ∧
    a.fnames = ds.fnames ∧ b.fnames = ds.fnames ∧ a.tnames = ds.tnames ∧ b.tnames = ds.tnames := by
  unfold splitView at h
  split at h
  · simp at h
  · rename_i hn
    simp only [Option.some.injEq, Prod.mk.injEq] at h
    obtain ⟨ha, hb⟩ := h
    subst ha; subst hb
    refine ⟨by omega, rfl, rfl, rfl, rfl, ?_, ?_, by simp, by simp, rfl, rfl, rfl, rfl⟩
    · intro hw
      simp [hw]
    · intro hw
      simp [hw]

example : (splitView 2 (mkDS 1 1 true [[0], [8], [16]] [[5], [6], [7]] [1, 2, 3] [] [])).map
    (fun ab => (ab.1.recs, ab.1.weights, ab.2.tgts, ab.2.weights)) = some ([[0], [8]], [1, 2], [[7]], [3]) := by
  decide

/-- **ratio split of owned data** (raw buffers cut at `n1*p` resp. `n1*t`): on a rectangular
dataset the parts have `n1` and `n - n1` samples and row `k` of the first part is sample `k`,
row `k` of the second is sample `n1 + k` — records, targets and weights alike -/
theorem split_owned_take_drop (std : Bool) (n1 : Nat) (ds a b : DS R T W) (hs : Shaped ds)
    (h : splitOwned std n1 ds = some (a, b)) :
    a.recs.length = n1 ∧ b.recs.length = ds.n - n1 ∧ a.tgts.length = n1 ∧ b.tgts.length = ds.n - n1 ∧
    AlignedBy id id id id ds a ∧ AlignedBy (fun k => n1 + k) id id id ds b := by
  have hal := splitOwned_alignedBy hs.1 hs.2.1 hs.2.2 h
  unfold splitOwned at h
  split at h
  · simp at h
  split at h
  · simp at h
  · simp only [Option.some.injEq, Prod.mk.injEq] at h
    obtain ⟨ha, hb⟩ := h
    subst ha; subst hb
    exact ⟨by simp [reshape], by simp [reshape], by simp [reshape], by simp [reshape], hal.1, hal.2⟩

example :
    let r := splitOwned true 1 (mkDS 2 2 false [[0, 1], [8, 9], [16, 17]] [[5, 6], [7, 8], [9, 10]] [1, 2, 3] [] [])
    r.map (fun ab => (ab.1.recs, ab.1.tgts, ab.1.weights)) = some ([[0, 1]], [[5, 6]], [1]) ∧
    r.map (fun ab => (ab.2.recs, ab.2.tgts, ab.2.weights)) = some ([[8, 9], [16, 17]], [[7, 8], [9, 10]], [2, 3]) := by
  decide

/-- **shuffle returns a permutation of all samples** (given that the RNG's index vector is a
permutation of `0..n`, which is `SliceRandom::shuffle`'s contract), records and targets moved
by the *same* permutation (`shuffle_alignedBy`); names are kept -/
theorem shuffle_perm [DecidableEq T] (idx : List Nat) (ds d : DS R T W) (h : shuffle idx ds = some d)
    (hp : idx.Perm (List.range ds.n)) (hlen : ds.tgts.length = ds.recs.length) :
    d.recs.Perm ds.recs ∧ d.tgts.Perm ds.tgts ∧
    AlignedBy (fun k => idx.getD k 0) id id id ds d ∧ d.fnames = ds.fnames ∧ d.tnames = ds.tnames := by
  have hal := shuffle_alignedBy h
  unfold shuffle at h
  cases hr : selRows idx ds.recs with
  | none => simp [hr] at h
  | some r =>
    cases hg : selRows idx ds.tgts with
    | none => simp [hr, hg] at h
    | some g =>
      simp [hr, hg] at h; subst h
      refine ⟨?_, ?_, hal, rfl, rfl⟩
      · dsimp only
        rw [selRows_filterMap hr]
        have := hp.filterMap (ds.recs[·]?)
        rwa [show ds.n = ds.recs.length from rfl, range_filterMap_get] at this
      · dsimp only
        rw [selRows_filterMap hg]
        have := hp.filterMap (ds.tgts[·]?)
        rwa [show ds.n = ds.recs.length from rfl, ← hlen, range_filterMap_get] at this

example : (shuffle [2, 0, 1] (mkDS 1 1 true [[0], [8], [16]] [[5], [6], [7]] [] ["f0"] [])).map
    (fun d => (d.recs, d.tgts, d.fnames)) = some ([[16], [0], [8]], [[7], [5], [6]], ["f0"]) := by
  decide

/-- **bootstrap draws only existing samples**: every (record, target) pair of the result is the
(record, target) pair of one sample of the input, and there are as many as indices drawn -/
theorem bootstrap_mem [DecidableEq T] (ns : Nat) (idx : List Nat) (ds d : DS R T W)
    (h : bootstrapSamples ns idx ds = some d) :
    d.recs.length = idx.length ∧ d.tgts.length = idx.length ∧
    ∀ (k : Nat) (r : List R) (g : List T), d.recs[k]? = some r → d.tgts[k]? = some g →
      ∃ i, idx[k]? = some i ∧ ds.recs[i]? = some r ∧ ds.tgts[i]? = some g := by
  unfold bootstrapSamples at h
  split at h
  · simp at h
  · cases hr : selRows idx ds.recs with
    | none => simp [hr] at h
    | some r =>
      cases hg : selRows idx ds.tgts with
      | none => simp [hr, hg] at h
      | some g =>
        simp [hr, hg] at h; subst h
        refine ⟨selRows_length hr, selRows_length hg, ?_⟩
        intro k r' g' hk hk'
        obtain ⟨i, hi, hx⟩ := selRows_get hr k r' hk
        obtain ⟨i', hi', hx'⟩ := selRows_get hg k g' hk'
        rw [hi] at hi'
        cases hi'
        exact ⟨i, hi, hx, hx'⟩

/-- **bootstrap draws only existing features**: every cell of a result row is a cell of the same
sample, at the drawn column; the targets are untouched -/
theorem bootstrap_features_mem [DecidableEq T] (nf : Nat) (fidx : List Nat) (ds d : DS R T W)
    (h : bootstrapFeatures nf fidx ds = some d) :
    d.tgts = ds.tgts ∧ AlignedBy id (fun j => fidx.getD j 0) id id ds d := by
  refine ⟨?_, bootstrapFeatures_alignedBy h⟩
  unfold bootstrapFeatures at h
  split at h
  · simp at h
  · cases hr : selCols fidx ds.recs with
    | none => simp [hr] at h
    | some r => simp [hr] at h; subst h; rfl

example : (bootstrap 3 2 [2, 2, 0] [1, 1] (mkDS 2 1 true [[0, 1], [8, 9], [16, 17]] [[5], [6], [7]] [1, 2, 3] ["a", "b"] [])).map (fun d => (d.recs, d.tgts, d.weights, d.fnames)) =
    some ([[17, 17], [17, 17], [1, 1]], [[7], [7], [5]], [], []) := by
  decide

/-- the positions `with_labels` keeps: exactly those whose target row contains a listed label,
in increasing order -/
theorem keptIdx_spec [DecidableEq T] (labs : List T) (tgts : List (List T)) :
    (∀ i, i ∈ keptIdx labs tgts ↔ ∃ g, tgts[i]? = some g ∧ ∃ y ∈ g, y ∈ labs) ∧
    (keptIdx labs tgts).Pairwise (· < ·) := by
  constructor
  · intro i
    simp only [keptIdx, List.mem_filter, List.mem_range, List.any_eq_true, List.contains_iff_mem]
    constructor
    · rintro ⟨hi, y, hy, hl⟩
      refine ⟨tgts[i], by simp [hi], y, ?_, hl⟩
      simpa [List.getD, hi] using hy
    · rintro ⟨g, hg, y, hy, hl⟩
      obtain ⟨hi, e⟩ := List.getElem?_eq_some_iff.mp hg
      exact ⟨hi, y, by simpa [List.getD, hg] using hy, hl⟩
  · exact List.Pairwise.filter _ List.pairwise_lt_range

/-- **label filtering keeps exactly the samples carrying one of the listed labels** (positions
`keptIdx`, see `keptIdx_spec`), moves records, targets and weights by the same positions (a weighted
input gives a weighted result with one weight per kept sample; only an unweighted input gives an
unweighted result), keeps the names, and **reports the label counts of the kept targets** -/
theorem with_labels_filter [DecidableEq T] (labs : List T) (ds d : DS R T W) (h : withLabels labs ds = some d) :
    let kept := keptIdx labs (ds.tgts.take ds.n)
    d.recs = kept.filterMap (ds.recs[·]?) ∧ d.tgts = kept.filterMap (ds.tgts[·]?) ∧
    d.recs.length = kept.length ∧ d.tgts.length = kept.length ∧
    (ds.weights = [] → d.weights = []) ∧ (ds.weights ≠ [] → d.weights = kept.filterMap (ds.weights[·]?)) ∧
    (ds.weights ≠ [] → d.weights.length = kept.length) ∧
    d.counts = some (labelCount ds.t d.tgts) ∧ d.fnames = ds.fnames ∧ d.tnames = ds.tnames := by
  unfold withLabels at h
  simp only at h
  intro kept
  cases hr : selRows kept ds.recs with
  | none => simp [kept, hr] at h
  | some r =>
    cases hg : selRows kept ds.tgts with
    | none => simp [kept, hr, hg] at h
    | some g =>
      by_cases hw : ds.weights.isEmpty = true
      · simp [kept, hr, hg, hw] at h; subst h
        have he : ds.weights = [] := List.isEmpty_iff.mp hw
        exact ⟨selRows_filterMap hr, selRows_filterMap hg, selRows_length hr, selRows_length hg, fun _ => rfl,
          fun hne => absurd he hne, fun hne => absurd he hne, rfl, rfl, rfl⟩
      · cases hws : selRows kept ds.weights with
        | none => simp [kept, hr, hg, hw, hws] at h
        | some w =>
          simp [kept, hr, hg, hw, hws] at h; subst h
          exact ⟨selRows_filterMap hr, selRows_filterMap hg, selRows_length hr, selRows_length hg,
            fun he => absurd (List.isEmpty_iff.mpr he) hw, fun _ => selRows_filterMap hws, fun _ => selRows_length hws, rfl, rfl, rfl⟩

example :
    let r := withLabels [7, 9] (mkDS 1 2 false [[0], [8], [16], [24]] [[5, 7], [6, 6], [9, 5], [7, 7]] [1, 2, 3, 4] [] [])
    r.map (fun d => (d.recs, d.tgts)) = some ([[0], [16], [24]], [[5, 7], [9, 5], [7, 7]]) ∧
    r.map (·.weights) = some [1, 3, 4] ∧
    r.map (·.counts) = some (some [[(5, 1), (9, 1), (7, 1)], [(7, 2), (5, 1)]]) := by
  decide

/-- **one-vs-all yields one correctly labelled binary view per label of the dataset**: the labels
reported are `labelsOf ds` (the code's own scan of the targets, first appearance first), in that order, and the view for `l`
has `y_i = (t_i = l)` over the same records, weights and names, with freshly counted labels -/
theorem one_vs_all_labels [DecidableEq T] (ds : DS R T W) :
    (oneVsAll ds).map (·.1) = labelsOf ds ∧
    ∀ l d, (l, d) ∈ oneVsAll ds →
      d.tgts = ds.tgts.map (·.map fun x => decide (x = l)) ∧ d.recs = ds.recs ∧ d.weights = ds.weights ∧
      d.fnames = ds.fnames ∧ d.tnames = ds.tnames ∧ d.counts = some (labelCount ds.t d.tgts) := by
  constructor
  · simp [oneVsAll, List.map_map, Function.comp_def]
  · intro l d hd
    simp only [oneVsAll, List.mem_map] at hd
    obtain ⟨l', _, e⟩ := hd
    simp only [Prod.mk.injEq] at e
    obtain ⟨e1, e2⟩ := e
    subst e1; subst e2
    exact ⟨rfl, rfl, rfl, rfl, rfl, rfl⟩

example :
    let r := oneVsAll (mkDS 1 1 true [[0], [8], [16]] [[5], [6], [5]] [1, 2, 3] [] [])
    r.map (fun ld => (ld.1, ld.2.tgts)) = [(5, [[true], [false], [true]]), (6, [[false], [true], [false]])] ∧
    r.map (·.2.weights) = [[1, 2, 3], [1, 2, 3]] ∧
    r.map (·.2.counts) = [some [[(true, 2), (false, 1)]], some [[(false, 2), (true, 1)]]] := by
  decide

/-- **per-feature iteration**: view `j` holds record column `j` of every sample next to that
sample's targets and weight; if it carries a feature name it is the name of column `j` -/
theorem feature_iter_aligned (ds : DS R T W) (outs : List (DS R T W)) (h : featureIter ds = some outs) :
    outs.length = ds.p ∧ ∀ j d, outs[j]? = some d →
      AlignedBy id (fun _ => j) id id ds d ∧ d.tgts = ds.tgts ∧ d.weights = ds.weights := by
  refine ⟨by simpa using mapM_length h, fun j d hd => ⟨featureIter_alignedBy h j d hd, ?_⟩⟩
  obtain ⟨x, _, hf⟩ := mapM_get h j d hd
  cases hc : colOf x ds.recs with
  | none => simp [hc] at hf
  | some r =>
    by_cases h1 : ds.fnames.length = 1
    · cases hn : ds.fnames[x]? with
      | none => simp [hc, h1, hn] at hf
      | some nm0 => simp [hc, h1, hn] at hf; subst hf; exact ⟨rfl, rfl⟩
    · simp [hc, h1] at hf; subst hf; exact ⟨rfl, rfl⟩

/-- **per-target iteration**: view `c` holds target column `c` of every sample next to that
sample's record and weight; if it carries a target name it is the name of column `c` -/
theorem target_iter_aligned (ds : DS R T W) (outs : List (DS R T W)) (h : targetIter ds = some outs) :
    outs.length = ds.t ∧ ∀ c d, outs[c]? = some d →
      AlignedBy id id (fun _ => c) id ds d ∧ d.recs = ds.recs ∧ d.weights = ds.weights := by
  refine ⟨by simpa using mapM_length h, fun c d hd => ⟨targetIter_alignedBy h c d hd, ?_⟩⟩
  obtain ⟨x, _, hf⟩ := mapM_get h c d hd
  cases hc : colOf x ds.tgts with
  | none => simp [hc] at hf
  | some g =>
    by_cases h1 : ds.tnames.isEmpty = true
    · simp [hc, h1] at hf; subst hf; exact ⟨rfl, rfl⟩
    · cases hn : ds.tnames[x]? with
      | none => simp [hc, h1, hn] at hf
      | some nm0 => simp [hc, h1, hn] at hf; subst hf; exact ⟨rfl, rfl⟩

example :
    let r := targetIter (mkDS 1 2 false [[0], [8]] [[5, 7], [6, 9]] [1, 2] ["f0"] ["a", "b"])
    r.map (·.map fun d => (d.recs, d.tgts)) = some [([[0], [8]], [[5], [6]]), ([[0], [8]], [[7], [9]])] ∧
    r.map (·.map fun d => (d.weights, d.tnames)) = some [([1, 2], ["a"]), ([1, 2], ["b"])] := by
  decide

/-- **chunking**: chunk `i` is samples `[i*size, (i+1)*size)`, records and targets cut alike (row `k` of
chunk `i` is sample `i*size + k`); a chunk carries neither weights nor names -/
theorem sample_chunks_blocks [DecidableEq T] (size : Nat) (ds : DS R T W) (outs : List (DS R T W))
    (h : sampleChunks size ds = some outs) :
    0 < size ∧ outs.length = ds.n / size ∧ ∀ i d, outs[i]? = some d →
      d.recs = (ds.recs.drop (i * size)).take size ∧ d.tgts = (ds.tgts.drop (i * size)).take size ∧
      d.weights = [] ∧ d.fnames = [] ∧ d.tnames = [] ∧ AlignedBy (fun k => i * size + k) id id id ds d := by
  have hal := sampleChunks_alignedBy h
  unfold sampleChunks at h
  split at h
  · simp at h
  · rename_i hs
    simp only [Option.some.injEq] at h
    subst h
    refine ⟨by omega, by simp, ?_⟩
    intro i d hd
    simp only [List.getElem?_map, Option.map_eq_some_iff] at hd
    obtain ⟨x, hx, e⟩ := hd
    obtain ⟨hxi, _⟩ := range_get hx
    have ha := hal i d (by simpa [List.getElem?_map] using ⟨x, hx, e⟩)
    subst hxi; subst e
    exact ⟨rfl, rfl, rfl, rfl, rfl, ha⟩

/-- **target mapping, views, `to_owned`** change no sample: same records in the same order,
targets mapped cell by cell (resp. unchanged) -/
theorem map_view_owned [DecidableEq T] (f : T → T) (ds : DS R T W) :
    (mapTargets f ds).recs = ds.recs ∧ (mapTargets f ds).tgts = ds.tgts.map (·.map f) ∧
    (mapTargets f ds).weights = ds.weights ∧ (mapTargets f ds).fnames = ds.fnames ∧
    (mapTargets f ds).tnames = ds.tnames ∧
    (view ds).recs = ds.recs ∧ (view ds).tgts = ds.tgts ∧ (view ds).weights = ds.weights ∧
    (toOwned ds).recs = ds.recs ∧ (toOwned ds).tgts = ds.tgts :=
  ⟨rfl, rfl, rfl, rfl, rfl, rfl, rfl, rfl, rfl, rfl⟩

/-- **conversion to a single target** of `[n, 1]` targets keeps every sample's label next to its record -/
theorem into_single_target_same (ds d : DS R T W) (ht : ∀ g ∈ ds.tgts, g.length = 1)
    (h : intoSingleTarget ds = some d) : d.recs = ds.recs ∧ d.tgts = ds.tgts ∧ d.ix1 = true := by
  unfold intoSingleTarget at h
  simp only at h
  split at h
  · simp only [Option.some.injEq] at h
    subst h
    exact ⟨rfl, flatten_singletons ds.tgts ht, rfl⟩
  · simp at h

/-- a cached label count produced by any operation is a recount of the targets it wraps
(`recount`), never a stale copy -/
theorem counts_are_recounts [DecidableEq T] (idx : List Nat) (ds d : DS R T W) (h : shuffle idx ds = some d) :
    d.counts = recount ds.counted ds.t d.tgts := by
  unfold shuffle at h
  cases hr : selRows idx ds.recs with
  | none => simp [hr] at h
  | some r =>
    cases hg : selRows idx ds.tgts with
    | none => simp [hr, hg] at h
    | some g => simp [hr, hg] at h; subst h; rfl

/-! ## cached label counts, the label set, per-sample iteration, weights of masked frequencies,
totality inside the guard -/

/-- **a cached label count is never stale**: whatever dataset any of the operations returns, its
cached counts (if it has any) are the counts of the targets it wraps — for every operation, not
only `shuffle` (`counts_are_recounts`) -/
theorem apply_counts_fresh [DecidableEq T] (ofBool : Bool → T) (op : Op T) (ds : DS R T W)
    (outs : List (DS R T W)) (h : apply ofBool op ds = some outs) : ∀ d ∈ outs, CountsOk d :=
  apply_counts_fresh_aux ofBool op ds outs h

/-- along every history the cached counts stay fresh -/
theorem history_counts_fresh [DecidableEq T] (ofBool : Bool → T) (ops : List (Op T × Nat)) :
    ∀ (ds ds' : DS R T W), CountsOk ds → runSeq ofBool ops ds = some ds' → CountsOk ds' := by
  induction ops with
  | nil => intro ds ds' hc h; simp [runSeq] at h; subst h; exact hc
  | cons s rest ih =>
    obtain ⟨op, k⟩ := s
    intro ds ds' _ h
    simp only [runSeq] at h
    cases ha : apply ofBool op ds with
    | none => simp [ha] at h
    | some outs =>
      cases hk : outs[k]? with
      | none => simp [ha, hk] at h
      | some d =>
        simp [ha, hk] at h
        exact ih d ds' (apply_counts_fresh ofBool op ds outs ha d (List.mem_of_getElem? hk)) h

/-- **the reported label counts are counts**: the keys of a column's label map are exactly the
labels occurring in the column, each once, and the number stored with a label is the (positive)
number of its occurrences -/
theorem label_counts_count [DecidableEq T] (col : List T) :
    ((countCol col).map (·.1)).Nodup ∧ (∀ y, y ∈ (countCol col).map (·.1) ↔ y ∈ col) ∧
    ∀ y c, (y, c) ∈ countCol col → c = col.count y ∧ 0 < c :=
  countCol_spec col

example : countCol [5, 7, 5, 5, 9] = [(5, 3), (7, 1), (9, 1)] := by decide

/-- **one view per distinct label**: `one_vs_all` reports every label occurring in the targets, each
exactly once, and no other — unconditionally: since repo commit 95005d8 the code scans the targets
itself (`labelsOf`) instead of reading the cached label counts, and so does the model -/
theorem one_vs_all_distinct [DecidableEq T] (ds : DS R T W) :
    ((oneVsAll ds).map (·.1)).Nodup ∧ ∀ l, l ∈ (oneVsAll ds).map (·.1) ↔ ∃ g ∈ ds.tgts, l ∈ g := by
  rw [(one_vs_all_labels ds).1]
  exact labelsOf_spec ds

/-- a stale cache changes nothing: the views of a dataset whose cached counts are wrong are those of
the same dataset with no cache at all -/
theorem one_vs_all_ignores_cache [DecidableEq T] (ds : DS R T W) (c : Option (List (List (T × Nat)))) :
    oneVsAll { ds with counts := c } = oneVsAll ds := rfl

example :
    let ds : DS Nat Nat Nat := { mkDS 1 1 true [[0], [8], [16], [24]] [[5], [6], [5], [2]] [] [] [] with counts := some [[(9, 4)]] }
    (oneVsAll ds).map (·.1) = [5, 6, 2] := by decide

/-- **per-sample iteration** yields, for a dataset with one target row per record, exactly `n`
pairs, the `k`-th being the record and the target row of sample `k` -/
theorem sample_iter_pairs (ds : DS R T W) (h3 : ds.tgts.length = ds.recs.length) :
    ∃ prs, sampleIter ds = some prs ∧ prs.length = ds.n ∧
      ∀ (k : Nat) (r : List R) (g : List T), prs[k]? = some (r, g) → ds.recs[k]? = some r ∧ ds.tgts[k]? = some g := by
  have ht := sampleIter_total h3
  cases h : sampleIter ds with
  | none => simp [h] at ht
  | some prs => exact ⟨prs, rfl, sampleIter_pairs h⟩

example : sampleIter (mkDS 2 1 true [[0, 1], [8, 9]] [[5], [6]] [] [] []) = some [([0, 1], [5]), ([8, 9], [6])] := by
  decide

/-- **`weight_for(i)`** is the weight stored at position `i`, the default where none is stored -/
theorem weight_for_own (one : W) (ds : DS R T W) (i : Nat) :
    (∀ w, ds.weights[i]? = some w → weightFor one ds i = w) ∧ (ds.weights[i]? = none → weightFor one ds i = one) := by
  constructor
  · intro w h; simp [weightFor, h]
  · intro h; simp [weightFor, h]

/-- **masked label frequencies use each kept sample's own weight**: `label_frequencies_with_mask(mask)`
equals `label_frequencies()` of the dataset restricted to the positions passing the mask, targets and
weights selected by the *same* positions (`g'`, `w'` are those selections; without weights every
sample counts `one`) -/
theorem label_freq_mask_is_filter [DecidableEq T] [Add W] (zero one : W) (mask : List Bool) (ds : DS R T W)
    (g' : List (List T)) (w' : List W)
    (hg : selRows ((List.range ds.tgts.length).filter fun i => mask.getD i true) ds.tgts = some g')
    (hw : (ds.weights = [] ∧ w' = []) ∨
      selRows ((List.range ds.tgts.length).filter fun i => mask.getD i true) ds.weights = some w') :
    labelFreqsWithMask zero one mask ds = labelFreqsWithMask zero one [] { ds with tgts := g', weights := w' } := by
  unfold labelFreqsWithMask
  rw [maskedRows_restrict one mask ds g' w' hg hw]

example :
    let ds := mkDS 1 1 true [[0], [8], [16], [24]] [[5], [6], [5], [6]] [1000, 1001, 1002, 1003] [] []
    selRows ((List.range ds.tgts.length).filter fun i => [true, false, true, true].getD i true) ds.tgts = some [[5], [5], [6]] ∧
    selRows ((List.range ds.tgts.length).filter fun i => [true, false, true, true].getD i true) ds.weights = some [1000, 1002, 1003] ∧
    labelFreqsWithMask 0 1 [true, false, true, true] ds = [(5, 2002), (6, 1003)] := by
  decide

/-- **inside the guard no operation panics**: on a dataset the constructors can build (`WF`), every
operation whose guard holds (`Guard`: split point within the data, row-major layout and plain targets
for the owned split, index vectors in range and a non-empty source for shuffle / bootstrap, `[n, 1]`
targets for `into_single_target`, chunk size > 0; none for the others) returns a result -/
theorem apply_total [DecidableEq T] (ofBool : Bool → T) (op : Op T) (ds : DS R T W) (hw : WF ds)
    (hg : Guard op ds) : (apply ofBool op ds).isSome :=
  apply_total_aux ofBool op ds hw hg

example :
    let ds := mkDS 2 1 true [[0, 1], [8, 9], [16, 17]] [[0], [1], [0]] [1000, 1001, 1002] ["f0", "f1"] ["t0"]
    WF ds ∧ Guard (.bootstrap 2 1 [2, 0] [1]) ds ∧ Guard (.splitOwned true 2) ds ∧ Guard (.sampleChunks 2) ds :=
  ⟨⟨⟨by decide, by decide, by decide⟩, Or.inr (by decide), Or.inr (by decide), Or.inr (by decide)⟩,
   ⟨Or.inr (by decide), Or.inr (by decide), by simp [InRange, mkDS, DS.n], by simp [InRange, mkDS]⟩, ⟨rfl, rfl, by decide⟩,
   by simp [Guard]⟩

/-! ## round 3: the guard the driver evaluates, histories as the driver runs them, named witnesses -/

/-- **the driver's guard is the theorems' guard**: `guardB` (Model/Dataset.lean, evaluated by the
driver before every operation) decides `Guard` (the hypothesis of `apply_total`) -/
theorem guardB_iff (op : Op T) (ds : DS R T W) : guardB op ds = true ↔ Guard op ds := by
  cases op <;>
    simp [guardB, Guard, inRangeB, InRange, and_assoc]

example :
    let ds := mkDS 2 1 true [[0, 1], [8, 9], [16, 17]] [[0], [1], [0]] [1000, 1001, 1002] ["f0", "f1"] ["t0"]
    guardB (.bootstrap 2 1 [2, 0] [1]) ds = true ∧ guardB (.bootstrap 2 1 [3, 0] [1]) ds = false ∧
    guardB (.splitOwned true 4) ds = false ∧ guardB (.withLabels [1]) { ds with weights := [1000] } = false := by
  decide

/-- inside the guard the driver's `apply` returns (the form of `apply_total` the driver relies on) -/
theorem apply_total_guardB [DecidableEq T] (ofBool : Bool → T) (op : Op T) (ds : DS R T W) (hw : WF ds)
    (hg : guardB op ds = true) : (apply ofBool op ds).isSome :=
  apply_total ofBool op ds hw ((guardB_iff op ds).mp hg)

/-- **the driver's history is `runSeq`**: `runTrace` — the recursion the driver checks its own loop
against on every request, keeping the datasets of every step — ends where `runSeq` ends, so
`aligned_history` / `history_counts_fresh` speak about the datasets the correspondence compares -/
theorem runTrace_final [DecidableEq T] (ofBool : Bool → T) (ops : List (Op T × Nat)) :
    ∀ ds : DS R T W, (runTrace ofBool ops ds).2 = runSeq ofBool ops ds := by
  induction ops with
  | nil => intro ds; rfl
  | cons s rest ih =>
    obtain ⟨op, k⟩ := s
    intro ds
    simp only [runTrace, runSeq]
    cases ha : apply ofBool op ds with
    | none => rfl
    | some outs =>
      simp only []
      cases hk : outs[k]? with
      | none => rfl
      | some d => simp only [ih d]

/-- every step of the trace is what `apply` returned on the dataset picked before it -/
theorem runTrace_head [DecidableEq T] (ofBool : Bool → T) (op : Op T) (k : Nat) (rest : List (Op T × Nat))
    (ds : DS R T W) (outs : List (DS R T W)) (d : DS R T W) (ha : apply ofBool op ds = some outs) (hk : outs[k]? = some d) :
    runTrace ofBool ((op, k) :: rest) ds = (outs :: (runTrace ofBool rest d).1, (runTrace ofBool rest d).2) := by
  simp [runTrace, ha, hk]

example :
    let ds : DS Nat Nat Nat := mkDS 2 1 true [[0, 1], [8, 9], [16, 17], [24, 25]] [[0], [1], [0], [2]] [1000, 1001, 1002, 1003] ["f0", "f1"] ["t0"]
    ((runTrace (fun b => if b then 1 else 0) [(.splitView 3, 0), (.withLabels [0, 2], 0), (.oneVsAll, 0)] ds).1.map (·.length)) = [2, 1, 1] := by
  decide

/-- **the combined bootstrap names its witness**: row `k` of `bootstrap((ns, nf))` is sample `idx[k]`,
record column `j` is column `fidx[j]` (the RNG's draws), targets untouched per row -/
theorem bootstrap_both_mem [DecidableEq T] (ns nf : Nat) (idx fidx : List Nat) (ds d : DS R T W)
    (h : bootstrap ns nf idx fidx ds = some d) :
    AlignedBy (fun k => idx.getD k 0) (fun j => fidx.getD j 0) id id ds d ∧
    d.recs.length = idx.length ∧ d.tgts.length = idx.length ∧ d.p = fidx.length := by
  unfold bootstrap at h
  cases hs : bootstrapSamples ns idx ds with
  | none => simp [hs] at h
  | some d1 =>
    simp only [hs] at h
    have hm := bootstrap_mem ns idx ds d1 hs
    refine ⟨(bootstrapSamples_alignedBy hs).trans (bootstrapFeatures_alignedBy h), ?_⟩
    unfold bootstrapFeatures at h
    split at h
    · simp at h
    · cases hr : selCols fidx d1.recs with
      | none => simp [hr] at h
      | some r =>
        simp [hr] at h; subst h
        exact ⟨by rw [← hm.1]; exact mapM_length hr, hm.2.1, rfl⟩

/-- **owned split of a dataset whose weight vector is not one per sample** (`with_weights` checks
nothing): the first part keeps the whole vector, the second carries none — as the code does; both
parts are still aligned (`split_owned_take_drop`: weight `k` of the first part is weight `k` of the input) -/
theorem split_owned_weights_mismatch (std : Bool) (n1 : Nat) (ds a b : DS R T W)
    (h : splitOwned std n1 ds = some (a, b)) (hw : ds.weights.length ≠ ds.n) :
    a.weights = ds.weights ∧ b.weights = [] := by
  unfold splitOwned at h
  split at h
  · simp at h
  split at h
  · simp at h
  · rename_i hn
    simp only [Option.some.injEq, Prod.mk.injEq] at h
    obtain ⟨ha, hb⟩ := h
    have : ¬ ds.weights.length = n1 + (ds.n - n1) := by omega
    subst ha; subst hb
    simp [this]

example : (splitOwned true 1 (mkDS 1 1 true [[0], [8]] [[5], [6]] [1, 2, 3] [] [])).map
    (fun ab => (ab.1.weights, ab.2.weights)) = some ([1, 2, 3], []) := by decide

end LinfaSpec.Props.C02
