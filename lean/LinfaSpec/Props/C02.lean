import LinfaSpec.Model.Dataset

/-!
# C02 — dataset operations keep record, target and weight of a sample together
-/
namespace LinfaSpec.Props.C02
open LinfaSpec.Dataset

/-- `map_targets` touches nothing but the labels -/
theorem mapTargets_recs {R T S W} (f : T → S) (ds : DS R T W) :
    (mapTargets f ds).recs = ds.recs ∧ (mapTargets f ds).weights = ds.weights := ⟨rfl, rfl⟩

end LinfaSpec.Props.C02
