import LinfaSpec.Gen.Vectors
import LinfaSpec.Model.LeastSquares
import LinfaSpec.Proofs.LeastSquares
import Mathlib.Tactic.NormNum

/-!
# C11 — obligations about the elastic-net duality gap GENERATED from the Rust source

`LinfaSpec.Gen.Vectors.Enet` is regenerated from `algorithms/linfa-elasticnet/src/algorithm.rs`
(`duality_gap`, `duality_gap_mtl`, `block_soft_thresholding`) on every check by `tools/vec2lean.py`; the design
matrix `x` is read as the list of its columns, `x.t().dot(&r)` as the list of the column dot
products.  The theorems state that the generated text is the model's `dualityGap` / `blockSoft` —
the functions the weak-duality certificate theorems of C11 are about.
-/
set_option linter.unusedSectionVars false
namespace LinfaSpec.Props.GenC11
open LinfaSpec LinfaSpec.LeastSquares LinfaSpec.Gen.Vectors

section field
variable {α : Type} [Field α] [LinearOrder α] [IsStrictOrderedRing α] [Transc α]

/-- `duality_gap` in the source is the model's `dualityGap` (for either memory layout of the
columns: over a field the unrolled and the sequential dot product are the same number), with
`n = F::cast(x.nrows())` -/
theorem duality_gap_is_model (contig : Bool) (n : Nat) (C : List (List α)) (y w r : List α) (l1r pen : α) :
    Enet.duality_gap n C y w r l1r pen = dualityGap contig C y w r l1r pen (n : α) := by
  have hh : ((0.5 : α)) = half := by rw [half_eq]; norm_num
  unfold Enet.duality_gap dualityGap
  simp only [hh, dotC_eq, dotU_eq, dotS_eq, normMax, normL1, List.zipWith_map_left, List.zipWith_map_right,
    decide_eq_true_eq]

/-- `block_soft_thresholding` in the source is the model's `blockSoft` -/
theorem block_soft_thresholding_is_model (x : List α) (thr : α) :
    Enet.block_soft_thresholding x thr = blockSoft x thr := by
  unfold Enet.block_soft_thresholding blockSoft norm2U
  simp only [dotU_eq, dotS_eq, decide_eq_true_eq]


/-- `.diag()` of the product `AᵀB` written column by column is the list of the column dot products -/
theorem vdiag_outer {β : Type} (f : β → β → α) (xs ys : List β) (h : xs.length = ys.length) :
    vdiag (xs.map fun a => ys.map fun b => f a b) = List.zipWith f xs ys := by
  apply List.ext_getElem
  · simp [vdiag, h]
  · intro i h1 h2
    simp only [vdiag, List.length_map, List.getElem_map, List.getElem_range, List.getElem_zipWith]
    have hx : i < xs.length := by simpa [vdiag] using h1
    have hy : i < ys.length := h ▸ hx
    simp [List.getD_eq_getElem?_getD, List.getElem?_map, List.getElem?_eq_getElem hx, List.getElem?_eq_getElem hy]

/-- `duality_gap_mtl` in the source is the model's `dualityGapMtl` (the function
`gap_bounds_suboptimality_mtl` is about), with `t` the number of tasks and `n = F::cast(x.nrows())` -/
theorem duality_gap_mtl_is_model (t n : Nat) (C : List (List α)) (Y W R : List (List α)) (l1r pen : α) :
    Enet.duality_gap_mtl t n C Y W R l1r pen = dualityGapMtl t C Y W R l1r pen (n : α) := by
  have hh : ((0.5 : α)) = half := by rw [half_eq]; norm_num
  have hv : ∀ (M : List (List α)), vcols t M = colsOf t M := fun _ => rfl
  have hlen : (colsOf t R).length = (colsOf t Y).length := by simp [colsOf]
  have hn2 : (fun (x : List α) => Transc.sqrt (dotS x x)) = norm2U := by
    funext x; simp [norm2U, dotU_eq, dotS_eq]
  unfold Enet.duality_gap_mtl dualityGapMtl dualNormMtl
  simp only [hh, hv, hn2, vdiag_outer _ _ _ hlen, sumU_eq, sumS_eq, normMax, List.zipWith_map_left,
    List.zipWith_map_right, decide_eq_true_eq]

end field

end LinfaSpec.Props.GenC11
