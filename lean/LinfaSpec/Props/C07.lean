import LinfaSpec.Model.NN

/-!
# C07 — nearest-neighbour indices return the true neighbours and are interchangeable
-/
namespace LinfaSpec.Props.C07
open LinfaSpec.NN

/-- **errors**: a zero leaf size or a zero dimension is a build error for every kind. -/
theorem build_errors (ncols leaf : Nat) :
    (buildCheck ncols leaf = .ok ()) ↔ (0 < leaf ∧ 0 < ncols) := by
  unfold buildCheck
  by_cases h1 : leaf = 0 <;> by_cases h2 : ncols = 0 <;> simp [h1, h2] <;> omega

end LinfaSpec.Props.C07
