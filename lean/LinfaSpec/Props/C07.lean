import LinfaSpec.Proofs.NN
import LinfaSpec.Proofs.NNMetrics
import LinfaSpec.Proofs.NNBridge
import LinfaSpec.Drv.C07
import Mathlib.Analysis.SpecialFunctions.Log.Basic
import Mathlib.Algebra.Order.Field.Rat
import Mathlib.Algebra.Order.Group.Abs
import Mathlib.Algebra.Order.Ring.Abs
import Mathlib.Tactic.Ring

/-!
# C07 — nearest-neighbour indices return the true neighbours and are interchangeable

Theorems about `LinfaSpec.NN` (the model of `linfa-nn`), for an arbitrary point type `P`, every
point set, query, `k`, radius, leaf size, every split function satisfying the contract of
`partition` (`SplitPerm`: the two halves together are the input) and every distance that is
`Lawful` (non-negative, triangle inequality, `rdistance = dist_to_rdist ∘ distance` with
`dist_to_rdist` strictly increasing on `[0,∞)` and `rdist_to_dist` its inverse) — the facts the
pruning of the ball tree relies on.  Arithmetic is exact (ordered field); floating-point rounding
of the pruning bound is covered by the correspondence run only.
-/
namespace LinfaSpec.Props.C07
open LinfaSpec.NN
set_option linter.unusedSectionVars false

section
variable {P α : Type} [Field α] [LinearOrder α] [IsStrictOrderedRing α]

/-- **the statement's k-nearest clause**: `out` consists of `min k n` stored points (a sub-multiset
of the batch: coordinates and row position travel together), in ascending distance, and every
stored point left out is at least as far as every returned one (ties arbitrary). -/
def KNearest (m : Metric P α) (q : P) (pts out : List (Pt P)) (k : Nat) : Prop :=
  ∃ rest, (out ++ rest).Perm pts ∧ out.length = min k pts.length ∧
    out.Pairwise (fun a b => m.rdist q a.1 ≤ m.rdist q b.1) ∧
    ∀ y ∈ out, ∀ x ∈ rest, m.rdist q y.1 ≤ m.rdist q x.1

theorem kNearest_of_isKnn (m : Metric P α) (q : P) (pts : List (Pt P)) (T : List (α × Pt P)) (k : Nat)
    (h : IsKnn (pts.map (tag m q)) T k) : KNearest m q pts (T.map (·.2)) k := by
  obtain ⟨rest, hp, hl, ha, hm⟩ := h
  have htag : ∀ e ∈ T ++ rest, e.1 = m.rdist q e.2.1 := by
    intro e he
    obtain ⟨p, _, rfl⟩ := List.mem_map.mp (hp.subset he)
    rfl
  refine ⟨rest.map (·.2), ?_, ?_, ?_, ?_⟩
  · have := hp.map (·.2)
    simpa [tag, Function.comp_def] using this
  · simpa using hl
  · rw [List.pairwise_map]
    refine List.Pairwise.imp_of_mem ?_ ha
    intro a b ha' hb' hab
    rw [← htag a (List.mem_append_left _ ha'), ← htag b (List.mem_append_left _ hb')]
    exact hab
  · intro y hy x hx
    obtain ⟨y', hy', rfl⟩ := List.mem_map.mp hy
    obtain ⟨x', hx', rfl⟩ := List.mem_map.mp hx
    rw [← htag y' (List.mem_append_left _ hy'), ← htag x' (List.mem_append_right _ hx')]
    exact hm y' hy' x' hx'

/-- **ties may be broken arbitrarily, the distances may not**: two k-nearest answers to the same
query have the same distance sequence. -/
theorem kNearest_dists_unique (m : Metric P α) (q : P) (pts o1 o2 : List (Pt P)) (k : Nat)
    (h1 : KNearest m q pts o1 k) (h2 : KNearest m q pts o2 k) :
    o1.map (fun p => m.rdist q p.1) = o2.map (fun p => m.rdist q p.1) := by
  obtain ⟨r1, p1, l1, a1, m1⟩ := h1
  obtain ⟨r2, p2, l2, a2, m2⟩ := h2
  refine smallest_unique (E := pts.map fun p => m.rdist q p.1)
    (r1 := r1.map fun p => m.rdist q p.1) (r2 := r2.map fun p => m.rdist q p.1) ?_ ?_ ?_ ?_ ?_ ?_ ?_
  · simpa using p1.map fun p => m.rdist q p.1
  · simpa using p2.map fun p => m.rdist q p.1
  · exact List.pairwise_map.mpr a1
  · exact List.pairwise_map.mpr a2
  · simp [l1, l2]
  · intro y hy x hx
    obtain ⟨y', hy', rfl⟩ := List.mem_map.mp hy
    obtain ⟨x', hx', rfl⟩ := List.mem_map.mp hx
    exact m1 y' hy' x' hx'
  · intro y hy x hx
    obtain ⟨y', hy', rfl⟩ := List.mem_map.mp hy
    obtain ⟨x', hx', rfl⟩ := List.mem_map.mp hx
    exact m2 y' hy' x' hx'

/-! ### linear scan -/

/-- **linear_knn_correct**: for every point set, query and `k` (including `0` and `k > n`). -/
theorem linear_knn_correct (m : Metric P α) (q : P) (k : Nat) (pts : List (Pt P)) :
    KNearest m q pts (linearKnn m q k pts) k :=
  kNearest_of_isKnn m q pts _ k (linearKnnTagged_isKnn m q k pts)

/-- **linear_range_correct**: exactly the stored points strictly inside the radius, in batch order. -/
theorem linear_range_correct (m : Metric P α) (q : P) (r : α) (pts : List (Pt P)) (p : Pt P) :
    p ∈ linearRange m q r pts ↔ p ∈ pts ∧ m.rdist q p.1 < m.toR r := by
  simp [linearRange]

/-- the reduced comparison the code makes is the comparison of the statement: strictly inside -/
theorem range_iff_dist {m : Metric P α} (h : Lawful m) (q x : P) {r : α} (hr : 0 ≤ r) :
    m.rdist q x < m.toR r ↔ m.dist q x < r := by
  rw [h.rdist_eq]
  constructor
  · intro hlt
    by_contra hge
    exact absurd (h.toR_mono hr (not_lt.mp hge)) (not_le.mpr hlt)
  · exact h.toR_strictMono _ _ (h.dist_nonneg _ _)

/-! ### ball tree -/

/-- **ball_inv**: the state invariant — in every tree `BallTreeInner::new` builds, every point of
a subtree lies within `radius` of `center`. -/
theorem ball_inv {m : Metric P α} (h : Lawful m) (mean : List P → P)
    (split : List (Pt P) → Option (List (Pt P) × P × List (Pt P))) (hs : SplitPerm split)
    (leafSize fuel : Nat) (pts : List (Pt P)) (hnd : (pts.map (·.2)).Nodup) :
    BallInv m (build m mean split leafSize fuel pts) :=
  build_inv h hs leafSize fuel pts hnd

/-- the tree stores exactly the batch -/
theorem build_stores_batch {m : Metric P α} (mean : List P → P)
    (split : List (Pt P) → Option (List (Pt P) × P × List (Pt P))) (hs : SplitPerm split)
    (leafSize fuel : Nat) (pts : List (Pt P)) (hnd : (pts.map (·.2)).Nodup) :
    (build m mean split leafSize fuel pts).points.Perm pts :=
  build_perm hs leafSize fuel pts hnd

/-- **bound_sound**: the pruning bound never exceeds the reduced distance to a point of the ball. -/
theorem bound_sound {m : Metric P α} (h : Lawful m) (q : P) (node : Ball P α) (hn : BallInv m node)
    (x : Pt P) (hx : x ∈ node.points) : lower m q node ≤ m.rdist q x.1 :=
  lower_le h q hn x hx

theorem isKnn_perm {β : Type} {E E' out : List (α × β)} {k : Nat} (h : IsKnn E out k) (hp : E.Perm E') :
    IsKnn E' out k := by
  obtain ⟨rest, p, l, a, mm⟩ := h
  exact ⟨rest, p.trans hp, by rw [l, hp.length_eq], a, mm⟩

/-- the search loop of `nn_helper` on any tree satisfying the invariant: the `k` nearest eligible
points (`R = none`: all points; `R = some t`: reduced distance `< t`) -/
theorem search_isKnn {m : Metric P α} (h : Lawful m) (q : P) {k : Nat} (hk : 0 < k) (R : Option α)
    (tree : Ball P α) (ht : BallInv m tree) :
    IsKnn (Elig m q R tree.points) (searchTagged m tree q k R) k := by
  unfold searchTagged
  have hK : KInv (P := P) (α := α) k [] [] := ⟨by simp [Asc], by simp, by simp⟩
  have hQ : QInv m q [(lower m q tree, tree)] :=
    ⟨by simp [Asc], by simpa using ht, by simpa using lower_le h q ht⟩
  obtain ⟨rest, hp, hi⟩ := searchLoop_spec h q hk R tree.nodes _ [] [] hK hQ (by simp [qnodes])
  have hq : qpts [(lower m q tree, tree)] = tree.points := by simp [qpts]
  rw [hq] at hp
  refine ⟨rest, by simpa using hp, ?_, hi.asc, hi.le⟩
  have := hi.len
  have hl := hp.length_eq
  simp only [List.length_append, List.nil_append] at hl this
  omega

theorem elig_none (m : Metric P α) (q : P) (pts : List (Pt P)) :
    Elig m q none pts = pts.map (tag m q) := by
  simp [Elig, ltR]

theorem elig_some_snd (m : Metric P α) (q : P) (t : α) (pts : List (Pt P)) :
    (Elig m q (some t) pts).map (·.2) = pts.filter fun p => m.rdist q p.1 < t := by
  induction pts with
  | nil => simp [Elig]
  | cons p ps ih =>
    simp only [Elig, List.map_cons, List.filter_cons, tag, ltR] at ih ⊢
    by_cases hlt : m.rdist q p.1 < t <;> simp [hlt, ih]

theorem nnHelper_ok (m : Metric P α) (ix : BallIndex P α) (qdim n : Nat) (q : P) (k : Nat)
    (R : Option α) (hd : ix.dim = qdim) (hl : ix.len = n) :
    nnHelper m ix qdim q k R =
      .ok (if n = 0 ∨ k = 0 then [] else (searchTagged m ix.tree q k R).map (·.2)) := by
  subst hl
  unfold nnHelper
  simp only [hd, ne_eq, not_true_eq_false, if_false]
  split <;> rfl

/-- **search_knn_correct**: `BallTreeIndex::k_nearest` (build + `nn_helper`, `max_radius = ∞`)
returns the `k` nearest stored points, for every batch, leaf size, split, query and `k ≥ 0`
(`k = 0` is the repaired guard). -/
theorem search_knn_correct {m : Metric P α} (h : Lawful m) (mean : List P → P)
    (split : List (Pt P) → Option (List (Pt P) × P × List (Pt P))) (hs : SplitPerm split)
    (leafSize ncols : Nat) (rows : List P) (q : P) (k : Nat) :
    ∃ out, ballKnnQ m (ballIndex m mean split leafSize ncols rows) ncols q k = .ok out ∧
      KNearest m q (enumerate rows) out k := by
  unfold ballKnnQ
  refine ⟨_, nnHelper_ok m _ ncols rows.length q k none rfl rfl, ?_⟩
  by_cases h0 : rows.length = 0 ∨ k = 0
  · rw [if_pos h0]
    refine ⟨enumerate rows, by simp, ?_, by simp, by simp⟩
    rcases h0 with h0 | h0
    · simp [enumerate, h0]
    · simp [h0]
  · rw [if_neg h0]
    have hk : 0 < k := by omega
    have ht : BallInv m (ballIndex m mean split leafSize ncols rows).tree :=
      build_inv h (mean := mean) hs leafSize rows.length (enumerate rows) (enumerate_nodup rows)
    have hp : (ballIndex m mean split leafSize ncols rows).tree.points.Perm (enumerate rows) :=
      build_perm (m := m) (mean := mean) hs leafSize rows.length (enumerate rows) (enumerate_nodup rows)
    have := isKnn_perm (search_isKnn h q hk none _ ht) (Elig_perm m q none hp)
    rw [elig_none] at this
    exact kNearest_of_isKnn m q _ _ k this

/-- **search_range_correct**: `BallTreeIndex::within_range` returns exactly (as a multiset) the
stored points strictly inside the radius. -/
theorem search_range_correct {m : Metric P α} (h : Lawful m) (mean : List P → P)
    (split : List (Pt P) → Option (List (Pt P) × P × List (Pt P))) (hs : SplitPerm split)
    (leafSize ncols : Nat) (rows : List P) (q : P) (r : α) :
    ∃ out, ballRangeQ m (ballIndex m mean split leafSize ncols rows) ncols q r = .ok out ∧
      out.Perm (linearRange m q r (enumerate rows)) := by
  unfold ballRangeQ
  refine ⟨_, nnHelper_ok m _ ncols rows.length q rows.length (some (m.toR r)) rfl rfl, ?_⟩
  by_cases h0 : rows.length = 0
  · have : rows = [] := List.length_eq_zero_iff.mp h0
    rw [if_pos (Or.inl h0)]
    simp [this, linearRange, enumerate]
  · rw [if_neg (by omega)]
    have hk : 0 < rows.length := by omega
    have ht : BallInv m (ballIndex m mean split leafSize ncols rows).tree :=
      build_inv h (mean := mean) hs leafSize rows.length (enumerate rows) (enumerate_nodup rows)
    have hp : (ballIndex m mean split leafSize ncols rows).tree.points.Perm (enumerate rows) :=
      build_perm (m := m) (mean := mean) hs leafSize rows.length (enumerate rows) (enumerate_nodup rows)
    obtain ⟨rest, hperm, hlen, _, _⟩ :=
      isKnn_perm (search_isKnn h q hk (some (m.toR r)) _ ht) (Elig_perm m q (some (m.toR r)) hp)
    -- at most n eligible points, so nothing is left out
    have hle : (Elig m q (some (m.toR r)) (enumerate rows)).length ≤ rows.length := by
      unfold Elig
      refine le_trans (List.length_filter_le _ _) ?_
      simp [enumerate]
    have hrest : rest = [] := by
      have hl := hperm.length_eq
      simp only [List.length_append] at hl
      apply List.length_eq_zero_iff.mp
      omega
    subst hrest
    have := (hperm.map (·.2))
    rw [elig_some_snd] at this
    simpa [linearRange] using this

/-- **indices_agree** (k nearest): the ball tree and the linear scan return the same distance
sequence for every query (the k-d tree is the external crate: by contract it is the linear answer). -/
theorem indices_agree_knn {m : Metric P α} (h : Lawful m) (mean : List P → P)
    (split : List (Pt P) → Option (List (Pt P) × P × List (Pt P))) (hs : SplitPerm split)
    (leafSize ncols : Nat) (rows : List P) (q : P) (k : Nat) :
    ∃ ob, ballKnnQ m (ballIndex m mean split leafSize ncols rows) ncols q k = .ok ob ∧
      linearKnnQ m ncols ncols q k (enumerate rows) = .ok (linearKnn m q k (enumerate rows)) ∧
      ob.map (fun p => m.rdist q p.1) = (linearKnn m q k (enumerate rows)).map (fun p => m.rdist q p.1) := by
  obtain ⟨ob, hb, hkb⟩ := search_knn_correct h mean split hs leafSize ncols rows q k
  refine ⟨ob, hb, by simp [linearKnnQ], ?_⟩
  exact kNearest_dists_unique m q _ _ _ k hkb (linear_knn_correct m q k _)

/-- **the k-d tree's `within_range` glue**: `kdtree::within` (contract: `rdist ≤ radius`) followed by
linfa's own filter `dist < range` is the strict filter of the ascending scan — the repaired border
handling of `KdTreeIndex::within_range` is part of the model the driver runs (`kdRangeQ`). -/
theorem kd_within_then_filter (m : Metric P α) (q : P) (t : α) (pts : List (Pt P)) :
    (kdWithin m q t pts).filter (fun e => e.1 < t) =
      (linearKnnTagged m q pts.length pts).filter (fun e => e.1 < t) := by
  unfold kdWithin
  rw [List.filter_filter]
  apply List.filter_congr
  intro e _
  by_cases h : e.1 < t <;> simp [h, le_of_lt]

/-- …and the filter is needed: `within` alone keeps every stored point lying exactly on the radius
(the defect repaired in 40eef7f), the filtered answer contains none of them. -/
theorem kd_within_keeps_border (m : Metric P α) (q : P) (r : α) (pts : List (Pt P)) (p : Pt P)
    (hp : p ∈ pts) (hb : m.rdist q p.1 = m.toR r) :
    (m.rdist q p.1, p) ∈ kdWithin m q (m.toR r) pts ∧
      (m.rdist q p.1, p) ∉ (kdWithin m q (m.toR r) pts).filter (fun e => e.1 < m.toR r) := by
  obtain ⟨hperm, _⟩ := foldl_insert_spec (tag m q) pts [] (by simp [Asc])
  have hall : linearKnnTagged m q pts.length pts =
      pts.foldl (fun heap p => insertAsc (tag m q p) heap) [] := by
    unfold linearKnnTagged
    apply List.take_of_length_le
    rw [hperm.length_eq]; simp
  constructor
  · unfold kdWithin
    rw [hall, List.mem_filter]
    refine ⟨hperm.mem_iff.mpr ?_, by simp [hb]⟩
    simp only [List.nil_append, List.mem_map]
    exact ⟨p, hp, rfl⟩
  · simp [hb]

/-- **indices_agree** (range, border included): all kinds keep exactly the points with
`rdist < dist_to_rdist r`; a point on the radius is excluded by each of them. -/
theorem indices_agree_range {m : Metric P α} (h : Lawful m) (mean : List P → P)
    (split : List (Pt P) → Option (List (Pt P) × P × List (Pt P))) (hs : SplitPerm split)
    (leafSize ncols : Nat) (rows : List P) (q : P) (r : α) :
    ∃ ob ok, ballRangeQ m (ballIndex m mean split leafSize ncols rows) ncols q r = .ok ob ∧
      kdRangeQ m ncols ncols q r (enumerate rows) = .ok ok ∧
      ob.Perm (linearRange m q r (enumerate rows)) ∧ ok.Perm (linearRange m q r (enumerate rows)) ∧
      ∀ p ∈ enumerate rows, m.rdist q p.1 = m.toR r → p ∉ ob ∧ p ∉ ok ∧ p ∉ linearRange m q r (enumerate rows) := by
  obtain ⟨ob, hb, hpb⟩ := search_range_correct h mean split hs leafSize ncols rows q r
  have hkd : (((linearKnnTagged m q (enumerate rows).length (enumerate rows)).filter
      fun e => e.1 < m.toR r).map (·.2)).Perm (linearRange m q r (enumerate rows)) := by
    obtain ⟨hp, _⟩ := foldl_insert_spec (tag m q) (enumerate rows) [] (by simp [Asc])
    have hall : linearKnnTagged m q (enumerate rows).length (enumerate rows) =
        (enumerate rows).foldl (fun heap p => insertAsc (tag m q p) heap) [] := by
      unfold linearKnnTagged
      apply List.take_of_length_le
      rw [hp.length_eq]; simp
    rw [hall]
    have h2 := ((hp.filter fun e => decide (e.1 < m.toR r)).map (·.2))
    simp only [List.nil_append] at h2
    refine h2.trans ?_
    have := elig_some_snd m q (m.toR r) (enumerate rows)
    simp only [Elig, ltR] at this
    rw [this]
    simp [linearRange]
  refine ⟨ob, _, hb, by simp [kdRangeQ, kd_within_then_filter], hpb, hkd, ?_⟩
  intro p _ heq
  have hnot : p ∉ linearRange m q r (enumerate rows) := by
    simp [linearRange, heq]
  exact ⟨fun hc => hnot (hpb.subset hc), fun hc => hnot (hkd.subset hc), hnot⟩

end

/-! ### non-vacuity: the hypotheses are satisfiable on concrete, non-trivial values -/
section examples

/-- points on the rational line, distance `|a - b|`, reduced distance `2|a - b|` (a reduced
distance different from the distance, like L2's square) -/
def mQ : Metric ℚ ℚ := ⟨fun a b => |a - b|, fun a b => 2 * |a - b|, fun d => 2 * d, fun d => d / 2⟩

theorem mQ_lawful : Lawful mQ where
  dist_nonneg a b := abs_nonneg _
  triangle a b c := abs_sub_le a b c
  rdist_eq a b := rfl
  toR_strictMono a b _ hab := by show 2 * a < 2 * b; linarith
  ofR_toR a _ := by show 2 * a / 2 = a; ring

/-- a split in the shape of `partition`: first point left, the rest right, centre = first point -/
def splitQ : List (Pt ℚ) → Option (List (Pt ℚ) × ℚ × List (Pt ℚ))
  | [] => none
  | p :: ps => some ([p], p.1, ps)

theorem splitQ_perm : SplitPerm splitQ := by
  intro pts a c b _ h
  cases pts with
  | nil => simp [splitQ] at h
  | cons p ps =>
    simp only [splitQ, Option.some.injEq, Prod.mk.injEq] at h
    obtain ⟨rfl, _, rfl⟩ := h
    simp

def meanQ (l : List ℚ) : ℚ := l.sum / l.length

-- `Lawful` and `SplitPerm` hold of concrete values, so every theorem above applies, e.g. to a
-- batch with duplicates and ties, leaf size 1, k beyond a tie, k = 0, k > n, a point on the radius:
example : ∃ out, ballKnnQ mQ (ballIndex mQ meanQ splitQ 1 1 [0, 3, 1, 3, 7]) 1 2 3 = .ok out ∧
    KNearest mQ 2 (enumerate [0, 3, 1, 3, 7]) out 3 :=
  search_knn_correct mQ_lawful meanQ splitQ splitQ_perm 1 1 _ 2 3
example : ∃ out, ballKnnQ mQ (ballIndex mQ meanQ splitQ 1 1 [0, 3, 1, 3, 7]) 1 2 0 = .ok out ∧
    KNearest mQ 2 (enumerate [0, 3, 1, 3, 7]) out 0 :=
  search_knn_correct mQ_lawful meanQ splitQ splitQ_perm 1 1 _ 2 0
example : ∃ out, ballRangeQ mQ (ballIndex mQ meanQ splitQ 2 1 [0, 3, 1, 3, 7]) 1 2 1 = .ok out ∧
    out.Perm (linearRange mQ 2 1 (enumerate [0, 3, 1, 3, 7])) :=
  search_range_correct mQ_lawful meanQ splitQ splitQ_perm 2 1 _ 2 1
example : BallInv mQ (build mQ meanQ splitQ 1 5 (enumerate [0, 3, 1, 3, 7])) :=
  ball_inv mQ_lawful meanQ splitQ splitQ_perm 1 5 _ (enumerate_nodup _)
example : KNearest mQ 2 (enumerate [0, 3, 1, 3, 7]) (linearKnn mQ 2 9 (enumerate [0, 3, 1, 3, 7])) 9 :=
  linear_knn_correct mQ 2 9 _
example : buildCheck 3 16 = .ok () ∧ buildCheck 0 16 = .error .zeroDimension ∧
    buildCheck 3 0 = .error .emptyLeaf ∧ buildCheck 0 0 = .error .emptyLeaf := by decide

end examples

/-! ### errors -/

/-- **errors**: a zero leaf size or a zero dimension is a build error for every kind. -/
theorem build_errors (ncols leaf : Nat) :
    (buildCheck ncols leaf = .ok ()) ↔ (0 < leaf ∧ 0 < ncols) := by
  unfold buildCheck
  by_cases h1 : leaf = 0 <;> by_cases h2 : ncols = 0 <;> simp [h1, h2] <;> omega

/-- **errors**: a query of the wrong dimension is an error for every kind and both query forms,
never an answer. -/
theorem query_errors {P α : Type} [LT α] [DecidableLT α] [LE α] [DecidableLE α] [OfNat α 0] [Sub α]
    (m : Metric P α) (dim qdim : Nat) (hd : dim ≠ qdim) (q : P) (k : Nat) (r : α)
    (pts : List (Pt P)) (ix : BallIndex P α) (hix : ix.dim = dim) :
    linearKnnQ m dim qdim q k pts = .error .wrongDimension ∧
    linearRangeQ m dim qdim q r pts = .error .wrongDimension ∧
    kdKnnQ m dim qdim q k pts = .error .wrongDimension ∧
    kdRangeQ m dim qdim q r pts = .error .wrongDimension ∧
    ballKnnQ m ix qdim q k = .error .wrongDimension ∧
    ballRangeQ m ix qdim q r = .error .wrongDimension := by
  simp [linearKnnQ, linearRangeQ, kdKnnQ, kdRangeQ, ballKnnQ, ballRangeQ, nnHelper, hd, hix]

/-! ### the whole call: `CommonNearestNeighbour` dispatch, build forms, build + query -/
section glue
variable {P α : Type} [Field α] [LinearOrder α] [IsStrictOrderedRing α]

/-- `from_batch` is `from_batch_with_leaf_size` with leaf size `2^4 = 16` -/
theorem from_batch_default (m : Metric P α) (mean : List P → P)
    (split : List (Pt P) → Option (List (Pt P) × P × List (Pt P))) (kind : Kind) (ncols : Nat)
    (rows : List P) :
    fromBatch m mean split kind ncols rows = fromBatchWithLeafSize m mean split kind 16 ncols rows ∧
    buildForm m mean split kind .default ncols rows =
      buildForm m mean split kind (.leaf 16) ncols rows := ⟨rfl, rfl⟩

/-- both build forms go through `from_batch_with_leaf_size` with the form's leaf size -/
theorem buildForm_eq (m : Metric P α) (mean : List P → P)
    (split : List (Pt P) → Option (List (Pt P) × P × List (Pt P))) (kind : Kind) (form : Form)
    (ncols : Nat) (rows : List P) :
    buildForm m mean split kind form ncols rows =
      fromBatchWithLeafSize m mean split kind (form.leafSize) ncols rows := by
  cases form <;> rfl

/-- **the statement's k-nearest clause for the whole call**: for every kind of
`CommonNearestNeighbour`, both build forms, every batch, leaf size ≥ 1, dimension ≥ 1, query of the
right dimension and every `k ≥ 0`: build + `k_nearest` succeeds and returns `KNearest`. -/
theorem common_knn_correct {m : Metric P α} (h : Lawful m) (mean : List P → P)
    (split : List (Pt P) → Option (List (Pt P) × P × List (Pt P))) (hs : SplitPerm split)
    (kind : Kind) (form : Form) (ncols : Nat) (hl : 0 < form.leafSize) (hc : 0 < ncols)
    (rows : List P) (q : P) (k : Nat) :
    ∃ out, knnRequest m mean split kind form ncols rows ncols q k = .ok out ∧
      KNearest m q (enumerate rows) out k := by
  have hb : buildCheck ncols (form.leafSize) = .ok () := (build_errors ncols _).mpr ⟨hl, hc⟩
  unfold knnRequest
  rw [buildForm_eq]
  unfold fromBatchWithLeafSize
  rw [hb]
  cases kind with
  | linear =>
    exact ⟨linearKnn m q k (enumerate rows), by simp [Index.kNearest, linearKnnQ],
      linear_knn_correct m q k _⟩
  | kd =>
    exact ⟨linearKnn m q k (enumerate rows), by simp [Index.kNearest, kdKnnQ],
      linear_knn_correct m q k _⟩
  | ball =>
    obtain ⟨out, ho, hk⟩ := search_knn_correct h mean split hs (form.leafSize) ncols rows q k
    exact ⟨out, by simp [Index.kNearest, ho], hk⟩

/-- **the statement's range clause for the whole call**: every kind answers with exactly (as a
multiset) the stored points with `rdist < dist_to_rdist r`; for `r ≥ 0` these are the points
strictly inside the radius, and no point at distance `≥ r` (on or outside the sphere) is returned. -/
theorem common_range_correct {m : Metric P α} (h : Lawful m) (mean : List P → P)
    (split : List (Pt P) → Option (List (Pt P) × P × List (Pt P))) (hs : SplitPerm split)
    (kind : Kind) (form : Form) (ncols : Nat) (hl : 0 < form.leafSize) (hc : 0 < ncols)
    (rows : List P) (q : P) (r : α) :
    ∃ out, rangeRequest m mean split kind form ncols rows ncols q r = .ok out ∧
      out.Perm (linearRange m q r (enumerate rows)) ∧
      (0 ≤ r → ∀ p, p ∈ out ↔ p ∈ enumerate rows ∧ m.dist q p.1 < r) := by
  have hb : buildCheck ncols (form.leafSize) = .ok () := (build_errors ncols _).mpr ⟨hl, hc⟩
  have key : ∀ out : List (Pt P), out.Perm (linearRange m q r (enumerate rows)) →
      (0 ≤ r → ∀ p, p ∈ out ↔ p ∈ enumerate rows ∧ m.dist q p.1 < r) := by
    intro out hp hr p
    rw [hp.mem_iff, linear_range_correct, range_iff_dist h q p.1 hr]
  obtain ⟨ob, okd, hob, hokd, hpb, hpk, _⟩ :=
    indices_agree_range h mean split hs (form.leafSize) ncols rows q r
  unfold rangeRequest
  rw [buildForm_eq]
  unfold fromBatchWithLeafSize
  rw [hb]
  cases kind with
  | linear =>
    exact ⟨linearRange m q r (enumerate rows), by simp [Index.withinRange, linearRangeQ],
      List.Perm.refl _, key _ (List.Perm.refl _)⟩
  | kd => exact ⟨okd, by simp [Index.withinRange, hokd], hpk, key _ hpk⟩
  | ball => exact ⟨ob, by simp [Index.withinRange, hob], hpb, key _ hpb⟩

/-- **the kinds are interchangeable**: any two kinds (built in any form) return the same distance
sequence for a k-nearest query and permutations of one another for a range query. -/
theorem common_agree {m : Metric P α} (h : Lawful m) (mean : List P → P)
    (split : List (Pt P) → Option (List (Pt P) × P × List (Pt P))) (hs : SplitPerm split)
    (k1 k2 : Kind) (f1 f2 : Form) (ncols : Nat) (hl1 : 0 < f1.leafSize) (hl2 : 0 < f2.leafSize)
    (hc : 0 < ncols) (rows : List P) (q : P) (k : Nat) (r : α) :
    (∃ o1 o2, knnRequest m mean split k1 f1 ncols rows ncols q k = .ok o1 ∧
      knnRequest m mean split k2 f2 ncols rows ncols q k = .ok o2 ∧
      o1.map (fun p => m.rdist q p.1) = o2.map (fun p => m.rdist q p.1)) ∧
    (∃ o1 o2, rangeRequest m mean split k1 f1 ncols rows ncols q r = .ok o1 ∧
      rangeRequest m mean split k2 f2 ncols rows ncols q r = .ok o2 ∧ o1.Perm o2) := by
  obtain ⟨a1, ha1, hk1⟩ := common_knn_correct h mean split hs k1 f1 ncols hl1 hc rows q k
  obtain ⟨a2, ha2, hk2⟩ := common_knn_correct h mean split hs k2 f2 ncols hl2 hc rows q k
  obtain ⟨b1, hb1, hp1, _⟩ := common_range_correct h mean split hs k1 f1 ncols hl1 hc rows q r
  obtain ⟨b2, hb2, hp2, _⟩ := common_range_correct h mean split hs k2 f2 ncols hl2 hc rows q r
  exact ⟨⟨a1, a2, ha1, ha2, kNearest_dists_unique m q _ _ _ k hk1 hk2⟩,
    ⟨b1, b2, hb1, hb2, hp1.trans hp2.symm⟩⟩

end glue

section malformed
variable {P α : Type} [LT α] [DecidableLT α] [LE α] [DecidableLE α] [OfNat α 0] [Sub α]

/-- **malformed builds or queries are errors, never answers** — for every kind and both query
forms, also when several defects coincide (zero leaf size, zero dimension, wrong query dimension). -/
theorem common_malformed (m : Metric P α) (mean : List P → P)
    (split : List (Pt P) → Option (List (Pt P) × P × List (Pt P))) (kind : Kind) (form : Form)
    (ncols qdim : Nat) (hbad : form.leafSize = 0 ∨ ncols = 0 ∨ ncols ≠ qdim)
    (rows : List P) (q : P) (k : Nat) (r : α) :
    (∀ out, knnRequest m mean split kind form ncols rows qdim q k ≠ .ok out) ∧
    (∀ out, rangeRequest m mean split kind form ncols rows qdim q r ≠ .ok out) := by
  have hform : buildForm m mean split kind form ncols rows =
      fromBatchWithLeafSize m mean split kind (form.leafSize) ncols rows := by cases form <;> rfl
  unfold knnRequest rangeRequest
  rw [hform]
  unfold fromBatchWithLeafSize buildCheck
  by_cases h1 : form.leafSize = 0
  · simp [h1]
  · by_cases h2 : ncols = 0
    · simp [h1, h2]
    · have h3 : ncols ≠ qdim := by
        rcases hbad with hb | hb | hb
        · exact absurd hb h1
        · exact absurd hb h2
        · exact hb
      cases kind <;>
        simp [h1, h2, h3, Index.kNearest, Index.withinRange, linearKnnQ, linearRangeQ, kdKnnQ,
          kdRangeQ, ballKnnQ, ballRangeQ, nnHelper, ballIndex]

end malformed


/-! ### shape of an answer: positions, canonical part, ascending distance -/
section shape
variable {P α : Type} [Field α] [LinearOrder α] [IsStrictOrderedRing α]

/-- **coordinates and row position**: every returned pair is a row of the batch at its own
position, and no row is returned twice. -/
theorem kNearest_positions (m : Metric P α) (q : P) (rows : List P) (out : List (Pt P)) (k : Nat)
    (h : KNearest m q (enumerate rows) out k) :
    (∀ p ∈ out, rows[p.2]? = some p.1) ∧ (out.map (·.2)).Nodup := by
  obtain ⟨rest, hp, _, _, _⟩ := h
  constructor
  · intro p hpo
    have : p ∈ enumerate rows := hp.subset (List.mem_append_left _ hpo)
    unfold enumerate at this
    obtain ⟨x, i⟩ := p
    exact (List.mem_zipIdx_iff_getElem?.mp this)
  · have h1 : ((out ++ rest).map (·.2)).Perm ((enumerate rows).map (·.2)) := hp.map _
    have h2 : ((enumerate rows).map (·.2)).Nodup := by
      unfold enumerate
      rw [List.zipIdx_map_snd]
      exact List.nodup_range'
    have h3 := (h1.nodup_iff).mpr h2
    rw [List.map_append] at h3
    exact (List.nodup_append.mp h3).1

/-- the same for a range answer -/
theorem range_positions (m : Metric P α) (q : P) (r : α) (rows : List P) (out : List (Pt P))
    (h : out.Perm (linearRange m q r (enumerate rows))) :
    (∀ p ∈ out, rows[p.2]? = some p.1) ∧ (out.map (·.2)).Nodup := by
  constructor
  · intro p hpo
    have : p ∈ enumerate rows := ((linear_range_correct m q r _ p).mp (h.subset hpo)).1
    unfold enumerate at this
    obtain ⟨x, i⟩ := p
    exact (List.mem_zipIdx_iff_getElem?.mp this)
  · have h2 : ((enumerate rows).map (·.2)).Nodup := by
      unfold enumerate
      rw [List.zipIdx_map_snd]
      exact List.nodup_range'
    have hsub : (linearRange m q r (enumerate rows)).Sublist (enumerate rows) := by
      unfold linearRange; exact List.filter_sublist
    exact ((h.map (·.2)).nodup_iff).mpr ((hsub.map (·.2)).nodup h2)

/-- **what the correspondence compares of a k-nearest answer is canonical**: every stored point
strictly nearer than some returned point is itself returned (so the set of positions below the
k-th distance is the same for every tie-breaking). -/
theorem kNearest_strict_determined (m : Metric P α) (q : P) (pts out : List (Pt P)) (k : Nat)
    (h : KNearest m q pts out k) (x : Pt P) (hx : x ∈ pts) (y : Pt P) (hy : y ∈ out)
    (hlt : m.rdist q x.1 < m.rdist q y.1) : x ∈ out := by
  obtain ⟨rest, hp, _, _, hm⟩ := h
  rcases List.mem_append.mp (hp.symm.subset hx) with h1 | h1
  · exact h1
  · exact absurd (hm y hy x h1) (not_le.mpr hlt)

/-- **ascending distance** (not only ascending reduced distance) -/
theorem kNearest_dist_ascending {m : Metric P α} (hL : Lawful m) (q : P) (pts out : List (Pt P))
    (k : Nat) (h : KNearest m q pts out k) :
    out.Pairwise (fun a b => m.dist q a.1 ≤ m.dist q b.1) := by
  obtain ⟨_, _, _, ha, _⟩ := h
  refine ha.imp ?_
  intro a b hab
  rw [hL.rdist_eq, hL.rdist_eq] at hab
  exact hL.le_of_toR_le (hL.dist_nonneg _ _) hab

end shape

/-! ### the provided metrics are lawful (so the theorems apply to them, not to an abstraction) -/
section lawful
variable {α : Type} [Field α] [LinearOrder α] [IsStrictOrderedRing α]

/-- **`L1Dist` is lawful** on the points of any fixed dimension (any ordered field): the search
theorems apply to the very `l1` loop the driver runs. -/
theorem mL1_lawful (d : Nat) : Lawful (onDim d (mL1 (α := α))) where
  dist_nonneg a b := by
    show 0 ≤ l1 a.1 b.1
    unfold l1
    refine foldl_add_nonneg _ ?_ 0 le_rfl
    intro x hx
    obtain ⟨i, _, rfl⟩ := List.getElem_of_mem hx
    simp only [List.getElem_zipWith]
    rw [absS_eq_abs]; exact abs_nonneg _
  triangle a b c := by
    show l1 a.1 c.1 ≤ l1 a.1 b.1 + l1 b.1 c.1
    unfold l1
    exact l1_triangle_aux a.1 b.1 c.1 (by rw [a.2, b.2]) (by rw [b.2, c.2]) 0 0 0 (by simp)
  rdist_eq a b := rfl
  toR_strictMono a b _ hab := hab
  ofR_toR a _ := rfl

/-- **`LInfDist` is lawful** on the points of any fixed dimension. -/
theorem mLinf_lawful (d : Nat) : Lawful (onDim d (mLinf (α := α))) where
  dist_nonneg a b := by
    show 0 ≤ linf a.1 b.1
    unfold linf
    exact foldl_max_nonneg _ 0 le_rfl
  triangle a b c := by
    show linf a.1 c.1 ≤ linf a.1 b.1 + linf b.1 c.1
    unfold linf
    exact linf_triangle_aux a.1 b.1 c.1 (by rw [a.2, b.2]) (by rw [b.2, c.2]) 0 0 0 (by simp)
  rdist_eq a b := rfl
  toR_strictMono a b _ hab := hab
  ofR_toR a _ := rfl

end lawful

section l2
noncomputable local instance : Transc ℝ := ⟨Real.sqrt, Real.exp, Real.log⟩

/-- **`L2Dist` is lawful** on the points of any fixed dimension: distance `√Σ(aᵢ-bᵢ)²`, reduced
distance `Σ(aᵢ-bᵢ)²`, `dist_to_rdist = d²`, `rdist_to_dist = √` (over ℝ). -/
theorem mL2_lawful (d : Nat) : Lawful (onDim d (mL2 (α := ℝ))) where
  dist_nonneg a b := Real.sqrt_nonneg _
  triangle a b c := by
    show Real.sqrt (sqL2 a.1 c.1) ≤ Real.sqrt (sqL2 a.1 b.1) + Real.sqrt (sqL2 b.1 c.1)
    unfold sqL2
    exact l2_triangle_aux a.1 b.1 c.1 (by rw [a.2, b.2]) (by rw [b.2, c.2]) 0 0 0 le_rfl le_rfl
      le_rfl (by simp)
  rdist_eq a b := by
    show sqL2 a.1 b.1 = Real.sqrt (sqL2 a.1 b.1) * Real.sqrt (sqL2 a.1 b.1)
    exact (Real.mul_self_sqrt (sqL2_nonneg _ _)).symm
  toR_strictMono a b ha hab := by
    show a * a < b * b
    exact mul_self_lt_mul_self ha hab
  ofR_toR a ha := by
    show Real.sqrt (a * a) = a
    exact Real.sqrt_mul_self ha

end l2

/-! ### non-vacuity of the theorems above -/
section examples2
noncomputable local instance : Transc ℝ := ⟨Real.sqrt, Real.exp, Real.log⟩

/-- a split in the shape of `partition` for any point type: first point left, the rest right -/
def splitFirst {P : Type} : List (Pt P) → Option (List (Pt P) × P × List (Pt P))
  | [] => none
  | p :: ps => some ([p], p.1, ps)

theorem splitFirst_perm {P : Type} : SplitPerm (splitFirst (P := P)) := by
  intro pts a c b _ h
  cases pts with
  | nil => simp [splitFirst] at h
  | cons p ps =>
    simp only [splitFirst, Option.some.injEq, Prod.mk.injEq] at h
    obtain ⟨rfl, _, rfl⟩ := h
    simp

-- every kind, both build forms, on the batch with duplicates and ties
example : ∃ out, knnRequest mQ meanQ splitQ .ball .default 1 [0, 3, 1, 3, 7] 1 2 3 = .ok out ∧
    KNearest mQ 2 (enumerate [0, 3, 1, 3, 7]) out 3 :=
  common_knn_correct mQ_lawful meanQ splitQ splitQ_perm .ball .default 1 (by decide) (by decide) _ 2 3
example : ∃ out, rangeRequest mQ meanQ splitQ .kd (.leaf 2) 1 [0, 3, 1, 3, 7] 1 2 1 = .ok out ∧
    out.Perm (linearRange mQ 2 1 (enumerate [0, 3, 1, 3, 7])) ∧
    ((0 : ℚ) ≤ 1 → ∀ p, p ∈ out ↔ p ∈ enumerate [0, 3, 1, 3, 7] ∧ mQ.dist 2 p.1 < 1) :=
  common_range_correct mQ_lawful meanQ splitQ splitQ_perm .kd (.leaf 2) 1 (by decide) (by decide) _ 2 1
-- two defects at once (leaf size 0 and zero columns), and a wrong query dimension alone
example : (∀ out, knnRequest mQ meanQ splitQ .linear (.leaf 0) 0 [0, 3] 0 2 1 ≠ .ok out) ∧
    (∀ out, rangeRequest mQ meanQ splitQ .linear (.leaf 0) 0 [0, 3] 0 2 1 ≠ .ok out) :=
  common_malformed mQ meanQ splitQ .linear (.leaf 0) 0 0 (Or.inl rfl) _ 2 1 1
example : (∀ out, knnRequest mQ meanQ splitQ .ball .default 1 [0, 3] 2 2 1 ≠ .ok out) ∧
    (∀ out, rangeRequest mQ meanQ splitQ .ball .default 1 [0, 3] 2 2 1 ≠ .ok out) :=
  common_malformed mQ meanQ splitQ .ball .default 1 2 (Or.inr (Or.inr (by decide))) _ 2 1 1
example : (∀ p ∈ linearKnn mQ 2 3 (enumerate [0, 3, 1, 3, 7]), ([0, 3, 1, 3, 7] : List ℚ)[p.2]? = some p.1) ∧
    ((linearKnn mQ 2 3 (enumerate [0, 3, 1, 3, 7])).map (·.2)).Nodup :=
  kNearest_positions mQ 2 _ _ 3 (linear_knn_correct mQ 2 3 _)
example : (linearKnn mQ 2 3 (enumerate [0, 3, 1, 3, 7])).Pairwise
    (fun a b => mQ.dist 2 a.1 ≤ mQ.dist 2 b.1) :=
  kNearest_dist_ascending mQ_lawful 2 _ _ 3 (linear_knn_correct mQ 2 3 _)

example : (∃ o1 o2, knnRequest mQ meanQ splitQ .ball (.leaf 1) 1 [0, 3, 1, 3, 7] 1 2 3 = .ok o1 ∧
      knnRequest mQ meanQ splitQ .linear .default 1 [0, 3, 1, 3, 7] 1 2 3 = .ok o2 ∧
      o1.map (fun p => mQ.rdist 2 p.1) = o2.map (fun p => mQ.rdist 2 p.1)) ∧
    (∃ o1 o2, rangeRequest mQ meanQ splitQ .ball (.leaf 1) 1 [0, 3, 1, 3, 7] 1 2 1 = .ok o1 ∧
      rangeRequest mQ meanQ splitQ .linear .default 1 [0, 3, 1, 3, 7] 1 2 1 = .ok o2 ∧ o1.Perm o2) :=
  common_agree mQ_lawful meanQ splitQ splitQ_perm .ball .linear (.leaf 1) .default 1 (by decide)
    (by decide) (by decide) _ 2 3 1
example : fromBatch mQ meanQ splitQ .kd 1 [0, 3] = fromBatchWithLeafSize mQ meanQ splitQ .kd 16 1 [0, 3] :=
  (from_batch_default mQ meanQ splitQ .kd 1 [0, 3]).1
-- the point 1 (row 2, reduced distance 2 from the query 2) is nearer than the returned point 0
-- (row 0, reduced distance 4), so every 4-nearest answer contains it
example (out : List (Pt ℚ)) (h : KNearest mQ 2 (enumerate [0, 3, 1, 3, 7]) out 4)
    (hy : ((0 : ℚ), 0) ∈ out) : ((1 : ℚ), 2) ∈ out :=
  kNearest_strict_determined mQ 2 _ out 4 h (1, 2) (by simp [enumerate]) (0, 0) hy
    (by simp [mQ]; norm_num)
example (out : List (Pt ℚ)) (h : out.Perm (linearRange mQ 2 1 (enumerate [0, 3, 1, 3, 7]))) :
    (∀ p ∈ out, ([0, 3, 1, 3, 7] : List ℚ)[p.2]? = some p.1) ∧ (out.map (·.2)).Nodup :=
  range_positions mQ 2 1 _ out h
-- the provided metrics: the ball-tree theorems apply to L1 / Linf over ℚ and to L2 over ℝ on
-- 2-dimensional points (a 3-4-5 triangle: (3,4) lies exactly on the radius 5 around the origin)
def v2 (x y : ℚ) : {l : List ℚ // l.length = 2} := ⟨[x, y], rfl⟩
def r2 (x y : ℝ) : {l : List ℝ // l.length = 2} := ⟨[x, y], rfl⟩

example : ∃ out, ballKnnQ (onDim 2 mL1) (ballIndex (onDim 2 mL1) (fun _ => v2 0 0) splitFirst 1 2
      [v2 3 4, v2 1 1, v2 6 8, v2 1 1]) 2 (v2 0 0) 3 = .ok out ∧
    KNearest (onDim 2 mL1) (v2 0 0) (enumerate [v2 3 4, v2 1 1, v2 6 8, v2 1 1]) out 3 :=
  search_knn_correct (mL1_lawful 2) _ splitFirst splitFirst_perm 1 2 _ _ 3
example : ∃ out, ballRangeQ (onDim 2 mLinf) (ballIndex (onDim 2 mLinf) (fun _ => v2 0 0) splitFirst 1 2
      [v2 3 4, v2 1 1, v2 6 8, v2 1 1]) 2 (v2 0 0) 4 = .ok out ∧
    out.Perm (linearRange (onDim 2 mLinf) (v2 0 0) 4 (enumerate [v2 3 4, v2 1 1, v2 6 8, v2 1 1])) :=
  search_range_correct (mLinf_lawful 2) _ splitFirst splitFirst_perm 1 2 _ _ 4
example : ∃ out, ballRangeQ (onDim 2 mL2) (ballIndex (onDim 2 mL2) (fun _ => r2 0 0) splitFirst 1 2
      [r2 3 4, r2 1 1, r2 6 8]) 2 (r2 0 0) 5 = .ok out ∧
    out.Perm (linearRange (onDim 2 mL2) (r2 0 0) 5 (enumerate [r2 3 4, r2 1 1, r2 6 8])) :=
  search_range_correct (mL2_lawful 2) _ splitFirst splitFirst_perm 1 2 _ _ 5

end examples2

/-! ### `LpDist`: lawful for every exponent `p ≥ 1`, not a metric below 1 -/
section lp

/-- **`LpDist(p)` is lawful for every `p ≥ 1`** on the points of any fixed dimension (over ℝ,
`x.powf(y)` = the real power `x ^ y`): distance `(Σ |aᵢ-bᵢ|^p)^(1/p)` — the very `lp` loop of
`Model/NN.lean`, which `GenC07.lp_distance_is_model` ties to the text of `LpDist::distance` — is
non-negative and satisfies the triangle inequality (Minkowski); `LpDist` has no reduced form, the
conversions are the identity. -/
theorem mLp_lawful {p : ℝ} (hp : 1 ≤ p) (d : Nat) : Lawful (onDim d (mLp p)) where
  dist_nonneg a b := lp_nonneg p a.1 b.1
  triangle a b c := lp_triangle hp a.1 b.1 c.1 (by rw [a.2, b.2]) (by rw [b.2, c.2])
  rdist_eq a b := rfl
  toR_strictMono a b _ hab := hab
  ofR_toR a _ := rfl

/-- the remaining metric axioms (not needed by the search, recorded for completeness): symmetry
for every exponent, and distance 0 from a point to itself for `p > 0` -/
theorem lp_symm_self (p : ℝ) (a b : List ℝ) :
    lp p a b = lp p b a ∧ (0 < p → lp p a a = 0) :=
  ⟨lp_symm p a b, fun hp => lp_self hp a⟩

/-- **below 1 the triangle inequality fails** (so `LpDist(p)`, `p < 1`, is not a distance in the
sense of the trait's documentation and the pruning of the ball tree is unsound for it): `p = 1/2`,
a = (0,0), b = (1,0), c = (1,1): d(a,c) = (1+1)² = 4 > d(a,b) + d(b,c) = 1 + 1. -/
theorem lp_half_not_triangle :
    ¬ (lp (1 / 2 : ℝ) [0, 0] [1, 1] ≤ lp (1 / 2 : ℝ) [0, 0] [1, 0] + lp (1 / 2 : ℝ) [1, 0] [1, 1]) := by
  have h2 : (1 : ℝ) / (1 / 2) = 2 := by norm_num
  have hz : (0 : ℝ) ^ (1 / 2 : ℝ) = 0 := Real.zero_rpow (by norm_num)
  simp only [lp_real, List.zipWith_cons_cons, List.zipWith_nil_right, List.foldl_cons,
    List.foldl_nil, h2]
  norm_num [hz]

/-- **the search theorems hold for `LpDist(p)`, `p ≥ 1`**: for every kind of index, both build
forms, every batch of `d`-dimensional points, leaf size ≥ 1, `ncols ≥ 1`, query, `k` and radius: the
k-nearest call returns `KNearest`, the range call returns exactly the points with `lp p q x < r`
(`r ≥ 0`), and any two kinds agree. -/
theorem lp_indices_correct {p : ℝ} (hp : 1 ≤ p) (d : Nat)
    (mean : List {l : List ℝ // l.length = d} → {l : List ℝ // l.length = d})
    (split : List (Pt {l : List ℝ // l.length = d}) →
      Option (List (Pt {l : List ℝ // l.length = d}) × {l : List ℝ // l.length = d} ×
        List (Pt {l : List ℝ // l.length = d})))
    (hs : SplitPerm split) (k1 k2 : Kind) (f1 f2 : Form) (ncols : Nat) (hl1 : 0 < f1.leafSize)
    (hl2 : 0 < f2.leafSize) (hc : 0 < ncols) (rows : List {l : List ℝ // l.length = d})
    (q : {l : List ℝ // l.length = d}) (k : Nat) (r : ℝ) :
    (∃ out, knnRequest (onDim d (mLp p)) mean split k1 f1 ncols rows ncols q k = .ok out ∧
      KNearest (onDim d (mLp p)) q (enumerate rows) out k) ∧
    (∃ out, rangeRequest (onDim d (mLp p)) mean split k1 f1 ncols rows ncols q r = .ok out ∧
      out.Perm (linearRange (onDim d (mLp p)) q r (enumerate rows)) ∧
      (0 ≤ r → ∀ x, x ∈ out ↔ x ∈ enumerate rows ∧ lp p q.1 x.1.1 < r)) ∧
    (∃ o1 o2, knnRequest (onDim d (mLp p)) mean split k1 f1 ncols rows ncols q k = .ok o1 ∧
      knnRequest (onDim d (mLp p)) mean split k2 f2 ncols rows ncols q k = .ok o2 ∧
      o1.map (fun x => lp p q.1 x.1.1) = o2.map (fun x => lp p q.1 x.1.1)) ∧
    (∃ o1 o2, rangeRequest (onDim d (mLp p)) mean split k1 f1 ncols rows ncols q r = .ok o1 ∧
      rangeRequest (onDim d (mLp p)) mean split k2 f2 ncols rows ncols q r = .ok o2 ∧ o1.Perm o2) :=
  ⟨common_knn_correct (mLp_lawful hp d) mean split hs k1 f1 ncols hl1 hc rows q k,
    common_range_correct (mLp_lawful hp d) mean split hs k1 f1 ncols hl1 hc rows q r,
    (common_agree (mLp_lawful hp d) mean split hs k1 k2 f1 f2 ncols hl1 hl2 hc rows q k r).1,
    (common_agree (mLp_lawful hp d) mean split hs k1 k2 f1 f2 ncols hl1 hl2 hc rows q k r).2⟩

-- non-vacuity: exponent 3 (and 5/2) on 2-dimensional points, ball tree against the default-form k-d
-- tree; `1 ≤ p` is satisfiable, `SplitPerm splitFirst` holds
example : Lawful (onDim 2 (mLp (5 / 2 : ℝ))) := mLp_lawful (by norm_num) 2
example : ∃ out, knnRequest (onDim 2 (mLp (3 : ℝ))) (fun _ => r2 0 0) splitFirst .ball (.leaf 1) 2
      [r2 3 4, r2 1 1, r2 6 8, r2 1 1] 2 (r2 0 0) 3 = .ok out ∧
    KNearest (onDim 2 (mLp (3 : ℝ))) (r2 0 0) (enumerate [r2 3 4, r2 1 1, r2 6 8, r2 1 1]) out 3 :=
  (lp_indices_correct (by norm_num) 2 _ splitFirst splitFirst_perm .ball .kd (.leaf 1) .default 2
    (by decide) (by decide) (by decide) _ _ 3 1).1
example : lp (3 : ℝ) [3, 4] [0, 0] = lp (3 : ℝ) [0, 0] [3, 4] ∧ ((0 : ℝ) < 3 → lp (3 : ℝ) [3, 4] [3, 4] = 0) :=
  lp_symm_self 3 [3, 4] [0, 0]

end lp

/-! ### the functions the driver runs: the replayed split, the leaf mean, one request -/
section driver
open LinfaSpec.Drv.C07

theorem lookAll_spec {P : Type} (pts : List (Pt P)) : ∀ (is : List Nat) (out : List (Pt P)),
    lookAll pts is = some out → out.map (·.2) = is ∧ ∀ p ∈ out, p ∈ pts
  | [], out, h => by
    simp only [lookAll, Option.some.injEq] at h
    subst h
    simp
  | i :: is, out, h => by
    simp only [lookAll] at h
    split at h
    · rename_i p ps hp hps
      simp only [Option.some.injEq] at h
      subst h
      obtain ⟨h1, h2⟩ := lookAll_spec pts is ps hps
      have hm : p ∈ pts := List.mem_of_find?_eq_some hp
      have hi : p.2 = i := by
        have := List.find?_some hp
        simpa using this
      refine ⟨by simp [h1, hi], ?_⟩
      intro x hx
      rcases List.mem_cons.mp hx with rfl | hx
      · exact hm
      · exact h2 x hx
    · simp at h

/-- a list of stored points whose positions are (as a multiset) the positions of `pts`, all taken
from `pts`, is a permutation of `pts` when positions are distinct -/
theorem perm_of_positions {P : Type} {ab pts : List (Pt P)} (hnd : (pts.map (·.2)).Nodup)
    (hmap : (ab.map (·.2)).Perm (pts.map (·.2))) (hsub : ∀ x ∈ ab, x ∈ pts) : ab.Perm pts := by
  have hnd_ab : (ab.map (·.2)).Nodup := (hmap.nodup_iff).mpr hnd
  have h1 : ab.Nodup := List.Nodup.of_map _ hnd_ab
  have h2 : pts.Nodup := List.Nodup.of_map _ hnd
  apply (List.perm_ext_iff_of_nodup h1 h2).mpr
  intro x
  constructor
  · exact hsub x
  · intro hx
    have hx2 : x.2 ∈ ab.map (·.2) := hmap.mem_iff.mpr (List.mem_map.mpr ⟨x, hx, rfl⟩)
    obtain ⟨y, hy, hyx⟩ := List.mem_map.mp hx2
    have hyx' : y = x := List.inj_on_of_nodup_map hnd (hsub y hy) hx hyx
    exact hyx' ▸ hy

/-- what `scriptSplit` returns, whatever the script says: two non-empty halves taken from `pts`
whose positions together are the positions of `pts`, and the coordinates of one of its points -/
theorem scriptSplit_shape {P : Type} (script : Script) (pts a b : List (Pt P)) (c : P)
    (h : scriptSplit script pts = some (a, c, b)) :
    ((a ++ b).map (·.2)).Perm (pts.map (·.2)) ∧ (∀ x ∈ a ++ b, x ∈ pts) ∧ a ≠ [] ∧ b ≠ [] ∧
      ∃ p ∈ pts, p.1 = c := by
  simp only [scriptSplit] at h
  split at h
  · simp at h
  · rename_i c' l r hfind
    split at h
    · rename_i a' b' cp ha hb hc
      split at h
      · simp at h
      · rename_i hne
        simp only [Option.some.injEq, Prod.mk.injEq] at h
        obtain ⟨rfl, rfl, rfl⟩ := h
        have hkey := List.find?_some hfind
        simp only [Bool.and_eq_true, beq_iff_eq] at hkey
        obtain ⟨_, hsort⟩ := hkey
        have hperm : (l ++ r).Perm (pts.map (·.2)) := by
          have h1 := List.mergeSort_perm (l ++ r) (fun a b => decide (a ≤ b))
          have h2 := List.mergeSort_perm (pts.map (·.2)) (fun a b => decide (a ≤ b))
          unfold sortNat at hsort
          rw [hsort] at h1
          exact h1.symm.trans h2
        obtain ⟨hla, hma⟩ := lookAll_spec pts l a' ha
        obtain ⟨hlb, hmb⟩ := lookAll_spec pts r b' hb
        simp only [Bool.or_eq_true, List.isEmpty_iff, not_or] at hne
        refine ⟨by rw [List.map_append, hla, hlb]; exact hperm, ?_, hne.1, hne.2,
          cp, List.mem_of_find?_eq_some hc, rfl⟩
        intro x hx
        rcases List.mem_append.mp hx with hx | hx
        · exact hma x hx
        · exact hmb x hx
    · simp at h

/-- **the split the driver replays satisfies the contract of `partition` for EVERY script** (also a
corrupt one: it is then refused): the hypothesis `SplitPerm` of the search theorems is discharged for
the very function `Drv/C07.run` passes to `knnRequest` / `rangeRequest` / `ballIndex`. -/
theorem scriptSplit_splitPerm {P : Type} (script : Script) :
    SplitPerm (scriptSplit (P := P) script) := by
  intro pts a c b hnd h
  obtain ⟨hmap, hsub, _⟩ := scriptSplit_shape script pts a b c h
  exact perm_of_positions hnd hmap hsub

variable {α : Type} [Field α] [LinearOrder α] [IsStrictOrderedRing α]

theorem foldl_zipWith_length (ps : List (List α)) (c : List α) (d : Nat) (hc : c.length = d)
    (h : ∀ p ∈ ps, p.length = d) :
    (ps.foldl (fun c x => List.zipWith (· + ·) c x) c).length = d := by
  induction ps generalizing c with
  | nil => simpa using hc
  | cons p ps ih =>
    simp only [List.foldl_cons]
    apply ih
    · simp [hc, h p (by simp)]
    · intro x hx
      exact h x (by simp [hx])

/-- **the leaf centre stays in the dimension of its points**: `vecMean` (the `c += p; c / len` loop
the driver runs) of a non-empty list of `d`-dimensional rows is `d`-dimensional — the mean used in
the subtype instantiation of the metric theorems is the driver's `vecMean`. -/
theorem vecMean_length (ps : List (List α)) (d : Nat) (hne : ps ≠ []) (h : ∀ p ∈ ps, p.length = d) :
    (vecMean ps).length = d := by
  cases ps with
  | nil => exact absurd rfl hne
  | cons p ps =>
    simp only [vecMean, List.length_map]
    apply foldl_zipWith_length
    · simp [h p (by simp)]
    · exact h

/-- `vecMean` as a function on the points of dimension `d` (the empty leaf of the empty tree, which
the search never reaches, gets the origin) -/
def meanDim (d : Nat) (ps : List {l : List α // l.length = d}) : {l : List α // l.length = d} :=
  if h : ps = [] then ⟨List.replicate d 0, by simp⟩
  else ⟨vecMean (ps.map (·.1)), vecMean_length _ d (fun h0 => h (List.map_eq_nil_iff.mp h0)) (by
    intro p hp
    obtain ⟨x, _, rfl⟩ := List.mem_map.mp hp
    exact x.2)⟩

theorem meanDim_val (d : Nat) (ps : List {l : List α // l.length = d}) (h : ps ≠ []) :
    (meanDim d ps).1 = vecMean (ps.map (·.1)) := by
  simp [meanDim, h]

/-- **one request as the driver answers it** (`Drv/C07.run`: `knnRequest m vecMean (scriptSplit
script) …`), for every script, every lawful metric and every mean: the k-nearest and the range
clause of the statement, with no hypothesis on the split left. -/
theorem driver_request_correct {P : Type} {m : Metric P α} (h : Lawful m) (mean : List P → P)
    (script : Script) (kind : Kind) (form : Form) (ncols : Nat) (hl : 0 < form.leafSize)
    (hc : 0 < ncols) (rows : List P) (q : P) (k : Nat) (r : α) :
    (∃ out, knnRequest m mean (scriptSplit script) kind form ncols rows ncols q k = .ok out ∧
      KNearest m q (enumerate rows) out k) ∧
    (∃ out, rangeRequest m mean (scriptSplit script) kind form ncols rows ncols q r = .ok out ∧
      out.Perm (linearRange m q r (enumerate rows)) ∧
      (0 ≤ r → ∀ p, p ∈ out ↔ p ∈ enumerate rows ∧ m.dist q p.1 < r)) :=
  ⟨common_knn_correct h mean _ (scriptSplit_splitPerm script) kind form ncols hl hc rows q k,
    common_range_correct h mean _ (scriptSplit_splitPerm script) kind form ncols hl hc rows q r⟩

-- non-vacuity: a script with one entry (centre = row 1, left = row 0, right = rows 1, 2) on three
-- rational points; a corrupt script (an empty half) is refused, the theorem still applies
example : scriptSplit [(1, [0], [1, 2])] (enumerate [(5 : ℚ), 7, 9]) =
    some ([(5, 0)], 7, [(7, 1), (9, 2)]) := by
  simp [scriptSplit, lookAll, sortNat, enumerate]
example : scriptSplit [(1, [], [0, 1, 2])] (enumerate [(5 : ℚ), 7, 9]) = none := by
  simp [scriptSplit, lookAll, sortNat, enumerate]
example : ∃ out, knnRequest mQ meanQ (scriptSplit [(1, [0], [1, 2])]) .ball (.leaf 1) 1 [5, 7, 9] 1 6 2
      = .ok out ∧ KNearest mQ 6 (enumerate [5, 7, 9]) out 2 :=
  (driver_request_correct mQ_lawful meanQ [(1, [0], [1, 2])] .ball (.leaf 1) 1 (by decide) (by decide)
    [5, 7, 9] 6 2 1).1
example : (vecMean [[(1 : ℚ), 2], [3, 4]]).length = 2 :=
  vecMean_length _ 2 (by simp) (by simp)
example : (meanDim 2 [v2 1 2, v2 3 4]).1 = vecMean [[(1 : ℚ), 2], [3, 4]] :=
  meanDim_val 2 _ (by simp)

end driver

open LinfaSpec.Drv.C07

/-! ### termination of the build, the k-nearest clause in the distance -/
section extra
variable {P α : Type} [Field α] [LinearOrder α] [IsStrictOrderedRing α]

/-- what `partition` guarantees besides the permutation: both halves are non-empty
(`debug_assert!(!aps.is_empty() && !bps.is_empty())`), which is why the real recursion terminates -/
def SplitNonempty (split : List (Pt P) → Option (List (Pt P) × P × List (Pt P))) : Prop :=
  ∀ pts a c b, split pts = some (a, c, b) → a ≠ [] ∧ b ≠ []

/-- **the fuel of `build` is not a modelling artefact**: with a split whose halves are non-empty (so
each half is strictly smaller) any fuel ≥ the number of points gives the same tree — the fuel never
is the reason for a leaf, the model's recursion is the recursion of `BallTreeInner::new`. -/
theorem build_fuel_irrelevant {m : Metric P α} {mean : List P → P}
    {split : List (Pt P) → Option (List (Pt P) × P × List (Pt P))} (hs : SplitPerm split)
    (hn : SplitNonempty split) (leafSize : Nat) (hl : 0 < leafSize) :
    ∀ (f1 f2 : Nat) (pts : List (Pt P)), (pts.map (·.2)).Nodup → pts.length ≤ f1 → pts.length ≤ f2 →
      build m mean split leafSize f1 pts = build m mean split leafSize f2 pts := by
  intro f1
  induction f1 with
  | zero =>
    intro f2 pts _ h1 _
    have h0 : pts.length ≤ leafSize := by omega
    cases f2 with
    | zero => rfl
    | succ k => simp [build, h0]
  | succ n ih =>
    intro f2 pts hnd h1 h2
    cases f2 with
    | zero =>
      have h0 : pts.length ≤ leafSize := by omega
      simp [build, h0]
    | succ k =>
      by_cases h0 : pts.length ≤ leafSize
      · simp [build, h0]
      · cases hsp : split pts with
        | none => simp [build, h0, hsp]
        | some t =>
          obtain ⟨a, c, b⟩ := t
          have hp := hs _ _ _ _ hnd hsp
          obtain ⟨hna, hnb⟩ := hn _ _ _ _ hsp
          obtain ⟨hda, hdb⟩ := nodup_halves hp hnd
          have hlen := hp.length_eq
          simp only [List.length_append] at hlen
          have ha : 0 < a.length := List.length_pos_iff.mpr hna
          have hb : 0 < b.length := List.length_pos_iff.mpr hnb
          simp only [build, h0, hsp, if_false]
          rw [ih k a hda (by omega) (by omega), ih k b hdb (by omega) (by omega)]

theorem scriptSplit_nonempty (script : Script) : SplitNonempty (scriptSplit (P := P) script) := by
  intro pts a c b h
  obtain ⟨_, _, ha, hb, _⟩ := scriptSplit_shape script pts a b c h
  exact ⟨ha, hb⟩

/-- the statement's k-nearest clause read in the DISTANCE (not the reduced distance): ascending, and
every stored point left out is at least as far as every returned one -/
theorem kNearest_dist_form {m : Metric P α} (hL : Lawful m) (q : P) (pts out : List (Pt P)) (k : Nat)
    (h : KNearest m q pts out k) :
    ∃ rest, (out ++ rest).Perm pts ∧ out.length = min k pts.length ∧
      out.Pairwise (fun a b => m.dist q a.1 ≤ m.dist q b.1) ∧
      ∀ y ∈ out, ∀ x ∈ rest, m.dist q y.1 ≤ m.dist q x.1 := by
  have hasc := kNearest_dist_ascending hL q pts out k h
  obtain ⟨rest, hp, hl, _, hm⟩ := h
  refine ⟨rest, hp, hl, hasc, ?_⟩
  intro y hy x hx
  have := hm y hy x hx
  rw [hL.rdist_eq, hL.rdist_eq] at this
  exact hL.le_of_toR_le (hL.dist_nonneg _ _) this


-- non-vacuity: the replayed split has non-empty halves, so fuel 3 (= n) and fuel 10 build the same tree
example : build mQ meanQ (scriptSplit [(1, [0], [1, 2])]) 1 3 (enumerate [(5 : ℚ), 7, 9]) =
    build mQ meanQ (scriptSplit [(1, [0], [1, 2])]) 1 10 (enumerate [(5 : ℚ), 7, 9]) :=
  build_fuel_irrelevant (scriptSplit_splitPerm _) (scriptSplit_nonempty _) 1 (by decide) 3 10 _
    (enumerate_nodup _) (by simp [enumerate]) (by simp [enumerate])
example : ∃ rest, (linearKnn mQ 2 3 (enumerate [0, 3, 1, 3, 7]) ++ rest).Perm (enumerate [0, 3, 1, 3, 7]) ∧
    (linearKnn mQ 2 3 (enumerate [0, 3, 1, 3, 7])).length = min 3 (enumerate [(0 : ℚ), 3, 1, 3, 7]).length ∧
    (linearKnn mQ 2 3 (enumerate [0, 3, 1, 3, 7])).Pairwise (fun a b => mQ.dist 2 a.1 ≤ mQ.dist 2 b.1) ∧
    ∀ y ∈ linearKnn mQ 2 3 (enumerate [0, 3, 1, 3, 7]), ∀ x ∈ rest, mQ.dist 2 y.1 ≤ mQ.dist 2 x.1 :=
  kNearest_dist_form mQ_lawful 2 _ _ 3 (linear_knn_correct mQ 2 3 _)

end extra

/-! ### the metric theorems on raw rows: the term the driver evaluates -/
section raw
variable {α : Type} [Field α] [LinearOrder α] [IsStrictOrderedRing α]

theorem scriptSplit_good {P : Type} (script : Script) : SplitGood (scriptSplit (P := P) script) := by
  intro pts a c b h
  obtain ⟨_, hsub, ha, hb, hc⟩ := scriptSplit_shape script pts a b c h
  exact ⟨hsub, ha, hb, hc⟩

/-- `KNearest` only reads the reduced distances from the query to stored points -/
theorem kNearest_congr {P : Type} {S : P → Prop} {m m' : Metric P α} (hA : Agree S m m') (q : P)
    (hq : S q) (pts : List (Pt P)) (hp : ∀ x ∈ pts, S x.1) (out : List (Pt P)) (k : Nat)
    (h : KNearest m' q pts out k) : KNearest m q pts out k := by
  obtain ⟨rest, hperm, hl, ha, hm⟩ := h
  have hin : ∀ x ∈ out ++ rest, S x.1 := fun x hx => hp x (hperm.subset hx)
  refine ⟨rest, hperm, hl, ?_, ?_⟩
  · refine List.Pairwise.imp_of_mem ?_ ha
    intro a b ha' hb' hab
    rw [hA.rdist _ _ hq (hin a (List.mem_append_left _ ha')),
      hA.rdist _ _ hq (hin b (List.mem_append_left _ hb'))]
    exact hab
  · intro y hy x hx
    rw [hA.rdist _ _ hq (hin y (List.mem_append_left _ hy)),
      hA.rdist _ _ hq (hin x (List.mem_append_right _ hx))]
    exact hm y hy x hx

/-- **the statement's clauses for the function the driver runs, on raw rows**: `m` any metric on
coordinate lists that is `Lawful` on the points of dimension `d` (proved for `mL1`, `mLinf`, `mL2`,
`mLp p` with `p ≥ 1`), the driver's `vecMean` and `scriptSplit script` (any script), every kind and
build form, leaf size ≥ 1, `d ≥ 1`, every batch of `d`-dimensional rows and `d`-dimensional query:
`knnRequest m vecMean (scriptSplit script) …` — literally the term `Drv/C07.run` evaluates — returns
`KNearest`, and `rangeRequest …` the stored points strictly inside the radius.  `ncols` and the query
dimension are the lengths of the rows and of `q`. -/
theorem raw_request_correct (m : Metric (List α) α) (d : Nat) (hL : Lawful (onDim d m))
    (script : Script) (kind : Kind) (form : Form) (hl : 0 < form.leafSize) (hd : 0 < d)
    (rows : List (List α)) (hrows : ∀ x ∈ rows, x.length = d) (q : List α) (hq : q.length = d)
    (k : Nat) (r : α) :
    (∃ out, knnRequest m vecMean (scriptSplit script) kind form d rows q.length q k = .ok out ∧
      KNearest m q (enumerate rows) out k) ∧
    (∃ out, rangeRequest m vecMean (scriptSplit script) kind form d rows q.length q r = .ok out ∧
      out.Perm (linearRange m q r (enumerate rows)) ∧
      (0 ≤ r → ∀ p, p ∈ out ↔ p ∈ enumerate rows ∧ m.dist q p.1 < r)) := by
  have hA := agree_fitM d m
  have hen : ∀ x ∈ enumerate rows, x.1.length = d := by
    intro x hx
    unfold enumerate at hx
    obtain ⟨p, i⟩ := x
    exact hrows p (List.mem_of_getElem? (List.mem_zipIdx_iff_getElem?.mp hx))
  obtain ⟨e1, e2⟩ := request_congr hA vecMean (fun ps hne hp => vecMean_length ps d hne hp)
    (scriptSplit script) (scriptSplit_good script) kind form d rows hrows q.length q hq k r
  obtain ⟨⟨o1, ho1, hk1⟩, ⟨o2, ho2, hp2, hi2⟩⟩ :=
    driver_request_correct (fitM_lawful hL) vecMean script kind form d hl hd rows q k r
  rw [hq]
  rw [hq] at e1 e2
  refine ⟨⟨o1, e1.trans ho1, kNearest_congr hA q hq _ hen o1 k hk1⟩, ⟨o2, e2.trans ho2, ?_, ?_⟩⟩
  · rw [linearRange_congr hA q hq r (enumerate rows) hen]
    exact hp2
  · intro hr p
    rw [hi2 hr p]
    constructor
    · rintro ⟨hm, hlt⟩
      exact ⟨hm, by rw [hA.dist _ _ hq (hen p hm)]; exact hlt⟩
    · rintro ⟨hm, hlt⟩
      exact ⟨hm, by rw [← hA.dist _ _ hq (hen p hm)]; exact hlt⟩

/-- `L1Dist` and `LInfDist` on raw rows, any ordered field -/
theorem raw_l1_linf_correct (d : Nat) (script : Script) (kind : Kind) (form : Form)
    (hl : 0 < form.leafSize) (hd : 0 < d) (rows : List (List α)) (hrows : ∀ x ∈ rows, x.length = d)
    (q : List α) (hq : q.length = d) (k : Nat) :
    (∃ out, knnRequest mL1 vecMean (scriptSplit script) kind form d rows q.length q k = .ok out ∧
      KNearest mL1 q (enumerate rows) out k) ∧
    (∃ out, knnRequest mLinf vecMean (scriptSplit script) kind form d rows q.length q k = .ok out ∧
      KNearest mLinf q (enumerate rows) out k) :=
  ⟨(raw_request_correct mL1 d (mL1_lawful d) script kind form hl hd rows hrows q hq k 0).1,
    (raw_request_correct mLinf d (mLinf_lawful d) script kind form hl hd rows hrows q hq k 0).1⟩

end raw

section rawreal
noncomputable local instance : Transc ℝ := ⟨Real.sqrt, Real.exp, Real.log⟩

/-- `L2Dist` and `LpDist(p)`, `p ≥ 1`, on raw rows over ℝ: k nearest and range (strictly inside) -/
theorem raw_l2_lp_correct {p : ℝ} (hp : 1 ≤ p) (d : Nat) (script : Script) (kind : Kind) (form : Form)
    (hl : 0 < form.leafSize) (hd : 0 < d) (rows : List (List ℝ)) (hrows : ∀ x ∈ rows, x.length = d)
    (q : List ℝ) (hq : q.length = d) (k : Nat) (r : ℝ) (hr : 0 ≤ r) :
    (∃ out, knnRequest mL2 vecMean (scriptSplit script) kind form d rows q.length q k = .ok out ∧
      KNearest mL2 q (enumerate rows) out k) ∧
    (∃ out, rangeRequest mL2 vecMean (scriptSplit script) kind form d rows q.length q r = .ok out ∧
      ∀ x, x ∈ out ↔ x ∈ enumerate rows ∧ Real.sqrt (sqL2 q x.1) < r) ∧
    (∃ out, knnRequest (mLp p) vecMean (scriptSplit script) kind form d rows q.length q k = .ok out ∧
      KNearest (mLp p) q (enumerate rows) out k) ∧
    (∃ out, rangeRequest (mLp p) vecMean (scriptSplit script) kind form d rows q.length q r = .ok out ∧
      ∀ x, x ∈ out ↔ x ∈ enumerate rows ∧ lp p q x.1 < r) := by
  obtain ⟨h1, o2, ho2, _, hi2⟩ :=
    raw_request_correct mL2 d (mL2_lawful d) script kind form hl hd rows hrows q hq k r
  obtain ⟨h3, o4, ho4, _, hi4⟩ :=
    raw_request_correct (mLp p) d (mLp_lawful hp d) script kind form hl hd rows hrows q hq k r
  exact ⟨h1, ⟨o2, ho2, hi2 hr⟩, h3, ⟨o4, ho4, hi4 hr⟩⟩

-- non-vacuity: the 3-4-5 batch as raw rows, script with one split, L2 radius 5 (the point (3,4) on it)
example : ∃ out, rangeRequest mL2 vecMean (scriptSplit [(1, [0], [1, 2])]) .ball (.leaf 1) 2
      [[3, 4], [1, 1], [6, 8]] ([0, 0] : List ℝ).length [0, 0] 5 = .ok out ∧
    ∀ x, x ∈ out ↔ x ∈ enumerate [[3, 4], [1, 1], [6, 8]] ∧ Real.sqrt (sqL2 [0, 0] x.1) < 5 :=
  (raw_l2_lp_correct (p := 1) le_rfl 2 [(1, [0], [1, 2])] .ball (.leaf 1) (by decide) (by decide)
    [[3, 4], [1, 1], [6, 8]] (by simp) [0, 0] rfl 2 5 (by norm_num)).2.1
example : ∃ out, knnRequest mL1 vecMean (scriptSplit []) .kd .default 2
      ([[3, 4], [1, 1], [6, 8]] : List (List ℚ)) ([0, 0] : List ℚ).length [0, 0] 2 = .ok out ∧
    KNearest mL1 ([0, 0] : List ℚ) (enumerate [[3, 4], [1, 1], [6, 8]]) out 2 :=
  (raw_l1_linf_correct (α := ℚ) 2 [] .kd .default (by decide) (by decide)
    [[3, 4], [1, 1], [6, 8]] (by simp) [0, 0] rfl 2).1

end rawreal

end LinfaSpec.Props.C07
