import LinfaSpec.Gen.Scalars
import LinfaSpec.Model.NN
import Mathlib.Analysis.SpecialFunctions.Log.Basic
import Mathlib.Analysis.Real.Sqrt
import Mathlib.Tactic.Linarith

/-!
# C07 — obligations about the reduced-distance conversions GENERATED from the Rust source

`LinfaSpec.Gen.Scalars.Dist` is regenerated from `algorithms/linfa-nn/src/distance.rs` on every
check (`rdist_to_dist` / `dist_to_rdist` of the trait's default and of every metric's override).
The range filter of all three indices compares `rdistance(q, p) < dist_to_rdist(radius)`, and the
ball tree prunes with `dist_to_rdist(max(distance - radius, 0))`; both are sound only if the two
conversions are mutually inverse and monotone on non-negative reals.
-/
set_option linter.unusedSectionVars false
namespace LinfaSpec.Props.GenC07
open LinfaSpec LinfaSpec.Gen.Scalars

section generic
variable {α : Type} [Add α] [Sub α] [Mul α] [Div α] [Neg α] [LT α] [DecidableLT α] [LE α] [DecidableLE α]
  [DecidableEq α] [OfNat α 0] [OfNat α 1] [OfScientific α] [Transc α]

/-- **the conversions in the source are those of the model metrics** (`toR` / `ofR` fields of
`NN.mL1`, `mLinf`, `mL2`, `mLp`) -/
theorem conversions_are_model (d : α) :
    (NN.mL1 (α := α)).toR d = Dist.L1Dist_dist_to_rdist d ∧ (NN.mL1 (α := α)).ofR d = Dist.L1Dist_rdist_to_dist d ∧
    (NN.mLinf (α := α)).toR d = Dist.LInfDist_dist_to_rdist d ∧ (NN.mLinf (α := α)).ofR d = Dist.LInfDist_rdist_to_dist d ∧
    (NN.mL2 (α := α)).toR d = Dist.L2Dist_dist_to_rdist d ∧ (NN.mL2 (α := α)).ofR d = Dist.L2Dist_rdist_to_dist d :=
  ⟨rfl, rfl, rfl, rfl, rfl, rfl⟩

/-- `LpDist` does not override the conversions: the trait's default (identity) applies -/
theorem lp_uses_default (d : α) :
    Dist.LpDist_dist_to_rdist d = Dist.Default_dist_to_rdist d ∧
    Dist.LpDist_rdist_to_dist d = Dist.Default_rdist_to_dist d ∧ Dist.Default_dist_to_rdist d = d ∧
    Dist.Default_rdist_to_dist d = d := ⟨rfl, rfl, rfl, rfl⟩

end generic

noncomputable local instance : Transc ℝ := ⟨Real.sqrt, Real.exp, Real.log⟩

/-- **for L2 the two conversions of the source are mutually inverse on non-negative reals and
`dist_to_rdist` is strictly monotone there**, so `rdist < dist_to_rdist r ↔ dist < r`: comparing
reduced distances decides exactly what comparing distances decides -/
theorem l2_conversions_sound (d r : ℝ) (hd : 0 ≤ d) (hr : 0 ≤ r) :
    Dist.L2Dist_rdist_to_dist (Dist.L2Dist_dist_to_rdist d) = d ∧
    Dist.L2Dist_dist_to_rdist (Dist.L2Dist_rdist_to_dist d) = d ∧
    (Dist.L2Dist_dist_to_rdist d < Dist.L2Dist_dist_to_rdist r ↔ d < r) := by
  refine ⟨?_, ?_, ?_⟩
  · show Real.sqrt (d * d) = d
    exact Real.sqrt_mul_self hd
  · show Real.sqrt d * Real.sqrt d = d
    exact Real.mul_self_sqrt hd
  · show d * d < r * r ↔ d < r
    constructor
    · intro h
      by_contra hcon
      have : r ≤ d := not_lt.mp hcon
      nlinarith
    · intro h; nlinarith

example : Dist.L2Dist_dist_to_rdist (3 : ℝ) = 9 ∧ Dist.L2Dist_rdist_to_dist (9 : ℝ) = 3 := by
  constructor
  · show (3 : ℝ) * 3 = 9; norm_num
  · show Real.sqrt 9 = 3
    rw [show (9 : ℝ) = 3 * 3 by norm_num, Real.sqrt_mul_self (by norm_num)]

end LinfaSpec.Props.GenC07
