import LinfaSpec.Proofs.Logistic
import LinfaSpec.Proofs.LogisticReal

/-!
# C12 — logistic regression and Tweedie GLM: coding, probabilities, gradients

Theorems about `LinfaSpec.Logistic` / `LinfaSpec.Glm` (the models of `linfa-logistic` and of the
Tweedie GLM of `linfa-linear`).  L-BFGS is not modelled; that the returned point is stationary is
checked by the oracle of the correspondence run, with the gradient these theorems speak about.
-/
namespace LinfaSpec.Props.C12
open LinfaSpec LinfaSpec.Logistic

/-! ## label coding -/

section Labels
variable {C : Type} [DecidableEq C]

/-- **`label_classes` codes with ±1**: when it succeeds the two reported classes are distinct,
every label is one of them, and sample `i` gets `+1` exactly when its label is the positive class
(else `-1`). -/
theorem labels_pm_one {α} [Ring α] (y : List C) (r : BinLabels C α)
    (h : labelClasses y = .ok r) :
    r.pos ≠ r.neg ∧ (∀ x ∈ y, x = r.pos ∨ x = r.neg) ∧
      r.target = y.map (fun x => if x = r.pos then (1 : α) else -1) := by
  unfold labelClasses at h
  cases hs : binScan (none, none) y with
  | none => simp [hs] at h
  | some st =>
    have hinv := binScan_inv y [] (none, none) st hs (by simp [ScanInv])
    simp only [List.nil_append] at hinv
    obtain ⟨s1, s2⟩ := st
    cases s1 with
    | none => cases s2 <;> simp [hs] at h
    | some a =>
      obtain ⟨a, na⟩ := a
      cases s2 with
      | none => simp [hs] at h
      | some b =>
        obtain ⟨b, nb⟩ := b
        simp only [ScanInv] at hinv
        obtain ⟨hab, -, -, -, -, hmem⟩ := hinv
        simp only [hs] at h
        by_cases hlt : na < nb
        · simp only [hlt, if_true, Except.ok.injEq] at h
          subst h
          refine ⟨fun e => hab e.symm, fun x hx => (hmem x hx).symm, ?_⟩
          simp only [List.map_map]
          apply List.map_congr_left
          intro x hx
          rcases hmem x hx with e | e
          · subst e; simp [hab]
          · subst e
            have : ¬ (x = a) := fun e => hab e.symm
            simp [this]
        · simp only [hlt, if_false, Except.ok.injEq] at h
          subst h
          exact ⟨hab, hmem, rfl⟩

/-- **the more frequent class is the positive one** (ties: the class seen first); both occur. -/
theorem larger_class_positive {α} [Ring α] (y : List C) (r : BinLabels C α)
    (h : labelClasses y = .ok r) :
    y.count r.neg ≤ y.count r.pos ∧ 0 < y.count r.neg := by
  unfold labelClasses at h
  cases hs : binScan (none, none) y with
  | none => simp [hs] at h
  | some st =>
    have hinv := binScan_inv y [] (none, none) st hs (by simp [ScanInv])
    simp only [List.nil_append] at hinv
    obtain ⟨s1, s2⟩ := st
    cases s1 with
    | none => cases s2 <;> simp [hs] at h
    | some a =>
      obtain ⟨a, na⟩ := a
      cases s2 with
      | none => simp [hs] at h
      | some b =>
        obtain ⟨b, nb⟩ := b
        simp only [ScanInv] at hinv
        obtain ⟨-, h1, h2, h3, h4, -⟩ := hinv
        simp only [hs] at h
        by_cases hlt : na < nb
        · simp only [hlt, if_true, Except.ok.injEq] at h
          subst h
          simp only
          omega
        · simp only [hlt, if_false, Except.ok.injEq] at h
          subst h
          simp only
          omega

/-- `label_classes` fails exactly on label vectors without two, or with more than two, distinct
values: success means exactly the two reported classes occur. -/
example : (labelClasses (α := Int) [3, 5, 5, 3, 5]).toOption.map (fun r => (r.pos, r.neg, r.target)) =
    some (5, 3, [-1, 1, 1, -1, 1]) := by decide
example : (labelClasses (α := Int) [3, 5, 3]).toOption.map (fun r => (r.pos, r.neg, r.target)) =
    some (3, 5, [1, -1, 1]) := by decide
example : ((labelClasses (α := Int) [3, 5, 7]).toOption.map (·.pos)) = none := by decide
example : ((labelClasses (α := Int) [3, 3]).toOption.map (·.pos)) = none := by decide

end Labels

section Multi
variable {C : Type} [LinearOrder C]

/-- **`label_classes_multi` reports the sorted set of classes**: strictly increasing (so without
repetition) and containing exactly the labels that occur. -/
theorem classes_sorted_dedup (y : List C) :
    (classesOf y).Pairwise (· < ·) ∧ ∀ x, x ∈ classesOf y ↔ x ∈ y :=
  ⟨classesOf_pairwise y, mem_classesOf y⟩

/-- **one-hot rows**: the row of a sample with label `c` has one entry per class, entry `j` is `1`
exactly when class `j` is `c` and `0` otherwise — exactly one `1`, at the rank of `c`. -/
theorem onehot_row {α} [Zero α] [One α] (y : List C) (c : C) (hc : c ∈ y) :
    (onehotRow (α := α) (classesOf y) c).length = (classesOf y).length ∧
    (classesOf y).idxOf c < (classesOf y).length ∧
    ∀ j (hj : j < (classesOf y).length),
      (onehotRow (α := α) (classesOf y) c)[j]? = some (if (classesOf y)[j] = c then 1 else 0) ∧
      ((classesOf y)[j] = c ↔ j = (classesOf y).idxOf c) := by
  have hmem : c ∈ classesOf y := (mem_classesOf y c).mpr hc
  have hnd : (classesOf y).Nodup := (classesOf_pairwise y).imp (fun h => ne_of_lt h)
  have hidx : (classesOf y).idxOf c < (classesOf y).length := List.idxOf_lt_length_of_mem hmem
  refine ⟨by simp [onehotRow], hidx, ?_⟩
  intro j hj
  have hiff : (classesOf y)[j] = c ↔ j = (classesOf y).idxOf c := by
    constructor
    · intro h
      rw [← h, List.Nodup.idxOf_getElem hnd]
    · intro h
      subst h
      exact List.getElem_idxOf hidx
  refine ⟨?_, hiff⟩
  unfold onehotRow
  rw [List.getElem?_set]
  by_cases hji : (classesOf y).idxOf c = j
  · have : (classesOf y)[j] = c := hiff.mpr hji.symm
    simp [hji, hj, this]
  · have : ¬ (classesOf y)[j] = c := fun h => hji (hiff.mp h).symm
    simp [hji, hj, this]

example : (classesOf [3, 1, 3, 2, 1]).Pairwise (· < ·) ∧ 2 ∈ classesOf [3, 1, 3, 2, 1] :=
  ⟨(classes_sorted_dedup _).1, ((classes_sorted_dedup _).2 2).mpr (by decide)⟩
example : (onehotRow (α := Int) (classesOf [3, 1, 3]) 3).length = (classesOf [3, 1, 3]).length :=
  (onehot_row [3, 1, 3] 3 (by decide)).1

end Multi

/-! ## scalar laws (over `ℝ`; `exp`/`ln` are `Real.exp`/`Real.log`) -/

section Scalar

theorem logistic_eq (x : ℝ) : logistic x = 1 / (1 + Real.exp (-x)) := rfl

/-- **`logistic` maps into the open unit interval** -/
theorem logistic_range (x : ℝ) : 0 < logistic x ∧ logistic x < 1 := by
  rw [logistic_eq]
  have h : 0 < Real.exp (-x) := Real.exp_pos _
  constructor
  · positivity
  · rw [div_lt_one (by linarith)]
    linarith

/-- **both branches of `log_logistic` compute `ln (logistic x)`** -/
theorem log_logistic_branches (x : ℝ) : logLogistic x = Real.log (logistic x) := by
  rw [logistic_eq, one_div, Real.log_inv]
  unfold logLogistic
  split_ifs with h
  · rfl
  · show x - Real.log (1 + Real.exp x) = -Real.log (1 + Real.exp (-x))
    have h1 : 1 + Real.exp (-x) = (1 + Real.exp x) / Real.exp x := by
      rw [Real.exp_neg]; field_simp; ring
    rw [h1, Real.log_div (by positivity) (by positivity), Real.log_exp]
    ring

example : (0 : ℝ) < logistic 1000 ∧ logistic (-1000 : ℝ) < 1 := ⟨(logistic_range _).1, (logistic_range _).2⟩

/-- shape of `softmax_inplace` on a non-empty row -/
theorem softmax_cons (a : ℝ) (as : List ℝ) :
    softmax (a :: as) = (a :: as).map (fun n => Real.exp (n - as.foldl maxS a) /
      ((a :: as).map fun n => Real.exp (n - as.foldl maxS a)).sum) := by
  simp only [softmax, maxList, sumS_eq_sum, List.map_map]
  rfl

theorem softmax_denominator_pos (a : ℝ) (as : List ℝ) (m : ℝ) :
    0 < ((a :: as).map fun n => Real.exp (n - m)).sum := by
  simp only [List.map_cons, List.sum_cons]
  have h1 : 0 < Real.exp (a - m) := Real.exp_pos _
  have h2 : 0 ≤ (as.map fun n => Real.exp (n - m)).sum := by
    apply List.sum_nonneg
    intro x hx
    obtain ⟨n, -, rfl⟩ := List.mem_map.mp hx
    exact (Real.exp_pos _).le
  linarith

/-- **softmax entries are non-negative** (indeed positive) -/
theorem softmax_nonneg (v : List ℝ) : ∀ p ∈ softmax v, 0 ≤ p := by
  cases v with
  | nil => simp [softmax, maxList]
  | cons a as =>
    intro p hp
    rw [softmax_cons] at hp
    obtain ⟨n, -, rfl⟩ := List.mem_map.mp hp
    exact div_nonneg (Real.exp_pos _).le (softmax_denominator_pos a as _).le

/-- **softmax rows sum to one** -/
theorem softmax_sum_one (v : List ℝ) (hv : v ≠ []) : (softmax v).sum = 1 := by
  cases v with
  | nil => exact absurd rfl hv
  | cons a as =>
    rw [softmax_cons]
    have hpos := softmax_denominator_pos a as (as.foldl maxS a)
    have : ∀ (l : List ℝ) (s : ℝ), (l.map fun n => Real.exp (n - as.foldl maxS a) / s).sum =
        (l.map fun n => Real.exp (n - as.foldl maxS a)).sum / s := by
      intro l s
      induction l with
      | nil => simp
      | cons b bs ih => simp only [List.map_cons, List.sum_cons, ih]; ring
    rw [this]
    exact div_self (ne_of_gt hpos)

/-- hence every softmax entry is at most one -/
theorem softmax_le_one (v : List ℝ) : ∀ p ∈ softmax v, p ≤ 1 := by
  intro p hp
  have hv : v ≠ [] := by
    rintro rfl
    simp [softmax, maxList] at hp
  have hs := softmax_sum_one v hv
  have := List.single_le_sum (softmax_nonneg v) p hp
  linarith

/-- **softmax is invariant under a common shift of the scores** -/
theorem softmax_shift_invariant (v : List ℝ) (c : ℝ) : softmax (v.map (· + c)) = softmax v := by
  cases v with
  | nil => rfl
  | cons a as =>
    rw [List.map_cons, softmax_cons, softmax_cons, foldl_maxS_shift]
    simp only [List.map_cons, List.map_map, Function.comp_def, add_sub_add_right_eq_sub]

/-- softmax is a strictly increasing function applied to every score -/
theorem softmax_eq_map_strictMono (a : ℝ) (as : List ℝ) :
    ∃ f : ℝ → ℝ, StrictMono f ∧ softmax (a :: as) = (a :: as).map f := by
  refine ⟨fun n => Real.exp (n - as.foldl maxS a) /
      ((a :: as).map fun n => Real.exp (n - as.foldl maxS a)).sum, ?_, softmax_cons a as⟩
  intro x y hxy
  have hpos := softmax_denominator_pos a as (as.foldl maxS a)
  exact div_lt_div_of_pos_right (Real.exp_lt_exp.mpr (by linarith)) hpos

/-- **the arg-max of the un-normalised scores (what `predict` uses) is the arg-max of the
probabilities (what `predict_probabilities` reports)** -/
theorem argmax_scores_eq_argmax_softmax (v : List ℝ) : argmax (softmax v) = argmax v := by
  cases v with
  | nil => rfl
  | cons a as =>
    obtain ⟨f, hf, he⟩ := softmax_eq_map_strictMono a as
    rw [he]
    exact argmax_map f hf (a :: as)

/-- so the multinomial prediction is the class with the largest reported probability -/
theorem predict_multi_matches_probabilities {C} [Inhabited C] (k : Nat) (x : List (List ℝ))
    (params : List (List ℝ)) (b : List ℝ) (classes : List C) :
    predictMulti k x params b classes =
      (predictProbaMulti k x params b).map fun p => classes.getD (argmax p) default := by
  simp only [predictMulti, predictProbaMulti, List.map_map, Function.comp_def,
    argmax_scores_eq_argmax_softmax]

/-- **the binary prediction is the positive class exactly when the reported probability reaches
the threshold** -/
theorem predict_matches_threshold {C} (x : List (List ℝ)) (params : List ℝ) (b thr : ℝ)
    (pos neg : C) (hne : pos ≠ neg) (i : Nat) (hi : i < x.length) :
    ∃ p c, (predictProba x params b)[i]? = some p ∧ (predictBinary x params b thr pos neg)[i]? = some c ∧
      0 < p ∧ p < 1 ∧ (c = pos ↔ thr ≤ p) ∧ (c = neg ↔ p < thr) := by
  have hlen : i < (predictProba x params b).length := by simp [predictProba, linPred, hi]
  refine ⟨(predictProba x params b)[i], if thr ≤ (predictProba x params b)[i] then pos else neg, by simp [hlen], ?_, ?_⟩
  · simp [predictBinary, hlen]
  · have hp : (predictProba x params b)[i] ∈ predictProba x params b := List.getElem_mem hlen
    obtain ⟨z, -, hz⟩ := List.mem_map.mp hp
    rw [← hz]
    refine ⟨(logistic_range z).1, (logistic_range z).2, ?_, ?_⟩
    · split_ifs with h
      · simp [h]
      · simp [h, hne.symm]
    · split_ifs with h
      · simp [hne, not_lt.mpr h]
      · simp [not_le.mp h]

example : softmax ([1, 2, 3] : List ℝ) ≠ [] ∧ (softmax ([1, 2, 3] : List ℝ)).sum = 1 :=
  ⟨by rw [softmax_cons]; simp, softmax_sum_one _ (by simp)⟩

end Scalar

/-! ## gradients: per-term derivative lemmas, then the whole binary gradient

Full statement of the binary case (proved in full below; the multinomial and Tweedie cases stay `_partial`):

  for `w` of length `nf (+1)`, every coordinate `j`,
  `HasDerivAt (fun t => logisticLoss nf x y α (w.set j t)) ((logisticGrad nf x y α w).get j) w[j]`

Proved in full below (`logistic_grad_is_derivative_weight`, `_intercept`, `_no_intercept`): first the derivative of
every summand the loss consists of (per sample and coordinate, and the penalty), then the sum rule by induction over
the sample list, then the `List.set`/`splitParams` bookkeeping. -/

section Grad

/-- derivative of the per-sample loss `-log_logistic u = ln(1 + e^{-u})` is `logistic u - 1` -/
theorem neg_log_logistic_hasDerivAt (u : ℝ) :
    HasDerivAt (fun u : ℝ => -logLogistic u) (logistic u - 1) u := by
  have hfun : (fun u : ℝ => -logLogistic u) = fun u => Real.log (1 + Real.exp (-u)) := by
    funext v
    rw [log_logistic_branches, logistic_eq, one_div, Real.log_inv, neg_neg]
  rw [hfun]
  have hpos : 0 < 1 + Real.exp (-u) := by positivity
  have h1 : HasDerivAt (fun v : ℝ => 1 + Real.exp (-v)) (-Real.exp (-u)) u := by
    have := ((hasDerivAt_id u).neg).exp
    simpa using this.const_add 1
  have h2 := h1.log (ne_of_gt hpos)
  convert h2 using 1
  rw [logistic_eq]
  field_simp
  ring

/-- **per-sample, per-coordinate term** (`_partial` of `logistic_grad_is_derivative`): if the linear
predictor of a sample depends on the coordinate `t` as `z₀ + xj (t - w₀)` (weight `j`: `xj = x_ij`;
intercept: `xj = 1`), the sample's loss has derivative `(logistic(z y) - 1) * y * xj` at `w₀` —
the summand `residuals[i] * x_ij` of `logistic_grad`. -/
theorem logistic_grad_is_derivative_partial (z0 xj w0 y : ℝ) :
    HasDerivAt (fun t : ℝ => -logLogistic ((z0 + xj * (t - w0)) * y))
      ((logistic (z0 * y) - 1) * y * xj) w0 := by
  have hin : HasDerivAt (fun t : ℝ => (z0 + xj * (t - w0)) * y) (xj * y) w0 := by
    have := (((hasDerivAt_id w0).sub_const w0).const_mul xj).const_add z0
    simpa using this.mul_const y
  have hout := neg_log_logistic_hasDerivAt ((z0 + xj * (w0 - w0)) * y)
  have h := HasDerivAt.comp w0 hout hin
  simp only [sub_self, mul_zero, add_zero] at h
  exact h.congr_deriv (by ring)

/-- the penalty `0.5 * alpha * (c + t^2)` (weights only) has derivative `t * alpha` — the summand
`params * alpha` of the gradient; the intercept does not occur in it -/
theorem penalty_hasDerivAt (alpha c t : ℝ) :
    HasDerivAt (fun t : ℝ => (Logistic.half : ℝ) * alpha * (c + t * t)) (t * alpha) t := by
  have h := (((hasDerivAt_id t).mul (hasDerivAt_id t)).const_add c).const_mul ((Logistic.half : ℝ) * alpha)
  exact h.congr_deriv (by simp only [Logistic.half, id]; ring)

/-- the gradient the code returns is assembled from exactly these summands: weight block
`Xᵀ r + alpha w`, intercept entry `Σ r` (no penalty), with `r = residuals` -/
theorem logistic_grad_structure (nf : Nat) (x : List (List ℝ)) (y w : List ℝ) (alpha : ℝ)
    (hw : w.length = nf + 1) :
    logisticGrad nf x y alpha w =
      some (List.zipWith (· + ·) (tDot nf x (residuals x y (w.take nf) ((w.drop nf).headD 0)))
              ((w.take nf).map (· * alpha)) ++
            [sumS (residuals x y (w.take nf) ((w.drop nf).headD 0))]) := by
  simp [logisticGrad, splitParams, hw]

/-! #### the whole gradient (sum rule over the sample list carried through `sumS ∘ zipWith`, `List.set` /
`splitParams` bookkeeping): `logistic_grad_is_derivative_{weight, intercept, no_intercept}` are the FULL statement
`HasDerivAt (fun t => logisticLoss nf x y α (w.set j t)) (logisticGrad nf x y α w)[j] w[j]` for every sample list,
target list, parameter vector, `alpha`, and every coordinate `j` -/

/-- sum rule over the sample list, weight coordinate `j`: the data part of `logistic_loss` as a function of
weight `j` has derivative `(Xᵀ r)[j]`, `r = residuals` -/
theorem data_loss_hasDerivAt_weight (x : List (List ℝ)) (y p : List ℝ) (b : ℝ) (j : Nat) (hj : j < p.length) :
    HasDerivAt (fun t : ℝ => -(sumS ((List.zipWith (· * ·) (linPred x (p.set j t) b) y).map logLogistic)))
      (dotS (col x j) (residuals x y p b)) (p.getD j 0) := by
  induction x generalizing y with
  | nil => simpa [linPred, residuals, col, sumS, dotS] using hasDerivAt_const (p.getD j 0) (0 : ℝ)
  | cons r xs ih =>
    cases y with
    | nil => simpa [linPred, residuals, col, sumS, dotS] using hasDerivAt_const (p.getD j 0) (0 : ℝ)
    | cons yi ys =>
      have hhead : HasDerivAt (fun t : ℝ => -logLogistic ((dotS r (p.set j t) + b) * yi))
          ((logistic ((dotS r p + b) * yi) - 1) * yi * r.getD j 0) (p.getD j 0) := by
        have h := logistic_grad_is_derivative_partial (dotS r p + b) (r.getD j 0) (p.getD j 0) yi
        have e : (fun t : ℝ => -logLogistic ((dotS r (p.set j t) + b) * yi)) =
            fun t : ℝ => -logLogistic ((dotS r p + b + r.getD j 0 * (t - p.getD j 0)) * yi) := by
          funext t
          rw [dotS_set r p j t hj]
          ring_nf
        rw [e]; exact h
      have htail := ih ys
      have hsum := hhead.add htail
      have e1 : (fun t : ℝ => -(sumS ((List.zipWith (· * ·) (linPred (r :: xs) (p.set j t) b) (yi :: ys)).map logLogistic))) =
          fun t : ℝ => -logLogistic ((dotS r (p.set j t) + b) * yi) +
            -(sumS ((List.zipWith (· * ·) (linPred xs (p.set j t) b) ys).map logLogistic)) := by
        funext t
        simp only [linPred, List.map_cons, List.zipWith_cons_cons, sumS_cons]
        ring
      have e2 : dotS (col (r :: xs) j) (residuals (r :: xs) (yi :: ys) p b) =
          (logistic ((dotS r p + b) * yi) - 1) * yi * r.getD j 0 + dotS (col xs j) (residuals xs ys p b) := by
        simp only [col, residuals, linPred, List.map_cons, List.zipWith_cons_cons, dotS_cons]
        ring
      rw [e1, e2]
      exact hsum

/-- sum rule, intercept coordinate: derivative `Σ r` -/
theorem data_loss_hasDerivAt_intercept (x : List (List ℝ)) (y p : List ℝ) (b : ℝ) :
    HasDerivAt (fun t : ℝ => -(sumS ((List.zipWith (· * ·) (linPred x p t) y).map logLogistic)))
      (sumS (residuals x y p b)) b := by
  induction x generalizing y with
  | nil => simpa [linPred, residuals, sumS] using hasDerivAt_const b (0 : ℝ)
  | cons r xs ih =>
    cases y with
    | nil => simpa [linPred, residuals, sumS] using hasDerivAt_const b (0 : ℝ)
    | cons yi ys =>
      have hhead : HasDerivAt (fun t : ℝ => -logLogistic ((dotS r p + t) * yi))
          ((logistic ((dotS r p + b) * yi) - 1) * yi) b := by
        have h := logistic_grad_is_derivative_partial (dotS r p + b) 1 b yi
        have e : (fun t : ℝ => -logLogistic ((dotS r p + t) * yi)) =
            fun t : ℝ => -logLogistic ((dotS r p + b + 1 * (t - b)) * yi) := by
          funext t
          ring_nf
        rw [e]; simpa using h
      have hsum := hhead.add (ih ys)
      have e1 : (fun t : ℝ => -(sumS ((List.zipWith (· * ·) (linPred (r :: xs) p t) (yi :: ys)).map logLogistic))) =
          fun t : ℝ => -logLogistic ((dotS r p + t) * yi) +
            -(sumS ((List.zipWith (· * ·) (linPred xs p t) ys).map logLogistic)) := by
        funext t
        simp only [linPred, List.map_cons, List.zipWith_cons_cons, sumS_cons]
        ring
      have e2 : sumS (residuals (r :: xs) (yi :: ys) p b) =
          (logistic ((dotS r p + b) * yi) - 1) * yi + sumS (residuals xs ys p b) := by
        simp only [residuals, linPred, List.map_cons, List.zipWith_cons_cons, sumS_cons]
      rw [e1, e2]
      exact hsum


theorem penalty_set_hasDerivAt (p : List ℝ) (alpha : ℝ) (j : Nat) (hj : j < p.length) :
    HasDerivAt (fun t : ℝ => (Logistic.half : ℝ) * alpha * dotS (p.set j t) (p.set j t))
      (p.getD j 0 * alpha) (p.getD j 0) := by
  have e : (fun t : ℝ => (Logistic.half : ℝ) * alpha * dotS (p.set j t) (p.set j t)) =
      fun t : ℝ => (Logistic.half : ℝ) * alpha * ((dotS p p - p.getD j 0 * p.getD j 0) + t * t) := by
    funext t; rw [dotS_set_self p j t hj]
  rw [e]
  exact penalty_hasDerivAt alpha _ _

/-- the loss with the parameters already split -/
theorem loss_split (nf : Nat) (x : List (List ℝ)) (y w : List ℝ) (alpha : ℝ) (hw : w.length = nf + 1) :
    logisticLoss nf x y alpha w =
      some (-(sumS ((List.zipWith (· * ·) (linPred x (w.take nf) ((w.drop nf).headD 0)) y).map logLogistic)) +
        Logistic.half * alpha * dotS (w.take nf) (w.take nf)) := by
  simp [logisticLoss, splitParams, hw]

theorem grad_entry_weight (nf : Nat) (x : List (List ℝ)) (y w : List ℝ) (alpha : ℝ)
    (hw : w.length = nf + 1) (j : Nat) (hj : j < nf) :
    ((logisticGrad nf x y alpha w).getD []).getD j 0 =
      dotS (col x j) (residuals x y (w.take nf) ((w.drop nf).headD 0)) + (w.take nf).getD j 0 * alpha := by
  rw [logistic_grad_structure nf x y w alpha hw]
  have hl : (w.take nf).length = nf := by simp [hw]
  have hjw : j < w.length := by omega
  have h1 : (tDot nf x (residuals x y (w.take nf) ((w.drop nf).headD 0)))[j]? =
      some (dotS (col x j) (residuals x y (w.take nf) ((w.drop nf).headD 0))) := by
    simp [tDot, hj]
  have h2 : ((w.take nf).map (· * alpha))[j]? = some ((w.take nf).getD j 0 * alpha) := by
    simp [List.getD_eq_getElem?_getD, hj, hjw]
  have hlen : (List.zipWith (· + ·) (tDot nf x (residuals x y (w.take nf) ((w.drop nf).headD 0)))
      ((w.take nf).map (· * alpha))).length = nf := by
    simp [tDot]; omega
  rw [Option.getD_some, List.getD_eq_getElem?_getD, List.getElem?_append_left (by rw [hlen]; exact hj),
    List.getElem?_zipWith, h1, h2]
  rfl


/-- **FULL (weight coordinate, model with intercept)**: entry `j < nf` of `logisticGrad` is the partial derivative
of `logisticLoss` with respect to weight `j`, for every sample list, every target list and every parameter vector -/
theorem logistic_grad_is_derivative_weight (nf : Nat) (x : List (List ℝ)) (y w : List ℝ) (alpha : ℝ)
    (hw : w.length = nf + 1) (j : Nat) (hj : j < nf) :
    HasDerivAt (fun t : ℝ => (logisticLoss nf x y alpha (w.set j t)).getD 0)
      (((logisticGrad nf x y alpha w).getD []).getD j 0) (w.getD j 0) := by
  have hjp : j < (w.take nf).length := by simp [hw]; omega
  have hwj : (w.take nf).getD j 0 = w.getD j 0 := by
    simp [List.getD_eq_getElem?_getD, hj]
  have e : (fun t : ℝ => (logisticLoss nf x y alpha (w.set j t)).getD 0) =
      fun t : ℝ => -(sumS ((List.zipWith (· * ·) (linPred x ((w.take nf).set j t) ((w.drop nf).headD 0)) y).map logLogistic)) +
        Logistic.half * alpha * dotS ((w.take nf).set j t) ((w.take nf).set j t) := by
    funext t
    rw [loss_split nf x y (w.set j t) alpha (by simpa using hw), Option.getD_some, List.take_set,
      List.drop_set_of_lt hj]
  rw [e, grad_entry_weight nf x y w alpha hw j hj, ← hwj]
  exact (data_loss_hasDerivAt_weight x y (w.take nf) ((w.drop nf).headD 0) j hjp).add
    (penalty_set_hasDerivAt (w.take nf) alpha j hjp)


theorem grad_entry_intercept (nf : Nat) (x : List (List ℝ)) (y w : List ℝ) (alpha : ℝ)
    (hw : w.length = nf + 1) :
    ((logisticGrad nf x y alpha w).getD []).getD nf 0 =
      sumS (residuals x y (w.take nf) ((w.drop nf).headD 0)) := by
  rw [logistic_grad_structure nf x y w alpha hw]
  have hlen : (List.zipWith (· + ·) (tDot nf x (residuals x y (w.take nf) ((w.drop nf).headD 0)))
      ((w.take nf).map (· * alpha))).length = nf := by
    simp [tDot]; omega
  rw [Option.getD_some, List.getD_eq_getElem?_getD, List.getElem?_append_right (by rw [hlen]), hlen]
  simp

/-- **FULL (intercept coordinate)**: the last entry of `logisticGrad` is the partial derivative of `logisticLoss`
with respect to the intercept (no penalty term) -/
theorem logistic_grad_is_derivative_intercept (nf : Nat) (x : List (List ℝ)) (y w : List ℝ) (alpha : ℝ)
    (hw : w.length = nf + 1) :
    HasDerivAt (fun t : ℝ => (logisticLoss nf x y alpha (w.set nf t)).getD 0)
      (((logisticGrad nf x y alpha w).getD []).getD nf 0) ((w.drop nf).headD 0) := by
  have e : (fun t : ℝ => (logisticLoss nf x y alpha (w.set nf t)).getD 0) =
      fun t : ℝ => -(sumS ((List.zipWith (· * ·) (linPred x (w.take nf) t) y).map logLogistic)) +
        Logistic.half * alpha * dotS (w.take nf) (w.take nf) := by
    funext t
    rw [loss_split nf x y (w.set nf t) alpha (by simpa using hw), Option.getD_some,
      List.take_set_of_le (le_refl nf)]
    have : ((w.set nf t).drop nf).headD 0 = t := by
      rw [List.drop_set]
      have hl : (w.drop nf).length = 1 := by simp [hw]
      match hd : w.drop nf, hl with
      | [a], _ => simp
    rw [this]
  rw [e, grad_entry_intercept nf x y w alpha hw]
  exact (data_loss_hasDerivAt_intercept x y (w.take nf) ((w.drop nf).headD 0)).add_const _


/-- **FULL (model without intercept)**: `w.length = nf`: every entry of `logisticGrad` is the partial derivative of
`logisticLoss` -/
theorem logistic_grad_is_derivative_no_intercept (nf : Nat) (x : List (List ℝ)) (y w : List ℝ) (alpha : ℝ)
    (hw : w.length = nf) (j : Nat) (hj : j < nf) :
    HasDerivAt (fun t : ℝ => (logisticLoss nf x y alpha (w.set j t)).getD 0)
      (((logisticGrad nf x y alpha w).getD []).getD j 0) (w.getD j 0) := by
  have hjw : j < w.length := by omega
  have e : (fun t : ℝ => (logisticLoss nf x y alpha (w.set j t)).getD 0) =
      fun t : ℝ => -(sumS ((List.zipWith (· * ·) (linPred x (w.set j t) 0) y).map logLogistic)) +
        Logistic.half * alpha * dotS (w.set j t) (w.set j t) := by
    funext t
    simp [logisticLoss, splitParams, hw]
  have g : ((logisticGrad nf x y alpha w).getD []).getD j 0 =
      dotS (col x j) (residuals x y w 0) + w.getD j 0 * alpha := by
    have h1 : (tDot nf x (residuals x y w 0))[j]? = some (dotS (col x j) (residuals x y w 0)) := by
      simp [tDot, hj]
    have h2 : (w.map (· * alpha))[j]? = some (w.getD j 0 * alpha) := by
      simp [List.getD_eq_getElem?_getD, hjw]
    simp only [logisticGrad, splitParams, hw, if_true]
    have hne : ¬ (nf = nf + 1) := by omega
    simp only [hne, if_false, Option.getD_some]
    rw [List.getD_eq_getElem?_getD, List.getElem?_zipWith, h1, h2]
    rfl
  rw [e, g]
  exact (data_loss_hasDerivAt_weight x y w 0 j hjw).add (penalty_set_hasDerivAt w alpha j hjw)

example : HasDerivAt (fun t : ℝ => (logisticLoss 2 [[1, 2], [3, -1], [0, 1]] [1, -1, 1] (1 / 2) (([1, 2, 3] : List ℝ).set 1 t)).getD 0)
    (((logisticGrad 2 [[1, 2], [3, -1], [0, 1]] [1, -1, 1] (1 / 2) ([1, 2, 3] : List ℝ)).getD []).getD 1 0)
    (([1, 2, 3] : List ℝ).getD 1 0) :=
  logistic_grad_is_derivative_weight 2 [[1, 2], [3, -1], [0, 1]] [1, -1, 1] [1, 2, 3] (1 / 2) rfl 1 (by norm_num)

example : HasDerivAt (fun t : ℝ => (logisticLoss 2 [[1, 2], [3, -1], [0, 1]] [1, -1, 1] (1 / 2) (([1, 2, 3] : List ℝ).set 2 t)).getD 0)
    (((logisticGrad 2 [[1, 2], [3, -1], [0, 1]] [1, -1, 1] (1 / 2) ([1, 2, 3] : List ℝ)).getD []).getD 2 0)
    ((([1, 2, 3] : List ℝ).drop 2).headD 0) :=
  logistic_grad_is_derivative_intercept 2 [[1, 2], [3, -1], [0, 1]] [1, -1, 1] [1, 2, 3] (1 / 2) rfl

example : HasDerivAt (fun t : ℝ => (logisticLoss 2 [[1, 2], [3, -1]] [1, -1] 1 (([1, 2] : List ℝ).set 0 t)).getD 0)
    (((logisticGrad 2 [[1, 2], [3, -1]] [1, -1] 1 ([1, 2] : List ℝ)).getD []).getD 0 0)
    (([1, 2] : List ℝ).getD 0 0) :=
  logistic_grad_is_derivative_no_intercept 2 [[1, 2], [3, -1]] [1, -1] [1, 2] 1 rfl 0 (by norm_num)

example : HasDerivAt (fun t : ℝ => -logLogistic ((2 + 3 * (t - 1)) * (-1)))
    ((logistic (2 * (-1)) - 1) * (-1) * 3) 1 := logistic_grad_is_derivative_partial 2 3 1 (-1)

/-! ### multinomial

Full statement (not proved as a whole): every entry of `multiLogisticGrad` is the partial derivative
of `multiLogisticLoss` (penalty on the weight rows only, intercept row = column sums of
`softmax(H) - Y`).  Proved: the quantity the gradient code calls `prob` IS the row-wise softmax (the
`1e-15` floor is inactive once the max is taken per row), and the block structure of the result.
Missing: the derivative of `ln Σ exp` per coordinate carried through the list sums. -/

/-- **`exp(H - log_sum_exp(H))` is the softmax of the row** (for any floor `eps ≤ 1`; the code's is
`1e-15`) — `multi_logistic_grad` and `predict_probabilities` speak of the same probabilities. -/
theorem exp_logprob_is_softmax (eps : ℝ) (heps : eps ≤ 1) (a : ℝ) (as : List ℝ) :
    (a :: as).map (fun h => Real.exp (h - logSumExpRow eps (a :: as))) = softmax (a :: as) := by
  set m := as.foldl maxS a with hm
  have hmem : m ∈ a :: as := by
    rcases foldl_maxS_mem as a with h | h
    · rw [hm, h]; simp
    · exact List.mem_cons_of_mem _ h
  set S := ((a :: as).map fun e => Real.exp (e - m)).sum with hS
  have hS1 : 1 ≤ S := by
    have hnn : ∀ x ∈ (a :: as).map (fun e => Real.exp (e - m)), 0 ≤ x := by
      intro x hx
      obtain ⟨n, -, rfl⟩ := List.mem_map.mp hx
      exact (Real.exp_pos _).le
    have := List.single_le_sum hnn (Real.exp (m - m)) (List.mem_map.mpr ⟨m, hmem, rfl⟩)
    rw [sub_self, Real.exp_zero] at this
    exact this
  have hlse : logSumExpRow eps (a :: as) = Real.log S + m := by
    simp only [logSumExpRow, maxList]
    show Real.log (maxS (List.foldl (fun acc e => acc + Real.exp (e - m)) 0 (a :: as)) eps) + m = _
    rw [foldl_add_exp, zero_add, maxS_eq_max, max_eq_left (le_trans heps hS1)]
  have hsm : softmax (a :: as) = (a :: as).map (fun n => Real.exp (n - m) / S) := by
    simp only [softmax, maxList, sumS_eq_sum, List.map_map]
    rfl
  rw [hsm, hlse]
  apply List.map_congr_left
  intro h _
  have hSpos : 0 < S := by linarith
  rw [show h - (Real.log S + m) = (h - m) - Real.log S by ring, Real.exp_sub, Real.exp_log hSpos]

/-- block structure of the multinomial gradient: weight rows `Xᵀ(P - Y) + alpha W`, then one
intercept row of column sums of `P - Y` without penalty -/
theorem multi_logistic_grad_structure (eps : ℝ) (nf k : Nat) (x y w : List (List ℝ)) (alpha : ℝ)
    (hw : w.length = nf + 1) :
    multiLogisticGrad eps nf k x y alpha w =
      some ((List.range nf).map (fun j => (List.range k).map fun c =>
              dotS (col x j) (col (multiDiff eps k x y (w.take nf) ((w.drop nf).headD [])) c) +
                ((w.take nf).getD j []).getD c 0 * alpha) ++
            [(List.range k).map fun c => sumS (col (multiDiff eps k x y (w.take nf) ((w.drop nf).headD [])) c)]) := by
  simp [multiLogisticGrad, splitParams2, hw]

example : ([1, 2, 3] : List ℝ).map (fun h => Real.exp (h - logSumExpRow (1 / 10) [1, 2, 3])) = softmax [1, 2, 3] :=
  exp_logprob_is_softmax _ (by norm_num) 1 [2, 3]

end Grad

/-! ## Tweedie GLM -/

section Glm
open LinfaSpec.Glm

/-- **`in_range` is the support of the distribution**: every real for the normal (`power ≤ 0`),
`y ≥ 0` for `1 ≤ power < 2`, `y > 0` for `power ≥ 2`; powers in `(0,1)` are rejected. -/
theorem in_range_iff_support (power : ℝ) (y : List ℝ) :
    (power ≤ 0 → inRange power y = some true) ∧
    (0 < power → power < 1 → inRange power y = none) ∧
    (1 ≤ power → power < 2 → inRange power y = some (decide (∀ v ∈ y, 0 ≤ v))) ∧
    (2 ≤ power → inRange power y = some (decide (∀ v ∈ y, 0 < v))) := by
  have h2 : (two : ℝ) = 2 := by norm_num [two]
  refine ⟨?_, ?_, ?_, ?_⟩
  · intro h; simp [inRange, h]
  · intro h0 h1; simp [inRange, not_le.mpr h0, h1]
  · intro h1 h2'
    have a : ¬ power ≤ 0 := by linarith
    have b : ¬ power < 1 := by linarith
    simp [inRange, a, b, h2, h2', List.all_eq]
  · intro h
    have a : ¬ power ≤ 0 := by linarith
    have b : ¬ power < 1 := by linarith
    have c : ¬ power < 2 := by linarith
    simp [inRange, a, b, h2, c, List.all_eq]

/-- **predictions lie in the range of the link**: positive for the log link, in `(0,1)` for logit -/
theorem predictions_in_link_range (x : List (List ℝ)) (coef : List ℝ) (b : ℝ) :
    (∀ p ∈ predict .log x coef b, 0 < p) ∧ (∀ p ∈ predict .logit x coef b, 0 < p ∧ p < 1) := by
  constructor
  · intro p hp
    obtain ⟨row, -, rfl⟩ := List.mem_map.mp hp
    exact Real.exp_pos _
  · intro p hp
    obtain ⟨row, -, rfl⟩ := List.mem_map.mp hp
    exact logistic_range _

/-- **default link selection** (`TweedieRegressorValidParams::link()`): an explicitly chosen link is used as is; with
none chosen, the identity link for `power ≤ 0` and the log link otherwise -/
theorem default_link_spec (power : ℝ) :
    (∀ l, Glm.selectLink (some l) power = l) ∧
    (power ≤ 0 → Glm.selectLink none power = .identity) ∧
    (0 < power → Glm.selectLink none power = .log) := by
  refine ⟨fun l => rfl, fun h => ?_, fun h => ?_⟩
  · simp [Glm.selectLink, Glm.defaultLink, h]
  · simp [Glm.selectLink, Glm.defaultLink, not_le.mpr h]

/-- with the default link every prediction of a model with `power > 0` is strictly positive, i.e. a mean inside the
domain of the deviance of every distribution with `power ≥ 1` (whose support needs `μ > 0`) -/
theorem default_link_predictions_positive (power : ℝ) (hp : 0 < power) (x : List (List ℝ)) (coef : List ℝ) (b : ℝ) :
    ∀ p ∈ predict (Glm.selectLink none power) x coef b, 0 < p := by
  rw [(default_link_spec power).2.2 hp]
  exact (predictions_in_link_range x coef b).1

example : Glm.selectLink none (0 : ℝ) = .identity ∧ Glm.selectLink none (3 / 2 : ℝ) = .log ∧
    Glm.selectLink (some .logit) (1 : ℝ) = .logit :=
  ⟨(default_link_spec 0).2.1 le_rfl, (default_link_spec (3 / 2)).2.2 (by norm_num), rfl⟩

/-- `inverse_derviative` is the derivative of `inverse`, for each link -/
theorem link_inverse_hasDerivAt (l : Glm.Link) (x : ℝ) :
    HasDerivAt (linkInverse (α := ℝ) l) (linkInverseDeriv l x) x := by
  cases l with
  | identity => exact hasDerivAt_id x
  | log => exact Real.hasDerivAt_exp x
  | logit =>
    have hf : linkInverse (α := ℝ) .logit = fun v => (1 + Real.exp (-v))⁻¹ := by
      funext v; simp [linkInverse, Transc.exp]
    rw [hf]
    have hpos : 0 < 1 + Real.exp (-x) := by positivity
    have h1 : HasDerivAt (fun v : ℝ => 1 + Real.exp (-v)) (-Real.exp (-x)) x := by
      have := ((hasDerivAt_id x).neg).exp
      simpa using this.const_add 1
    have h2 := (h1.inv (ne_of_gt hpos))
    refine h2.congr_deriv ?_
    simp only [linkInverseDeriv, Transc.exp]
    field_simp
    ring

example : (∀ p ∈ predict .logit [[1000], [-1000]] ([1] : List ℝ) 0, 0 < p ∧ p < 1) :=
  (predictions_in_link_range _ _ _).2

/-- `powf` over the reals -/
noncomputable def rpw : ℝ → ℝ → ℝ := fun a b => a ^ b

theorem glm_two_eq : (two : ℝ) = 2 := by norm_num [two]

/-- normal (`power = 0`): `d/dμ (y-μ)² = -2 (y-μ) / μ⁰` -/
theorem tweedie_unit_deviance_deriv_normal (tol6 y μ : ℝ) :
    HasDerivAt (fun m => (unitDeviance rpw tol6 0 y m).getD 0) (unitDevianceDeriv rpw 0 y μ) μ := by
  have hf : (fun m => (unitDeviance rpw tol6 0 y m).getD 0) = fun m => (y - m) * (y - m) := by
    funext m; simp [unitDeviance, powerClass]
  rw [hf]
  have h := ((hasDerivAt_id μ).const_sub y).mul ((hasDerivAt_id μ).const_sub y)
  refine h.congr_deriv ?_
  simp [unitDevianceDeriv, rpw, glm_two_eq]
  ring

/-- Poisson (`power = 1`, after the repair of the cost): `d/dμ [2 y ln(y/μ) + 2(μ-y)] = -2 (y-μ)/μ`,
also for `y = 0` -/
theorem tweedie_unit_deviance_deriv_poisson (tol6 y μ : ℝ) (ht : 0 < tol6) (hμ : 0 < μ) (hy : 0 ≤ y) :
    HasDerivAt (fun m => (unitDeviance rpw tol6 1 y m).getD 0) (unitDevianceDeriv rpw 1 y μ) μ := by
  have hc : powerClass tol6 (1 : ℝ) = .poisson := by
    simp [powerClass, absS, ht]
  by_cases hy0 : y = 0
  · subst hy0
    have hf : (fun m => (unitDeviance rpw tol6 1 0 m).getD 0) = fun m => two * (m - 0) := by
      funext m; simp [unitDeviance, hc]
    rw [hf]
    have h := ((hasDerivAt_id μ).sub_const 0).const_mul (two : ℝ)
    refine h.congr_deriv ?_
    simp [unitDevianceDeriv, rpw, glm_two_eq]
    field_simp
  · have hf : (fun m => (unitDeviance rpw tol6 1 y m).getD 0) =
        fun m => two * (y * Real.log (y / m)) + two * (m - y) := by
      funext m; simp [unitDeviance, hc, hy0, Transc.ln]
    rw [hf]
    have hypos : 0 < y := lt_of_le_of_ne hy (Ne.symm hy0)
    have hdiv : HasDerivAt (fun m : ℝ => y / m) (-y / μ ^ 2) μ := by
      have := (hasDerivAt_inv (ne_of_gt hμ)).const_mul y
      simp only [div_eq_mul_inv]
      refine this.congr_deriv ?_
      field_simp
    have hlog := hdiv.log (ne_of_gt (div_pos hypos hμ))
    have h := ((hlog.const_mul y).const_mul (two : ℝ)).add (((hasDerivAt_id μ).sub_const y).const_mul (two : ℝ))
    refine h.congr_deriv ?_
    simp [unitDevianceDeriv, rpw, glm_two_eq]
    field_simp
    ring

/-- gamma (`power = 2`): `d/dμ 2(ln(μ/y) + y/μ - 1) = -2 (y-μ)/μ²` -/
theorem tweedie_unit_deviance_deriv_gamma (tol6 y μ : ℝ) (ht : 0 < tol6) (ht1 : tol6 ≤ 1) (hμ : 0 < μ) (hy : 0 < y) :
    HasDerivAt (fun m => (unitDeviance rpw tol6 2 y m).getD 0) (unitDevianceDeriv rpw 2 y μ) μ := by
  have hc : powerClass tol6 (2 : ℝ) = .gamma := by
    have h1 : ¬ ((2:ℝ) - 1 < tol6) := by intro h; linarith
    have h2 : ¬ ((2:ℝ) < 0) := by norm_num
    simp [powerClass, absS, ht, glm_two_eq, h1, h2]
  have hf : (fun m => (unitDeviance rpw tol6 2 y m).getD 0) =
      fun m => two * (Real.log (m / y) + y / m - 1) := by
    funext m; simp [unitDeviance, hc, Transc.ln]
  rw [hf]
  have hdiv : HasDerivAt (fun m : ℝ => y / m) (-y / μ ^ 2) μ := by
    have := (hasDerivAt_inv (ne_of_gt hμ)).const_mul y
    simp only [div_eq_mul_inv]
    refine this.congr_deriv ?_
    field_simp
  have hlog := ((hasDerivAt_id μ).div_const y).log (ne_of_gt (div_pos hμ hy))
  have h := (((hlog.add hdiv).sub_const 1)).const_mul (two : ℝ)
  refine h.congr_deriv ?_
  simp [unitDevianceDeriv, rpw, glm_two_eq]
  field_simp
  ring

/-- any power of the generic arm (`(1,2)`, `3`, …): `-2 (y-μ)/μ^p` -/
theorem tweedie_unit_deviance_deriv_generic (tol6 p y μ : ℝ) (hc : powerClass tol6 p = .generic) (hp1 : p ≠ 1) (hp2 : p ≠ 2)
    (hμ : 0 < μ) :
    HasDerivAt (fun m => (unitDeviance rpw tol6 p y m).getD 0) (unitDevianceDeriv rpw p y μ) μ := by
  have hf : (fun m => (unitDeviance rpw tol6 p y m).getD 0) =
      fun m => two * (y ^ (two - p) / ((1 - p) * (two - p)) - y * (m ^ (1 - p) / (1 - p)) + m ^ (two - p) / (two - p)) := by
    funext m; simp [unitDeviance, hc, rpw]
  rw [hf]
  have h1p : (1 - p) ≠ 0 := sub_ne_zero.mpr (Ne.symm hp1)
  have h2p : (2 - p) ≠ 0 := sub_ne_zero.mpr (Ne.symm hp2)
  have ha := (Real.hasDerivAt_rpow_const (x := μ) (p := 1 - p) (Or.inl (ne_of_gt hμ)))
  have hb := (Real.hasDerivAt_rpow_const (x := μ) (p := two - p) (Or.inl (ne_of_gt hμ)))
  have h := ((((ha.div_const (1 - p)).const_mul y).const_sub (y ^ (two - p) / ((1 - p) * (two - p)))).add
    (hb.div_const (two - p))).const_mul (two : ℝ)
  refine h.congr_deriv ?_
  simp only [unitDevianceDeriv, rpw, glm_two_eq]
  have e1 : μ ^ (1 - p - 1) = μ ^ (-p) := by ring_nf
  have e2 : μ ^ (2 - p - 1) = μ ^ (-p) * μ := by
    rw [show (2 - p - 1) = -p + 1 by ring, Real.rpow_add hμ, Real.rpow_one]
  rw [e1, e2, Real.rpow_neg hμ.le]
  field_simp
  ring

example : powerClass (1 / 1000000 : ℝ) 3 = .generic ∧ powerClass (1 / 1000000 : ℝ) (3 / 2) = .generic := by
  constructor <;> (simp only [powerClass, absS, glm_two_eq]; norm_num)

example : HasDerivAt (fun m => (unitDeviance rpw (1 / 1000000) 1 3 m).getD 0)
    (unitDevianceDeriv rpw 1 3 2) 2 :=
  tweedie_unit_deviance_deriv_poisson _ 3 2 (by norm_num) (by norm_num) (by norm_num)

/-- **per-sample, per-coordinate term of the GLM gradient** (`_partial` of
`tweedie_grad_is_derivative`; full statement: every entry of `Glm.gradient` is the partial
derivative of `Glm.cost` — missing: the sum over the sample list and the parameter-vector
bookkeeping).  If `D` is the unit deviance of the sample as a function of the mean, with derivative
`d` at `μ = h(η₀)`, and the linear predictor depends on the coordinate as `η₀ + xj (t - w₀)`, then
`½ D(h(η))` has derivative `d · h'(η₀) · xj · ½` — the summand `temp[i] * x_ij * 0.5` of
`TweedieProblem::gradient` (`xj = 1` for the intercept). -/
theorem tweedie_grad_is_derivative_partial (D : ℝ → ℝ) (d : ℝ) (l : Glm.Link) (η0 xj w0 : ℝ)
    (hD : HasDerivAt D d (linkInverse l η0)) :
    HasDerivAt (fun t : ℝ => (Glm.half : ℝ) * D (linkInverse l (η0 + xj * (t - w0))))
      (d * linkInverseDeriv l η0 * xj * Glm.half) w0 := by
  have hin : HasDerivAt (fun t : ℝ => η0 + xj * (t - w0)) xj w0 := by
    have := (((hasDerivAt_id w0).sub_const w0).const_mul xj).const_add η0
    simpa using this
  have hl := link_inverse_hasDerivAt l (η0 + xj * (w0 - w0))
  simp only [sub_self, mul_zero, add_zero] at hl
  have hmid : HasDerivAt (fun t : ℝ => linkInverse l (η0 + xj * (t - w0))) (linkInverseDeriv l η0 * xj) w0 := by
    have h0 : η0 = η0 + xj * (w0 - w0) := by ring
    have hl' : HasDerivAt (linkInverse (α := ℝ) l) (linkInverseDeriv l η0) (η0 + xj * (w0 - w0)) := by
      rw [← h0]; exact hl
    exact HasDerivAt.comp w0 hl' hin
  have hD' : HasDerivAt D d (linkInverse l (η0 + xj * (w0 - w0))) := by
    have h0 : η0 + xj * (w0 - w0) = η0 := by ring
    rw [h0]; exact hD
  have h := (HasDerivAt.comp w0 hD' hmid).const_mul (Glm.half : ℝ)
  exact h.congr_deriv (by ring)

example : HasDerivAt (fun t : ℝ => (Glm.half : ℝ) * (fun m => (unitDeviance rpw (1 / 1000000) 1 3 m).getD 0)
      (linkInverse .log (0 + 2 * (t - 0))))
    (unitDevianceDeriv rpw 1 3 (linkInverse .log 0) * linkInverseDeriv .log 0 * 2 * Glm.half) 0 :=
  tweedie_grad_is_derivative_partial _ _ .log 0 2 0
    (tweedie_unit_deviance_deriv_poisson _ 3 _ (by norm_num) (by simp [linkInverse, Transc.exp]) (by norm_num))

end Glm

end LinfaSpec.Props.C12
