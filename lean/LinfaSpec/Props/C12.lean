import LinfaSpec.Proofs.Logistic
import LinfaSpec.Proofs.LogisticReal

/-!
# C12 — logistic regression and Tweedie GLM: coding, probabilities, gradients

Theorems about `LinfaSpec.Logistic` / `LinfaSpec.Glm` (the models of `linfa-logistic` and of the
Tweedie GLM of `linfa-linear`).  L-BFGS is not modelled; that the returned point is stationary is
checked by the oracle of the correspondence run, with the gradient these theorems speak about.
-/
namespace LinfaSpec.Props.C12
open LinfaSpec LinfaSpec.Logistic

/-! ## label coding -/

section Labels
variable {C : Type} [DecidableEq C]

/-- **`label_classes` codes with ±1**: when it succeeds the two reported classes are distinct,
every label is one of them, and sample `i` gets `+1` exactly when its label is the positive class
(else `-1`). -/
theorem labels_pm_one {α} [Ring α] (y : List C) (r : BinLabels C α)
    (h : labelClasses y = .ok r) :
    r.pos ≠ r.neg ∧ (∀ x ∈ y, x = r.pos ∨ x = r.neg) ∧
      r.target = y.map (fun x => if x = r.pos then (1 : α) else -1) := by
  unfold labelClasses at h
  cases hs : binScan (none, none) y with
  | none => simp [hs] at h
  | some st =>
    have hinv := binScan_inv y [] (none, none) st hs (by simp [ScanInv])
    simp only [List.nil_append] at hinv
    obtain ⟨s1, s2⟩ := st
    cases s1 with
    | none => cases s2 <;> simp [hs] at h
    | some a =>
      obtain ⟨a, na⟩ := a
      cases s2 with
      | none => simp [hs] at h
      | some b =>
        obtain ⟨b, nb⟩ := b
        simp only [ScanInv] at hinv
        obtain ⟨hab, -, -, -, -, hmem⟩ := hinv
        simp only [hs] at h
        by_cases hlt : na < nb
        · simp only [hlt, if_true, Except.ok.injEq] at h
          subst h
          refine ⟨fun e => hab e.symm, fun x hx => (hmem x hx).symm, ?_⟩
          simp only [List.map_map]
          apply List.map_congr_left
          intro x hx
          rcases hmem x hx with e | e
          · subst e; simp [hab]
          · subst e
            have : ¬ (x = a) := fun e => hab e.symm
            simp [this]
        · simp only [hlt, if_false, Except.ok.injEq] at h
          subst h
          exact ⟨hab, hmem, rfl⟩

/-- **the more frequent class is the positive one** (ties: the class seen first); both occur. -/
theorem larger_class_positive {α} [Ring α] (y : List C) (r : BinLabels C α)
    (h : labelClasses y = .ok r) :
    y.count r.neg ≤ y.count r.pos ∧ 0 < y.count r.neg := by
  unfold labelClasses at h
  cases hs : binScan (none, none) y with
  | none => simp [hs] at h
  | some st =>
    have hinv := binScan_inv y [] (none, none) st hs (by simp [ScanInv])
    simp only [List.nil_append] at hinv
    obtain ⟨s1, s2⟩ := st
    cases s1 with
    | none => cases s2 <;> simp [hs] at h
    | some a =>
      obtain ⟨a, na⟩ := a
      cases s2 with
      | none => simp [hs] at h
      | some b =>
        obtain ⟨b, nb⟩ := b
        simp only [ScanInv] at hinv
        obtain ⟨-, h1, h2, h3, h4, -⟩ := hinv
        simp only [hs] at h
        by_cases hlt : na < nb
        · simp only [hlt, if_true, Except.ok.injEq] at h
          subst h
          simp only
          omega
        · simp only [hlt, if_false, Except.ok.injEq] at h
          subst h
          simp only
          omega

/-- `label_classes` fails exactly on label vectors without two, or with more than two, distinct
values: success means exactly the two reported classes occur. -/
example : (labelClasses (α := Int) [3, 5, 5, 3, 5]).toOption.map (fun r => (r.pos, r.neg, r.target)) =
    some (5, 3, [-1, 1, 1, -1, 1]) := by decide
example : (labelClasses (α := Int) [3, 5, 3]).toOption.map (fun r => (r.pos, r.neg, r.target)) =
    some (3, 5, [1, -1, 1]) := by decide
example : ((labelClasses (α := Int) [3, 5, 7]).toOption.map (·.pos)) = none := by decide
example : ((labelClasses (α := Int) [3, 3]).toOption.map (·.pos)) = none := by decide

end Labels

section Multi
variable {C : Type} [LinearOrder C]

/-- **`label_classes_multi` reports the sorted set of classes**: strictly increasing (so without
repetition) and containing exactly the labels that occur. -/
theorem classes_sorted_dedup (y : List C) :
    (classesOf y).Pairwise (· < ·) ∧ ∀ x, x ∈ classesOf y ↔ x ∈ y :=
  ⟨classesOf_pairwise y, mem_classesOf y⟩

/-- **one-hot rows**: the row of a sample with label `c` has one entry per class, entry `j` is `1`
exactly when class `j` is `c` and `0` otherwise — exactly one `1`, at the rank of `c`. -/
theorem onehot_row {α} [Zero α] [One α] (y : List C) (c : C) (hc : c ∈ y) :
    (onehotRow (α := α) (classesOf y) c).length = (classesOf y).length ∧
    (classesOf y).idxOf c < (classesOf y).length ∧
    ∀ j (hj : j < (classesOf y).length),
      (onehotRow (α := α) (classesOf y) c)[j]? = some (if (classesOf y)[j] = c then 1 else 0) ∧
      ((classesOf y)[j] = c ↔ j = (classesOf y).idxOf c) := by
  have hmem : c ∈ classesOf y := (mem_classesOf y c).mpr hc
  have hnd : (classesOf y).Nodup := (classesOf_pairwise y).imp (fun h => ne_of_lt h)
  have hidx : (classesOf y).idxOf c < (classesOf y).length := List.idxOf_lt_length_of_mem hmem
  refine ⟨by simp [onehotRow], hidx, ?_⟩
  intro j hj
  have hiff : (classesOf y)[j] = c ↔ j = (classesOf y).idxOf c := by
    constructor
    · intro h
      rw [← h, List.Nodup.idxOf_getElem hnd]
    · intro h
      subst h
      exact List.getElem_idxOf hidx
  refine ⟨?_, hiff⟩
  unfold onehotRow
  rw [List.getElem?_set]
  by_cases hji : (classesOf y).idxOf c = j
  · have : (classesOf y)[j] = c := hiff.mpr hji.symm
    simp [hji, hj, this]
  · have : ¬ (classesOf y)[j] = c := fun h => hji (hiff.mp h).symm
    simp [hji, hj, this]

example : (classesOf [3, 1, 3, 2, 1]).Pairwise (· < ·) ∧ 2 ∈ classesOf [3, 1, 3, 2, 1] :=
  ⟨(classes_sorted_dedup _).1, ((classes_sorted_dedup _).2 2).mpr (by decide)⟩
example : (onehotRow (α := Int) (classesOf [3, 1, 3]) 3).length = (classesOf [3, 1, 3]).length :=
  (onehot_row [3, 1, 3] 3 (by decide)).1

end Multi

/-! ## scalar laws (over `ℝ`; `exp`/`ln` are `Real.exp`/`Real.log`) -/

section Scalar

theorem logistic_eq (x : ℝ) : logistic x = 1 / (1 + Real.exp (-x)) := rfl

/-- **`logistic` maps into the open unit interval** -/
theorem logistic_range (x : ℝ) : 0 < logistic x ∧ logistic x < 1 := by
  rw [logistic_eq]
  have h : 0 < Real.exp (-x) := Real.exp_pos _
  constructor
  · positivity
  · rw [div_lt_one (by linarith)]
    linarith

/-- **both branches of `log_logistic` compute `ln (logistic x)`** -/
theorem log_logistic_branches (x : ℝ) : logLogistic x = Real.log (logistic x) := by
  rw [logistic_eq, one_div, Real.log_inv]
  unfold logLogistic
  split_ifs with h
  · rfl
  · show x - Real.log (1 + Real.exp x) = -Real.log (1 + Real.exp (-x))
    have h1 : 1 + Real.exp (-x) = (1 + Real.exp x) / Real.exp x := by
      rw [Real.exp_neg]; field_simp; ring
    rw [h1, Real.log_div (by positivity) (by positivity), Real.log_exp]
    ring

example : (0 : ℝ) < logistic 1000 ∧ logistic (-1000 : ℝ) < 1 := ⟨(logistic_range _).1, (logistic_range _).2⟩

/-- shape of `softmax_inplace` on a non-empty row -/
theorem softmax_cons (a : ℝ) (as : List ℝ) :
    softmax (a :: as) = (a :: as).map (fun n => Real.exp (n - as.foldl maxS a) /
      ((a :: as).map fun n => Real.exp (n - as.foldl maxS a)).sum) := by
  simp only [softmax, maxList, sumS_eq_sum, List.map_map]
  rfl

theorem softmax_denominator_pos (a : ℝ) (as : List ℝ) (m : ℝ) :
    0 < ((a :: as).map fun n => Real.exp (n - m)).sum := by
  simp only [List.map_cons, List.sum_cons]
  have h1 : 0 < Real.exp (a - m) := Real.exp_pos _
  have h2 : 0 ≤ (as.map fun n => Real.exp (n - m)).sum := by
    apply List.sum_nonneg
    intro x hx
    obtain ⟨n, -, rfl⟩ := List.mem_map.mp hx
    exact (Real.exp_pos _).le
  linarith

/-- **softmax entries are non-negative** (indeed positive) -/
theorem softmax_nonneg (v : List ℝ) : ∀ p ∈ softmax v, 0 ≤ p := by
  cases v with
  | nil => simp [softmax, maxList]
  | cons a as =>
    intro p hp
    rw [softmax_cons] at hp
    obtain ⟨n, -, rfl⟩ := List.mem_map.mp hp
    exact div_nonneg (Real.exp_pos _).le (softmax_denominator_pos a as _).le

/-- **softmax rows sum to one** -/
theorem softmax_sum_one (v : List ℝ) (hv : v ≠ []) : (softmax v).sum = 1 := by
  cases v with
  | nil => exact absurd rfl hv
  | cons a as =>
    rw [softmax_cons]
    have hpos := softmax_denominator_pos a as (as.foldl maxS a)
    have : ∀ (l : List ℝ) (s : ℝ), (l.map fun n => Real.exp (n - as.foldl maxS a) / s).sum =
        (l.map fun n => Real.exp (n - as.foldl maxS a)).sum / s := by
      intro l s
      induction l with
      | nil => simp
      | cons b bs ih => simp only [List.map_cons, List.sum_cons, ih]; ring
    rw [this]
    exact div_self (ne_of_gt hpos)

/-- hence every softmax entry is at most one -/
theorem softmax_le_one (v : List ℝ) : ∀ p ∈ softmax v, p ≤ 1 := by
  intro p hp
  have hv : v ≠ [] := by
    rintro rfl
    simp [softmax, maxList] at hp
  have hs := softmax_sum_one v hv
  have := List.single_le_sum (softmax_nonneg v) p hp
  linarith

/-- **softmax is invariant under a common shift of the scores** -/
theorem softmax_shift_invariant (v : List ℝ) (c : ℝ) : softmax (v.map (· + c)) = softmax v := by
  cases v with
  | nil => rfl
  | cons a as =>
    rw [List.map_cons, softmax_cons, softmax_cons, foldl_maxS_shift]
    simp only [List.map_cons, List.map_map, Function.comp_def, add_sub_add_right_eq_sub]

/-- softmax is a strictly increasing function applied to every score -/
theorem softmax_eq_map_strictMono (a : ℝ) (as : List ℝ) :
    ∃ f : ℝ → ℝ, StrictMono f ∧ softmax (a :: as) = (a :: as).map f := by
  refine ⟨fun n => Real.exp (n - as.foldl maxS a) /
      ((a :: as).map fun n => Real.exp (n - as.foldl maxS a)).sum, ?_, softmax_cons a as⟩
  intro x y hxy
  have hpos := softmax_denominator_pos a as (as.foldl maxS a)
  exact div_lt_div_of_pos_right (Real.exp_lt_exp.mpr (by linarith)) hpos

/-- **the arg-max of the un-normalised scores (what `predict` uses) is the arg-max of the
probabilities (what `predict_probabilities` reports)** -/
theorem argmax_scores_eq_argmax_softmax (v : List ℝ) : argmax (softmax v) = argmax v := by
  cases v with
  | nil => rfl
  | cons a as =>
    obtain ⟨f, hf, he⟩ := softmax_eq_map_strictMono a as
    rw [he]
    exact argmax_map f hf (a :: as)

/-- so the multinomial prediction is the class with the largest reported probability -/
theorem predict_multi_matches_probabilities {C} [Inhabited C] (k : Nat) (x : List (List ℝ))
    (params : List (List ℝ)) (b : List ℝ) (classes : List C) :
    predictMulti k x params b classes =
      (predictProbaMulti k x params b).map fun p => classes.getD (argmax p) default := by
  simp only [predictMulti, predictProbaMulti, List.map_map, Function.comp_def,
    argmax_scores_eq_argmax_softmax]

/-- **the binary prediction is the positive class exactly when the reported probability reaches
the threshold** -/
theorem predict_matches_threshold {C} (x : List (List ℝ)) (params : List ℝ) (b thr : ℝ)
    (pos neg : C) (hne : pos ≠ neg) (i : Nat) (hi : i < x.length) :
    ∃ p c, (predictProba x params b)[i]? = some p ∧ (predictBinary x params b thr pos neg)[i]? = some c ∧
      0 < p ∧ p < 1 ∧ (c = pos ↔ thr ≤ p) ∧ (c = neg ↔ p < thr) := by
  have hlen : i < (predictProba x params b).length := by simp [predictProba, linPred, hi]
  refine ⟨(predictProba x params b)[i], if thr ≤ (predictProba x params b)[i] then pos else neg, by simp [hlen], ?_, ?_⟩
  · simp [predictBinary, hlen]
  · have hp : (predictProba x params b)[i] ∈ predictProba x params b := List.getElem_mem hlen
    obtain ⟨z, -, hz⟩ := List.mem_map.mp hp
    rw [← hz]
    refine ⟨(logistic_range z).1, (logistic_range z).2, ?_, ?_⟩
    · split_ifs with h
      · simp [h]
      · simp [h, hne.symm]
    · split_ifs with h
      · simp [hne, not_lt.mpr h]
      · simp [not_le.mp h]

example : softmax ([1, 2, 3] : List ℝ) ≠ [] ∧ (softmax ([1, 2, 3] : List ℝ)).sum = 1 :=
  ⟨by rw [softmax_cons]; simp, softmax_sum_one _ (by simp)⟩

end Scalar

end LinfaSpec.Props.C12
