import LinfaSpec.Proofs.Logistic

/-!
# C12 — logistic regression and Tweedie GLM: coding, probabilities, gradients

Theorems about `LinfaSpec.Logistic` / `LinfaSpec.Glm` (the models of `linfa-logistic` and of the
Tweedie GLM of `linfa-linear`).  L-BFGS is not modelled; that the returned point is stationary is
checked by the oracle of the correspondence run, with the gradient these theorems speak about.
-/
namespace LinfaSpec.Props.C12
open LinfaSpec LinfaSpec.Logistic

/-! ## label coding -/

section Labels
variable {C : Type} [DecidableEq C]

/-- **`label_classes` codes with ±1**: when it succeeds the two reported classes are distinct,
every label is one of them, and sample `i` gets `+1` exactly when its label is the positive class
(else `-1`). -/
theorem labels_pm_one {α} [Ring α] (y : List C) (r : BinLabels C α)
    (h : labelClasses y = .ok r) :
    r.pos ≠ r.neg ∧ (∀ x ∈ y, x = r.pos ∨ x = r.neg) ∧
      r.target = y.map (fun x => if x = r.pos then (1 : α) else -1) := by
  unfold labelClasses at h
  cases hs : binScan (none, none) y with
  | none => simp [hs] at h
  | some st =>
    have hinv := binScan_inv y [] (none, none) st hs (by simp [ScanInv])
    simp only [List.nil_append] at hinv
    obtain ⟨s1, s2⟩ := st
    cases s1 with
    | none => cases s2 <;> simp [hs] at h
    | some a =>
      obtain ⟨a, na⟩ := a
      cases s2 with
      | none => simp [hs] at h
      | some b =>
        obtain ⟨b, nb⟩ := b
        simp only [ScanInv] at hinv
        obtain ⟨hab, -, -, -, -, hmem⟩ := hinv
        simp only [hs] at h
        by_cases hlt : na < nb
        · simp only [hlt, if_true, Except.ok.injEq] at h
          subst h
          refine ⟨fun e => hab e.symm, fun x hx => (hmem x hx).symm, ?_⟩
          simp only [List.map_map]
          apply List.map_congr_left
          intro x hx
          rcases hmem x hx with e | e
          · subst e; simp [hab]
          · subst e
            have : ¬ (x = a) := fun e => hab e.symm
            simp [this]
        · simp only [hlt, if_false, Except.ok.injEq] at h
          subst h
          exact ⟨hab, hmem, rfl⟩

/-- **the more frequent class is the positive one** (ties: the class seen first); both occur. -/
theorem larger_class_positive {α} [Ring α] (y : List C) (r : BinLabels C α)
    (h : labelClasses y = .ok r) :
    y.count r.neg ≤ y.count r.pos ∧ 0 < y.count r.neg := by
  unfold labelClasses at h
  cases hs : binScan (none, none) y with
  | none => simp [hs] at h
  | some st =>
    have hinv := binScan_inv y [] (none, none) st hs (by simp [ScanInv])
    simp only [List.nil_append] at hinv
    obtain ⟨s1, s2⟩ := st
    cases s1 with
    | none => cases s2 <;> simp [hs] at h
    | some a =>
      obtain ⟨a, na⟩ := a
      cases s2 with
      | none => simp [hs] at h
      | some b =>
        obtain ⟨b, nb⟩ := b
        simp only [ScanInv] at hinv
        obtain ⟨-, h1, h2, h3, h4, -⟩ := hinv
        simp only [hs] at h
        by_cases hlt : na < nb
        · simp only [hlt, if_true, Except.ok.injEq] at h
          subst h
          simp only
          omega
        · simp only [hlt, if_false, Except.ok.injEq] at h
          subst h
          simp only
          omega

/-- `label_classes` fails exactly on label vectors without two, or with more than two, distinct
values: success means exactly the two reported classes occur. -/
example : (labelClasses (α := Int) [3, 5, 5, 3, 5]).toOption.map (fun r => (r.pos, r.neg, r.target)) =
    some (5, 3, [-1, 1, 1, -1, 1]) := by decide
example : (labelClasses (α := Int) [3, 5, 3]).toOption.map (fun r => (r.pos, r.neg, r.target)) =
    some (3, 5, [1, -1, 1]) := by decide
example : ((labelClasses (α := Int) [3, 5, 7]).toOption.map (·.pos)) = none := by decide
example : ((labelClasses (α := Int) [3, 3]).toOption.map (·.pos)) = none := by decide

end Labels

section Multi
variable {C : Type} [LinearOrder C]

/-- **`label_classes_multi` reports the sorted set of classes**: strictly increasing (so without
repetition) and containing exactly the labels that occur. -/
theorem classes_sorted_dedup (y : List C) :
    (classesOf y).Pairwise (· < ·) ∧ ∀ x, x ∈ classesOf y ↔ x ∈ y :=
  ⟨classesOf_pairwise y, mem_classesOf y⟩

/-- **one-hot rows**: the row of a sample with label `c` has one entry per class, entry `j` is `1`
exactly when class `j` is `c` and `0` otherwise — exactly one `1`, at the rank of `c`. -/
theorem onehot_row {α} [Zero α] [One α] (y : List C) (c : C) (hc : c ∈ y) :
    (onehotRow (α := α) (classesOf y) c).length = (classesOf y).length ∧
    (classesOf y).idxOf c < (classesOf y).length ∧
    ∀ j (hj : j < (classesOf y).length),
      (onehotRow (α := α) (classesOf y) c)[j]? = some (if (classesOf y)[j] = c then 1 else 0) ∧
      ((classesOf y)[j] = c ↔ j = (classesOf y).idxOf c) := by
  have hmem : c ∈ classesOf y := (mem_classesOf y c).mpr hc
  have hnd : (classesOf y).Nodup := (classesOf_pairwise y).imp (fun h => ne_of_lt h)
  have hidx : (classesOf y).idxOf c < (classesOf y).length := List.idxOf_lt_length_of_mem hmem
  refine ⟨by simp [onehotRow], hidx, ?_⟩
  intro j hj
  have hiff : (classesOf y)[j] = c ↔ j = (classesOf y).idxOf c := by
    constructor
    · intro h
      rw [← h, List.Nodup.idxOf_getElem hnd]
    · intro h
      subst h
      exact List.getElem_idxOf hidx
  refine ⟨?_, hiff⟩
  unfold onehotRow
  rw [List.getElem?_set]
  by_cases hji : (classesOf y).idxOf c = j
  · have : (classesOf y)[j] = c := hiff.mpr hji.symm
    simp [hji, hj, this]
  · have : ¬ (classesOf y)[j] = c := fun h => hji (hiff.mp h).symm
    simp [hji, hj, this]

example : (classesOf [3, 1, 3, 2, 1]).Pairwise (· < ·) ∧ 2 ∈ classesOf [3, 1, 3, 2, 1] :=
  ⟨(classes_sorted_dedup _).1, ((classes_sorted_dedup _).2 2).mpr (by decide)⟩
example : (onehotRow (α := Int) (classesOf [3, 1, 3]) 3).length = (classesOf [3, 1, 3]).length :=
  (onehot_row [3, 1, 3] 3 (by decide)).1

end Multi

end LinfaSpec.Props.C12
