import LinfaSpec.Model.Logistic
import LinfaSpec.Model.Glm

namespace LinfaSpec.Props.C12

end LinfaSpec.Props.C12
