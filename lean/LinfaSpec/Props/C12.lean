import LinfaSpec.Proofs.Logistic
import LinfaSpec.Proofs.LogisticReal

/-!
# C12 — logistic regression and Tweedie GLM: coding, probabilities, gradients

Theorems about `LinfaSpec.Logistic` / `LinfaSpec.Glm` (the models of `linfa-logistic` and of the
Tweedie GLM of `linfa-linear`).  L-BFGS is not modelled; that the returned point is stationary is
checked by the oracle of the correspondence run, with the gradient these theorems speak about.
-/
namespace LinfaSpec.Props.C12
open LinfaSpec LinfaSpec.Logistic

/-! ## label coding -/

section Labels
variable {C : Type} [DecidableEq C]

/-- **`label_classes` codes with ±1**: when it succeeds the two reported classes are distinct,
every label is one of them, and sample `i` gets `+1` exactly when its label is the positive class
(else `-1`). -/
theorem labels_pm_one {α} [Ring α] (y : List C) (r : BinLabels C α)
    (h : labelClasses y = .ok r) :
    r.pos ≠ r.neg ∧ (∀ x ∈ y, x = r.pos ∨ x = r.neg) ∧
      r.target = y.map (fun x => if x = r.pos then (1 : α) else -1) := by
  unfold labelClasses at h
  cases hs : binScan (none, none) y with
  | none => simp [hs] at h
  | some st =>
    have hinv := binScan_inv y [] (none, none) st hs (by simp [ScanInv])
    simp only [List.nil_append] at hinv
    obtain ⟨s1, s2⟩ := st
    cases s1 with
    | none => cases s2 <;> simp [hs] at h
    | some a =>
      obtain ⟨a, na⟩ := a
      cases s2 with
      | none => simp [hs] at h
      | some b =>
        obtain ⟨b, nb⟩ := b
        simp only [ScanInv] at hinv
        obtain ⟨hab, -, -, -, -, hmem⟩ := hinv
        simp only [hs] at h
        by_cases hlt : na < nb
        · simp only [hlt, if_true, Except.ok.injEq] at h
          subst h
          refine ⟨fun e => hab e.symm, fun x hx => (hmem x hx).symm, ?_⟩
          simp only [List.map_map]
          apply List.map_congr_left
          intro x hx
          rcases hmem x hx with e | e
          · subst e; simp [hab]
          · subst e
            have : ¬ (x = a) := fun e => hab e.symm
            simp [this]
        · simp only [hlt, if_false, Except.ok.injEq] at h
          subst h
          exact ⟨hab, hmem, rfl⟩

/-- **the more frequent class is the positive one** (ties: the class seen first); both occur. -/
theorem larger_class_positive {α} [Ring α] (y : List C) (r : BinLabels C α)
    (h : labelClasses y = .ok r) :
    y.count r.neg ≤ y.count r.pos ∧ 0 < y.count r.neg := by
  unfold labelClasses at h
  cases hs : binScan (none, none) y with
  | none => simp [hs] at h
  | some st =>
    have hinv := binScan_inv y [] (none, none) st hs (by simp [ScanInv])
    simp only [List.nil_append] at hinv
    obtain ⟨s1, s2⟩ := st
    cases s1 with
    | none => cases s2 <;> simp [hs] at h
    | some a =>
      obtain ⟨a, na⟩ := a
      cases s2 with
      | none => simp [hs] at h
      | some b =>
        obtain ⟨b, nb⟩ := b
        simp only [ScanInv] at hinv
        obtain ⟨-, h1, h2, h3, h4, -⟩ := hinv
        simp only [hs] at h
        by_cases hlt : na < nb
        · simp only [hlt, if_true, Except.ok.injEq] at h
          subst h
          simp only
          omega
        · simp only [hlt, if_false, Except.ok.injEq] at h
          subst h
          simp only
          omega

/-- `label_classes` fails exactly on label vectors without two, or with more than two, distinct
values: success means exactly the two reported classes occur. -/
example : (labelClasses (α := Int) [3, 5, 5, 3, 5]).toOption.map (fun r => (r.pos, r.neg, r.target)) =
    some (5, 3, [-1, 1, 1, -1, 1]) := by decide
example : (labelClasses (α := Int) [3, 5, 3]).toOption.map (fun r => (r.pos, r.neg, r.target)) =
    some (3, 5, [1, -1, 1]) := by decide
example : ((labelClasses (α := Int) [3, 5, 7]).toOption.map (·.pos)) = none := by decide
example : ((labelClasses (α := Int) [3, 3]).toOption.map (·.pos)) = none := by decide

end Labels

section Multi
variable {C : Type} [LinearOrder C]

/-- **`label_classes_multi` reports the sorted set of classes**: strictly increasing (so without
repetition) and containing exactly the labels that occur. -/
theorem classes_sorted_dedup (y : List C) :
    (classesOf y).Pairwise (· < ·) ∧ ∀ x, x ∈ classesOf y ↔ x ∈ y :=
  ⟨classesOf_pairwise y, mem_classesOf y⟩

/-- **one-hot rows**: the row of a sample with label `c` has one entry per class, entry `j` is `1`
exactly when class `j` is `c` and `0` otherwise — exactly one `1`, at the rank of `c`. -/
theorem onehot_row {α} [Zero α] [One α] (y : List C) (c : C) (hc : c ∈ y) :
    (onehotRow (α := α) (classesOf y) c).length = (classesOf y).length ∧
    (classesOf y).idxOf c < (classesOf y).length ∧
    ∀ j (hj : j < (classesOf y).length),
      (onehotRow (α := α) (classesOf y) c)[j]? = some (if (classesOf y)[j] = c then 1 else 0) ∧
      ((classesOf y)[j] = c ↔ j = (classesOf y).idxOf c) := by
  have hmem : c ∈ classesOf y := (mem_classesOf y c).mpr hc
  have hnd : (classesOf y).Nodup := (classesOf_pairwise y).imp (fun h => ne_of_lt h)
  have hidx : (classesOf y).idxOf c < (classesOf y).length := List.idxOf_lt_length_of_mem hmem
  refine ⟨by simp [onehotRow], hidx, ?_⟩
  intro j hj
  have hiff : (classesOf y)[j] = c ↔ j = (classesOf y).idxOf c := by
    constructor
    · intro h
      rw [← h, List.Nodup.idxOf_getElem hnd]
    · intro h
      subst h
      exact List.getElem_idxOf hidx
  refine ⟨?_, hiff⟩
  unfold onehotRow
  rw [List.getElem?_set]
  by_cases hji : (classesOf y).idxOf c = j
  · have : (classesOf y)[j] = c := hiff.mpr hji.symm
    simp [hji, hj, this]
  · have : ¬ (classesOf y)[j] = c := fun h => hji (hiff.mp h).symm
    simp [hji, hj, this]

theorem replicate_set_sum_one (n i : Nat) (hi : i < n) :
    ((List.replicate n (0 : ℝ)).set i 1).sum = 1 := by
  induction n generalizing i with
  | zero => omega
  | succ n ih =>
    cases i with
    | zero => simp [List.replicate_succ]
    | succ i => simp [List.replicate_succ, ih i (by omega)]

/-- **the target matrix `label_classes_multi` builds satisfies the hypothesis of the whole-gradient theorem**
(`multi_logistic_grad_is_derivative`): every row has one entry per class and sums to one -/
theorem label_classes_multi_rows_one_hot (y : List C) :
    ∀ yr ∈ (labelClassesMulti (α := ℝ) y).2, yr.length = (classesOf y).length ∧ yr.sum = 1 := by
  intro yr hyr
  obtain ⟨c, hc, rfl⟩ := List.mem_map.mp hyr
  have h := onehot_row (α := ℝ) y c hc
  exact ⟨h.1, replicate_set_sum_one _ _ h.2.1⟩

example : (classesOf [3, 1, 3, 2, 1]).Pairwise (· < ·) ∧ 2 ∈ classesOf [3, 1, 3, 2, 1] :=
  ⟨(classes_sorted_dedup _).1, ((classes_sorted_dedup _).2 2).mpr (by decide)⟩
example : (onehotRow (α := Int) (classesOf [3, 1, 3]) 3).length = (classesOf [3, 1, 3]).length :=
  (onehot_row [3, 1, 3] 3 (by decide)).1

end Multi

/-! ## scalar laws (over `ℝ`; `exp`/`ln` are `Real.exp`/`Real.log`) -/

section Scalar

theorem logistic_eq (x : ℝ) : logistic x = 1 / (1 + Real.exp (-x)) := rfl

/-- **`logistic` maps into the open unit interval** -/
theorem logistic_range (x : ℝ) : 0 < logistic x ∧ logistic x < 1 := by
  rw [logistic_eq]
  have h : 0 < Real.exp (-x) := Real.exp_pos _
  constructor
  · positivity
  · rw [div_lt_one (by linarith)]
    linarith

/-- **both branches of `log_logistic` compute `ln (logistic x)`** -/
theorem log_logistic_branches (x : ℝ) : logLogistic x = Real.log (logistic x) := by
  rw [logistic_eq, one_div, Real.log_inv]
  unfold logLogistic
  split_ifs with h
  · rfl
  · show x - Real.log (1 + Real.exp x) = -Real.log (1 + Real.exp (-x))
    have h1 : 1 + Real.exp (-x) = (1 + Real.exp x) / Real.exp x := by
      rw [Real.exp_neg]; field_simp; ring
    rw [h1, Real.log_div (by positivity) (by positivity), Real.log_exp]
    ring

example : (0 : ℝ) < logistic 1000 ∧ logistic (-1000 : ℝ) < 1 := ⟨(logistic_range _).1, (logistic_range _).2⟩

/-- shape of `softmax_inplace` on a non-empty row -/
theorem softmax_cons (a : ℝ) (as : List ℝ) :
    softmax (a :: as) = (a :: as).map (fun n => Real.exp (n - as.foldl maxS a) /
      ((a :: as).map fun n => Real.exp (n - as.foldl maxS a)).sum) := by
  simp only [softmax, maxList, sumS_eq_sum, List.map_map]
  rfl

theorem softmax_denominator_pos (a : ℝ) (as : List ℝ) (m : ℝ) :
    0 < ((a :: as).map fun n => Real.exp (n - m)).sum := by
  simp only [List.map_cons, List.sum_cons]
  have h1 : 0 < Real.exp (a - m) := Real.exp_pos _
  have h2 : 0 ≤ (as.map fun n => Real.exp (n - m)).sum := by
    apply List.sum_nonneg
    intro x hx
    obtain ⟨n, -, rfl⟩ := List.mem_map.mp hx
    exact (Real.exp_pos _).le
  linarith

/-- **softmax entries are non-negative** (indeed positive) -/
theorem softmax_nonneg (v : List ℝ) : ∀ p ∈ softmax v, 0 ≤ p := by
  cases v with
  | nil => simp [softmax, maxList]
  | cons a as =>
    intro p hp
    rw [softmax_cons] at hp
    obtain ⟨n, -, rfl⟩ := List.mem_map.mp hp
    exact div_nonneg (Real.exp_pos _).le (softmax_denominator_pos a as _).le

/-- **softmax rows sum to one** -/
theorem softmax_sum_one (v : List ℝ) (hv : v ≠ []) : (softmax v).sum = 1 := by
  cases v with
  | nil => exact absurd rfl hv
  | cons a as =>
    rw [softmax_cons]
    have hpos := softmax_denominator_pos a as (as.foldl maxS a)
    have : ∀ (l : List ℝ) (s : ℝ), (l.map fun n => Real.exp (n - as.foldl maxS a) / s).sum =
        (l.map fun n => Real.exp (n - as.foldl maxS a)).sum / s := by
      intro l s
      induction l with
      | nil => simp
      | cons b bs ih => simp only [List.map_cons, List.sum_cons, ih]; ring
    rw [this]
    exact div_self (ne_of_gt hpos)

/-- hence every softmax entry is at most one -/
theorem softmax_le_one (v : List ℝ) : ∀ p ∈ softmax v, p ≤ 1 := by
  intro p hp
  have hv : v ≠ [] := by
    rintro rfl
    simp [softmax, maxList] at hp
  have hs := softmax_sum_one v hv
  have := List.single_le_sum (softmax_nonneg v) p hp
  linarith

/-- **softmax is invariant under a common shift of the scores** -/
theorem softmax_shift_invariant (v : List ℝ) (c : ℝ) : softmax (v.map (· + c)) = softmax v := by
  cases v with
  | nil => rfl
  | cons a as =>
    rw [List.map_cons, softmax_cons, softmax_cons, foldl_maxS_shift]
    simp only [List.map_cons, List.map_map, Function.comp_def, add_sub_add_right_eq_sub]

/-- softmax is a strictly increasing function applied to every score -/
theorem softmax_eq_map_strictMono (a : ℝ) (as : List ℝ) :
    ∃ f : ℝ → ℝ, StrictMono f ∧ softmax (a :: as) = (a :: as).map f := by
  refine ⟨fun n => Real.exp (n - as.foldl maxS a) /
      ((a :: as).map fun n => Real.exp (n - as.foldl maxS a)).sum, ?_, softmax_cons a as⟩
  intro x y hxy
  have hpos := softmax_denominator_pos a as (as.foldl maxS a)
  exact div_lt_div_of_pos_right (Real.exp_lt_exp.mpr (by linarith)) hpos

/-- **the arg-max of the un-normalised scores (what `predict` uses) is the arg-max of the
probabilities (what `predict_probabilities` reports)** -/
theorem argmax_scores_eq_argmax_softmax (v : List ℝ) : argmax (softmax v) = argmax v := by
  cases v with
  | nil => rfl
  | cons a as =>
    obtain ⟨f, hf, he⟩ := softmax_eq_map_strictMono a as
    rw [he]
    exact argmax_map f hf (a :: as)

/-- so the multinomial prediction is the class with the largest reported probability -/
theorem predict_multi_matches_probabilities {C} [Inhabited C] (k : Nat) (x : List (List ℝ))
    (params : List (List ℝ)) (b : List ℝ) (classes : List C) :
    predictMulti k x params b classes =
      (predictProbaMulti k x params b).map fun p => classes.getD (argmax p) default := by
  simp only [predictMulti, predictProbaMulti, List.map_map, Function.comp_def,
    argmax_scores_eq_argmax_softmax]

/-- **the binary prediction is the positive class exactly when the reported probability reaches
the threshold** -/
theorem predict_matches_threshold {C} (x : List (List ℝ)) (params : List ℝ) (b thr : ℝ)
    (pos neg : C) (hne : pos ≠ neg) (i : Nat) (hi : i < x.length) :
    ∃ p c, (predictProba x params b)[i]? = some p ∧ (predictBinary x params b thr pos neg)[i]? = some c ∧
      0 < p ∧ p < 1 ∧ (c = pos ↔ thr ≤ p) ∧ (c = neg ↔ p < thr) := by
  have hlen : i < (predictProba x params b).length := by simp [predictProba, linPred, hi]
  refine ⟨(predictProba x params b)[i], if thr ≤ (predictProba x params b)[i] then pos else neg, by simp [hlen], ?_, ?_⟩
  · simp [predictBinary, hlen]
  · have hp : (predictProba x params b)[i] ∈ predictProba x params b := List.getElem_mem hlen
    obtain ⟨z, -, hz⟩ := List.mem_map.mp hp
    rw [← hz]
    refine ⟨(logistic_range z).1, (logistic_range z).2, ?_, ?_⟩
    · split_ifs with h
      · simp [h]
      · simp [h, hne.symm]
    · split_ifs with h
      · simp [hne, not_lt.mpr h]
      · simp [not_le.mp h]

example : softmax ([1, 2, 3] : List ℝ) ≠ [] ∧ (softmax ([1, 2, 3] : List ℝ)).sum = 1 :=
  ⟨by rw [softmax_cons]; simp, softmax_sum_one _ (by simp)⟩

end Scalar

/-! ## gradients: per-term derivative lemmas, then the whole binary gradient

Full statement of the binary case (proved in full below; the multinomial and Tweedie cases stay `_partial`):

  for `w` of length `nf (+1)`, every coordinate `j`,
  `HasDerivAt (fun t => logisticLoss nf x y α (w.set j t)) ((logisticGrad nf x y α w).get j) w[j]`

Proved in full below (`logistic_grad_is_derivative_weight`, `_intercept`, `_no_intercept`): first the derivative of
every summand the loss consists of (per sample and coordinate, and the penalty), then the sum rule by induction over
the sample list, then the `List.set`/`splitParams` bookkeeping. -/

section Grad

/-- derivative of the per-sample loss `-log_logistic u = ln(1 + e^{-u})` is `logistic u - 1` -/
theorem neg_log_logistic_hasDerivAt (u : ℝ) :
    HasDerivAt (fun u : ℝ => -logLogistic u) (logistic u - 1) u := by
  have hfun : (fun u : ℝ => -logLogistic u) = fun u => Real.log (1 + Real.exp (-u)) := by
    funext v
    rw [log_logistic_branches, logistic_eq, one_div, Real.log_inv, neg_neg]
  rw [hfun]
  have hpos : 0 < 1 + Real.exp (-u) := by positivity
  have h1 : HasDerivAt (fun v : ℝ => 1 + Real.exp (-v)) (-Real.exp (-u)) u := by
    have := ((hasDerivAt_id u).neg).exp
    simpa using this.const_add 1
  have h2 := h1.log (ne_of_gt hpos)
  convert h2 using 1
  rw [logistic_eq]
  field_simp
  ring

/-- **per-sample, per-coordinate term** (`_partial` of `logistic_grad_is_derivative`): if the linear
predictor of a sample depends on the coordinate `t` as `z₀ + xj (t - w₀)` (weight `j`: `xj = x_ij`;
intercept: `xj = 1`), the sample's loss has derivative `(logistic(z y) - 1) * y * xj` at `w₀` —
the summand `residuals[i] * x_ij` of `logistic_grad`. -/
theorem logistic_grad_is_derivative_partial (z0 xj w0 y : ℝ) :
    HasDerivAt (fun t : ℝ => -logLogistic ((z0 + xj * (t - w0)) * y))
      ((logistic (z0 * y) - 1) * y * xj) w0 := by
  have hin : HasDerivAt (fun t : ℝ => (z0 + xj * (t - w0)) * y) (xj * y) w0 := by
    have := (((hasDerivAt_id w0).sub_const w0).const_mul xj).const_add z0
    simpa using this.mul_const y
  have hout := neg_log_logistic_hasDerivAt ((z0 + xj * (w0 - w0)) * y)
  have h := HasDerivAt.comp w0 hout hin
  simp only [sub_self, mul_zero, add_zero] at h
  exact h.congr_deriv (by ring)

/-- the penalty `0.5 * alpha * (c + t^2)` (weights only) has derivative `t * alpha` — the summand
`params * alpha` of the gradient; the intercept does not occur in it -/
theorem penalty_hasDerivAt (alpha c t : ℝ) :
    HasDerivAt (fun t : ℝ => (Logistic.half : ℝ) * alpha * (c + t * t)) (t * alpha) t := by
  have h := (((hasDerivAt_id t).mul (hasDerivAt_id t)).const_add c).const_mul ((Logistic.half : ℝ) * alpha)
  exact h.congr_deriv (by simp only [Logistic.half, id]; ring)

/-- the gradient the code returns is assembled from exactly these summands: weight block
`Xᵀ r + alpha w`, intercept entry `Σ r` (no penalty), with `r = residuals` -/
theorem logistic_grad_structure (nf : Nat) (x : List (List ℝ)) (y w : List ℝ) (alpha : ℝ)
    (hw : w.length = nf + 1) :
    logisticGrad nf x y alpha w =
      some (List.zipWith (· + ·) (tDot nf x (residuals x y (w.take nf) ((w.drop nf).headD 0)))
              ((w.take nf).map (· * alpha)) ++
            [sumS (residuals x y (w.take nf) ((w.drop nf).headD 0))]) := by
  simp [logisticGrad, splitParams, hw]

/-! #### the whole gradient (sum rule over the sample list carried through `sumS ∘ zipWith`, `List.set` /
`splitParams` bookkeeping): `logistic_grad_is_derivative_{weight, intercept, no_intercept}` are the FULL statement
`HasDerivAt (fun t => logisticLoss nf x y α (w.set j t)) (logisticGrad nf x y α w)[j] w[j]` for every sample list,
target list, parameter vector, `alpha`, and every coordinate `j` -/

/-- sum rule over the sample list, weight coordinate `j`: the data part of `logistic_loss` as a function of
weight `j` has derivative `(Xᵀ r)[j]`, `r = residuals` -/
theorem data_loss_hasDerivAt_weight (x : List (List ℝ)) (y p : List ℝ) (b : ℝ) (j : Nat) (hj : j < p.length) :
    HasDerivAt (fun t : ℝ => -(sumS ((List.zipWith (· * ·) (linPred x (p.set j t) b) y).map logLogistic)))
      (dotS (col x j) (residuals x y p b)) (p.getD j 0) := by
  induction x generalizing y with
  | nil => simpa [linPred, residuals, col, sumS, dotS] using hasDerivAt_const (p.getD j 0) (0 : ℝ)
  | cons r xs ih =>
    cases y with
    | nil => simpa [linPred, residuals, col, sumS, dotS] using hasDerivAt_const (p.getD j 0) (0 : ℝ)
    | cons yi ys =>
      have hhead : HasDerivAt (fun t : ℝ => -logLogistic ((dotS r (p.set j t) + b) * yi))
          ((logistic ((dotS r p + b) * yi) - 1) * yi * r.getD j 0) (p.getD j 0) := by
        have h := logistic_grad_is_derivative_partial (dotS r p + b) (r.getD j 0) (p.getD j 0) yi
        have e : (fun t : ℝ => -logLogistic ((dotS r (p.set j t) + b) * yi)) =
            fun t : ℝ => -logLogistic ((dotS r p + b + r.getD j 0 * (t - p.getD j 0)) * yi) := by
          funext t
          rw [dotS_set r p j t hj]
          ring_nf
        rw [e]; exact h
      have htail := ih ys
      have hsum := hhead.add htail
      have e1 : (fun t : ℝ => -(sumS ((List.zipWith (· * ·) (linPred (r :: xs) (p.set j t) b) (yi :: ys)).map logLogistic))) =
          fun t : ℝ => -logLogistic ((dotS r (p.set j t) + b) * yi) +
            -(sumS ((List.zipWith (· * ·) (linPred xs (p.set j t) b) ys).map logLogistic)) := by
        funext t
        simp only [linPred, List.map_cons, List.zipWith_cons_cons, sumS_cons]
        ring
      have e2 : dotS (col (r :: xs) j) (residuals (r :: xs) (yi :: ys) p b) =
          (logistic ((dotS r p + b) * yi) - 1) * yi * r.getD j 0 + dotS (col xs j) (residuals xs ys p b) := by
        simp only [col, residuals, linPred, List.map_cons, List.zipWith_cons_cons, dotS_cons]
        ring
      rw [e1, e2]
      exact hsum

/-- sum rule, intercept coordinate: derivative `Σ r` -/
theorem data_loss_hasDerivAt_intercept (x : List (List ℝ)) (y p : List ℝ) (b : ℝ) :
    HasDerivAt (fun t : ℝ => -(sumS ((List.zipWith (· * ·) (linPred x p t) y).map logLogistic)))
      (sumS (residuals x y p b)) b := by
  induction x generalizing y with
  | nil => simpa [linPred, residuals, sumS] using hasDerivAt_const b (0 : ℝ)
  | cons r xs ih =>
    cases y with
    | nil => simpa [linPred, residuals, sumS] using hasDerivAt_const b (0 : ℝ)
    | cons yi ys =>
      have hhead : HasDerivAt (fun t : ℝ => -logLogistic ((dotS r p + t) * yi))
          ((logistic ((dotS r p + b) * yi) - 1) * yi) b := by
        have h := logistic_grad_is_derivative_partial (dotS r p + b) 1 b yi
        have e : (fun t : ℝ => -logLogistic ((dotS r p + t) * yi)) =
            fun t : ℝ => -logLogistic ((dotS r p + b + 1 * (t - b)) * yi) := by
          funext t
          ring_nf
        rw [e]; simpa using h
      have hsum := hhead.add (ih ys)
      have e1 : (fun t : ℝ => -(sumS ((List.zipWith (· * ·) (linPred (r :: xs) p t) (yi :: ys)).map logLogistic))) =
          fun t : ℝ => -logLogistic ((dotS r p + t) * yi) +
            -(sumS ((List.zipWith (· * ·) (linPred xs p t) ys).map logLogistic)) := by
        funext t
        simp only [linPred, List.map_cons, List.zipWith_cons_cons, sumS_cons]
        ring
      have e2 : sumS (residuals (r :: xs) (yi :: ys) p b) =
          (logistic ((dotS r p + b) * yi) - 1) * yi + sumS (residuals xs ys p b) := by
        simp only [residuals, linPred, List.map_cons, List.zipWith_cons_cons, sumS_cons]
      rw [e1, e2]
      exact hsum


theorem penalty_set_hasDerivAt (p : List ℝ) (alpha : ℝ) (j : Nat) (hj : j < p.length) :
    HasDerivAt (fun t : ℝ => (Logistic.half : ℝ) * alpha * dotS (p.set j t) (p.set j t))
      (p.getD j 0 * alpha) (p.getD j 0) := by
  have e : (fun t : ℝ => (Logistic.half : ℝ) * alpha * dotS (p.set j t) (p.set j t)) =
      fun t : ℝ => (Logistic.half : ℝ) * alpha * ((dotS p p - p.getD j 0 * p.getD j 0) + t * t) := by
    funext t; rw [dotS_set_self p j t hj]
  rw [e]
  exact penalty_hasDerivAt alpha _ _

/-- the loss with the parameters already split -/
theorem loss_split (nf : Nat) (x : List (List ℝ)) (y w : List ℝ) (alpha : ℝ) (hw : w.length = nf + 1) :
    logisticLoss nf x y alpha w =
      some (-(sumS ((List.zipWith (· * ·) (linPred x (w.take nf) ((w.drop nf).headD 0)) y).map logLogistic)) +
        Logistic.half * alpha * dotS (w.take nf) (w.take nf)) := by
  simp [logisticLoss, splitParams, hw]

theorem grad_entry_weight (nf : Nat) (x : List (List ℝ)) (y w : List ℝ) (alpha : ℝ)
    (hw : w.length = nf + 1) (j : Nat) (hj : j < nf) :
    ((logisticGrad nf x y alpha w).getD []).getD j 0 =
      dotS (col x j) (residuals x y (w.take nf) ((w.drop nf).headD 0)) + (w.take nf).getD j 0 * alpha := by
  rw [logistic_grad_structure nf x y w alpha hw]
  have hl : (w.take nf).length = nf := by simp [hw]
  have hjw : j < w.length := by omega
  have h1 : (tDot nf x (residuals x y (w.take nf) ((w.drop nf).headD 0)))[j]? =
      some (dotS (col x j) (residuals x y (w.take nf) ((w.drop nf).headD 0))) := by
    simp [tDot, hj]
  have h2 : ((w.take nf).map (· * alpha))[j]? = some ((w.take nf).getD j 0 * alpha) := by
    simp [List.getD_eq_getElem?_getD, hj, hjw]
  have hlen : (List.zipWith (· + ·) (tDot nf x (residuals x y (w.take nf) ((w.drop nf).headD 0)))
      ((w.take nf).map (· * alpha))).length = nf := by
    simp [tDot]; omega
  rw [Option.getD_some, List.getD_eq_getElem?_getD, List.getElem?_append_left (by rw [hlen]; exact hj),
    List.getElem?_zipWith, h1, h2]
  rfl


/-- **FULL (weight coordinate, model with intercept)**: entry `j < nf` of `logisticGrad` is the partial derivative
of `logisticLoss` with respect to weight `j`, for every sample list, every target list and every parameter vector -/
theorem logistic_grad_is_derivative_weight (nf : Nat) (x : List (List ℝ)) (y w : List ℝ) (alpha : ℝ)
    (hw : w.length = nf + 1) (j : Nat) (hj : j < nf) :
    HasDerivAt (fun t : ℝ => (logisticLoss nf x y alpha (w.set j t)).getD 0)
      (((logisticGrad nf x y alpha w).getD []).getD j 0) (w.getD j 0) := by
  have hjp : j < (w.take nf).length := by simp [hw]; omega
  have hwj : (w.take nf).getD j 0 = w.getD j 0 := by
    simp [List.getD_eq_getElem?_getD, hj]
  have e : (fun t : ℝ => (logisticLoss nf x y alpha (w.set j t)).getD 0) =
      fun t : ℝ => -(sumS ((List.zipWith (· * ·) (linPred x ((w.take nf).set j t) ((w.drop nf).headD 0)) y).map logLogistic)) +
        Logistic.half * alpha * dotS ((w.take nf).set j t) ((w.take nf).set j t) := by
    funext t
    rw [loss_split nf x y (w.set j t) alpha (by simpa using hw), Option.getD_some, List.take_set,
      List.drop_set_of_lt hj]
  rw [e, grad_entry_weight nf x y w alpha hw j hj, ← hwj]
  exact (data_loss_hasDerivAt_weight x y (w.take nf) ((w.drop nf).headD 0) j hjp).add
    (penalty_set_hasDerivAt (w.take nf) alpha j hjp)


theorem grad_entry_intercept (nf : Nat) (x : List (List ℝ)) (y w : List ℝ) (alpha : ℝ)
    (hw : w.length = nf + 1) :
    ((logisticGrad nf x y alpha w).getD []).getD nf 0 =
      sumS (residuals x y (w.take nf) ((w.drop nf).headD 0)) := by
  rw [logistic_grad_structure nf x y w alpha hw]
  have hlen : (List.zipWith (· + ·) (tDot nf x (residuals x y (w.take nf) ((w.drop nf).headD 0)))
      ((w.take nf).map (· * alpha))).length = nf := by
    simp [tDot]; omega
  rw [Option.getD_some, List.getD_eq_getElem?_getD, List.getElem?_append_right (by rw [hlen]), hlen]
  simp

/-- **FULL (intercept coordinate)**: the last entry of `logisticGrad` is the partial derivative of `logisticLoss`
with respect to the intercept (no penalty term) -/
theorem logistic_grad_is_derivative_intercept (nf : Nat) (x : List (List ℝ)) (y w : List ℝ) (alpha : ℝ)
    (hw : w.length = nf + 1) :
    HasDerivAt (fun t : ℝ => (logisticLoss nf x y alpha (w.set nf t)).getD 0)
      (((logisticGrad nf x y alpha w).getD []).getD nf 0) ((w.drop nf).headD 0) := by
  have e : (fun t : ℝ => (logisticLoss nf x y alpha (w.set nf t)).getD 0) =
      fun t : ℝ => -(sumS ((List.zipWith (· * ·) (linPred x (w.take nf) t) y).map logLogistic)) +
        Logistic.half * alpha * dotS (w.take nf) (w.take nf) := by
    funext t
    rw [loss_split nf x y (w.set nf t) alpha (by simpa using hw), Option.getD_some,
      List.take_set_of_le (le_refl nf)]
    have : ((w.set nf t).drop nf).headD 0 = t := by
      rw [List.drop_set]
      have hl : (w.drop nf).length = 1 := by simp [hw]
      match hd : w.drop nf, hl with
      | [a], _ => simp
    rw [this]
  rw [e, grad_entry_intercept nf x y w alpha hw]
  exact (data_loss_hasDerivAt_intercept x y (w.take nf) ((w.drop nf).headD 0)).add_const _


/-- **FULL (model without intercept)**: `w.length = nf`: every entry of `logisticGrad` is the partial derivative of
`logisticLoss` -/
theorem logistic_grad_is_derivative_no_intercept (nf : Nat) (x : List (List ℝ)) (y w : List ℝ) (alpha : ℝ)
    (hw : w.length = nf) (j : Nat) (hj : j < nf) :
    HasDerivAt (fun t : ℝ => (logisticLoss nf x y alpha (w.set j t)).getD 0)
      (((logisticGrad nf x y alpha w).getD []).getD j 0) (w.getD j 0) := by
  have hjw : j < w.length := by omega
  have e : (fun t : ℝ => (logisticLoss nf x y alpha (w.set j t)).getD 0) =
      fun t : ℝ => -(sumS ((List.zipWith (· * ·) (linPred x (w.set j t) 0) y).map logLogistic)) +
        Logistic.half * alpha * dotS (w.set j t) (w.set j t) := by
    funext t
    simp [logisticLoss, splitParams, hw]
  have g : ((logisticGrad nf x y alpha w).getD []).getD j 0 =
      dotS (col x j) (residuals x y w 0) + w.getD j 0 * alpha := by
    have h1 : (tDot nf x (residuals x y w 0))[j]? = some (dotS (col x j) (residuals x y w 0)) := by
      simp [tDot, hj]
    have h2 : (w.map (· * alpha))[j]? = some (w.getD j 0 * alpha) := by
      simp [List.getD_eq_getElem?_getD, hjw]
    simp only [logisticGrad, splitParams, hw, if_true]
    have hne : ¬ (nf = nf + 1) := by omega
    simp only [hne, if_false, Option.getD_some]
    rw [List.getD_eq_getElem?_getD, List.getElem?_zipWith, h1, h2]
    rfl
  rw [e, g]
  exact (data_loss_hasDerivAt_weight x y w 0 j hjw).add (penalty_set_hasDerivAt w alpha j hjw)

example : HasDerivAt (fun t : ℝ => (logisticLoss 2 [[1, 2], [3, -1], [0, 1]] [1, -1, 1] (1 / 2) (([1, 2, 3] : List ℝ).set 1 t)).getD 0)
    (((logisticGrad 2 [[1, 2], [3, -1], [0, 1]] [1, -1, 1] (1 / 2) ([1, 2, 3] : List ℝ)).getD []).getD 1 0)
    (([1, 2, 3] : List ℝ).getD 1 0) :=
  logistic_grad_is_derivative_weight 2 [[1, 2], [3, -1], [0, 1]] [1, -1, 1] [1, 2, 3] (1 / 2) rfl 1 (by norm_num)

example : HasDerivAt (fun t : ℝ => (logisticLoss 2 [[1, 2], [3, -1], [0, 1]] [1, -1, 1] (1 / 2) (([1, 2, 3] : List ℝ).set 2 t)).getD 0)
    (((logisticGrad 2 [[1, 2], [3, -1], [0, 1]] [1, -1, 1] (1 / 2) ([1, 2, 3] : List ℝ)).getD []).getD 2 0)
    ((([1, 2, 3] : List ℝ).drop 2).headD 0) :=
  logistic_grad_is_derivative_intercept 2 [[1, 2], [3, -1], [0, 1]] [1, -1, 1] [1, 2, 3] (1 / 2) rfl

example : HasDerivAt (fun t : ℝ => (logisticLoss 2 [[1, 2], [3, -1]] [1, -1] 1 (([1, 2] : List ℝ).set 0 t)).getD 0)
    (((logisticGrad 2 [[1, 2], [3, -1]] [1, -1] 1 ([1, 2] : List ℝ)).getD []).getD 0 0)
    (([1, 2] : List ℝ).getD 0 0) :=
  logistic_grad_is_derivative_no_intercept 2 [[1, 2], [3, -1]] [1, -1] [1, 2] 1 rfl 0 (by norm_num)

/-- every coordinate at once (binary model with intercept) -/
theorem logistic_grad_is_derivative (nf : Nat) (x : List (List ℝ)) (y w : List ℝ) (alpha : ℝ)
    (hw : w.length = nf + 1) (j : Nat) (hj : j < nf + 1) :
    HasDerivAt (fun t : ℝ => (logisticLoss nf x y alpha (w.set j t)).getD 0)
      (((logisticGrad nf x y alpha w).getD []).getD j 0) (w.getD j 0) := by
  by_cases h : j < nf
  · exact logistic_grad_is_derivative_weight nf x y w alpha hw j h
  · have : j = nf := by omega
    subst this
    have h := logistic_grad_is_derivative_intercept j x y w alpha hw
    rw [headD_drop] at h
    exact h

/-- **oracle clause `stationary` ⇔ first-order optimality** (binary): the gradient the code returns vanishes at `w`
iff every partial derivative of the documented objective `logisticLoss` is zero at `w` -/
theorem logistic_stationary_iff_grad_zero (nf : Nat) (x : List (List ℝ)) (y w : List ℝ) (alpha : ℝ)
    (hw : w.length = nf + 1) :
    (∀ j, j < nf + 1 → ((logisticGrad nf x y alpha w).getD []).getD j 0 = 0) ↔
    (∀ j, j < nf + 1 → HasDerivAt (fun t : ℝ => (logisticLoss nf x y alpha (w.set j t)).getD 0) 0 (w.getD j 0)) :=
  stationary_iff_of_hasDerivAt (nf + 1) _ _ _ (fun j hj => logistic_grad_is_derivative nf x y w alpha hw j hj)

/-- quantitative form, as the oracle tests it: `‖logisticGrad‖₂ ≤ tol` ⇒ every partial derivative of the documented
objective is at most `tol` in absolute value -/
theorem logistic_partials_le_of_grad_norm_le (nf : Nat) (x : List (List ℝ)) (y w : List ℝ) (alpha tol : ℝ)
    (hw : w.length = nf + 1) (htol : 0 ≤ tol)
    (hn : (((logisticGrad nf x y alpha w).getD []).map (· ^ 2)).sum ≤ tol ^ 2) (j : Nat) (hj : j < nf + 1) :
    |deriv (fun t : ℝ => (logisticLoss nf x y alpha (w.set j t)).getD 0) (w.getD j 0)| ≤ tol := by
  rw [(logistic_grad_is_derivative nf x y w alpha hw j hj).deriv]
  apply entry_abs_le_of_norm_le _ tol htol hn
  have hlen : ((logisticGrad nf x y alpha w).getD []).length = nf + 1 := by
    rw [logistic_grad_structure nf x y w alpha hw]
    simp [tDot]; omega
  rw [List.getD_eq_getElem?_getD, List.getElem?_eq_getElem (by rw [hlen]; exact hj), Option.getD_some]
  exact List.getElem_mem _

example : (∀ j, j < 2 + 1 → ((logisticGrad 2 [[1, 2], [3, -1], [0, 1]] [1, -1, 1] (1 / 2) ([1, 2, 3] : List ℝ)).getD []).getD j 0 = 0) ↔
    (∀ j, j < 2 + 1 → HasDerivAt (fun t : ℝ =>
      (logisticLoss 2 [[1, 2], [3, -1], [0, 1]] [1, -1, 1] (1 / 2) (([1, 2, 3] : List ℝ).set j t)).getD 0) 0
      (([1, 2, 3] : List ℝ).getD j 0)) :=
  logistic_stationary_iff_grad_zero 2 _ _ _ _ rfl

example : HasDerivAt (fun t : ℝ => -logLogistic ((2 + 3 * (t - 1)) * (-1)))
    ((logistic (2 * (-1)) - 1) * (-1) * 3) 1 := logistic_grad_is_derivative_partial 2 3 1 (-1)

/-! ### multinomial

Full statement (proved below, `multi_logistic_grad_is_derivative_{weight, intercept, no_intercept}` and the
all-coordinates form `multi_logistic_grad_is_derivative`): every entry of `multiLogisticGrad` is the partial
derivative of `multiLogisticLoss` (penalty on the weight rows only, intercept row = column sums of
`softmax(H) - Y`), for one-hot targets (rows of length `k` that sum to one — for other targets the code's gradient
is NOT the derivative of its loss).  First: the quantity the gradient code calls `prob` IS the row-wise softmax (the
`1e-15` floor is inactive once the max is taken per row), and the block structure of the result.  Helpers
(`logSumExpRow_eq`: log_sum_exp = ln Σ exp; `row_loss_hasDerivAt`: d/dz_c of one sample's loss = softmax_c − y_c;
`multi_data_hasDerivAt`: sum rule over the samples; `sc_set_weight` / `sc_set_intercept`: only one class score moves)
are in `Proofs/LogisticReal.lean`. -/

/-- **`exp(H - log_sum_exp(H))` is the softmax of the row** (for any floor `eps ≤ 1`; the code's is
`1e-15`) — `multi_logistic_grad` and `predict_probabilities` speak of the same probabilities. -/
theorem exp_logprob_is_softmax (eps : ℝ) (heps : eps ≤ 1) (a : ℝ) (as : List ℝ) :
    (a :: as).map (fun h => Real.exp (h - logSumExpRow eps (a :: as))) = softmax (a :: as) := by
  set m := as.foldl maxS a with hm
  have hmem : m ∈ a :: as := by
    rcases foldl_maxS_mem as a with h | h
    · rw [hm, h]; simp
    · exact List.mem_cons_of_mem _ h
  set S := ((a :: as).map fun e => Real.exp (e - m)).sum with hS
  have hS1 : 1 ≤ S := by
    have hnn : ∀ x ∈ (a :: as).map (fun e => Real.exp (e - m)), 0 ≤ x := by
      intro x hx
      obtain ⟨n, -, rfl⟩ := List.mem_map.mp hx
      exact (Real.exp_pos _).le
    have := List.single_le_sum hnn (Real.exp (m - m)) (List.mem_map.mpr ⟨m, hmem, rfl⟩)
    rw [sub_self, Real.exp_zero] at this
    exact this
  have hlse : logSumExpRow eps (a :: as) = Real.log S + m := by
    simp only [logSumExpRow, maxList]
    show Real.log (maxS (List.foldl (fun acc e => acc + Real.exp (e - m)) 0 (a :: as)) eps) + m = _
    rw [foldl_add_exp, zero_add, maxS_eq_max, max_eq_left (le_trans heps hS1)]
  have hsm : softmax (a :: as) = (a :: as).map (fun n => Real.exp (n - m) / S) := by
    simp only [softmax, maxList, sumS_eq_sum, List.map_map]
    rfl
  rw [hsm, hlse]
  apply List.map_congr_left
  intro h _
  have hSpos : 0 < S := by linarith
  rw [show h - (Real.log S + m) = (h - m) - Real.log S by ring, Real.exp_sub, Real.exp_log hSpos]

/-- block structure of the multinomial gradient: weight rows `Xᵀ(P - Y) + alpha W`, then one
intercept row of column sums of `P - Y` without penalty -/
theorem multi_logistic_grad_structure (eps : ℝ) (nf k : Nat) (x y w : List (List ℝ)) (alpha : ℝ)
    (hw : w.length = nf + 1) :
    multiLogisticGrad eps nf k x y alpha w =
      some ((List.range nf).map (fun j => (List.range k).map fun c =>
              dotS (col x j) (col (multiDiff eps k x y (w.take nf) ((w.drop nf).headD [])) c) +
                ((w.take nf).getD j []).getD c 0 * alpha) ++
            [(List.range k).map fun c => sumS (col (multiDiff eps k x y (w.take nf) ((w.drop nf).headD [])) c)]) := by
  simp [multiLogisticGrad, splitParams2, hw]

example : ([1, 2, 3] : List ℝ).map (fun h => Real.exp (h - logSumExpRow (1 / 10) [1, 2, 3])) = softmax [1, 2, 3] :=
  exp_logprob_is_softmax _ (by norm_num) 1 [2, 3]

/-- the multinomial penalty `½ α Σ W²` as a function of entry `(j, c0)` -/
theorem multi_penalty_hasDerivAt (params : List (List ℝ)) (alpha : ℝ) (j c0 : Nat) (hj : j < params.length)
    (hc0 : c0 < (params.getD j []).length) :
    HasDerivAt (fun t : ℝ => (Logistic.half : ℝ) * alpha *
        elemDot (params.set j ((params.getD j []).set c0 t)) (params.set j ((params.getD j []).set c0 t)))
      ((params.getD j []).getD c0 0 * alpha) ((params.getD j []).getD c0 0) := by
  have e : (fun t : ℝ => (Logistic.half : ℝ) * alpha *
        elemDot (params.set j ((params.getD j []).set c0 t)) (params.set j ((params.getD j []).set c0 t))) =
      fun t : ℝ => (Logistic.half : ℝ) * alpha *
        ((elemDot params params - (params.getD j []).getD c0 0 * (params.getD j []).getD c0 0) + t * t) := by
    funext t
    rw [elemDot_set_self params j _ hj, dotS_set_self (params.getD j []) c0 t hc0]
    ring
  rw [e]
  exact penalty_hasDerivAt alpha _ _


theorem multi_loss_split (eps : ℝ) (nf k : Nat) (x y w : List (List ℝ)) (alpha : ℝ) (hw : w.length = nf + 1) :
    multiLogisticLoss eps nf k x y alpha w =
      some (-(elemDot (logProb eps k x (w.take nf) ((w.drop nf).headD [])) y) +
        Logistic.half * alpha * elemDot (w.take nf) (w.take nf)) := by
  simp [multiLogisticLoss, splitParams2, hw]

/-- data part + penalty for a split parameter matrix, weight entry `(j, c0)` -/
theorem multi_split_hasDerivAt_weight (eps : ℝ) (heps : eps ≤ 1) (k : Nat) (x y P : List (List ℝ)) (B : List ℝ)
    (alpha : ℝ) (hy : ∀ yr ∈ y, yr.length = k ∧ yr.sum = 1) (j c0 : Nat) (hj : j < P.length) (hc0 : c0 < k)
    (hr : c0 < (P.getD j []).length) :
    HasDerivAt (fun t : ℝ => -(elemDot (logProb eps k x (setEntry P j c0 t) B) y) +
        Logistic.half * alpha * elemDot (setEntry P j c0 t) (setEntry P j c0 t))
      (dotS (col x j) (col (multiDiff eps k x y P B) c0) + (P.getD j []).getD c0 0 * alpha)
      ((P.getD j []).getD c0 0) := by
  have hdata := multi_data_hasDerivAt eps heps k c0 hc0
    (fun t row => sc k row (setEntry P j c0 t) B) (fun row => sc k row P B) (fun row => row.getD j 0)
    ((P.getD j []).getD c0 0)
    (fun t row => by
      show sc k row (P.set j ((P.getD j []).set c0 t)) B = _
      rw [sc_set_weight k row P B j c0 t hj hr, sc_getD k row P B c0 hc0])
    (fun row => sc_length k row P B) x y hy
  have e : (fun t : ℝ => -(elemDot (logProb eps k x (setEntry P j c0 t) B) y) +
        Logistic.half * alpha * elemDot (setEntry P j c0 t) (setEntry P j c0 t)) =
      fun t : ℝ => -(List.zipWith (fun row yr => rowLoss eps (sc k row (setEntry P j c0 t) B) yr) x y).sum +
        Logistic.half * alpha * elemDot (P.set j ((P.getD j []).set c0 t)) (P.set j ((P.getD j []).set c0 t)) := by
    funext t; rw [elemDot_logProb]; rfl
  have g : dotS (col x j) (col (multiDiff eps k x y P B) c0) =
      (List.zipWith (fun row yr => (Real.exp ((sc k row P B).getD c0 0 - logSumExpRow eps (sc k row P B)) -
        yr.getD c0 0) * row.getD j 0) x y).sum := by
    rw [col_multiDiff eps k c0 hc0 P B x y hy, dotS_col_zipWith]
  rw [g, e]
  exact hdata.add (multi_penalty_hasDerivAt P alpha j c0 hj hr)

/-- data part for a split parameter matrix, intercept entry `c0` (the penalty does not depend on it) -/
theorem multi_split_hasDerivAt_intercept (eps : ℝ) (heps : eps ≤ 1) (k : Nat) (x y P : List (List ℝ)) (B : List ℝ)
    (hy : ∀ yr ∈ y, yr.length = k ∧ yr.sum = 1) (c0 : Nat) (hc0 : c0 < k) (hb : c0 < B.length) :
    HasDerivAt (fun t : ℝ => -(elemDot (logProb eps k x P (B.set c0 t)) y))
      (sumS (col (multiDiff eps k x y P B) c0)) (B.getD c0 0) := by
  have hdata := multi_data_hasDerivAt eps heps k c0 hc0
    (fun t row => sc k row P (B.set c0 t)) (fun row => sc k row P B) (fun _ => 1) (B.getD c0 0)
    (fun t row => by rw [sc_set_intercept k row P B c0 t hb, sc_getD k row P B c0 hc0])
    (fun row => sc_length k row P B) x y hy
  have e : (fun t : ℝ => -(elemDot (logProb eps k x P (B.set c0 t)) y)) =
      fun t : ℝ => -(List.zipWith (fun row yr => rowLoss eps (sc k row P (B.set c0 t)) yr) x y).sum := by
    funext t; rw [elemDot_logProb]
  rw [e, col_multiDiff eps k c0 hc0 P B x y hy, sumS_zipWith_one]
  exact hdata


theorem multi_grad_entry_weight (eps : ℝ) (nf k : Nat) (x y w : List (List ℝ)) (alpha : ℝ)
    (hw : w.length = nf + 1) (j c0 : Nat) (hj : j < nf) (hc0 : c0 < k) :
    (((multiLogisticGrad eps nf k x y alpha w).getD []).getD j []).getD c0 0 =
      dotS (col x j) (col (multiDiff eps k x y (w.take nf) ((w.drop nf).headD [])) c0) +
        ((w.take nf).getD j []).getD c0 0 * alpha := by
  rw [multi_logistic_grad_structure eps nf k x y w alpha hw, Option.getD_some]
  simp only [List.getD_eq_getElem?_getD]
  rw [List.getElem?_append_left (by simp [hj])]
  simp [hj, hc0]

theorem multi_grad_entry_intercept (eps : ℝ) (nf k : Nat) (x y w : List (List ℝ)) (alpha : ℝ)
    (hw : w.length = nf + 1) (c0 : Nat) (hc0 : c0 < k) :
    (((multiLogisticGrad eps nf k x y alpha w).getD []).getD nf []).getD c0 0 =
      sumS (col (multiDiff eps k x y (w.take nf) ((w.drop nf).headD [])) c0) := by
  rw [multi_logistic_grad_structure eps nf k x y w alpha hw, Option.getD_some]
  simp only [List.getD_eq_getElem?_getD]
  rw [List.getElem?_append_right (by simp)]
  simp [hc0]

/-- **FULL (weight entry `(j, c0)`, model with intercept)**: every weight entry of `multiLogisticGrad` is the partial
derivative of `multiLogisticLoss`, for every sample list, every one-hot target matrix (rows of length `k` summing to
one), every `k`, `alpha` and every parameter matrix with `nf + 1` rows of length `k` -/
theorem multi_logistic_grad_is_derivative_weight (eps : ℝ) (heps : eps ≤ 1) (nf k : Nat) (x y w : List (List ℝ))
    (alpha : ℝ) (hw : w.length = nf + 1) (hwk : ∀ r ∈ w, r.length = k)
    (hy : ∀ yr ∈ y, yr.length = k ∧ yr.sum = 1) (j c0 : Nat) (hj : j < nf) (hc0 : c0 < k) :
    HasDerivAt (fun t : ℝ => (multiLogisticLoss eps nf k x y alpha (setEntry w j c0 t)).getD 0)
      ((((multiLogisticGrad eps nf k x y alpha w).getD []).getD j []).getD c0 0) ((w.getD j []).getD c0 0) := by
  have hjw : j < w.length := by omega
  have hjp : j < (w.take nf).length := by simp [hw]; omega
  have hwj : (w.take nf).getD j [] = w.getD j [] := by simp [List.getD_eq_getElem?_getD, hj]
  have hr : c0 < (w.getD j []).length := by
    have : w.getD j [] ∈ w := by
      simp only [List.getD_eq_getElem?_getD, List.getElem?_eq_getElem hjw, Option.getD_some]
      exact List.getElem_mem hjw
    rw [hwk _ this]; exact hc0
  have e : (fun t : ℝ => (multiLogisticLoss eps nf k x y alpha (setEntry w j c0 t)).getD 0) =
      fun t : ℝ => -(elemDot (logProb eps k x (setEntry (w.take nf) j c0 t) ((w.drop nf).headD [])) y) +
        Logistic.half * alpha * elemDot (setEntry (w.take nf) j c0 t) (setEntry (w.take nf) j c0 t) := by
    funext t
    rw [multi_loss_split eps nf k x y (setEntry w j c0 t) alpha (by simpa [setEntry] using hw), Option.getD_some]
    simp only [setEntry, List.take_set, List.drop_set_of_lt hj, hwj]
  rw [e, multi_grad_entry_weight eps nf k x y w alpha hw j c0 hj hc0, ← hwj]
  exact multi_split_hasDerivAt_weight eps heps k x y (w.take nf) _ alpha hy j c0 hjp hc0 (by rw [hwj]; exact hr)

/-- **FULL (intercept entry `c0`)**: the last row of `multiLogisticGrad` holds the partial derivatives with respect to
the intercepts (no penalty term) -/
theorem multi_logistic_grad_is_derivative_intercept (eps : ℝ) (heps : eps ≤ 1) (nf k : Nat) (x y w : List (List ℝ))
    (alpha : ℝ) (hw : w.length = nf + 1) (hwk : ∀ r ∈ w, r.length = k)
    (hy : ∀ yr ∈ y, yr.length = k ∧ yr.sum = 1) (c0 : Nat) (hc0 : c0 < k) :
    HasDerivAt (fun t : ℝ => (multiLogisticLoss eps nf k x y alpha (setEntry w nf c0 t)).getD 0)
      ((((multiLogisticGrad eps nf k x y alpha w).getD []).getD nf []).getD c0 0) ((w.getD nf []).getD c0 0) := by
  have hnw : nf < w.length := by omega
  have hB : (w.drop nf).headD [] = w.getD nf [] := by
    rw [List.headD_eq_head?_getD, List.head?_drop, List.getD_eq_getElem?_getD]
  have hb : c0 < (w.getD nf []).length := by
    have : w.getD nf [] ∈ w := by
      simp only [List.getD_eq_getElem?_getD, List.getElem?_eq_getElem hnw, Option.getD_some]
      exact List.getElem_mem hnw
    rw [hwk _ this]; exact hc0
  have e : (fun t : ℝ => (multiLogisticLoss eps nf k x y alpha (setEntry w nf c0 t)).getD 0) =
      fun t : ℝ => -(elemDot (logProb eps k x (w.take nf) ((w.getD nf []).set c0 t)) y) +
        Logistic.half * alpha * elemDot (w.take nf) (w.take nf) := by
    funext t
    rw [multi_loss_split eps nf k x y (setEntry w nf c0 t) alpha (by simpa [setEntry] using hw), Option.getD_some]
    have h1 : (setEntry w nf c0 t).take nf = w.take nf := by
      simp only [setEntry]; exact List.take_set_of_le (le_refl nf)
    have h2 : ((setEntry w nf c0 t).drop nf).headD [] = (w.getD nf []).set c0 t := by
      rw [List.headD_eq_head?_getD, List.head?_drop]
      simp [setEntry, hnw]
    rw [h1, h2]
  rw [e, multi_grad_entry_intercept eps nf k x y w alpha hw c0 hc0, hB]
  exact (multi_split_hasDerivAt_intercept eps heps k x y (w.take nf) (w.getD nf []) hy c0 hc0 hb).add_const _


/-- **FULL (model without intercept)**: `w` has `nf` rows, the intercepts are fixed at zero -/
theorem multi_logistic_grad_is_derivative_no_intercept (eps : ℝ) (heps : eps ≤ 1) (nf k : Nat)
    (x y w : List (List ℝ)) (alpha : ℝ) (hw : w.length = nf) (hwk : ∀ r ∈ w, r.length = k)
    (hy : ∀ yr ∈ y, yr.length = k ∧ yr.sum = 1) (j c0 : Nat) (hj : j < nf) (hc0 : c0 < k) :
    HasDerivAt (fun t : ℝ => (multiLogisticLoss eps nf k x y alpha (setEntry w j c0 t)).getD 0)
      ((((multiLogisticGrad eps nf k x y alpha w).getD []).getD j []).getD c0 0) ((w.getD j []).getD c0 0) := by
  have hjw : j < w.length := by omega
  have hr : c0 < (w.getD j []).length := by
    have : w.getD j [] ∈ w := by
      simp only [List.getD_eq_getElem?_getD, List.getElem?_eq_getElem hjw, Option.getD_some]
      exact List.getElem_mem hjw
    rw [hwk _ this]; exact hc0
  have e : (fun t : ℝ => (multiLogisticLoss eps nf k x y alpha (setEntry w j c0 t)).getD 0) =
      fun t : ℝ => -(elemDot (logProb eps k x (setEntry w j c0 t) (List.replicate k 0)) y) +
        Logistic.half * alpha * elemDot (setEntry w j c0 t) (setEntry w j c0 t) := by
    funext t
    simp [multiLogisticLoss, splitParams2, setEntry, hw]
  have g : (((multiLogisticGrad eps nf k x y alpha w).getD []).getD j []).getD c0 0 =
      dotS (col x j) (col (multiDiff eps k x y w (List.replicate k 0)) c0) + (w.getD j []).getD c0 0 * alpha := by
    simp only [multiLogisticGrad, splitParams2, hw, if_true]
    have hne : ¬ (nf = nf + 1) := by omega
    simp only [hne, if_false, Option.getD_some]
    simp [List.getD_eq_getElem?_getD, hj, hc0]
  rw [e, g]
  exact multi_split_hasDerivAt_weight eps heps k x y w _ alpha hy j c0 hjw hc0 hr


/-- **every entry at once** (model with intercept): rows `j < nf` are weights, row `nf` the intercepts -/
theorem multi_logistic_grad_is_derivative (eps : ℝ) (heps : eps ≤ 1) (nf k : Nat) (x y w : List (List ℝ))
    (alpha : ℝ) (hw : w.length = nf + 1) (hwk : ∀ r ∈ w, r.length = k)
    (hy : ∀ yr ∈ y, yr.length = k ∧ yr.sum = 1) (j c0 : Nat) (hj : j < nf + 1) (hc0 : c0 < k) :
    HasDerivAt (fun t : ℝ => (multiLogisticLoss eps nf k x y alpha (setEntry w j c0 t)).getD 0)
      ((((multiLogisticGrad eps nf k x y alpha w).getD []).getD j []).getD c0 0) ((w.getD j []).getD c0 0) := by
  by_cases h : j < nf
  · exact multi_logistic_grad_is_derivative_weight eps heps nf k x y w alpha hw hwk hy j c0 h hc0
  · have : j = nf := by omega
    subst this
    exact multi_logistic_grad_is_derivative_intercept eps heps j k x y w alpha hw hwk hy c0 hc0

/-- **oracle clause `stationary` ⇔ first-order optimality** (multinomial): the gradient matrix the code returns
vanishes at `w` iff every partial derivative of the documented objective `multiLogisticLoss` is zero at `w` -/
theorem multi_logistic_stationary_iff_grad_zero (eps : ℝ) (heps : eps ≤ 1) (nf k : Nat) (x y w : List (List ℝ))
    (alpha : ℝ) (hw : w.length = nf + 1) (hwk : ∀ r ∈ w, r.length = k)
    (hy : ∀ yr ∈ y, yr.length = k ∧ yr.sum = 1) :
    (∀ j c, j < nf + 1 → c < k → (((multiLogisticGrad eps nf k x y alpha w).getD []).getD j []).getD c 0 = 0) ↔
    (∀ j c, j < nf + 1 → c < k →
      HasDerivAt (fun t : ℝ => (multiLogisticLoss eps nf k x y alpha (setEntry w j c t)).getD 0) 0
        ((w.getD j []).getD c 0)) := by
  constructor
  · intro h0 j c hj hc
    have h := multi_logistic_grad_is_derivative eps heps nf k x y w alpha hw hwk hy j c hj hc
    rw [h0 j c hj hc] at h
    exact h
  · intro h0 j c hj hc
    exact (multi_logistic_grad_is_derivative eps heps nf k x y w alpha hw hwk hy j c hj hc).unique (h0 j c hj hc)

example : HasDerivAt (fun t : ℝ => (multiLogisticLoss (1 / 10) 1 2 [[1], [2], [-1]] [[1, 0], [0, 1], [1, 0]] (1 / 2)
      (setEntry ([[1, 2], [0, 1]] : List (List ℝ)) 0 1 t)).getD 0)
    ((((multiLogisticGrad (1 / 10) 1 2 [[1], [2], [-1]] [[1, 0], [0, 1], [1, 0]] (1 / 2)
      ([[1, 2], [0, 1]] : List (List ℝ))).getD []).getD 0 []).getD 1 0)
    (((([[1, 2], [0, 1]] : List (List ℝ))).getD 0 []).getD 1 0) :=
  multi_logistic_grad_is_derivative (1 / 10) (by norm_num) 1 2 _ _ _ _ rfl
    (by intro r hr; simp at hr; rcases hr with rfl | rfl <;> rfl)
    (by intro r hr; simp at hr; rcases hr with rfl | rfl | rfl <;> norm_num) 0 1 (by norm_num) (by norm_num)

example : HasDerivAt (fun t : ℝ => (multiLogisticLoss (1 / 10) 1 2 [[1], [2], [-1]] [[1, 0], [0, 1], [1, 0]] (1 / 2)
      (setEntry ([[1, 2]] : List (List ℝ)) 0 0 t)).getD 0)
    ((((multiLogisticGrad (1 / 10) 1 2 [[1], [2], [-1]] [[1, 0], [0, 1], [1, 0]] (1 / 2)
      ([[1, 2]] : List (List ℝ))).getD []).getD 0 []).getD 0 0)
    (((([[1, 2]] : List (List ℝ))).getD 0 []).getD 0 0) :=
  multi_logistic_grad_is_derivative_no_intercept (1 / 10) (by norm_num) 1 2 _ _ _ _ rfl
    (by intro r hr; simp at hr; subst hr; rfl)
    (by intro r hr; simp at hr; rcases hr with rfl | rfl | rfl <;> norm_num) 0 0 (by norm_num) (by norm_num)

end Grad

/-! ## Tweedie GLM -/

section Glm
open LinfaSpec.Glm

/-- **`in_range` is the support of the distribution**: every real for the normal (`power ≤ 0`),
`y ≥ 0` for `1 ≤ power < 2`, `y > 0` for `power ≥ 2`; powers in `(0,1)` are rejected. -/
theorem in_range_iff_support (power : ℝ) (y : List ℝ) :
    (power ≤ 0 → inRange power y = some true) ∧
    (0 < power → power < 1 → inRange power y = none) ∧
    (1 ≤ power → power < 2 → inRange power y = some (decide (∀ v ∈ y, 0 ≤ v))) ∧
    (2 ≤ power → inRange power y = some (decide (∀ v ∈ y, 0 < v))) := by
  have h2 : (two : ℝ) = 2 := by norm_num [two]
  refine ⟨?_, ?_, ?_, ?_⟩
  · intro h; simp [inRange, h]
  · intro h0 h1; simp [inRange, not_le.mpr h0, h1]
  · intro h1 h2'
    have a : ¬ power ≤ 0 := by linarith
    have b : ¬ power < 1 := by linarith
    simp [inRange, a, b, h2, h2', List.all_eq]
  · intro h
    have a : ¬ power ≤ 0 := by linarith
    have b : ¬ power < 1 := by linarith
    have c : ¬ power < 2 := by linarith
    simp [inRange, a, b, h2, c, List.all_eq]

/-- **predictions lie in the range of the link**: positive for the log link, in `(0,1)` for logit -/
theorem predictions_in_link_range (x : List (List ℝ)) (coef : List ℝ) (b : ℝ) :
    (∀ p ∈ predict .log x coef b, 0 < p) ∧ (∀ p ∈ predict .logit x coef b, 0 < p ∧ p < 1) := by
  constructor
  · intro p hp
    obtain ⟨row, -, rfl⟩ := List.mem_map.mp hp
    exact Real.exp_pos _
  · intro p hp
    obtain ⟨row, -, rfl⟩ := List.mem_map.mp hp
    exact logistic_range _

/-- **default link selection** (`TweedieRegressorValidParams::link()`): an explicitly chosen link is used as is; with
none chosen, the identity link for `power ≤ 0` and the log link otherwise -/
theorem default_link_spec (power : ℝ) :
    (∀ l, Glm.selectLink (some l) power = l) ∧
    (power ≤ 0 → Glm.selectLink none power = .identity) ∧
    (0 < power → Glm.selectLink none power = .log) := by
  refine ⟨fun l => rfl, fun h => ?_, fun h => ?_⟩
  · simp [Glm.selectLink, Glm.defaultLink, h]
  · simp [Glm.selectLink, Glm.defaultLink, not_le.mpr h]

/-- with the default link every prediction of a model with `power > 0` is strictly positive, i.e. a mean inside the
domain of the deviance of every distribution with `power ≥ 1` (whose support needs `μ > 0`) -/
theorem default_link_predictions_positive (power : ℝ) (hp : 0 < power) (x : List (List ℝ)) (coef : List ℝ) (b : ℝ) :
    ∀ p ∈ predict (Glm.selectLink none power) x coef b, 0 < p := by
  rw [(default_link_spec power).2.2 hp]
  exact (predictions_in_link_range x coef b).1

example : Glm.selectLink none (0 : ℝ) = .identity ∧ Glm.selectLink none (3 / 2 : ℝ) = .log ∧
    Glm.selectLink (some .logit) (1 : ℝ) = .logit :=
  ⟨(default_link_spec 0).2.1 le_rfl, (default_link_spec (3 / 2)).2.2 (by norm_num), rfl⟩

/-- `inverse_derviative` is the derivative of `inverse`, for each link -/
theorem link_inverse_hasDerivAt (l : Glm.Link) (x : ℝ) :
    HasDerivAt (linkInverse (α := ℝ) l) (linkInverseDeriv l x) x := by
  cases l with
  | identity => exact hasDerivAt_id x
  | log => exact Real.hasDerivAt_exp x
  | logit =>
    have hf : linkInverse (α := ℝ) .logit = fun v => (1 + Real.exp (-v))⁻¹ := by
      funext v; simp [linkInverse, Transc.exp]
    rw [hf]
    have hpos : 0 < 1 + Real.exp (-x) := by positivity
    have h1 : HasDerivAt (fun v : ℝ => 1 + Real.exp (-v)) (-Real.exp (-x)) x := by
      have := ((hasDerivAt_id x).neg).exp
      simpa using this.const_add 1
    have h2 := (h1.inv (ne_of_gt hpos))
    refine h2.congr_deriv ?_
    simp only [linkInverseDeriv, Transc.exp]
    field_simp
    ring

example : (∀ p ∈ predict .logit [[1000], [-1000]] ([1] : List ℝ) 0, 0 < p ∧ p < 1) :=
  (predictions_in_link_range _ _ _).2

/-- `powf` over the reals -/
noncomputable def rpw : ℝ → ℝ → ℝ := fun a b => a ^ b

theorem glm_two_eq : (two : ℝ) = 2 := by norm_num [two]

/-- normal (`power = 0`): `d/dμ (y-μ)² = -2 (y-μ) / μ⁰` -/
theorem tweedie_unit_deviance_deriv_normal (tol6 y μ : ℝ) :
    HasDerivAt (fun m => (unitDeviance rpw tol6 0 y m).getD 0) (unitDevianceDeriv rpw 0 y μ) μ := by
  have hf : (fun m => (unitDeviance rpw tol6 0 y m).getD 0) = fun m => (y - m) * (y - m) := by
    funext m; simp [unitDeviance, powerClass]
  rw [hf]
  have h := ((hasDerivAt_id μ).const_sub y).mul ((hasDerivAt_id μ).const_sub y)
  refine h.congr_deriv ?_
  simp [unitDevianceDeriv, rpw, glm_two_eq]
  ring

/-- Poisson (`power = 1`, after the repair of the cost): `d/dμ [2 y ln(y/μ) + 2(μ-y)] = -2 (y-μ)/μ`,
also for `y = 0` -/
theorem tweedie_unit_deviance_deriv_poisson (tol6 y μ : ℝ) (ht : 0 < tol6) (hμ : 0 < μ) (hy : 0 ≤ y) :
    HasDerivAt (fun m => (unitDeviance rpw tol6 1 y m).getD 0) (unitDevianceDeriv rpw 1 y μ) μ := by
  have hc : powerClass tol6 (1 : ℝ) = .poisson := by
    simp [powerClass, absS, ht]
  by_cases hy0 : y = 0
  · subst hy0
    have hf : (fun m => (unitDeviance rpw tol6 1 0 m).getD 0) = fun m => two * (m - 0) := by
      funext m; simp [unitDeviance, hc]
    rw [hf]
    have h := ((hasDerivAt_id μ).sub_const 0).const_mul (two : ℝ)
    refine h.congr_deriv ?_
    simp [unitDevianceDeriv, rpw, glm_two_eq]
    field_simp
  · have hf : (fun m => (unitDeviance rpw tol6 1 y m).getD 0) =
        fun m => two * (y * Real.log (y / m)) + two * (m - y) := by
      funext m; simp [unitDeviance, hc, hy0, Transc.ln]
    rw [hf]
    have hypos : 0 < y := lt_of_le_of_ne hy (Ne.symm hy0)
    have hdiv : HasDerivAt (fun m : ℝ => y / m) (-y / μ ^ 2) μ := by
      have := (hasDerivAt_inv (ne_of_gt hμ)).const_mul y
      simp only [div_eq_mul_inv]
      refine this.congr_deriv ?_
      field_simp
    have hlog := hdiv.log (ne_of_gt (div_pos hypos hμ))
    have h := ((hlog.const_mul y).const_mul (two : ℝ)).add (((hasDerivAt_id μ).sub_const y).const_mul (two : ℝ))
    refine h.congr_deriv ?_
    simp [unitDevianceDeriv, rpw, glm_two_eq]
    field_simp
    ring

/-- gamma (`power = 2`): `d/dμ 2(ln(μ/y) + y/μ - 1) = -2 (y-μ)/μ²` -/
theorem tweedie_unit_deviance_deriv_gamma (tol6 y μ : ℝ) (ht : 0 < tol6) (ht1 : tol6 ≤ 1) (hμ : 0 < μ) (hy : 0 < y) :
    HasDerivAt (fun m => (unitDeviance rpw tol6 2 y m).getD 0) (unitDevianceDeriv rpw 2 y μ) μ := by
  have hc : powerClass tol6 (2 : ℝ) = .gamma := by
    have h1 : ¬ ((2:ℝ) - 1 < tol6) := by intro h; linarith
    have h2 : ¬ ((2:ℝ) < 0) := by norm_num
    simp [powerClass, absS, ht, glm_two_eq, h1, h2]
  have hf : (fun m => (unitDeviance rpw tol6 2 y m).getD 0) =
      fun m => two * (Real.log (m / y) + y / m - 1) := by
    funext m; simp [unitDeviance, hc, Transc.ln]
  rw [hf]
  have hdiv : HasDerivAt (fun m : ℝ => y / m) (-y / μ ^ 2) μ := by
    have := (hasDerivAt_inv (ne_of_gt hμ)).const_mul y
    simp only [div_eq_mul_inv]
    refine this.congr_deriv ?_
    field_simp
  have hlog := ((hasDerivAt_id μ).div_const y).log (ne_of_gt (div_pos hμ hy))
  have h := (((hlog.add hdiv).sub_const 1)).const_mul (two : ℝ)
  refine h.congr_deriv ?_
  simp [unitDevianceDeriv, rpw, glm_two_eq]
  field_simp
  ring

/-- any power of the generic arm (`(1,2)`, `3`, …): `-2 (y-μ)/μ^p` -/
theorem tweedie_unit_deviance_deriv_generic (tol6 p y μ : ℝ) (hc : powerClass tol6 p = .generic) (hp1 : p ≠ 1) (hp2 : p ≠ 2)
    (hμ : 0 < μ) :
    HasDerivAt (fun m => (unitDeviance rpw tol6 p y m).getD 0) (unitDevianceDeriv rpw p y μ) μ := by
  have hf : (fun m => (unitDeviance rpw tol6 p y m).getD 0) =
      fun m => two * (y ^ (two - p) / ((1 - p) * (two - p)) - y * (m ^ (1 - p) / (1 - p)) + m ^ (two - p) / (two - p)) := by
    funext m; simp [unitDeviance, hc, rpw]
  rw [hf]
  have h1p : (1 - p) ≠ 0 := sub_ne_zero.mpr (Ne.symm hp1)
  have h2p : (2 - p) ≠ 0 := sub_ne_zero.mpr (Ne.symm hp2)
  have ha := (Real.hasDerivAt_rpow_const (x := μ) (p := 1 - p) (Or.inl (ne_of_gt hμ)))
  have hb := (Real.hasDerivAt_rpow_const (x := μ) (p := two - p) (Or.inl (ne_of_gt hμ)))
  have h := ((((ha.div_const (1 - p)).const_mul y).const_sub (y ^ (two - p) / ((1 - p) * (two - p)))).add
    (hb.div_const (two - p))).const_mul (two : ℝ)
  refine h.congr_deriv ?_
  simp only [unitDevianceDeriv, rpw, glm_two_eq]
  have e1 : μ ^ (1 - p - 1) = μ ^ (-p) := by ring_nf
  have e2 : μ ^ (2 - p - 1) = μ ^ (-p) * μ := by
    rw [show (2 - p - 1) = -p + 1 by ring, Real.rpow_add hμ, Real.rpow_one]
  rw [e1, e2, Real.rpow_neg hμ.le]
  field_simp
  ring

example : powerClass (1 / 1000000 : ℝ) 3 = .generic ∧ powerClass (1 / 1000000 : ℝ) (3 / 2) = .generic := by
  constructor <;> (simp only [powerClass, absS, glm_two_eq]; norm_num)

example : HasDerivAt (fun m => (unitDeviance rpw (1 / 1000000) 1 3 m).getD 0)
    (unitDevianceDeriv rpw 1 3 2) 2 :=
  tweedie_unit_deviance_deriv_poisson _ 3 2 (by norm_num) (by norm_num) (by norm_num)

/-- **per-sample, per-coordinate term of the GLM gradient** (the building block of
`tweedie_grad_is_derivative` below, where every entry of `Glm.gradient` is shown to be the partial
derivative of `Glm.cost`).  If `D` is the unit deviance of the sample as a function of the mean, with derivative
`d` at `μ = h(η₀)`, and the linear predictor depends on the coordinate as `η₀ + xj (t - w₀)`, then
`½ D(h(η))` has derivative `d · h'(η₀) · xj · ½` — the summand `temp[i] * x_ij * 0.5` of
`TweedieProblem::gradient` (`xj = 1` for the intercept). -/
theorem tweedie_grad_is_derivative_partial (D : ℝ → ℝ) (d : ℝ) (l : Glm.Link) (η0 xj w0 : ℝ)
    (hD : HasDerivAt D d (linkInverse l η0)) :
    HasDerivAt (fun t : ℝ => (Glm.half : ℝ) * D (linkInverse l (η0 + xj * (t - w0))))
      (d * linkInverseDeriv l η0 * xj * Glm.half) w0 := by
  have hin : HasDerivAt (fun t : ℝ => η0 + xj * (t - w0)) xj w0 := by
    have := (((hasDerivAt_id w0).sub_const w0).const_mul xj).const_add η0
    simpa using this
  have hl := link_inverse_hasDerivAt l (η0 + xj * (w0 - w0))
  simp only [sub_self, mul_zero, add_zero] at hl
  have hmid : HasDerivAt (fun t : ℝ => linkInverse l (η0 + xj * (t - w0))) (linkInverseDeriv l η0 * xj) w0 := by
    have h0 : η0 = η0 + xj * (w0 - w0) := by ring
    have hl' : HasDerivAt (linkInverse (α := ℝ) l) (linkInverseDeriv l η0) (η0 + xj * (w0 - w0)) := by
      rw [← h0]; exact hl
    exact HasDerivAt.comp w0 hl' hin
  have hD' : HasDerivAt D d (linkInverse l (η0 + xj * (w0 - w0))) := by
    have h0 : η0 + xj * (w0 - w0) = η0 := by ring
    rw [h0]; exact hD
  have h := (HasDerivAt.comp w0 hD' hmid).const_mul (Glm.half : ℝ)
  exact h.congr_deriv (by ring)

example : HasDerivAt (fun t : ℝ => (Glm.half : ℝ) * (fun m => (unitDeviance rpw (1 / 1000000) 1 3 m).getD 0)
      (linkInverse .log (0 + 2 * (t - 0))))
    (unitDevianceDeriv rpw 1 3 (linkInverse .log 0) * linkInverseDeriv .log 0 * 2 * Glm.half) 0 :=
  tweedie_grad_is_derivative_partial _ _ .log 0 2 0
    (tweedie_unit_deviance_deriv_poisson _ 3 _ (by norm_num) (by simp [linkInverse, Transc.exp]) (by norm_num))

/-- sum rule over the sample list, coefficient `j` of the GLM objective (data part `½ Σ d(yᵢ, h(ηᵢ))`) -/
theorem glm_data_hasDerivAt_weight (pw : ℝ → ℝ → ℝ) (tol6 power : ℝ) (l : Glm.Link)
    (x : List (List ℝ)) (y c : List ℝ) (b : ℝ) (j : Nat) (hj : j < c.length)
    (H : ∀ q ∈ x.zip y, HasDerivAt (fun m => (unitDeviance pw tol6 power q.2 m).getD 0)
      (unitDevianceDeriv pw power q.2 (linkInverse l (dotS q.1 c + b))) (linkInverse l (dotS q.1 c + b))) :
    HasDerivAt (fun t : ℝ => (Glm.half : ℝ) *
        (List.zipWith (fun u v => (unitDeviance pw tol6 power u v).getD 0) y
          ((x.map fun row => dotS row (c.set j t) + b).map (linkInverse l))).sum)
      (dotS (List.zipWith (· * ·) ((x.map fun row => dotS row c + b).map (linkInverseDeriv l))
          (List.zipWith (unitDevianceDeriv pw power) y ((x.map fun row => dotS row c + b).map (linkInverse l))))
        (Glm.col x j) * Glm.half) (c.getD j 0) := by
  induction x generalizing y with
  | nil => simpa [Glm.col, dotS_nil_left] using hasDerivAt_const (c.getD j 0) (0 : ℝ)
  | cons r xs ih =>
    cases y with
    | nil => simpa [Glm.col, dotS_nil_left] using hasDerivAt_const (c.getD j 0) (0 : ℝ)
    | cons yi ys =>
      have hhead := tweedie_grad_is_derivative_partial (fun m => (unitDeviance pw tol6 power yi m).getD 0)
        (unitDevianceDeriv pw power yi (linkInverse l (dotS r c + b))) l (dotS r c + b) (r.getD j 0) (c.getD j 0)
        (H (r, yi) (by simp))
      have htail := ih ys (fun q hq => H q (by
        simp only [List.zip_cons_cons, List.mem_cons]; exact Or.inr hq))
      have hsum := hhead.add htail
      have e1 : (fun t : ℝ => (Glm.half : ℝ) *
          (List.zipWith (fun u v => (unitDeviance pw tol6 power u v).getD 0) (yi :: ys)
            (((r :: xs).map fun row => dotS row (c.set j t) + b).map (linkInverse l))).sum) =
          fun t : ℝ => (Glm.half : ℝ) * (fun m => (unitDeviance pw tol6 power yi m).getD 0)
              (linkInverse l (dotS r c + b + r.getD j 0 * (t - c.getD j 0))) +
            (Glm.half : ℝ) * (List.zipWith (fun u v => (unitDeviance pw tol6 power u v).getD 0) ys
              ((xs.map fun row => dotS row (c.set j t) + b).map (linkInverse l))).sum := by
        funext t
        simp only [List.map_cons, List.zipWith_cons_cons, List.sum_cons]
        rw [dotS_set r c j t hj]
        ring_nf
      have e2 : dotS (List.zipWith (· * ·) (((r :: xs).map fun row => dotS row c + b).map (linkInverseDeriv l))
            (List.zipWith (unitDevianceDeriv pw power) (yi :: ys)
              (((r :: xs).map fun row => dotS row c + b).map (linkInverse l))))
          (Glm.col (r :: xs) j) * Glm.half =
          unitDevianceDeriv pw power yi (linkInverse l (dotS r c + b)) * linkInverseDeriv l (dotS r c + b) *
              r.getD j 0 * Glm.half +
            dotS (List.zipWith (· * ·) ((xs.map fun row => dotS row c + b).map (linkInverseDeriv l))
              (List.zipWith (unitDevianceDeriv pw power) ys ((xs.map fun row => dotS row c + b).map (linkInverse l))))
            (Glm.col xs j) * Glm.half := by
        simp only [Glm.col, List.map_cons, List.zipWith_cons_cons, dotS_cons]
        ring
      rw [e1, e2]
      exact hsum


/-- sum rule, intercept of the GLM objective -/
theorem glm_data_hasDerivAt_intercept (pw : ℝ → ℝ → ℝ) (tol6 power : ℝ) (l : Glm.Link)
    (x : List (List ℝ)) (y c : List ℝ) (b : ℝ)
    (H : ∀ q ∈ x.zip y, HasDerivAt (fun m => (unitDeviance pw tol6 power q.2 m).getD 0)
      (unitDevianceDeriv pw power q.2 (linkInverse l (dotS q.1 c + b))) (linkInverse l (dotS q.1 c + b))) :
    HasDerivAt (fun t : ℝ => (Glm.half : ℝ) *
        (List.zipWith (fun u v => (unitDeviance pw tol6 power u v).getD 0) y
          ((x.map fun row => dotS row c + t).map (linkInverse l))).sum)
      (sumS (List.zipWith (· * ·) ((x.map fun row => dotS row c + b).map (linkInverseDeriv l))
          (List.zipWith (unitDevianceDeriv pw power) y ((x.map fun row => dotS row c + b).map (linkInverse l)))) *
        Glm.half) b := by
  induction x generalizing y with
  | nil => simpa [sumS] using hasDerivAt_const b (0 : ℝ)
  | cons r xs ih =>
    cases y with
    | nil => simpa [sumS] using hasDerivAt_const b (0 : ℝ)
    | cons yi ys =>
      have hhead := tweedie_grad_is_derivative_partial (fun m => (unitDeviance pw tol6 power yi m).getD 0)
        (unitDevianceDeriv pw power yi (linkInverse l (dotS r c + b))) l (dotS r c + b) 1 b
        (H (r, yi) (by simp))
      have htail := ih ys (fun q hq => H q (by
        simp only [List.zip_cons_cons, List.mem_cons]; exact Or.inr hq))
      have hsum := hhead.add htail
      have e1 : (fun t : ℝ => (Glm.half : ℝ) *
          (List.zipWith (fun u v => (unitDeviance pw tol6 power u v).getD 0) (yi :: ys)
            (((r :: xs).map fun row => dotS row c + t).map (linkInverse l))).sum) =
          fun t : ℝ => (Glm.half : ℝ) * (fun m => (unitDeviance pw tol6 power yi m).getD 0)
              (linkInverse l (dotS r c + b + 1 * (t - b))) +
            (Glm.half : ℝ) * (List.zipWith (fun u v => (unitDeviance pw tol6 power u v).getD 0) ys
              ((xs.map fun row => dotS row c + t).map (linkInverse l))).sum := by
        funext t
        simp only [List.map_cons, List.zipWith_cons_cons, List.sum_cons]
        ring_nf
      have e2 : sumS (List.zipWith (· * ·) (((r :: xs).map fun row => dotS row c + b).map (linkInverseDeriv l))
            (List.zipWith (unitDevianceDeriv pw power) (yi :: ys)
              (((r :: xs).map fun row => dotS row c + b).map (linkInverse l)))) * Glm.half =
          unitDevianceDeriv pw power yi (linkInverse l (dotS r c + b)) * linkInverseDeriv l (dotS r c + b) *
              1 * Glm.half +
            sumS (List.zipWith (· * ·) ((xs.map fun row => dotS row c + b).map (linkInverseDeriv l))
              (List.zipWith (unitDevianceDeriv pw power) ys ((xs.map fun row => dotS row c + b).map (linkInverse l)))) *
            Glm.half := by
        simp only [List.map_cons, List.zipWith_cons_cons, sumS_cons]
        ring
      rw [e1, e2]
      exact hsum

/-- the GLM penalty `½ α Σ c²` (coefficients only) as a function of coefficient `j` -/
theorem glm_penalty_hasDerivAt (c : List ℝ) (alpha : ℝ) (j : Nat) (hj : j < c.length) :
    HasDerivAt (fun t : ℝ => (Glm.half : ℝ) * dotS (c.set j t) ((c.set j t).map (· * alpha)))
      (c.getD j 0 * alpha) (c.getD j 0) := by
  have e : (fun t : ℝ => (Glm.half : ℝ) * dotS (c.set j t) ((c.set j t).map (· * alpha))) =
      fun t : ℝ => (Glm.half : ℝ) * ((dotS c (c.map (· * alpha)) - c.getD j 0 * (c.getD j 0 * alpha)) + t * (t * alpha)) := by
    funext t; rw [dotS_set_scaled c alpha j t hj]
  rw [e]
  have h := ((((hasDerivAt_id (c.getD j 0)).mul ((hasDerivAt_id (c.getD j 0)).mul_const alpha))).const_add
    (dotS c (c.map (· * alpha)) - c.getD j 0 * (c.getD j 0 * alpha))).const_mul (Glm.half : ℝ)
  exact h.congr_deriv (by simp only [Glm.half, id]; ring)


/-- negative powers (the first arm of the `match`; extreme-stable distributions): same derivative -/
theorem tweedie_unit_deviance_deriv_negative (tol6 p y μ : ℝ) (hp : p < 0) (hμ : 0 < μ) :
    HasDerivAt (fun m => (unitDeviance rpw tol6 p y m).getD 0) (unitDevianceDeriv rpw p y μ) μ := by
  have hc : powerClass tol6 p = .negative := by simp [powerClass, hp]
  have hf : (fun m => (unitDeviance rpw tol6 p y m).getD 0) =
      fun m => two * (maxS y 0 ^ (two - p) / ((1 - p) * (two - p)) - y * (m ^ (1 - p) / (1 - p)) + m ^ (two - p) / (two - p)) := by
    funext m; simp [unitDeviance, hc, rpw]
  rw [hf]
  have h1p : (1 - p) ≠ 0 := by linarith
  have h2p : (2 - p) ≠ 0 := by linarith
  have ha := (Real.hasDerivAt_rpow_const (x := μ) (p := 1 - p) (Or.inl (ne_of_gt hμ)))
  have hb := (Real.hasDerivAt_rpow_const (x := μ) (p := two - p) (Or.inl (ne_of_gt hμ)))
  have h := ((((ha.div_const (1 - p)).const_mul y).const_sub (maxS y 0 ^ (two - p) / ((1 - p) * (two - p)))).add
    (hb.div_const (two - p))).const_mul (two : ℝ)
  refine h.congr_deriv ?_
  simp only [unitDevianceDeriv, rpw, glm_two_eq]
  have e1 : μ ^ (1 - p - 1) = μ ^ (-p) := by ring_nf
  have e2 : μ ^ (2 - p - 1) = μ ^ (-p) * μ := by
    rw [show (2 - p - 1) = -p + 1 by ring, Real.rpow_add hμ, Real.rpow_one]
  rw [e1, e2, Real.rpow_neg hμ.le]
  field_simp
  ring

/-- the points at which the code's unit deviance is finite and differentiable in the mean, per arm of the power
`match`: everywhere for the Normal arm; `μ > 0` (and the support of `y`) for the others -/
def DevianceDomain (tol6 power y μ : ℝ) : Prop :=
  power = 0 ∨ (power < 0 ∧ 0 < μ) ∨ (power = 1 ∧ 0 < μ ∧ 0 ≤ y) ∨ (power = 2 ∧ 0 < μ ∧ 0 < y) ∨
    (powerClass tol6 power = .generic ∧ power ≠ 1 ∧ power ≠ 2 ∧ 0 < μ)

/-- every arm of the power `match`: the code's `unit_deviance_derivative` is the derivative of its `unit_deviance` -/
theorem unit_deviance_hasDerivAt (tol6 power y μ : ℝ) (ht : 0 < tol6) (ht1 : tol6 ≤ 1)
    (h : DevianceDomain tol6 power y μ) :
    HasDerivAt (fun m => (unitDeviance rpw tol6 power y m).getD 0) (unitDevianceDeriv rpw power y μ) μ := by
  rcases h with h | ⟨h, hμ⟩ | ⟨h, hμ, hy⟩ | ⟨h, hμ, hy⟩ | ⟨hc, h1, h2, hμ⟩
  · subst h; exact tweedie_unit_deviance_deriv_normal tol6 y μ
  · exact tweedie_unit_deviance_deriv_negative tol6 power y μ h hμ
  · subst h; exact tweedie_unit_deviance_deriv_poisson tol6 y μ ht hμ hy
  · subst h; exact tweedie_unit_deviance_deriv_gamma tol6 y μ ht ht1 hμ hy
  · exact tweedie_unit_deviance_deriv_generic tol6 power y μ hc h1 h2 hμ

/-- with the log and the logit link the mean is positive at every linear predictor -/
theorem link_inverse_pos (l : Glm.Link) (hl : l ≠ .identity) (η : ℝ) : 0 < linkInverse l η := by
  cases l with
  | identity => exact absurd rfl hl
  | log => exact Real.exp_pos η
  | logit => exact (logistic_range η).1


/-- the data-part summands of `TweedieProblem::gradient` (`temp` in the Rust code) -/
noncomputable def glmTemp (power : ℝ) (l : Glm.Link) (x : List (List ℝ)) (y c : List ℝ) (b : ℝ) : List ℝ :=
  List.zipWith (· * ·) ((x.map fun row => dotS row c + b).map (linkInverseDeriv l))
    (List.zipWith (unitDevianceDeriv rpw power) y ((x.map fun row => dotS row c + b).map (linkInverse l)))

theorem glm_cost_icpt (tol6 power alpha : ℝ) (l : Glm.Link) (hc : powerClass tol6 power ≠ .invalid)
    (x : List (List ℝ)) (y c : List ℝ) (b : ℝ) :
    (Glm.cost rpw tol6 power alpha l true x y (b :: c)).getD 0 =
      (Glm.half : ℝ) * (List.zipWith (fun u v => (unitDeviance rpw tol6 power u v).getD 0) y
          ((x.map fun row => dotS row c + b).map (linkInverse l))).sum +
        (Glm.half : ℝ) * dotS c (c.map (· * alpha)) := by
  simp only [Glm.cost, Glm.linPred, Glm.splitP, if_true, List.drop_one, List.tail_cons, List.headD_cons]
  rw [deviance_eq rpw tol6 power hc]
  simp only [Option.getD_some]
  ring

theorem glm_cost_no_icpt (tol6 power alpha : ℝ) (l : Glm.Link) (hc : powerClass tol6 power ≠ .invalid)
    (x : List (List ℝ)) (y c : List ℝ) :
    (Glm.cost rpw tol6 power alpha l false x y c).getD 0 =
      (Glm.half : ℝ) * (List.zipWith (fun u v => (unitDeviance rpw tol6 power u v).getD 0) y
          ((x.map fun row => dotS row c + 0).map (linkInverse l))).sum +
        (Glm.half : ℝ) * dotS c (c.map (· * alpha)) := by
  simp only [Glm.cost, Glm.linPred, Glm.splitP, Bool.false_eq_true, if_false]
  rw [deviance_eq rpw tol6 power hc]
  simp only [Option.getD_some]
  ring

theorem glm_gradient_icpt (power alpha : ℝ) (l : Glm.Link) (nf : Nat) (x : List (List ℝ)) (y c : List ℝ) (b : ℝ) :
    Glm.gradient rpw power alpha l true nf x y (b :: c) =
      (sumS (glmTemp power l x y c b) * Glm.half) ::
        (List.range nf).map fun j => dotS (glmTemp power l x y c b) (Glm.col x j) * Glm.half + c.getD j 0 * alpha := by
  simp only [Glm.gradient, Glm.linPred, Glm.splitP, if_true, List.drop_one, List.tail_cons, List.headD_cons, glmTemp]

theorem glm_gradient_no_icpt (power alpha : ℝ) (l : Glm.Link) (nf : Nat) (x : List (List ℝ)) (y c : List ℝ) :
    Glm.gradient rpw power alpha l false nf x y c =
      (List.range nf).map fun j => dotS (glmTemp power l x y c 0) (Glm.col x j) * Glm.half + c.getD j 0 * alpha := by
  simp only [Glm.gradient, Glm.linPred, Glm.splitP, Bool.false_eq_true, if_false, glmTemp]


/-- **FULL (coefficient `j`, model with intercept)**: entry `j+1` of `Glm.gradient` is the partial derivative of
`Glm.cost` = `½ (deviance + α ‖coef‖²)` with respect to coefficient `j` (parameter vector = intercept first), for every
sample list, every arm of the power `match` and every link, at parameters whose means are in the deviance's domain -/
theorem tweedie_grad_is_derivative_weight (tol6 power alpha : ℝ) (ht : 0 < tol6) (ht1 : tol6 ≤ 1) (l : Glm.Link)
    (hc : powerClass tol6 power ≠ .invalid) (nf : Nat) (x : List (List ℝ)) (y p : List ℝ)
    (hp : p.length = nf + 1) (j : Nat) (hj : j < nf)
    (H : ∀ q ∈ x.zip y, DevianceDomain tol6 power q.2 (linkInverse l (dotS q.1 (p.drop 1) + p.headD 0))) :
    HasDerivAt (fun t : ℝ => (Glm.cost rpw tol6 power alpha l true x y (p.set (j + 1) t)).getD 0)
      ((Glm.gradient rpw power alpha l true nf x y p).getD (j + 1) 0) (p.getD (j + 1) 0) := by
  cases p with
  | nil => simp at hp
  | cons b c =>
    have hcl : c.length = nf := by simpa using hp
    have hjc : j < c.length := by omega
    simp only [List.drop_one, List.tail_cons, List.headD_cons] at H
    have e : (fun t : ℝ => (Glm.cost rpw tol6 power alpha l true x y ((b :: c).set (j + 1) t)).getD 0) =
        fun t : ℝ => (Glm.half : ℝ) * (List.zipWith (fun u v => (unitDeviance rpw tol6 power u v).getD 0) y
            ((x.map fun row => dotS row (c.set j t) + b).map (linkInverse l))).sum +
          (Glm.half : ℝ) * dotS (c.set j t) ((c.set j t).map (· * alpha)) := by
      funext t
      rw [List.set_cons_succ, glm_cost_icpt tol6 power alpha l hc]
    have g : (Glm.gradient rpw power alpha l true nf x y (b :: c)).getD (j + 1) 0 =
        dotS (glmTemp power l x y c b) (Glm.col x j) * Glm.half + c.getD j 0 * alpha := by
      rw [glm_gradient_icpt, List.getD_cons_succ, List.getD_eq_getElem?_getD]
      simp [hj]
    rw [e, g, List.getD_cons_succ]
    exact (glm_data_hasDerivAt_weight rpw tol6 power l x y c b j hjc
      (fun q hq => unit_deviance_hasDerivAt tol6 power q.2 _ ht ht1 (H q hq))).add
      (glm_penalty_hasDerivAt c alpha j hjc)

/-- **FULL (intercept)**: entry `0` of `Glm.gradient` is the partial derivative of `Glm.cost` with respect to the
intercept (no penalty term) -/
theorem tweedie_grad_is_derivative_intercept (tol6 power alpha : ℝ) (ht : 0 < tol6) (ht1 : tol6 ≤ 1) (l : Glm.Link)
    (hc : powerClass tol6 power ≠ .invalid) (nf : Nat) (x : List (List ℝ)) (y p : List ℝ)
    (hp : p.length = nf + 1)
    (H : ∀ q ∈ x.zip y, DevianceDomain tol6 power q.2 (linkInverse l (dotS q.1 (p.drop 1) + p.headD 0))) :
    HasDerivAt (fun t : ℝ => (Glm.cost rpw tol6 power alpha l true x y (p.set 0 t)).getD 0)
      ((Glm.gradient rpw power alpha l true nf x y p).getD 0 0) (p.getD 0 0) := by
  cases p with
  | nil => simp at hp
  | cons b c =>
    simp only [List.drop_one, List.tail_cons, List.headD_cons] at H
    have e : (fun t : ℝ => (Glm.cost rpw tol6 power alpha l true x y ((b :: c).set 0 t)).getD 0) =
        fun t : ℝ => (Glm.half : ℝ) * (List.zipWith (fun u v => (unitDeviance rpw tol6 power u v).getD 0) y
            ((x.map fun row => dotS row c + t).map (linkInverse l))).sum +
          (Glm.half : ℝ) * dotS c (c.map (· * alpha)) := by
      funext t
      rw [List.set_cons_zero, glm_cost_icpt tol6 power alpha l hc]
    rw [e, glm_gradient_icpt, List.getD_cons_zero, List.getD_cons_zero]
    exact (glm_data_hasDerivAt_intercept rpw tol6 power l x y c b
      (fun q hq => unit_deviance_hasDerivAt tol6 power q.2 _ ht ht1 (H q hq))).add_const _

/-- **FULL (model without intercept)**: `p.length = nf`, intercept fixed at `0` -/
theorem tweedie_grad_is_derivative_no_intercept (tol6 power alpha : ℝ) (ht : 0 < tol6) (ht1 : tol6 ≤ 1) (l : Glm.Link)
    (hc : powerClass tol6 power ≠ .invalid) (nf : Nat) (x : List (List ℝ)) (y p : List ℝ)
    (hp : p.length = nf) (j : Nat) (hj : j < nf)
    (H : ∀ q ∈ x.zip y, DevianceDomain tol6 power q.2 (linkInverse l (dotS q.1 p + 0))) :
    HasDerivAt (fun t : ℝ => (Glm.cost rpw tol6 power alpha l false x y (p.set j t)).getD 0)
      ((Glm.gradient rpw power alpha l false nf x y p).getD j 0) (p.getD j 0) := by
  have hjp : j < p.length := by omega
  have e : (fun t : ℝ => (Glm.cost rpw tol6 power alpha l false x y (p.set j t)).getD 0) =
      fun t : ℝ => (Glm.half : ℝ) * (List.zipWith (fun u v => (unitDeviance rpw tol6 power u v).getD 0) y
          ((x.map fun row => dotS row (p.set j t) + 0).map (linkInverse l))).sum +
        (Glm.half : ℝ) * dotS (p.set j t) ((p.set j t).map (· * alpha)) := by
    funext t
    rw [glm_cost_no_icpt tol6 power alpha l hc]
  have g : (Glm.gradient rpw power alpha l false nf x y p).getD j 0 =
      dotS (glmTemp power l x y p 0) (Glm.col x j) * Glm.half + p.getD j 0 * alpha := by
    rw [glm_gradient_no_icpt, List.getD_eq_getElem?_getD]
    simp [hj]
  rw [e, g]
  exact (glm_data_hasDerivAt_weight rpw tol6 power l x y p 0 j hjp
    (fun q hq => unit_deviance_hasDerivAt tol6 power q.2 _ ht ht1 (H q hq))).add
    (glm_penalty_hasDerivAt p alpha j hjp)


/-- **every entry at once** (model with intercept; entry `0` = intercept, entry `j+1` = coefficient `j`) -/
theorem tweedie_grad_is_derivative (tol6 power alpha : ℝ) (ht : 0 < tol6) (ht1 : tol6 ≤ 1) (l : Glm.Link)
    (hc : powerClass tol6 power ≠ .invalid) (nf : Nat) (x : List (List ℝ)) (y p : List ℝ)
    (hp : p.length = nf + 1) (i : Nat) (hi : i < nf + 1)
    (H : ∀ q ∈ x.zip y, DevianceDomain tol6 power q.2 (linkInverse l (dotS q.1 (p.drop 1) + p.headD 0))) :
    HasDerivAt (fun t : ℝ => (Glm.cost rpw tol6 power alpha l true x y (p.set i t)).getD 0)
      ((Glm.gradient rpw power alpha l true nf x y p).getD i 0) (p.getD i 0) := by
  cases i with
  | zero => exact tweedie_grad_is_derivative_intercept tol6 power alpha ht ht1 l hc nf x y p hp H
  | succ j => exact tweedie_grad_is_derivative_weight tol6 power alpha ht ht1 l hc nf x y p hp j (by omega) H

/-- **oracle clause `stationary` ⇔ first-order optimality** (Tweedie GLM): `Glm.gradient` vanishes at `p` iff every
partial derivative of the documented objective `½ (deviance + α ‖coef‖²)` is zero at `p` -/
theorem tweedie_stationary_iff_grad_zero (tol6 power alpha : ℝ) (ht : 0 < tol6) (ht1 : tol6 ≤ 1) (l : Glm.Link)
    (hc : powerClass tol6 power ≠ .invalid) (nf : Nat) (x : List (List ℝ)) (y p : List ℝ)
    (hp : p.length = nf + 1)
    (H : ∀ q ∈ x.zip y, DevianceDomain tol6 power q.2 (linkInverse l (dotS q.1 (p.drop 1) + p.headD 0))) :
    (∀ i, i < nf + 1 → (Glm.gradient rpw power alpha l true nf x y p).getD i 0 = 0) ↔
    (∀ i, i < nf + 1 →
      HasDerivAt (fun t : ℝ => (Glm.cost rpw tol6 power alpha l true x y (p.set i t)).getD 0) 0 (p.getD i 0)) :=
  stationary_iff_of_hasDerivAt (nf + 1) _ _ _
    (fun i hi => tweedie_grad_is_derivative tol6 power alpha ht ht1 l hc nf x y p hp i hi H)

/-- with the log or the logit link the domain hypothesis reduces to the support of the targets -/
theorem deviance_domain_of_positive_link (tol6 power y η : ℝ) (l : Glm.Link) (hl : l ≠ .identity)
    (h : power = 0 ∨ power < 0 ∨ (power = 1 ∧ 0 ≤ y) ∨ (power = 2 ∧ 0 < y) ∨
      (powerClass tol6 power = .generic ∧ power ≠ 1 ∧ power ≠ 2)) :
    DevianceDomain tol6 power y (linkInverse l η) := by
  have hμ := link_inverse_pos l hl η
  rcases h with h | h | ⟨h, hy⟩ | ⟨h, hy⟩ | ⟨h, h1, h2⟩
  · exact Or.inl h
  · exact Or.inr (Or.inl ⟨h, hμ⟩)
  · exact Or.inr (Or.inr (Or.inl ⟨h, hμ, hy⟩))
  · exact Or.inr (Or.inr (Or.inr (Or.inl ⟨h, hμ, hy⟩)))
  · exact Or.inr (Or.inr (Or.inr (Or.inr ⟨h, h1, h2, hμ⟩)))

example : HasDerivAt (fun t : ℝ => (Glm.cost rpw (1 / 1000000) 1 (1 / 2) .log true [[1], [2]] [3, 0]
      (([0, 1 / 2] : List ℝ).set 1 t)).getD 0)
    ((Glm.gradient rpw 1 (1 / 2) .log true 1 [[1], [2]] [3, 0] ([0, 1 / 2] : List ℝ)).getD 1 0)
    (([0, 1 / 2] : List ℝ).getD 1 0) :=
  tweedie_grad_is_derivative (1 / 1000000) 1 (1 / 2) (by norm_num) (by norm_num) .log
    (by norm_num [powerClass, absS]; decide) 1 _ _ _ rfl 1 (by norm_num)
    (fun q _ => deviance_domain_of_positive_link _ _ _ _ .log (by decide)
      (Or.inr (Or.inr (Or.inl ⟨rfl, by
        have : q ∈ [([1], (3 : ℝ)), ([2], (0 : ℝ))] := by assumption
        simp at this; rcases this with rfl | rfl <;> norm_num⟩))))

/-- identity link: the domain hypothesis `μ > 0` is a genuine condition on the parameters (Gamma, `μ = x·coef`) -/
example : HasDerivAt (fun t : ℝ => (Glm.cost rpw (1 / 1000000) 2 1 .identity false [[1], [2]] [3, 1]
      (([1] : List ℝ).set 0 t)).getD 0)
    ((Glm.gradient rpw 2 1 .identity false 1 [[1], [2]] [3, 1] ([1] : List ℝ)).getD 0 0)
    (([1] : List ℝ).getD 0 0) :=
  tweedie_grad_is_derivative_no_intercept (1 / 1000000) 2 1 (by norm_num) (by norm_num) .identity
    (by norm_num [powerClass, absS, glm_two_eq]; decide) 1 _ _ _ rfl 0 (by norm_num)
    (fun q hq => Or.inr (Or.inr (Or.inr (Or.inl (by
      have : q ∈ [([1], (3 : ℝ)), ([2], (1 : ℝ))] := hq
      simp at this
      rcases this with rfl | rfl <;> simp [linkInverse, dotS, sumS])))))

end Glm

/-! ## Round 3: quantitative stationarity for all three estimators, hypotheses discharged by the code's guards

The exact-zero forms `*_stationary_iff_grad_zero` never apply to a float output; the forms below are what the oracle
clause `stationary` tests (`‖gradient‖₂ ≤ tol`), evaluated — round 3 — with the CODE's gradient at the fitted point and
compared there with `multiLogisticGrad` / `Glm.gradient` through the ops `mgrad` / `ggrad`. -/

section Round3
open LinfaSpec.Glm

/-- `getD` returns an element of the list or the default -/
theorem getD_mem_or_default {α : Type} (l : List α) (i : Nat) (d : α) : l.getD i d ∈ l ∨ l.getD i d = d := by
  rw [List.getD_eq_getElem?_getD]
  cases h : l[i]? with
  | none => right; rfl
  | some v => left; exact List.mem_of_getElem? h

/-- **quantitative form (multinomial), as the oracle tests it**: Frobenius norm of `multiLogisticGrad` at most `tol` ⇒ every
partial derivative of the documented objective is at most `tol` in absolute value (usable on a float output, unlike the
exact-zero form `multi_logistic_stationary_iff_grad_zero`) -/
theorem multi_logistic_partials_le_of_grad_norm_le (eps : ℝ) (heps : eps ≤ 1) (nf k : Nat) (x y w : List (List ℝ))
    (alpha tol : ℝ) (hw : w.length = nf + 1) (hwk : ∀ r ∈ w, r.length = k)
    (hy : ∀ yr ∈ y, yr.length = k ∧ yr.sum = 1) (htol : 0 ≤ tol)
    (hn : ((((multiLogisticGrad eps nf k x y alpha w).getD []).flatten).map (· ^ 2)).sum ≤ tol ^ 2)
    (j c : Nat) (hj : j < nf + 1) (hc : c < k) :
    |deriv (fun t : ℝ => (multiLogisticLoss eps nf k x y alpha (setEntry w j c t)).getD 0) ((w.getD j []).getD c 0)| ≤ tol := by
  rw [(multi_logistic_grad_is_derivative eps heps nf k x y w alpha hw hwk hy j c hj hc).deriv]
  rcases getD_mem_or_default (((multiLogisticGrad eps nf k x y alpha w).getD []).getD j []) c 0 with h | h
  · rcases getD_mem_or_default ((multiLogisticGrad eps nf k x y alpha w).getD []) j [] with h' | h'
    · exact entry_abs_le_of_norm_le _ tol htol hn _ (List.mem_flatten.mpr ⟨_, h', h⟩)
    · rw [h'] at h; simp at h
  · rw [h]; simpa using htol

theorem sum_sq_nonneg (g : List ℝ) : 0 ≤ (g.map (· ^ 2)).sum :=
  List.sum_nonneg (by intro v hv; obtain ⟨u, -, rfl⟩ := List.mem_map.mp hv; exact sq_nonneg u)

/-- hypotheses satisfiable: with `tol = ‖gradient‖₂` every partial derivative is bounded by the norm of the code's gradient -/
example : |deriv (fun t : ℝ => (multiLogisticLoss (1 / 10) 1 2 [[1], [2], [-1]] [[1, 0], [0, 1], [1, 0]] (1 / 2)
      (setEntry ([[1, 2], [0, 1]] : List (List ℝ)) 0 1 t)).getD 0) (((([[1, 2], [0, 1]] : List (List ℝ))).getD 0 []).getD 1 0)| ≤
    Real.sqrt (((((multiLogisticGrad (1 / 10) 1 2 [[1], [2], [-1]] [[1, 0], [0, 1], [1, 0]] (1 / 2)
      ([[1, 2], [0, 1]] : List (List ℝ))).getD []).flatten).map (· ^ 2)).sum) :=
  multi_logistic_partials_le_of_grad_norm_le (1 / 10) (by norm_num) 1 2 _ _ _ _ _ rfl
    (by intro r hr; simp at hr; rcases hr with rfl | rfl <;> rfl)
    (by intro r hr; simp at hr; rcases hr with rfl | rfl | rfl <;> norm_num) (Real.sqrt_nonneg _)
    (by rw [Real.sq_sqrt (sum_sq_nonneg _)]) 0 1 (by norm_num) (by norm_num)

/-- **quantitative form (Tweedie GLM)**: `‖Glm.gradient‖₂ ≤ tol` ⇒ every partial derivative of `½ (deviance + α ‖coef‖²)` is at
most `tol` in absolute value -/
theorem tweedie_partials_le_of_grad_norm_le (tol6 power alpha tol : ℝ) (ht : 0 < tol6) (ht1 : tol6 ≤ 1) (l : Glm.Link)
    (hc : powerClass tol6 power ≠ .invalid) (nf : Nat) (x : List (List ℝ)) (y p : List ℝ)
    (hp : p.length = nf + 1) (htol : 0 ≤ tol)
    (hn : ((Glm.gradient rpw power alpha l true nf x y p).map (· ^ 2)).sum ≤ tol ^ 2)
    (H : ∀ q ∈ x.zip y, DevianceDomain tol6 power q.2 (linkInverse l (dotS q.1 (p.drop 1) + p.headD 0)))
    (i : Nat) (hi : i < nf + 1) :
    |deriv (fun t : ℝ => (Glm.cost rpw tol6 power alpha l true x y (p.set i t)).getD 0) (p.getD i 0)| ≤ tol := by
  rw [(tweedie_grad_is_derivative tol6 power alpha ht ht1 l hc nf x y p hp i hi H).deriv]
  rcases getD_mem_or_default (Glm.gradient rpw power alpha l true nf x y p) i 0 with h | h
  · exact entry_abs_le_of_norm_le _ tol htol hn _ h
  · rw [h]; simpa using htol

example : |deriv (fun t : ℝ => (Glm.cost rpw (1 / 1000000) 1 (1 / 2) .log true [[1], [2]] [3, 0]
      (([0, 1 / 2] : List ℝ).set 1 t)).getD 0) (([0, 1 / 2] : List ℝ).getD 1 0)| ≤
    Real.sqrt (((Glm.gradient rpw 1 (1 / 2) .log true 1 [[1], [2]] [3, 0] ([0, 1 / 2] : List ℝ)).map (· ^ 2)).sum) :=
  tweedie_partials_le_of_grad_norm_le (1 / 1000000) 1 (1 / 2) _ (by norm_num) (by norm_num) .log
    (by norm_num [powerClass, absS]; decide) 1 _ _ _ rfl (Real.sqrt_nonneg _) (by rw [Real.sq_sqrt (sum_sq_nonneg _)])
    (fun q _ => deviance_domain_of_positive_link _ _ _ _ .log (by decide)
      (Or.inr (Or.inr (Or.inl ⟨rfl, by
        have : q ∈ [([1], (3 : ℝ)), ([2], (0 : ℝ))] := by assumption
        simp at this; rcases this with rfl | rfl <;> norm_num⟩)))) 1 (by norm_num)

/-- **`check()` + `link()`** (`Glm.checkedLink`, the function the driver op `deflink` answers through): rejected exactly
for powers strictly between 0 and 1; otherwise the chosen link, or the default -/
theorem checked_link_spec (chosen : Option Glm.Link) (power : ℝ) :
    (Glm.checkedLink chosen power = none ↔ 0 < power ∧ power < 1) ∧
    (¬ (0 < power ∧ power < 1) → Glm.checkedLink chosen power = some (Glm.selectLink chosen power)) := by
  unfold Glm.checkedLink
  by_cases h : 0 < power ∧ power < 1
  · simp [h]
  · simp [h]

example : Glm.checkedLink none (1 / 2 : ℝ) = none ∧ Glm.checkedLink (some .logit) (3 : ℝ) = some .logit ∧
    Glm.checkedLink none (0 : ℝ) = some .identity := by
  refine ⟨((checked_link_spec none (1 / 2)).1).mpr (by norm_num), ?_, ?_⟩
  · rw [(checked_link_spec (some .logit) 3).2 (by norm_num)]; rfl
  · rw [(checked_link_spec none 0).2 (by norm_num)]; exact congrArg some ((default_link_spec 0).2.1 le_rfl)

/-- the powers for which the code's derivative IS the derivative of the code's deviance: the exact arms of the power
`match` (a power within `1e-6` of 1 or 2 but different from it takes the Poisson / Gamma deviance with the generic
derivative: excluded) -/
def ExactPower (tol6 power : ℝ) : Prop :=
  power ≤ 0 ∨ power = 1 ∨ power = 2 ∨ (powerClass tol6 power = .generic ∧ power ≠ 1 ∧ power ≠ 2)

/-- **the domain hypothesis is discharged by the code's own guard**: with the log or the logit link, targets accepted
by `in_range` (the test `fit` performs before anything else) lie in the domain of the deviance at EVERY parameter -/
theorem deviance_domain_of_in_range (tol6 power : ℝ) (l : Glm.Link) (hl : l ≠ .identity) (y : List ℝ)
    (hr : inRange power y = some true) (hpow : ExactPower tol6 power) (yi : ℝ) (hyi : yi ∈ y) (η : ℝ) :
    DevianceDomain tol6 power yi (linkInverse l η) := by
  apply deviance_domain_of_positive_link tol6 power yi η l hl
  rcases hpow with h | h | h | h
  · rcases lt_or_eq_of_le h with h | h
    · exact Or.inr (Or.inl h)
    · exact Or.inl h
  · subst h
    have := (in_range_iff_support 1 y).2.2.1 le_rfl (by norm_num)
    rw [this] at hr
    have hall : ∀ v ∈ y, (0 : ℝ) ≤ v := by simpa using hr
    exact Or.inr (Or.inr (Or.inl ⟨rfl, hall yi hyi⟩))
  · subst h
    have := (in_range_iff_support 2 y).2.2.2 le_rfl
    rw [this] at hr
    have hall : ∀ v ∈ y, (0 : ℝ) < v := by simpa using hr
    exact Or.inr (Or.inr (Or.inr (Or.inl ⟨rfl, hall yi hyi⟩)))
  · exact Or.inr (Or.inr (Or.inr (Or.inr h)))

/-- **whole gradient, log / logit link, hypotheses = the code's guards**: for targets accepted by `in_range` every entry
of `Glm.gradient` is the partial derivative of `½ (deviance + α ‖coef‖²)` at EVERY parameter vector (no condition on
the means: they are positive by the link) -/
theorem tweedie_grad_is_derivative_of_in_range (tol6 power alpha : ℝ) (ht : 0 < tol6) (ht1 : tol6 ≤ 1) (l : Glm.Link)
    (hl : l ≠ .identity) (hc : powerClass tol6 power ≠ .invalid) (hpow : ExactPower tol6 power)
    (nf : Nat) (x : List (List ℝ)) (y p : List ℝ) (hr : inRange power y = some true)
    (hp : p.length = nf + 1) (i : Nat) (hi : i < nf + 1) :
    HasDerivAt (fun t : ℝ => (Glm.cost rpw tol6 power alpha l true x y (p.set i t)).getD 0)
      ((Glm.gradient rpw power alpha l true nf x y p).getD i 0) (p.getD i 0) :=
  tweedie_grad_is_derivative tol6 power alpha ht ht1 l hc nf x y p hp i hi
    (fun q hq => deviance_domain_of_in_range tol6 power l hl y hr hpow q.2 (List.of_mem_zip hq).2 _)

example : HasDerivAt (fun t : ℝ => (Glm.cost rpw (1 / 1000000) 1 (1 / 2) .log true [[1], [2]] [3, 0]
      (([0, 1 / 2] : List ℝ).set 1 t)).getD 0)
    ((Glm.gradient rpw 1 (1 / 2) .log true 1 [[1], [2]] [3, 0] ([0, 1 / 2] : List ℝ)).getD 1 0)
    (([0, 1 / 2] : List ℝ).getD 1 0) :=
  tweedie_grad_is_derivative_of_in_range (1 / 1000000) 1 (1 / 2) (by norm_num) (by norm_num) .log (by decide)
    (by norm_num [powerClass, absS]; decide) (Or.inr (Or.inl rfl)) 1 _ _ _
    (by rw [(in_range_iff_support 1 _).2.2.1 le_rfl (by norm_num)]; simp) rfl 1 (by norm_num)

end Round3

end LinfaSpec.Props.C12
