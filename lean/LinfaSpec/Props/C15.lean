import LinfaSpec.Model.Incremental

/-!
# C15 — incremental fitting replays to batch fitting / its recurrence
-/
namespace LinfaSpec.Props.C15
open LinfaSpec LinfaSpec.Incremental

/-- the Gaussian-NB model after a history extended by one batch is the step applied to the model
after the history: the state is a function of the history alone -/
theorem gnb_state_is_fold {α : Type} [Add α] [Sub α] [Mul α] [Div α] [LT α] [DecidableLT α]
    [OfNat α 0] [NatCast α] (vs : α) (p : Nat) (hist : List (Batch α)) (b : Batch α) :
    gnbRun vs p (hist ++ [b]) = gnbStep vs p (gnbRun vs p hist) b := by
  simp [gnbRun, List.foldl_append]

end LinfaSpec.Props.C15
