import LinfaSpec.Proofs.Incremental
import LinfaSpec.Proofs.IncrementalState
import LinfaSpec.Proofs.IncrementalFull
import LinfaSpec.Proofs.IncrementalMore
import LinfaSpec.Proofs.IncrementalKm
import LinfaSpec.Proofs.IncrementalHist
import LinfaSpec.Proofs.IncrementalR3

/-!
# C15 — incremental fitting replays to batch fitting / its recurrence

Theorems about `LinfaSpec.Incremental` (the model of `fit_with` of Gaussian / multinomial naive
Bayes, mini-batch k-means and FTRL), over every ordered field (real-number semantics of the very
definitions the driver runs on `Float`).  A *history* is a list of batches; a class that is absent
from a batch contributes the empty list, so class-incomplete batches are covered by every
statement.
-/
namespace LinfaSpec.Props.C15
open LinfaSpec LinfaSpec.Incremental

set_option linter.unusedSectionVars false
set_option linter.unusedSimpArgs false

section Field
variable {α : Type} [Field α] [LinearOrder α] [IsStrictOrderedRing α]

/-! ## the state after a history is a function of the history alone -/

/-- Gaussian NB: the model after `hist ++ [b]` is one `fit_with` step applied to the model after `hist` -/
theorem gnb_state_is_fold (vs : α) (p : Nat) (hist : List (Batch α)) (b : Batch α) :
    gnbRun vs p (hist ++ [b]) = gnbStep vs p (gnbRun vs p hist) b := by
  simp [gnbRun, List.foldl_append]

theorem mnb_state_is_fold [Transc α] (a : α) (p : Nat) (hist : List (Batch α)) (b : Batch α) :
    mnbRun a p (hist ++ [b]) = mnbStep a p (mnbRun a p hist) b := by
  simp [mnbRun, List.foldl_append]

theorem ftrl_state_is_fold [Transc α] (m : α) (r32 : α → α) (hp : FtrlHp α) (p : Nat) (st : FState α)
    (hist : List (List (List α) × List Bool)) (b : List (List α) × List Bool) :
    ftrlRun m r32 hp p st (hist ++ [b]) = ftrlStep m r32 hp p (ftrlRun m r32 hp p st hist) b := by
  simp [ftrlRun, List.foldl_append]

/-- mini-batch k-means: the trace of a history extends the trace of its prefix; each entry is
`kmStep` of the previous state -/
theorem km_state_is_fold [Transc α] (tol : α) (st : KState α) (b : List (List α))
    (rest : List (List (List α))) :
    kmRun tol st (b :: rest) = kmStep tol st b :: kmRun tol (kmStep tol st b).1 rest := by
  simp [kmRun]

/-! ## Gaussian naive Bayes -/

/-- **pooled update = statistics of the concatenation.**  `update_mean_variance` applied to the
statistics `(n, mean, variance)` of the values `xs` seen so far and a new batch `ys` returns the
mean and the (population) variance of `xs ++ ys`.  No hypothesis: `ys = []` (class absent from the
batch) and `xs = []` (class first seen) are the two early returns of the code. -/
theorem gnb_merge_replay (xs ys : List α) :
    gnbMerge xs.length (meanL xs) (varL xs) ys = (meanL (xs ++ ys), varL (xs ++ ys)) :=
  gnbMerge_spec xs ys

example : gnbMerge 2 (meanL [1, 3]) (varL [1, 3]) ([5, 7, 9] : List Rat) = (5, 8) := by
  decide +kernel

/-- **mean replay**: after any history of batches (any number, any sizes, empty contributions
allowed) the stored mean of a class/feature is the mean of all values fed so far, and the stored
count is their number. -/
theorem gnb_mean_replay (hist : List (List α)) :
    (hist.foldl gnbColStep (0, 0, 0)).1 = hist.flatten.length ∧
    (hist.foldl gnbColStep (0, 0, 0)).2.1 = meanL hist.flatten := by
  have h := gnbColStep_history hist ([] : List α)
  simp only [List.length_nil, meanL_nil, varL_nil, List.nil_append] at h
  rw [h]; exact ⟨rfl, rfl⟩

/- Full claim of the property (for every `var_smoothing ≥ 0`):
     sigma after the history = varL (all values) + var_smoothing * max_j varL (column j of ALL rows)
   It is FALSE for `var_smoothing > 0` (see `gnb_var_replay_fails_with_smoothing`); proved below
   for `var_smoothing = 0`, where `epsilon = 0` and `fit_with` reduces to the pooled update. -/
/-- **variance replay, `var_smoothing = 0`**: after any history the pooled variance is the
population variance of all values fed so far. -/
theorem gnb_var_replay_partial (hist : List (List α)) :
    (hist.foldl gnbColStep (0, 0, 0)).2.2 = varL hist.flatten := by
  have h := gnbColStep_history hist ([] : List α)
  simp only [List.length_nil, meanL_nil, varL_nil, List.nil_append] at h
  rw [h]

example : ([[1, 3], [], [5, 7, 9]] : List (List Rat)).foldl gnbColStep (0, 0, 0) = (5, 5, 8) := by
  decide +kernel

/-- the same on all feature columns at once, for the function `fit_with` calls: a class whose
stored statistics are those of the rows `r1` and which receives the rows `r2` ends with the
statistics of `r1 ++ r2` -/
theorem gnb_class_update_replay (p : Nat) (pr : α) (r1 r2 : List (List α)) :
    gnbUpdateClass ⟨r1.length, pr, (columns p r1).map meanL, (columns p r1).map varL⟩ (columns p r2) =
      ((columns p (r1 ++ r2)).map meanL, (columns p (r1 ++ r2)).map varL) :=
  gnbUpdateClass_replay p pr r1 r2

example : gnbUpdateClass ⟨1, 0, (columns 2 [[1, 2]]).map meanL, (columns 2 [[1, 2]]).map varL⟩
    (columns 2 ([[3, 6]] : List (List Rat))) = ([2, 4], [1, 4]) := by decide +kernel

/-- **Gaussian NB replay through the whole model state, `var_smoothing = 0`.**  After feeding any
list of batches (any number, any sizes, any class missing from any batch, classes appearing late)
the `HashMap` holds, for every class, exactly the number of its rows, the per-feature means and the
per-feature population variances of its rows in the concatenated data — the textbook estimates —
and holds no entry for a class that never occurred. -/
theorem gnb_replay_zero_smoothing (p : Nat) (hist : List (Batch α)) (c : Nat) :
    (lookup c (gnbRun 0 p hist)).map gProj = gnbStats p hist.flatten c :=
  gnbRun_stats p hist c

/-- hence batch-by-batch fitting and one fit on the whole data give the same class statistics -/
theorem gnb_incremental_eq_batch (p : Nat) (hist : List (Batch α)) (c : Nat) :
    (lookup c (gnbRun 0 p hist)).map gProj = (lookup c (gnbRun 0 p [hist.flatten])).map gProj := by
  rw [gnbRun_stats, gnbRun_stats]; simp

example : (lookup 7 (gnbRun (0 : Rat) 2 [[([1, 2], 7), ([0, 0], 3)], [([3, 6], 7)]])).map gProj =
    some (2, [2, 4], [1, 4]) := by decide +kernel
example : (lookup 7 (gnbRun (0 : Rat) 2 [[([1, 2], 7), ([0, 0], 3), ([3, 6], 7)]])).map gProj =
    some (2, [2, 4], [1, 4]) := by decide +kernel

/-- the prior written by one `fit_with` call is the class count over the sum of the stored counts
(any state, any smoothing) -/
theorem gnb_prior_of_stored_counts (vs : α) (p : Nat) (st : GState α) (b : Batch α) (c : Nat)
    (i : GInfo α) (h : lookup c (gnbStep vs p st b) = some i) :
    i.prior = (i.count : α) /
      (((gnbStep vs p st b).map fun ci => ci.2.count).foldl (fun (a b : Nat) => a + b) 0 : Nat) :=
  gnbStep_prior vs p st b c i h

/-- **the `HashMap` invariant**: after any history the association list has no duplicate key, so
`lookup` sees every stored entry (any smoothing) -/
theorem gnb_keys_unique (vs : α) (p : Nat) (hist : List (Batch α)) :
    (keys (gnbRun vs p hist)).Nodup :=
  gnbRun_keys_nodup vs p hist

/-- **the stored counts add up to the number of rows fed** (any history, any smoothing) -/
theorem gnb_counts_sum (vs : α) (p : Nat) (hist : List (Batch α)) :
    ((gnbRun vs p hist).map fun ci => ci.2.count).foldl (fun (a b : Nat) => a + b) 0 =
      hist.flatten.length := by
  rw [← gnbTotal_eq_foldl]; exact gnbRun_total vs p hist

/-- batches `[0,2]` then `[0,4]` of one class, one feature (used by the examples and the counter-example) -/
def smoothingWitness' : List (Batch Rat) := [[([0], 0), ([2], 0)], [([0], 0), ([4], 0)]]

/-- **counts and priors are the class frequencies of the concatenated data**, for every history
(any number of batches, class-incomplete batches, late classes) and every `var_smoothing`: a stored
class holds the number of its rows, and its prior is that number over the number of all rows fed. -/
theorem gnb_counts_priors (vs : α) (p : Nat) (hist : List (Batch α)) (c : Nat) (i : GInfo α)
    (h : lookup c (gnbRun vs p hist) = some i) :
    i.count = (rowsOf c hist.flatten).length ∧
    i.prior = ((rowsOf c hist.flatten).length : α) / (hist.flatten.length : α) := by
  have hs := gnbRun_stats_sm vs p hist c
  rw [h] at hs
  have hcount : i.count = (rowsOf c hist.flatten).length := by
    simp only [gnbStatsSm] at hs
    by_cases hd : rowsOf c hist.flatten = []
    · simp [hd] at hs
    · simp only [hd, if_false, Option.map_some, gProj, Option.some.injEq, Prod.mk.injEq] at hs
      exact hs.1
  refine ⟨hcount, ?_⟩
  rcases List.eq_nil_or_concat hist with rfl | ⟨h', b, rfl⟩
  · simp [gnbRun, lookup] at h
  · simp only [List.concat_eq_append] at *
    have e : gnbRun vs p (h' ++ [b]) = gnbStep vs p (gnbRun vs p h') b := by
      simp [gnbRun, List.foldl_append]
    have hp := gnbStep_prior vs p (gnbRun vs p h') b c i (by rw [← e]; exact h)
    rw [← e, gnb_counts_sum] at hp
    rw [hp, hcount]

example : (lookup 7 (gnbRun (1 / 2 : Rat) 1 [[([1], 7), ([0], 3)], [([3], 7)]])).map (fun i => (i.count, i.prior)) =
    some (2, 2 / 3) := by decide +kernel

/-- **Gaussian NB replay through the whole model state, every `var_smoothing`** — the exact law of
the code that exists.  After any history every class holds the count and per-feature means of its
rows in the concatenated data, and per-feature variances
`population variance + Σ_b epsilon_b · n_{c,b} / n_c`: the smoothing term is the mean of the
per-batch epsilons weighted by the number of rows of the class in each batch (not the epsilon of the
whole data, which is what the property asks for — see `gnb_var_replay_fails_with_smoothing`). -/
theorem gnb_replay_any_smoothing (vs : α) (p : Nat) (hist : List (Batch α)) (c : Nat) :
    (lookup c (gnbRun vs p hist)).map gProj = gnbStatsSm vs p hist c :=
  gnbRun_stats_sm vs p hist c

example : (lookup 0 (gnbRun (1 / 2 : Rat) 1 smoothingWitness')).map gProj = some (4, [3 / 2], [11 / 4 + (1 / 2 * 2 + 2 * 2) / 4]) := by
  decide +kernel

/-- **a single fit is the textbook estimate for every `var_smoothing`**: class frequencies'
numerator, per-class means, per-class variance + `var_smoothing · max_j Var(column j of all rows)` -/
theorem gnb_single_fit_is_textbook (vs : α) (p : Nat) (d : Batch α) (c : Nat)
    (hc : rowsOf c d ≠ []) :
    (lookup c (gnbRun vs p [d])).map gProj = some (gProj (gnbTextbook vs p d c)) := by
  rw [gnbRun_stats_sm]
  have hn : ((rowsOf c d).length : α) ≠ 0 := Nat.cast_ne_zero.mpr (by simpa using hc)
  simp only [gnbStatsSm, List.flatten_cons, List.flatten_nil, List.append_nil, hc, if_false, gProj,
    gnbTextbook, Option.some.injEq, Prod.mk.injEq, true_and]
  apply List.map_congr_left
  intro xs _
  rw [gnbEffSum_uniform vs p [d] c (gnbEps vs p d) (by simp)]
  simp only [List.flatten_cons, List.flatten_nil, List.append_nil]
  field_simp

/-- **incremental = batch = textbook whenever the batches share the epsilon of the whole data**
(in particular for `var_smoothing = 0`, and for data whose dominating column has the same variance
in every batch): every class, every history, class-incomplete batches included. -/
theorem gnb_incremental_eq_batch_of_uniform_eps (vs : α) (p : Nat) (hist : List (Batch α)) (c : Nat)
    (hc : rowsOf c hist.flatten ≠ [])
    (he : ∀ b ∈ hist, gnbEps vs p b = gnbEps vs p hist.flatten) :
    (lookup c (gnbRun vs p hist)).map gProj = some (gProj (gnbTextbook vs p hist.flatten c)) ∧
    (lookup c (gnbRun vs p hist)).map gProj = (lookup c (gnbRun vs p [hist.flatten])).map gProj := by
  have hn : ((rowsOf c hist.flatten).length : α) ≠ 0 := Nat.cast_ne_zero.mpr (by simpa using hc)
  have h1 : (lookup c (gnbRun vs p hist)).map gProj = some (gProj (gnbTextbook vs p hist.flatten c)) := by
    rw [gnbRun_stats_sm]
    simp only [gnbStatsSm, hc, if_false, gProj, gnbTextbook, Option.some.injEq, Prod.mk.injEq, true_and]
    apply List.map_congr_left
    intro xs _
    rw [gnbEffSum_uniform vs p hist c _ he]
    field_simp
  exact ⟨h1, by rw [h1, gnb_single_fit_is_textbook vs p hist.flatten c hc]⟩

/-- the hypothesis is satisfiable with `var_smoothing > 0` and a class-incomplete batch -/
example : ∀ b ∈ ([[([4, 0], 3), ([0, 1], 3)], [([4, 1], 7), ([0, 1], 7)]] : List (Batch Rat)),
    gnbEps (1 / 2) 2 b = gnbEps (1 / 2) 2 [([4, 0], 3), ([0, 1], 3), ([4, 1], 7), ([0, 1], 7)] := by
  decide +kernel

/-- a history with one dominating, balanced column: both batches have epsilon `1/2 · 4`, class 3 is
absent from the second batch -/
example : (lookup 3 (gnbRun (1 / 2 : Rat) 2 [[([4, 0], 3), ([0, 1], 3)], [([4, 1], 7), ([0, 1], 7)]])).map gProj =
    some (gProj (gnbTextbook (1 / 2 : Rat) 2 [([4, 0], 3), ([0, 1], 3), ([4, 1], 7), ([0, 1], 7)] 3)) := by
  decide +kernel

/-- the history used by the counter-example: one class, one feature, batches `[0,2]` then `[0,4]` -/
def smoothingWitness : List (Batch Rat) := [[([0], 0), ([2], 0)], [([0], 0), ([4], 0)]]

/-- **the variance replay fails with smoothing**: with `var_smoothing = 1/2` the model fed batch by
batch stores variance `4`, a single fit on the same four rows — and the textbook estimate — `33/8`.
(`epsilon` is taken from the current batch only.)  Replayed on the real code: known finding
`C15-gnb-smoothing-incremental-variance`. -/
theorem gnb_var_replay_fails_with_smoothing :
    (lookup 0 (gnbRun (1 / 2 : Rat) 1 smoothingWitness)).map (·.sigma) = some [4] ∧
    (lookup 0 (gnbRun (1 / 2 : Rat) 1 [smoothingWitness.flatten])).map (·.sigma) = some [33 / 8] ∧
    (gnbTextbook (1 / 2 : Rat) 1 smoothingWitness.flatten 0).sigma = [33 / 8] := by
  decide +kernel

/-- counts and priors of the same history are right (the defect is confined to sigma) -/
example : (lookup 0 (gnbRun (1 / 2 : Rat) 1 smoothingWitness)).map (fun i => (i.count, i.prior, i.theta))
    = some (4, 1, [3 / 2]) := by decide +kernel


/-! ## class bookkeeping of one `fit_with` call (any state, any smoothing) -/

/-- **a batch introduces a new class**: a class that is not stored yet and has at least one row in the
batch is stored with the number of its rows in this batch, their column means and their column
variances plus the epsilon of this batch (`entry().or_insert(default)` + the `count == 0` early
return of `update_mean_variance`), whatever else the state holds -/
theorem gnb_new_class_bookkeeping (vs : α) (p : Nat) (st : GState α) (b : Batch α) (c : Nat)
    (hnone : lookup c st = none) (hb : rowsOf c b ≠ []) :
    (lookup c (gnbStep vs p st b)).map gProj =
      some ((rowsOf c b).length, (columns p (rowsOf c b)).map meanL,
        (columns p (rowsOf c b)).map fun xs => varL xs + gnbEps vs p b) :=
  gnbStep_new_class vs p st b c hnone hb

/-- class 9 appears for the first time in the second batch -/
example : lookup 9 (gnbRun (1 / 2 : Rat) 1 [[([1], 7), ([3], 7)]]) = none ∧
    rowsOf 9 ([([2], 9), ([4], 9), ([6], 7)] : Batch Rat) ≠ [] ∧
    (lookup 9 (gnbStep (1 / 2 : Rat) 1 (gnbRun (1 / 2 : Rat) 1 [[([1], 7), ([3], 7)]])
      [([2], 9), ([4], 9), ([6], 7)])).map gProj = some (2, [3], [1 + 1 / 2 * (8 / 3)]) := by
  decide +kernel

/-- **a class the batch lacks is left alone**: count, means and variances are unchanged by a
`fit_with` call whose batch has no row of the class (epsilon is subtracted and added back), and a
class that is neither stored nor in the batch is not created -/
theorem gnb_absent_class_unchanged (vs : α) (p : Nat) (st : GState α) (b : Batch α) (c : Nat)
    (hb : rowsOf c b = []) :
    (lookup c (gnbStep vs p st b)).map gProj = (lookup c st).map gProj :=
  gnbStep_absent_class vs p st b c hb

example : rowsOf 7 ([([2], 9), ([4], 9)] : Batch Rat) = [] ∧
    (lookup 7 (gnbStep (1 / 2 : Rat) 1 (gnbRun (1 / 2 : Rat) 1 [[([1], 7), ([3], 7)]])
      [([2], 9), ([4], 9)])).map gProj = some (2, [2], [1 + 1 / 2]) := by decide +kernel

/-- **the priors are renormalised over all stored classes**: after a call every stored class — also
one the batch lacks — has prior `count / (sum of the counts stored before + rows of the batch)` -/
theorem gnb_prior_after_step (vs : α) (p : Nat) (st : GState α) (b : Batch α) (c : Nat) (i : GInfo α)
    (h : lookup c (gnbStep vs p st b) = some i) :
    i.prior = (i.count : α) / ((gnbTotal st + b.length : Nat) : α) :=
  gnbStep_prior_total vs p st b c i h

example : (lookup 7 (gnbStep (1 / 2 : Rat) 1 (gnbRun (1 / 2 : Rat) 1 [[([1], 7), ([3], 7)]])
      [([2], 9), ([4], 9)])).map (·.prior) = some (2 / 4) := by decide +kernel

/-- **the stored classes are exactly the classes seen so far** (any history, any smoothing) -/
theorem gnb_stored_classes_are_classes_seen (vs : α) (p : Nat) (hist : List (Batch α)) (c : Nat) :
    (lookup c (gnbRun vs p hist)).isSome = true ↔ rowsOf c hist.flatten ≠ [] :=
  gnbRun_isSome vs p hist c

example : (lookup 9 (gnbRun (1 / 2 : Rat) 1 [[([1], 7)], [([2], 9)]])).isSome = true ∧
    (lookup 8 (gnbRun (1 / 2 : Rat) 1 [[([1], 7)], [([2], 9)]])).isSome = false := by decide +kernel

/-- stand-in transcendental functions over `Rat`, only for the examples below -/
instance : Transc Rat := ⟨fun x => x, fun x => x, fun x => x⟩

/-! ## multinomial naive Bayes -/

/-- **additive counts, log-frequencies a function of the counts**: a class holding the feature
counts of the rows `r1` that receives the non-empty block `r2` ends with the feature counts of
`r1 ++ r2`, and its log-frequencies are `mnbLogProb` of those counts — exactly what a single fit on
`r1 ++ r2` computes (`mnbTextbook`).  `r1 = []` is the first appearance of the class. -/
theorem mnb_replay [Transc α] (a pr : α) (lp : List α) (p : Nat) (r1 r2 : List (List α))
    (h2 : r2 ≠ []) :
    mnbUpdateClass a ⟨r1.length, pr, (columns p r1).map sumS, lp⟩ (columns p r2) r2.length =
      (mnbLogProb a ((columns p (r1 ++ r2)).map sumS), (columns p (r1 ++ r2)).map sumS) := by
  have h2' : r2.length ≠ 0 := by simpa using h2
  unfold mnbUpdateClass
  simp only [h2', if_false]
  by_cases h1 : 0 < r1.length
  · simp only [h1, if_true, colsum_append]
  · have : r1 = [] := List.eq_nil_of_length_eq_zero (by omega)
    subst this
    simp

/-- an absent class keeps its statistics -/
theorem mnb_absent_class [Transc α] (a : α) (info : MInfo α) (cols : List (List α)) :
    mnbUpdateClass a info cols 0 = (info.flogp, info.fcount) := by
  simp [mnbUpdateClass]


/-- **multinomial NB replay through the whole model state**: after feeding any list of batches (any
number, any sizes, classes missing from batches, classes appearing late) every class holds exactly
the number of its rows, the per-feature sums of its rows in the concatenated data and the additively
smoothed log-frequencies of those sums — the textbook estimate; classes never seen are absent. -/
theorem mnb_replay_whole_state [Transc α] (a : α) (p : Nat) (hist : List (Batch α)) (c : Nat) :
    (lookup c (mnbRun a p hist)).map mProj = mnbStats a p hist.flatten c :=
  mnbRun_stats a p hist c

example : (lookup 7 (mnbRun (1 : Rat) 2 [[([1, 2], 7), ([0, 1], 3)], [([3, 0], 7)]])).map mProj =
    some (2, [4, 2], mnbLogProb 1 [4, 2]) := by decide +kernel

/-- hence batch-by-batch fitting and one fit on the whole data give the same class statistics -/
theorem mnb_incremental_eq_batch [Transc α] (a : α) (p : Nat) (hist : List (Batch α)) (c : Nat) :
    (lookup c (mnbRun a p hist)).map mProj = (lookup c (mnbRun a p [hist.flatten])).map mProj := by
  rw [mnbRun_stats, mnbRun_stats]; simp

/-- the textbook record of a class is what the whole-state replay produces -/
theorem mnb_stats_is_textbook [Transc α] (a : α) (p : Nat) (d : Batch α) (c : Nat)
    (hc : rowsOf c d ≠ []) : mnbStats a p d c = some (mProj (mnbTextbook a p d c)) := by
  simp [mnbStats, hc, mProj, mnbTextbook]

/-- **multinomial counts and priors are the class frequencies of the concatenated data** -/
theorem mnb_counts_priors [Transc α] (a : α) (p : Nat) (hist : List (Batch α)) (c : Nat)
    (i : MInfo α) (h : lookup c (mnbRun a p hist) = some i) :
    i.count = (rowsOf c hist.flatten).length ∧
    i.prior = ((rowsOf c hist.flatten).length : α) / (hist.flatten.length : α) := by
  have hs := mnbRun_stats a p hist c
  rw [h] at hs
  have hcount : i.count = (rowsOf c hist.flatten).length := by
    simp only [mnbStats] at hs
    by_cases hd : rowsOf c hist.flatten = []
    · simp [hd] at hs
    · simp only [hd, if_false, Option.map_some, mProj, Option.some.injEq, Prod.mk.injEq] at hs
      exact hs.1
  refine ⟨hcount, ?_⟩
  rcases List.eq_nil_or_concat hist with rfl | ⟨h', b, rfl⟩
  · simp [mnbRun, lookup] at h
  · simp only [List.concat_eq_append] at *
    have e : mnbRun a p (h' ++ [b]) = mnbStep a p (mnbRun a p h') b := by
      simp [mnbRun, List.foldl_append]
    have hp := mnbStep_prior a p (mnbRun a p h') b c i (by rw [← e]; exact h)
    rw [← e, mnbRun_total] at hp
    rw [hp, hcount]

example : (lookup 7 (mnbRun (1 : Rat) 2 [[([1, 2], 7), ([0, 1], 3)], [([3, 0], 7)]])).map (fun i => (i.count, i.prior)) =
    some (2, 2 / 3) := by decide +kernel


/-- **multinomial: a batch introduces a new class** — stored with the number of its rows in this
batch, their feature sums and the smoothed log-frequencies of those sums -/
theorem mnb_new_class_bookkeeping [Transc α] (a : α) (p : Nat) (st : MState α) (b : Batch α) (c : Nat)
    (hnone : lookup c st = none) (hb : rowsOf c b ≠ []) :
    (lookup c (mnbStep a p st b)).map mProj =
      some ((rowsOf c b).length, (columns p (rowsOf c b)).map sumS,
        mnbLogProb a ((columns p (rowsOf c b)).map sumS)) :=
  mnbStep_new_class a p st b c hnone hb

/-- **multinomial: a class the batch lacks keeps its count, feature counts and log-frequencies** -/
theorem mnb_absent_class_unchanged [Transc α] (a : α) (p : Nat) (st : MState α) (b : Batch α) (c : Nat)
    (hb : rowsOf c b = []) :
    (lookup c (mnbStep a p st b)).map mProj = (lookup c st).map mProj :=
  mnbStep_absent_class a p st b c hb

example : lookup 3 (mnbRun (1 : Rat) 2 [[([1, 2], 7)]]) = none ∧
    (lookup 3 (mnbStep (1 : Rat) 2 (mnbRun (1 : Rat) 2 [[([1, 2], 7)]]) [([0, 1], 3), ([2, 1], 3)])).map mProj =
      some (2, [2, 2], mnbLogProb 1 [2, 2]) ∧
    (lookup 7 (mnbStep (1 : Rat) 2 (mnbRun (1 : Rat) 2 [[([1, 2], 7)]]) [([0, 1], 3), ([2, 1], 3)])).map mProj =
      some (1, [1, 2], mnbLogProb 1 [1, 2]) := by decide +kernel

/-! ## prediction -/

/-- **the predicted class maximises the joint log-likelihood** (any score function, any state) -/
theorem nb_predict_is_argmax_posterior {ι : Type} (jll : ι → List α → α) (st : List (Nat × ι))
    (x : List α) (c : Nat) (h : nbPredict jll st x = some c) :
    ∃ info, (c, info) ∈ st ∧ ∀ ci ∈ st, jll ci.2 x ≤ jll info x := by
  unfold nbPredict at h
  cases hb : argmaxScore (st.map fun ci => (ci.1, jll ci.2 x)) with
  | none => simp [hb] at h
  | some b =>
    simp only [hb, Option.map_some, Option.some.injEq] at h
    obtain ⟨hm, hmax⟩ := argmaxScore_spec _ b hb
    obtain ⟨ci, hci, hbe⟩ := List.mem_map.mp hm
    refine ⟨ci.2, ?_, ?_⟩
    · have : ci.1 = c := by rw [← h, ← hbe]
      rw [← this]; exact hci
    · intro cj hcj
      have := hmax (cj.1, jll cj.2 x) (List.mem_map.mpr ⟨cj, hcj, rfl⟩)
      rw [← hbe] at this
      exact this

example : nbPredict (fun (i : Rat) (x : List Rat) => i * x.headD 0) [(3, 1), (5, 4), (9, 2)] [2] = some 5 := by
  decide +kernel

/-! ## mini-batch k-means -/

/-- one observation moves only its own cluster: count `+1`, centroid by `(x - c) / count` -/
theorem km_add_point (st : KState α) (x : List α) (c : Nat) (hc : c < st.counts.length)
    (hc' : c < st.centroids.length) :
    (kmAddPoint st x c).counts[c]? = some (st.counts.getD c 0 + 1) ∧
    (kmAddPoint st x c).centroids[c]? = some (List.zipWith
      (fun ci xi => ci + (xi - ci) / (st.counts.getD c 0 + 1)) (st.centroids.getD c []) x) ∧
    ∀ d, d ≠ c → (kmAddPoint st x c).counts[d]? = st.counts[d]? ∧
      (kmAddPoint st x c).centroids[d]? = st.centroids[d]? := by
  refine ⟨?_, ?_, ?_⟩
  · simp [kmAddPoint, List.getElem?_set, hc]
  · simp [kmAddPoint, List.getElem?_set, hc']
  · intro d hd
    simp [kmAddPoint, List.getElem?_set, Ne.symm hd]

/-- **running mean with cumulative counts**: a centroid coordinate with cumulative count `n` that
absorbs the values `xs` ends with count `n + |xs|` and value `(c·n + Σ xs) / (n + |xs|)` -/
theorem minibatch_recurrence (xs : List α) (c : α) (n : Nat) :
    (xs.foldl kmTrack (c, n)).2 = n + xs.length ∧
    (xs.foldl kmTrack (c, n)).1 * ((n + xs.length : Nat) : α) = c * (n : α) + sumS xs :=
  kmTrack_invariant xs c n

/-- from count 0 the centroid is the mean of everything ever assigned (the initial centroid is forgotten) -/
theorem minibatch_running_mean (xs : List α) (c0 : α) (h : xs ≠ []) :
    xs.foldl kmTrack (c0, 0) = (meanL xs, xs.length) :=
  kmTrack_mean xs c0 h

example : ([2, 4, 9] : List Rat).foldl kmTrack (100, 0) = (5, 3) := by decide +kernel


/-- **whole-batch lifting of the running mean.**  After `compute_centroids_incremental` on a batch
(`obs` with memberships `mem`), coordinate `j` of centroid `c` is the documented recurrence
`count += 1; x̄ += (x − x̄)/count` run over the `j`-th coordinates of exactly the observations assigned
to `c`, in batch order, started from the old coordinate with the old cumulative count `n`; the new
cumulative count is `n` plus their number; equivalently new·(n + m) = old·n + Σ absorbed.
Hypotheses = the shape invariants of the real arrays (cluster index in range, rows at least as long
as the centroid) and that the stored count is a natural number. -/
theorem km_batch_running_mean (c j : Nat) (st : KState α) (obs : List (List α)) (mem : List Nat)
    (n : Nat) (hc : c < st.centroids.length) (hc' : c < st.counts.length)
    (hn : st.counts.getD c 0 = (n : α)) (hj : j < (st.centroids.getD c []).length)
    (hlen : ∀ xm ∈ obs.zip mem, (st.centroids.getD c []).length ≤ xm.1.length) :
    (((kmIncr st obs mem).centroids.getD c []).getD j 0 =
        ((coordSeq c j (obs.zip mem)).foldl kmTrack ((st.centroids.getD c []).getD j 0, n)).1) ∧
    (kmIncr st obs mem).counts.getD c 0 = ((n + (coordSeq c j (obs.zip mem)).length : Nat) : α) ∧
    ((kmIncr st obs mem).centroids.getD c []).getD j 0 *
        ((n + (coordSeq c j (obs.zip mem)).length : Nat) : α) =
      (st.centroids.getD c []).getD j 0 * (n : α) + sumS (coordSeq c j (obs.zip mem)) := by
  obtain ⟨h1, h2⟩ := kmIncr_cluster c j (obs.zip mem) st n hc hc' hn hj hlen
  exact ⟨h1, h2, kmIncr_cluster_sum c j (obs.zip mem) st n hc hc' hn hj hlen⟩

/-- two clusters in one dimension, counts 2 and 0, a batch of three points assigned 1, 0, 1 -/
example : (kmIncr (⟨[[4], [10]], [2, 0]⟩ : KState Rat) [[2], [7], [6]] [1, 0, 1]).centroids = [[5], [4]] ∧
    (kmIncr (⟨[[4], [10]], [2, 0]⟩ : KState Rat) [[2], [7], [6]] [1, 0, 1]).counts = [3, 2] ∧
    coordSeq 1 0 ([[2], [7], [6]].zip [1, 0, 1] : List (List Rat × Nat)) = [2, 6] := by decide +kernel

/-- **converged is reported truthfully**: `Ok` iff the Frobenius shift of the centroids is below the tolerance -/
theorem converged_iff_shift_lt_tol [Transc α] (tol : α) (st : KState α) (obs : List (List α)) :
    (kmStep tol st obs).2 = true ↔
      Transc.sqrt (kmShiftSq st.centroids (kmStep tol st obs).1.centroids) < tol := by
  simp [kmStep]


/-- **any metric: the assignment is to a nearest centroid** — the distance `closest_centroid` returns
is at most the (r)distance to every centroid (L2, L1, L-infinity) -/
theorem km_assigns_nearest (m : Metric) (cs : List (List α)) (x : List α) (c : List α) (hc : c ∈ cs) :
    (closestBy m cs x).2 ≤ rdistBy m c x :=
  closestBy_le m cs x c hc

example : ([1, 2] : List Rat) ∈ [[0, 0], [1, 2]] ∧
    (closestBy .l1 [[0, 0], [1, 2]] ([1, 1] : List Rat)) = (1, 1) := by decide +kernel

/-- **converged is reported truthfully for every metric**: `Ok` iff the metric's distance between the
old and the new centroid matrix is below the tolerance -/
theorem converged_iff_dist_lt_tol_any_metric [Transc α] (m : Metric) (tol : α) (st : KState α)
    (obs : List (List α)) :
    (kmStepBy m tol st obs).2.1 = true ↔
      distBy m st.centroids.flatten (kmStepBy m tol st obs).1.centroids.flatten < tol := by
  simp [kmStepBy]

/-- the L2 instance of the metric-generic step is `kmStep` (so the theorems above apply to it) -/
theorem km_l2_instance [Transc α] (tol : α) (st : KState α) (obs : List (List α)) :
    ((kmStepBy .l2 tol st obs).1, (kmStepBy .l2 tol st obs).2.1) = kmStep tol st obs :=
  kmStepBy_l2 tol st obs

/-- **the `n_runs` selection of `fit_with(None, ..)` keeps an initialisation of lowest inertia** -/
theorem km_init_picks_lowest_inertia {β : Type} (l : List (β × α)) (b : β × α)
    (h : pickInit l = some b) : b ∈ l ∧ ∀ y ∈ l, b.2 ≤ y.2 :=
  pickInit_spec l b h

example : pickInit ([("a", 3), ("b", 1), ("c", 2), ("d", 1)] : List (String × Rat)) = some ("d", 1) := by
  decide +kernel


/-! ### whole histories: function of the history, truthful report after every batch, counts -/

/-- **the trace is a function of the history alone**: entry `i` of the trace of ANY history is one
`fit_with` step applied to the state reached by the first `i` batches (`kmStateAfter` = the fold of
the step over them) — nothing else enters -/
theorem km_trace_entry [Transc α] (m : Metric) (tol : α) (st : KState α)
    (pre : List (List (List α))) (b : List (List α)) (post : List (List (List α))) :
    (kmRunBy m tol st (pre ++ b :: post))[pre.length]? =
      some (kmStepBy m tol (kmStateAfter m tol st pre) b) :=
  kmRunBy_entry m tol st pre b post

/-- **converged / not-converged is reported truthfully after every batch of every history, for every
metric**: the flag of batch `i` is `true` exactly when the metric's `distance` between the centroid
matrix before the batch and the one after it is below the tolerance — the report is
`distance(old, new) < tolerance`, not a comparison in reduced-distance space -/
theorem km_converged_truthful_every_batch [Transc α] (m : Metric) (tol : α) (st : KState α)
    (pre : List (List (List α))) (b : List (List α)) (post : List (List (List α))) :
    ∃ r, (kmRunBy m tol st (pre ++ b :: post))[pre.length]? = some r ∧
      (r.2.1 = true ↔
        distBy m (kmStateAfter m tol st pre).centroids.flatten r.1.centroids.flatten < tol) :=
  ⟨_, kmRunBy_entry m tol st pre b post, by simp [kmStepBy]⟩

/-- two batches, L1: the first moves the centroid by 1 (not below 1/2), the second by 1/3 (below) -/
example : (kmRunBy .l1 (1 / 2 : Rat) ⟨[[0]], [0]⟩ [[[1]], [[5 / 3]]]).map (·.2.1) = [false, true] := by
  decide +kernel

/-- **L2: the report in reduced-distance form.**  For a square root that is one (non-negative and
squaring back on non-negative arguments) and a non-negative tolerance, `Ok` iff the SQUARED shift is
below the SQUARED tolerance (`rdistance(old, new) < dist_to_rdist(tolerance)`). -/
theorem km_converged_l2_iff_sq_shift_lt_sq_tol [Transc α]
    (hs : ∀ x : α, 0 ≤ x → 0 ≤ Transc.sqrt x ∧ Transc.sqrt x * Transc.sqrt x = x)
    (tol : α) (ht : 0 ≤ tol) (st : KState α) (obs : List (List α)) :
    (kmStepBy .l2 tol st obs).2.1 = true ↔
      rdistBy .l2 st.centroids.flatten (kmStepBy .l2 tol st obs).1.centroids.flatten < tol * tol := by
  rw [converged_iff_dist_lt_tol_any_metric]
  exact sqrt_lt_iff_lt_sq hs _ tol (sqDist_nonneg _ _) ht

/-- the hypothesis on the square root holds for the real square root -/
example : ∀ x : ℝ, 0 ≤ x → 0 ≤ Real.sqrt x ∧ Real.sqrt x * Real.sqrt x = x :=
  fun x hx => ⟨Real.sqrt_nonneg x, Real.mul_self_sqrt hx⟩

/-- **for L1 (and every metric whose reduced distance is the distance itself) comparing the reduced
distance with the squared tolerance is a DIFFERENT report**: with tolerance 1/2 a shift of 1/3 is
converged (1/3 < 1/2) although 1/3 ≥ 1/4; with tolerance 2 a shift of 3 is not converged although
3 < 4.  (This is the seeded change `C15-minibatch-convergence-rdistance`.) -/
theorem km_converged_l1_is_not_rdist_lt_sq_tol :
    ((kmStepBy .l1 (1 / 2 : Rat) ⟨[[0]], [0]⟩ [[1 / 3]]).2.1 = true ∧
      ¬ rdistBy .l1 ([[0]] : List (List Rat)).flatten
          (kmStepBy .l1 (1 / 2 : Rat) ⟨[[0]], [0]⟩ [[1 / 3]]).1.centroids.flatten < 1 / 2 * (1 / 2)) ∧
    ((kmStepBy .l1 (2 : Rat) ⟨[[0]], [0]⟩ [[3]]).2.1 = false ∧
      rdistBy .l1 ([[0]] : List (List Rat)).flatten
          (kmStepBy .l1 (2 : Rat) ⟨[[0]], [0]⟩ [[3]]).1.centroids.flatten < 2 * 2) := by
  decide +kernel

/-- **inertia is the minimum over all assignments**: the sum `dists.sum()` behind `inertia` is at most
the total reduced distance of ANY assignment of the batch's rows to centroids of the model -/
theorem km_inertia_le_any_assignment (m : Metric) (cs : List (List α)) (obs : List (List α))
    (a : List α → List α) (ha : ∀ x ∈ obs, a x ∈ cs) :
    sumS (obs.map fun x => (closestBy m cs x).2) ≤ sumS (obs.map fun x => rdistBy m (a x) x) :=
  kmInertia_le m cs obs a ha

example : kmInertiaBy .l1 [[0], [10]] ([[1], [9], [4]] : List (List Rat)) = 2 := by decide +kernel

/-- **the cumulative counts add up**: after any history the per-cluster counts sum to what they
summed to before plus the number of rows fed (every row is counted in exactly one cluster, nothing is
ever reset); guards = at least one centroid, one count per centroid (`Array1::zeros(n_clusters)`) -/
theorem km_counts_add_up [Transc α] (m : Metric) (tol : α) (st : KState α)
    (hist : List (List (List α))) (hne : st.centroids ≠ [])
    (hk : st.counts.length = st.centroids.length) :
    sumS (kmStateAfter m tol st hist).counts = sumS st.counts + (hist.flatten.length : α) :=
  kmStateAfter_total m tol hist st hne hk

example : (kmStateAfter .linf (1 : Rat) ⟨[[0], [10]], [0, 0]⟩ [[[1], [9]], [[2]], [[8], [7], [1]]]).counts = [3, 3] := by
  decide +kernel

/-! ## FTRL-proximal -/

/-- **per-coordinate recurrence**: `z' = z + g - σ·w`, `n' = n + g²` -/
theorem ftrl_recurrence [Transc α] (hp : FtrlHp α) (st : FState α) (g : List α) (j : Nat)
    (z n gj : α) (hz : st.z[j]? = some z) (hn : st.n[j]? = some n) (hg : g[j]? = some gj) :
    (ftrlUpdate hp st g).z[j]? = some (z + gj - ftrlSigma hp n gj * ftrlWeight hp z n) ∧
    (ftrlUpdate hp st g).n[j]? = some (n + gj * gj) := by
  have hzn : (st.z.zip st.n)[j]? = some (z, n) := List.getElem?_zip_eq_some.mpr ⟨hz, hn⟩
  simp [ftrlUpdate, ftrlCoord, List.getElem?_zipWith, hzn, hg]

/-- `n` never decreases -/
theorem ftrl_n_monotone [Transc α] (hp : FtrlHp α) (z n g : α) : n ≤ (ftrlCoord hp z n g).2 := by
  simp only [ftrlCoord]
  nlinarith [mul_self_nonneg g]

/-- **a weight is exactly zero wherever `|z| ≤ l1`** (no hypothesis at all) -/
theorem ftrl_zero_of_le [Transc α] (hp : FtrlHp α) (z n : α) (h : |z| ≤ hp.l1) :
    ftrlWeight hp z n = 0 := by
  unfold ftrlWeight
  by_cases hz : z < 0
  · have : z * -1 ≤ hp.l1 := by rw [abs_of_neg hz] at h; linarith
    simp only [hz, ↓reduceIte, this]
  · have : z * 1 ≤ hp.l1 := by rw [abs_of_nonneg (not_lt.mp hz)] at h; linarith
    simp only [hz, ↓reduceIte, this]

/-- the same for the weight vector of any state (in particular the state after any history,
`ftrlRun`): coordinate `j` of `get_weights` is exactly zero wherever `|z_j| ≤ l1` -/
theorem ftrl_weights_zero_wherever_le [Transc α] (hp : FtrlHp α) (st : FState α) (j : Nat) (z n : α)
    (hz : st.z[j]? = some z) (hn : st.n[j]? = some n) (h : |z| ≤ hp.l1) :
    (ftrlWeights hp st)[j]? = some 0 := by
  simp [ftrlWeights, List.getElem?_zipWith, hz, hn, ftrl_zero_of_le hp z n h]

/-- and only there, as soon as the denominator `(√n + β)/α + l2` of the closed form is non-zero -/
theorem ftrl_zero_iff [Transc α] (hp : FtrlHp α) (z n : α)
    (hden : (Transc.sqrt n + hp.beta) / hp.alpha + hp.l2 ≠ 0) :
    ftrlWeight hp z n = 0 ↔ |z| ≤ hp.l1 := by
  refine ⟨?_, ftrl_zero_of_le hp z n⟩
  intro hw
  by_contra hgt
  have hgt : hp.l1 < |z| := not_le.mp hgt
  unfold ftrlWeight at hw
  by_cases hz : z < 0
  · rw [abs_of_neg hz] at hgt
    have h1 : ¬ (z * -1 ≤ hp.l1) := by intro h; linarith
    simp only [hz, if_true, h1, if_false] at hw
    rcases div_eq_zero_iff.mp hw with h | h
    · linarith
    · exact hden h
  · rw [abs_of_nonneg (not_lt.mp hz)] at hgt
    have h1 : ¬ (z * 1 ≤ hp.l1) := by intro h; linarith
    simp only [hz, if_false, h1] at hw
    rcases div_eq_zero_iff.mp hw with h | h
    · linarith
    · exact hden h


/-! ### the accumulators `z` and `n` over whole histories -/

/-- **a history of `fit_with` calls is a sequence of `update_params` calls**, one gradient vector of
length `p` per batch (the gradients are whatever `calculate_gradient` produced; the theorems below
hold for every such sequence) -/
theorem ftrl_history_is_update_sequence [Transc α] (m : α) (r32 : α → α) (hp : FtrlHp α) (p : Nat)
    (st : FState α) (hist : List (List (List α) × List Bool)) :
    ∃ gs : List (List α), gs.length = hist.length ∧ (∀ g ∈ gs, g.length = p) ∧
      ftrlRun m r32 hp p st hist = gs.foldl (ftrlUpdate hp) st :=
  ftrlRun_is_update_fold m r32 hp p hist st

/-- **the coordinates are independent accumulators**: coordinate `j` of `(z, n)` after any sequence of
updates is the one-coordinate recurrence run over the `j`-th gradient components -/
theorem ftrl_coordinates_independent [Transc α] (hp : FtrlHp α) (gs : List (List α)) (j : Nat)
    (st : FState α) (z n : α) (hz : st.z[j]? = some z) (hn : st.n[j]? = some n)
    (hg : ∀ g ∈ gs, j < g.length) :
    (gs.foldl (ftrlUpdate hp) st).z[j]? =
        some (ftrlCoordRun hp (z, n) (gs.map fun g => g.getD j 0)).1 ∧
    (gs.foldl (ftrlUpdate hp) st).n[j]? =
        some (ftrlCoordRun hp (z, n) (gs.map fun g => g.getD j 0)).2 :=
  ftrlUpdate_coord hp gs j st z n hz hn hg

/-- **`n` accumulates the squared gradients**: after any sequence `n = n₀ + Σ_t g_t²`, so it never
decreases over a history -/
theorem ftrl_n_accumulates [Transc α] (hp : FtrlHp α) (gs : List α) (z n : α) :
    (ftrlCoordRun hp (z, n) gs).2 = n + sumS (gs.map fun g => g * g) ∧
    n ≤ (ftrlCoordRun hp (z, n) gs).2 :=
  ⟨ftrlCoordRun_n hp gs z n, ftrlCoordRun_n_mono hp gs z n⟩

/-- **the learning-rate increments telescope**: `Σ_t σ_t = (√n_T − √n₀)/α` — the per-coordinate
learning-rate schedule `1/η_t = √n_t/α` of FTRL-proximal (for any function `sqrt`) -/
theorem ftrl_sigma_telescopes [Transc α] (hp : FtrlHp α) (gs : List α) (n : α) :
    sumS (ftrlSigmaSeq hp n gs) =
      (Transc.sqrt (n + sumS (gs.map fun g => g * g)) - Transc.sqrt n) / hp.alpha :=
  ftrlSigmaSeq_telescope hp gs n

/-- **`z` accumulates the gradients minus the corrections**: `z = z₀ + Σ_t g_t − Σ_t σ_t·w_t`, `w_t`
the proximal weight of the state before update `t` -/
theorem ftrl_z_accumulates [Transc α] (hp : FtrlHp α) (gs : List α) (z n : α) :
    (ftrlCoordRun hp (z, n) gs).1 = z + sumS gs - sumS (ftrlCorrSeq hp z n gs) :=
  ftrlCoordRun_z hp gs z n

/-- **`n` after a whole history of `fit_with` calls**: there is one gradient vector per batch such that
coordinate `j` of `n` is its start value plus the sum of the squared `j`-th gradient components, and
it is at least the start value -/
theorem ftrl_n_after_history [Transc α] (m : α) (r32 : α → α) (hp : FtrlHp α) (p : Nat)
    (st : FState α) (hist : List (List (List α) × List Bool)) (j : Nat) (z n : α) (hj : j < p)
    (hz : st.z[j]? = some z) (hn : st.n[j]? = some n) :
    ∃ gs : List (List α), gs.length = hist.length ∧
      (ftrlRun m r32 hp p st hist).n[j]? =
        some (n + sumS (gs.map fun g => g.getD j 0 * g.getD j 0)) ∧
      ∀ n', (ftrlRun m r32 hp p st hist).n[j]? = some n' → n ≤ n' := by
  obtain ⟨gs, hlen, hall, heq⟩ := ftrlRun_is_update_fold m r32 hp p hist st
  have hc := (ftrlUpdate_coord hp gs j st z n hz hn (fun g hg => by rw [hall g hg]; exact hj)).2
  have hnacc := ftrlCoordRun_n hp (gs.map fun g => g.getD j 0) z n
  refine ⟨gs, hlen, ?_, ?_⟩
  · rw [heq, hc, hnacc, List.map_map]; rfl
  · intro n' h'
    rw [heq, hc] at h'
    have := ftrlCoordRun_n_mono hp (gs.map fun g => g.getD j 0) z n
    simp only [Option.some.injEq] at h'
    rw [← h']; exact this

/-- three updates of one coordinate from `(z, n) = (1/4, 0)` with gradients `1, -2, 2`
(hyper-parameters α = β = 1, l1 = 1/2, l2 = 1; `sqrt` is the stand-in identity): `n = 0 + 1 + 4 + 4` -/
example : (ftrlCoordRun (⟨1, 1, 1 / 2, 1⟩ : FtrlHp Rat) (1 / 4, 0) [1, -2, 2]).2 = 9 ∧
    sumS (ftrlSigmaSeq (⟨1, 1, 1 / 2, 1⟩ : FtrlHp Rat) 0 [1, -2, 2]) = 9 ∧
    (ftrlCoordRun (⟨1, 1, 1 / 2, 1⟩ : FtrlHp Rat) (1 / 4, 0) [1, -2, 2]).1 =
      1 / 4 + (1 - 2 + 2) - sumS (ftrlCorrSeq (⟨1, 1, 1 / 2, 1⟩ : FtrlHp Rat) (1 / 4) 0 [1, -2, 2]) := by
  decide +kernel

example : ((([[1, 0], [-2, 1]] : List (List Rat)).foldl (ftrlUpdate ⟨1, 1, 1 / 2, 1⟩) ⟨[1 / 4, 2], [0, 1]⟩).n) = [5, 2] := by
  decide +kernel

/-- **the weight is the FTRL-proximal minimiser**: for `l1 ≥ 0` and a positive quadratic coefficient
`d = (√n + β)/α + l2`, `get_weights` returns, per coordinate, a minimiser over ALL `w` of the
documented objective `z·w + l1·|w| + ½·d·w²` (soft threshold at `l1`, hence the exact zeros) -/
theorem ftrl_weight_is_proximal_minimiser [Transc α] (hp : FtrlHp α) (z n : α) (hl1 : 0 ≤ hp.l1)
    (hd : 0 < (Transc.sqrt n + hp.beta) / hp.alpha + hp.l2) (w : α) :
    ftrlObjective hp z n (ftrlWeight hp z n) ≤ ftrlObjective hp z n w :=
  ftrlWeight_minimises hp z n hl1 hd w

/-- hyper-parameters α = β = 1, l1 = 1/2, l2 = 1, `n = 4` (`sqrt` the stand-in identity): `d = 6 > 0`;
the weight of `z = 3/2` is `-1/6` with objective `-1/12`, below the objective at `0` and at `-1/3` -/
example : (0 : Rat) ≤ (⟨1, 1, 1 / 2, 1⟩ : FtrlHp Rat).l1 ∧
    (0 : Rat) < (Transc.sqrt 4 + (⟨1, 1, 1 / 2, 1⟩ : FtrlHp Rat).beta) / (⟨1, 1, 1 / 2, 1⟩ : FtrlHp Rat).alpha + (⟨1, 1, 1 / 2, 1⟩ : FtrlHp Rat).l2 ∧
    ftrlObjective (⟨1, 1, 1 / 2, 1⟩ : FtrlHp Rat) (3 / 2) 4 (ftrlWeight ⟨1, 1, 1 / 2, 1⟩ (3 / 2) 4) = -1 / 12 ∧
    ftrlObjective (⟨1, 1, 1 / 2, 1⟩ : FtrlHp Rat) (3 / 2) 4 0 = 0 ∧
    ftrlObjective (⟨1, 1, 1 / 2, 1⟩ : FtrlHp Rat) (3 / 2) 4 (-1 / 3) = 0 := by decide +kernel

/-- **the sigmoid is clamped**: beyond `±max_abs` the predicted probability no longer depends on the logit -/
theorem ftrl_sigmoid_clamped [Transc α] (m v : α) (hm : 0 ≤ m) :
    (m ≤ v → sigmoid m v = sigmoid m m) ∧ (v ≤ -m → sigmoid m v = sigmoid m (-m)) :=
  ⟨sigmoid_clamp_hi m v hm, sigmoid_clamp_lo m v hm⟩

example : (0 : Rat) ≤ 35 ∧ sigmoid (35 : Rat) 100 = sigmoid 35 35 ∧ sigmoid (35 : Rat) (-100) = sigmoid 35 (-35) := by
  decide +kernel


example : ftrlWeight (⟨1, 1, 1 / 2, 1⟩ : FtrlHp Rat) (-1 / 2) 4 = 0 := by decide +kernel
example : ftrlWeight (⟨1, 1, 1 / 2, 1⟩ : FtrlHp Rat) (3 / 2) 4 ≠ 0 := by decide +kernel
example : ftrlWeights (⟨1, 1, 1 / 2, 1⟩ : FtrlHp Rat) ⟨[-1 / 2, 3 / 2, 1 / 4], [4, 4, 0]⟩ = [0, -1 / 6, 0] := by decide +kernel

/-! ## the glue around the steps: `Option` model in, guards, the caller's loop -/

/-- **naive Bayes, the caller's loop** `model = params.fit_with(model, &batch)?`: when every batch
passes the guard of the code (Gaussian: at least one feature column and at least one row — otherwise
`max()` errors; multinomial: no error path, guard constantly true) the loop returns one model per
batch and its last model is the step folded over the history from the incoming model (`None` = empty
map), i.e. `gnbRun` / `mnbRun` -/
theorem nb_fit_history_is_run {σ : Type} (step : σ → Batch α → σ) (e : σ) (guard : Batch α → Bool)
    (hist : List (Batch α)) (hg : ∀ b ∈ hist, guard b = true) (model : Option σ) :
    ∃ sts, nbFitHistory step e guard model hist = some sts ∧ sts.length = hist.length ∧
      sts.getLastD (model.getD e) = hist.foldl step (model.getD e) :=
  nbFitHistory_ok step e guard hist hg model

/-- **multinomial `fit_with` never errors**, and an empty batch leaves every class as it was -/
theorem mnb_fit_never_errors [Transc α] (a : α) (p : Nat) (hist : List (Batch α))
    (model : Option (MState α)) :
    (∃ sts, nbFitHistory (mnbStep a p) [] (fun _ => true) model hist = some sts ∧
      sts.length = hist.length) ∧
    ∀ (st : MState α) (c : Nat), (lookup c (mnbStep a p st [])).map mProj = (lookup c st).map mProj := by
  obtain ⟨sts, h1, h2, _⟩ := nbFitHistory_ok (mnbStep a p) [] (fun _ => true) hist (by simp) model
  exact ⟨⟨sts, h1, h2⟩, fun st c => mnbStep_absent_class a p st [] c (by simp [rowsOf])⟩

/-- **… and a batch that fails the guard turns the whole loop into the error** -/
theorem nb_fit_history_guard {σ : Type} (step : σ → Batch α → σ) (e : σ) (guard : Batch α → Bool)
    (hist : List (Batch α)) (hg : ∃ b ∈ hist, guard b = false) (model : Option σ) :
    nbFitHistory step e guard model hist = none :=
  nbFitHistory_err step e guard hist hg model

example : (nbFitHistory (gnbStep (0 : Rat) 1) [] (nbGuard 1) none [[([1], 7)], [([2], 9)]]).map (·.length) = some 2 ∧
    (nbFitHistory (gnbStep (0 : Rat) 1) [] (nbGuard 1) none [[([1], 7)], []]).isNone = true ∧
    (nbFitHistory (mnbStep (1 : Rat) 1) [] (fun _ => true) none [[([1], 7)], []]).map (·.length) = some 2 ∧
    (∀ b ∈ ([[([1], 7)], [([2], 9)]] : List (Batch Rat)), nbGuard 1 b = true) := by decide +kernel

/-- **k-means, the caller's loop** (`Ok(m) | Err(NotConverged(m)) => Some(m)`) is the trace from the
incoming model; `None` is the precomputed centroids with `cluster_count = 0`, and the initial
centroids of the parameters play no role once a model exists -/
theorem km_fit_history_is_run [Transc α] (m : Metric) (tol : α) (c0 : List (List α))
    (hist : List (List (List α))) (model : Option (KState α)) :
    kmFitHistory m tol c0 model hist = kmRunBy m tol (model.getD (kmFresh c0)) hist ∧
    ∀ (c0' : List (List α)) (s : KState α),
      kmFitHistory m tol c0 (some s) hist = kmFitHistory m tol c0' (some s) hist := by
  refine ⟨kmFitHistory_eq_run m tol c0 hist model, ?_⟩
  intro c0' s
  rw [kmFitHistory_eq_run, kmFitHistory_eq_run]; rfl

example : (kmFitHistory .l1 (1 / 2 : Rat) [[0]] none [[[1]], [[5 / 3]]]).map (·.2.1) = [false, true] := by
  decide +kernel

/-- **FTRL, the caller's loop**: one model per batch, the last one is the step folded over the
history from the incoming model; `None` is `Ftrl::new` (the drawn `z`, `n = 0`) -/
theorem ftrl_fit_history_is_run [Transc α] (m : α) (r32 : α → α) (hp : FtrlHp α) (z0 : List α)
    (hist : List (List (List α) × List Bool)) (model : Option (FState α)) :
    (ftrlFitHistory m r32 hp z0 model hist).length = hist.length ∧
    (ftrlFitHistory m r32 hp z0 model hist).getLastD (model.getD (ftrlFresh z0)) =
      ftrlRun m r32 hp z0.length (model.getD (ftrlFresh z0)) hist :=
  ftrlFitHistory_last m r32 hp z0 hist model

example : ((ftrlFitHistory (35 : Rat) id ⟨1, 1, 1 / 2, 1⟩ [1 / 4, 3 / 4] none
    [([[1, 0]], [true]), ([[0, 1], [1, 1]], [false, true])]).map (·.n.length)) = [2, 2] := by decide +kernel


/-! ## audit 2: statements about the functions the driver runs (bridges, glue, explicit witnesses) -/

/-- **the index `closest_centroid` returns denotes a nearest centroid**: it is in range, the centroid at
that index is at the returned (r)distance, and no centroid is nearer — so the cluster a point is assigned
to (`kmAssignBy`, the first component) is a minimiser, not only the returned distance a minimum -/
theorem km_assigned_centroid_is_nearest (m : Metric) (cs : List (List α)) (x : List α) (h : cs ≠ []) :
    ∃ c, cs[(closestBy m cs x).1]? = some c ∧ rdistBy m c x = (closestBy m cs x).2 ∧
      ∀ c' ∈ cs, rdistBy m c x ≤ rdistBy m c' x := by
  obtain ⟨c, h1, h2⟩ := closestBy_at m cs x h
  exact ⟨c, h1, h2, fun c' hc' => by rw [h2]; exact closestBy_le m cs x c' hc'⟩

example : ([[0, 0], [1, 2], [1, 0]] : List (List Rat)) ≠ [] ∧
    closestBy .linf [[0, 0], [1, 2], [1, 0]] ([1, 1] : List Rat) = (0, 1) := by decide +kernel

/-- **the L2 trace of the step the driver runs is the trace of `kmStep`** over a whole history (states and
verdicts), so every theorem about `kmStep` / `kmRun` / `closest` is about what the correspondence compares -/
theorem km_l2_trace_is_kmRun [Transc α] (tol : α) (st : KState α) (hist : List (List (List α))) :
    (kmRunBy .l2 tol st hist).map (fun r => (r.1, r.2.1)) = kmRun tol st hist :=
  kmRunBy_l2 tol hist st

example : ((kmRunBy .l2 (1 : Rat) ⟨[[0]], [0]⟩ [[[1]], [[5 / 3]]]).map (fun r => (r.1.counts, r.2.1))) =
    (kmRun (1 : Rat) ⟨[[0]], [0]⟩ [[[1]], [[5 / 3]]]).map (fun r => (r.1.counts, r.2)) := by decide +kernel

/-- **`fit_with(None, ..)` with `n_runs` initialisation runs continues a candidate of lowest cost**: the
trace the driver answers the `km_initfit` request with (through `kmFitInitHistory`, i.e. through
`pickInit`) is the mini-batch trace started, with `cluster_count = 0`, from one of the candidates, and
that candidate's cost on the first batch is at most every candidate's; with at least one candidate there
is a trace -/
theorem km_init_fit_continues_lowest_cost_candidate [Transc α] (m : Metric) (tol : α)
    (cands : List (List (List α))) (first : List (List α)) (rest : List (List (List α))) :
    (cands ≠ [] → (kmFitInitHistory m tol cands (first :: rest)).isSome = true) ∧
    ∀ tr, kmFitInitHistory m tol cands (first :: rest) = some tr →
      ∃ c ∈ cands, (∀ c' ∈ cands, kmInitCost m first c ≤ kmInitCost m first c') ∧
        tr = kmRunBy m tol (kmFresh c) (first :: rest) :=
  ⟨kmFitInitHistory_isSome m tol cands (first :: rest),
    fun tr h => kmFitInitHistory_spec m tol cands first rest tr h⟩

/-- three candidates with costs 4, 1, 1 on the first batch `[[1], [3]]`: the last of the cheapest is kept -/
example : (kmFitInitHistory .l1 (1 / 2 : Rat) [[[0]], [[2]], [[3]]] [[[1], [3]]]).map
    (fun tr => tr.map (·.1.centroids)) = some [[[2]]] ∧
    ([[[0]], [[2]], [[3]]] : List (List (List Rat))).map (kmInitCost .l1 [[1], [3]]) = [4, 2, 2] := by
  decide +kernel

/-- **the hyper-parameters of the carried model are the ones used**: a history of `fit_with` calls whose
parameters carry possibly different hyper-parameters per call produces exactly the models of the
caller's loop run entirely with the hyper-parameters of the FIRST call (copied into the model by
`Ftrl::new`); from an incoming model it is the loop with the model's own — the parameters' values play
no role once a model exists -/
theorem ftrl_fit_uses_carried_hyperparameters [Transc α] (max35 : α) (r32 : α → α) (z0 : List α) :
    (∀ (hp1 : FtrlHp α) (b : List (List α) × List Bool)
        (rest : List (FtrlHp α × (List (List α) × List Bool))),
      ftrlFitHistoryM max35 r32 z0 none ((hp1, b) :: rest) =
        (ftrlFitHistory max35 r32 hp1 z0 none (b :: rest.map (·.2))).map (fun s => ⟨hp1, s⟩)) ∧
    ∀ (m0 : FModel α) (hist : List (FtrlHp α × (List (List α) × List Bool))),
      ftrlFitHistoryM max35 r32 z0 (some m0) hist =
        (ftrlFitHistory max35 r32 m0.hp z0 (some m0.st) (hist.map (·.2))).map (fun s => ⟨m0.hp, s⟩) :=
  ⟨fun hp1 b rest => ftrlFitHistoryM_none max35 r32 z0 hp1 b rest,
    fun m0 hist => ftrlFitHistoryM_some max35 r32 z0 hist m0⟩

example : ((ftrlFitHistoryM (35 : Rat) id [1 / 4, 3 / 4] none
      [(⟨1, 1, 1 / 2, 1⟩, ([[1, 0]], [true])), (⟨2, 0, 0, 0⟩, ([[0, 1], [1, 1]], [false, true]))]).map (·.st.n)) =
    (ftrlFitHistory (35 : Rat) id ⟨1, 1, 1 / 2, 1⟩ [1 / 4, 3 / 4] none
      [([[1, 0]], [true]), ([[0, 1], [1, 1]], [false, true])]).map (·.n) := by decide +kernel

/-- **the gradients of a history, written out**: a history of `fit_with` calls is the fold of
`update_params` over the gradient vectors `ftrlGradSeq` — one per batch, computed by
`calculate_gradient` from the probabilities the state BEFORE the batch predicts — and component `j` of
such a vector is `Σ_i (p_i − y_i)·x_ij` (`diff.dot(x)`) -/
theorem ftrl_history_gradients_explicit [Transc α] (m : α) (r32 : α → α) (hp : FtrlHp α) (p : Nat)
    (st : FState α) (hist : List (List (List α) × List Bool)) :
    ftrlRun m r32 hp p st hist = (ftrlGradSeq m r32 hp p st hist).foldl (ftrlUpdate hp) st ∧
    (ftrlGradSeq m r32 hp p st hist).length = hist.length ∧
    ∀ (probs : List α) (xs : List (List α)) (ys : List Bool) (j : Nat), j < p →
      (ftrlGradient p probs xs ys)[j]? =
        some (dotS (List.zipWith (fun pr (y : Bool) => pr - (if y then 1 else 0)) probs ys) (column j xs)) :=
  ⟨(ftrlRun_eq_fold_gradSeq m r32 hp p hist st).1, (ftrlRun_eq_fold_gradSeq m r32 hp p hist st).2,
    fun probs xs ys j hj => ftrlGradient_getElem p probs xs ys j hj⟩

example : ftrlGradient 2 ([1 / 2, 1 / 4] : List Rat) [[1, 0], [2, 4]] [true, false] = [0, 1] := by
  decide +kernel

/-- **when the closed form's denominator is positive**: `alpha > 0`, `beta ≥ 0`, `l2 ≥ 0`, a non-negative
square root, and `√n + beta > 0` or `l2 > 0`.  `FtrlParams::check` guarantees only `alpha ≥ 0`,
`beta ≥ 0`, `0 ≤ l1, l2 ≤ 1`: `alpha > 0` and "`beta`, `l2`, `n` not all zero" are ASSUMPTIONS of
`ftrl_zero_iff` and `ftrl_weight_is_proximal_minimiser` (see `ftrl_zero_iff_needs_denominator`) -/
theorem ftrl_denominator_pos [Transc α] (hp : FtrlHp α) (n : α) (ha : 0 < hp.alpha) (hb : 0 ≤ hp.beta)
    (hl : 0 ≤ hp.l2) (hs : 0 ≤ Transc.sqrt n) (hne : 0 < Transc.sqrt n + hp.beta ∨ 0 < hp.l2) :
    0 < (Transc.sqrt n + hp.beta) / hp.alpha + hp.l2 := by
  rcases hne with h | h
  · have := div_pos h ha; linarith
  · have : 0 ≤ (Transc.sqrt n + hp.beta) / hp.alpha := div_nonneg (by linarith) ha.le
    linarith

example : (0 : Rat) < (⟨1 / 200, 0, 1 / 2, 1 / 2⟩ : FtrlHp Rat).alpha ∧
    ((0 : Rat) < Transc.sqrt 0 + (⟨1 / 200, 0, 1 / 2, 1 / 2⟩ : FtrlHp Rat).beta ∨
      (0 : Rat) < (⟨1 / 200, 0, 1 / 2, 1 / 2⟩ : FtrlHp Rat).l2) := by decide +kernel

/-- **the denominator hypothesis cannot be dropped**: `beta = l2 = 0` passes `FtrlParams::check`, and on a
fresh model (`n = 0`) the closed form divides by zero.  In field arithmetic (`x / 0 = 0`) the weight of
`z = 1/2 > l1 = 1/4` is then 0, so "zero only where |z| ≤ l1" fails; in IEEE arithmetic the same weight
is −∞ (reproduced on the real code, oracle-only op `#ftrl_degenerate`).  "Zero wherever |z| ≤ l1"
(`ftrl_zero_of_le`) needs no hypothesis and holds there too. -/
theorem ftrl_zero_iff_needs_denominator :
    ftrlWeight (⟨1, 0, 1 / 4, 0⟩ : FtrlHp Rat) (1 / 2) 0 = 0 ∧ ¬ |(1 / 2 : Rat)| ≤ (⟨1, 0, 1 / 4, 0⟩ : FtrlHp Rat).l1 ∧
    (Transc.sqrt (0 : Rat) + (⟨1, 0, 1 / 4, 0⟩ : FtrlHp Rat).beta) / (⟨1, 0, 1 / 4, 0⟩ : FtrlHp Rat).alpha +
      (⟨1, 0, 1 / 4, 0⟩ : FtrlHp Rat).l2 = 0 := by
  refine ⟨by decide +kernel, ?_, by decide +kernel⟩
  rw [abs_of_pos (by norm_num)]; norm_num

/-! ### naive Bayes: the incremental MODEL is the batch model, hence the same predictions where untied -/

/-- two Gaussian models over the same data whose class statistics agree are the same records, priors included -/
theorem gnb_model_eq_of_stats_eq (vs : α) (p : Nat) (h1 h2 : List (Batch α))
    (hf : h1.flatten = h2.flatten) (c : Nat)
    (hproj : (lookup c (gnbRun vs p h1)).map gProj = (lookup c (gnbRun vs p h2)).map gProj) :
    lookup c (gnbRun vs p h1) = lookup c (gnbRun vs p h2) := by
  cases e1 : lookup c (gnbRun vs p h1) with
  | none =>
    cases e2 : lookup c (gnbRun vs p h2) with
    | none => rfl
    | some j => rw [e1, e2] at hproj; simp at hproj
  | some i =>
    cases e2 : lookup c (gnbRun vs p h2) with
    | none => rw [e1, e2] at hproj; simp at hproj
    | some j =>
      rw [e1, e2] at hproj
      simp only [Option.map_some, Option.some.injEq, gProj, Prod.mk.injEq] at hproj
      obtain ⟨_, a2⟩ := gnb_counts_priors vs p h1 c i e1
      obtain ⟨_, b2⟩ := gnb_counts_priors vs p h2 c j e2
      rw [hf] at a2
      obtain ⟨ic, ip, it, is⟩ := i
      obtain ⟨jc, jp, jt, js⟩ := j
      simp only at hproj a2 b2
      obtain ⟨q1, q2, q3⟩ := hproj
      subst q1 q2 q3
      rw [a2, b2]

/-- **Gaussian NB, `var_smoothing = 0`: batch-by-batch fitting yields the same MODEL as one fit on the
whole data** — every class record (count, prior, means, variances) is the same, class-incomplete batches
included; a class neither model has seen is in neither -/
theorem gnb_incremental_model_eq_batch_model (p : Nat) (hist : List (Batch α)) (c : Nat) :
    lookup c (gnbRun (0 : α) p hist) = lookup c (gnbRun 0 p [hist.flatten]) :=
  gnb_model_eq_of_stats_eq 0 p hist [hist.flatten] (by simp) c (gnb_incremental_eq_batch p hist c)

/-- the same for every `var_smoothing` when the batches share the epsilon of the whole data -/
theorem gnb_incremental_model_eq_batch_model_of_uniform_eps (vs : α) (p : Nat) (hist : List (Batch α))
    (c : Nat) (he : ∀ b ∈ hist, gnbEps vs p b = gnbEps vs p hist.flatten) :
    lookup c (gnbRun vs p hist) = lookup c (gnbRun vs p [hist.flatten]) := by
  apply gnb_model_eq_of_stats_eq vs p hist [hist.flatten] (by simp) c
  by_cases hc : rowsOf c hist.flatten = []
  · rw [gnb_replay_any_smoothing, gnb_replay_any_smoothing]
    simp [gnbStatsSm, hc]
  · exact (gnb_incremental_eq_batch_of_uniform_eps vs p hist c hc he).2

example : (lookup 7 (gnbRun (0 : Rat) 2 [[([1, 2], 7), ([0, 0], 3)], [([3, 6], 7)]])).map
      (fun i => (i.count, i.prior, i.theta, i.sigma)) =
    (lookup 7 (gnbRun (0 : Rat) 2 [[([1, 2], 7), ([0, 0], 3), ([3, 6], 7)]])).map
      (fun i => (i.count, i.prior, i.theta, i.sigma)) := by decide +kernel

/-- **multinomial NB: batch-by-batch fitting yields the same MODEL as one fit on the whole data** -/
theorem mnb_incremental_model_eq_batch_model [Transc α] (a : α) (p : Nat) (hist : List (Batch α)) (c : Nat) :
    lookup c (mnbRun a p hist) = lookup c (mnbRun a p [hist.flatten]) := by
  have hproj := mnb_incremental_eq_batch a p hist c
  cases e1 : lookup c (mnbRun a p hist) with
  | none =>
    cases e2 : lookup c (mnbRun a p [hist.flatten]) with
    | none => rfl
    | some j => rw [e1, e2] at hproj; simp at hproj
  | some i =>
    cases e2 : lookup c (mnbRun a p [hist.flatten]) with
    | none => rw [e1, e2] at hproj; simp at hproj
    | some j =>
      rw [e1, e2] at hproj
      simp only [Option.map_some, Option.some.injEq, mProj, Prod.mk.injEq] at hproj
      obtain ⟨_, a2⟩ := mnb_counts_priors a p hist c i e1
      obtain ⟨_, b2⟩ := mnb_counts_priors a p [hist.flatten] c j e2
      simp only [List.flatten_cons, List.flatten_nil, List.append_nil] at b2
      obtain ⟨ic, ip, it, is⟩ := i
      obtain ⟨jc, jp, jt, js⟩ := j
      simp only at hproj a2 b2
      obtain ⟨q1, q2, q3⟩ := hproj
      subst q1 q2 q3
      rw [a2, b2]

/-- **a prediction moves to any model with the same records**: if two models hold the same record for
every class (e.g. the incremental and the batch model above), the class the first one predicts is stored
in the second and maximises the SECOND model's joint log-likelihood (whatever the storage order) -/
theorem nb_predict_maximises_equal_model {ι : Type} (jll : ι → List α → α) (st1 st2 : List (Nat × ι))
    (x : List α) (hk : (keys st1).Nodup) (heq : ∀ c, lookup c st1 = lookup c st2) (c : Nat)
    (h : nbPredict jll st1 x = some c) :
    ∃ info, lookup c st2 = some info ∧
      ∀ c' info', lookup c' st2 = some info' → jll info' x ≤ jll info x := by
  obtain ⟨info, hmem, hmax⟩ := nb_predict_is_argmax_posterior jll st1 x c h
  refine ⟨info, ?_, ?_⟩
  · rw [← heq]; exact lookup_of_mem_nodup c info st1 hk hmem
  · intro c' info' h'
    rw [← heq] at h'
    exact hmax (c', info') (mem_of_lookup c' info' st1 h')

/-- **hence the same predictions wherever the posterior is not tied**: two models with the same records
predict the same class at every query at which no two stored classes have equal joint log-likelihood -/
theorem nb_predictions_agree_where_untied {ι : Type} (jll : ι → List α → α) (st1 st2 : List (Nat × ι))
    (x : List α) (hk1 : (keys st1).Nodup) (hk2 : (keys st2).Nodup)
    (heq : ∀ c, lookup c st1 = lookup c st2) (c c' : Nat)
    (h1 : nbPredict jll st1 x = some c) (h2 : nbPredict jll st2 x = some c')
    (huntied : ∀ c₁ i₁ c₂ i₂, lookup c₁ st2 = some i₁ → lookup c₂ st2 = some i₂ → c₁ ≠ c₂ →
      jll i₁ x ≠ jll i₂ x) : c = c' := by
  obtain ⟨i, hi, himax⟩ := nb_predict_maximises_equal_model jll st1 st2 x hk1 heq c h1
  obtain ⟨i', hmem', hmax'⟩ := nb_predict_is_argmax_posterior jll st2 x c' h2
  have hi' := lookup_of_mem_nodup c' i' st2 hk2 hmem'
  by_contra hne
  have a := himax c' i' hi'
  have b := hmax' (c, i) (mem_of_lookup c i st2 hi)
  exact huntied c i c' i' hi hi' hne (le_antisymm b a)

/-- **Gaussian NB (`var_smoothing = 0`): the incremental model predicts what the single fit predicts
wherever the batch posterior is not tied** — the statement's "hence the same predictions", for the score
function `gnbJll` the driver runs -/
theorem gnb_incremental_predicts_as_batch [Transc α] (twoPi half : α) (p : Nat) (hist : List (Batch α))
    (x : List α) (c c' : Nat)
    (h1 : nbPredict (gnbJll twoPi half) (gnbRun 0 p hist) x = some c)
    (h2 : nbPredict (gnbJll twoPi half) (gnbRun 0 p [hist.flatten]) x = some c')
    (huntied : ∀ c₁ i₁ c₂ i₂, lookup c₁ (gnbRun (0 : α) p [hist.flatten]) = some i₁ →
      lookup c₂ (gnbRun (0 : α) p [hist.flatten]) = some i₂ → c₁ ≠ c₂ →
      gnbJll twoPi half i₁ x ≠ gnbJll twoPi half i₂ x) : c = c' :=
  nb_predictions_agree_where_untied _ _ _ x (gnb_keys_unique 0 p hist) (gnb_keys_unique 0 p [hist.flatten])
    (gnb_incremental_model_eq_batch_model p hist) c c' h1 h2 huntied

/-- **multinomial NB: the incremental model predicts what the single fit predicts wherever untied** -/
theorem mnb_incremental_predicts_as_batch [Transc α] (a : α) (p : Nat) (hist : List (Batch α))
    (x : List α) (c c' : Nat)
    (h1 : nbPredict mnbJll (mnbRun a p hist) x = some c)
    (h2 : nbPredict mnbJll (mnbRun a p [hist.flatten]) x = some c')
    (huntied : ∀ c₁ i₁ c₂ i₂, lookup c₁ (mnbRun a p [hist.flatten]) = some i₁ →
      lookup c₂ (mnbRun a p [hist.flatten]) = some i₂ → c₁ ≠ c₂ → mnbJll i₁ x ≠ mnbJll i₂ x) : c = c' :=
  nb_predictions_agree_where_untied _ _ _ x (mnbRun_keys_nodup a p hist) (mnbRun_keys_nodup a p [hist.flatten])
    (mnb_incremental_model_eq_batch_model a p hist) c c' h1 h2 huntied

/-- two batches vs one fit, a query at which the two classes score differently: same prediction -/
example : nbPredict mnbJll (mnbRun (1 : Rat) 2 [[([1, 2], 7), ([0, 1], 3)], [([3, 0], 7)]]) [2, 0] =
    nbPredict mnbJll (mnbRun (1 : Rat) 2 [[([1, 2], 7), ([0, 1], 3), ([3, 0], 7)]]) [2, 0] := by
  decide +kernel

/-- the "not tied" hypothesis is satisfiable: at that query the two stored classes score differently -/
example : ((mnbRun (1 : Rat) 2 [[([1, 2], 7), ([0, 1], 3), ([3, 0], 7)]]).map fun ci => mnbJll ci.2 [2, 0]).Nodup ∧
    (keys (mnbRun (1 : Rat) 2 [[([1, 2], 7), ([0, 1], 3)], [([3, 0], 7)]])).Nodup := by decide +kernel

/-- **the textbook model the driver answers `gnb_batch` requests with is the single fit**: for every
class, the record of `gnbTextbookState` (frequency, means, variances + `var_smoothing · max_j Var_j`)
has the statistics `fit` stores — so a disagreement on `gnb_batch` means a single `fit` is no longer the
textbook estimate -/
theorem gnb_textbook_state_is_single_fit (vs : α) (p : Nat) (d : Batch α) (c : Nat) :
    (lookup c (gnbTextbookState vs p d)).map gProj = (lookup c (gnbRun vs p [d])).map gProj := by
  have hl : lookup c (gnbTextbookState vs p d) =
      if c ∈ labelsOf d then some (gnbTextbook vs p d c) else none := by
    unfold gnbTextbookState
    induction labelsOf d with
    | nil => simp [lookup]
    | cons k L ih =>
      simp only [List.map_cons, lookup, List.mem_cons]
      by_cases hk : k = c
      · simp [hk]
      · have hk' : ¬ c = k := fun h => hk h.symm
        simp only [hk, if_false, ih, hk', false_or]
  rw [hl]
  by_cases hc : rowsOf c d = []
  · have : ¬ c ∈ labelsOf d := by rw [mem_labelsOf]; simpa using hc
    rw [if_neg this, gnb_replay_any_smoothing]
    simp [gnbStatsSm, hc]
  · have : c ∈ labelsOf d := by rw [mem_labelsOf]; exact hc
    rw [if_pos this, gnb_single_fit_is_textbook vs p d c hc]; rfl

example : (lookup 7 (gnbTextbookState (1 / 2 : Rat) 1 [([1], 7), ([0], 3), ([3], 7)])).map gProj =
    some (2, [2], [1 + 1 / 2 * (14 / 9)]) := by decide +kernel

end Field

/-! ## over the reals: the multinomial log-frequencies are logarithms of the textbook frequencies -/

section Reals
attribute [local instance] LinfaSpec.Incremental.transcReal

/-- **additively smoothed feature frequencies**: with the real `ln`, the exponential of the stored
log-frequency of feature `j` is `(N_j + α) / Σ_k (N_k + α)` whenever the smoothed counts are positive
(`α > 0`, or `α = 0` and every feature seen) — the textbook estimate -/
theorem mnb_log_prob_is_log_of_smoothed_frequency (a : ℝ) (fc : List ℝ)
    (hpos : ∀ x ∈ fc, 0 < x + a) (j : Nat) (x : ℝ) (hj : fc[j]? = some x) :
    ((mnbLogProb a fc).map Real.exp)[j]? =
      some ((x + a) / sumS (fc.map (· + a))) :=
  mnbLogProb_exp a fc hpos j x hj

example : (∀ x ∈ ([4, 2, 0] : List ℝ), 0 < x + 1) ∧ ([4, 2, 0] : List ℝ)[1]? = some 2 := by
  constructor
  · intro x hx; simp at hx; rcases hx with rfl | rfl | rfl <;> norm_num
  · rfl

/-- **the Gaussian score is the log of the posterior's numerator**: `joint_log_likelihood` of a class with
prior `π`, means `θ_j` and variances `σ_j` at the query `x` is `ln π + Σ_j ln N(x_j; θ_j, σ_j)`, and for
`σ > 0` the exponential of such a term is the normal density `1/√(2πσ) · exp(−(x−θ)²/(2σ))` (`twoPi` is the
constant the code writes `2π`; only its positivity matters here) — so the arg-max of
`nb_predict_is_argmax_posterior` with `jll = gnbJll` maximises prior × likelihood -/
theorem gnb_jll_is_log_posterior (twoPi : ℝ) (l : List (ℝ × ℝ × ℝ)) (cnt : Nat) (prior : ℝ) :
    gnbJll twoPi (1 / 2) ⟨cnt, prior, l.map (·.2.1), l.map (·.2.2)⟩ (l.map (·.1)) =
      Real.log prior + sumS (l.map fun t => gaussLogPdf twoPi t.1 t.2.1 t.2.2) ∧
    ∀ x θ σ : ℝ, 0 < twoPi → 0 < σ →
      Real.exp (gaussLogPdf twoPi x θ σ) =
        1 / Real.sqrt (twoPi * σ) * Real.exp (-((x - θ) * (x - θ)) / (2 * σ)) :=
  ⟨gnbJll_eq twoPi l cnt prior, fun x θ σ hp hs => exp_gaussLogPdf twoPi x θ σ hp hs⟩

example : (0 : ℝ) < 6 ∧ (0 : ℝ) < 2 := by constructor <;> norm_num
end Reals

end LinfaSpec.Props.C15
