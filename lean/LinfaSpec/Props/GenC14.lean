import LinfaSpec.Gen.Vectors
import LinfaSpec.Model.Tree

/-!
# C14 — obligations about the impurity functions GENERATED from the Rust source

`LinfaSpec.Gen.Vectors.Tree` is regenerated from
`algorithms/linfa-trees/src/decision_trees/algorithm.rs` (`gini_impurity`, `entropy`, read on the
class weights in label order, i.e. on `sorted_frequencies(class_freq)`) on every check by
`tools/vec2lean.py`.  The theorems state that the generated text is the model's `Tree.gini` /
`Tree.entropyOf`, the functions the split-score theorems of C14 are about, in every scalar carrier
(also `Float32`, the carrier the driver runs them on).
-/
set_option linter.unusedSectionVars false
namespace LinfaSpec.Props.GenC14
open LinfaSpec LinfaSpec.Gen.Vectors

section generic
variable {β : Type} [Add β] [Sub β] [Mul β] [Div β] [Neg β] [LT β] [DecidableLT β] [LE β] [DecidableLE β]
  [DecidableEq β] [OfNat β 0] [OfNat β 1] [NatCast β] [OfScientific β] [Transc β]

/-- `gini_impurity`: `1 - Σ (f/n)²` with `n = Σ f`, both sums left to right -/
theorem gini_is_model (fs : List β) : Gen.Vectors.Tree.gini_impurity fs = LinfaSpec.Tree.gini fs := rfl

/-- `entropy`: `Σ (if p > 0 then -p·log2 p else 0)` over `p = f/n` -/
theorem entropy_is_model (lg2 : β → β) (fs : List β) :
    Gen.Vectors.Tree.entropy lg2 fs = LinfaSpec.Tree.entropyOf lg2 fs := by
  unfold Gen.Vectors.Tree.entropy LinfaSpec.Tree.entropyOf
  simp only [decide_eq_true_eq]

end generic

example : Gen.Vectors.Tree.gini_impurity ([6, 2, 0] : List Rat) = 3 / 8 := by decide +kernel

end LinfaSpec.Props.GenC14
