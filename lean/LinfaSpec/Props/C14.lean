import LinfaSpec.Proofs.Tree

/-!
# C14 — decision trees are well-formed, honour their limits and predict leaf majorities

Theorems about `LinfaSpec.Tree` (the model of `TreeNode::fit`, `prune`, `make_prediction`,
`feature_importance`).  `fit P D ord p = some t` means: the call returns the tree `t`
(no `assert!` fired).  `ord` is the hash map's iteration order — every statement holds for
every order.  Per-node statements use `ForallSplits` / `ForallLeaves`: the predicate holds at
every split node / leaf *with the set of training rows that reach it* when each split sends
`value <= split` to the left.
-/
set_option linter.unusedSectionVars false
set_option linter.unusedVariables false
namespace LinfaSpec.Props.C14
open LinfaSpec LinfaSpec.Tree

section generic
variable {α β : Type}
variable [Add α] [Sub α] [Div α] [Neg α] [LT α] [DecidableLT α] [LE α] [DecidableLE α]
  [OfNat α 0] [NatCast α]
variable [Add β] [Sub β] [Mul β] [Div β] [Neg β] [LT β] [DecidableLT β]
  [OfNat β 0] [OfNat β 1] [NatCast β]

theorem fit_inv (P : Params α β) (D : Data α β) (ord : List Nat → List Nat) (p : Nat) (t : Tree.Tree α)
    (h : fit P D ord p = some t) :
    ∃ u, fitNode P D ord (sortedAll D p) (fitFuel P D) (allMask D) 0 = some u ∧ t = (prune u).1 := by
  unfold fit at h
  split at h
  · exact absurd h (by simp)
  · rename_i u hu; exact ⟨u, hu, by simpa using h.symm⟩

/-- **no node is deeper than `max_depth`**, every `depth` field is the node's true depth, and a
split node lies strictly above `max_depth` (so `max_depth = 0` gives a single leaf) -/
theorem depth_le_max (P : Params α β) (D : Data α β) (ord : List Nat → List Nat) (p : Nat) (t : Tree.Tree α)
    (h : fit P D ord p = some t) : DepthOK P.maxDepth 0 t := by
  obtain ⟨u, hu, rfl⟩ := fit_inv P D ord p t h
  exact prune_depthOK _ _ _ (fitNode_depthOK P D ord _ _ _ _ _ hu (fun m _ => Nat.zero_le m))

/-- **every split node was reached by at least `min_weight_split` training rows** (the code
compares the number of rows, cast to `f32`) -/
theorem split_min_samples (P : Params α β) (D : Data α β) (ord : List Nat → List Nat) (p : Nat) (t : Tree.Tree α)
    (h : fit P D ord p = some t) :
    ForallSplits D (fun m _ _ _ => ¬ (((rowsOf m).length : Nat) : β) < P.minSplit) (allMask D) t := by
  obtain ⟨u, hu, rfl⟩ := fit_inv P D ord p t h
  refine prune_forallSplits D _ _ _ (fitNode_forallSplits P D ord _ _ ?_ _ _ _ _ hu)
  intro mask depth b hg _ _ _ _
  exact stopGuard_false_split P _ depth hg

/-- **every split node reports an impurity decrease that is not below
`min_impurity_decrease`** -/
theorem decrease_ge_min (P : Params α β) (D : Data α β) (ord : List Nat → List Nat) (p : Nat) (t : Tree.Tree α)
    (h : fit P D ord p = some t) :
    ForallSplits D (fun _ _ _ dec => ¬ dec < P.minDec) (allMask D) t := by
  obtain ⟨u, hu, rfl⟩ := fit_inv P D ord p t h
  refine prune_forallSplits D _ _ _ (fitNode_forallSplits P D ord _ _ ?_ _ _ _ _ hu)
  intro mask depth b _ _ hdec _ _
  exact hdec

/-- **both sides of a split that stays a split node received rows** -/
theorem split_sides_nonempty (P : Params α β) (D : Data α β) (ord : List Nat → List Nat) (p : Nat) (t : Tree.Tree α)
    (h : fit P D ord p = some t) :
    ForallSplits D (fun m f s _ => (rowsOf (leftMask D m f s)).isEmpty = false ∧
      (rowsOf (rightMask D m f s)).isEmpty = false) (allMask D) t := by
  obtain ⟨u, hu, rfl⟩ := fit_inv P D ord p t h
  refine prune_forallSplits D _ _ _ (fitNode_forallSplits P D ord _ _ ?_ _ _ _ _ hu)
  intro mask depth b _ _ _ hl hr
  exact ⟨hl, hr⟩

/- Full statement (not proved): the reported decrease is
`imp(rows of the node) - (wR/W * imp(rows with value > split) + wL/W * imp(rows with value <= split))`
and both `wL, wR ≥ min_weight_leaf`.
Proved below: the reported decrease and threshold are those of the sweep's best candidate,
whose recorded left/right weights are `≥ min_weight_leaf` (`sweep_cand_minLeaf`) and whose score
is computed from the sweep's running class weights.  Missing: the identification of the sweep's
running left/right class weights (a sorted prefix / suffix, accumulated by `+=`/`-=`) with the
class weights of `{value <= split}` / `{value > split}` — needs sortedness of `insSorted`,
`Perm`-invariance of `sumS` and `parent - prefix = suffix` over a field.  The correspondence
oracle recomputes exactly this on every fitted tree (clauses `decrease_actual`,
`min_weight_leaf`). -/
/-- the split a node reports is the best candidate of the sweep and the reported decrease is
`cast(impurity(parent)) - cast(best score)` -/
theorem reported_decrease_is_actual_partial (P : Params α β) (D : Data α β) (ord : List Nat → List Nat)
    (p : Nat) (t : Tree.Tree α) (h : fit P D ord p = some t) :
    ForallSplits D (fun m f s dec => ∃ b,
      pickBest (candidates P D (sortedAll D p) m (freqOf D (rowsOf m))) = some b ∧
      f = b.feat ∧ s = b.split ∧
      dec = P.cast (impurity P (inLabelOrder D (freqOf D (rowsOf m)))) - P.cast b.score) (allMask D) t := by
  obtain ⟨u, hu, rfl⟩ := fit_inv P D ord p t h
  refine prune_forallSplits D _ _ _ (fitNode_forallSplits P D ord _ _ ?_ _ _ _ _ hu)
  intro mask depth b _ hb _ _ _
  exact ⟨b, hb, rfl, rfl, rfl⟩

/-- every candidate the sweep evaluates has at least `min_weight_leaf` on both sides (in the
loop's running weights) -/
theorem sweep_cand_minLeaf (P : Params α β) (D : Data α β) (mask : List Bool) (f : Nat) (total : β) :
    ∀ (s : List (Nat × α)) (fL fR : List β) (wL wR : β) (c : Cand α β),
      c ∈ sweepGo P D mask f total fL fR wL wR s → ¬ c.wR < P.minLeaf ∧ ¬ c.wL < P.minLeaf := by
  intro s
  induction s with
  | nil => intro fL fR wL wR c hc; simp [sweepGo] at hc
  | cons x xs ih =>
    intro fL fR wL wR c hc
    cases xs with
    | nil => simp [sweepGo] at hc
    | cons y ys =>
      obtain ⟨i, v⟩ := x
      obtain ⟨j, v'⟩ := y
      unfold sweepGo at hc
      split at hc
      · simp only at hc
        split at hc
        · exact ih _ _ _ _ c hc
        · split at hc
          · exact ih _ _ _ _ c hc
          · rename_i hml
            rcases List.mem_cons.mp hc with hc | hc
            · subst hc
              simp only
              exact not_or.mp hml
            · exact ih _ _ _ _ c hc
      · exact ih _ _ _ _ c hc

/-- **prediction takes the route of fitting**: `make_prediction` makes the same comparison
(`value <= split`) at every node as `fit` used to distribute the rows, so every row — in
particular every training row — ends in the leaf it was assigned while fitting, and the
prediction is that leaf's -/
theorem routing_consistent (row : List α) (t : Tree.Tree α) :
    routePredict row t = routeFit row t ∧ predict row t = leafPred (follow (routeFit row t) t) :=
  ⟨routePredict_eq_routeFit row t, predict_eq_follow row t⟩

end generic

/-- **each leaf of the unpruned tree predicts a weighted most frequent label of the training
rows reaching it, and that label occurs among them** (`_partial`: stated for the tree before
`prune`; for pruned leaves see `prune_keeps_mode`).  `hord`: the iteration order lists keys of
the map only. -/
theorem leaf_predicts_a_mode_partial {α β : Type}
    [Add α] [Sub α] [Div α] [Neg α] [LT α] [DecidableLT α] [LE α] [DecidableLE α] [OfNat α 0] [NatCast α]
    [LinearOrder β] [Add β] [Sub β] [Mul β] [Div β] [Neg β] [OfNat β 0] [OfNat β 1] [NatCast β]
    (P : Params α β) (D : Data α β) (ord : List Nat → List Nat)
    (hord : ∀ l c, c ∈ ord l ↔ c ∈ l) (p : Nat) (u : Tree.Tree α)
    (hu : fitNode P D ord (sortedAll D p) (fitFuel P D) (allMask D) 0 = some u) (hno : NoHalf u) :
    ForallLeaves D (fun m pred =>
      (∃ i ∈ rowsOf m, D.y i = pred) ∧
      ∀ c ∈ presentClasses D (rowsOf m), classWeight D (rowsOf m) c ≤ classWeight D (rowsOf m) pred)
      (allMask D) u := by
  refine fitNode_forallLeaves P D ord _ _ ?_ _ _ _ _ hu ?_ hno
  · intro mask pred hm
    obtain ⟨h1, h2⟩ := modalOf_spec _ _ _ _ hm
    rw [hord] at h1
    refine ⟨?_, fun c hc => h2 c ((hord _ _).mpr hc)⟩
    simp only [presentClasses, List.mem_filter, List.any_eq_true, beq_iff_eq] at h1
    obtain ⟨_, i, hi, hy⟩ := h1
    exact ⟨i, hi, hy⟩
  · intro f s dec p' d il c hc
    rw [hc] at hno
    exact hno

/-- **pruning keeps the mode**: `prune` merges two sibling leaves only when they predict the same
label `x`; if `x` has maximal weight among the rows of the left leaf (`wl`) and among those of the
right leaf (`wr`), it has maximal weight among the rows of the merged leaf (class weights add up
over the two disjoint row sets) -/
theorem prune_keeps_mode {β : Type} [LinearOrder β] [Add β] [AddLeftMono β] [AddRightMono β]
    (wl wr : Nat → β) (x : Nat)
    (hl : ∀ c, wl c ≤ wl x) (hr : ∀ c, wr c ≤ wr x) : ∀ c, wl c + wr c ≤ wl x + wr x :=
  fun c => add_le_add (hl c) (hr c)

/-! ### non-vacuity: a concrete fit that returns a tree with two split levels

(scalars `Int`, so that `decide` can evaluate the model in the kernel; `/` is integer division) -/

def exP : Params Int Int :=
  { entropy := false, maxDepth := some 2, minSplit := 2, minLeaf := 1, minDec := 1, eps := 1,
    log2 := fun x => x, cast := id }
def exD : Data Int Int := { xs := [[0], [2], [4], [6]], ys := [0, 0, 1, 1], ws := [], K := 2, lord := [0, 1] }
def exT : Tree.Tree Int := .node 0 1 1 0 0 (.leaf 0 1) (.node 0 3 1 1 1 (.leaf 0 2) (.leaf 1 2))

/-- hypothesis `fit P D ord p = some t` of `depth_le_max`, `split_min_samples`, `decrease_ge_min`,
`split_sides_nonempty`, `reported_decrease_is_actual_partial` -/
example : fit exP exD id 1 = some exT := by decide
/-- hypotheses of `leaf_predicts_a_mode_partial` -/
example : fitNode exP exD id (sortedAll exD 1) (fitFuel exP exD) (allMask exD) 0 = some exT ∧ NoHalf exT ∧
    (∀ (l : List Nat) c, c ∈ id l ↔ c ∈ l) := by
  refine ⟨by decide, by simp [exT, NoHalf], fun _ _ => Iff.rfl⟩
/-- the sweep of `sweep_cand_minLeaf` evaluates candidates -/
example : (candidates exP exD (sortedAll exD 1) (allMask exD) (freqOf exD [0, 1, 2, 3])).length = 3 := by decide
/-- `routing_consistent` on a row that sits on a threshold -/
example : routePredict [3] exT = [false, true] ∧ predict [3] exT = 0 := by decide
/-- `prune_keeps_mode`: weights (2,1) and (3,3), label 0 -/
example : ∀ c, (fun c => if c = 0 then (2 : Int) else 1) c + (fun _ => (3 : Int)) c ≤ 2 + 3 := by
  intro c; by_cases h : c = 0 <;> simp [h]

end LinfaSpec.Props.C14
