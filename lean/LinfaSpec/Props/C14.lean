import LinfaSpec.Proofs.TreeRoute

/-!
# C14 — decision trees are well-formed, honour their limits and predict leaf majorities

Theorems about `LinfaSpec.Tree` (the model of `TreeNode::fit`, `prune`, `make_prediction`,
`feature_importance`, `iter_nodes`, `num_leaves`, `max_depth`).  `fit P D ord p = some t` means: the call returns the tree `t`
(no `assert!` fired).  `ord` is the hash map's iteration order — every statement holds for
every order, and `fit_order_irrelevant` shows the tree does not depend on it.  The first group of
theorems needs no hypothesis beyond `fit … = some t`; the second group (`Guards`) is over ordered
fields and assumes the statement's guards (`min_weight_leaf > 0`, class indices `< K`).  Per-node statements use `ForallSplits` / `ForallLeaves`: the predicate holds at
every split node / leaf *with the set of training rows that reach it* when each split sends
`value <= split` to the left.
-/
set_option linter.unusedSectionVars false
set_option linter.unusedVariables false
namespace LinfaSpec.Props.C14
open LinfaSpec LinfaSpec.Tree

section generic
variable {α β : Type}
variable [Add α] [Sub α] [Div α] [Neg α] [LT α] [DecidableLT α] [LE α] [DecidableLE α]
  [OfNat α 0] [NatCast α]
variable [Add β] [Sub β] [Mul β] [Div β] [Neg β] [LT β] [DecidableLT β]
  [OfNat β 0] [OfNat β 1] [NatCast β]

theorem fit_inv (P : Params α β) (D : Data α β) (ord : List Nat → List Nat) (p : Nat) (t : Tree.Tree α)
    (h : fit P D ord p = some t) :
    ∃ u, fitNode P D ord (sortedAll D p) (fitFuel P D) (allMask D) 0 = some u ∧ t = (prune u).1 := by
  unfold fit at h
  split at h
  · exact absurd h (by simp)
  · rename_i u hu; exact ⟨u, hu, by simpa using h.symm⟩

/-- **no node is deeper than `max_depth`**, every `depth` field is the node's true depth, and a
split node lies strictly above `max_depth` (so `max_depth = 0` gives a single leaf) -/
theorem depth_le_max (P : Params α β) (D : Data α β) (ord : List Nat → List Nat) (p : Nat) (t : Tree.Tree α)
    (h : fit P D ord p = some t) : DepthOK P.maxDepth 0 t := by
  obtain ⟨u, hu, rfl⟩ := fit_inv P D ord p t h
  exact prune_depthOK _ _ _ (fitNode_depthOK P D ord _ _ _ _ _ hu (fun m _ => Nat.zero_le m))

/-- **every split node was reached by at least `min_weight_split` training rows** (the code
compares the number of rows, cast to `f32`) -/
theorem split_min_samples (P : Params α β) (D : Data α β) (ord : List Nat → List Nat) (p : Nat) (t : Tree.Tree α)
    (h : fit P D ord p = some t) :
    ForallSplits D (fun m _ _ _ => ¬ (((rowsOf m).length : Nat) : β) < P.minSplit) (allMask D) t := by
  obtain ⟨u, hu, rfl⟩ := fit_inv P D ord p t h
  refine prune_forallSplits D _ _ _ (fitNode_forallSplits P D ord _ _ ?_ _ _ _ _ hu)
  intro mask depth b hg _ _ _ _
  exact stopGuard_false_split P _ depth hg

/-- **every split node reports an impurity decrease that is not below
`min_impurity_decrease`** -/
theorem decrease_ge_min (P : Params α β) (D : Data α β) (ord : List Nat → List Nat) (p : Nat) (t : Tree.Tree α)
    (h : fit P D ord p = some t) :
    ForallSplits D (fun _ _ _ dec => ¬ dec < P.minDec) (allMask D) t := by
  obtain ⟨u, hu, rfl⟩ := fit_inv P D ord p t h
  refine prune_forallSplits D _ _ _ (fitNode_forallSplits P D ord _ _ ?_ _ _ _ _ hu)
  intro mask depth b _ _ hdec _ _
  exact hdec

/-- **both sides of a split that stays a split node received rows** -/
theorem split_sides_nonempty (P : Params α β) (D : Data α β) (ord : List Nat → List Nat) (p : Nat) (t : Tree.Tree α)
    (h : fit P D ord p = some t) :
    ForallSplits D (fun m f s _ => (rowsOf (leftMask D m f s)).isEmpty = false ∧
      (rowsOf (rightMask D m f s)).isEmpty = false) (allMask D) t := by
  obtain ⟨u, hu, rfl⟩ := fit_inv P D ord p t h
  refine prune_forallSplits D _ _ _ (fitNode_forallSplits P D ord _ _ ?_ _ _ _ _ hu)
  intro mask depth b _ _ _ hl hr
  exact ⟨hl, hr⟩

/-- the split a node reports is the best candidate of the sweep (first of the minimal scores,
features outer, sorted positions inner) and the reported decrease is
`cast(impurity(parent)) - cast(best score)`; no hypothesis on the scalars.  That the score is the
weighted impurity of the applied partition is `reported_decrease_is_actual` below. -/
theorem reported_split_is_best_candidate (P : Params α β) (D : Data α β) (ord : List Nat → List Nat)
    (p : Nat) (t : Tree.Tree α) (h : fit P D ord p = some t) :
    ForallSplits D (fun m f s dec => ∃ b,
      pickBest (candidates P D (sortedAll D p) m (freqOf D (rowsOf m))) = some b ∧
      f = b.feat ∧ s = b.split ∧
      dec = P.cast (impurity P (inLabelOrder D (freqOf D (rowsOf m)))) - P.cast b.score) (allMask D) t := by
  obtain ⟨u, hu, rfl⟩ := fit_inv P D ord p t h
  refine prune_forallSplits D _ _ _ (fitNode_forallSplits P D ord _ _ ?_ _ _ _ _ hu)
  intro mask depth b _ hb _ _ _
  exact ⟨b, hb, rfl, rfl, rfl⟩

/-- every candidate the sweep evaluates has at least `min_weight_leaf` on both sides (in the
loop's running weights) -/
theorem sweep_cand_minLeaf (P : Params α β) (D : Data α β) (mask : List Bool) (f : Nat) (total : β) :
    ∀ (s : List (Nat × α)) (fL fR : List β) (wL wR : β) (c : Cand α β),
      c ∈ sweepGo P D mask f total fL fR wL wR s → ¬ c.wR < P.minLeaf ∧ ¬ c.wL < P.minLeaf := by
  intro s
  induction s with
  | nil => intro fL fR wL wR c hc; simp [sweepGo] at hc
  | cons x xs ih =>
    intro fL fR wL wR c hc
    cases xs with
    | nil => simp [sweepGo] at hc
    | cons y ys =>
      obtain ⟨i, v⟩ := x
      obtain ⟨j, v'⟩ := y
      unfold sweepGo at hc
      split at hc
      · simp only at hc
        split at hc
        · exact ih _ _ _ _ c hc
        · split at hc
          · exact ih _ _ _ _ c hc
          · rename_i hml
            rcases List.mem_cons.mp hc with hc | hc
            · subst hc
              simp only
              exact not_or.mp hml
            · exact ih _ _ _ _ c hc
      · exact ih _ _ _ _ c hc

/-- **prediction takes the route of fitting**: `make_prediction` makes the same comparison
(`value <= split`) at every node as `fit` used to distribute the rows, so every row — in
particular every training row — ends in the leaf it was assigned while fitting, and the
prediction is that leaf's -/
theorem routing_consistent (row : List α) (t : Tree.Tree α) :
    routePredict row t = routeFit row t ∧ predict row t = leafPred (follow (routeFit row t) t) :=
  ⟨routePredict_eq_routeFit row t, predict_eq_follow row t⟩

end generic

/-- each leaf of the *unpruned* tree predicts a maximal-weight class among the classes of its rows,
and that label occurs among them — for any linear order on the weights, no sign condition
(`leaf_predicts_a_mode` below is the statement for the fitted, pruned tree).  `hord`: the iteration
order lists keys of the map only. -/
theorem unpruned_leaf_predicts_a_mode {α β : Type}
    [Add α] [Sub α] [Div α] [Neg α] [LT α] [DecidableLT α] [LE α] [DecidableLE α] [OfNat α 0] [NatCast α]
    [LinearOrder β] [Add β] [Sub β] [Mul β] [Div β] [Neg β] [OfNat β 0] [OfNat β 1] [NatCast β]
    (P : Params α β) (D : Data α β) (ord : List Nat → List Nat)
    (hord : ∀ l c, c ∈ ord l ↔ c ∈ l) (p : Nat) (u : Tree.Tree α)
    (hu : fitNode P D ord (sortedAll D p) (fitFuel P D) (allMask D) 0 = some u) (hno : NoHalf u) :
    ForallLeaves D (fun m pred =>
      (∃ i ∈ rowsOf m, D.y i = pred) ∧
      ∀ c ∈ presentClasses D (rowsOf m), classWeight D (rowsOf m) c ≤ classWeight D (rowsOf m) pred)
      (allMask D) u := by
  refine fitNode_forallLeaves P D ord _ _ ?_ _ _ _ _ hu ?_ hno
  · intro mask pred hm
    obtain ⟨h1, h2⟩ := modalOf_spec _ _ _ _ hm
    rw [hord] at h1
    refine ⟨?_, fun c hc => h2 c ((hord _ _).mpr hc)⟩
    simp only [presentClasses, List.mem_filter, List.any_eq_true, beq_iff_eq] at h1
    obtain ⟨_, i, hi, hy⟩ := h1
    exact ⟨i, hi, hy⟩
  · intro f s dec p' d il c hc
    rw [hc] at hno
    exact hno

/-- **pruning keeps the mode**: `prune` merges two sibling leaves only when they predict the same
label `x`; if `x` has maximal weight among the rows of the left leaf (`wl`) and among those of the
right leaf (`wr`), it has maximal weight among the rows of the merged leaf (class weights add up
over the two disjoint row sets) -/
theorem prune_keeps_mode {β : Type} [LinearOrder β] [Add β] [AddLeftMono β] [AddRightMono β]
    (wl wr : Nat → β) (x : Nat)
    (hl : ∀ c, wl c ≤ wl x) (hr : ∀ c, wr c ≤ wr x) : ∀ c, wl c + wr c ≤ wl x + wr x :=
  fun c => add_le_add (hl c) (hr c)

/-! ### non-vacuity: a concrete fit that returns a tree with two split levels

(scalars `Int`, so that `decide` can evaluate the model in the kernel; `/` is integer division) -/

def exP : Params Int Int :=
  { entropy := false, maxDepth := some 2, minSplit := 2, minLeaf := 1, minDec := 1, eps := 1,
    log2 := fun x => x, cast := id }
def exD : Data Int Int := { xs := [[0], [2], [4], [6]], ys := [0, 0, 1, 1], ws := [], K := 2, lord := [0, 1] }
def exT : Tree.Tree Int := .node 0 1 1 0 0 (.leaf 0 1) (.node 0 3 1 1 1 (.leaf 0 2) (.leaf 1 2))

/-- hypothesis `fit P D ord p = some t` of `depth_le_max`, `split_min_samples`, `decrease_ge_min`,
`split_sides_nonempty`, `reported_split_is_best_candidate` -/
example : fit exP exD id 1 = some exT := by decide
/-- hypotheses of `unpruned_leaf_predicts_a_mode` -/
example : fitNode exP exD id (sortedAll exD 1) (fitFuel exP exD) (allMask exD) 0 = some exT ∧ NoHalf exT ∧
    (∀ (l : List Nat) c, c ∈ id l ↔ c ∈ l) := by
  refine ⟨by decide, by simp [exT, NoHalf], fun _ _ => Iff.rfl⟩
/-- the sweep of `sweep_cand_minLeaf` evaluates candidates -/
example : (candidates exP exD (sortedAll exD 1) (allMask exD) (freqOf exD [0, 1, 2, 3])).length = 3 := by decide
/-- `routing_consistent` on a row that sits on a threshold -/
example : routePredict [3] exT = [false, true] ∧ predict [3] exT = 0 := by decide
/-- `prune_keeps_mode`: weights (2,1) and (3,3), label 0 -/
example : ∀ c, (fun c => if c = 0 then (2 : Int) else 1) c + (fun _ => (3 : Int)) c ≤ 2 + 3 := by
  intro c; by_cases h : c = 0 <;> simp [h]


/-! ## Full statements over ordered fields (sweep = applied partition) -/

section full
variable {α β : Type} [Field α] [LinearOrder α] [IsStrictOrderedRing α]
variable [Field β] [LinearOrder β] [IsStrictOrderedRing β]

/-- the guards under which the full statements hold: the literal `1e-5` of the equal-value skip is
positive, `min_weight_leaf` is positive (the statement's guard; `ParamGuard` does not check it),
class indices are `< K` and `lord` lists the class indices `0..K-1` (in the label type's order) -/
structure Guards (P : Params α β) (D : Data α β) : Prop where
  eps_pos : 0 < P.eps
  minLeaf_pos : 0 < P.minLeaf
  classes : ∀ r, D.y r < D.K
  lord : D.lord.Perm (List.range D.K)

/-- **every split node has two children and no leaf keeps one**: the fitted tree consists of
`leaf` and two-children `node` constructors only -/
theorem split_has_two_children (P : Params α β) (D : Data α β) (ord : List Nat → List Nat) (p : Nat)
    (t : Tree.Tree α) (g : Guards P D) (h : fit P D ord p = some t) : NoHalf t := by
  obtain ⟨u, hu, rfl⟩ := fit_inv P D ord p t h
  exact prune_noHalf u (fitNode_noHalf P D ord p g.eps_pos g.minLeaf_pos g.classes g.lord _ _ _ u
    (length_allMask D) hu)

/-- **each side of every split carries at least `min_weight_leaf` of training weight** — the
weights of the rows actually routed left (`value <= split`) and right, not the sweep's running
numbers -/
theorem split_min_leaf_weight (P : Params α β) (D : Data α β) (ord : List Nat → List Nat) (p : Nat)
    (t : Tree.Tree α) (g : Guards P D) (h : fit P D ord p = some t) :
    ForallSplits D (fun m f s _ =>
      ¬ rwS D (rowsOf (leftMask D m f s)) < P.minLeaf ∧
      ¬ rwS D (rowsOf (rightMask D m f s)) < P.minLeaf) (allMask D) t := by
  obtain ⟨u, hu, rfl⟩ := fit_inv P D ord p t h
  refine prune_forallSplits D _ _ _ (fitNode_forallSplitsI P D ord _ (fun m => m.length = D.n)
    (fun m f s hm => by rw [length_leftMask]; exact hm) (fun m f s hm => by rw [length_rightMask]; exact hm)
    _ ?_ _ _ _ _ (length_allMask D) hu)
  intro mask depth b hlen _ hb _ _ _
  have hspec := candidates_spec P D mask p g.eps_pos g.classes g.lord hlen b (pickBest_mem _ _ hb)
  exact ⟨hspec.wL ▸ hspec.minL, hspec.wR ▸ hspec.minR⟩

/-- **the reported impurity decrease is the actual decrease of the criterion for the applied
split**: impurity of the node's rows minus the weighted mean (by training weight) of the impurities
of the rows routed right (`value > split`) and left (`value <= split`) -/
theorem reported_decrease_is_actual (P : Params α β) (D : Data α β) (ord : List Nat → List Nat) (p : Nat)
    (t : Tree.Tree α) (g : Guards P D) (h : fit P D ord p = some t) :
    ForallSplits D (fun m f s dec =>
      let share := rwS D (rowsOf (rightMask D m f s)) / rwS D (rowsOf m)
      dec = P.cast (impurity P (inLabelOrder D (freqOf D (rowsOf m)))) -
        P.cast (share * impurity P (inLabelOrder D (freqOf D (rowsOf (rightMask D m f s)))) +
          (1 - share) * impurity P (inLabelOrder D (freqOf D (rowsOf (leftMask D m f s))))))
      (allMask D) t := by
  obtain ⟨u, hu, rfl⟩ := fit_inv P D ord p t h
  refine prune_forallSplits D _ _ _ (fitNode_forallSplitsI P D ord _ (fun m => m.length = D.n)
    (fun m f s hm => by rw [length_leftMask]; exact hm) (fun m f s hm => by rw [length_rightMask]; exact hm)
    _ ?_ _ _ _ _ (length_allMask D) hu)
  intro mask depth b hlen _ hb _ _ _
  have hspec := candidates_spec P D mask p g.eps_pos g.classes g.lord hlen b (pickBest_mem _ _ hb)
  simp only [decOf]
  rw [hspec.score, hspec.fL, hspec.fR, hspec.wR]

/-- **each leaf of the fitted (pruned) tree predicts a weighted most frequent label of the
training rows reaching it, and that label occurs among them** (so only labels seen in training are
predicted).  `hw`: sample weights are non-negative; `hord`: the iteration order lists the keys of
the map. -/
theorem leaf_predicts_a_mode (P : Params α β) (D : Data α β) (ord : List Nat → List Nat)
    (hord : ∀ l c, c ∈ ord l ↔ c ∈ l) (p : Nat) (t : Tree.Tree α) (g : Guards P D)
    (hw : ∀ i, 0 ≤ D.w i) (h : fit P D ord p = some t) :
    ForallLeaves D (IsMode D) (allMask D) t := by
  obtain ⟨u, hu, rfl⟩ := fit_inv P D ord p t h
  have hno : NoHalf u := fitNode_noHalf P D ord p g.eps_pos g.minLeaf_pos g.classes g.lord _ _ _ u
    (length_allMask D) hu
  refine (prune_forallLeaves_mode D u _ hno ?_).1
  refine fitNode_forallLeaves P D ord _ _ ?_ _ _ _ _ hu ?_ hno
  · intro mask pred hm
    obtain ⟨h1, h2⟩ := modalOf_spec _ _ _ _ hm
    rw [hord] at h1
    have hpres := h1
    simp only [presentClasses, List.mem_filter, List.any_eq_true, beq_iff_eq] at h1
    obtain ⟨_, i, hi, hy⟩ := h1
    refine ⟨⟨i, hi, hy⟩, fun c => ?_⟩
    by_cases hc : c ∈ presentClasses D (rowsOf mask)
    · exact h2 c ((hord _ _).mpr hc)
    · have : classWeight D (rowsOf mask) c = 0 := by
        refine classWeight_absent D _ c ?_
        intro r hr hyc
        apply hc
        simp only [presentClasses, List.mem_filter, List.mem_range, List.any_eq_true, beq_iff_eq]
        exact ⟨hyc ▸ g.classes r, r, hr, hyc⟩
      rw [this]
      exact classWeight_nonneg D hw _ _
  · intro f s dec p' d il c hc
    rw [hc] at hno
    exact hno

end full

section importance
variable {α β : Type} [Field α] [LinearOrder α] [IsStrictOrderedRing α]
variable [Field β] [LinearOrder β] [IsStrictOrderedRing β]

/-- **feature importances are non-negative and sum to one whenever the tree has a split**
(features in one ordered field, weights and impurities in another — the `F` / `f32` mix of the code —
with any `cast` between them; `min_impurity_decrease > 0` is the guard of `ParamGuard`) -/
theorem importances_nonneg_sum_one (P : Params α β) (D : Data α β) (ord : List Nat → List Nat) (p : Nat)
    (t : Tree.Tree α) (g : Guards P D) (hmd : 0 < P.minDec) (h : fit P D ord p = some t)
    (hsplit : ∃ f s dec pr d l r, t = Tree.Tree.node f s dec pr d l r) :
    (∀ x ∈ importances t p, 0 ≤ x) ∧ sumS (importances t p) = 1 := by
  have hno := split_has_two_children P D ord p t g h
  have hdec : ForallSplits D (fun m f s dec => ¬ dec < P.minDec ∧ f < p) (allMask D) t := by
    obtain ⟨u, hu, rfl⟩ := fit_inv P D ord p t h
    refine prune_forallSplits D _ _ _ (fitNode_forallSplitsI P D ord _ (fun m => m.length = D.n)
      (fun m f s hm => by rw [length_leftMask]; exact hm) (fun m f s hm => by rw [length_rightMask]; exact hm)
      _ ?_ _ _ _ _ (length_allMask D) hu)
    intro mask depth b hlen _ hb hd _ _
    exact ⟨hd, (candidates_spec P D mask p g.eps_pos g.classes g.lord hlen b (pickBest_mem _ _ hb)).feat_lt⟩
  refine importances_spec t p P.minDec hmd ?_ hsplit
  intro n hn f s dec pr d l r he
  obtain ⟨m', h1, h2⟩ := forallSplits_allNodes D _ t _ hno hdec n hn f s dec pr d l r he
  exact ⟨not_lt.mp h1, h2⟩

/-- **`fit` returns a tree** for every non-empty labelled dataset under the guards: no `assert!` or
`unwrap` of `TreeNode::fit` fires and the recursion budget of the model (`fitFuel`) is never
exhausted — so the hypothesis `fit … = some t` of every other theorem is satisfied, none of them is
vacuous.  `0 < min_impurity_decrease` is what `ParamGuard` checks; `hord`: the hash map's iteration
order lists exactly its keys. -/
theorem fit_returns (P : Params α β) (D : Data α β) (ord : List Nat → List Nat)
    (hord : ∀ l c, c ∈ ord l ↔ c ∈ l) (p : Nat) (g : Guards P D) (hmd : 0 < P.minDec) (hn : 0 < D.n) :
    ∃ t, fit P D ord p = some t := by
  have hrows : rowsOf (allMask D) ≠ [] := by
    have : 0 ∈ rowsOf (allMask D) := (mem_rowsOf_allMask D 0).mpr hn
    exact List.ne_nil_of_mem this
  have hlenr : (rowsOf (allMask D)).length ≤ D.n := by
    unfold rowsOf
    refine le_trans (List.length_filter_le _ _) ?_
    simp [allMask]
  obtain ⟨u, hu⟩ := fitNode_returns P D ord p g.eps_pos g.minLeaf_pos hmd g.classes g.lord hord
    (fitFuel P D) (allMask D) 0 (length_allMask D) hrows (by unfold fitFuel; omega)
  exact ⟨(prune u).1, by unfold fit; rw [hu]⟩

/-- **every training row is predicted by the leaf it was assigned to while fitting, and that
prediction is a weighted most frequent label of the training rows of that leaf**: for the fitted,
pruned tree `t` and a training row `i`, the leaf `make_prediction` ends in has the row set
`reachedMask …` (the training rows taking the same turns under the fit-time rule `value <= split`);
row `i` is one of them, and `predict` returns a mode of them that occurs among them -/
theorem training_row_predicted_by_own_leaf (P : Params α β) (D : Data α β) (ord : List Nat → List Nat)
    (hord : ∀ l c, c ∈ ord l ↔ c ∈ l) (p : Nat) (t : Tree.Tree α) (g : Guards P D)
    (hw : ∀ i, 0 ≤ D.w i) (h : fit P D ord p = some t) (i : Nat) (hi : i < D.n) :
    i ∈ rowsOf (reachedMask D (D.row i) (allMask D) t) ∧
    IsMode D (reachedMask D (D.row i) (allMask D) t) (predict (D.row i) t) :=
  ⟨train_row_in_reached D i t _ ((mem_rowsOf_allMask D i).mpr hi),
   forallLeaves_predict D (IsMode D) (D.row i) t _ (leaf_predicts_a_mode P D ord hord p t g hw h)⟩

/-- **only labels seen in training are ever predicted**: for every row whatsoever (training row or
not) `predict` returns the label of some training row — one that reaches the same leaf -/
theorem predict_only_seen_labels (P : Params α β) (D : Data α β) (ord : List Nat → List Nat)
    (hord : ∀ l c, c ∈ ord l ↔ c ∈ l) (p : Nat) (t : Tree.Tree α) (g : Guards P D)
    (hw : ∀ i, 0 ≤ D.w i) (h : fit P D ord p = some t) (row : List α) :
    ∃ j, j < D.n ∧ D.y j = predict row t := by
  obtain ⟨⟨j, hj, hy⟩, _⟩ :=
    forallLeaves_predict D (IsMode D) row t _ (leaf_predicts_a_mode P D ord hord p t g hw h)
  exact ⟨j, (mem_rowsOf_allMask D j).mp (reached_sub D row t _ j hj), hy⟩

/-- **`features()` lists every feature index used by a split node exactly once, all of them
columns of the data** (in the order the level-order traversal meets them first: `featuresOf` is
the push-if-unseen loop over `iter_nodes()`) -/
theorem features_spec (P : Params α β) (D : Data α β) (ord : List Nat → List Nat) (p : Nat)
    (t : Tree.Tree α) (g : Guards P D) (h : fit P D ord p = some t) :
    (featuresOf t).Nodup ∧
    (∀ f, f ∈ featuresOf t ↔ ∃ n ∈ allNodes t, ∃ s dec pr d l r, n = Tree.Tree.node f s dec pr d l r) ∧
    (∀ f ∈ featuresOf t, f < p) := by
  have hmem : ∀ f, f ∈ featuresOf t ↔
      ∃ n ∈ allNodes t, ∃ s dec pr d l r, n = Tree.Tree.node f s dec pr d l r := by
    intro f
    unfold featuresOf
    rw [mem_firstOcc, List.mem_map]
    constructor
    · rintro ⟨⟨f', dec⟩, hfd, rfl⟩
      unfold splitDecs at hfd
      rw [List.mem_filterMap] at hfd
      obtain ⟨n, hn, hsome⟩ := hfd
      have hn' := (iterNodes_perm t).mem_iff.mp hn
      cases n with
      | leaf _ _ => simp at hsome
      | half _ _ _ _ _ _ _ => simp at hsome
      | node f0 s0 dec0 pr0 d0 l0 r0 =>
        simp only [Option.some.injEq, Prod.mk.injEq] at hsome
        obtain ⟨rfl, rfl⟩ := hsome
        exact ⟨_, hn', s0, dec0, pr0, d0, l0, r0, rfl⟩
    · rintro ⟨n, hn, s0, dec0, pr0, d0, l0, r0, rfl⟩
      refine ⟨(f, dec0), ?_, rfl⟩
      unfold splitDecs
      rw [List.mem_filterMap]
      exact ⟨_, (iterNodes_perm _).mem_iff.mpr hn, rfl⟩
  refine ⟨firstOcc_nodup _, hmem, fun f hf => ?_⟩
  obtain ⟨n, hn, s0, dec0, pr0, d0, l0, r0, he⟩ := (hmem f).mp hf
  have hno := split_has_two_children P D ord p t g h
  have hdec : ForallSplits D (fun m f s dec => f < p) (allMask D) t := by
    obtain ⟨u, hu, rfl⟩ := fit_inv P D ord p t h
    refine prune_forallSplits D _ _ _ (fitNode_forallSplitsI P D ord _ (fun m => m.length = D.n)
      (fun m f s hm => by rw [length_leftMask]; exact hm) (fun m f s hm => by rw [length_rightMask]; exact hm)
      _ ?_ _ _ _ _ (length_allMask D) hu)
    intro mask depth b hlen _ hb hd _ _
    exact (candidates_spec P D mask p g.eps_pos g.classes g.lord hlen b (pickBest_mem _ _ hb)).feat_lt
  obtain ⟨m', h1⟩ := forallSplits_allNodes D _ t _ hno hdec n hn f s0 dec0 pr0 d0 l0 r0 he
  exact h1

end importance

section accessors
variable {α β : Type}
variable [Add α] [Sub α] [Div α] [Neg α] [LT α] [DecidableLT α] [LE α] [DecidableLE α]
  [OfNat α 0] [NatCast α]
variable [Add β] [Sub β] [Mul β] [Div β] [Neg β] [LT β] [DecidableLT β]
  [OfNat β 0] [OfNat β 1] [NatCast β]

/-- **`iter_nodes()` enumerates every node of the tree exactly once** (level order is a
permutation of the preorder node list) -/
theorem iter_nodes_enumerates (t : Tree.Tree α) : (iterNodes t).Perm (allNodes t) := iterNodes_perm t

/-- **`iter_nodes()` yields the nodes in level order**: the root, then the nodes of depth 1 from left
to right, then those of depth 2, … (`levels`: the current level followed by the level made of its
children); this is the order, `iter_nodes_enumerates` only the set -/
theorem iter_nodes_level_order (t : Tree.Tree α) : iterNodes t = levels (t.height + 1) [t] :=
  iterNodes_eq_levels t

/-- **`num_leaves()` is the number of leaf-flagged nodes** -/
theorem num_leaves_counts_leaves (t : Tree.Tree α) : numLeaves t = leafCount t := numLeaves_eq t

/-- **`max_depth()` is the largest depth field, and it is at most the `max_depth` parameter** -/
theorem max_depth_accessor (P : Params α β) (D : Data α β) (ord : List Nat → List Nat) (p : Nat)
    (t : Tree.Tree α) (h : fit P D ord p = some t) :
    (∀ n ∈ allNodes t, n.depthField ≤ maxDepthOf t) ∧
    (∀ b, (∀ n ∈ allNodes t, n.depthField ≤ b) → maxDepthOf t ≤ b) ∧
    (∀ m, P.maxDepth = some m → maxDepthOf t ≤ m) := by
  refine ⟨depth_le_maxDepthOf t, maxDepthOf_le t, fun m hm => ?_⟩
  exact maxDepthOf_le t m (depthOK_allNodes P.maxDepth m hm t 0 (depth_le_max P D ord p t h))

end accessors

/-- **the fitted tree does not depend on the iteration order of linfa's hash maps**: any two
orders that list exactly the keys give the same tree -/
theorem fit_order_irrelevant {α β : Type} [Field α] [LinearOrder α] [IsStrictOrderedRing α]
    [Field β] [LinearOrder β] [IsStrictOrderedRing β]
    (P : Params α β) (D : Data α β) (ord1 ord2 : List Nat → List Nat)
    (h1 : ∀ l c, c ∈ ord1 l ↔ c ∈ l) (h2 : ∀ l c, c ∈ ord2 l ↔ c ∈ l)
    (hlord : D.lord.Perm (List.range D.K)) (p : Nat) : fit P D ord1 p = fit P D ord2 p := by
  unfold fit
  rw [fitNode_order_irrelevant P D ord1 ord2 h1 h2 hlord]


/-! ### non-vacuity of the full statements: a concrete fit over `Rat` that satisfies `Guards` -/

def exPQ : Params Rat Rat :=
  { entropy := false, maxDepth := some 2, minSplit := 2, minLeaf := 1, minDec := 1 / 100, eps := 1 / 100000,
    log2 := fun x => x, cast := id }
def exDQ : Data Rat Rat :=
  { xs := [[0, 5], [2, 5], [4, 5], [6, 5]], ys := [0, 0, 1, 1], ws := [1, 2, 2, 1], K := 2, lord := [1, 0] }
def exTQ : Tree.Tree Rat := .node 0 3 (1 / 2) 1 0 (.leaf 0 1) (.leaf 1 1)

example : Guards exPQ exDQ :=
  ⟨by norm_num [exPQ], by norm_num [exPQ], fun r => by
      simp only [exDQ, Data.y]
      rcases r with _ | _ | _ | _ | r <;> simp,
    by simp only [exDQ]; exact List.Perm.swap 0 1 []⟩
example : fit exPQ exDQ id 2 = some exTQ := by decide +kernel
example : ∀ i, 0 ≤ exDQ.w i := by
  intro i
  simp only [exDQ, Data.w]
  rcases i with _ | _ | _ | _ | i <;> simp
example : 0 < exPQ.minDec := by norm_num [exPQ]
example : importances exTQ 2 = [1, 0] := by decide +kernel
/-- `iter_nodes_level_order` on the two-level tree `exT`: root, its two children, the two grandchildren -/
example : levels (exT.height + 1) [exT] =
    [exT, .leaf 0 1, .node 0 3 1 1 1 (.leaf 0 2) (.leaf 1 2), .leaf 0 2, .leaf 1 2] := by decide
example : numLeaves exTQ = 2 ∧ maxDepthOf exTQ = 1 ∧ featuresOf exTQ = [0] := by decide +kernel
/-- hypotheses of `fit_returns`, `training_row_predicted_by_own_leaf`, `predict_only_seen_labels`,
`features_spec`: the dataset is non-empty, `id` lists the keys, row 2 is a training row; its leaf holds
rows 2 and 3 and predicts their mode 1 -/
example : 0 < exDQ.n ∧ (∀ (l : List Nat) c, c ∈ id l ↔ c ∈ l) ∧ (2 < exDQ.n) := ⟨by decide, fun _ _ => Iff.rfl, by decide⟩
example : rowsOf (reachedMask exDQ (exDQ.row 2) (allMask exDQ) exTQ) = [2, 3] ∧ predict (exDQ.row 2) exTQ = 1 := by
  decide +kernel

end LinfaSpec.Props.C14
