import LinfaSpec.Model.Tree

namespace LinfaSpec.Props.C14
open LinfaSpec LinfaSpec.Tree

/-- a pruned tree reports `some x` exactly when it has become a leaf predicting `x`
(`half` nodes count as leaves, as `is_leaf()` does) -/
theorem prune_some_is_leaf {α} (t : Tree α) (x : Nat) (h : (prune t).2 = some x) :
    (∃ d, (prune t).1 = .leaf x d) ∨ (∃ f s dec d il c, (prune t).1 = .half f s dec x d il c) := by
  cases t with
  | leaf p d => simp [prune] at h ⊢; exact h
  | half f s dec p d il c => simp [prune] at h ⊢; exact h
  | node f s dec p d l r =>
    simp only [prune] at h ⊢
    split at h <;> try split at h
    all_goals simp_all

end LinfaSpec.Props.C14
