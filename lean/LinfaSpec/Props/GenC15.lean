import LinfaSpec.Gen.Scalars
import LinfaSpec.Model.Incremental
import Mathlib.Analysis.SpecialFunctions.Log.Basic
import Mathlib.Analysis.Real.Sqrt
import Mathlib.Tactic.Positivity
import Mathlib.Tactic.FieldSimp
import Mathlib.Tactic.Linarith

/-!
# C15 — obligations about the FTRL scalar formulas GENERATED from the Rust source

`LinfaSpec.Gen.Scalars.Ftrl` is regenerated from `algorithms/linfa-ftrl/src/algorithm.rs` on every
check.  The `*_is_model` theorems say that the generated text is the hand-written model
(`LinfaSpec.Incremental.ftrlSigma / ftrlWeight / sigmoid`) which the recurrence theorems of
`Props/C15.lean` are about; the remaining ones are facts about the source's sigmoid itself.
-/
set_option linter.unusedSectionVars false
namespace LinfaSpec.Props.GenC15
open LinfaSpec LinfaSpec.Gen.Scalars LinfaSpec.Incremental

section generic
variable {α : Type} [Add α] [Sub α] [Mul α] [Div α] [Neg α] [LT α] [DecidableLT α] [LE α] [DecidableLE α]
  [DecidableEq α] [OfNat α 0] [OfNat α 1] [OfScientific α] [Transc α]

/-- **`calculate_weight_in_average` (the per-coordinate learning-rate change `σ`) is the model's
`ftrlSigma`** -/
theorem sigma_is_model (hp : FtrlHp α) (n g : α) :
    Ftrl.calculate_weight_in_average n g hp.alpha = ftrlSigma hp n g := rfl

/-- **`apply_proximal_to_weights` is the model's `ftrlWeight`** (the closed-form weight with the L1
dead zone) -/
theorem weight_is_model (hp : FtrlHp α) (z n : α) :
    Ftrl.apply_proximal_to_weights z n hp.alpha hp.beta hp.l1 hp.l2 = ftrlWeight hp z n := rfl

/-- **`stable_sigmoid` is the model's `sigmoid` with the clamp 35** -/
theorem sigmoid_is_model (v : α) : Ftrl.stable_sigmoid v = sigmoid (35.0 : α) v := rfl

end generic

/-! ### over the reals -/

noncomputable local instance : Transc ℝ := ⟨Real.sqrt, Real.exp, Real.log⟩

/-- the two branches of the source's sigmoid are the same function: `e^v / (e^v + 1) = 1 / (1 + e^{-v})` -/
theorem negative_eq_positive (v : ℝ) : Ftrl.negative_sigmoid v = Ftrl.positive_sigmoid v := by
  show Real.exp v / (Real.exp v + 1) = 1 / (1 + Real.exp (-v))
  rw [Real.exp_neg]
  have : Real.exp v ≠ 0 := (Real.exp_pos v).ne'
  field_simp

/-- **the source's `stable_sigmoid` is the logistic function of the clamped prediction**, a value
strictly between 0 and 1, for every input -/
theorem stable_sigmoid_spec (v : ℝ) :
    Ftrl.stable_sigmoid v = 1 / (1 + Real.exp (-(max (min v 35) (-35)))) ∧
    0 < Ftrl.stable_sigmoid v ∧ Ftrl.stable_sigmoid v < 1 := by
  have hc : maxS (minS v (35.0 : ℝ)) (-(35.0 : ℝ)) = max (min v 35) (-35) := by
    have h35 : (35.0 : ℝ) = 35 := by norm_num
    rw [h35]
    unfold maxS minS
    by_cases h1 : (35 : ℝ) < v
    · rw [if_pos h1, min_eq_right (le_of_lt h1)]
      rw [if_neg (by norm_num), max_eq_left (by norm_num)]
    · rw [if_neg h1, min_eq_left (not_lt.mp h1)]
      by_cases h2 : v < -35
      · rw [if_pos h2, max_eq_right (le_of_lt h2)]
      · rw [if_neg h2, max_eq_left (not_lt.mp h2)]
  have hval : Ftrl.stable_sigmoid v = 1 / (1 + Real.exp (-(max (min v 35) (-35)))) := by
    show (if maxS (minS v (35.0 : ℝ)) (-(35.0 : ℝ)) < 0 then
        Ftrl.negative_sigmoid (maxS (minS v (35.0 : ℝ)) (-(35.0 : ℝ)))
      else Ftrl.positive_sigmoid (maxS (minS v (35.0 : ℝ)) (-(35.0 : ℝ)))) = _
    rw [hc]
    split
    · rw [negative_eq_positive]; rfl
    · rfl
  refine ⟨hval, ?_, ?_⟩
  · rw [hval]; positivity
  · rw [hval]
    have : 0 < Real.exp (-(max (min v 35) (-35))) := Real.exp_pos _
    rw [div_lt_one (by positivity)]
    linarith

/-- the clamp is active on both sides -/
example : Ftrl.stable_sigmoid (100 : ℝ) = 1 / (1 + Real.exp (-35)) ∧
    Ftrl.stable_sigmoid (-100 : ℝ) = 1 / (1 + Real.exp (-(-35))) := by
  constructor
  · rw [(stable_sigmoid_spec 100).1]; norm_num
  · rw [(stable_sigmoid_spec (-100)).1]; norm_num

end LinfaSpec.Props.GenC15
