import LinfaSpec.Proofs.Scaling
import LinfaSpec.Proofs.ScalingWhiten
import Mathlib.Analysis.Real.Sqrt

/-!
# C16 — scalers and whiteners achieve their normalisation and act as fixed row-wise maps

Theorems about `LinfaSpec.Scaling` (model of `linear_scaling.rs`, `norm_scaling.rs`,
the transform side of `whitening.rs`), over every ordered field `α`; the square
root enters only through its contract `SqrtContract` (`sqrt x * sqrt x = x`,
`sqrt x ≥ 0` for `x ≥ 0`).  A record matrix is `rows : List (List α)` with all
rows of length `p`; `col y j` is column `j`.  `eps` is the epsilon of the
`abs_diff_eq!` guards (machine ε in the code), only `0 ≤ eps` is used.
Hypotheses are the code's guards: non-empty data, and for the scaled variants
"the guard did not fire" (`eps < std`, `eps < max - min`, `eps < max|x|`).
-/
namespace LinfaSpec.Props.C16
open LinfaSpec LinfaSpec.Scaling LinfaSpec.Proofs.Scaling

set_option linter.unusedSectionVars false
set_option linter.unusedVariables false

section linear
variable {α : Type} [Field α] [LinearOrder α] [IsStrictOrderedRing α] [Transc α]

/-- the scale the standard scaler uses for a column -/
def stdScale (eps : α) (ws : Bool) (c : List α) : α := if ws then invOrOne eps (stdCol c) else 1

/-- **fit + transform of the standard scaler, column by column**: fitting never fails on
non-empty data, the transform of the training data is defined, and its column `j` is the
affine image `x ↦ S·x + B` of the input column with `S` the guarded inverse standard
deviation and `B = -M·S` (with mean) or `M - M·S` (without), `M` the column mean. -/
theorem standard_column (eps : α) (p : Nat) (rows : List (List α)) (wm ws : Bool)
    (hn : rows ≠ []) (hrows : ∀ r ∈ rows, r.length = p) (j : Nat) (hj : j < p) :
    ∃ sc y, fitStandard eps p rows wm ws = .ok sc ∧ transform sc p rows = some y ∧
      col y j = (col rows j).map fun x =>
        stdScale eps ws (col rows j) * x +
          (if wm then -(meanCol (col rows j) * stdScale eps ws (col rows j))
           else meanCol (col rows j) - meanCol (col rows j) * stdScale eps ws (col rows j)) := by
  have hlen : ¬ rows.length = 0 := by
    intro h; exact hn (List.length_eq_zero_iff.mp h)
  let sc : Scaler α :=
    { offsets := (cols p rows).map meanCol
      scales := if ws then (cols p rows).map (fun c => invOrOne eps (stdCol c)) else (cols p rows).map (fun _ => 1)
      method := .standard wm ws }
  have hfit : fitStandard eps p rows wm ws = .ok sc := by
    unfold fitStandard; rw [if_neg hlen]
  have ho : sc.offsets.length = p := by simp [sc, cols]
  have hs : sc.scales.length = p := by
    simp only [sc]; split <;> simp [cols]
  refine ⟨sc, rows.map (transformRow sc), hfit, transform_some sc p rows ho hrows, ?_⟩
  rw [col_map_transformRow sc p rows ho hs hrows j hj]
  have hoj : sc.offsets.getD j 0 = meanCol (col rows j) := getD_cols_map meanCol p rows j hj
  have hsj : sc.scales.getD j 0 = stdScale eps ws (col rows j) := by
    simp only [sc, stdScale]
    cases ws
    · simpa using getD_cols_map (fun _ => (1 : α)) p rows j hj
    · simpa using getD_cols_map (fun c => invOrOne eps (stdCol c)) p rows j hj
  rw [hoj, hsj]
  apply List.map_congr_left
  intro x _
  cases wm <;> simp [transformCell, sc] <;> ring

theorem col_ne_nil (rows : List (List α)) (j : Nat) (hn : rows ≠ []) : col rows j ≠ [] := by
  unfold col; simpa using hn

/-- **standard scaling yields zero column means** (every `with_std`, every column —
constant or not): fitted on non-empty data and applied to it. -/
theorem standard_zero_mean (eps : α) (p : Nat) (rows : List (List α)) (ws : Bool)
    (hn : rows ≠ []) (hrows : ∀ r ∈ rows, r.length = p) (j : Nat) (hj : j < p) :
    ∃ sc y, fitStandard eps p rows true ws = .ok sc ∧ transform sc p rows = some y ∧
      meanCol (col y j) = 0 := by
  obtain ⟨sc, y, h1, h2, h3⟩ := standard_column eps p rows true ws hn hrows j hj
  refine ⟨sc, y, h1, h2, ?_⟩
  rw [h3, meanCol_affine _ (col_ne_nil rows j hn)]
  simp only [if_true]; ring

/-- **the no-mean variant keeps the column mean** -/
theorem no_mean_keeps_mean (eps : α) (p : Nat) (rows : List (List α)) (ws : Bool)
    (hn : rows ≠ []) (hrows : ∀ r ∈ rows, r.length = p) (j : Nat) (hj : j < p) :
    ∃ sc y, fitStandard eps p rows false ws = .ok sc ∧ transform sc p rows = some y ∧
      meanCol (col y j) = meanCol (col rows j) := by
  obtain ⟨sc, y, h1, h2, h3⟩ := standard_column eps p rows false ws hn hrows j hj
  refine ⟨sc, y, h1, h2, ?_⟩
  rw [h3, meanCol_affine _ (col_ne_nil rows j hn)]
  simp only [Bool.false_eq_true, if_false]; ring

/-- **standard scaling yields unit variance on every column the guard treats as
non-constant** (`eps < std`), with or without centring.  `varCol 0` is ndarray's
Welford recurrence, equal to the textbook variance by `welford_is_variance`. -/
theorem standard_unit_var (hsq : SqrtContract α) (eps : α) (h0 : 0 ≤ eps) (p : Nat)
    (rows : List (List α)) (wm : Bool)
    (hn : rows ≠ []) (hrows : ∀ r ∈ rows, r.length = p) (j : Nat) (hj : j < p)
    (hstd : eps < stdCol (col rows j)) :
    ∃ sc y, fitStandard eps p rows wm true = .ok sc ∧ transform sc p rows = some y ∧
      varCol 0 (col y j) = 1 := by
  obtain ⟨sc, y, h1, h2, h3⟩ := standard_column eps p rows wm true hn hrows j hj
  refine ⟨sc, y, h1, h2, ?_⟩
  rw [h3, varCol_affine]
  simp only [stdScale, if_true]
  rw [invOrOne_of_gt eps _ h0 hstd]
  have hpos : 0 < stdCol (col rows j) := lt_of_le_of_lt h0 hstd
  have hv := (hsq (varCol 0 (col rows j)) (varCol_nonneg _)).1
  unfold stdCol at hpos ⊢
  generalize Transc.sqrt (varCol 0 (col rows j)) = σ at hpos hv ⊢
  rw [← hv]
  field_simp

/-- **the no-std variant keeps the spread** (variance unchanged) -/
theorem no_std_keeps_spread (eps : α) (p : Nat) (rows : List (List α)) (wm : Bool)
    (hn : rows ≠ []) (hrows : ∀ r ∈ rows, r.length = p) (j : Nat) (hj : j < p) :
    ∃ sc y, fitStandard eps p rows wm false = .ok sc ∧ transform sc p rows = some y ∧
      varCol 0 (col y j) = varCol 0 (col rows j) := by
  obtain ⟨sc, y, h1, h2, h3⟩ := standard_column eps p rows wm false hn hrows j hj
  refine ⟨sc, y, h1, h2, ?_⟩
  rw [h3, varCol_affine]
  simp [stdScale]

/-- **constant columns are only centred**: a constant column `c` is mapped to all zeros
with centring and is left as it is without, whatever `with_std` says (scale 1). -/
theorem constant_only_centred (hsq : SqrtContract α) (eps : α) (h0 : 0 ≤ eps) (p : Nat)
    (rows : List (List α)) (wm ws : Bool)
    (hn : rows ≠ []) (hrows : ∀ r ∈ rows, r.length = p) (j : Nat) (hj : j < p)
    (c : α) (hc : ∀ x ∈ col rows j, x = c) :
    ∃ sc y, fitStandard eps p rows wm ws = .ok sc ∧ transform sc p rows = some y ∧
      col y j = (col rows j).map fun _ => if wm then 0 else c := by
  obtain ⟨sc, y, h1, h2, h3⟩ := standard_column eps p rows wm ws hn hrows j hj
  refine ⟨sc, y, h1, h2, ?_⟩
  have hS : stdScale eps ws (col rows j) = 1 := by
    unfold stdScale
    cases ws
    · simp
    · simp only [if_true]
      unfold stdCol
      rw [varCol_const _ c hc, sqrt_zero_of hsq, invOrOne_zero eps h0]
  rw [h3, hS, meanCol_const _ (col_ne_nil rows j hn) c hc]
  apply List.map_congr_left
  intro x hx
  rw [hc x hx]
  cases wm <;> simp

/-- ndarray's `var_axis` (Welford) **is** the population variance `Σ(x - mean)² / n` -/
theorem welford_is_variance (l : List α) (h : l ≠ []) :
    varCol 0 l = (l.map fun x => (x - meanCol l) * (x - meanCol l)).sum / (l.length : α) :=
  varCol_textbook l h


/-! ### min-max -/

/-- **min-max scaling maps every column the guard treats as non-constant
(`eps < max - min`) onto the requested range `[lo, hi]`, both ends attained**
(at the column's minimum resp. maximum); fitting succeeds for `lo ≤ hi` on non-empty data. -/
theorem minmax_range_attained (eps : α) (h0 : 0 ≤ eps) (p : Nat) (rows : List (List α)) (lo hi : α)
    (hlohi : lo ≤ hi) (hn : rows ≠ []) (hrows : ∀ r ∈ rows, r.length = p) (j : Nat) (hj : j < p)
    (hguard : eps < maxCol (col rows j) - minCol (col rows j)) :
    ∃ sc y, fitMinMax eps p rows lo hi = .ok sc ∧ transform sc p rows = some y ∧
      (∀ v ∈ col y j, lo ≤ v ∧ v ≤ hi) ∧ lo ∈ col y j ∧ hi ∈ col y j := by
  have hlen : ¬ rows.length = 0 := by
    intro h; exact hn (List.length_eq_zero_iff.mp h)
  let sc : Scaler α :=
    { offsets := (cols p rows).map minCol
      scales := (cols p rows).map (fun c => invOrOne eps (maxCol c - minCol c))
      method := .minMax lo hi }
  have hfit : fitMinMax eps p rows lo hi = .ok sc := by
    unfold fitMinMax; rw [if_neg hlen, if_neg (not_lt.mpr hlohi)]
  have ho : sc.offsets.length = p := by simp [sc, cols]
  have hs : sc.scales.length = p := by simp [sc, cols]
  refine ⟨sc, rows.map (transformRow sc), hfit, transform_some sc p rows ho hrows, ?_⟩
  rw [col_map_transformRow sc p rows ho hs hrows j hj]
  have hoj : sc.offsets.getD j 0 = minCol (col rows j) := getD_cols_map minCol p rows j hj
  have hsj : sc.scales.getD j 0 = invOrOne eps (maxCol (col rows j) - minCol (col rows j)) :=
    getD_cols_map (fun c => invOrOne eps (maxCol c - minCol c)) p rows j hj
  rw [hoj, hsj, invOrOne_of_gt eps _ h0 hguard]
  have hc := col_ne_nil rows j hn
  obtain ⟨hmin, hminmem⟩ := minCol_spec (col rows j) hc
  obtain ⟨hmax, hmaxmem⟩ := maxCol_spec (col rows j) hc
  generalize minCol (col rows j) = mn at *
  generalize maxCol (col rows j) = mx at *
  have hd : 0 < mx - mn := lt_of_le_of_lt h0 hguard
  simp only [sc, transformCell]
  refine ⟨?_, ?_, ?_⟩
  · intro v hv
    obtain ⟨x, hx, rfl⟩ := List.mem_map.mp hv
    have h1 : 0 ≤ (x - mn) * (1 / (mx - mn)) :=
      mul_nonneg (sub_nonneg.mpr (hmin x hx)) (by positivity)
    have h2 : (x - mn) * (1 / (mx - mn)) ≤ 1 := by
      rw [mul_one_div, div_le_one hd]; linarith [hmax x hx]
    have h3 : 0 ≤ hi - lo := sub_nonneg.mpr hlohi
    constructor
    · nlinarith [mul_nonneg h1 h3]
    · nlinarith [mul_le_mul_of_nonneg_right h2 h3]
  · exact List.mem_map.mpr ⟨mn, hminmem, by ring⟩
  · refine List.mem_map.mpr ⟨mx, hmaxmem, ?_⟩
    field_simp; ring

/-! ### max-abs -/

/-- **max-abs scaling gives every column the guard treats as non-zero (`eps < max|x|`)
maximum absolute value one**: all outputs lie in `[-1, 1]` and `1` is attained. -/
theorem maxabs_one (eps : α) (h0 : 0 ≤ eps) (p : Nat) (rows : List (List α))
    (hn : rows ≠ []) (hrows : ∀ r ∈ rows, r.length = p) (j : Nat) (hj : j < p)
    (hguard : eps < normMax (col rows j)) :
    ∃ sc y, fitMaxAbs eps p rows = .ok sc ∧ transform sc p rows = some y ∧
      (∀ v ∈ col y j, |v| ≤ 1) ∧ (∃ v ∈ col y j, |v| = 1) ∧ normMax (col y j) = 1 := by
  have hlen : ¬ rows.length = 0 := by
    intro h; exact hn (List.length_eq_zero_iff.mp h)
  let sc : Scaler α :=
    { offsets := (cols p rows).map (fun _ => 0)
      scales := (cols p rows).map (fun c => invOrOne eps (normMax c))
      method := .maxAbs }
  have hfit : fitMaxAbs eps p rows = .ok sc := by
    unfold fitMaxAbs; rw [if_neg hlen]
  have ho : sc.offsets.length = p := by simp [sc, cols]
  have hs : sc.scales.length = p := by simp [sc, cols]
  refine ⟨sc, rows.map (transformRow sc), hfit, transform_some sc p rows ho hrows, ?_⟩
  rw [col_map_transformRow sc p rows ho hs hrows j hj]
  have hoj : sc.offsets.getD j 0 = 0 := getD_cols_map (fun _ => (0 : α)) p rows j hj
  have hsj : sc.scales.getD j 0 = invOrOne eps (normMax (col rows j)) :=
    getD_cols_map (fun c => invOrOne eps (normMax c)) p rows j hj
  rw [hoj, hsj, invOrOne_of_gt eps _ h0 hguard]
  obtain ⟨_, hle, hatt⟩ := normMax_spec (col rows j)
  generalize normMax (col rows j) = N at *
  have hN : 0 < N := lt_of_le_of_lt h0 hguard
  simp only [sc, transformCell, sub_zero]
  have hall : ∀ v ∈ (col rows j).map (fun x => x * (1 / N)), |v| ≤ 1 := by
    intro v hv
    obtain ⟨x, hx, rfl⟩ := List.mem_map.mp hv
    rw [mul_one_div, abs_div, abs_of_pos hN, div_le_one hN]; exact hle x hx
  have hex : ∃ v ∈ (col rows j).map (fun x => x * (1 / N)), |v| = 1 := by
    rcases hatt with h | ⟨x, hx, h⟩
    · exact absurd h hN.ne'
    · refine ⟨x * (1 / N), List.mem_map.mpr ⟨x, hx, rfl⟩, ?_⟩
      rw [mul_one_div, abs_div, abs_of_pos hN, ← h]; exact div_self hN.ne'
  refine ⟨hall, hex, ?_⟩
  obtain ⟨_, hle', hatt'⟩ := normMax_spec ((col rows j).map (fun x => x * (1 / N)))
  obtain ⟨v, hv, hv1⟩ := hex
  have hge : 1 ≤ normMax ((col rows j).map (fun x => x * (1 / N))) := le_trans hv1.ge (hle' v hv)
  rcases hatt' with h | ⟨w, hw, h⟩
  · rw [h] at hge; linarith
  · exact le_antisymm (by rw [h]; exact hall w hw) hge

/-- **a constant column goes to the lower end `lo`** under min-max scaling (the statement only speaks of
non-constant columns; this is what the code does with the others: scale 1, offset = the constant) -/
theorem minmax_constant_to_lo (eps : α) (h0 : 0 ≤ eps) (p : Nat) (rows : List (List α)) (lo hi : α)
    (hlohi : lo ≤ hi) (hn : rows ≠ []) (hrows : ∀ r ∈ rows, r.length = p) (j : Nat) (hj : j < p)
    (c : α) (hc : ∀ x ∈ col rows j, x = c) :
    ∃ sc y, fitMinMax eps p rows lo hi = .ok sc ∧ transform sc p rows = some y ∧
      col y j = (col rows j).map fun _ => lo := by
  have hlen : ¬ rows.length = 0 := by
    intro h; exact hn (List.length_eq_zero_iff.mp h)
  let sc : Scaler α :=
    { offsets := (cols p rows).map minCol
      scales := (cols p rows).map (fun c => invOrOne eps (maxCol c - minCol c))
      method := .minMax lo hi }
  have hfit : fitMinMax eps p rows lo hi = .ok sc := by
    unfold fitMinMax; rw [if_neg hlen, if_neg (not_lt.mpr hlohi)]
  have ho : sc.offsets.length = p := by simp [sc, cols]
  have hs : sc.scales.length = p := by simp [sc, cols]
  refine ⟨sc, rows.map (transformRow sc), hfit, transform_some sc p rows ho hrows, ?_⟩
  rw [col_map_transformRow sc p rows ho hs hrows j hj]
  have hoj : sc.offsets.getD j 0 = minCol (col rows j) := getD_cols_map minCol p rows j hj
  have hsj : sc.scales.getD j 0 = invOrOne eps (maxCol (col rows j) - minCol (col rows j)) :=
    getD_cols_map (fun c => invOrOne eps (maxCol c - minCol c)) p rows j hj
  have hne := col_ne_nil rows j hn
  have hmin : minCol (col rows j) = c := hc _ (minCol_spec _ hne).2
  have hmax : maxCol (col rows j) = c := hc _ (maxCol_spec _ hne).2
  rw [hoj, hsj, hmin, hmax, sub_self, invOrOne_zero eps h0]
  apply List.map_congr_left
  intro x hx
  rw [hc x hx]
  simp [sc, transformCell]

/-- **every calling form reaches the same fit**: `LinearScalerParams::new(m)`, the `method(m)` setter on
any parameter object, and the constructor functions all fit with the method they name; `fitParams`
(= `ScalingMethod::fit`) dispatches to the three fitting routines -/
theorem calling_forms_agree (eps : α) (p : Nat) (rows : List (List α)) (q : Params α) (m : Method α)
    (wm ws : Bool) (lo hi : α) :
    fitParams eps p rows (q.setMethod m) = fitParams eps p rows (Params.new m) ∧
    fitParams eps p rows (Params.new (.standard wm ws)) = fitStandard eps p rows wm ws ∧
    fitParams eps p rows (Params.new (.minMax lo hi)) = fitMinMax eps p rows lo hi ∧
    fitParams eps p rows (Params.new .maxAbs) = fitMaxAbs eps p rows ∧
    fitParams eps p rows Params.standard = fitStandard eps p rows true true ∧
    fitParams eps p rows Params.standardNoMean = fitStandard eps p rows false true ∧
    fitParams eps p rows Params.standardNoStd = fitStandard eps p rows true false ∧
    fitParams eps p rows Params.minMax = fitMinMax eps p rows 0 1 ∧
    fitParams eps p rows (Params.minMaxRange lo hi) = fitMinMax eps p rows lo hi ∧
    fitParams eps p rows Params.maxAbs = fitMaxAbs eps p rows :=
  ⟨rfl, rfl, rfl, rfl, rfl, rfl, rfl, rfl, rfl, rfl⟩

/-- the `Whitener::method(m)` setter replaces the method whatever the constructor chose, and the fit
runs the factorisation of *that* method -/
theorem whitener_setter_overrides {ε : Type}
    (decomp : WMethod → List (List α) → Except ε (List (List α))) (q : WParams) (m : WMethod)
    (p : Nat) (rows : List (List α)) :
    (q.setMethod m).method = m ∧
    whitenFitParams decomp (q.setMethod m) p rows = whitenFit (decomp m) p rows :=
  ⟨rfl, rfl⟩

end linear

/-! ### below the guards: what the code does with columns it treats as constant -/
section subeps
variable {α : Type} [Field α] [LinearOrder α] [IsStrictOrderedRing α] [Transc α]

theorem invOrOne_of_le (eps s : α) (hs : 0 ≤ s) (h : s ≤ eps) : invOrOne eps s = 1 := by
  unfold invOrOne absDiffEq
  rw [absS_eq, sub_zero, abs_of_nonneg hs]
  simp [h]

/-- **below the guard nothing is scaled** (open finding `C16-sub-eps-standard`, for every matrix): a column
whose standard deviation is at most `eps` — constant or not — keeps its variance; so a non-constant
column with `0 < std ≤ eps` does not come out with variance one. -/
theorem standard_sub_eps_unscaled (hsq : SqrtContract α) (eps : α) (p : Nat)
    (rows : List (List α)) (wm : Bool)
    (hn : rows ≠ []) (hrows : ∀ r ∈ rows, r.length = p) (j : Nat) (hj : j < p)
    (hsub : stdCol (col rows j) ≤ eps) :
    ∃ sc y, fitStandard eps p rows wm true = .ok sc ∧ transform sc p rows = some y ∧
      varCol 0 (col y j) = varCol 0 (col rows j) := by
  obtain ⟨sc, y, h1, h2, h3⟩ := standard_column eps p rows wm true hn hrows j hj
  refine ⟨sc, y, h1, h2, ?_⟩
  rw [h3, varCol_affine]
  simp only [stdScale, if_true]
  have hnn : 0 ≤ stdCol (col rows j) := (hsq _ (varCol_nonneg _)).2
  rw [invOrOne_of_le eps _ hnn hsub]
  ring

/-- the same for max-abs scaling (open finding `C16-sub-eps-maxabs`): a column with `max|x| ≤ eps` is
returned as it is, so its maximum absolute value stays `max|x|`, not one. -/
theorem maxabs_sub_eps_unscaled (eps : α) (p : Nat) (rows : List (List α))
    (hn : rows ≠ []) (hrows : ∀ r ∈ rows, r.length = p) (j : Nat) (hj : j < p)
    (hsub : normMax (col rows j) ≤ eps) :
    ∃ sc y, fitMaxAbs eps p rows = .ok sc ∧ transform sc p rows = some y ∧ col y j = col rows j := by
  have hlen : ¬ rows.length = 0 := by
    intro h; exact hn (List.length_eq_zero_iff.mp h)
  let sc : Scaler α :=
    { offsets := (cols p rows).map (fun _ => 0)
      scales := (cols p rows).map (fun c => invOrOne eps (normMax c))
      method := .maxAbs }
  have hfit : fitMaxAbs eps p rows = .ok sc := by
    unfold fitMaxAbs; rw [if_neg hlen]
  have ho : sc.offsets.length = p := by simp [sc, cols]
  have hs : sc.scales.length = p := by simp [sc, cols]
  refine ⟨sc, rows.map (transformRow sc), hfit, transform_some sc p rows ho hrows, ?_⟩
  rw [col_map_transformRow sc p rows ho hs hrows j hj]
  have hoj : sc.offsets.getD j 0 = 0 := getD_cols_map (fun _ => (0 : α)) p rows j hj
  have hsj : sc.scales.getD j 0 = invOrOne eps (normMax (col rows j)) :=
    getD_cols_map (fun c => invOrOne eps (normMax c)) p rows j hj
  rw [hoj, hsj, invOrOne_of_le eps _ (normMax_spec _).1 hsub]
  simp [sc, transformCell]

end subeps

/-! ### norm scaler -/
section norm
variable {α : Type} [Field α] [LinearOrder α] [IsStrictOrderedRing α] [Transc α]

theorem normL1_eq (r : List α) : normL1 r = (r.map fun x => |x|).sum := by
  unfold normL1; rw [sumS_eq]; congr 1; apply List.map_congr_left; intro x _; exact absS_eq x

theorem sumSquares_eq (r : List α) : sumSquares r = (r.map fun x => x * x).sum := by
  unfold sumSquares; rw [sumS_eq]

/-- a row with a non-zero entry has positive norm (so it is scaled, not skipped) -/
theorem rowNorm_pos (hsq : SqrtContract α) (k : NormKind) (r : List α) (h : ∃ x ∈ r, x ≠ 0) :
    0 < rowNorm k r := by
  cases k
  · show 0 < normL1 r
    rw [normL1_eq]; exact sum_abs_pos r h
  · show 0 < normL2 r
    unfold normL2; rw [sumSquares_eq]; exact sqrt_pos_of hsq _ (sum_sq_pos r h)
  · show 0 < normMax r
    obtain ⟨x, hx, hx0⟩ := h
    exact lt_of_lt_of_le (abs_pos.mpr hx0) ((normMax_spec r).2.1 x hx)

/-- **norm scaling gives every non-zero row unit norm in the chosen norm** (L1, L2, max) -/
theorem norm_unit (hsq : SqrtContract α) (k : NormKind) (r : List α) (h : ∃ x ∈ r, x ≠ 0) :
    rowNorm k (scaleRowBy (rowNorm k r) r) = 1 := by
  have hpos := rowNorm_pos hsq k r h
  unfold scaleRowBy
  rw [if_pos hpos]
  cases k
  · show normL1 (r.map fun x => x / normL1 r) = 1
    have hp : 0 < normL1 r := hpos
    rw [normL1_eq, List.map_map]
    have e : (r.map ((fun x => |x|) ∘ fun x => x / normL1 r)) = (r.map fun x => |x|).map (fun x => x / normL1 r) := by
      rw [List.map_map]; apply List.map_congr_left; intro x _
      simp only [Function.comp_def, abs_div, abs_of_pos hp]
    rw [e, sum_map_div, ← normL1_eq]; exact div_self hp.ne'
  · show normL2 (r.map fun x => x / normL2 r) = 1
    have hp : 0 < normL2 r := hpos
    have hN : normL2 r * normL2 r = sumSquares r := by
      unfold normL2; rw [sumSquares_eq]; exact (hsq _ (sum_sq_nonneg r)).1
    have hss : sumSquares (r.map fun x => x / normL2 r) = 1 := by
      rw [sumSquares_eq, List.map_map]
      have e : (r.map ((fun x => x * x) ∘ fun x => x / normL2 r)) =
          (r.map fun x => x * x).map (fun x => x / (normL2 r * normL2 r)) := by
        rw [List.map_map]; apply List.map_congr_left; intro x _
        simp only [Function.comp_def]; field_simp
      rw [e, sum_map_div, ← sumSquares_eq, hN]
      exact div_self (by rw [← hN]; positivity)
    show Transc.sqrt (sumSquares (r.map fun x => x / normL2 r)) = 1
    rw [hss]; exact sqrt_one_of hsq
  · show normMax (r.map fun x => x / normMax r) = 1
    have hp : 0 < normMax r := hpos
    obtain ⟨_, hle, hatt⟩ := normMax_spec r
    obtain ⟨_, hle', hatt'⟩ := normMax_spec (r.map fun x => x / normMax r)
    have hall : ∀ v ∈ r.map (fun x => x / normMax r), |v| ≤ 1 := by
      intro v hv
      obtain ⟨x, hx, rfl⟩ := List.mem_map.mp hv
      rw [abs_div, abs_of_pos hp, div_le_one hp]; exact hle x hx
    have hge : 1 ≤ normMax (r.map fun x => x / normMax r) := by
      rcases hatt with h' | ⟨x, hx, h'⟩
      · exact absurd h' hp.ne'
      · have : |x / normMax r| = 1 := by rw [abs_div, abs_of_pos hp, ← h']; exact div_self hp.ne'
        rw [← this]; exact hle' _ (List.mem_map.mpr ⟨x, hx, rfl⟩)
    rcases hatt' with h' | ⟨w, hw, h'⟩
    · rw [h'] at hge; linarith
    · exact le_antisymm (by rw [h']; exact hall w hw) hge

/-- **an all-zero row is returned unchanged** (the fixed code never divides by a norm that is
not positive; before the fix this row became NaN) -/
theorem norm_zero_row_unchanged (hsq : SqrtContract α) (k : NormKind) (r : List α)
    (h : ∀ x ∈ r, x = 0) : scaleRowBy (rowNorm k r) r = r := by
  have hz : rowNorm k r = 0 := by
    have hr : r = r.map fun _ => (0 : α) := by
      conv_lhs => rw [← List.map_id r]
      apply List.map_congr_left; intro x hx; simp [h x hx]
    cases k
    · show normL1 r = 0
      rw [normL1_eq, hr]; simp
    · show normL2 r = 0
      unfold normL2; rw [sumSquares_eq, hr]; simp [sqrt_zero_of hsq]
    · show normMax r = 0
      rcases (normMax_spec r).2.2 with h' | ⟨x, hx, h'⟩
      · exact h'
      · rw [h', h x hx, abs_zero]
  unfold scaleRowBy; rw [hz]; simp

/-- every division performed by the norm scaler has a positive divisor -/
theorem norm_divisor_positive (nrm : α) (r : List α) (h : scaleRowBy nrm r ≠ r) : 0 < nrm := by
  unfold scaleRowBy at h
  by_contra hc
  rw [if_neg hc] at h
  exact h rfl

end norm


/-! ### fixed affine map, row by row -/
section rowwise
variable {α : Type} [Field α] [LinearOrder α] [IsStrictOrderedRing α]

/-- **the fitted transform is one fixed map applied to each row**: on any matrix of the
fitted width (training data or unseen data) the result is `rows.map (transformRow sc)`;
`transformRow sc` depends on the fitted parameters only. -/
theorem transform_is_rowwise (sc : Scaler α) (p : Nat) (rows : List (List α))
    (ho : sc.offsets.length = p) (hrows : ∀ r ∈ rows, r.length = p) :
    transform sc p rows = some (rows.map (transformRow sc)) :=
  transform_some sc p rows ho hrows

/-- **each cell goes through an affine map fixed by the fitted parameters** -/
theorem transformCell_affine (m : Method α) (o s : α) :
    ∃ a b : α, ∀ x, transformCell m x o s = a * x + b := by
  cases m with
  | standard wm ws =>
    cases wm
    · exact ⟨s, o - o * s, fun x => by simp only [transformCell]; ring⟩
    · exact ⟨s, -(o * s), fun x => by simp only [transformCell]; ring⟩
  | minMax lo hi => exact ⟨s * (hi - lo), lo - o * s * (hi - lo), fun x => by simp only [transformCell]; ring⟩
  | maxAbs => exact ⟨s, -(o * s), fun x => by simp only [transformCell]; ring⟩

/-- **commutes with row selection** (any index list, repetitions allowed) -/
theorem transform_commutes_with_selection (sc : Scaler α) (p : Nat) (rows : List (List α))
    (ho : sc.offsets.length = p) (hrows : ∀ r ∈ rows, r.length = p) (sel : List Nat) :
    ∃ y, transform sc p rows = some y ∧
      transform sc p (sel.filterMap (rows[·]?)) = some (sel.filterMap (y[·]?)) := by
  refine ⟨_, transform_some sc p rows ho hrows, ?_⟩
  have hsel : ∀ r ∈ sel.filterMap (rows[·]?), r.length = p := by
    intro r hr
    obtain ⟨i, _, hi⟩ := List.mem_filterMap.mp hr
    exact hrows r (List.mem_of_getElem? hi)
  rw [transform_some sc p _ ho hsel, List.map_filterMap]
  congr 1
  apply List.filterMap_congr
  intro i _
  simp [List.getElem?_map]

/-- **commutes with reordering** -/
theorem transform_commutes_with_perm (sc : Scaler α) (p : Nat) (rows rows' : List (List α))
    (ho : sc.offsets.length = p) (hrows : ∀ r ∈ rows, r.length = p) (hp : rows.Perm rows') :
    ∃ y y', transform sc p rows = some y ∧ transform sc p rows' = some y' ∧ y.Perm y' := by
  have hrows' : ∀ r ∈ rows', r.length = p := fun r hr => hrows r (hp.symm.subset hr)
  exact ⟨_, _, transform_some sc p rows ho hrows, transform_some sc p rows' ho hrows', hp.map _⟩

/-- **identical on unseen data**: transforming a batch that extends another one gives the same
rows for the common part (a row's image never depends on the other rows) -/
theorem transform_append (sc : Scaler α) (p : Nat) (a b : List (List α))
    (ho : sc.offsets.length = p) (ha : ∀ r ∈ a, r.length = p) (hb : ∀ r ∈ b, r.length = p) :
    ∃ ya yb, transform sc p a = some ya ∧ transform sc p b = some yb ∧
      transform sc p (a ++ b) = some (ya ++ yb) := by
  have hab : ∀ r ∈ a ++ b, r.length = p := by
    intro r hr; rcases List.mem_append.mp hr with h | h
    · exact ha r h
    · exact hb r h
  exact ⟨_, _, transform_some sc p a ho ha, transform_some sc p b ho hb, by
    rw [transform_some sc p _ ho hab, List.map_append]⟩

/-- norm scaling and whitening are row maps by construction -/
theorem norm_whiten_rowwise [Transc α] (k : NormKind) (mean : List α) (W a b : List (List α)) :
    normTransform k (a ++ b) = normTransform k a ++ normTransform k b ∧
    whitenTransform mean W (a ++ b) = whitenTransform mean W a ++ whitenTransform mean W b := by
  simp [normTransform, whitenTransform]

end rowwise

/-! ### metadata, errors -/

/-- **targets, weights, feature and target names pass through unchanged**, and the records are
the array transform of the records -/
theorem metadata_passthrough {R R' T W : Type} (f : R → Option R') (nfeat : R' → Nat) (ntgt : T → Nat)
    (ds : DS R T W) (out : DS R' T W) (h : transformDataset f nfeat ntgt ds = some out) :
    out.targets = ds.targets ∧ out.weights = ds.weights ∧ out.featureNames = ds.featureNames ∧
      out.targetNames = ds.targetNames ∧ f ds.records = some out.records := by
  unfold transformDataset at h
  split at h
  · exact absurd h (by simp)
  · rename_i recs hrec
    split at h
    · exact absurd h (by simp)
    · split at h
      · exact absurd h (by simp)
      · cases h; exact ⟨rfl, rfl, rfl, rfl, hrec⟩

/-- the dataset form succeeds whenever the array form does and the width is unchanged -/
theorem metadata_no_panic {R R' T W : Type} (f : R → Option R') (nfeat : R' → Nat) (ntgt : T → Nat)
    (ds : DS R T W) (recs : R') (hf : f ds.records = some recs)
    (h1 : ds.featureNames = [] ∨ ds.featureNames.length = nfeat recs)
    (h2 : ds.targetNames = [] ∨ ds.targetNames.length = ntgt ds.targets) :
    (transformDataset f nfeat ntgt ds).isSome := by
  unfold transformDataset
  rw [hf]
  rcases h1 with h | h <;> rcases h2 with h' | h' <;> simp [h, h']

section errors
variable {α : Type} [Field α] [LinearOrder α] [IsStrictOrderedRing α] [Transc α]

/-- **empty training data is rejected with an error** by every fit -/
theorem empty_rejected {ε : Type} (eps : α) (p : Nat) (wm ws : Bool) (lo hi : α)
    (decomp : List (List α) → Except ε (List (List α))) :
    fitStandard eps p [] wm ws = .error .notEnoughSamples ∧
    fitMinMax eps p [] lo hi = .error .notEnoughSamples ∧
    fitMaxAbs eps p [] = .error .notEnoughSamples ∧
    whitenFit decomp p ([] : List (List α)) = .error (.inl .notEnoughSamples) := by
  simp [fitStandard, fitMinMax, fitMaxAbs, whitenFit]

/-- a flipped range is rejected -/
theorem flipped_range_rejected (eps : α) (p : Nat) (rows : List (List α)) (lo hi : α)
    (hn : rows ≠ []) (h : hi < lo) : fitMinMax eps p rows lo hi = .error .flippedMinMaxRange := by
  have hlen : ¬ rows.length = 0 := by
    intro h; exact hn (List.length_eq_zero_iff.mp h)
  unfold fitMinMax; rw [if_neg hlen, if_pos h]

/-! ### whitening: identity sample covariance (all `p`), centred output, fixed affine row map -/

/-- what `Whitener::fit` returns: on non-empty data the column means and the matrix the external
factorisation produced **for the centred data** `X - mean` -/
theorem whiten_fit_spec {ε : Type} (decomp : List (List α) → Except ε (List (List α))) (p : Nat)
    (rows W : List (List α)) (hn : rows ≠ [])
    (hd : decomp (rows.map fun r => List.zipWith (fun x m => x - m) r ((cols p rows).map meanCol)) = .ok W) :
    whitenFit decomp p rows = .ok ((cols p rows).map meanCol, W) := by
  have hlen : ¬ rows.length = 0 := by
    intro h; exact hn (List.length_eq_zero_iff.mp h)
  unfold whitenFit
  rw [if_neg hlen]
  simp only [hd]

/-- **the whitened training data is centred**: every output column has mean zero -/
theorem whiten_zero_mean (p : Nat) (rows W : List (List α)) (hn : rows ≠ [])
    (hrows : ∀ r ∈ rows, r.length = p) (hW : ∀ w ∈ W, w.length = p) (a : Nat) (ha : a < W.length) :
    meanCol (col (whitenTransform ((cols p rows).map meanCol) W rows) a) = 0 :=
  meanCol_whitened_zero p rows W hn hrows hW a ha

/-- **sample covariance of the whitened training data = `W · cov(X) · Wᵀ`**, for every number of
features `p`, every `q × p` matrix `W` and every entry `(a, b)`; `covE` is the sample covariance with
divisor `n - 1` around the column means (`covE_diag_is_var`: its diagonal is ndarray's `var_axis(ddof = 1)`). -/
theorem whiten_cov_is_WSWt (p : Nat) (rows W : List (List α)) (hn : rows ≠ [])
    (hrows : ∀ r ∈ rows, r.length = p) (hW : ∀ w ∈ W, w.length = p) (a b : Nat)
    (ha : a < W.length) (hb : b < W.length) :
    covE (whitenTransform ((cols p rows).map meanCol) W rows) a b =
      ∑ i ∈ Finset.range p, ∑ j ∈ Finset.range p, wE W a i * covE rows i j * wE W b j :=
  covE_whitened p rows W hn hrows hW a b ha hb

/-- **whitening gives identity sample covariance** whenever the factorisation meets its contract
`W · cov(X) · Wᵀ = I` (what SVD / Cholesky deliver on full-rank data; checked numerically on every
full-rank case by the harness): fit succeeds, and the covariance of the transformed training data
is the identity matrix, entry by entry.  (Replaces the former one-feature `…_partial`.) -/
theorem whiten_identity_cov {ε : Type} (decomp : List (List α) → Except ε (List (List α))) (p : Nat)
    (rows W : List (List α)) (hn : rows ≠ []) (hrows : ∀ r ∈ rows, r.length = p)
    (hW : ∀ w ∈ W, w.length = p)
    (hd : decomp (rows.map fun r => List.zipWith (fun x m => x - m) r ((cols p rows).map meanCol)) = .ok W)
    (hcert : ∀ a b, a < W.length → b < W.length →
      ∑ i ∈ Finset.range p, ∑ j ∈ Finset.range p, wE W a i * covE rows i j * wE W b j =
        if a = b then 1 else 0) :
    ∃ mean, whitenFit decomp p rows = .ok (mean, W) ∧
      ∀ a b, a < W.length → b < W.length →
        covE (whitenTransform mean W rows) a b = if a = b then 1 else 0 := by
  refine ⟨_, whiten_fit_spec decomp p rows W hn hd, ?_⟩
  intro a b ha hb
  rw [covE_whitened p rows W hn hrows hW a b ha hb, hcert a b ha hb]

/-- the diagonal of `covE` is ndarray's `var_axis(Axis(0), ddof = 1)` (Welford) of the column -/
theorem covE_diag_is_var (rows : List (List α)) (a : Nat) (hn : rows ≠ []) :
    covE rows a a = varCol 1 (col rows a) := by
  have hc : col rows a ≠ [] := col_ne_nil rows a hn
  have hnn := (length_pos_cast hc).ne'
  unfold covE varCol
  rw [welford_state]
  have hl : (col rows a).length = rows.length := by simp [col]
  have e : (rows.map fun r => (r.getD a 0 - meanCol (col rows a)) * (r.getD a 0 - meanCol (col rows a))) =
      (col rows a).map fun x => (1 * x + -meanCol (col rows a)) * (1 * x + -meanCol (col rows a)) := by
    unfold col; rw [List.map_map]; apply List.map_congr_left; intro r _
    simp only [Function.comp_def]; ring
  rw [e, sumsq_map_affine, meanCol_eq, hl]
  rw [hl] at hnn
  congr 1
  field_simp
  ring

/-- **whitening is a fixed affine map of the row**: output entry `a` is the linear form
`Σ_i W_ai · r_i` minus the constant `Σ_i W_ai · mean_i` fixed at fit time -/
theorem whiten_row_affine (p : Nat) (mean : List α) (W : List (List α)) (r : List α)
    (hm : mean.length = p) (hr : r.length = p) (hW : ∀ w ∈ W, w.length = p) (a : Nat)
    (ha : a < W.length) :
    (whitenRow mean W r).getD a 0 =
      (∑ i ∈ Finset.range p, wE W a i * r.getD i 0) - ∑ i ∈ Finset.range p, wE W a i * mean.getD i 0 := by
  rw [whitenRow_getD p mean W r hm hr hW a ha, ← Finset.sum_sub_distrib]
  apply Finset.sum_congr rfl
  intro i _
  ring

/-- norm scaling and whitening **commute with row selection** (any index list, repetitions allowed) -/
theorem norm_whiten_commute_with_selection (k : NormKind) (mean : List α) (W rows : List (List α))
    (sel : List Nat) :
    normTransform k (sel.filterMap (rows[·]?)) = sel.filterMap ((normTransform k rows)[·]?) ∧
    whitenTransform mean W (sel.filterMap (rows[·]?)) =
      sel.filterMap ((whitenTransform mean W rows)[·]?) := by
  constructor
  · unfold normTransform
    rw [List.map_filterMap]
    apply List.filterMap_congr
    intro i _
    simp [List.getElem?_map]
  · unfold whitenTransform
    rw [List.map_filterMap]
    apply List.filterMap_congr
    intro i _
    simp [List.getElem?_map]

/-! ### PCA whitening: the certificate is discharged from the contract of the SVD; the floor -/

/-- the centred records `X - mean` handed to the factorisations -/
def centredRows (p : Nat) (rows : List (List α)) : List (List α) :=
  rows.map fun r => List.zipWith (fun x m => x - m) r ((cols p rows).map meanCol)

/-- **covariance of PCA-whitened training data, for every dataset** (any targets / weights / names, which
the fit does not read): if the parameter object's method is PCA and the external `svd(false, true)` of the
centred records returns `(s, Vᵀ)` meeting the contract of an SVD — Gram identity
`(X-μ)ᵀ(X-μ) = V diag(s²) Vᵀ`, orthonormal rows of `Vᵀ` — then `Whitener::fit` (as `whitenFitDataset`,
the function the driver runs) succeeds and the sample covariance of the whitened training data is
**diagonal with entries `s_a² / max(s_a, floor)²`**.  Needs two rows (`n - 1 > 0`). -/
theorem pca_fit_cov {ε T W : Type} (hsq : SqrtContract α) (floor : α) (hf : 0 < floor) (ext : Factor α ε)
    (q : WParams) (hq : q.method = .pca) (p : Nat) (ds : DS (List (List α)) T W)
    (h2 : 2 ≤ ds.records.length) (hrows : ∀ r ∈ ds.records, r.length = p)
    (s : List α) (vt : List (List α)) (hsvd : ext.svdVt (centredRows p ds.records) = .ok (s, vt))
    (hs : s.length = vt.length) (hvt : ∀ w ∈ vt, w.length = p)
    (hgram : ∀ i j, i < p → j < p →
      (ds.records.map fun r => (r.getD i 0 - meanCol (col ds.records i)) *
          (r.getD j 0 - meanCol (col ds.records j))).sum =
        ∑ k ∈ Finset.range vt.length, wE vt k i * (s.getD k 0 * s.getD k 0) * wE vt k j)
    (horth : ∀ a b, a < vt.length → b < vt.length →
      ∑ i ∈ Finset.range p, wE vt a i * wE vt b i = if a = b then 1 else 0) :
    ∃ mean Wm, whitenFitDataset floor ext q p ds = .ok (mean, Wm) ∧ Wm.length = vt.length ∧
      ∀ a b, a < vt.length → b < vt.length →
        covE (whitenTransform mean Wm ds.records) a b =
          if a = b then (s.getD a 0 * s.getD a 0) / (maxS (s.getD a 0) floor * maxS (s.getD a 0) floor)
          else 0 := by
  have hn : ds.records ≠ [] := by
    intro h; rw [h] at h2; simp at h2
  have hd : whitenDecomp floor ds.records.length ext .pca
      (ds.records.map fun r => List.zipWith (fun x m => x - m) r ((cols p ds.records).map meanCol)) =
      .ok (pcaAssemble floor ds.records.length s vt) := by
    have := hsvd
    unfold centredRows at this
    simp only [whitenDecomp, this]
  refine ⟨(cols p ds.records).map meanCol, pcaAssemble floor ds.records.length s vt, ?_,
    pcaAssemble_length floor _ s vt hs, ?_⟩
  · unfold whitenFitDataset whitenFitParams
    rw [hq]
    exact whiten_fit_spec _ p ds.records _ hn hd
  · intro a b ha hb
    have hWl := pcaAssemble_length floor ds.records.length s vt hs
    rw [covE_whitened p ds.records _ hn hrows (pcaAssemble_row_length floor _ s vt p hvt) a b
      (hWl ▸ ha) (hWl ▸ hb)]
    exact pca_WSWt hsq floor hf p ds.records s vt h2 hs hgram horth a b ha hb

/-- **PCA whitening gives identity sample covariance on full-rank data** — "full rank" in the form the code
decides it: no singular value of the centred data below the floor (`1e-8`).  The certificate `W cov Wᵀ = I`
that `whiten_identity_cov` assumes is *derived* here from the SVD contract. -/
theorem pca_whitens {ε T W : Type} (hsq : SqrtContract α) (floor : α) (hf : 0 < floor) (ext : Factor α ε)
    (q : WParams) (hq : q.method = .pca) (p : Nat) (ds : DS (List (List α)) T W)
    (h2 : 2 ≤ ds.records.length) (hrows : ∀ r ∈ ds.records, r.length = p)
    (s : List α) (vt : List (List α)) (hsvd : ext.svdVt (centredRows p ds.records) = .ok (s, vt))
    (hs : s.length = vt.length) (hvt : ∀ w ∈ vt, w.length = p)
    (hgram : ∀ i j, i < p → j < p →
      (ds.records.map fun r => (r.getD i 0 - meanCol (col ds.records i)) *
          (r.getD j 0 - meanCol (col ds.records j))).sum =
        ∑ k ∈ Finset.range vt.length, wE vt k i * (s.getD k 0 * s.getD k 0) * wE vt k j)
    (horth : ∀ a b, a < vt.length → b < vt.length →
      ∑ i ∈ Finset.range p, wE vt a i * wE vt b i = if a = b then 1 else 0)
    (hfloor : ∀ a, a < vt.length → floor ≤ s.getD a 0) :
    ∃ mean Wm, whitenFitDataset floor ext q p ds = .ok (mean, Wm) ∧ Wm.length = vt.length ∧
      ∀ a b, a < vt.length → b < vt.length →
        covE (whitenTransform mean Wm ds.records) a b = if a = b then 1 else 0 := by
  obtain ⟨mean, Wm, h1, h2', h3⟩ := pca_fit_cov hsq floor hf ext q hq p ds h2 hrows s vt hsvd hs hvt hgram horth
  refine ⟨mean, Wm, h1, h2', ?_⟩
  intro a b ha hb
  rw [h3 a b ha hb]
  by_cases hab : a = b
  · simp only [if_pos hab]
    have hmax : maxS (s.getD a 0) floor = s.getD a 0 := by
      unfold maxS; rw [if_neg (not_lt.mpr (hfloor a ha))]
    have hpos : 0 < s.getD a 0 := lt_of_lt_of_le hf (hfloor a ha)
    rw [hmax]; exact div_self (mul_pos hpos hpos).ne'
  · simp only [if_neg hab]

/-- **below the floor the data is not whitened** (open finding `C16-whiten-pca-tiny-scale`, for every dataset):
a singular value `0 ≤ s_a < floor` is replaced by the floor, and the variance of the whitened component `a`
is `(s_a / floor)² < 1`. -/
theorem pca_floor_hit_not_white {ε T W : Type} (hsq : SqrtContract α) (floor : α) (hf : 0 < floor)
    (ext : Factor α ε) (q : WParams) (hq : q.method = .pca) (p : Nat) (ds : DS (List (List α)) T W)
    (h2 : 2 ≤ ds.records.length) (hrows : ∀ r ∈ ds.records, r.length = p)
    (s : List α) (vt : List (List α)) (hsvd : ext.svdVt (centredRows p ds.records) = .ok (s, vt))
    (hs : s.length = vt.length) (hvt : ∀ w ∈ vt, w.length = p)
    (hgram : ∀ i j, i < p → j < p →
      (ds.records.map fun r => (r.getD i 0 - meanCol (col ds.records i)) *
          (r.getD j 0 - meanCol (col ds.records j))).sum =
        ∑ k ∈ Finset.range vt.length, wE vt k i * (s.getD k 0 * s.getD k 0) * wE vt k j)
    (horth : ∀ a b, a < vt.length → b < vt.length →
      ∑ i ∈ Finset.range p, wE vt a i * wE vt b i = if a = b then 1 else 0)
    (a : Nat) (ha : a < vt.length) (hnn : 0 ≤ s.getD a 0) (hlow : s.getD a 0 < floor) :
    ∃ mean Wm, whitenFitDataset floor ext q p ds = .ok (mean, Wm) ∧
      covE (whitenTransform mean Wm ds.records) a a = (s.getD a 0 * s.getD a 0) / (floor * floor) ∧
      covE (whitenTransform mean Wm ds.records) a a < 1 := by
  obtain ⟨mean, Wm, h1, _, h3⟩ := pca_fit_cov hsq floor hf ext q hq p ds h2 hrows s vt hsvd hs hvt hgram horth
  have hmax : maxS (s.getD a 0) floor = floor := by unfold maxS; rw [if_pos hlow]
  have hval := h3 a a ha ha
  rw [if_pos rfl, hmax] at hval
  refine ⟨mean, Wm, h1, hval, ?_⟩
  rw [hval, div_lt_one (mul_pos hf hf)]
  exact mul_lt_mul'' hlow hlow hnn hnn

/-- **the fit reads the records only**: targets, sample weights and names of the training dataset do not
influence the fitted scaler / whitener (`self.method.fit(x.records())`, `x.records()` / `x.nsamples()`) —
stated for `fitDataset` / `whitenFitDataset`, the functions the driver answers the requests through
(the harness fits on weighted datasets in a third of the cases). -/
theorem fit_ignores_weights_targets {ε T W T' W' : Type} (eps floor : α) (p : Nat) (qp : Params α) (qw : WParams)
    (ext : Factor α ε) (ds : DS (List (List α)) T W) (t' : T') (w' : W') (fn tn : List String) :
    fitDataset eps p qp { records := ds.records, targets := t', weights := w', featureNames := fn, targetNames := tn } =
      fitDataset eps p qp ds ∧
    whitenFitDataset floor ext qw p
        { records := ds.records, targets := t', weights := w', featureNames := fn, targetNames := tn } =
      whitenFitDataset floor ext qw p ds :=
  ⟨rfl, rfl⟩

end errors

/-! ### the guards are not vacuous, and what happens below them -/

/-- **counter-example to the unguarded statement** (open finding `C16-sub-eps-minmax`): with the
machine epsilon `2^-52`, the non-constant column `[0, 2^-60]` is *not* mapped onto `[0,1]` —
the guard treats it as constant and the upper end stays `2^-60`. -/
theorem minmax_sub_eps_not_scaled :
    let eps : Rat := 1 / 2 ^ 52
    ∃ sc y, fitMinMax eps 1 [[0], [1 / 2 ^ 60]] 0 1 = .ok sc ∧
      transform sc 1 [[0], [1 / 2 ^ 60]] = some y ∧ (1 : Rat) ∉ col y 0 := by
  refine ⟨_, _, rfl, rfl, ?_⟩
  simp [col, cols, transformRow, transformCell, minCol, maxCol, invOrOne, absDiffEq, absS,
    List.range, List.range.loop]
  norm_num


/-! ### non-vacuity: the hypotheses are satisfiable on concrete, non-trivial values -/
section nonvacuity

/-- shape hypotheses (`standard_zero_mean`, `no_mean_keeps_mean`, `no_std_keeps_spread`,
`transform_*`): a 2 × 2 matrix -/
example : ([[1, 2], [3, 5]] : List (List ℚ)) ≠ [] ∧
    ∀ r ∈ ([[1, 2], [3, 5]] : List (List ℚ)), r.length = 2 := by simp

/-- guard of `minmax_range_attained` with the machine epsilon -/
example : (1 / 2 ^ 52 : ℚ) < maxCol (col [[1, 2], [3, 5]] 1) - minCol (col [[1, 2], [3, 5]] 1) := by
  simp [col, maxCol, minCol]; norm_num

/-- guard of `maxabs_one` -/
example : (1 / 2 ^ 52 : ℚ) < normMax (col [[1, -2], [3, 5]] 1) := by
  simp [col, normMax, maxS, absS]; norm_num

/-- `constant_only_centred`: a constant column next to a varying one -/
example : ∀ x ∈ col ([[7, 2], [7, 5]] : List (List ℚ)) 0, x = 7 := by simp [col]

/-- `norm_unit` / `norm_zero_row_unchanged`: a non-zero row and a zero row -/
example : (∃ x ∈ ([3, -4] : List ℚ), x ≠ 0) ∧ (∀ x ∈ ([0, 0] : List ℚ), x = 0) :=
  ⟨⟨3, by simp, by norm_num⟩, by simp⟩

/-- `metadata_passthrough`: a dataset form that succeeds -/
example : transformDataset (R := Nat) (R' := Nat) (T := List Nat) (W := List Nat)
    (fun r => some r) id List.length ⟨2, [10, 11], [1, 1], ["a", "b"], []⟩ =
    some ⟨2, [10, 11], [1, 1], ["a", "b"], []⟩ := by simp [transformDataset]

/-- `whiten_identity_cov`: the certificate is satisfiable on non-trivial data — two uncorrelated
features with sample variances 4 and 1, `W = diag(1/2, 1)` -/
example :
    let rows : List (List ℚ) := [[2, 1], [-2, 1], [2, -1], [-2, -1], [0, 0]]
    let W : List (List ℚ) := [[1 / 2, 0], [0, 1]]
    ∀ a b, a < W.length → b < W.length →
      ∑ i ∈ Finset.range 2, ∑ j ∈ Finset.range 2, wE W a i * covE rows i j * wE W b j =
        if a = b then 1 else 0 := by
  intro rows W a b ha hb
  have ha' : a < 2 := ha
  have hb' : b < 2 := hb
  have h2a : a = 0 ∨ a = 1 := by omega
  have h2b : b = 0 ∨ b = 1 := by omega
  rcases h2a with rfl | rfl <;> rcases h2b with rfl | rfl <;>
    simp [Finset.sum_range_succ, wE, covE, col, meanCol, sumS, rows, W] <;> norm_num

/-- `minmax_constant_to_lo` / `calling_forms_agree`: a constant column next to a varying one; the setter on a
max-abs parameter object -/
example : (∀ x ∈ col ([[7, 2], [7, 5]] : List (List ℚ)) 0, x = 7) ∧
    ((Params.maxAbs (α := ℚ)).setMethod (.standard true false)).method = .standard true false := by
  simp [col, Params.setMethod]

/-- `standard_sub_eps_unscaled` / `maxabs_sub_eps_unscaled`: a non-constant column below the machine epsilon -/
example : normMax (col ([[1 / 2 ^ 60], [1 / 2 ^ 61]] : List (List ℚ)) 0) ≤ 1 / 2 ^ 52 := by
  simp [col, normMax, maxS, absS]; norm_num

/-- `pca_whitens` / `pca_fit_cov`: the SVD contract is satisfiable on non-trivial data — two uncorrelated
centred features with Gram matrix `diag(16, 4)`, `Vᵀ = I`, `s = [4, 2]`, all above the floor `1e-8` -/
example :
    let rows : List (List ℚ) := [[2, 1], [-2, 1], [2, -1], [-2, -1]]
    let vt : List (List ℚ) := [[1, 0], [0, 1]]
    let s : List ℚ := [4, 2]
    (∀ i j, i < 2 → j < 2 →
      (rows.map fun r => (r.getD i 0 - meanCol (col rows i)) * (r.getD j 0 - meanCol (col rows j))).sum =
        ∑ k ∈ Finset.range vt.length, wE vt k i * (s.getD k 0 * s.getD k 0) * wE vt k j) ∧
    (∀ a b, a < vt.length → b < vt.length →
      ∑ i ∈ Finset.range 2, wE vt a i * wE vt b i = if a = b then 1 else 0) ∧
    (∀ a, a < vt.length → (1 / 10 ^ 8 : ℚ) ≤ s.getD a 0) := by
  intro rows vt s
  refine ⟨?_, ?_, ?_⟩
  · intro i j hi hj
    have h2a : i = 0 ∨ i = 1 := by omega
    have h2b : j = 0 ∨ j = 1 := by omega
    rcases h2a with rfl | rfl <;> rcases h2b with rfl | rfl <;>
      simp [Finset.sum_range_succ, wE, col, meanCol, sumS, rows, vt, s] <;> norm_num
  · intro a b ha hb
    have ha' : a < 2 := ha
    have hb' : b < 2 := hb
    have h2a : a = 0 ∨ a = 1 := by omega
    have h2b : b = 0 ∨ b = 1 := by omega
    rcases h2a with rfl | rfl <;> rcases h2b with rfl | rfl <;>
      simp [Finset.sum_range_succ, wE, vt]
  · intro a ha
    have ha' : a < 2 := ha
    have h2a : a = 0 ∨ a = 1 := by omega
    rcases h2a with rfl | rfl <;> simp [s] <;> norm_num

/-- `pca_floor_hit_not_white`: a singular value below the floor — `s = [1 / 10^9]` against the floor `1 / 10^8` -/
example : (0 : ℚ) ≤ ([1 / 10 ^ 9] : List ℚ).getD 0 0 ∧ ([1 / 10 ^ 9] : List ℚ).getD 0 0 < 1 / 10 ^ 8 := by
  simp; norm_num

noncomputable local instance : Transc ℝ := ⟨Real.sqrt, id, id⟩

/-- `fit_ignores_weights_targets`: a weighted dataset and the same records without weights reach the same fit -/
example : fitDataset (T := Unit) (W := List Nat) (1 / 2 ^ 52 : ℝ) 1 (Params.minMax)
      { records := [[1], [3]], targets := (), weights := [5, 1], featureNames := [], targetNames := [] } =
    fitMinMax (1 / 2 ^ 52 : ℝ) 1 [[1], [3]] 0 1 := rfl


/-- the square-root contract holds for the real square root -/
example : SqrtContract ℝ := fun x hx => ⟨Real.mul_self_sqrt hx, Real.sqrt_nonneg x⟩

/-- guard of `standard_unit_var` on real data: the column `[0, 2]` has standard deviation 1 -/
example : (1 / 2 : ℝ) < stdCol (col [[0], [2]] 0) := by
  unfold stdCol
  rw [varCol_eq]
  have : (((List.map (fun x => x * x) (col ([[0], [2]] : List (List ℝ)) 0)).sum -
      (col ([[0], [2]] : List (List ℝ)) 0).sum * (col ([[0], [2]] : List (List ℝ)) 0).sum /
        ((col ([[0], [2]] : List (List ℝ)) 0).length : ℝ)) /
      ((col ([[0], [2]] : List (List ℝ)) 0).length : ℝ)) = 1 := by
    simp [col]; norm_num
  rw [this]
  show (1 / 2 : ℝ) < Real.sqrt 1
  rw [Real.sqrt_one]; norm_num

end nonvacuity

end LinfaSpec.Props.C16
