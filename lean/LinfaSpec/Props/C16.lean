import LinfaSpec.Proofs.Scaling

/-!
# C16 — scalers and whiteners achieve their normalisation and act as fixed row-wise maps

Theorems about `LinfaSpec.Scaling` (model of `linear_scaling.rs`, `norm_scaling.rs`,
the transform side of `whitening.rs`), over every ordered field `α`; the square
root enters only through its contract `SqrtContract` (`sqrt x * sqrt x = x`,
`sqrt x ≥ 0` for `x ≥ 0`).  A record matrix is `rows : List (List α)` with all
rows of length `p`; `col y j` is column `j`.  `eps` is the epsilon of the
`abs_diff_eq!` guards (machine ε in the code), only `0 ≤ eps` is used.
Hypotheses are the code's guards: non-empty data, and for the scaled variants
"the guard did not fire" (`eps < std`, `eps < max - min`, `eps < max|x|`).
-/
namespace LinfaSpec.Props.C16
open LinfaSpec LinfaSpec.Scaling LinfaSpec.Proofs.Scaling

set_option linter.unusedSectionVars false
set_option linter.unusedVariables false

section linear
variable {α : Type} [Field α] [LinearOrder α] [IsStrictOrderedRing α] [Transc α]

/-- the scale the standard scaler uses for a column -/
def stdScale (eps : α) (ws : Bool) (c : List α) : α := if ws then invOrOne eps (stdCol c) else 1

/-- **fit + transform of the standard scaler, column by column**: fitting never fails on
non-empty data, the transform of the training data is defined, and its column `j` is the
affine image `x ↦ S·x + B` of the input column with `S` the guarded inverse standard
deviation and `B = -M·S` (with mean) or `M - M·S` (without), `M` the column mean. -/
theorem standard_column (eps : α) (p : Nat) (rows : List (List α)) (wm ws : Bool)
    (hn : rows ≠ []) (hrows : ∀ r ∈ rows, r.length = p) (j : Nat) (hj : j < p) :
    ∃ sc y, fitStandard eps p rows wm ws = .ok sc ∧ transform sc p rows = some y ∧
      col y j = (col rows j).map fun x =>
        stdScale eps ws (col rows j) * x +
          (if wm then -(meanCol (col rows j) * stdScale eps ws (col rows j))
           else meanCol (col rows j) - meanCol (col rows j) * stdScale eps ws (col rows j)) := by
  have hlen : ¬ rows.length = 0 := by
    intro h; exact hn (List.length_eq_zero_iff.mp h)
  let sc : Scaler α :=
    { offsets := (cols p rows).map meanCol
      scales := if ws then (cols p rows).map (fun c => invOrOne eps (stdCol c)) else (cols p rows).map (fun _ => 1)
      method := .standard wm ws }
  have hfit : fitStandard eps p rows wm ws = .ok sc := by
    unfold fitStandard; rw [if_neg hlen]
  have ho : sc.offsets.length = p := by simp [sc, cols]
  have hs : sc.scales.length = p := by
    simp only [sc]; split <;> simp [cols]
  refine ⟨sc, rows.map (transformRow sc), hfit, transform_some sc p rows ho hrows, ?_⟩
  rw [col_map_transformRow sc p rows ho hs hrows j hj]
  have hoj : sc.offsets.getD j 0 = meanCol (col rows j) := getD_cols_map meanCol p rows j hj
  have hsj : sc.scales.getD j 0 = stdScale eps ws (col rows j) := by
    simp only [sc, stdScale]
    cases ws
    · simpa using getD_cols_map (fun _ => (1 : α)) p rows j hj
    · simpa using getD_cols_map (fun c => invOrOne eps (stdCol c)) p rows j hj
  rw [hoj, hsj]
  apply List.map_congr_left
  intro x _
  cases wm <;> simp [transformCell, sc] <;> ring

theorem col_ne_nil (rows : List (List α)) (j : Nat) (hn : rows ≠ []) : col rows j ≠ [] := by
  unfold col; simpa using hn

/-- **standard scaling yields zero column means** (every `with_std`, every column —
constant or not): fitted on non-empty data and applied to it. -/
theorem standard_zero_mean (eps : α) (p : Nat) (rows : List (List α)) (ws : Bool)
    (hn : rows ≠ []) (hrows : ∀ r ∈ rows, r.length = p) (j : Nat) (hj : j < p) :
    ∃ sc y, fitStandard eps p rows true ws = .ok sc ∧ transform sc p rows = some y ∧
      meanCol (col y j) = 0 := by
  obtain ⟨sc, y, h1, h2, h3⟩ := standard_column eps p rows true ws hn hrows j hj
  refine ⟨sc, y, h1, h2, ?_⟩
  rw [h3, meanCol_affine _ (col_ne_nil rows j hn)]
  simp only [if_true]; ring

/-- **the no-mean variant keeps the column mean** -/
theorem no_mean_keeps_mean (eps : α) (p : Nat) (rows : List (List α)) (ws : Bool)
    (hn : rows ≠ []) (hrows : ∀ r ∈ rows, r.length = p) (j : Nat) (hj : j < p) :
    ∃ sc y, fitStandard eps p rows false ws = .ok sc ∧ transform sc p rows = some y ∧
      meanCol (col y j) = meanCol (col rows j) := by
  obtain ⟨sc, y, h1, h2, h3⟩ := standard_column eps p rows false ws hn hrows j hj
  refine ⟨sc, y, h1, h2, ?_⟩
  rw [h3, meanCol_affine _ (col_ne_nil rows j hn)]
  simp only [Bool.false_eq_true, if_false]; ring

/-- **standard scaling yields unit variance on every column the guard treats as
non-constant** (`eps < std`), with or without centring.  `varCol 0` is ndarray's
Welford recurrence, equal to the textbook variance by `welford_is_variance`. -/
theorem standard_unit_var (hsq : SqrtContract α) (eps : α) (h0 : 0 ≤ eps) (p : Nat)
    (rows : List (List α)) (wm : Bool)
    (hn : rows ≠ []) (hrows : ∀ r ∈ rows, r.length = p) (j : Nat) (hj : j < p)
    (hstd : eps < stdCol (col rows j)) :
    ∃ sc y, fitStandard eps p rows wm true = .ok sc ∧ transform sc p rows = some y ∧
      varCol 0 (col y j) = 1 := by
  obtain ⟨sc, y, h1, h2, h3⟩ := standard_column eps p rows wm true hn hrows j hj
  refine ⟨sc, y, h1, h2, ?_⟩
  rw [h3, varCol_affine]
  simp only [stdScale, if_true]
  rw [invOrOne_of_gt eps _ h0 hstd]
  have hpos : 0 < stdCol (col rows j) := lt_of_le_of_lt h0 hstd
  have hv := (hsq (varCol 0 (col rows j)) (varCol_nonneg _)).1
  unfold stdCol at hpos ⊢
  generalize Transc.sqrt (varCol 0 (col rows j)) = σ at hpos hv ⊢
  rw [← hv]
  field_simp

/-- **the no-std variant keeps the spread** (variance unchanged) -/
theorem no_std_keeps_spread (eps : α) (p : Nat) (rows : List (List α)) (wm : Bool)
    (hn : rows ≠ []) (hrows : ∀ r ∈ rows, r.length = p) (j : Nat) (hj : j < p) :
    ∃ sc y, fitStandard eps p rows wm false = .ok sc ∧ transform sc p rows = some y ∧
      varCol 0 (col y j) = varCol 0 (col rows j) := by
  obtain ⟨sc, y, h1, h2, h3⟩ := standard_column eps p rows wm false hn hrows j hj
  refine ⟨sc, y, h1, h2, ?_⟩
  rw [h3, varCol_affine]
  simp [stdScale]

/-- **constant columns are only centred**: a constant column `c` is mapped to all zeros
with centring and is left as it is without, whatever `with_std` says (scale 1). -/
theorem constant_only_centred (hsq : SqrtContract α) (eps : α) (h0 : 0 ≤ eps) (p : Nat)
    (rows : List (List α)) (wm ws : Bool)
    (hn : rows ≠ []) (hrows : ∀ r ∈ rows, r.length = p) (j : Nat) (hj : j < p)
    (c : α) (hc : ∀ x ∈ col rows j, x = c) :
    ∃ sc y, fitStandard eps p rows wm ws = .ok sc ∧ transform sc p rows = some y ∧
      col y j = (col rows j).map fun _ => if wm then 0 else c := by
  obtain ⟨sc, y, h1, h2, h3⟩ := standard_column eps p rows wm ws hn hrows j hj
  refine ⟨sc, y, h1, h2, ?_⟩
  have hS : stdScale eps ws (col rows j) = 1 := by
    unfold stdScale
    cases ws
    · simp
    · simp only [if_true]
      unfold stdCol
      rw [varCol_const _ c hc, sqrt_zero_of hsq, invOrOne_zero eps h0]
  rw [h3, hS, meanCol_const _ (col_ne_nil rows j hn) c hc]
  apply List.map_congr_left
  intro x hx
  rw [hc x hx]
  cases wm <;> simp

/-- ndarray's `var_axis` (Welford) **is** the population variance `Σ(x - mean)² / n` -/
theorem welford_is_variance (l : List α) (h : l ≠ []) :
    varCol 0 l = (l.map fun x => (x - meanCol l) * (x - meanCol l)).sum / (l.length : α) :=
  varCol_textbook l h

end linear

end LinfaSpec.Props.C16
