import LinfaSpec.Model.Scaling

/-!
# C16 — scalers and whiteners achieve their normalisation and act as fixed row-wise maps
-/
namespace LinfaSpec.Props.C16
open LinfaSpec LinfaSpec.Scaling

section
variable {α : Type} [Add α] [Sub α] [Mul α] [Div α] [Neg α] [LT α] [DecidableLT α]
  [LE α] [DecidableLE α] [OfNat α 0] [OfNat α 1] [NatCast α]

/-- **empty training data is rejected** by min-max and max-abs fitting -/
theorem empty_rejected_minmax_maxabs (eps : α) (p : Nat) (lo hi : α) :
    fitMinMax eps p [] lo hi = .error .notEnoughSamples ∧
    fitMaxAbs eps p [] = .error .notEnoughSamples := by
  simp [fitMinMax, fitMaxAbs]

end
end LinfaSpec.Props.C16
