import LinfaSpec.Gen.Vectors
import LinfaSpec.Model.Pca

/-!
# C18 — obligations about the PCA accessors GENERATED from the Rust source

`LinfaSpec.Gen.Vectors.Pca` is regenerated from `algorithms/linfa-reduction/src/pca.rs`
(`Pca::explained_variance`, `Pca::explained_variance_ratio`, read over the fields `sigma` and
`n_samples`) on every check by `tools/vec2lean.py`.  The theorems state that the generated text is
the model's `Pca.explainedVariance` / `explainedVarianceRatio` — the functions the C18 theorems
about "explained variances are the squared singular values over n − 1" are about — in every scalar
carrier (also `Float`, the carrier the driver runs).  The fixed finding
C18-explained-variance-divisor (divisor `k − 1` instead of `n_samples − 1`) is exactly a change of
this text.
-/
set_option linter.unusedSectionVars false
namespace LinfaSpec.Props.GenC18
open LinfaSpec LinfaSpec.Gen.Vectors

section generic
variable {α : Type} [Add α] [Sub α] [Mul α] [Div α] [Neg α] [LT α] [DecidableLT α] [LE α] [DecidableLE α]
  [DecidableEq α] [OfNat α 0] [OfNat α 1] [NatCast α] [OfScientific α] [Transc α]

/-- `explained_variance`: `sigma_i² / (n_samples − 1)` -/
theorem explained_variance_is_model (m : LinfaSpec.Pca.Model α) :
    Gen.Vectors.Pca.explained_variance m.sigma m.nSamples = LinfaSpec.Pca.explainedVariance m := rfl

/-- `explained_variance_ratio`: the explained variances over their left-to-right sum -/
theorem explained_variance_ratio_is_model (m : LinfaSpec.Pca.Model α) :
    Gen.Vectors.Pca.explained_variance_ratio m.sigma m.nSamples = LinfaSpec.Pca.explainedVarianceRatio m := rfl

end generic

example : Gen.Vectors.Pca.explained_variance ([6, 3] : List Rat) 10 = [4, 1] := by decide +kernel

end LinfaSpec.Props.GenC18
